#!/opt/veriftools/pyvenv/bin/python
"""Statistical tier of property C16 — run under python3-vt (numpy, scipy).

    python3-vt tools/diststat.py < jobs.json > results.json

jobs.json: {"exe": path of harness distdrv, "workers": k, "jobs": [{"name", "params", "n", "seed"}, ...]}
For every job: `distdrv stat` draws n samples from the real library after cmb_random_initialize(seed); then
  * support: every value finite and inside the mathematical support (exact, no tolerance),
  * first two moments against theory, tolerance 6.5 standard errors of the respective estimator (where the needed moments exist),
  * continuous: Kolmogorov-Smirnov distance against the exact CDF, threshold 3.3 / sqrt(n)   (P(false alarm) about 7e-10),
    discrete: chi-square of the bin frequencies against the exact pmf (bins with expectation < 10 merged), threshold the
    1 - 1e-9 quantile.
THIS IS STATISTICAL TEST EVIDENCE, NOT PROOF: it can only fail to find a deviation.
"""
import json
import math
import subprocess
import sys
from concurrent.futures import ProcessPoolExecutor

import numpy as np
import scipy.stats as st

NSIG = 6.5
KS_C = 3.3
CHI_P = 1e-9


class Custom:
    """continuous distribution given by cdf / mean / var / fourth central moment (None = do not test)"""
    def __init__(self, cdf, mean=None, var=None, m4=None):
        self.cdf, self.mean, self.var, self.m4 = cdf, mean, var, m4


def hypoexp(ms):
    lam = [1.0 / m for m in ms]

    def cdf(x):
        if len(lam) == 1:
            return 1.0 - np.exp(-lam[0] * x)
        s = np.zeros_like(x)
        for i, li in enumerate(lam):
            c = 1.0
            for j, lj in enumerate(lam):
                if j != i:
                    c *= lj / (lj - li)
            s += c * np.exp(-li * x)
        return 1.0 - s
    return Custom(cdf, sum(ms), sum(m * m for m in ms), None)


def hyperexp(ms, ps):
    # as implemented: component i < n-1 with probability ps[i], the last one gets the remainder (the scan's last index)
    w = loaded_pmf(ps)

    def cdf(x):
        return sum(wi * (1.0 - np.exp(-x / m)) for wi, m in zip(w, ms))
    mean = sum(wi * m for wi, m in zip(w, ms))
    m2 = sum(wi * 2 * m * m for wi, m in zip(w, ms))
    return Custom(cdf, mean, m2 - mean * mean, None)


def loaded_pmf(ps):
    """cdf inversion with u in [0,1): index i when the running sum first exceeds u; the last index takes what is left"""
    out, c = [], 0.0
    for i, p in enumerate(ps):
        if i == len(ps) - 1:
            out.append(max(0.0, 1.0 - c))
        else:
            nc = min(1.0, c + p)
            out.append(nc - c)
            c = nc
    return out


def dist_of(name, p):
    """('c', frozen/Custom) for continuous, ('d', pmf dict or frozen) for discrete"""
    if name == "random":
        return "c", st.uniform(0, 1)
    if name == "uniform":
        return "c", st.uniform(p[0], p[1] - p[0])
    if name == "triangular":
        return "c", st.triang((p[1] - p[0]) / (p[2] - p[0]), loc=p[0], scale=p[2] - p[0])
    if name == "std_normal":
        return "c", st.norm()
    if name == "normal":
        return "c", st.norm(p[0], p[1])
    if name == "lognormal":
        return "c", st.lognorm(p[1], scale=math.exp(p[0]))
    if name == "logistic":
        return "c", st.logistic(p[0], p[1])
    if name == "cauchy":
        return "c", st.cauchy(p[0], p[1])
    if name == "std_exponential":
        return "c", st.expon()
    if name == "exponential":
        return "c", st.expon(scale=p[0])
    if name == "erlang":
        return "c", st.gamma(int(p[0]), scale=p[1])
    if name == "hypoexponential":
        return "c", hypoexp(p)
    if name == "hyperexponential":
        h = len(p) // 2
        return "c", hyperexp(p[:h], p[h:])
    if name == "std_gamma":
        return "c", st.gamma(p[0])
    if name == "gamma":
        return "c", st.gamma(p[0], scale=p[1])
    if name == "std_beta":
        return "c", st.beta(p[0], p[1])
    if name == "beta":
        return "c", st.beta(p[0], p[1], loc=p[2], scale=p[3] - p[2])
    if name in ("PERT", "PERT_mod"):
        lam = 4.0 if name == "PERT" else p[3]
        rng = p[2] - p[0]
        return "c", st.beta(1 + lam * (p[1] - p[0]) / rng, 1 + lam * (p[2] - p[1]) / rng, loc=p[0], scale=rng)
    if name == "weibull":
        return "c", st.weibull_min(p[0], scale=p[1])
    if name == "pareto":
        return "c", st.pareto(p[0], scale=p[1])
    if name == "chisquared":
        return "c", st.chi2(p[0])
    if name == "F_dist":
        return "c", st.f(p[0], p[1])
    if name == "std_t_dist":
        return "c", st.t(p[0])
    if name == "t_dist":
        return "c", st.t(p[2], loc=p[0], scale=p[1])
    if name == "rayleigh":
        return "c", st.rayleigh(scale=p[0])
    if name == "flip":
        return "d", st.bernoulli(0.5)
    if name == "bernoulli":
        return "d", st.bernoulli(p[0])
    if name == "geometric":
        return "d", st.geom(p[0])
    if name == "binomial":
        return "d", st.binom(int(p[0]), p[1])
    if name in ("negative_binomial", "pascal"):
        return "d", st.nbinom(int(p[0]), p[1])
    if name == "poisson":
        return "d", st.poisson(p[0])
    if name == "dice":
        return "d", st.randint(int(p[0]), int(p[1]) + 1)
    if name == "loaded_dice":
        return "d", {i: w for i, w in enumerate(loaded_pmf(p))}
    if name == "alias":
        s = sum(p)
        return "d", {i: w / s for i, w in enumerate(p)}
    raise KeyError(name)


def moments_of(kind, d):
    """(mean, var, m4) with None where undefined / infinite"""
    if isinstance(d, Custom):
        return d.mean, d.var, d.m4
    if isinstance(d, dict):
        m = sum(k * w for k, w in d.items())
        v = sum((k - m) ** 2 * w for k, w in d.items())
        m4 = sum((k - m) ** 4 * w for k, w in d.items())
        return m, v, m4
    with np.errstate(all="ignore"):
        m, v, _, k = d.stats(moments="mvsk")
    m, v, k = float(m), float(v), float(k)
    ok = lambda x: x is not None and math.isfinite(x)
    m4 = (k + 3.0) * v * v if ok(k) and ok(v) else None
    return (m if ok(m) else None), (v if ok(v) else None), m4


def run_job(arg):
    exe, job, tmo = arg
    name, params, n, seed, support = job["name"], job["params"], job["n"], job["seed"], job["support"]
    line = job["line"]
    try:
        p = subprocess.run([exe, "stat"], input=(line + "\n").encode(), stdout=subprocess.PIPE, stderr=subprocess.PIPE, timeout=tmo)
    except subprocess.TimeoutExpired:
        return {"line": line, "fails": ["the sampler did not return %d samples within %d s" % (job["n"], tmo)], "rc": 124}
    res = {"line": line, "fails": [], "rc": p.returncode}
    if p.returncode != 0:
        res["fails"].append("driver exit code %d: %s" % (p.returncode, p.stderr.decode("utf-8", "replace")[-300:]))
        return res
    head, _, body = p.stdout.partition(b"\n")
    hw = head.decode().split()
    if len(hw) != 3 or int(hw[2]) != n or len(body) != 8 * n:
        res["fails"].append("driver output malformed: %r" % head[:80])
        return res
    x = np.frombuffer(body, dtype="<f8")
    lo, hi, flags = support
    lo = -math.inf if lo in ("-inf", None) else float(lo)
    hi = math.inf if hi in ("inf", None) else float(hi)
    bad = ~np.isfinite(x) | (x < lo) | (x > hi)
    if "o" in flags:
        bad |= x == lo
    if "c" in flags:
        bad |= x == hi
    if "i" in flags:
        bad |= np.floor(x) != x
    nb = int(bad.sum())
    if nb:
        i = int(np.argmax(bad))
        res["fails"].append("support: %d of %d values outside [%s, %s]%s, first at draw %d: %r" % (nb, n, lo, hi, " integer" if "i" in flags else "", i, float(x[i])))
        return res
    kind, d = dist_of(name, params)
    mean, var, m4 = moments_of(kind, d)
    xm = float(x.mean())
    res["mean"] = xm
    if mean is not None and var is not None:
        se = math.sqrt(var / n)
        res["mean_z"] = (xm - mean) / se if se > 0 else (0.0 if xm == mean else math.inf)
        if abs(xm - mean) > NSIG * se + 1e-12 * max(1.0, abs(mean)):
            res["fails"].append("mean %.9g, theory %.9g, %.1f standard errors" % (xm, mean, res["mean_z"]))
    if var is not None and m4 is not None and m4 - var * var > 1e-9 * var * var:
        # (a symmetric two-point distribution has m4 = var^2: the variance estimator has no first-order spread; the
        #  bin frequencies below cover it)
        xv = float(x.var())
        sev = math.sqrt(max(m4 - var * var, 0.0) / n)
        res["var_z"] = (xv - var) / sev if sev > 0 else (0.0 if abs(xv - var) <= 1e-12 * max(1.0, var) else math.inf)
        if abs(xv - var) > NSIG * sev + 1e-9 * max(1.0, var) + 2.0 * var / n:
            res["fails"].append("variance %.9g, theory %.9g, %.1f standard errors" % (xv, var, res["var_z"]))
    if kind == "c" and "k" in flags:
        res["ks_skipped"] = "mass below the smallest positive double is rounded to 0.0"
    elif kind == "c":
        xs = np.sort(x)
        with np.errstate(all="ignore"):
            F = d.cdf(xs)
        i = np.arange(1, n + 1)
        D = float(max(np.max(i / n - F), np.max(F - (i - 1) / n)))
        res["ks"] = D
        res["ks_threshold"] = KS_C / math.sqrt(n)
        if D > KS_C / math.sqrt(n):
            res["fails"].append("Kolmogorov-Smirnov distance %.5g > %.5g (= %.1f/sqrt(n))" % (D, KS_C / math.sqrt(n), KS_C))
    else:
        xi = x.astype(np.int64)
        vals, counts = np.unique(xi, return_counts=True)
        if isinstance(d, dict):
            pm = lambda k: d.get(int(k), 0.0)
            ks_ = sorted(d)
        else:
            pm = lambda k: float(d.pmf(k))
            a = int(max(d.support()[0], vals.min() - 1))
            b = int(vals.max() + 1)
            if b - a > 2000000:
                res["fails"].append("values spread over %d integers (%d .. %d)" % (b - a, a, b))
                return res
            ks_ = list(range(a, b + 1))
        obs = {int(v): int(c) for v, c in zip(vals, counts)}
        exp = {k: pm(k) * n for k in ks_}
        for v in obs:
            if v not in exp:
                exp[v] = pm(v) * n
        impossible = [v for v in obs if exp[v] <= 0.0]
        if impossible:
            res["fails"].append("value %d has probability 0 but was drawn %d times" % (impossible[0], obs[impossible[0]]))
            return res
        # merge small bins
        cells, eo, ee = [], 0.0, 0.0
        for k in sorted(exp):
            eo += obs.get(k, 0)
            ee += exp[k]
            if ee >= 10.0:
                cells.append((eo, ee))
                eo, ee = 0.0, 0.0
        rest = n - sum(e for _, e in cells)
        if cells:
            cells[-1] = (cells[-1][0] + eo, cells[-1][1] + max(rest, ee))
        if len(cells) >= 2:
            chi = sum((o - e) ** 2 / e for o, e in cells)
            df = len(cells) - 1
            thr = float(st.chi2.isf(CHI_P, df))
            res["chi2"], res["chi2_df"], res["chi2_threshold"] = chi, df, thr
            if chi > thr:
                res["fails"].append("chi-square %.1f with %d degrees of freedom > %.1f" % (chi, df, thr))
        elif len(obs) > 1:
            res["fails"].append("degenerate distribution but %d distinct values drawn" % len(obs))
    return res


def main():
    spec = json.load(sys.stdin)
    args = [(spec["exe"], j, spec.get("timeout", 600)) for j in spec["jobs"]]
    # (a worker that dies raises BrokenProcessPool here instead of hanging the whole run)
    with ProcessPoolExecutor(max_workers=spec.get("workers", 8)) as pool:
        out = list(pool.map(run_job, args, chunksize=1))
    json.dump(out, sys.stdout)


if __name__ == "__main__":
    main()
