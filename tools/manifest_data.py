"""Source of MANIFEST.json (tools/mkmanifest.py writes it). One entry per claimed property."""

LEVEL_NOTE_COMMON = ("Trusted: Lean 4.33 kernel with axioms propext/Classical.choice/Quot.sound only (audited on every run, no sorry, "
                     "no native_decide); the translators (tools/c2lean.py etc.) and clang's AST; faithfulness of the hand-written "
                     "models, established only by differential execution against the library built from the current tree; "
                     "libc malloc, the C compiler; double arithmetic modelled exactly (integral times/amounts < 2^53). ")

CHECKS = {
    "C02": dict(
        technique="Lean 4 theorems (order axioms of regenerated C ordering functions; WF invariant + refinement to an abstract keyed "
                  "priority queue) + exact-state differential correspondence of the model with src/cmi_hashheap.c",
        text="Props/C02.lean: the ordering functions as re-extracted from the C AST on every run are proved strict weak orders (total on "
             "distinct keys), the regenerated hash function and pattern matcher are proved equal to the model's; the concrete hashheap "
             "model (statement-by-statement rendering of cmi_hashheap.c with bounds-checked arrays) is tied to the code by comparing "
             "the whole visible state after every operation of thousands of model-steered operation sequences (growth, hash "
             "collisions, probe wrap-around, tombstone reuse, key re-insertion). Unbounded in sizes and histories on the Lean side; "
             "the tie is differential testing.",
        design_ref="DESIGN.md §3.2, §4 C02",
        note=LEVEL_NOTE_COMMON + "C02: keys < 2^64; caller-supplied keys fresh and non-zero; initial exponent 1..31.",
        engine="lean+hhdrv"),
}

CHECKS["C06"] = dict(
    technique="Lean 4 theorem about the regenerated waiting-list comparison function + exact-state differential correspondence of "
              "real waiting-list heaps",
    text="Props/C06.lean: guard_queue_check as re-extracted from the C AST on every run is proved equal to the documented order "
         "(priority descending, entry time ascending, key) and hence total on distinct keys; real waiting-list heaps are driven with "
         "arbitrary (priority, time, key) triples in exact-state correspondence with the model. The process-level claims (grants go "
         "to the minimum, priority changes reposition, no overtaking) are carried by the process-layer part of the check where present "
         "(see DESIGN.md status table).",
    design_ref="DESIGN.md §4 C06",
    note=LEVEL_NOTE_COMMON,
    engine="lean+hhdrv")

CHECKS["C01"] = dict(
    technique="Lean 4 theorems over an event-kernel model on the abstract keyed priority queue (invariant by induction over operation "
              "histories) + regenerated ordering function + observable-log differential correspondence with src/cmb_event.c",
    text="Props/C01.lean: heap_order_check as re-extracted from the C AST is proved to be the documented (time asc, priority desc, handle "
         "asc) order; over the event-kernel model: dispatch returns THE lexicographic minimum, sets clock and current event, the clock is "
         "monotone over every operation history, every issued handle is in exactly one of pending/executed/cancelled (exactly-once, cancelled "
         "never runs), reschedule/reprioritise change only that field of that event, clock/current stable during an action, pattern "
         "find/count/cancel agree with the pending set. The model is tied to the code by diffing complete observable logs of generated "
         "scripts whose operations are issued from outside and from inside running actions; the concrete hashheap is covered by C02.",
    design_ref="DESIGN.md §3.3, §4 C01",
    note=LEVEL_NOTE_COMMON + "C01: event times are integers (|t| < 2^53) so double arithmetic is exact; NaN/inf times excluded.",
    engine="lean+evdrv")

PENDING = {
}

ENGINES = [
    dict(name="lean", path="lean/", serves_properties=[], kind_free_text="Lean 4 project CimbaModel: models, monitors, property theorems (Props/Cnn.lean), compiled model drivers"),
    dict(name="translators", path="tools/c2lean.py", serves_properties=[], kind_free_text="T-gen: clang JSON AST -> Lean definitions, regenerated on every run into lean/CimbaModel/Generated/"),
    dict(name="evdrv", path="harness/evdrv.c", serves_properties=["C01"], kind_free_text="C driver for the event-kernel script language (ops from outside and inside actions), observable log"),
    dict(name="hhdrv", path="harness/hhdrv.c", serves_properties=["C02", "C06"], kind_free_text="C driver for exact-state correspondence of cmi_hashheap.c with the Lean model"),
]
