"""Source of MANIFEST.json (tools/mkmanifest.py writes it). One entry per claimed property."""

LEVEL_NOTE_COMMON = ("Trusted: Lean 4.33 kernel with axioms propext/Classical.choice/Quot.sound only (audited on every run, no sorry, "
                     "no native_decide); the translators (tools/c2lean.py etc.) and clang's AST; faithfulness of the hand-written "
                     "models, established only by differential execution against the library built from the current tree; "
                     "libc malloc, the C compiler; double arithmetic modelled exactly (integral times/amounts < 2^53). ")

CHECKS = {
    "C02": dict(
        technique="Lean 4 theorems (order axioms of regenerated C ordering functions; WF invariant + refinement to an abstract keyed "
                  "priority queue) + exact-state differential correspondence of the model with src/cmi_hashheap.c",
        text="Props/C02.lean: the ordering functions as re-extracted from the C AST on every run are proved strict weak orders (total on "
             "distinct keys), the regenerated hash function and pattern matcher are proved equal to the model's; the concrete hashheap "
             "model (statement-by-statement rendering of cmi_hashheap.c with bounds-checked arrays) is tied to the code by comparing "
             "the whole visible state after every operation of thousands of model-steered operation sequences (growth, hash "
             "collisions, probe wrap-around, tombstone reuse, key re-insertion). Unbounded in sizes and histories on the Lean side; "
             "the tie is differential testing.",
        design_ref="DESIGN.md §3.2, §4 C02",
        note=LEVEL_NOTE_COMMON + "C02: keys < 2^64; caller-supplied keys fresh and non-zero; initial exponent 1..31.",
        engine="lean+hhdrv"),
}

CHECKS["C06"] = dict(
    technique="Lean 4 theorem about the regenerated waiting-list comparison function + exact-state differential correspondence of "
              "real waiting-list heaps",
    text="Props/C06.lean: guard_queue_check as re-extracted from the C AST on every run is proved equal to the documented order "
         "(priority descending, entry time ascending, key) and hence total on distinct keys; real waiting-list heaps are driven with "
         "arbitrary (priority, time, key) triples in exact-state correspondence with the model. The process-level claims (grants go "
         "to the minimum, priority changes reposition, no overtaking) are carried by the process-layer part of the check where present "
         "(see DESIGN.md status table).",
    design_ref="DESIGN.md §4 C06",
    note=LEVEL_NOTE_COMMON,
    engine="lean+hhdrv")

CHECKS["C01"] = dict(
    technique="Lean 4 theorems over an event-kernel model on the abstract keyed priority queue (invariant by induction over operation "
              "histories) + regenerated ordering function + observable-log differential correspondence with src/cmb_event.c",
    text="Props/C01.lean: heap_order_check as re-extracted from the C AST is proved to be the documented (time asc, priority desc, handle "
         "asc) order; over the event-kernel model: dispatch returns THE lexicographic minimum, sets clock and current event, the clock is "
         "monotone over every operation history, every issued handle is in exactly one of pending/executed/cancelled (exactly-once, cancelled "
         "never runs), reschedule/reprioritise change only that field of that event, clock/current stable during an action, pattern "
         "find/count/cancel agree with the pending set. The model is tied to the code by diffing complete observable logs of generated "
         "scripts whose operations are issued from outside and from inside running actions; the concrete hashheap is covered by C02.",
    design_ref="DESIGN.md §3.3, §4 C01",
    note=LEVEL_NOTE_COMMON + "C01: event times are integers (|t| < 2^53) so double arithmetic is exact; NaN/inf times excluded.",
    engine="lean+evdrv")

CHECKS["C03"] = dict(
    technique="Lean 4 theorems over a symbolic x86-64 machine running the instruction list regenerated from the assembled context-switch "
              "object (objdump, cross-checked with nasm -E) and the store list of the initial frame regenerated from the C source + "
              "differential correspondence (frame image, first entry / return observed at instruction level, random bookkeeping scripts)",
    text="Props/C03.lean: for every content of the general purpose registers, RFLAGS, MXCSR and memory, the 22+7 instructions assembled from "
         "cmi_coroutine_context.asm (re-extracted on every run) write only the 64 bytes below the outgoing rsp and *old; bring a coroutine "
         "back after any interleaving of other switches and code that leaves its saved frame alone with rbx rbp r12-r15, MXCSR, the "
         "user-visible flags, rsp and the return address as at switch-out and rax = the value handed over; enter a new coroutine's function "
         "from the frame cmi_coroutine_context_init writes with rdi = its handle, rsi = its context, rsp = 8 (mod 16), MXCSR = 0x1d00; turn "
         "a return of that function into a call of the exit function with rdi = the returned value. The bookkeeping (current/caller/parent/"
         "status/exit value) is proved on a hand-written state machine for arbitrary scripts and tied to src/cmi_coroutine.c by line-by-line "
         "comparison of random scripts (2-8 coroutines, all nine operations, call depth 0-64) through the real API, also under ASan/UBSan.",
    design_ref="DESIGN.md §4 C03; notes/C03.md",
    note=LEVEL_NOTE_COMMON + "C03: my SDM transcription of 14 instruction forms (Ctx/X86.lean; validated against the CPU by seeded register "
         "files, labelled test evidence); System V callee-saved set; objdump / nasm -E; stacks of distinct coroutines disjoint (malloc). "
         "Not covered: x87 control word, AVX state, signal masks.",
    engine="lean+ctxdrv")

CHECKS["C04"] = dict(
    technique="Lean 4 theorems about the process-layer model + differential correspondence of the model with the library on generated "
              "scenarios (complete observable logs) + log monitors for the search of a failing input",
    text='Props/C04.lean (timers / holds are pending events at exactly now+d addressed to the process; library scheduling never moves the clock; signal encoding round-trips) over the executable process-layer model, which mirrors every internal cmb_event_schedule of the C code in order; the model is tied to the code by diffing complete logs of generated scenarios (timeouts armed before blocking calls, several causes on one instant, interrupts/stops/preemptions of blocked processes); the C04 monitor (hold exactness, no stale wake-up, every non-success return matched by a notification, armed timers fire, nobody suspended past its cause) runs on every implementation log. The whole-layer invariants (I_epoch, I_waiters, I_timers) are carried by the monitored correspondence unless listed as theorems in Props/C04.lean.',
    design_ref="DESIGN.md §3.4, §4 C04",
    note=LEVEL_NOTE_COMMON + "C04: the process-layer model (CimbaModel/Sim) is hand-written and tied to the code only by differential "
         "execution; the monitors (tools/simmon.py) are search tools, not proof.",
    engine="lean+simdrv")

CHECKS["C05"] = dict(
    technique="Lean 4 theorems about the process-layer model + differential correspondence of the model with the library on generated "
              "scenarios (complete observable logs) + log monitors for the search of a failing input",
    text='Props/C05.lean over the process-layer model (acquire of a held resource blocks and never steals; demand = holder is none; further invariants as listed in the file); tie: scenario correspondence with acquire-hold-release loops with immediate re-acquire, simultaneous arrivals, waiters timing out / interrupted / stopped, holders ending while holding, preempt; monitor: two-holders detection from the acquire/release history, holder query vs history, ended holders.',
    design_ref="DESIGN.md §3.4, §4 C05",
    note=LEVEL_NOTE_COMMON + "C05: the process-layer model (CimbaModel/Sim) is hand-written and tied to the code only by differential "
         "execution; the monitors (tools/simmon.py) are search tools, not proof.",
    engine="lean+simdrv")

CHECKS["C07"] = dict(
    technique="Lean 4 theorems about the process-layer model + differential correspondence of the model with the library on generated "
              "scenarios (complete observable logs) + log monitors for the search of a failing input",
    text='Props/C07.lean (holder order = documented victim order, total; pool demand = units available; further invariants as listed) over the process-layer model; tie: scenario correspondence with amounts 1..capacity, partial fulfilment, waiting, interrupts/timeouts/preemptions/stops between the steps of one acquisition; monitor: in_use = sum of holdings <= capacity, per-process accounting (+n on success, unchanged on any other signal, -n on release, 0 at end).',
    design_ref="DESIGN.md §3.4, §4 C07",
    note=LEVEL_NOTE_COMMON + "C07: the process-layer model (CimbaModel/Sim) is hand-written and tied to the code only by differential "
         "execution; the monitors (tools/simmon.py) are search tools, not proof.",
    engine="lean+simdrv")

CHECKS["C08"] = dict(
    technique="Lean 4 theorems about the process-layer model + differential correspondence of the model with the library on generated "
              "scenarios (complete observable logs) + log monitors for the search of a failing input",
    text='Props/C08.lean (the demand predicates the guards evaluate are exactly the availability conditions; further theorems as listed) over the process-layer model; tie: scenario correspondence for every guard-based object type with release/put/get/rollback/drop/cancel against arrivals, timeouts, interrupts, preemptions, stops on the same instant; monitor: at quiescence nobody is blocked on a free resource / available pool / non-empty or non-full buffer or queue.',
    design_ref="DESIGN.md §3.4, §4 C08",
    note=LEVEL_NOTE_COMMON + "C08: the process-layer model (CimbaModel/Sim) is hand-written and tied to the code only by differential "
         "execution; the monitors (tools/simmon.py) are search tools, not proof.",
    engine="lean+simdrv")

CHECKS["C09"] = dict(
    technique="Lean 4 theorems about the process-layer model + differential correspondence of the model with the library on generated "
              "scenarios (complete observable logs) + log monitors for the search of a failing input",
    text='Props/C09.lean over the process-layer model; tie: scenario correspondence with every ending route (return, exit, stop by other, stop self) in every blocked state, restarts; monitor: waiters resumed at the instant of the end with SUCCESS / STOPPED, nothing held by ended processes, exit values, nobody waiting for an ended process.',
    design_ref="DESIGN.md §3.4, §4 C09",
    note=LEVEL_NOTE_COMMON + "C09: the process-layer model (CimbaModel/Sim) is hand-written and tied to the code only by differential "
         "execution; the monitors (tools/simmon.py) are search tools, not proof.",
    engine="lean+simdrv")

CHECKS["C11"] = dict(
    technique="Lean 4 theorems about the process-layer model + differential correspondence of the model with the library on generated "
              "scenarios (complete observable logs) + log monitors for the search of a failing input",
    text='Props/C11.lean over the process-layer model (ghost totals of puts/gets); tie: scenario correspondence with amounts 0, > capacity, unlimited capacity, interrupts/timeouts between partial transfers; monitor: level = sum(put) - sum(got) within [0, capacity], success = full amount, reported partial amounts.',
    design_ref="DESIGN.md §3.4, §4 C11",
    note=LEVEL_NOTE_COMMON + "C11: the process-layer model (CimbaModel/Sim) is hand-written and tied to the code only by differential "
         "execution; the monitors (tools/simmon.py) are search tools, not proof.",
    engine="lean+simdrv")

CHECKS["C12"] = dict(
    technique="Lean 4 theorems about the process-layer model + differential correspondence of the model with the library on generated "
              "scenarios (complete observable logs) + log monitors for the search of a failing input",
    text='Props/C12.lean (compare_func regenerated from the C source is the documented order: priority descending, put order) over the process-layer model; tie: scenario correspondence, capacities 1 / small / unlimited, NULL and duplicate objects, blocking on both ends, interrupts/timeouts/stops; monitor: FIFO prefix property, highest-priority-first delivery, failed gets deliver nothing, lengths within capacity.',
    design_ref="DESIGN.md §3.4, §4 C12",
    note=LEVEL_NOTE_COMMON + "C12: the process-layer model (CimbaModel/Sim) is hand-written and tied to the code only by differential "
         "execution; the monitors (tools/simmon.py) are search tools, not proof.",
    engine="lean+simdrv")

CHECKS["C13"] = dict(
    technique="Lean 4 theorems about the process-layer model + differential correspondence of the model with the library on generated "
              "scenarios (complete observable logs) + log monitors for the search of a failing input",
    text='Props/C13.lean over the process-layer model (condition signal = every waiter in heap-array order whose predicate holds); tie: scenario correspondence through the public entry points (wait/signal/cancel/remove/subscribe) with 5 predicate kinds and observed guards; monitor clause for forwarded signals. Known finding (not repaired): a forwarded signal evaluates only the front waiter.',
    design_ref="DESIGN.md §3.4, §4 C13",
    note=LEVEL_NOTE_COMMON + "C13: the process-layer model (CimbaModel/Sim) is hand-written and tied to the code only by differential "
         "execution; the monitors (tools/simmon.py) are search tools, not proof.",
    engine="lean+simdrv")

CHECKS["C14"] = dict(
    technique="Lean 4 theorems about the process-layer model + differential correspondence of the model with the library on generated "
              "scenarios (complete observable logs) + log monitors for the search of a failing input",
    text='Props/C14.lean over the process-layer model; tie: scenario correspondence including the complete recorded histories (value,time) of every resource, pool, buffer, queue, with recording toggled at arbitrary times and the indirect state changes (preemption, rollback, drops on end/stop, cancellation); monitor: sample times nondecreasing, history = true trajectory where the log determines it.',
    design_ref="DESIGN.md §3.4, §4 C14",
    note=LEVEL_NOTE_COMMON + "C14: the process-layer model (CimbaModel/Sim) is hand-written and tied to the code only by differential "
         "execution; the monitors (tools/simmon.py) are search tools, not proof.",
    engine="lean+simdrv")

CHECKS["C10"] = dict(
    technique="Lean 4 theorems about the process-layer model + differential correspondence of the model with the library on generated "
              "scenarios (complete observable logs) + log monitors for the search of a failing input",
    text='Props/C10.lean: every operation of every valid history of the hashheap model (bounds-checked arrays, release asserts as faults) returns .ok for the four ordering functions of the library, across any number of doublings (from C02). Everything else only by the tie: the same generated valid programs as the other checks (process-layer scenarios of every profile, hashheap op sequences with exact state, event-kernel scripts, corpus/san steered to growth thresholds) run against the ASan+UBSan build with debug asserts on; a sanitizer report or abort on a valid program is a violation with that input as replay.',
    design_ref="DESIGN.md §3.4, §4 C10",
    note=LEVEL_NOTE_COMMON + "C10: the process-layer model (CimbaModel/Sim) is hand-written and tied to the code only by differential "
         "execution; the monitors (tools/simmon.py) are search tools, not proof.",
    engine="lean+simdrv")

CHECKS["C18"] = dict(
    technique="Lean 4 theorems over hand-written models of the sort / median / quartile / histogram / ACF loops + differential "
              "correspondence with the library on integer-valued data (exact) + Monitor.C18 on the implementation's answers",
    text='Props/C18.lean (25 theorems, unbounded sizes): the heapsort models (single array and the (x,t,w)-triple version, same index arithmetic as the C loops) return an ascending permutation of whole samples; adds stay in bounds through any number of doublings; copies are exact (and the shipped copy is proved to overflow on the next add); median and duration-weighted median satisfy the at-most-half below / above definition; five-number summaries are ordered and inside the data range from n = 1; every sample lands in exactly one of nb+2 histogram bins and the bins sum to n / the total weight; ACF is 1 at lag 0, shift invariant, and scale invariant when the absolute variance threshold is not crossed (known finding otherwise). The hand-written models are tied to the code by running the same integer-valued inputs (sizes 1..70 and around the array doubling thresholds, duplicates, constant / sorted / reverse data, dominant and zero durations, every bin count, auto-scaling, out-of-range samples) through the real library (rel and ASan/UBSan builds) and the compiled model and comparing sorted arrays, copies, medians, printed five-number summaries and the captured histogram struct exactly, ACF under a 1e-9 tolerance (labelled test).',
    design_ref="DESIGN.md §4 C18; notes/C18.md",
    note=LEVEL_NOTE_COMMON + "C18: ld --wrap capture and the %#8.4g print-out as observation channel for histograms and five-number "
         "summaries; two known findings (ACF absolute variance threshold; ACF can leave [-1,1]).",
    engine="lean+statdrv2")

CHECKS["C20"] = dict(
    technique="Lean 4 theorems (invariant over all alloc/free/store programs, any number of expansions) + regenerated size arithmetic + "
              "exact-state differential correspondence with src/cmi_mempool.c, also under ASan/UBSan",
    text="For a model of cmi_mempool.c/.h (free list threaded through object memory word for word as in the C code, chunk list with abstract realloc whose result must be used and whose byte size must cover the entries, every access bounds-checked) Lean proves for EVERY client program (any list of alloc / free / store operations on objects the client holds), every object size that is a positive multiple of 8, every requested chunk population > 0, every page size accepted by cmi_aligned_alloc and every CHUNK_LIST_SIZE > 0, for pools made by create+initialize and for CMI_MEMPOOL_STATIC_INIT pools (first-use initialisation inside expand): the run never faults (`expand_ok`: no access outside the chunk list at any chunk count, no access outside a chunk, no failed assert); the objects the client holds are pairwise distinct slots, hence — chunks being page-aligned disjoint blocks — 8-aligned, inside their chunk with obj_sz bytes and with pairwise disjoint byte ranges; free list and held objects partition all slots of all chunks and an allocation never returns a held object (a returned one may come back, LIFO); alloc / free / expand write only the first word of objects that are free, a store changes one word, so every word a client stored is still there as long as it holds the object (`contents_stable`, end to end over any run). The shipped expand is proved to fault at the expansion where chunk_list_cnt reaches chunk_list_len, from any invariant state, and both half repairs are proved insufficient. The size arithmetic and the release asserts of cmi_mempool_initialize and CHUNK_LIST_SIZE are re-extracted from the C AST / preprocessor on every run and proved equal to the model's. Everything else of the model is tied to the current source by exact-state differential execution (struct fields, canonicalised chunk list, next_obj, free-list prefix after every operation) on generated scripts that cross 1, objects-per-chunk, 63/64/65, 127/128/129 and 191/192/193 chunks with interleaved frees, on dynamic, static-initialiser and the library's own thread-local pools, in a release-like and an ASan+UBSan build; the C driver is also the monitor of the property on the real pointers (patterns, alignment, chunk bounds, overlap).",
    design_ref="DESIGN.md §4 C20; notes/C20.md",
    note=LEVEL_NOTE_COMMON + "C20: chunks are page-aligned disjoint blocks (aligned_alloc), realloc may move and its result must be used "
         "(modelled abstractly); tools/gen_pool.py (size arithmetic, CHUNK_LIST_SIZE).",
    engine="lean+pooldrv")

PENDING = {
}

ENGINES = [
    dict(name="lean", path="lean/", serves_properties=[], kind_free_text="Lean 4 project CimbaModel: models, monitors, property theorems (Props/Cnn.lean), compiled model drivers"),
    dict(name="translators", path="tools/c2lean.py", serves_properties=[], kind_free_text="T-gen: clang JSON AST -> Lean definitions, regenerated on every run into lean/CimbaModel/Generated/"),
    dict(name="evdrv", path="harness/evdrv.c", serves_properties=["C01"], kind_free_text="C driver for the event-kernel script language (ops from outside and inside actions), observable log"),
    dict(name="ctxdrv", path="harness/ctxdrv.c", serves_properties=["C03"], kind_free_text="C/asm driver: initial frame dump, first-entry / return probes, bookkeeping scripts through the real coroutine API"),
    dict(name="simdrv", path="harness/simdrv.c", serves_properties=["C04","C05","C06","C07","C08","C09","C10","C11","C12","C13","C14"], kind_free_text="C scenario interpreter for the process layer (scripted processes over resources, pools, buffers, queues, conditions) against the real library"),
    dict(name="pooldrv", path="harness/pooldrv.c", serves_properties=["C20"], kind_free_text="C driver: alloc/free scripts on real memory pools, exact state + pattern/alignment/overlap monitor"),
    dict(name="statdrv2", path="harness/statdrv2.c", serves_properties=["C18"], kind_free_text="C driver: datasets / time series sort, copy, median, five-number, histogram (captured struct), ACF"),
    dict(name="statdrv", path="harness/statdrv.c", serves_properties=["C17"], kind_free_text="C driver: data summaries and weighted summaries with FP exception flags"),
    dict(name="expdrv", path="harness/expdrv.c", serves_properties=["C19"], kind_free_text="C driver: cimba_run_experiment with per-index counters, sequence log and result digests"),
    dict(name="rngdrv", path="harness/rngdrv.c", serves_properties=["C15"], kind_free_text="C driver: line protocol over the cmb_random API, runs on fresh threads"),
    dict(name="hhdrv", path="harness/hhdrv.c", serves_properties=["C02", "C06"], kind_free_text="C driver for exact-state correspondence of cmi_hashheap.c with the Lean model"),
]


# ---- entries proposed by the per-property notes (notes/Cnn.md: first ```python block that assigns CHECKS["Cnn"]) ----
import os as _os, re as _re
_notes = _os.path.join(_os.path.dirname(_os.path.dirname(_os.path.abspath(__file__))), "notes")
if _os.path.isdir(_notes):
    for _f in sorted(_os.listdir(_notes)):
        _m = _re.match(r"(C\d+)\.md$", _f)
        if not _m or _m.group(1) in CHECKS:
            continue
        _t = open(_os.path.join(_notes, _f)).read()
        for _blk in _re.findall(r"```python\n(.*?)```", _t, flags=_re.S):
            if 'CHECKS["%s"]' % _m.group(1) in _blk:
                exec(_blk)
                break

# ---- texts updated by the process-layer proof notes (notes/S*.md: ```python blocks that assign CHECKS["Cnn"]["text"]) ----
if _os.path.isdir(_notes):
    for _f in sorted(_os.listdir(_notes)):
        if not _re.match(r"S\d+\.md$", _f):
            continue
        _t = open(_os.path.join(_notes, _f)).read()
        for _blk in _re.findall(r"```python\n(.*?)```", _t, flags=_re.S):
            if 'CHECKS["' in _blk:
                try:
                    exec(_blk)
                except Exception as _ex:      # a malformed note must not break the manifest
                    print("notes/%s: block ignored: %s" % (_f, _ex))
