"""Source of MANIFEST.json (tools/mkmanifest.py writes it). One entry per claimed property."""

LEVEL_NOTE_COMMON = ("Trusted: Lean 4.33 kernel with axioms propext/Classical.choice/Quot.sound only (audited on every run, no sorry, "
                     "no native_decide); the translators (tools/c2lean.py etc.) and clang's AST; faithfulness of the hand-written "
                     "models, established only by differential execution against the library built from the current tree; "
                     "libc malloc, the C compiler; double arithmetic modelled exactly (integral times/amounts < 2^53). ")

CHECKS = {
    "C02": dict(
        technique="Lean 4 theorems (order axioms of regenerated C ordering functions; WF invariant + refinement to an abstract keyed "
                  "priority queue) + exact-state differential correspondence of the model with src/cmi_hashheap.c",
        text="Props/C02.lean: the ordering functions as re-extracted from the C AST on every run are proved strict weak orders (total on "
             "distinct keys), the regenerated hash function and pattern matcher are proved equal to the model's; the concrete hashheap "
             "model (statement-by-statement rendering of cmi_hashheap.c with bounds-checked arrays) is tied to the code by comparing "
             "the whole visible state after every operation of thousands of model-steered operation sequences (growth, hash "
             "collisions, probe wrap-around, tombstone reuse, key re-insertion). Unbounded in sizes and histories on the Lean side; "
             "the tie is differential testing.",
        design_ref="DESIGN.md §3.2, §4 C02",
        note=LEVEL_NOTE_COMMON + "C02: keys < 2^64; caller-supplied keys fresh and non-zero; initial exponent 1..31.",
        engine="lean+hhdrv"),
}

CHECKS["C06"] = dict(
    technique="Lean 4 theorem about the regenerated waiting-list comparison function + exact-state differential correspondence of "
              "real waiting-list heaps",
    text="Props/C06.lean: guard_queue_check as re-extracted from the C AST on every run is proved equal to the documented order "
         "(priority descending, entry time ascending, key) and hence total on distinct keys; real waiting-list heaps are driven with "
         "arbitrary (priority, time, key) triples in exact-state correspondence with the model. The process-level claims (grants go "
         "to the minimum, priority changes reposition, no overtaking) are carried by the process-layer part of the check where present "
         "(see DESIGN.md status table).",
    design_ref="DESIGN.md §4 C06",
    note=LEVEL_NOTE_COMMON,
    engine="lean+hhdrv")

CHECKS["C01"] = dict(
    technique="Lean 4 theorems over an event-kernel model on the abstract keyed priority queue (invariant by induction over operation "
              "histories) + regenerated ordering function + observable-log differential correspondence with src/cmb_event.c",
    text="Props/C01.lean: heap_order_check as re-extracted from the C AST is proved to be the documented (time asc, priority desc, handle "
         "asc) order; over the event-kernel model: dispatch returns THE lexicographic minimum, sets clock and current event, the clock is "
         "monotone over every operation history, every issued handle is in exactly one of pending/executed/cancelled (exactly-once, cancelled "
         "never runs), reschedule/reprioritise change only that field of that event, clock/current stable during an action, pattern "
         "find/count/cancel agree with the pending set. The model is tied to the code by diffing complete observable logs of generated "
         "scripts whose operations are issued from outside and from inside running actions; the concrete hashheap is covered by C02.",
    design_ref="DESIGN.md §3.3, §4 C01",
    note=LEVEL_NOTE_COMMON + "C01: event times are integers (|t| < 2^53) so double arithmetic is exact; NaN/inf times excluded.",
    engine="lean+evdrv")

CHECKS["C03"] = dict(
    technique="Lean 4 theorems over a symbolic x86-64 machine running the instruction list regenerated from the assembled context-switch "
              "object (objdump, cross-checked with nasm -E) and the store list of the initial frame regenerated from the C source + "
              "differential correspondence (frame image, first entry / return observed at instruction level, random bookkeeping scripts)",
    text="Props/C03.lean: for every content of the general purpose registers, RFLAGS, MXCSR and memory, the 22+7 instructions assembled from "
         "cmi_coroutine_context.asm (re-extracted on every run) write only the 64 bytes below the outgoing rsp and *old; bring a coroutine "
         "back after any interleaving of other switches and code that leaves its saved frame alone with rbx rbp r12-r15, MXCSR, the "
         "user-visible flags, rsp and the return address as at switch-out and rax = the value handed over; enter a new coroutine's function "
         "from the frame cmi_coroutine_context_init writes with rdi = its handle, rsi = its context, rsp = 8 (mod 16), MXCSR = 0x1d00; turn "
         "a return of that function into a call of the exit function with rdi = the returned value. The bookkeeping (current/caller/parent/"
         "status/exit value) is proved on a hand-written state machine for arbitrary scripts and tied to src/cmi_coroutine.c by line-by-line "
         "comparison of random scripts (2-8 coroutines, all nine operations, call depth 0-64) through the real API, also under ASan/UBSan.",
    design_ref="DESIGN.md §4 C03; notes/C03.md",
    note=LEVEL_NOTE_COMMON + "C03: my SDM transcription of 14 instruction forms (Ctx/X86.lean; validated against the CPU by seeded register "
         "files, labelled test evidence); System V callee-saved set; objdump / nasm -E; stacks of distinct coroutines disjoint (malloc). "
         "Not covered: x87 control word, AVX state, signal masks.",
    engine="lean+ctxdrv")

PENDING = {
}

ENGINES = [
    dict(name="lean", path="lean/", serves_properties=[], kind_free_text="Lean 4 project CimbaModel: models, monitors, property theorems (Props/Cnn.lean), compiled model drivers"),
    dict(name="translators", path="tools/c2lean.py", serves_properties=[], kind_free_text="T-gen: clang JSON AST -> Lean definitions, regenerated on every run into lean/CimbaModel/Generated/"),
    dict(name="evdrv", path="harness/evdrv.c", serves_properties=["C01"], kind_free_text="C driver for the event-kernel script language (ops from outside and inside actions), observable log"),
    dict(name="ctxdrv", path="harness/ctxdrv.c", serves_properties=["C03"], kind_free_text="C/asm driver: initial frame dump, first-entry / return probes, bookkeeping scripts through the real coroutine API"),
    dict(name="hhdrv", path="harness/hhdrv.c", serves_properties=["C02", "C06"], kind_free_text="C driver for exact-state correspondence of cmi_hashheap.c with the Lean model"),
]


# ---- entries proposed by the per-property notes (notes/Cnn.md: first ```python block that assigns CHECKS["Cnn"]) ----
import os as _os, re as _re
_notes = _os.path.join(_os.path.dirname(_os.path.dirname(_os.path.abspath(__file__))), "notes")
if _os.path.isdir(_notes):
    for _f in sorted(_os.listdir(_notes)):
        _m = _re.match(r"(C\d+)\.md$", _f)
        if not _m or _m.group(1) in CHECKS:
            continue
        _t = open(_os.path.join(_notes, _f)).read()
        for _blk in _re.findall(r"```python\n(.*?)```", _t, flags=_re.S):
            if 'CHECKS["%s"]' % _m.group(1) in _blk:
                exec(_blk)
                break
