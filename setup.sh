#!/bin/sh
# MANIFEST.setup_cmd: build everything from files on disk only (offline). Idempotent.
set -e
cd "$(dirname "$0")"
python3 tools/setup_all.py
