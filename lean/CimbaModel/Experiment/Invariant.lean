/-
  The invariant of the experiment runner under every interleaving, for any `Code` that is the documented
  dispenser (`Code.Correct`).  Core Lean only.
-/
import CimbaModel.Experiment.Model

namespace CimbaModel.Experiment

/-- what the theorems need of the code read off the C source -/
structure Code.Correct (c : Code) : Prop where
  mode : c.fetchMode = .atomicFetchAdd
  incr : c.fetchIncr = 1
  init : c.initNext = 0
  reset : c.resetsNext = true
  stop : ∀ i n, c.stopWhen i n = true ↔ n ≤ i
  addr : ∀ b i s, c.elemAddr b i s = b + i * s
  spawn0 : c.spawnStart = 0
  spawn : ∀ k W, c.spawnCond k W = true ↔ k < W
  join0 : c.joinStart = 0
  join : ∀ k W, c.joinCond k W = true ↔ k < W

theorem Code.reference_correct : Code.reference.Correct :=
  ⟨rfl, rfl, rfl, rfl, by simp [Code.reference], by simp [Code.reference], rfl, by simp [Code.reference], rfl,
   by simp [Code.reference]⟩

def doneOf : WState → List Nat
  | .done => [0]
  | _ => []

/-- replacing one worker state changes the collected indices by exactly that worker's contribution -/
theorem count_flatMap_set (f : WState → List Nat) (i : Nat) :
    ∀ (ws : List WState) (w : Nat) (a b : WState), ws[w]? = some a →
      List.count i ((ws.set w b).flatMap f) + List.count i (f a) = List.count i (ws.flatMap f) + List.count i (f b)
  | [], w, a, b, h => by simp at h
  | x :: xs, 0, a, b, h => by
    simp at h; subst h
    simp [List.flatMap_cons, List.count_append]; omega
  | x :: xs, w + 1, a, b, h => by
    simp at h
    have ih := count_flatMap_set f i xs w a b h
    simp [List.flatMap_cons, List.count_append]; omega

theorem count_range (i m : Nat) : List.count i (List.range m) = if i < m then 1 else 0 := by
  induction m with
  | zero => simp
  | succ m ih =>
    rw [List.range_succ, List.count_append, ih]
    by_cases h : i = m
    · subst h; simp
    · have : ¬ (m = i) := fun e => h e.symm
      simp [List.count_cons, this]; split <;> split <;> omega

structure RunInv (p : Params) (s : State) : Prop where
  len_ws : s.ws.length = p.W
  len_cr : s.created.length = p.W
  occ : ∀ i, List.count i s.pending + List.count i s.inflight + List.count i s.finished + List.count i s.discarded
            = if i < s.next then 1 else 0
  no_loaded : ∀ (w v : Nat), s.ws[w]? ≠ some (WState.loaded v)
  run_lt : ∀ i, 0 < List.count i s.inflight + List.count i s.finished → i < p.n
  disc_ge : ∀ i ∈ s.discarded, p.n ≤ i
  calls_idx : ∀ i, List.count i (s.calls.map Prod.fst) = List.count i s.inflight + List.count i s.finished
  calls_addr : ∀ x ∈ s.calls, x.2 = p.base + x.1 * p.sz
  done_cnt : List.count 0 (s.ws.flatMap doneOf) = s.discarded.length
  main_ok : match s.main with
    | .spawning k => k ≤ p.W ∧ ∀ w, w < p.W → (s.created[w]? = some true ↔ w < k)
    | .joining k => k ≤ p.W ∧ (∀ w, w < p.W → s.created[w]? = some true) ∧ ∀ j, j < k → s.ws[j]? = some .done
    | .returned => ∀ j, j < p.W → s.ws[j]? = some .done

theorem flatMap_replicate_nil (f : WState → List Nat) (a : WState) (h : f a = []) :
    ∀ n, (List.replicate n a).flatMap f = []
  | 0 => rfl
  | n + 1 => by simp [List.replicate_succ, List.flatMap_cons, h, flatMap_replicate_nil f a h n]

theorem inv_init (c : Code) (hc : c.Correct) (p : Params) : RunInv p (init c p) := by
  refine ⟨by simp [init], by simp [init], ?_, ?_, ?_, ?_, ?_, ?_, ?_, ?_⟩
  · intro i
    simp [init, State.pending, State.inflight, flatMap_replicate_nil pendingOf .idle rfl,
      flatMap_replicate_nil runningOf .idle rfl, hc.init]
  · intro w v h
    simp [init, List.getElem?_replicate] at h
  · intro i h
    simp [init, State.inflight, flatMap_replicate_nil runningOf .idle rfl] at h
  · intro i h; simp [init] at h
  · intro i; simp [init, State.inflight, flatMap_replicate_nil runningOf .idle rfl]
  · intro x h; simp [init] at h
  · simp [init, flatMap_replicate_nil doneOf .idle rfl]
  · simp [init, hc.spawn0, List.getElem?_replicate]

theorem getElem?_set_done (ws : List WState) (w j : Nat) (b : WState) (hw : ws[w]? ≠ some .done)
    (hj : ws[j]? = some .done) : (ws.set w b)[j]? = some .done := by
  by_cases e : w = j
  · subst e; exact absurd hj hw
  · rw [List.getElem?_set_ne e]; exact hj

theorem inv_stepMain (c : Code) (hc : c.Correct) (p : Params) (s : State) (h : RunInv p s) : RunInv p (stepMain c p s) := by
  unfold stepMain
  have hm := h.main_ok
  split
  · rename_i k hk
    rw [hk] at hm
    split
    · rename_i hcnd
      have hk' : k < p.W := (hc.spawn k p.W).1 hcnd
      refine ⟨h.len_ws, by simp [h.len_cr], h.occ, h.no_loaded, h.run_lt, h.disc_ge, h.calls_idx, h.calls_addr, h.done_cnt, ?_⟩
      refine ⟨by omega, ?_⟩
      intro w hw
      by_cases e : k = w
      · subst e
        have : k < s.created.length := by rw [h.len_cr]; exact hk'
        simp [List.getElem?_set_self this]
      · rw [List.getElem?_set_ne e, hm.2 w hw]; omega
    · rename_i hcnd
      have hk' : ¬ k < p.W := fun x => hcnd ((hc.spawn k p.W).2 x)
      refine ⟨h.len_ws, h.len_cr, h.occ, h.no_loaded, h.run_lt, h.disc_ge, h.calls_idx, h.calls_addr, h.done_cnt, ?_⟩
      simp only [hc.join0]
      refine ⟨by omega, ?_, by intro j hj; omega⟩
      intro w hw
      exact (hm.2 w hw).2 (by omega)
  · rename_i k hk
    rw [hk] at hm
    split
    · split
      · rename_i hd
        refine ⟨h.len_ws, h.len_cr, h.occ, h.no_loaded, h.run_lt, h.disc_ge, h.calls_idx, h.calls_addr, h.done_cnt, ?_⟩
        rename_i hcnd
        have hk' : k < p.W := (hc.join k p.W).1 hcnd
        refine ⟨by omega, hm.2.1, ?_⟩
        intro j hj
        by_cases e : j = k
        · subst e; exact hd
        · exact hm.2.2 j (by omega)
      · exact h
    · rename_i hcnd
      have hk' : ¬ k < p.W := fun x => hcnd ((hc.join k p.W).2 x)
      refine ⟨h.len_ws, h.len_cr, h.occ, h.no_loaded, h.run_lt, h.disc_ge, h.calls_idx, h.calls_addr, h.done_cnt, ?_⟩
      intro j hj
      exact hm.2.2 j (by omega)
  · exact h

/-- the `main` clause only depends on `created`, `main` and on which workers are done -/
theorem main_ok_of_set (p : Params) (s : State) (h : RunInv p s) (w : Nat) (b : WState) (hw : s.ws[w]? ≠ some .done) :
    (match s.main with
      | .spawning k => k ≤ p.W ∧ ∀ w, w < p.W → (s.created[w]? = some true ↔ w < k)
      | .joining k => k ≤ p.W ∧ (∀ w, w < p.W → s.created[w]? = some true) ∧ ∀ j, j < k → (s.ws.set w b)[j]? = some .done
      | .returned => ∀ j, j < p.W → (s.ws.set w b)[j]? = some .done) := by
  have hm := h.main_ok
  split
  · rename_i k hk; rw [hk] at hm; exact hm
  · rename_i k hk; rw [hk] at hm
    exact ⟨hm.1, hm.2.1, fun j hj => getElem?_set_done _ _ _ _ hw (hm.2.2 j hj)⟩
  · rename_i hk; rw [hk] at hm
    exact fun j hj => getElem?_set_done _ _ _ _ hw (hm j hj)

theorem no_loaded_set (ws : List WState) (w : Nat) (b : WState) (hb : ∀ v, b ≠ WState.loaded v)
    (h : ∀ (w v : Nat), ws[w]? ≠ some (WState.loaded v)) : ∀ (w' v : Nat), (ws.set w b)[w']? ≠ some (WState.loaded v) := by
  intro w' v
  by_cases e : w = w'
  · subst e
    by_cases hl : w < ws.length
    · rw [List.getElem?_set_self hl]; intro x; exact hb v (Option.some.inj x)
    · rw [List.set_eq_of_length_le (by omega)]; exact h w v
  · rw [List.getElem?_set_ne e]; exact h w' v

theorem count_single (i k : Nat) : List.count i [k] = if i = k then 1 else 0 := by
  by_cases e : i = k
  · subst e; simp
  · have : ¬ (k = i) := fun x => e x.symm
    simp [List.count_cons, this, e]

theorem count_cons' (i k : Nat) (l : List Nat) : List.count i (k :: l) = List.count i l + if i = k then 1 else 0 := by
  by_cases e : i = k
  · subst e; simp
  · have : ¬ (k = i) := fun x => e x.symm
    simp [List.count_cons, this, e]

/-- linear arithmetic over counts with `if`s: case-split every `if` of the goal, then `omega` -/
macro "ite_omega" : tactic =>
  `(tactic| (try dsimp only
             simp only [count_single, count_cons', List.count_nil, List.map_cons, List.length_cons, reduceIte]
             repeat' split
             all_goals (intros; omega)))

theorem inv_stepWorker (c : Code) (hc : c.Correct) (p : Params) (s : State) (w : Nat) (h : RunInv p s) :
    RunInv p (stepWorker c p s w) := by
  unfold stepWorker
  split
  case isFalse => exact h
  case isTrue =>
  split
  · -- idle: fetch
    rename_i hw
    simp only [hc.mode, hc.incr]
    have hP := fun i => count_flatMap_set pendingOf i s.ws w .idle (.fetched s.next) hw
    have hR := fun i => count_flatMap_set runningOf i s.ws w .idle (.fetched s.next) hw
    have hD := count_flatMap_set doneOf 0 s.ws w .idle (.fetched s.next) hw
    simp only [pendingOf, runningOf, doneOf] at hP hR hD
    refine ⟨by simp [h.len_ws], h.len_cr, ?_, ?_, ?_, h.disc_ge, ?_, h.calls_addr, ?_, ?_⟩
    · intro i
      have h0 := h.occ i; have h1 := hP i; have h2 := hR i
      simp only [State.pending, State.inflight] at *
      revert h0 h1 h2; ite_omega
    · exact no_loaded_set _ _ _ (by intro v x; cases x) h.no_loaded
    · intro i
      have h0 := h.run_lt i; have h2 := hR i
      simp only [State.inflight] at *
      revert h0 h2; ite_omega
    · intro i
      have h0 := h.calls_idx i; have h2 := hR i
      simp only [State.inflight] at *
      revert h0 h2; ite_omega
    · have h0 := h.done_cnt
      revert h0 hD; ite_omega
    · exact main_ok_of_set p s h w _ (by rw [hw]; intro x; cases x)
  · -- loaded: impossible in atomic mode
    rename_i v hw
    exact absurd hw (h.no_loaded w v)
  · -- fetched i: compare with the bound
    rename_i i hw
    split
    · -- stop
      rename_i hs
      have hge : p.n ≤ i := (hc.stop i p.n).1 hs
      have hP := fun j => count_flatMap_set pendingOf j s.ws w (.fetched i) .done hw
      have hR := fun j => count_flatMap_set runningOf j s.ws w (.fetched i) .done hw
      have hD := count_flatMap_set doneOf 0 s.ws w (.fetched i) .done hw
      simp only [pendingOf, runningOf, doneOf] at hP hR hD
      refine ⟨by simp [h.len_ws], h.len_cr, ?_, ?_, ?_, ?_, ?_, h.calls_addr, ?_, ?_⟩
      · intro j
        have h0 := h.occ j; have h1 := hP j; have h2 := hR j
        simp only [State.pending, State.inflight] at *
        revert h0 h1 h2; ite_omega
      · exact no_loaded_set _ _ _ (by intro v x; cases x) h.no_loaded
      · intro j
        have h0 := h.run_lt j; have h2 := hR j
        simp only [State.inflight] at *
        revert h0 h2; ite_omega
      · intro j hj
        simp at hj
        rcases hj with rfl | hj
        · exact hge
        · exact h.disc_ge j hj
      · intro j
        have h0 := h.calls_idx j; have h2 := hR j
        simp only [State.inflight] at *
        revert h0 h2; ite_omega
      · have h0 := h.done_cnt
        revert h0 hD; ite_omega
      · exact main_ok_of_set p s h w _ (by rw [hw]; intro x; cases x)
    · -- call the trial function
      rename_i hs
      have hlt : i < p.n := by
        have : ¬ p.n ≤ i := fun x => hs ((hc.stop i p.n).2 x)
        omega
      have hP := fun j => count_flatMap_set pendingOf j s.ws w (.fetched i) (.running i) hw
      have hR := fun j => count_flatMap_set runningOf j s.ws w (.fetched i) (.running i) hw
      have hD := count_flatMap_set doneOf 0 s.ws w (.fetched i) (.running i) hw
      simp only [pendingOf, runningOf, doneOf] at hP hR hD
      refine ⟨by simp [h.len_ws], h.len_cr, ?_, ?_, ?_, h.disc_ge, ?_, ?_, ?_, ?_⟩
      · intro j
        have h0 := h.occ j; have h1 := hP j; have h2 := hR j
        simp only [State.pending, State.inflight] at *
        revert h0 h1 h2; ite_omega
      · exact no_loaded_set _ _ _ (by intro v x; cases x) h.no_loaded
      · intro j
        have h0 := h.run_lt j; have h2 := hR j
        simp only [State.inflight] at *
        revert h0 h2; ite_omega
      · intro j
        have h0 := h.calls_idx j; have h2 := hR j
        simp only [State.inflight] at *
        revert h0 h2; ite_omega
      · intro x hx
        simp at hx
        rcases hx with rfl | hx
        · exact hc.addr _ _ _
        · exact h.calls_addr x hx
      · have h0 := h.done_cnt
        revert h0 hD; ite_omega
      · exact main_ok_of_set p s h w _ (by rw [hw]; intro x; cases x)
  · -- running i: the trial function returns
    rename_i i hw
    have hP := fun j => count_flatMap_set pendingOf j s.ws w (.running i) .idle hw
    have hR := fun j => count_flatMap_set runningOf j s.ws w (.running i) .idle hw
    have hD := count_flatMap_set doneOf 0 s.ws w (.running i) .idle hw
    simp only [pendingOf, runningOf, doneOf] at hP hR hD
    refine ⟨by simp [h.len_ws], h.len_cr, ?_, ?_, ?_, h.disc_ge, ?_, h.calls_addr, ?_, ?_⟩
    · intro j
      have h0 := h.occ j; have h1 := hP j; have h2 := hR j
      simp only [State.pending, State.inflight] at *
      revert h0 h1 h2; ite_omega
    · exact no_loaded_set _ _ _ (by intro v x; cases x) h.no_loaded
    · intro j
      have h0 := h.run_lt j; have h2 := hR j
      simp only [State.inflight] at *
      revert h0 h2; ite_omega
    · intro j
      have h0 := h.calls_idx j; have h2 := hR j
      simp only [State.inflight] at *
      revert h0 h2; ite_omega
    · have h0 := h.done_cnt
      revert h0 hD; ite_omega
    · exact main_ok_of_set p s h w _ (by rw [hw]; intro x; cases x)
  · exact h
  · exact h

theorem inv_step (c : Code) (hc : c.Correct) (p : Params) (s : State) (a : Actor) (h : RunInv p s) : RunInv p (step c p s a) := by
  cases a with
  | main => exact inv_stepMain c hc p s h
  | worker w => exact inv_stepWorker c hc p s w h

theorem inv_foldl (c : Code) (hc : c.Correct) (p : Params) :
    ∀ (sched : List Actor) (s : State), RunInv p s → RunInv p (sched.foldl (step c p) s)
  | [], s, h => h
  | a :: rest, s, h => inv_foldl c hc p rest _ (inv_step c hc p s a h)

/-- the invariant holds after every schedule -/
theorem inv_run (c : Code) (hc : c.Correct) (p : Params) (sched : List Actor) : RunInv p (run c p sched) :=
  inv_foldl c hc p sched _ (inv_init c hc p)

end CimbaModel.Experiment
