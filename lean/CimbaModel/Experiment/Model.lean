/-
  The experiment runner of src/cimba.c as a transition system over interleavings.  Core Lean only
  (linked into the compiled driver `expmain`).

  Actors: the main thread (`cimba_run_experiment`) and W worker threads (`worker_thread_func`).
  A schedule is a list of actors: who performs its next atomic action.  An actor whose next action is
  not enabled (a worker that has not been created yet or has left its loop; the main thread blocked in
  `pthread_join` on a worker that has not finished) stutters, so every list of actors is a schedule.

  Atomic actions, exactly those of the C code:
    main    : one `pthread_create`            (spawning k     → spawning (k+1), while spawnCond k W)
              one `pthread_join` returning    (joining k      → joining (k+1), enabled iff worker k is done)
              leaving the join loop           (joining k      → returned, when ¬ joinCond k W)
    worker  : `idx = __atomic_fetch_add(&next, incr)`   (idle → fetched next; next += incr)       [atomicFetchAdd]
              or `idx = next` / `next = idx + incr`     (idle → loaded v → fetched v)              [loadThenStore]
              `if (stopWhen idx total) break;` else call the trial function on `elemAddr base idx sz`
                                                        (fetched i → done | running i)
              the trial function returns               (running i → idle)
  The code parameters (`fetchMode`, `fetchIncr`, `initNext`, `stopWhen`, `elemAddr`, `spawnCond`, `joinCond`)
  are passed in as a `Code` record; `Generated.Dispenser` supplies the record read off the current C source.

  Ghost history (never read by a step): `calls`, `finished`, `discarded`.
-/
import CimbaModel.Experiment.Types

namespace CimbaModel.Experiment

/-- what the C source says (filled from Generated/Dispenser.lean) -/
structure Code where
  fetchMode : FetchMode
  fetchIncr : Nat
  initNext : Nat
  resetsNext : Bool            -- `initNext` is stored at the start of every call of cimba_run_experiment (not only statically)
  stopWhen : Nat → Nat → Bool
  elemAddr : Nat → Nat → Nat → Nat
  spawnStart : Nat
  spawnCond : Nat → Nat → Bool
  joinStart : Nat
  joinCond : Nat → Nat → Bool

/-- the dispenser as documented: one atomic fetch-and-add of 1 from 0, stop at `idx ≥ n`, element `base + idx·sz`,
    create and join every one of the W threads -/
def Code.reference : Code :=
  { fetchMode := .atomicFetchAdd, fetchIncr := 1, initNext := 0, resetsNext := true,
    stopWhen := fun i n => decide (n ≤ i), elemAddr := fun b i s => b + i * s,
    spawnStart := 0, spawnCond := fun k W => decide (k < W), joinStart := 0, joinCond := fun k W => decide (k < W) }

/-- parameters of one call of `cimba_run_experiment` -/
structure Params where
  n : Nat        -- number of trials
  W : Nat        -- number of worker threads (logical cores)
  sz : Nat       -- size of one trial struct
  base : Nat     -- address of the trial array
  deriving Repr, DecidableEq

inductive WState where
  | idle                 -- about to fetch
  | loaded (v : Nat)     -- (loadThenStore only) has read the counter, has not yet stored
  | fetched (i : Nat)    -- holds index i, has not yet compared it with the bound
  | running (i : Nat)    -- inside the trial function for index i
  | done                 -- left the loop (thread finished)
  deriving Repr, DecidableEq, BEq

inductive Main where
  | spawning (k : Nat)   -- next thread to create
  | joining (k : Nat)    -- next thread to join
  | returned
  deriving Repr, DecidableEq, BEq

inductive Actor where
  | main
  | worker (w : Nat)
  deriving Repr, DecidableEq, BEq

structure State where
  next : Nat                      -- cmg_next_trial_idx
  ws : List WState                -- one per worker
  created : List Bool             -- thread w has been created
  main : Main
  calls : List (Nat × Nat)        -- ghost: (index, element address) of every call started, latest first
  finished : List Nat             -- ghost: indices whose call has returned, latest first
  discarded : List Nat            -- ghost: indices fetched and found past the bound, latest first
  deriving Repr, DecidableEq

def init (c : Code) (p : Params) : State :=
  { next := c.initNext, ws := List.replicate p.W .idle, created := List.replicate p.W false,
    main := .spawning c.spawnStart, calls := [], finished := [], discarded := [] }

def stepMain (c : Code) (p : Params) (s : State) : State :=
  match s.main with
  | .spawning k =>
    if c.spawnCond k p.W then { s with created := s.created.set k true, main := .spawning (k + 1) }
    else { s with main := .joining c.joinStart }
  | .joining k =>
    if c.joinCond k p.W then
      (if s.ws[k]? = some .done then { s with main := .joining (k + 1) } else s)
    else { s with main := .returned }
  | .returned => s

def stepWorker (c : Code) (p : Params) (s : State) (w : Nat) : State :=
  if s.created[w]? = some true then
    match s.ws[w]? with
    | some .idle =>
      match c.fetchMode with
      | .atomicFetchAdd => { s with next := s.next + c.fetchIncr, ws := s.ws.set w (.fetched s.next) }
      | .loadThenStore => { s with ws := s.ws.set w (.loaded s.next) }
    | some (.loaded v) => { s with next := v + c.fetchIncr, ws := s.ws.set w (.fetched v) }
    | some (.fetched i) =>
      if c.stopWhen i p.n then { s with ws := s.ws.set w .done, discarded := i :: s.discarded }
      else { s with ws := s.ws.set w (.running i), calls := (i, c.elemAddr p.base i p.sz) :: s.calls }
    | some (.running i) => { s with ws := s.ws.set w .idle, finished := i :: s.finished }
    | some .done => s
    | none => s
  else s

def step (c : Code) (p : Params) (s : State) : Actor → State
  | .main => stepMain c p s
  | .worker w => stepWorker c p s w

/-- the state after a schedule -/
def run (c : Code) (p : Params) (sched : List Actor) : State :=
  sched.foldl (step c p) (init c p)

/-- value of the shared counter when an experiment starts, given what the previous experiment of the process left in it
    (`initNext`, the static initialiser, for the first one) -/
def startNext (c : Code) (prev : Nat) : Nat := if c.resetsNext then c.initNext else prev

def initFrom (c : Code) (p : Params) (prev : Nat) : State := { init c p with next := startNext c prev }

def runFrom (c : Code) (p : Params) (prev : Nat) (sched : List Actor) : State :=
  sched.foldl (step c p) (initFrom c p prev)

/-- one process calling `cimba_run_experiment` several times, one call after the other: the states in which the calls end -/
def runSeq (c : Code) : Nat → List (Params × List Actor) → List State
  | _, [] => []
  | prev, (p, sched) :: rest => runFrom c p prev sched :: runSeq c (runFrom c p prev sched).next rest

def runProcess (c : Code) (exps : List (Params × List Actor)) : List State := runSeq c c.initNext exps

/-- indices held by workers that have fetched but not yet compared -/
def pendingOf : WState → List Nat
  | .fetched i => [i]
  | _ => []

/-- indices whose trial function is executing -/
def runningOf : WState → List Nat
  | .running i => [i]
  | _ => []

def State.pending (s : State) : List Nat := s.ws.flatMap pendingOf
def State.inflight (s : State) : List Nat := s.ws.flatMap runningOf

def allDone (s : State) : Bool := s.ws.all (· == .done)

/-- a round-robin schedule long enough to finish: used by the driver and by the non-vacuity examples -/
def roundRobin (W rounds : Nat) : List Actor :=
  (List.range rounds).flatMap fun _ => Actor.main :: (List.range W).map Actor.worker

end CimbaModel.Experiment
