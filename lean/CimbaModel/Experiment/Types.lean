/-
  Types shared by the generated files of C19 (Generated/TlsInventory.lean, Generated/Dispenser.lean)
  and the experiment model.  Core Lean only.
-/
namespace CimbaModel.Experiment

/-- how a function touches a variable with static storage duration (from clang's AST) -/
inductive AccessKind where
  | read                      -- plain load
  | write                     -- plain `=` store (whole variable or one field)
  | rmw                       -- `op=`, `++`, `--` (load and store, not atomic)
  | atomic (builtin : String) -- `&v` passed to a `__atomic_*` builtin
  | mutexOp (fn : String)     -- `&v` passed to pthread_mutex_lock / unlock / ...
  | addrTo (callee : String)  -- `&v` (or an array decaying to a pointer) passed to another function / escaping
  deriving Repr, DecidableEq, BEq

structure Access where
  fn : String                 -- function containing the access
  kind : AccessKind
  deriving Repr, DecidableEq, BEq

/-- one variable with static storage duration defined in the library sources -/
structure Entry where
  file : String               -- path relative to the repository root (or `<build>/x.inc`)
  function : String           -- enclosing function for a function-static, "" at file scope
  name : String
  isThreadLocal : Bool
  isConst : Bool              -- the declared type is const-qualified (arrays: the element type)
  type : String
  accesses : List Access      -- every access in every translation unit of the library, deduplicated
  resetBy : List String       -- functions that assign the whole variable (every field) by plain top-level `=`
                              -- statements, directly or through a callee called at top level
  readFirstBy : List String   -- among the functions of `resetBy` and the per-trial initialisation entry points: those that may
                              -- read the variable before they have assigned it (statement order; reads in nested positions
                              -- and in callees count, only unconditional top-level assignments protect later reads)
  deriving Repr, DecidableEq, BEq

/-- how the worker obtains its next trial index -/
inductive FetchMode where
  | atomicFetchAdd            -- one `__atomic_fetch_add(&next, k, SEQ_CST)`
  | loadThenStore             -- `idx = next; next = idx + k;` as two separate memory operations
  deriving Repr, DecidableEq, BEq

end CimbaModel.Experiment
