/-
  Classification of every variable with static storage duration of the library (Generated/TlsInventory.lean) with respect to
  isolation between trials.  Core Lean only (linked into `expmain`).

  A trial's results can depend on an earlier trial run by the same worker thread, or on a concurrent trial, only through
  state that outlives the trial function.  In this library that is: the variables below, heap memory still referenced
  from them, and libc's allocator state (not a variable of the library: see `AddressOnly` and the address tie-break finding).

  The allow-list is keyed on (file, function, name).  Const-qualified objects need no entry.  Every class carries a
  machine-checked side condition over the access sets and reset sets that the translator extracts from the C AST on every
  run, so the justification given in `why` cannot silently stop being true.
-/
import CimbaModel.Experiment.Types

namespace CimbaModel.Experiment

inductive Class where
  /-- assigned (whole variable) by a per-trial initialisation call before the trial uses it:
      `cmb_event_queue_initialize`, `cmb_random_initialize`, or the worker loop itself -/
  | ResetByTrialInit
  /-- function-local cache whose content is a function of the cached key alone; a hit returns what a miss would compute -/
  | PureMemo
  /-- function-local buffer that is written on every call before it is read -/
  | Scratch
  /-- per-thread bookkeeping of allocations (free lists, lazily created singletons): influences which addresses objects
      get, not the values computed — provided no result depends on an address (see finding `address-tiebreak`) -/
  | AddressOnly
  /-- const-qualified, or never written by any function of the library -/
  | ConstOrImmutable
  /-- one instance for the whole process, accessed only atomically / under a mutex / before the threads exist -/
  | SharedSynchronised
  /-- per-thread logger setting with no per-trial reset: gates and formats what is printed, never read by the simulation -/
  | LogOutputOnly
  /-- survives the per-trial initialisation and feeds into results: a trial's outcome depends on what ran before it -/
  | Leaks
  deriving Repr, DecidableEq, BEq

structure Rule where
  file : String
  function : String
  name : String
  cls : Class
  why : String

/-- the documented per-trial initialisation entry points (plus the worker loop, which runs before every trial) -/
def trialInit : List String := ["cmb_event_queue_initialize", "cmb_random_initialize", "worker_thread_func"]

/-- functions that run in the calling thread before any worker thread exists -/
def preSpawn : List String := ["cimba_run_experiment"]

def rules : List Rule := [
  -- src/cimba.c ---------------------------------------------------------------------------------------------------
  ⟨"src/cimba.c", "", "cmg_next_trial_idx", .SharedSynchronised,
    "stored once by cimba_run_experiment before pthread_create; afterwards only __atomic_fetch_add (SEQ_CST) by the workers"⟩,
  ⟨"src/cimba.c", "", "cmg_experiment_arr", .SharedSynchronised,
    "stored by cimba_run_experiment before pthread_create (which synchronises), only read by the workers"⟩,
  ⟨"src/cimba.c", "", "cmg_trial_struct_sz", .SharedSynchronised, "as cmg_experiment_arr"⟩,
  ⟨"src/cimba.c", "", "cmg_trial_func", .SharedSynchronised, "as cmg_experiment_arr"⟩,
  ⟨"src/cimba.c", "", "cmg_total_trials", .SharedSynchronised, "as cmg_experiment_arr"⟩,
  -- src/cmb_dataset.c ---------------------------------------------------------------------------------------------
  ⟨"src/cmb_dataset.c", "", "symbol_bar", .ConstOrImmutable, "plain static without const, but no function writes it"⟩,
  ⟨"src/cmb_dataset.c", "", "symbol_full", .ConstOrImmutable, "never written"⟩,
  ⟨"src/cmb_dataset.c", "", "symbol_half", .ConstOrImmutable, "never written"⟩,
  ⟨"src/cmb_dataset.c", "", "symbol_thin", .ConstOrImmutable, "never written"⟩,
  ⟨"src/cmb_dataset.c", "", "symbol_empty", .ConstOrImmutable, "never written"⟩,
  ⟨"src/cmb_dataset.c", "", "symbol_newline", .ConstOrImmutable, "never written"⟩,
  -- src/cmb_event.c -----------------------------------------------------------------------------------------------
  ⟨"src/cmb_event.c", "", "sim_time", .ResetByTrialInit, "cmb_event_queue_initialize: sim_time = start_time"⟩,
  ⟨"src/cmb_event.c", "", "event_queue", .ResetByTrialInit,
    "cmb_event_queue_initialize: event_queue = cmi_hashheap_create(), freshly initialised (handle counter restarts)"⟩,
  ⟨"src/cmb_event.c", "", "current_event", .ResetByTrialInit, "cmb_event_queue_initialize: current_event = 0"⟩,
  -- src/cmb_logger.c ----------------------------------------------------------------------------------------------
  ⟨"src/cmb_logger.c", "", "cmi_logger_mask", .LogOutputOnly,
    "only |= / &= by cmb_logger_flags_on/off, no reset function; read only to decide whether a line is printed"⟩,
  ⟨"src/cmb_logger.c", "", "cmi_logger_mutex", .SharedSynchronised, "the mutex itself: only pthread_mutex_lock / unlock"⟩,
  ⟨"src/cmb_logger.c", "", "cmi_logger_trial_idx", .ResetByTrialInit,
    "worker_thread_func stores the trial index before every call of the trial function; only printed"⟩,
  ⟨"src/cmb_logger.c", "", "timeformatter", .LogOutputOnly,
    "set only by cmb_logger_set_timeformatter; used only to format the time column of a log line"⟩,
  ⟨"src/cmb_logger.c", "time_to_string", "timestrbuf", .Scratch,
    "snprintf'ed on every call before the pointer is returned to the one caller that prints it"⟩,
  -- memory pools --------------------------------------------------------------------------------------------------
  ⟨"src/cmb_objectqueue.c", "", "objectqueue_tags", .AddressOnly,
    "per-thread free list of queue tags; every tag field is written after cmi_mempool_alloc before it is read"⟩,
  ⟨"src/cmb_process.c", "", "cmi_process_awaitabletags", .AddressOnly, "per-thread free list of tags"⟩,
  ⟨"src/cmb_process.c", "", "cmi_process_holdabletags", .AddressOnly, "per-thread free list of tags"⟩,
  ⟨"src/cmb_process.c", "", "cmi_process_waitertags", .AddressOnly, "per-thread free list of tags"⟩,
  ⟨"src/cmb_resourceguard.c", "", "observer_tagpool", .AddressOnly, "per-thread free list of tags"⟩,
  ⟨"src/cmi_mempool.c", "", "static_pools", .AddressOnly,
    "list of this thread's static pools, used only by the thread-exit cleanup"⟩,
  -- src/cmb_random.c ----------------------------------------------------------------------------------------------
  ⟨"src/cmb_random.c", "", "prng_state", .ResetByTrialInit, "cmb_random_initialize assigns a, b, c, d from the seed"⟩,
  ⟨"src/cmb_random.c", "", "initial_seed", .ResetByTrialInit, "cmb_random_initialize: initial_seed = seed"⟩,
  ⟨"src/cmb_random.c", "", "splitmix_state", .ResetByTrialInit,
    "cmb_random_initialize -> splitmix_initialize(seed): splitmix_state = seed"⟩,
  ⟨"src/cmb_random.c", "", "sum_tolerance", .ConstOrImmutable, "plain static without const, but no function writes it"⟩,
  ⟨"src/cmb_random.c", "cmb_random_std_gamma", "a_prev", .PureMemo,
    "key of the cache (c, d); a_prev = 0 initially and shape > 0 is asserted, so the first call always misses"⟩,
  ⟨"src/cmb_random.c", "cmb_random_std_gamma", "c", .PureMemo, "c = 1/sqrt(9 d), recomputed whenever shape != a_prev"⟩,
  ⟨"src/cmb_random.c", "cmb_random_std_gamma", "d", .PureMemo, "d = a_prev - 1/3, recomputed whenever shape != a_prev"⟩,
  ⟨"src/cmb_random.c", "cmb_random_geometric", "prev", .ConstOrImmutable,
    "never written (stays 0.0), so the cache below never hits"⟩,
  ⟨"src/cmb_random.c", "cmb_random_geometric", "denom", .PureMemo,
    "recomputed from p on every call with p != 0.0 (p > 0 is the documented precondition)"⟩,
  -- the coin-flip bit cache: DESIGN §5 row 16
  ⟨"src/cmb_random.c", "cmb_random_flip", "bits", .Leaks,
    "up to 63 cached bits of the previous stream survive cmb_random_initialize"⟩,
  ⟨"src/cmb_random.c", "cmb_random_flip", "bitpos", .Leaks,
    "number of cached bits left; not reset by cmb_random_initialize"⟩,
  -- the same cache after the repair (file scope, reset by cmb_random_initialize)
  ⟨"src/cmb_random.c", "", "flip_bits", .ResetByTrialInit, "cmb_random_initialize: flip_bits = 0"⟩,
  ⟨"src/cmb_random.c", "", "flip_bitpos", .ResetByTrialInit, "cmb_random_initialize: flip_bitpos = 0 (cache empty)"⟩,
  -- src/cmi_coroutine.c -------------------------------------------------------------------------------------------
  ⟨"src/cmi_coroutine.c", "", "coroutine_main", .AddressOnly,
    "lazily created per-thread descriptor of the thread's own stack; only compared with coroutine_current"⟩,
  ⟨"src/cmi_coroutine.c", "", "coroutine_current", .AddressOnly,
    "equals coroutine_main (or both NULL) whenever a trial function is entered or left: trials start and end on the thread's own stack"⟩
]

def Rule.covers (r : Rule) (e : Entry) : Bool :=
  r.name == e.name && r.function == e.function && r.file == e.file

def classify (e : Entry) : Option Class :=
  if e.isConst then some .ConstOrImmutable
  else (rules.find? (·.covers e)).map (·.cls)

def AccessKind.isRead : AccessKind → Bool
  | .read => true
  | _ => false

def AccessKind.isPlain : AccessKind → Bool
  | .read | .write | .rmw => true
  | _ => false

def Entry.neverWritten (e : Entry) : Bool := e.accesses.all (·.kind.isRead)

/-- can change after program start -/
def Entry.isMutable (e : Entry) : Bool := !e.isConst && !e.neverWritten

/-- one access to a process-wide variable is safe -/
def syncAccess (e : Entry) (a : Access) : Bool :=
  match a.kind with
  | .atomic _ => true
  | .mutexOp _ => true
  | .read => preSpawn.contains a.fn || e.accesses.all (fun b => b.kind.isRead || preSpawn.contains b.fn)
  | _ => preSpawn.contains a.fn

/-- the machine-checked side condition of each class -/
def sideCondition (e : Entry) : Class → Bool
  | .ResetByTrialInit =>
    -- some per-trial initialisation call assigns it on every path (no early return before the assignment) without looking at
    -- the old value first
    e.isThreadLocal && trialInit.any (fun f => e.resetBy.contains f && !e.readFirstBy.contains f)
  | .PureMemo => e.isThreadLocal && e.function != "" && e.accesses.all (fun a => a.kind.isPlain && a.fn == e.function)
  | .Scratch => e.isThreadLocal && e.function != "" && e.accesses.all (·.fn == e.function)
  | .AddressOnly => e.isThreadLocal
  | .ConstOrImmutable => e.isConst || e.neverWritten
  | .SharedSynchronised => !e.isThreadLocal && e.accesses.all (syncAccess e)
  | .LogOutputOnly => e.isThreadLocal
  | .Leaks => true

def entryOK (e : Entry) : Bool :=
  match classify e with
  | none => false
  | some c => sideCondition e c && (!e.isMutable || e.isThreadLocal || c == .SharedSynchronised)

def leaksOf (inv : List Entry) : List Entry := inv.filter (fun e => classify e == some .Leaks)

/-- the gamma sampler's cache, as a function of the key: what a call computes on a miss -/
structure GammaMemo (K : Type) where
  aPrev : K
  c : K
  d : K

/-- prologue of cmb_random_std_gamma over an abstract number type: `f shape = shape - 1/3`, `g d = 1/sqrt(9 d)` -/
def gammaPrologue {K : Type} [DecidableEq K] (f g : K → K) (m : GammaMemo K) (shape : K) : GammaMemo K :=
  if shape ≠ m.aPrev then { aPrev := shape, d := f shape, c := g (f shape) } else m

/-- the cache is consistent: either still in its initial state (key 0, which no valid call uses) or it holds the values
    a miss would compute for its key -/
def GammaMemo.consistent {K : Type} (zero : K) (f g : K → K) (m : GammaMemo K) : Prop :=
  m.aPrev = zero ∨ (m.d = f m.aPrev ∧ m.c = g (f m.aPrev))

/-- whatever consistent state an earlier trial left behind, a call with `shape ≠ 0` continues with the same `(c, d)` as a
    call on the initial cache, and leaves the cache consistent -/
theorem gamma_memo_pure {K : Type} [DecidableEq K] (zero : K) (f g : K → K) (m : GammaMemo K) (shape : K)
    (hm : m.consistent zero f g) (hs : shape ≠ zero) :
    (gammaPrologue f g m shape).d = f shape ∧ (gammaPrologue f g m shape).c = g (f shape) ∧
    (gammaPrologue f g m shape).consistent zero f g := by
  unfold gammaPrologue
  by_cases e : shape = m.aPrev
  · have hz : m.aPrev ≠ zero := fun x => hs (e.trans x)
    rcases hm with h0 | ⟨h1, h2⟩
    · exact absurd h0 hz
    · rw [if_neg (fun x => x e)]
      rw [e]
      exact ⟨h1, h2, Or.inr ⟨h1, h2⟩⟩
  · rw [if_pos e]
    exact ⟨rfl, rfl, Or.inr ⟨rfl, rfl⟩⟩

end CimbaModel.Experiment
