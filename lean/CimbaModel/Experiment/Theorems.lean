/-
  Consequences of the run invariant: exactly-once in every reachable and every terminal state, the join condition,
  absence of deadlock.  Core Lean only.
-/
import CimbaModel.Experiment.Invariant

namespace CimbaModel.Experiment

theorem count_filter_lt (i n : Nat) : ∀ l : List Nat,
    List.count i (l.filter (fun x => decide (x < n))) = if i < n then List.count i l else 0
  | [] => by simp
  | x :: xs => by
    have ih := count_filter_lt i n xs
    by_cases hx : x < n
    · simp only [List.filter_cons, hx, decide_true, if_true, count_cons', ih]
      split <;> split <;> omega
    · simp only [List.filter_cons, hx, decide_false, count_cons', ih]
      split <;> split <;> simp_all <;> omega

theorem count_eq_zero_of_forall_ge (i n : Nat) (l : List Nat) (h : ∀ x ∈ l, n ≤ x) (hi : i < n) : List.count i l = 0 := by
  apply List.count_eq_zero_of_not_mem
  intro hm
  have := h i hm
  omega

/-- In every state satisfying the invariant the trials in flight (fetched and in range, or executing) together with the
    finished ones are exactly the indices below `min next n`, each once. -/
theorem exact_of_inv (p : Params) (s : State) (h : RunInv p s) :
    ((s.pending.filter (fun x => decide (x < p.n))) ++ s.inflight ++ s.finished).Perm (List.range (min s.next p.n)) := by
  rw [List.perm_iff_count]
  intro i
  have h0 := h.occ i
  have h1 := h.run_lt i
  rw [List.count_append, List.count_append, count_filter_lt, count_range]
  by_cases hi : i < p.n
  · have hd := count_eq_zero_of_forall_ge i p.n _ h.disc_ge hi
    revert h0 hd
    simp only [hi, if_true]
    repeat' split
    all_goals (intros; omega)
  · have hz : List.count i s.inflight + List.count i s.finished = 0 := by omega
    clear h0 h1
    simp only [hi, if_false]
    split <;> omega

theorem handed_out_of_inv (p : Params) (s : State) (h : RunInv p s) :
    (s.pending ++ s.inflight ++ s.finished ++ s.discarded).Perm (List.range s.next) := by
  rw [List.perm_iff_count]
  intro i
  have h0 := h.occ i
  rw [List.count_append, List.count_append, List.count_append, count_range]
  exact h0

theorem all_done_of_forall (ws : List WState) (h : ∀ j, j < ws.length → ws[j]? = some .done) :
    ws = List.replicate ws.length .done := by
  rw [List.eq_replicate_iff]
  refine ⟨rfl, ?_⟩
  intro b hb
  rcases List.getElem_of_mem hb with ⟨j, hj, e⟩
  have := h j hj
  rw [List.getElem?_eq_getElem hj, e] at this
  exact Option.some.inj this

theorem count_done_replicate : ∀ n, List.count 0 ((List.replicate n WState.done).flatMap doneOf) = n
  | 0 => rfl
  | n + 1 => by
    simp only [List.replicate_succ, List.flatMap_cons, doneOf, List.count_append, count_done_replicate n, count_single]
    simp; omega

theorem terminal_of_inv (p : Params) (hW : 1 ≤ p.W) (s : State) (h : RunInv p s) (hret : s.main = .returned) :
    s.pending = [] ∧ s.inflight = [] ∧ s.finished.Perm (List.range p.n) ∧
    (s.calls.map Prod.fst).Perm (List.range p.n) ∧ ∀ x ∈ s.calls, x.2 = p.base + x.1 * p.sz := by
  have hm := h.main_ok
  rw [hret] at hm
  have hws : s.ws = List.replicate s.ws.length .done :=
    all_done_of_forall s.ws (fun j hj => hm j (by rw [← h.len_ws]; exact hj))
  have hp : s.pending = [] := by
    show s.ws.flatMap pendingOf = []
    rw [hws]; exact flatMap_replicate_nil pendingOf .done rfl _
  have hr : s.inflight = [] := by
    show s.ws.flatMap runningOf = []
    rw [hws]; exact flatMap_replicate_nil runningOf .done rfl _
  have hd : s.discarded.length = p.W := by
    have := h.done_cnt
    rw [hws, count_done_replicate, h.len_ws] at this
    exact this.symm
  -- some discarded index exists, it is ≥ n and < next
  have hnext : p.n < s.next := by
    cases hdl : s.discarded with
    | nil => rw [hdl] at hd; simp at hd; omega
    | cons i rest =>
      have hi : i ∈ s.discarded := by rw [hdl]; exact List.mem_cons_self
      have hge := h.disc_ge i hi
      have h0 := h.occ i
      have hpos : 0 < List.count i s.discarded := List.count_pos_iff.2 hi
      revert h0
      split
      · intro _; omega
      · intro h0; omega
  have hfin : s.finished.Perm (List.range p.n) := by
    rw [List.perm_iff_count]
    intro i
    have h0 := h.occ i
    have h1 := h.run_lt i
    rw [hp, hr] at h0
    rw [hr] at h1
    rw [count_range]
    by_cases hi : i < p.n
    · have hdz := count_eq_zero_of_forall_ge i p.n _ h.disc_ge hi
      revert h0
      simp only [List.count_nil, hi, if_true]
      split
      · intro h0; omega
      · intro h0; omega
    · simp only [hi, if_false]
      simp only [List.count_nil] at h1
      omega
  refine ⟨hp, hr, hfin, ?_, h.calls_addr⟩
  rw [List.perm_iff_count]
  intro i
  rw [h.calls_idx i, hr, List.count_nil, Nat.zero_add]
  exact (List.perm_iff_count.1 hfin) i

/-- the main thread has returned only if every worker has left its loop -/
theorem returned_all_done (c : Code) (hc : c.Correct) (p : Params) (sched : List Actor)
    (hret : (run c p sched).main = .returned) : ∀ w, w < p.W → (run c p sched).ws[w]? = some .done := by
  have hm := (inv_run c hc p sched).main_ok
  rw [hret] at hm
  exact hm

/-- the `k`-th `pthread_join` cannot return before worker `k` has finished (by definition of the step) -/
theorem join_waits (c : Code) (p : Params) (s : State) (k : Nat) (hm : s.main = .joining k) (hj : c.joinCond k p.W = true)
    (hnd : s.ws[k]? ≠ some .done) : stepMain c p s = s := by
  unfold stepMain
  rw [hm]
  simp [hj, hnd]

/-- no deadlock: as long as the main thread has not returned, some actor can move (trial functions terminate) -/
theorem no_deadlock (c : Code) (hc : c.Correct) (p : Params) (sched : List Actor)
    (hnr : (run c p sched).main ≠ .returned) : ∃ a, step c p (run c p sched) a ≠ run c p sched := by
  have h := inv_run c hc p sched
  generalize run c p sched = s at *
  have hm := h.main_ok
  cases hmain : s.main with
  | returned => exact absurd hmain hnr
  | spawning k =>
    refine ⟨.main, ?_⟩
    intro e
    have := congrArg State.main e
    simp only [step, stepMain, hmain] at this
    split at this <;> simp [hmain] at this
  | joining k =>
    rw [hmain] at hm
    by_cases hj : c.joinCond k p.W = true
    · have hk : k < p.W := (hc.join k p.W).1 hj
      have hlen : k < s.ws.length := by rw [h.len_ws]; exact hk
      by_cases hd : s.ws[k]? = some .done
      · refine ⟨.main, ?_⟩
        intro e
        have := congrArg State.main e
        simp [step, stepMain, hmain, hj, hd] at this
      · refine ⟨.worker k, ?_⟩
        intro e
        have hcr := hm.2.1 k hk
        have hws := congrArg (fun t => t.ws[k]?) e
        simp only [step, stepWorker, hcr, if_true] at hws
        have hget : s.ws[k]? = some s.ws[k] := List.getElem?_eq_getElem hlen
        cases hx : s.ws[k] with
        | idle =>
          rw [hx] at hget
          simp [hget, hc.mode, List.getElem?_set_self hlen] at hws
        | loaded v => rw [hx] at hget; exact absurd hget (h.no_loaded k v)
        | fetched i =>
          rw [hx] at hget
          simp only [hget] at hws
          split at hws <;> simp [List.getElem?_set_self hlen, hget] at hws
        | running i =>
          rw [hx] at hget
          simp [hget, List.getElem?_set_self hlen] at hws
        | done => rw [hx] at hget; exact absurd hget hd
    · refine ⟨.main, ?_⟩
      intro e
      have := congrArg State.main e
      simp [step, stepMain, hmain, hj] at this

/-- the defective dispenser: the fetch split into a load and a store -/
def Code.split : Code := { Code.reference with fetchMode := .loadThenStore }

/-- a schedule on which the split fetch runs trial 0 twice (n = 1, two workers) -/
def splitWitness : List Actor :=
  [.main, .main, .main,                 -- create both threads, leave the create loop
   .worker 0, .worker 1,                -- both load next = 0
   .worker 0, .worker 1,                -- both store 1
   .worker 0, .worker 1,                -- both compare 0 < 1 and call the trial function on element 0
   .worker 0, .worker 1,                -- both calls return
   .worker 0, .worker 0, .worker 0,     -- load 1, store 2, 1 ≥ 1: leave
   .worker 1, .worker 1, .worker 1,
   .main, .main, .main]                 -- join both, return

end CimbaModel.Experiment
