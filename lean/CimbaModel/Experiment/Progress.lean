/-
  Termination of the runner: a measure that every effective step decreases, hence from every reachable state the run can be
  completed, and no schedule contains more than `measure (init)` effective steps.  Core Lean only.
-/
import CimbaModel.Experiment.Theorems

namespace CimbaModel.Experiment

/-- remaining work of one worker, given the number of trials -/
def wt (n : Nat) : WState → Nat
  | .idle => 2
  | .loaded _ => 0
  | .fetched i => if i < n then 4 else 1
  | .running _ => 3
  | .done => 0

def mainWt (W : Nat) : Main → Nat
  | .spawning k => (W - k) + W + 2
  | .joining k => (W - k) + 1
  | .returned => 0

def measure (p : Params) (s : State) : Nat :=
  4 * (p.n - min s.next p.n) + (s.ws.map (wt p.n)).sum + mainWt p.W s.main

theorem sum_map_set (f : WState → Nat) : ∀ (ws : List WState) (w : Nat) (a b : WState), ws[w]? = some a →
    ((ws.set w b).map f).sum + f a = (ws.map f).sum + f b
  | [], w, a, b, h => by simp at h
  | x :: xs, 0, a, b, h => by
    simp at h; subst h
    simp [List.sum_cons]; omega
  | x :: xs, w + 1, a, b, h => by
    simp at h
    have ih := sum_map_set f xs w a b h
    simp only [List.set_cons_succ, List.map_cons, List.sum_cons]; omega

/-- every step that changes the state decreases the measure -/
theorem step_decreases (c : Code) (hc : c.Correct) (p : Params) (s : State) (h : RunInv p s) (a : Actor)
    (hne : step c p s a ≠ s) : measure p (step c p s a) < measure p s := by
  cases a with
  | main =>
    have hm := h.main_ok
    simp only [step] at hne ⊢
    unfold stepMain at hne ⊢
    cases hmain : s.main with
    | returned => simp [hmain] at hne
    | spawning k =>
      rw [hmain] at hm
      simp only [hmain] at hne ⊢
      split
      · rename_i hcnd
        have hk : k < p.W := (hc.spawn k p.W).1 hcnd
        simp only [measure, mainWt, hmain]
        omega
      · simp only [measure, mainWt, hmain, hc.join0]
        omega
    | joining k =>
      rw [hmain] at hm
      simp only [hmain] at hne ⊢
      split
      · rename_i hcnd
        have hk : k < p.W := (hc.join k p.W).1 hcnd
        split
        · simp only [measure, mainWt, hmain]
          omega
        · rename_i hnd
          simp [hcnd, hnd] at hne
      · simp only [measure, mainWt, hmain]
        omega
  | worker w =>
    simp only [step] at hne ⊢
    unfold stepWorker at hne ⊢
    split
    case isFalse hcr => simp [hcr] at hne
    case isTrue hcr =>
    simp only [hcr, if_true] at hne
    split
    · rename_i hw
      simp only [hc.mode, hc.incr]
      have hs := sum_map_set (wt p.n) s.ws w .idle (.fetched s.next) hw
      simp only [measure, wt] at hs ⊢
      by_cases hlt : s.next < p.n
      · simp only [hlt, if_true] at hs
        have e1 : min s.next p.n = s.next := Nat.min_eq_left (Nat.le_of_lt hlt)
        have e2 : min (s.next + 1) p.n = s.next + 1 := Nat.min_eq_left hlt
        rw [e1, e2]
        omega
      · simp only [hlt, if_false] at hs
        have e1 : min s.next p.n = p.n := Nat.min_eq_right (by omega)
        have e2 : min (s.next + 1) p.n = p.n := Nat.min_eq_right (by omega)
        rw [e1, e2]
        omega
    · rename_i v hw
      exact absurd hw (h.no_loaded w v)
    · rename_i i hw
      split
      · rename_i hst
        have hge : p.n ≤ i := (hc.stop i p.n).1 hst
        have hs := sum_map_set (wt p.n) s.ws w (.fetched i) .done hw
        have : ¬ i < p.n := by omega
        simp only [measure, wt, this, if_false] at hs ⊢
        omega
      · rename_i hst
        have hlt : i < p.n := by
          have : ¬ p.n ≤ i := fun x => hst ((hc.stop i p.n).2 x)
          omega
        have hs := sum_map_set (wt p.n) s.ws w (.fetched i) (.running i) hw
        simp only [measure, wt, hlt, if_true] at hs ⊢
        omega
    · rename_i i hw
      have hs := sum_map_set (wt p.n) s.ws w (.running i) .idle hw
      simp only [measure, wt] at hs ⊢
      omega
    · rename_i hw
      simp [hw] at hne
    · rename_i hw
      simp [hw] at hne

theorem run_append (c : Code) (p : Params) (s1 s2 : List Actor) :
    run c p (s1 ++ s2) = s2.foldl (step c p) (run c p s1) := by
  simp [run, List.foldl_append]

/-- From every reachable state the experiment can be completed: there is a continuation after which the main thread has
    returned.  (With `no_deadlock` and `step_decreases`: every scheduler that keeps choosing threads that can move gets there.) -/
theorem can_always_finish (c : Code) (hc : c.Correct) (p : Params) :
    ∀ (m : Nat) (sched : List Actor), measure p (run c p sched) ≤ m →
      ∃ ext, (run c p (sched ++ ext)).main = .returned := by
  intro m
  induction m with
  | zero =>
    intro sched hm
    by_cases hr : (run c p sched).main = .returned
    · exact ⟨[], by simpa using hr⟩
    · obtain ⟨a, ha⟩ := no_deadlock c hc p sched hr
      have := step_decreases c hc p _ (inv_run c hc p sched) a ha
      omega
  | succ m ih =>
    intro sched hm
    by_cases hr : (run c p sched).main = .returned
    · exact ⟨[], by simpa using hr⟩
    · obtain ⟨a, ha⟩ := no_deadlock c hc p sched hr
      have hd := step_decreases c hc p _ (inv_run c hc p sched) a ha
      have hrun : run c p (sched ++ [a]) = step c p (run c p sched) a := by
        rw [run_append]; rfl
      obtain ⟨ext, he⟩ := ih (sched ++ [a]) (by rw [hrun]; omega)
      exact ⟨a :: ext, by simpa [List.append_assoc] using he⟩

/-- number of steps of a schedule that change the state -/
def effective (c : Code) (p : Params) : State → List Actor → Nat
  | _, [] => 0
  | s, a :: rest => (if step c p s a ≠ s then 1 else 0) + effective c p (step c p s a) rest

theorem effective_le_measure (c : Code) (hc : c.Correct) (p : Params) :
    ∀ (sched : List Actor) (s : State), RunInv p s → effective c p s sched + measure p (sched.foldl (step c p) s) ≤ measure p s
  | [], s, _ => by simp [effective]
  | a :: rest, s, h => by
    have ih := effective_le_measure c hc p rest (step c p s a) (inv_step c hc p s a h)
    simp only [effective, List.foldl_cons]
    by_cases hne : step c p s a ≠ s
    · have := step_decreases c hc p s h a hne
      rw [if_pos hne]; omega
    · have he : step c p s a = s := Classical.not_not.1 hne
      rw [if_neg hne]
      rw [he] at ih ⊢
      omega

/-- with the counter stored at the start of every call, a later experiment of a process starts exactly like the first -/
theorem initFrom_eq_init (c : Code) (hc : c.Correct) (p : Params) (prev : Nat) : initFrom c p prev = init c p := by
  simp [initFrom, startNext, hc.reset, init]

theorem runSeq_eq_map_run (c : Code) (hc : c.Correct) : ∀ (exps : List (Params × List Actor)) (prev : Nat),
    runSeq c prev exps = exps.map (fun e => run c e.1 e.2)
  | [], _ => rfl
  | (p, sched) :: rest, prev => by
    have h : runFrom c p prev sched = run c p sched := by simp [runFrom, run, initFrom_eq_init c hc]
    simp only [runSeq, List.map_cons, h, runSeq_eq_map_run c hc rest]

/-- the defective runner: the counter only has its static initialiser -/
def Code.noReset : Code := { Code.reference with resetsNext := false }

theorem sum_map_replicate_idle (n : Nat) : ∀ W, ((List.replicate W WState.idle).map (wt n)).sum = 2 * W
  | 0 => rfl
  | W + 1 => by
    simp only [List.replicate_succ, List.map_cons, List.sum_cons, sum_map_replicate_idle n W, wt]; omega

theorem measure_init (c : Code) (hc : c.Correct) (p : Params) : measure p (init c p) = 4 * p.n + 4 * p.W + 2 := by
  simp only [measure, init, hc.init, hc.spawn0, sum_map_replicate_idle, mainWt, Nat.zero_min, Nat.sub_zero]
  omega

end CimbaModel.Experiment
