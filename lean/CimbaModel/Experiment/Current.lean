/-
  The dispenser and join as found in the C source on this run (assembled from Generated/Dispenser.lean).  Core Lean only.
-/
import CimbaModel.Experiment.Model
import CimbaModel.Generated.Dispenser

namespace CimbaModel.Experiment

def currentCode : Code :=
  { fetchMode := Generated.fetchMode, fetchIncr := Generated.fetchIncr, initNext := Generated.initNext,
    resetsNext := Generated.resetsCounterEachRun,
    stopWhen := Generated.stopWhen, elemAddr := Generated.elemAddr,
    spawnStart := Generated.spawnStart, spawnCond := Generated.spawnCond,
    joinStart := Generated.joinStart, joinCond := Generated.joinCond }

end CimbaModel.Experiment
