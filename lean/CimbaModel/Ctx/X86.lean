/-
  X86 - the part of the x86-64 user-mode machine that the context switch touches (DESIGN.md §4 C03).

  Core Lean only (the compiled driver Drivers/CtxMain links this file).

  State: 16 general purpose registers, RFLAGS, MXCSR, RIP, and memory as a function from
  (8-aligned) word addresses to 64-bit words.  The model is word-granular: every qword access has to
  be 8-aligned and the only 32-bit accesses (STMXCSR / LDMXCSR m32) have to hit one half of an
  aligned word.  An access that does not satisfy this clears `ok`; the theorems of Props/C03 conclude
  `ok = true`, so the alignment hypotheses they state (rsp 8-aligned, `old`/`new` 8-aligned) are exactly
  what makes the word-granular model a faithful picture of the byte-addressed machine.

  Semantics transcribed from the Intel SDM vol. 2 (PUSHFQ, POPFQ at CPL 3 with IOPL 0, PUSH, POP, MOV,
  ADD, SUB, XOR, LEA, STMXCSR, LDMXCSR, CALL r64, JMP r64, RET near).  This transcription is in the
  trusted base; harness/ctxprobe.asm compares it with the CPU on seeded register files on every run.
-/
namespace CimbaModel.Ctx

abbrev W := BitVec 64

inductive Reg
  | rax | rcx | rdx | rbx | rsp | rbp | rsi | rdi | r8 | r9 | r10 | r11 | r12 | r13 | r14 | r15
  deriving DecidableEq, Repr, Inhabited

structure State where
  rax : W
  rcx : W
  rdx : W
  rbx : W
  rsp : W
  rbp : W
  rsi : W
  rdi : W
  r8 : W
  r9 : W
  r10 : W
  r11 : W
  r12 : W
  r13 : W
  r14 : W
  r15 : W
  rflags : W
  mxcsr : BitVec 32
  rip : W
  mem : W → W
  /-- every memory access so far was inside the word-granular model (aligned), and no LDMXCSR #GP -/
  ok : Bool

namespace State

@[simp] def get (s : State) : Reg → W
  | .rax => s.rax | .rcx => s.rcx | .rdx => s.rdx | .rbx => s.rbx
  | .rsp => s.rsp | .rbp => s.rbp | .rsi => s.rsi | .rdi => s.rdi
  | .r8 => s.r8 | .r9 => s.r9 | .r10 => s.r10 | .r11 => s.r11
  | .r12 => s.r12 | .r13 => s.r13 | .r14 => s.r14 | .r15 => s.r15

@[simp] def set (s : State) (r : Reg) (v : W) : State :=
  match r with
  | .rax => { s with rax := v } | .rcx => { s with rcx := v } | .rdx => { s with rdx := v }
  | .rbx => { s with rbx := v } | .rsp => { s with rsp := v } | .rbp => { s with rbp := v }
  | .rsi => { s with rsi := v } | .rdi => { s with rdi := v } | .r8 => { s with r8 := v }
  | .r9 => { s with r9 := v } | .r10 => { s with r10 := v } | .r11 => { s with r11 := v }
  | .r12 => { s with r12 := v } | .r13 => { s with r13 := v } | .r14 => { s with r14 := v }
  | .r15 => { s with r15 := v }

end State

/-- 8-byte alignment of an address -/
def al (a : W) : Bool := a.toNat % 8 == 0

/-- memory with one word replaced -/
def upd (m : W → W) (a v : W) : W → W := fun x => if x = a then v else m x

/-- aligned qword store -/
def State.wr (s : State) (a v : W) : State := { s with mem := upd s.mem a v, ok := s.ok && al a }

/-- aligned qword load: the value, and the state with the alignment obligation recorded -/
def State.rdOk (s : State) (a : W) : State := { s with ok := s.ok && al a }

/-! ### RFLAGS -/

/-- what PUSHFQ stores: RFLAGS with VM (17) and RF (16) cleared (SDM: `RFLAGS AND 00FCFFFFH`) -/
def pushfMask : W := 0x00FCFFFF#64

/-- flags a CPL-3 POPFQ with IOPL 0 can change: CF PF AF ZF SF TF DF OF NT AC ID
    (bits 0 2 4 6 7 8 10 11 14 18 21).  IF and IOPL stay, reserved bits stay. -/
def userMask : W := 0x244DD5#64

/-- flags POPFQ always clears: RF (16), VIF (19), VIP (20) -/
def popfClear : W := 0x190000#64

def popfValue (old v : W) : W := (old &&& ~~~(userMask ||| popfClear)) ||| (v &&& userMask)

/-- the user-visible (user-changeable) flags -/
def userFlags (s : State) : W := s.rflags &&& userMask

/-- the six arithmetic status flags CF PF AF ZF SF OF -/
def arithMask : W := 0x8D5#64

def bit (b : Bool) (n : Nat) : W := if b then (1#64 <<< n) else 0#64

/-- even parity of the low byte -/
def parity (r : W) : Bool :=
  let b := fun (i : Nat) => r.getLsbD i
  !(b 0 ^^ b 1 ^^ b 2 ^^ b 3 ^^ b 4 ^^ b 5 ^^ b 6 ^^ b 7)

def szp (r : W) : W := bit (r == 0#64) 6 ||| bit r.msb 7 ||| bit (parity r) 2

/-- replace the six arithmetic status flags of `old` by those of `v` -/
def setArith (old v : W) : W := (old &&& ~~~arithMask) ||| (v &&& arithMask)

/-- RFLAGS after `SUB a, b` (result r = a - b) -/
def flagsSub (old a b : W) : W :=
  let r := a - b
  setArith old (szp r ||| bit (a.ult b) 0 ||| bit ((a &&& 15#64).ult (b &&& 15#64)) 4
    ||| bit ((a.msb != b.msb) && (r.msb != a.msb)) 11)

/-- RFLAGS after `ADD a, b` (result r = a + b) -/
def flagsAdd (old a b : W) : W :=
  let r := a + b
  setArith old (szp r ||| bit (r.ult a) 0 ||| bit ((15#64).ult ((a &&& 15#64) + (b &&& 15#64))) 4
    ||| bit ((a.msb == b.msb) && (r.msb != a.msb)) 11)

/-- RFLAGS after a logical operation with result r (CF = OF = 0; AF is undefined in the SDM, modelled as 0) -/
def flagsLogic (old r : W) : W := setArith old (szp r)

/-! ### MXCSR -/

/-- reserved bits of MXCSR: loading a value with any of them set raises #GP -/
def mxcsrReserved : BitVec 32 := 0xFFFF0000#32

def hi32 (w : W) : BitVec 32 := w.extractLsb' 32 32
def lo32 (w : W) : BitVec 32 := w.extractLsb' 0 32
def mk64 (hi lo : BitVec 32) : W := hi ++ lo

/-! ### instructions -/

inductive Instr
  | pushfq
  | popfq
  | push (r : Reg)
  | pop (r : Reg)
  | movRR (dst src : Reg)
  /-- `mov dst, QWORD PTR [base + disp]` -/
  | movRM (dst base : Reg) (disp : W)
  /-- `mov QWORD PTR [base + disp], src` -/
  | movMR (base : Reg) (disp : W) (src : Reg)
  | subRI (r : Reg) (imm : W)
  | addRI (r : Reg) (imm : W)
  | xorRR (dst src : Reg)
  | leaRM (dst base : Reg) (disp : W)
  /-- `stmxcsr DWORD PTR [base + disp]` -/
  | stmxcsr (base : Reg) (disp : W)
  | ldmxcsr (base : Reg) (disp : W)
  | callR (r : Reg)
  | jmpR (r : Reg)
  | ret
  deriving DecidableEq, Repr, Inhabited

def Instr.isTransfer : Instr → Bool
  | .callR _ | .jmpR _ | .ret => true
  | _ => false

/-- word address and half (true = upper) of a 4-byte access at `base + disp`; `disp` is a literal in
    the code, so which half is hit is decided by `disp` once `base` is 8-aligned -/
def half (disp : W) : Option (W × Bool) :=
  if disp.toNat % 8 == 4 then some (disp - 4#64, true)
  else if disp.toNat % 8 == 0 then some (disp, false)
  else none

/-- one instruction of encoded length `len` -/
def step (i : Instr) (len : Nat) (s : State) : State :=
  let next := s.rip + BitVec.ofNat 64 len
  match i with
  | .pushfq =>
    let sp := s.rsp - 8#64
    { (s.wr sp (s.rflags &&& pushfMask)) with rsp := sp, rip := next }
  | .popfq =>
    let v := s.mem s.rsp
    { (s.rdOk s.rsp) with rflags := popfValue s.rflags v, rsp := s.rsp + 8#64, rip := next }
  | .push r =>
    let sp := s.rsp - 8#64
    -- PUSH RSP pushes the value before the decrement; `s.get r` is read from the old state
    { (s.wr sp (s.get r)) with rsp := sp, rip := next }
  | .pop r =>
    let v := s.mem s.rsp
    -- POP RSP: the increment happens before the load result is written
    { (({ (s.rdOk s.rsp) with rsp := s.rsp + 8#64 }).set r v) with rip := next }
  | .movRR d r => { (s.set d (s.get r)) with rip := next }
  | .movRM d b disp =>
    let a := s.get b + disp
    { ((s.rdOk a).set d (s.mem a)) with rip := next }
  | .movMR b disp r =>
    let a := s.get b + disp
    { (s.wr a (s.get r)) with rip := next }
  | .subRI r imm =>
    let a := s.get r
    { ((s.set r (a - imm))) with rflags := flagsSub s.rflags a imm, rip := next }
  | .addRI r imm =>
    let a := s.get r
    { ((s.set r (a + imm))) with rflags := flagsAdd s.rflags a imm, rip := next }
  | .xorRR d r =>
    let v := s.get d ^^^ s.get r
    { (s.set d v) with rflags := flagsLogic s.rflags v, rip := next }
  | .leaRM d b disp => { (s.set d (s.get b + disp)) with rip := next }
  | .stmxcsr b disp =>
    match half disp with
    | some (d, true) =>
      let a := s.get b + d
      { (s.wr a (mk64 s.mxcsr (lo32 (s.mem a)))) with rip := next }
    | some (d, false) =>
      let a := s.get b + d
      { (s.wr a (mk64 (hi32 (s.mem a)) s.mxcsr)) with rip := next }
    | none => { s with ok := false, rip := next }
  | .ldmxcsr b disp =>
    match half disp with
    | some (d, up) =>
      let a := s.get b + d
      let v := if up then hi32 (s.mem a) else lo32 (s.mem a)
      { (s.rdOk a) with mxcsr := v, ok := s.ok && al a && (v &&& mxcsrReserved == 0#32), rip := next }
    | none => { s with ok := false, rip := next }
  | .callR r =>
    let sp := s.rsp - 8#64
    { (s.wr sp next) with rsp := sp, rip := s.get r }
  | .jmpR r => { s with rip := s.get r }
  | .ret =>
    { (s.rdOk s.rsp) with rip := s.mem s.rsp, rsp := s.rsp + 8#64 }

/-- A routine as the translator emits it: instructions with their encoded lengths. -/
abbrev Code := List (Instr × Nat)

/-- Run straight-line code up to and including the first control transfer (`call`/`jmp`/`ret`),
    which leaves its target in `rip`. -/
def exec : Code → State → State
  | [], s => s
  | (i, n) :: rest, s => if i.isTransfer then step i n s else exec rest (step i n s)

/-- the code that starts `off` bytes into a routine (instruction fetch at `routine + off`) -/
def codeFrom : Code → Nat → Option Code
  | c, 0 => some c
  | [], _ + 1 => none
  | (_, n) :: rest, off + 1 => if n ≤ off + 1 then codeFrom rest (off + 1 - n) else none

/-! ### basic facts used by every client -/

@[simp] theorem hi32_mk64 (a b : BitVec 32) : hi32 (mk64 a b) = a := by
  unfold hi32 mk64; ext i hi; simp
  rw [BitVec.getLsbD_append]
  have : ¬ (32 + i < 32) := by omega
  simp [this, BitVec.getLsbD_eq_getElem hi]
@[simp] theorem lo32_mk64 (a b : BitVec 32) : lo32 (mk64 a b) = b := by
  unfold lo32 mk64; ext i hi; simp
  rw [BitVec.getLsbD_append]; simp [hi]
theorem mk64_hi_lo (w : W) : mk64 (hi32 w) (lo32 w) = w := by
  unfold hi32 lo32 mk64; ext i hi
  rw [BitVec.getElem_append]; simp
  have hi' : i < 64 := hi
  split
  · exact BitVec.getLsbD_eq_getElem hi'
  · have : 32 + (i - 32) = i := by omega
    rw [this]; exact BitVec.getLsbD_eq_getElem hi'

/-- the callee-saved general purpose registers of the System V AMD64 ABI (besides rsp) -/
def calleeSaved : List Reg := [.rbx, .rbp, .r12, .r13, .r14, .r15]

end CimbaModel.Ctx
