/-
  Frame - the initial stack frame that cmi_coroutine_context_init (src/port/x86-64/linux/
  cmi_coroutine_context.c) leaves below `stack_base`, and a half-word-granular model of the C stores
  that produce it (the shipped sequence with its misaligned 8-byte store of the MXCSR image, and the
  sequence after fixes/C10-mxcsr-store.patch).  Core Lean only.

  Tie: harness/ctxdrv.c calls the real cmi_coroutine_context_init on a pattern-filled stack and dumps
  the 80 bytes below stack_base; Drivers/CtxMain prints `initFrame`; tools/props/C03.py compares.
-/
import CimbaModel.Ctx.X86

namespace CimbaModel.Ctx

/-- the documented initial MXCSR: all exceptions masked except invalid-operation and divide-by-zero,
    round to nearest -/
def initMxcsr : BitVec 32 := 0x1d00#32

/-- The initial frame image, ascending from `stack_base - 72` (= the initial `stack_pointer`):
    r15 = exit function, r14 = context argument, r13 = coroutine pointer, r12 = coroutine function,
    rbx = 0, rbp = stack_base - 40, MXCSR slot (image in the upper half), RFLAGS image = 0,
    return address = trampoline. -/
def initFrame (tramp fn cp ctx exitf base : W) : List W :=
  [exitf, ctx, cp, fn, 0#64, base - 40#64, mk64 initMxcsr 0#32, 0#64, tramp]

/-- `fr` lies in memory `m` at ascending word addresses from `a` -/
def FrameAt (m : W → W) : W → List W → Prop
  | _, [] => True
  | a, w :: ws => m a = w ∧ FrameAt m (a + 8#64) ws

/-! ### the C stores, at 4-byte granularity -/

/-- One store of the C function at `below` bytes below `stack_base` (which is 16-aligned). -/
inductive CStore
  /-- `*(uint64_t *)(stack_base - below) = v` -/
  | u64 (below : Nat) (v : W)
  /-- `*(uint32_t *)(stack_base - below) = v` -/
  | u32 (below : Nat) (v : BitVec 32)

/-- memory as 32-bit units keyed by their distance below `stack_base` (a multiple of 4) -/
abbrev HMem := Nat → BitVec 32

/-- little endian: the low half of a qword is at the lower address, i.e. at the larger distance -/
def CStore.apply (m : HMem) : CStore → HMem
  | .u64 d v => fun x => if x = d then lo32 v else if x + 4 = d then hi32 v else m x
  | .u32 d v => fun x => if x = d then v else m x

/-- naturally aligned, as C requires (UBSan's `-fsanitize=alignment`) -/
def CStore.aligned : CStore → Bool
  | .u64 d _ => d % 8 == 0
  | .u32 d _ => d % 4 == 0

def runStores (m : HMem) (l : List CStore) : HMem := l.foldl CStore.apply m

/-- the k-th word of the frame (ascending from `stack_base - 72`) -/
def image (m : HMem) (k : Nat) : W := mk64 (m (68 - 8 * k)) (m (72 - 8 * k))

/-- the stores of cmi_coroutine_context_init as shipped (line 169 is the misaligned one) -/
def shippedStores (tramp fn cp ctx exitf base : W) : List CStore :=
  [.u64 8 tramp, .u64 16 0#64, .u64 20 0x1d00#64, .u32 24 0#32, .u64 32 (base - 40#64), .u64 40 0#64,
   .u64 48 fn, .u64 56 cp, .u64 64 ctx, .u64 72 exitf]

/-- the same with the MXCSR image written by a 32-bit store (fixes/C10-mxcsr-store.patch) -/
def patchedStores (tramp fn cp ctx exitf base : W) : List CStore :=
  [.u64 8 tramp, .u64 16 0#64, .u32 20 0x1d00#32, .u32 24 0#32, .u64 32 (base - 40#64), .u64 40 0#64,
   .u64 48 fn, .u64 56 cp, .u64 64 ctx, .u64 72 exitf]

theorem shipped_image (m : HMem) (tramp fn cp ctx exitf base : W) :
    (List.range 9).map (image (runStores m (shippedStores tramp fn cp ctx exitf base)))
      = initFrame tramp fn cp ctx exitf base := by
  simp [List.range, List.range.loop, image, runStores, shippedStores, CStore.apply, initFrame, mk64_hi_lo,
    initMxcsr]
  refine ⟨?_, ?_⟩ <;> rfl

theorem patched_image (m : HMem) (tramp fn cp ctx exitf base : W) :
    (List.range 9).map (image (runStores m (patchedStores tramp fn cp ctx exitf base)))
      = initFrame tramp fn cp ctx exitf base := by
  simp [List.range, List.range.loop, image, runStores, patchedStores, CStore.apply, initFrame, mk64_hi_lo,
    initMxcsr]

/-- neither sequence writes below `stack_base - 72` or at/above `stack_base` -/
theorem stores_extent (m : HMem) (tramp fn cp ctx exitf base : W) (x : Nat) (h : x = 0 ∨ 72 < x) :
    runStores m (shippedStores tramp fn cp ctx exitf base) x = m x ∧
    runStores m (patchedStores tramp fn cp ctx exitf base) x = m x := by
  have h1 : x ≠ 8 ∧ x ≠ 16 ∧ x ≠ 20 ∧ x ≠ 24 ∧ x ≠ 32 ∧ x ≠ 40 ∧ x ≠ 48 ∧ x ≠ 56 ∧ x ≠ 64 ∧ x ≠ 72 := by omega
  have h2 : x ≠ 4 ∧ x ≠ 12 ∧ x ≠ 28 ∧ x ≠ 36 ∧ x ≠ 44 ∧ x ≠ 52 ∧ x ≠ 60 ∧ x ≠ 68 := by omega
  simp [runStores, shippedStores, patchedStores, CStore.apply, h1, h2]

/-- the shipped sequence contains a misaligned store, the patched one does not -/
theorem shipped_misaligned (tramp fn cp ctx exitf base : W) :
    (shippedStores tramp fn cp ctx exitf base).all CStore.aligned = false := by
  simp [shippedStores, CStore.aligned]

theorem patched_aligned (tramp fn cp ctx exitf base : W) :
    (patchedStores tramp fn cp ctx exitf base).all CStore.aligned = true := by
  simp [patchedStores, CStore.aligned]

end CimbaModel.Ctx
