/-
  Examples - concrete machine states used by the non-vacuity examples of Props/C03.lean.
-/
import CimbaModel.Ctx.Switch

namespace CimbaModel.Ctx
open CimbaModel.Generated

/-- a concrete machine state: coroutine A at its call of the switch -/
def exA : State :=
  { rax := 1, rcx := 2, rdx := 3, rbx := 0xb0b#64, rsp := 0x10000#64, rbp := 0xb9#64, rsi := 0x20008#64, rdi := 0x20000#64,
    r8 := 8, r9 := 9, r10 := 10, r11 := 11, r12 := 0x12#64, r13 := 0x13#64, r14 := 0x14#64, r15 := 0x15#64,
    rflags := 0x246#64, mxcsr := 0x7f80#32, rip := 0x400000#64, mem := fun a => a ^^^ 0x5555#64, ok := true }

/-- somebody else, later, switching back into A with message 99 from a different stack -/
def exC : State :=
  { exA with rbx := 0, rbp := 0, r12 := 0, r13 := 0, r14 := 0, r15 := 0, rflags := 0x202#64, mxcsr := 0x1f80#32,
             rsp := 0x50000#64, rdi := 0x20010#64, rsi := 0x20000#64, rdx := 99#64, mem := (exec switchCode exA).mem }

/-- a caller on the main stack about to switch into a freshly initialised coroutine -/
def exFrame : List W := initFrame 0x401000#64 0x402000#64 0x30000#64 0x77#64 0x403000#64 0x90000#64
def exM : W → W :=
  upd (upd (upd (upd (upd (upd (upd (upd (upd (upd (fun _ => 0#64)
    0x30028#64 (0x90000#64 - 72#64))
    0x8ffb8#64 0x403000#64) 0x8ffc0#64 0x77#64) 0x8ffc8#64 0x30000#64) 0x8ffd0#64 0x402000#64) 0x8ffd8#64 0#64)
    0x8ffe0#64 (0x90000#64 - 40#64)) 0x8ffe8#64 (mk64 initMxcsr 0#32)) 0x8fff0#64 0#64) 0x8fff8#64 0x401000#64
def exS : State := { exA with rsi := 0x30028#64, mem := exM }

end CimbaModel.Ctx
