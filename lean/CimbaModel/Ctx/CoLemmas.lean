/-
  CoLemmas - invariants of the coroutine bookkeeping machine (Ctx/Coroutine.lean) over arbitrary scripts.
-/
import CimbaModel.Ctx.Coroutine

namespace CimbaModel.Ctx.Co

/-- what `switchTo` needs and everything but the current coroutine satisfies in a reachable state -/
structure Pre (s : St) (to : Cid) : Prop where
  /-- a coroutine that can be switched into and is not current is suspended inside a switching call -/
  suspended : ∀ c, c ≠ s.cur → c ≠ to → (s.co c).status = .running → ∃ k, (s.co c).pending = some k
  pendingPast : ∀ c k, (s.co c).pending = some k → k < s.clock
  mainInited : (s.co 0).inited = true

/-- what holds in every state reachable from `init` by any script -/
structure Inv (s : St) : Prop extends Pre s s.cur where
  curRunning : (s.co s.cur).status = .running
  curInited : (s.co s.cur).inited = true
  curNoPending : (s.co s.cur).pending = none

theorem Inv.pre {s : St} (h : Inv s) (to : Cid) : Pre s to :=
  ⟨fun c hc _ hr => h.suspended c hc hc hr, h.pendingPast, h.mainInited⟩

theorem inv_init : Inv init := by
  refine ⟨⟨?_, ?_, by simp [init]⟩, by simp [init], by simp [init], by simp [init]⟩
  · intro c hc _; simp [init] at hc ⊢; simp [hc]
  · intro c k; simp [init]; split <;> simp

theorem switchTo_inv {s : St} {to : Cid} (h : Pre s to) (hr : (s.co to).status = .running)
    (hi : (s.co to).inited = true) : Inv (switchTo s to).tick := by
  refine ⟨⟨?_, ?_, ?_⟩, ?_, ?_, ?_⟩
  · intro c hc _ hrun
    simp only [switchTo, St.tick] at hc hrun ⊢
    simp only [hc, if_false] at hrun ⊢
    by_cases hcc : c = s.cur
    · simp [hcc]
    · simp only [hcc, if_false] at hrun ⊢; exact h.suspended c hcc hc hrun
  · intro c k hk
    simp only [switchTo, St.tick] at hk ⊢
    by_cases h1 : c = to
    · simp [h1] at hk
    · by_cases h2 : c = s.cur
      · subst h2; simp [h1] at hk; omega
      · simp [h1, h2] at hk; have := h.pendingPast c k hk; omega
  · have := h.mainInited
    simp only [switchTo, St.tick]; split <;> (try split) <;> simp_all
  · simp [switchTo, St.tick, hr]
  · simp [switchTo, St.tick, hi]
  · simp [switchTo, St.tick]

/-- marking some other coroutine (not main, not current) as not running keeps everything -/
theorem upd_other_inv {s : St} {c : Cid} {f : Co → Co} (h : Inv s) (hc : c ≠ s.cur) (h0 : c ≠ 0)
    (hf1 : ∀ x, (f x).status ≠ .running) (hf2 : ∀ x, (f x).pending = x.pending) : Inv (s.upd c f).tick := by
  have hcc : s.cur ≠ c := fun e => hc e.symm
  refine ⟨⟨?_, ?_, ?_⟩, ?_, ?_, ?_⟩
  · intro x hx _ hrun
    simp only [St.upd, St.tick] at hx hrun ⊢
    by_cases hxc : x = c
    · simp [hxc] at hrun; exact absurd hrun (hf1 _)
    · simp only [hxc, if_false] at hrun ⊢; exact h.suspended x hx hx hrun
  · intro x k hk
    simp only [St.upd, St.tick] at hk ⊢
    by_cases hxc : x = c
    · simp [hxc, hf2] at hk; have := h.pendingPast c k hk; omega
    · simp [hxc] at hk; have := h.pendingPast x k hk; omega
  · simp [St.upd, St.tick, Ne.symm h0, h.mainInited]
  · simp [St.upd, St.tick, hcc, h.curRunning]
  · simp [St.upd, St.tick, hcc, h.curInited]
  · simp [St.upd, St.tick, hcc, h.curNoPending]

theorem transferTo_inv {s s' : St} {to : Cid} {msg : Val} {ev : Ev} (h : Pre s to)
    (hstep : transferTo s to msg = .ok (s', ev)) : Inv s'.tick := by
  unfold transferTo at hstep
  split at hstep; · cases hstep
  split at hstep; · cases hstep
  split at hstep; · cases hstep
  rename_i hin hst _
  simp only [Except.ok.injEq, Prod.mk.injEq] at hstep
  obtain ⟨rfl, -⟩ := hstep
  exact switchTo_inv h (by simpa using hst) (by simpa using hin)

theorem exitCur_inv {s s' : St} {v : Val} {ev : Ev} (h : Inv s)
    (hstep : exitCur s v = .ok (s', ev)) : Inv s'.tick := by
  unfold exitCur at hstep
  split at hstep; · cases hstep
  split at hstep; · cases hstep
  split at hstep
  · cases hstep
  · refine transferTo_inv ⟨?_, ?_, ?_⟩ hstep
    · intro c hc _ hrun
      simp only [St.upd] at hc hrun ⊢
      simp only [hc, if_false] at hrun ⊢
      exact h.suspended c hc hc hrun
    · intro c k hk
      simp only [St.upd] at hk ⊢
      by_cases hcc : c = s.cur
      · simp [hcc] at hk; exact h.pendingPast _ k hk
      · simp [hcc] at hk; exact h.pendingPast c k hk
    · have := h.mainInited
      simp only [St.upd]; split <;> simp_all

theorem stepCore_inv {s s' : St} {op : Op} {ev : Ev} (h : Inv s) (hcore : stepCore s op = .ok (s', ev)) :
    Inv s'.tick := by
  cases op with
  | create c ctx =>
    simp only [stepCore] at hcore
    split at hcore; · cases hcore
    split at hcore; · cases hcore
    rename_i hc _
    simp only [Except.ok.injEq, Prod.mk.injEq] at hcore
    obtain ⟨rfl, -⟩ := hcore
    exact upd_other_inv h (fun e => hc (Or.inr e)) (fun e => hc (Or.inl e)) (by intro x; simp) (by intro x; simp)
  | start c msg =>
    simp only [stepCore] at hcore
    split at hcore; · cases hcore
    split at hcore; · cases hcore
    rename_i hin hst
    simp only [Except.ok.injEq, Prod.mk.injEq] at hcore
    obtain ⟨rfl, -⟩ := hcore
    have hcc : c ≠ s.cur := by intro e; subst e; exact hst h.curRunning
    refine switchTo_inv ⟨?_, ?_, ?_⟩ (by simp [St.upd]) (by simpa [St.upd] using hin)
    · intro x hx hxc hrun
      simp only [St.upd] at hx hrun ⊢
      simp only [hxc, if_false] at hrun ⊢; exact h.suspended x hx hx hrun
    · intro x k hk
      simp only [St.upd] at hk ⊢
      by_cases hxc : x = c
      · simp [hxc] at hk; exact h.pendingPast _ k hk
      · simp [hxc] at hk; exact h.pendingPast x k hk
    · have := h.mainInited
      simp only [St.upd]; split <;> simp_all
  | resume c msg =>
    simp only [stepCore] at hcore
    split at hcore; · cases hcore
    split at hcore; · cases hcore
    exact transferTo_inv (h.pre _) hcore
  | transfer c msg =>
    simp only [stepCore] at hcore
    exact transferTo_inv (h.pre _) hcore
  | yield msg =>
    simp only [stepCore] at hcore
    split at hcore; · cases hcore
    split at hcore
    · cases hcore
    · exact transferTo_inv (h.pre _) hcore
  | exit v => simp only [stepCore] at hcore; exact exitCur_inv h hcore
  | ret v => simp only [stepCore] at hcore; exact exitCur_inv h hcore
  | stop c v =>
    simp only [stepCore] at hcore
    split at hcore; · cases hcore
    split at hcore; · cases hcore
    split at hcore; · exact exitCur_inv h hcore
    split at hcore; · cases hcore
    rename_i _ _ hcc hc0
    simp only [Except.ok.injEq, Prod.mk.injEq] at hcore
    obtain ⟨rfl, -⟩ := hcore
    exact upd_other_inv h hcc hc0 (by intro x; simp) (by intro x; simp)
  | reset c =>
    simp only [stepCore] at hcore
    split at hcore; · cases hcore
    split at hcore; · cases hcore
    rename_i _ hc
    simp only [Except.ok.injEq, Prod.mk.injEq] at hcore
    obtain ⟨rfl, -⟩ := hcore
    exact upd_other_inv h (fun e => hc (Or.inr e)) (fun e => hc (Or.inl e)) (by intro x; simp) (by intro x; simp)

theorem step_inv {s s' : St} {op : Op} {ev : Ev} (h : Inv s) (hstep : step s op = .ok (s', ev)) : Inv s' := by
  unfold step at hstep
  split at hstep
  · rename_i s1 ev1 hcore
    simp only [Except.ok.injEq, Prod.mk.injEq] at hstep
    obtain ⟨rfl, -⟩ := hstep
    exact stepCore_inv h hcore
  · cases hstep

/-- **induction over arbitrary scripts**: every state reached by a script that hits no assert is `Inv` -/
theorem run_inv : ∀ (ops : List Op) {s s' : St} {log : List (Cid × Ev)}, Inv s → run s ops = .ok (s', log) → Inv s'
  | [], s, s', log, h, hr => by simp [run] at hr; obtain ⟨rfl, -⟩ := hr; exact h
  | op :: ops, s, s', log, h, hr => by
    simp only [run] at hr
    split at hr; · cases hr
    rename_i s1 ev hs
    split at hr; · cases hr
    rename_i s2 log2 hr2
    simp only [Except.ok.injEq, Prod.mk.injEq] at hr
    obtain ⟨rfl, -⟩ := hr
    exact run_inv ops (step_inv h hs) hr2

/-- reachable from the initial state by some script that hits no assert -/
def Reach (s : St) : Prop := ∃ ops log, run init ops = .ok (s, log)

theorem Reach.inv {s : St} (h : Reach s) : Inv s := by
  obtain ⟨ops, log, hr⟩ := h
  exact run_inv ops inv_init hr

/-! ### the shape of a step -/

/-- Every successful step either leaves `cur` alone and produces no event, or is a `switchTo` (of a state that
    agrees with `s` on who is current, the clock and every `pending`) whose event says what arrives. -/
theorem step_shape {s s' : St} {op : Op} {ev : Ev} (h : step s op = .ok (s', ev)) :
    (s'.cur = s.cur ∧ ev = .none ∧ ∀ x, (s'.co x).pending = (s.co x).pending) ∨
    (∃ s0 to, s' = (switchTo s0 to).tick ∧ s0.cur = s.cur ∧ s0.clock = s.clock ∧
       (∀ x, (s0.co x).pending = (s.co x).pending) ∧
       (ev = .deliver to op.msg (arrival s to) ∨ (ev = .enter to (s.co to).ctx ∧ ∃ m, op = .start to m))) := by
  unfold step at h
  split at h
  · rename_i s1 ev1 hc
    simp only [Except.ok.injEq, Prod.mk.injEq] at h
    obtain ⟨rfl, rfl⟩ := h
    cases op <;> simp only [stepCore, exitCur, transferTo] at hc <;> (repeat' split at hc) <;>
      simp only [Except.ok.injEq, Prod.mk.injEq, reduceCtorEq] at hc
    all_goals (obtain ⟨rfl, rfl⟩ := hc)
    all_goals first
      | (left; refine ⟨by simp [St.upd, St.tick], rfl, ?_⟩; intro x; simp only [St.upd, St.tick]; split <;> simp_all; done)
      | (right; refine ⟨_, _, rfl, ?_, ?_, ?_, ?_⟩
         · simp [St.upd]
         · simp [St.upd]
         · intro x; first | rfl | (simp only [St.upd]; split <;> simp_all)
         · first
            | (left; simp [Op.msg, arrival, St.upd]; done)
            | (left; simp only [Op.msg, arrival, St.upd]; split <;> simp_all; done)
            | (right; exact ⟨rfl, _, rfl⟩))
  · cases h

/-- giving up control: the issuer is then suspended in the call with the current script index -/
theorem step_gives_up {s s' : St} {op : Op} {ev : Ev} (h : step s op = .ok (s', ev)) (hc : s'.cur ≠ s.cur) :
    (s'.co s.cur).pending = some s.clock := by
  rcases step_shape h with ⟨h1, -⟩ | ⟨s0, to, rfl, h1, h2, h3, -⟩
  · exact absurd h1 hc
  · simp only [switchTo, St.tick] at hc ⊢
    rw [← h1]; rw [← h1] at hc
    simp [Ne.symm hc, h2]

/-- a coroutine that neither issues the operation nor receives control keeps its suspended call -/
theorem step_pending_other {s s' : St} {op : Op} {ev : Ev} {x : Cid} (h : step s op = .ok (s', ev))
    (h1 : x ≠ s.cur) (h2 : x ≠ s'.cur) : (s'.co x).pending = (s.co x).pending := by
  rcases step_shape h with ⟨-, -, h3⟩ | ⟨s0, to, rfl, h3, -, h5, -⟩
  · exact h3 x
  · simp only [switchTo, St.tick] at h2 ⊢
    rw [← h3] at h1
    simp [h1, h2, h5]

/-- arriving: what the event of a control transfer says -/
theorem step_arrive {s s' : St} {op : Op} {ev : Ev} (h : step s op = .ok (s', ev)) (hc : s'.cur ≠ s.cur) :
    ev = .deliver s'.cur op.msg (s.co s'.cur).pending ∨
    (ev = .enter s'.cur (s.co s'.cur).ctx ∧ ∃ m, op = .start s'.cur m) := by
  rcases step_shape h with ⟨h1, -⟩ | ⟨s0, to, rfl, h1, h2, h3, h4⟩
  · exact absurd h1 hc
  · simp only [switchTo, St.tick] at hc ⊢
    rcases h4 with h4 | h4
    · left; rw [h4]; simp [arrival, hc]
    · right; exact h4

/-- **induction over the script**: while `x` never has control, the call it is suspended in does not change -/
theorem suspended_pending {x : Cid} : ∀ (ops : List Op) {s s' : St} {log : List (Cid × Ev)},
    Suspended x s ops → run s ops = .ok (s', log) → (s'.co x).pending = (s.co x).pending ∧ s'.cur ≠ x
  | [], s, s', log, hs, hr => by
    simp [run] at hr; obtain ⟨rfl, -⟩ := hr; exact ⟨rfl, hs⟩
  | op :: ops, s, s', log, hs, hr => by
    simp only [run] at hr
    split at hr; · cases hr
    rename_i s1 ev hstep
    split at hr; · cases hr
    rename_i s2 log2 hr2
    simp only [Except.ok.injEq, Prod.mk.injEq] at hr
    obtain ⟨rfl, -⟩ := hr
    obtain ⟨hcur, hrest⟩ := hs
    have hs1 := hrest s1 ev hstep
    have ih := suspended_pending ops hs1 hr2
    have hc1 : s1.cur ≠ x := by
      cases ops with
      | nil => exact hs1
      | cons _ _ => exact hs1.1
    refine ⟨?_, ih.2⟩
    rw [ih.1]
    exact step_pending_other hstep (Ne.symm hcur) (Ne.symm hc1)

/-! ### finished coroutines are inert -/

theorem step_finished {s s' : St} {op : Op} {ev : Ev} {x : Cid} (h : step s op = .ok (s', ev))
    (hf : (s.co x).status = .finished) (hx : s.cur ≠ x) (hr : op.revives x = false) :
    (s'.co x).status = .finished ∧ (s'.co x).exitv = (s.co x).exitv ∧ s'.cur ≠ x := by
  unfold step at h
  split at h
  · rename_i s1 ev1 hc
    simp only [Except.ok.injEq, Prod.mk.injEq] at h
    obtain ⟨rfl, rfl⟩ := h
    cases op <;> simp only [stepCore, exitCur, transferTo] at hc <;> (repeat' split at hc) <;>
      simp only [Except.ok.injEq, Prod.mk.injEq, reduceCtorEq] at hc
    all_goals (obtain ⟨rfl, rfl⟩ := hc)
    all_goals simp only [Op.revives, decide_eq_false_iff_not] at hr
    all_goals simp only [St.upd, St.tick, switchTo]
    all_goals (refine ⟨?_, ?_, ?_⟩ <;> (repeat' split) <;> simp_all [St.upd])
    all_goals (intro e; subst e; revert hf; simp_all; try (split at * <;> simp_all))
  · cases h

/-- **induction over the script**: a finished coroutine keeps its status and exit value and never has control,
    whatever the others do, until somebody re-creates, resets or restarts it -/
theorem finished_inert {x : Cid} : ∀ (ops : List Op) {s s' : St} {log : List (Cid × Ev)},
    (s.co x).status = .finished → s.cur ≠ x → (∀ op ∈ ops, op.revives x = false) → run s ops = .ok (s', log) →
    (s'.co x).status = .finished ∧ (s'.co x).exitv = (s.co x).exitv ∧ Suspended x s ops
  | [], s, s', log, hf, hx, _, hr => by
    simp [run] at hr; obtain ⟨rfl, -⟩ := hr; exact ⟨hf, rfl, hx⟩
  | op :: ops, s, s', log, hf, hx, hrev, hr => by
    simp only [run] at hr
    split at hr; · cases hr
    rename_i s1 ev hstep
    split at hr; · cases hr
    rename_i s2 log2 hr2
    simp only [Except.ok.injEq, Prod.mk.injEq] at hr
    obtain ⟨rfl, -⟩ := hr
    obtain ⟨f1, e1, c1⟩ := step_finished hstep hf hx (hrev op (List.mem_cons_self ..))
    obtain ⟨f2, e2, c2⟩ := finished_inert ops f1 c1 (fun o ho => hrev o (List.mem_cons_of_mem _ ho)) hr2
    refine ⟨f2, by rw [e2, e1], hx, ?_⟩
    intro s1' ev' hstep'
    rw [hstep] at hstep'
    simp only [Except.ok.injEq, Prod.mk.injEq] at hstep'
    obtain ⟨rfl, -⟩ := hstep'
    exact c2

/-! ### start, reset, restart -/

theorem start_effect {s s' : St} {c : Cid} {m : Val} {ev : Ev} (h : step s (.start c m) = .ok (s', ev)) :
    ev = .enter c (s.co c).ctx ∧ s'.cur = c ∧ (s'.co c).parent = some s.cur ∧ (s'.co c).caller = some s.cur ∧
    (s'.co c).status = .running ∧ (s'.co c).exitv = 0 ∧ (s'.co c).pending = none ∧
    (c ≠ s.cur → (s'.co s.cur).pending = some s.clock) ∧ s'.clock = s.clock + 1 := by
  simp only [step, stepCore] at h
  (repeat' split at h) <;> simp only [Except.ok.injEq, Prod.mk.injEq, reduceCtorEq] at h
  rename_i _ s1 ev1 hc
  obtain ⟨rfl, rfl⟩ := h
  (repeat' split at hc) <;> simp only [Except.ok.injEq, Prod.mk.injEq, reduceCtorEq] at hc
  obtain ⟨rfl, rfl⟩ := hc
  refine ⟨rfl, rfl, ?_, ?_, ?_, ?_, ?_, ?_, ?_⟩ <;> simp [switchTo, St.upd, St.tick]
  intro h1
  have h2 : ¬ s.cur = c := fun e => h1 e.symm
  simp [h2]

theorem reset_effect {s s' : St} {c : Cid} {ev : Ev} (h : step s (.reset c) = .ok (s', ev)) :
    ev = .none ∧ s'.cur = s.cur ∧ c ≠ s.cur ∧ (s'.co c).ctx = (s.co c).ctx ∧ s'.clock = s.clock + 1 := by
  simp only [step, stepCore] at h
  (repeat' split at h) <;> simp only [Except.ok.injEq, Prod.mk.injEq, reduceCtorEq] at h
  rename_i _ s1 ev1 hc
  obtain ⟨rfl, rfl⟩ := h
  (repeat' split at hc) <;> simp only [Except.ok.injEq, Prod.mk.injEq, reduceCtorEq] at hc
  obtain ⟨rfl, rfl⟩ := hc
  rename_i _ hne
  refine ⟨rfl, ?_, fun e => hne (Or.inr e), ?_, ?_⟩ <;> simp [St.upd, St.tick]

theorem restart_effect {s s' : St} {c : Cid} {m : Val} {log : List (Cid × Ev)}
    (h : run s [.reset c, .start c m] = .ok (s', log)) :
    log = [(s.cur, .none), (s.cur, .enter c (s.co c).ctx)] ∧ s'.cur = c ∧
    (s'.co c).parent = some s.cur ∧ (s'.co c).caller = some s.cur ∧ (s'.co c).status = .running ∧
    (s'.co c).exitv = 0 ∧ (s'.co c).pending = none ∧ (s'.co s.cur).pending = some (s.clock + 1) := by
  simp only [run] at h
  split at h; · cases h
  rename_i s1 ev1 h1
  split at h; · cases h
  rename_i s2 log2 h2
  split at h2; · cases h2
  rename_i s3 ev3 h3
  simp only [Except.ok.injEq, Prod.mk.injEq] at h h2
  obtain ⟨rfl, rfl⟩ := h
  obtain ⟨rfl, rfl⟩ := h2
  obtain ⟨r1, r2, r3, r4, r5⟩ := reset_effect h1
  obtain ⟨t1, t2, t3, t4, t5, t6, t7, t8, -⟩ := start_effect h3
  rw [r2] at t3 t4 t8
  rw [r1, t1, r2, r4, r5] at *
  exact ⟨rfl, t2, t3, t4, t5, t6, t7, t8 r3⟩
/-! ### exit -/

/-- what cmi_coroutine_exit(v) does, given the invariant -/
theorem exitCur_effect {s s1 : St} {v : Val} {ev : Ev} (inv : Inv s) (h : exitCur s v = .ok (s1, ev)) :
    ∃ p k, (s.co s.cur).parent = some p ∧ p ≠ s.cur ∧ s1.cur = p ∧ ev = .deliver p v (some k) ∧
      (s.co p).pending = some k ∧ (s1.co p).caller = some s.cur ∧
      (s1.co s.cur).exitv = v ∧ (s1.co s.cur).status = .finished ∧ (s1.co s.cur).pending = some s.clock := by
  simp only [exitCur, transferTo] at h
  (repeat' split at h) <;> simp only [Except.ok.injEq, Prod.mk.injEq, reduceCtorEq] at h
  obtain ⟨rfl, rfl⟩ := h
  rename_i _ _ _ p hp hin hst _
  have hpc : p ≠ s.cur := by intro e; subst e; simp [St.upd] at hst
  have hrun : (s.co p).status = .running := by simpa [St.upd, hpc] using hst
  obtain ⟨k, hk⟩ := inv.suspended p hpc hpc hrun
  refine ⟨p, k, hp, hpc, rfl, ?_, hk, ?_, ?_, ?_, ?_⟩
  · simp [arrival, St.upd, hpc, hk]
  · simp [switchTo, St.upd]
  · simp [switchTo, St.upd, Ne.symm hpc]
  · simp [switchTo, St.upd, Ne.symm hpc]
  · simp [switchTo, St.upd, Ne.symm hpc]

end CimbaModel.Ctx.Co
