/-
  Switch - lemmas about the *regenerated* instruction lists of cmi_coroutine_context_switch and
  cmi_coroutine_trampoline (Generated/CtxAsm.lean), obtained by symbolic execution of Ctx/X86.lean.

  Everything that depends on the shape of the object code is in this file and is proved by `simp` over
  the semantics, so that a harmless change of the code (other scratch registers, `lea` instead of `add`)
  has a chance of going through, while a change of the frame layout or of what is saved does not.
-/
import CimbaModel.Ctx.X86
import CimbaModel.Ctx.Frame
import CimbaModel.Generated.CtxAsm

set_option linter.unusedSimpArgs false

namespace CimbaModel.Ctx
open CimbaModel.Generated

/-! ### bit-vector and alignment facts -/

theorem al_sub (a k : W) (hk : k.toNat % 8 = 0) : al (a - k) = al a := by
  unfold al; congr 1; rw [BitVec.toNat_sub]; have := a.isLt; have := k.isLt; omega

theorem al_add (a k : W) (hk : k.toNat % 8 = 0) : al (a + k) = al a := by
  unfold al; congr 1; rw [BitVec.toNat_add]; have := a.isLt; have := k.isLt; omega

theorem sub_sub' (a x y : W) : a - x - y = a - (x + y) := by bv_omega
theorem sub_add' (a x y : W) : a - x + y = a - (x - y) := by bv_omega
theorem self_eq_sub (a x : W) : (a = a - x) = (x = 0#64) := by
  apply propext; constructor
  · intro h; bv_omega
  · intro h; rw [h]; simp
theorem sub_eq_self (a x : W) : (a - x = a) = (x = 0#64) := by
  apply propext; constructor
  · intro h; bv_omega
  · intro h; rw [h]; simp

/-- POPFQ gives the user-visible flags exactly the popped value -/
theorem popf_user (old v : W) : popfValue old v &&& userMask = v &&& userMask := by
  unfold popfValue
  ext i
  simp only [BitVec.getElem_and, BitVec.getElem_or, BitVec.getElem_not]
  cases old[i] <;> cases v[i] <;> cases userMask[i] <;> cases popfClear[i] <;> rfl

/-- POPFQ does not change a flag outside the user-changeable set and outside RF, VIF, VIP -/
theorem popf_and (old v m : W) (h : m &&& (userMask ||| popfClear) = 0#64) :
    popfValue old v &&& m = old &&& m := by
  unfold popfValue
  ext i hi
  have hb : (m[i] && (userMask[i] || popfClear[i])) = false := by
    have := congrArg (fun x : W => x[i]) h; simpa using this
  simp only [BitVec.getElem_and, BitVec.getElem_or, BitVec.getElem_not]
  revert hb
  cases old[i] <;> cases v[i] <;> cases m[i] <;> cases userMask[i] <;> cases popfClear[i] <;> simp

/-- an arithmetic instruction changes the six status flags only -/
theorem setArith_and (old v m : W) (h : m &&& arithMask = 0#64) : setArith old v &&& m = old &&& m := by
  unfold setArith
  ext i hi
  have hb : (m[i] && arithMask[i]) = false := by
    have := congrArg (fun x : W => x[i]) h; simpa using this
  simp only [BitVec.getElem_and, BitVec.getElem_or, BitVec.getElem_not]
  revert hb
  cases old[i] <;> cases v[i] <;> cases m[i] <;> cases arithMask[i] <;> simp

/-- flags that neither POPFQ at CPL 3 nor an arithmetic instruction changes: IF, IOPL, VM, reserved bits -/
def sysMask : W := ~~~(userMask ||| popfClear ||| arithMask)

/-- the image PUSHFQ stores holds all user-visible flags -/
theorem pushf_user (x : W) : (x &&& pushfMask) &&& userMask = x &&& userMask := by
  rw [BitVec.and_assoc]; rfl

/-- addresses of the saved context, counted up from its lowest word and down from the return address -/
theorem frame_addr_eqs (a : W) :
    a - 64#64 + 8#64 = a - 56#64 ∧ a - 64#64 + 16#64 = a - 48#64 ∧ a - 64#64 + 24#64 = a - 40#64 ∧
    a - 64#64 + 32#64 = a - 32#64 ∧ a - 64#64 + 40#64 = a - 24#64 ∧ a - 64#64 + 48#64 = a - 16#64 ∧
    a - 64#64 + 56#64 = a - 8#64 ∧ a - 64#64 + 64#64 = a ∧ a - 64#64 + 72#64 = a + 8#64 := by
  refine ⟨?_, ?_, ?_, ?_, ?_, ?_, ?_, ?_, ?_⟩ <;> bv_omega

/-! ### address sets -/

/-- the eight words the switch writes below the outgoing stack pointer `sp` (flags, MXCSR slot, rbp, rbx, r12–r15) -/
def frameAddrs (sp : W) : List W :=
  [sp - 8#64, sp - 16#64, sp - 24#64, sp - 32#64, sp - 40#64, sp - 48#64, sp - 56#64, sp - 64#64]

/-- the saved context of a suspended coroutine whose `call cmi_coroutine_context_switch` pushed the return
    address at `sp`: that return address and the eight words below it -/
def savedAddrs (sp : W) : List W := sp :: frameAddrs sp

/-- the nine words of a frame that starts at `lo` (ascending) -/
def frameWords (lo : W) : List W :=
  [lo, lo + 8#64, lo + 16#64, lo + 24#64, lo + 32#64, lo + 40#64, lo + 48#64, lo + 56#64, lo + 64#64]

theorem savedAddrs_eq_frameWords (sp : W) : ∀ a, a ∈ savedAddrs sp ↔ a ∈ frameWords (sp - 64#64) := by
  intro a
  simp only [savedAddrs, frameAddrs, frameWords, List.mem_cons, List.not_mem_nil, or_false, sub_add']
  simp only [BitVec.reduceSub, BitVec.sub_zero]
  constructor <;> intro h <;> (rcases h with h | h | h | h | h | h | h | h | h <;> simp [h])

/-! ### the switch: what it writes, what it loads -/

/-- **frame-only**: memory outside the eight words below the outgoing rsp and outside `*old` is untouched -/
theorem switch_mem_other (s : State) (a : W) (h1 : a ∉ frameAddrs s.rsp) (h2 : a ≠ s.rdi) :
    (exec switchCode s).mem a = s.mem a := by
  simp [frameAddrs] at h1
  simp [switchCode, exec, step, Instr.isTransfer, State.wr, State.rdOk, half, upd, h1, h2, sub_sub']

/-- what the save half leaves in memory (layout of the saved context) -/
theorem switch_save (s : State) (hd : s.rdi ∉ savedAddrs s.rsp) :
    let m := (exec switchCode s).mem
    m s.rdi = s.rsp - 64#64 ∧
    m (s.rsp - 64#64) = s.r15 ∧ m (s.rsp - 56#64) = s.r14 ∧ m (s.rsp - 48#64) = s.r13 ∧
    m (s.rsp - 40#64) = s.r12 ∧ m (s.rsp - 32#64) = s.rbx ∧ m (s.rsp - 24#64) = s.rbp ∧
    hi32 (m (s.rsp - 16#64)) = s.mxcsr ∧ m (s.rsp - 8#64) = s.rflags &&& pushfMask ∧
    m s.rsp = s.mem s.rsp := by
  simp [savedAddrs, frameAddrs] at hd
  simp [switchCode, exec, step, Instr.isTransfer, State.wr, State.rdOk, half, upd, hd, Ne.symm, sub_sub', self_eq_sub, sub_eq_self]

/-- what the load half puts into the registers, in terms of the memory after the save half and the
    stack pointer `n` found at `*new` -/
theorem switch_load (s : State) :
    let s' := exec switchCode s
    let m := s'.mem
    let n := m s.rsi
    s'.r15 = m n ∧ s'.r14 = m (n + 8#64) ∧ s'.r13 = m (n + 16#64) ∧ s'.r12 = m (n + 24#64) ∧
    s'.rbx = m (n + 32#64) ∧ s'.rbp = m (n + 40#64) ∧ s'.mxcsr = hi32 (m (n + 48#64)) ∧
    userFlags s' = m (n + 56#64) &&& userMask ∧ s'.rip = m (n + 64#64) ∧ s'.rsp = n + 72#64 ∧
    s'.rax = s.rdx := by
  simp [switchCode, exec, step, Instr.isTransfer, State.wr, State.rdOk, half, sub_sub', BitVec.add_assoc,
    userFlags, popf_user]

/-- the flags a user program cannot change are not changed by the switch either -/
theorem switch_sysflags (s : State) : (exec switchCode s).rflags &&& sysMask = s.rflags &&& sysMask := by
  have h1 : sysMask &&& (userMask ||| popfClear) = 0#64 := by decide
  have h2 : sysMask &&& arithMask = 0#64 := by decide
  simp [switchCode, exec, step, Instr.isTransfer, State.wr, State.rdOk, half, sub_sub', BitVec.add_assoc,
    flagsAdd, flagsSub, popf_and _ _ _ h1, setArith_and _ _ _ h2]

/-- the switch stays inside the word-granular model and LDMXCSR does not fault iff the loaded stack pointer is
    aligned and the MXCSR image in the frame has no reserved bit -/
theorem switch_ok (s : State) (h : s.ok = true) (h1 : al s.rsp = true) (h2 : al s.rdi = true)
    (h3 : al s.rsi = true) :
    let s' := exec switchCode s
    let n := s'.mem s.rsi
    s'.ok = (al n && (hi32 (s'.mem (n + 48#64)) &&& mxcsrReserved == 0#32)) := by
  simp [switchCode, exec, step, Instr.isTransfer, State.wr, State.rdOk, half, al_sub, al_add, h, h1, h2, h3,
    sub_sub', BitVec.add_assoc]
  cases al _ <;> simp

/-- **switching into a saved context**: if `*new` holds `S`, and neither `*new` nor the nine words from `S`
    overlap the outgoing frame and `*old`, every restored item comes from the corresponding word of
    the frame at `S` as it was in memory *before* the switch. -/
theorem switch_into (s : State) (S : W) (hn : s.mem s.rsi = S)
    (hd : ∀ a ∈ s.rsi :: frameWords S, a ∉ frameAddrs s.rsp ∧ a ≠ s.rdi) :
    ∀ s', s' = exec switchCode s →
    s'.r15 = s.mem S ∧ s'.r14 = s.mem (S + 8#64) ∧ s'.r13 = s.mem (S + 16#64) ∧ s'.r12 = s.mem (S + 24#64) ∧
    s'.rbx = s.mem (S + 32#64) ∧ s'.rbp = s.mem (S + 40#64) ∧ s'.mxcsr = hi32 (s.mem (S + 48#64)) ∧
    userFlags s' = s.mem (S + 56#64) &&& userMask ∧ s'.rip = s.mem (S + 64#64) ∧ s'.rsp = S + 72#64 ∧
    s'.rax = s.rdx ∧
    (s.ok = true → al s.rsp = true → al s.rdi = true → al s.rsi = true →
      s'.ok = (al S && (hi32 (s.mem (S + 48#64)) &&& mxcsrReserved == 0#32))) := by
  intro s' hs'
  subst hs'
  have m0 : (exec switchCode s).mem s.rsi = S := by
    rw [switch_mem_other s _ (hd _ (by simp)).1 (hd _ (by simp)).2, hn]
  have mk : ∀ a ∈ frameWords S, (exec switchCode s).mem a = s.mem a := fun a ha =>
    switch_mem_other s a (hd a (List.mem_cons_of_mem _ ha)).1 (hd a (List.mem_cons_of_mem _ ha)).2
  have L := switch_load s
  simp only [m0] at L
  obtain ⟨l15, l14, l13, l12, lbx, lbp, lmx, lfl, lip, lsp, lax⟩ := L
  refine ⟨?_, ?_, ?_, ?_, ?_, ?_, ?_, ?_, ?_, lsp, lax, ?_⟩
  · rw [l15, mk _ (by simp [frameWords])]
  · rw [l14, mk _ (by simp [frameWords])]
  · rw [l13, mk _ (by simp [frameWords])]
  · rw [l12, mk _ (by simp [frameWords])]
  · rw [lbx, mk _ (by simp [frameWords])]
  · rw [lbp, mk _ (by simp [frameWords])]
  · rw [lmx, mk _ (by simp [frameWords])]
  · rw [lfl, mk _ (by simp [frameWords])]
  · rw [lip, mk _ (by simp [frameWords])]
  · intro h h1 h2 h3
    have K := switch_ok s h h1 h2 h3
    simp only [m0] at K
    rw [K, mk _ (by simp [frameWords])]

/-! ### anything that may happen between switch-out and switch-in -/

/-- one piece of activity of the *other* coroutines (and of the dispatcher): a context switch, or any code at all -/
inductive Act
  | switch
  | code (f : State → State)

def Act.run : Act → State → State
  | .switch, s => exec switchCode s
  | .code f, s => f s

/-- the activity stays off the protected addresses: a switch is issued from a stack, and with an `old` slot, that does
    not contain one of them; other code does not write them -/
def Act.respects (prot : List W) : Act → State → Prop
  | .switch, s => ∀ a ∈ prot, a ∉ frameAddrs s.rsp ∧ a ≠ s.rdi
  | .code f, s => ∀ a ∈ prot, (f s).mem a = s.mem a

def runActs : List Act → State → State
  | [], s => s
  | a :: as, s => runActs as (a.run s)

def Respects (prot : List W) : List Act → State → Prop
  | [], _ => True
  | a :: as, s => a.respects prot s ∧ Respects prot as (a.run s)

/-- **induction over the interleaving**: however many switches and whatever code run in between, protected words
    keep their contents -/
theorem protected_survives (prot : List W) : ∀ (acts : List Act) (s : State), Respects prot acts s →
    ∀ a ∈ prot, (runActs acts s).mem a = s.mem a
  | [], _, _, _, _ => rfl
  | act :: acts, s, h, a, ha => by
    obtain ⟨h1, h2⟩ := h
    rw [runActs, protected_survives prot acts _ h2 a ha]
    cases act with
    | switch => exact switch_mem_other s a (h1 a ha).1 (h1 a ha).2
    | code f => exact h1 a ha

/-! ### the trampoline -/

/-- entry half of the trampoline: up to and including `call` -/
theorem tramp_entry (s : State) :
    let s' := exec trampCode s
    s'.rip = s.r12 ∧ s'.rdi = s.r13 ∧ s'.rsi = s.r14 ∧ s'.rax = 0#64 ∧ s'.rsp = s.rsp - 8#64 ∧
    s'.mem (s.rsp - 8#64) = s.rip + 12#64 ∧ s'.mxcsr = s.mxcsr ∧
    s'.rbx = s.rbx ∧ s'.rbp = s.rbp ∧ s'.r12 = s.r12 ∧ s'.r13 = s.r13 ∧ s'.r14 = s.r14 ∧ s'.r15 = s.r15 ∧
    s'.ok = (s.ok && al s.rsp) ∧ (∀ a, a ≠ s.rsp - 8#64 → s'.mem a = s.mem a) ∧
    s'.rflags &&& 0x400#64 = s.rflags &&& 0x400#64 := by
  have df : ∀ old r : W, flagsLogic old r &&& 0x400#64 = old &&& 0x400#64 := by
    intro old r; unfold flagsLogic; exact setArith_and _ _ _ (by decide)
  simp [trampCode, exec, step, Instr.isTransfer, State.wr, State.rdOk, half, upd, al_sub, BitVec.add_assoc, df]
  intro a h; simp [h]

/-- return half of the trampoline: the code at `trampoline + 12` (the return address `call` pushed) -/
theorem tramp_return_code : ∃ tail, codeFrom trampCode 12 = some tail ∧
    ∀ s, let s' := exec tail s
      s'.rip = s.r15 ∧ s'.rdi = s.rax ∧ s'.rsp = s.rsp - 8#64 ∧ s'.ok = (s.ok && al s.rsp) ∧
      (∀ a, a ≠ s.rsp - 8#64 → s'.mem a = s.mem a) := by
  refine ⟨_, rfl, ?_⟩
  intro s
  simp [exec, step, Instr.isTransfer, State.wr, upd, al_sub]
  intro a h; simp [h]

/-- What the System V AMD64 ABI promises about a function that was entered in state `e` (return address on top
    of the stack) and returns `v`: control is at that return address, the stack pointer is one word above its
    value at entry, the callee-saved registers are as at entry, `rax = v`.  (Trusted: the C compiler.) -/
def SysVReturn (e t : State) (v : W) : Prop :=
  t.rip = e.mem e.rsp ∧ t.rsp = e.rsp + 8#64 ∧ (∀ r ∈ calleeSaved, t.get r = e.get r) ∧ t.rax = v

end CimbaModel.Ctx
