/-
  Coroutine - the bookkeeping state machine of src/cmi_coroutine.c (DESIGN.md §4 C03): `coroutine_current`,
  and per coroutine `parent`, `caller`, `status`, `exit_value`, for
  initialize / start / resume / transfer / yield / exit / return / stop / reset.

  Core Lean only (linked by Drivers/CtxMain).  Tie: harness/ctxdrv.c drives the real API with the same
  scripts, every line of output is compared (tools/props/C03.py).

  Whoever is current issues the next operation of the script.  Release asserts of the C code (and the debug
  asserts that document a precondition) are `Except` faults here: the C side would abort.  A switching
  operation suspends its issuer *inside* that call; `pending` remembers the script index of the call, and the
  event of a later switch into that coroutine says which call returns, with which value.
-/
namespace CimbaModel.Ctx.Co

abbrev Val := Nat
abbrev Cid := Nat

inductive Status
  | created | running | finished
  deriving DecidableEq, Repr, Inhabited

def Status.toNat : Status → Nat
  | .created => 0 | .running => 1 | .finished => 2

structure Co where
  parent : Option Cid := none
  caller : Option Cid := none
  status : Status := .created
  exitv : Val := 0
  /-- the context argument handed to cmi_coroutine_initialize -/
  ctx : Val := 0
  /-- script index of the switching call this coroutine is suspended in (none: it is current, or never ran) -/
  pending : Option Nat := none
  /-- cmi_coroutine_initialize has been called (it has a stack) -/
  inited : Bool := false
  deriving Repr, Inhabited

inductive Op
  | create (c : Cid) (ctx : Val)
  | start (c : Cid) (msg : Val)
  | resume (c : Cid) (msg : Val)
  | transfer (c : Cid) (msg : Val)
  | yield (msg : Val)
  | exit (v : Val)
  /-- the coroutine function returns `v` (through the trampoline into the exit function) -/
  | ret (v : Val)
  | stop (c : Cid) (v : Val)
  | reset (c : Cid)
  deriving DecidableEq, Repr, Inhabited

inductive Ev
  /-- no control transfer -/
  | none
  /-- the function of `c` is entered with its own handle and context argument `ctx` -/
  | enter (c : Cid) (ctx : Val)
  /-- control continues in `c`: the switching call `c` issued at script index `at` returns `v` -/
  | deliver (c : Cid) (v : Val) (at_ : Option Nat)
  deriving DecidableEq, Repr, Inhabited

inductive Fault
  | nullTarget        -- `to != NULL` / not initialised
  | targetNotRunning  -- `to->status == CMI_COROUTINE_RUNNING`
  | fromNotLive       -- `from->status` is neither RUNNING nor FINISHED
  | startRunning      -- `cp->status != CMI_COROUTINE_RUNNING` in start
  | mainCannotExit    -- `coroutine_current != coroutine_main` in exit
  | notRunning        -- `coroutine_current->status == RUNNING` / `cp->status == RUNNING` in stop
  | noCaller          -- `to != NULL` in yield
  | resumeSelf        -- `cp != cmi_coroutine_current()` in resume
  | isMainOrCurrent   -- reset / initialize / stop of main or of the current coroutine (debug asserts, documented)
  deriving DecidableEq, Repr, Inhabited

structure St where
  cur : Cid
  co : Cid → Co
  /-- number of operations executed so far = script index of the next one -/
  clock : Nat

def St.upd (s : St) (c : Cid) (f : Co → Co) : St :=
  { s with co := fun x => if x = c then f (s.co x) else s.co x }

def St.tick (s : St) : St := { s with clock := s.clock + 1 }

/-- after the first cmi_coroutine_initialize: the main coroutine exists, is running and current -/
def init : St :=
  { cur := 0, co := fun c => if c = 0 then { status := .running, inited := true } else {}, clock := 0 }

/-- The control transfer itself (the tail of cmi_coroutine_transfer): `to->caller = from`,
    `coroutine_current = to`, the issuer stays suspended inside this call (script index `s.clock`). -/
def switchTo (s : St) (to : Cid) : St :=
  { s with
    cur := to
    co := fun x =>
      if x = to then { (s.co x) with caller := some s.cur, pending := none }
      else if x = s.cur then { (s.co x) with pending := some s.clock }
      else s.co x }

/-- which call of `to` returns when control arrives there now -/
def arrival (s : St) (to : Cid) : Option Nat := if to = s.cur then some s.clock else (s.co to).pending

/-- cmi_coroutine_transfer(to, msg) issued by the current coroutine -/
def transferTo (s : St) (to : Cid) (msg : Val) : Except Fault (St × Ev) :=
  if (s.co to).inited = false then .error .nullTarget
  else if (s.co to).status ≠ .running then .error .targetNotRunning
  else if (s.co s.cur).status = .created then .error .fromNotLive
  else .ok (switchTo s to, .deliver to msg (arrival s to))

/-- cmi_coroutine_exit(v) issued by the current coroutine -/
def exitCur (s : St) (v : Val) : Except Fault (St × Ev) :=
  if s.cur = 0 then .error .mainCannotExit
  else if (s.co s.cur).status ≠ .running then .error .notRunning
  else
    match (s.co s.cur).parent with
    | none => .error .nullTarget
    | some p => transferTo (s.upd s.cur (fun c => { c with exitv := v, status := .finished })) p v

def stepCore (s : St) : Op → Except Fault (St × Ev)
  | .create c ctx =>
    -- re-initialising a coroutine that is still RUNNING (suspended somewhere) would leak its stack and trips the
    -- debug asserts of whoever is suspended in a transfer to it: excluded as a precondition
    if c = 0 ∨ c = s.cur then .error .isMainOrCurrent
    else if (s.co c).status = .running then .error .startRunning
    else .ok (s.upd c (fun x => { x with parent := none, caller := none, status := .created, exitv := 0,
                                          ctx := ctx, inited := true }), .none)
  | .start c _ =>
    -- the message given to start is dropped: the trampoline clears rax and calls cr_function(cp, context)
    if (s.co c).inited = false then .error .nullTarget
    else if (s.co c).status = .running then .error .startRunning
    else
      .ok (switchTo (s.upd c (fun x => { x with parent := some s.cur, exitv := 0, status := .running })) c,
           .enter c (s.co c).ctx)
  | .resume c msg =>
    if (s.co c).inited = false then .error .nullTarget
    else if c = s.cur then .error .resumeSelf
    else transferTo s c msg
  | .transfer c msg => transferTo s c msg
  | .yield msg =>
    if (s.co s.cur).status ≠ .running then .error .notRunning
    else match (s.co s.cur).caller with
      | none => .error .noCaller
      | some c => transferTo s c msg
  | .exit v => exitCur s v
  | .ret v => exitCur s v
  | .stop c v =>
    if (s.co c).inited = false then .error .nullTarget
    else if (s.co c).status ≠ .running then .error .notRunning
    else if c = s.cur then exitCur s v
    else if c = 0 then .error .isMainOrCurrent
    else .ok (s.upd c (fun x => { x with exitv := v, status := .finished }), .none)
  | .reset c =>
    if (s.co c).inited = false then .error .nullTarget
    else if c = 0 ∨ c = s.cur then .error .isMainOrCurrent
    else .ok (s.upd c (fun x => { x with status := .created, exitv := 0 }), .none)

/-- one operation of the script, issued by the current coroutine -/
def step (s : St) (op : Op) : Except Fault (St × Ev) :=
  match stepCore s op with
  | .ok (s', ev) => .ok (s'.tick, ev)
  | .error e => .error e

/-- a whole script; the log pairs each operation's issuer with what happened -/
def run : St → List Op → Except Fault (St × List (Cid × Ev))
  | s, [] => .ok (s, [])
  | s, op :: ops =>
    match step s op with
    | .error e => .error e
    | .ok (s', ev) =>
      match run s' ops with
      | .error e => .error e
      | .ok (s'', log) => .ok (s'', (s.cur, ev) :: log)

/-- `x` does not have control at any point of the script (before, between and after its operations) -/
def Suspended (x : Cid) : St → List Op → Prop
  | s, [] => s.cur ≠ x
  | s, op :: ops => s.cur ≠ x ∧ ∀ s' ev, step s op = .ok (s', ev) → Suspended x s' ops

/-- operations that (re)create the context of `x`: until one of them a finished coroutine stays as it is -/
def Op.revives (x : Cid) : Op → Bool
  | .create c _ => c = x
  | .start c _ => c = x
  | .reset c => c = x
  | _ => false

/-- the value an operation hands over -/
def Op.msg : Op → Val
  | .start _ m | .resume _ m | .transfer _ m | .yield m | .exit m | .ret m | .stop _ m => m
  | _ => 0

end CimbaModel.Ctx.Co
