/-
  Monitor.C18 — the property C18 as executable predicates over what an implementation reports
  (exact rationals).  Props/C18.lean proves that the model's outputs satisfy them for every input;
  tools/props/C18.py evaluates the same predicates (through `stat2main judge…`) on the real
  library's outputs when they differ from the model's, to tell a violation from a model divergence.

  Core Lean only.
-/
namespace CimbaModel.Monitor.C18

/-- weight of the samples strictly below `m` -/
def wBelow (xw : List (Rat × Rat)) (m : Rat) : Rat := ((xw.filter fun p => p.1 < m).map (·.2)).sum
/-- weight of the samples strictly above `m` -/
def wAbove (xw : List (Rat × Rat)) (m : Rat) : Rat := ((xw.filter fun p => m < p.1).map (·.2)).sum
def wTotal (xw : List (Rat × Rat)) : Rat := (xw.map (·.2)).sum

/-- `m` is a (weighted) median: at most half of the total weight strictly below, at most half strictly above -/
def isMedian (xw : List (Rat × Rat)) (m : Rat) : Bool :=
  decide (2 * wBelow xw m ≤ wTotal xw) && decide (2 * wAbove xw m ≤ wTotal xw)

def unitWeights (xs : List Rat) : List (Rat × Rat) := xs.map fun x => (x, 1)

def ascending : List Rat → Bool
  | a :: b :: r => decide (a ≤ b) && ascending (b :: r)
  | _ => true

/-- sorting: ascending and the same multiset -/
def sortOK (inp out : List Rat) : Bool := ascending out && out.isPerm inp

/-- sorting a time series by x: ascending in x and the same multiset of (x, t, w) triples -/
def sort3OK (inp out : List (Rat × Rat × Rat)) : Bool := ascending (out.map (·.1)) && out.isPerm inp

/-- five-number summary: ordered, inside the data range, and its median is a median -/
def fivenumOK (xw : List (Rat × Rat)) (mn q1 med q3 mx : Rat) : Bool :=
  decide (mn ≤ q1) && decide (q1 ≤ med) && decide (med ≤ q3) && decide (q3 ≤ mx) &&
  xw.all (fun p => decide (mn ≤ p.1) && decide (p.1 ≤ mx)) &&
  xw.any (fun p => p.1 == mn) && xw.any (fun p => p.1 == mx) &&
  isMedian xw med

/-- index of the interval of the printed histogram that contains `x`:
    0 = (-inf, low), j = [low + (j-1)·bs, low + j·bs) for 1 ≤ j ≤ nb, nb+1 = [high, +inf) -/
def intervalOf (nb : Nat) (low high : Rat) (x : Rat) : Nat :=
  if x < low then 0
  else if high ≤ x then nb + 1
  else
    let bs := (high - low) / nb
    match (List.range nb).find? (fun j => decide (x < low + ((j : Nat) + 1 : Nat) * bs)) with
    | some j => j + 1
    | none => nb

/-- histogram: `nb + 2` bins, bin `j` holds exactly the weight of the samples in interval `j`
    (so every sample is counted exactly once and the bins add up to the total) -/
def histOK (xw : List (Rat × Rat)) (nb : Nat) (low high : Rat) (bins : List Rat) : Bool :=
  decide (bins.length = nb + 2) && decide (low < high) && decide (0 < nb) &&
  (List.range (nb + 2)).all (fun j =>
    bins.getD j 0 == ((xw.filter fun p => intervalOf nb low high p.1 == j).map (·.2)).sum) &&
  bins.sum == wTotal xw

end CimbaModel.Monitor.C18
