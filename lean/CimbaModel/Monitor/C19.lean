/-
  Monitor.C19 — executable predicates over the observable log of one run of the real `cimba_run_experiment`
  (harness/expdrv.c): every call of the trial function entered (S) and about to return (E), in the order of one global
  atomic counter, with the thread, the index derived from the address, and the address.

  `replay` rebuilds a schedule of the model (Experiment/Model.lean, with the code read off the C source) that produces
  exactly this log, or says why none exists: the real run is then a behaviour of the model the theorems are about.
  `verdict` is the property itself on the log: one call per index 0..n-1, each with base + idx*size, all finished.
  Core Lean only.
-/
import CimbaModel.Experiment.Model

namespace CimbaModel.Monitor.C19
open CimbaModel.Experiment

inductive Ev where
  | start (tid idx addr : Nat)
  | stop (tid idx : Nat)
  deriving Repr, DecidableEq

structure Log where
  p : Params
  evs : List Ev
  deriving Repr

/-- the property on the log alone -/
def verdict (l : Log) : Except String Unit := do
  let starts := l.evs.filterMap fun | .start _ i a => some (i, a) | _ => none
  let stops := l.evs.filterMap fun | .stop _ i => some i | _ => none
  for i in List.range l.p.n do
    let c := (starts.filter (·.1 == i)).length
    if c != 1 then throw s!"trial {i} was called {c} times"
    let e := (stops.filter (· == i)).length
    if e != 1 then throw s!"trial {i} finished {e} times"
  for (i, a) in starts do
    if i ≥ l.p.n then throw s!"call with index {i} outside 0..{l.p.n - 1}"
    if a != l.p.base + i * l.p.sz then throw s!"trial {i} was called with address {a}, not base + {i}*size"
  return ()

/-- worker that started index i, from the log -/
def ownerOf (evs : List Ev) (i : Nat) : Option Nat :=
  evs.findSome? fun | .start t j _ => if j == i then some t else none | _ => none

structure Replay where
  s : State
  sched : List Actor      -- reversed
  deriving Repr

def Replay.act (c : Code) (p : Params) (r : Replay) (a : Actor) : Replay :=
  { s := step c p r.s a, sched := a :: r.sched }

/-- fetch, in index order, everything up to and including index `i` -/
def fetchUpTo (c : Code) (p : Params) (evs : List Ev) (i : Nat) : Nat → Replay → Except String Replay
  | 0, r => if r.s.next > i then pure r else throw s!"could not fetch up to {i}"
  | fuel + 1, r =>
    if r.s.next > i then pure r else
    let j := r.s.next
    match ownerOf evs j with
    | none => throw s!"index {j} was handed out before {i} but no call for it was ever started"
    | some t =>
      if r.s.ws[t]? != some .idle then
        throw s!"thread {t} must fetch index {j} before index {i} is fetched, but it is still busy: not a behaviour of the dispenser"
      else
        -- atomicFetchAdd: one step; loadThenStore: two
        let r1 := r.act c p (.worker t)
        let r2 := match r1.s.ws[t]? with
          | some (.loaded _) => r1.act c p (.worker t)
          | _ => r1
        if r2.s.ws[t]? != some (.fetched j) then throw s!"thread {t} fetched {repr (r2.s.ws[t]?)} instead of index {j}"
        else fetchUpTo c p evs i fuel r2

def replayEv (c : Code) (p : Params) (evs : List Ev) (r : Replay) : Ev → Except String Replay
  | .start t i a => do
    if t ≥ p.W then throw s!"thread number {t} but only {p.W} workers"
    let r ← fetchUpTo c p evs i (i + 2) r
    if r.s.ws[t]? != some (.fetched i) then
      throw s!"thread {t} starts trial {i} but the model has it in state {repr (r.s.ws[t]?)}"
    let r := r.act c p (.worker t)
    match r.s.calls.head? with
    | some (i', a') =>
      if i' != i || a' != a then throw s!"model calls ({i'}, {a'}), implementation called ({i}, {a})"
      else pure r
    | none => throw s!"model stopped instead of calling trial {i}"
  | .stop t i => do
    if r.s.ws[t]? != some (.running i) then
      throw s!"thread {t} finishes trial {i} but the model has it in state {repr (r.s.ws[t]?)}"
    pure (r.act c p (.worker t))

def repeatAct (c : Code) (p : Params) (a : Actor) : Nat → Replay → Replay
  | 0, r => r
  | k + 1, r => repeatAct c p a k (r.act c p a)

/-- a schedule of the model that reproduces the log, and the final model state -/
def replay (c : Code) (l : Log) : Except String Replay := do
  let p := l.p
  -- the main thread creates all workers first (their creation is not observable; any later point would do as well)
  let r0 : Replay := repeatAct c p .main (p.W + 1) { s := init c p, sched := [] }
  let r ← l.evs.foldlM (replayEv c p l.evs) r0
  -- every worker fetches once more, finds its index past the bound and leaves
  let r := (List.range p.W).foldl (fun r w => repeatAct c p (.worker w) 3 r) r
  let r := repeatAct c p .main (p.W + 1) r
  if r.s.main != .returned then throw s!"model has not returned after the log: main = {repr r.s.main}"
  if r.s.finished.length != p.n then throw s!"model finished {r.s.finished.length} trials"
  pure r

end CimbaModel.Monitor.C19
