/-
  Monitor.C02: executable check that a log of (operation, observed result) pairs is a behaviour of
  the abstract keyed priority queue under ordering `lt`.  Evaluated on the *implementation's* log when
  the exact-state correspondence breaks, to tell a real violation (some result is not allowed by the
  spec) from a harmless internal difference.
-/
import CimbaModel.Basic.KeyedPQ

namespace CimbaModel.Monitor.C02
open CimbaModel.HashHeap CimbaModel.KPQ

structure MSt where
  q : KPQ := []
  counter : Nat := 0
  lt : Order := fun _ _ => false
  inited : Bool := false

inductive Obs where
  | okUnit
  | okNat (n : Nat)
  | okInt (n : Int)
  | okTag (t : HTag)          -- key item d i
  | okItem (it : Item)
  | none
  | other (s : String)

inductive Op where
  | init (e : Nat) (lt : Order)
  | enq (k : Nat) (it : Item) (d i : Int)
  | deq | peek
  | rm (k : Nat) | rep (k : Nat) (d i : Int)
  | item (k : Nat) | dk (k : Nat) | ik (k : Nat) | isq (k : Nat)
  | pf (p : Item) | pc (p : Item) | px (p : Item)
  | count | clear | reset | dump

/-- one step: `none` = the observation is not allowed by the specification -/
def step (s : MSt) : Op → Obs → Option MSt
  | .init _ lt, .okUnit => some { q := [], counter := 0, lt := lt, inited := true }
  | .enq k it d i, .okNat r =>
    let key := if k = 0 then s.counter + 1 else k
    if r = key ∧ key ∉ keys s.q ∧ key ≠ 0 then
      some { s with q := insert s.q { key := key, item := it, d := d, i := i }, counter := s.counter + 1 }
    else none
  | .deq, .none => if s.q.isEmpty then some s else none
  | .deq, .okTag t => if IsMin s.lt s.q (norm t) then some { s with q := remove s.q t.key } else none
  | .peek, .none => if s.q.isEmpty then some s else none
  | .peek, .okTag t => if IsMin s.lt s.q (norm t) then some s else none
  | .rm k, .okNat r =>
    if (r = 1 ∧ k ∈ keys s.q) ∨ (r = 0 ∧ k ∉ keys s.q) then some { s with q := remove s.q k } else none
  | .rep k d i, .okUnit => if k ∈ keys s.q then some { s with q := reprio s.q k d i } else none
  | .item k, .okItem it => match lookup s.q k with | some t => if t.item = it then some s else none | none => none
  | .dk k, .okInt d => match lookup s.q k with | some t => if t.d = d then some s else none | none => none
  | .ik k, .okInt i => match lookup s.q k with | some t => if t.i = i then some s else none | none => none
  | .isq k, .okNat r => if (r = 1 ∧ k ∈ keys s.q) ∨ (r = 0 ∧ k ∉ keys s.q) then some s else none
  | .pf p, .okNat r =>
    if (r = 0 ∧ (matching s.q p).isEmpty) ∨ (r ≠ 0 ∧ r ∈ keys (matching s.q p)) then some s else none
  | .pc p, .okNat r => if r = (matching s.q p).length then some s else none
  | .px p, .okNat r => if r = (matching s.q p).length then some { s with q := removeMatching s.q p } else none
  | .count, .okNat r => if r = s.q.length then some s else none
  | .clear, .okUnit => some { s with q := [] }
  | .reset, .okUnit => some { s with q := [] }
  | .dump, _ => some s
  | _, _ => none

/-- index of the first step that is not allowed, if any -/
def firstBad (s : MSt) : List (Op × Obs) → Nat → Option Nat
  | [], _ => none
  | (op, ob) :: rest, n =>
    match step s op ob with
    | some s' => firstBad s' rest (n + 1)
    | none => some n

end CimbaModel.Monitor.C02
