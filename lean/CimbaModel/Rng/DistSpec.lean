/-
  Vocabulary of the statements of Props/C16.lean (definitions and two auxiliary lemmas about the regenerated code; the
  property theorems themselves are in Props/C16.lean).
-/
import CimbaModel.Generated.RngDist
import CimbaModel.Rng.Discrete
import CimbaModel.Rng.Zig

namespace CimbaModel.Rng.Dist
open CimbaModel.Generated CimbaModel.Generated.DistQ CimbaModel.Rng.Zig

/-- the raw generator returns 64-bit words (`uint64_t cmb_random_sfc64(void)`) -/
def Raw64 (raw : Nat → Nat) : Prop := ∀ i, raw i < 18446744073709551616

/-- prefix sums of a probability vector: `psum pa j = pa 0 + … + pa (j-1)` -/
def psum (pa : Nat → Rat) : Nat → Rat
  | 0 => 0
  | j + 1 => psum pa j + pa j

/-! ### what the slow paths of the ziggurat samplers must be (specifications, written from the literature, not from the code) -/

/-- Marsaglia's tail algorithm for the standard normal distribution beyond `r` (Marsaglia 1964; "Ziggurat algorithm", fallback
    for the tail).  One iteration draws e1, e2 ~ Exp(1), proposes the excess `x = c * e1` with `c = 1 / r` and REJECTS (goes
    round again) iff `2 * e2 ≤ x * x`.  Returns (x, e2, reject?). -/
def marsagliaIter (c e1 e2 : Rat) : Rat × Rat × Bool :=
  (c * e1, e2, decide (2 * e2 ≤ (c * e1) * (c * e1)))

/-- … the accepted variate is `± (x + r)` -/
def marsagliaResult (r sign x : Rat) : Rat := sign * (x + r)

/-- what is assumed of `sqrt` (a hypothesis of the triangular bound, never an axiom) -/
structure SqrtLike (f : Rat → Rat) : Prop where
  nonneg : ∀ y, 0 ≤ y → 0 ≤ f y
  le_of_le_sq : ∀ y z, 0 ≤ y → 0 ≤ z → y ≤ z * z → f y ≤ z

/-- invariant of the Vose construction: the stacks `small[0..idxs)` and `large[0..idxl)` hold indices below n, together they
    hold at most n entries, every alias entry is below n, every threshold is a 64-bit word -/
def StackInv (n : Nat) (idxs idxl : Nat) (alp : cmb_random_alias) (small large : Nat → Nat) : Prop :=
  idxs + idxl ≤ n ∧ (∀ j, j < idxs → small j < n) ∧ (∀ j, j < idxl → large j < n) ∧
  (∀ i, alp.alias i < n) ∧ (∀ i, alp.uprob i < 18446744073709551616) ∧ alp.n = n

/-- an alias table is valid: n entries, every alias index below n, every threshold in [0, 2^64) i.e. a probability in [0, 1] -/
def AliasValid (n : Nat) (t : cmb_random_alias) : Prop :=
  t.n = n ∧ (∀ i, t.alias i < n) ∧ (∀ i, t.uprob i < 18446744073709551616)

/-! table checks as executable predicates (decided by the kernel over the regenerated tables) -/
def strictDecUpTo (l : List Nat) (m : Nat) : Bool := (List.range m).all (fun i => decide (l.getD (i + 1) 0 < l.getD i 0))
def strictIncUpTo (l : List Nat) (m : Nat) : Bool := (List.range m).all (fun i => decide (l.getD i 0 < l.getD (i + 1) 0))
def antitoneAll (l : List Nat) : Bool := (List.range l.length).all (fun i => decide (l.getD (i + 1) 0 ≤ l.getD i 0))

/-- the facts about the exponential tables that the support argument uses -/
structure ExpFacts (T : ExpTab Rat) : Prop where
  x_nonneg : ∀ j, 0 ≤ T.x j
  x_antitone : ∀ j, T.x j ≤ T.x (j - 1)
  tail_nonneg : 0 ≤ T.tail

theorem convX_nonneg (T : ExpTab Rat) (h : ExpFacts T) (j u : Nat) : 0 ≤ convX T j u := by
  unfold convX
  simp only [cnum_ofNat]
  have h1 := h.x_nonneg j
  have h2 := h.x_antitone j
  have h3 : (0 : Rat) ≤ (u : Rat) := by positivity
  have : 0 ≤ (T.x (j - 1) - T.x j) * (u : Rat) := mul_nonneg (by linarith) h3
  have : 0 ≤ T.x j * ((18446744073709551616 : Nat) : Rat) := mul_nonneg h1 (by positivity)
  linarith

theorem overhang_nonneg (T : ExpTab Rat) (h : ExpFacts T) (fexp : Rat → Rat) (raw : Nat → Nat) (jdx : Nat) :
    ∀ fuel k ucx ucy r, overhang T fexp raw jdx fuel k ucx ucy = some r → 0 ≤ r.1 := by
  intro fuel
  induction fuel with
  | zero => intro k ucx ucy r hr; simp [overhang] at hr
  | succ f ih =>
    intro k ucx ucy r hr
    unfold overhang at hr
    simp only [] at hr
    split at hr
    · cases hr; exact convX_nonneg T h _ _
    · split at hr
      · cases hr; exact convX_nonneg T h _ _
      · exact ih _ _ _ _ hr

theorem notHot_nonneg (T : ExpTab Rat) (h : ExpFacts T) (fexp : Rat → Rat) (raw : Nat → Nat) :
    ∀ fuel k ucx xoff r, 0 ≤ xoff → notHot T fexp raw fuel k ucx xoff = some r → 0 ≤ r.1 := by
  intro fuel
  induction fuel with
  | zero => intro k ucx xoff r _ hr; simp [notHot] at hr
  | succ f ih =>
    intro k ucx xoff r hx hr
    unfold notHot at hr
    simp only [] at hr
    split at hr
    · split at hr
      · cases hr
      · rename_i r' hov
        cases hr
        have := overhang_nonneg T h fexp raw _ _ _ _ _ _ hov
        simp only []; linarith
    · have hx' : 0 ≤ xoff + T.tail := by have := h.tail_nonneg; linarith
      split at hr
      · cases hr
        simp only [cnum_ofNat]
        have := h.x_nonneg (raw (k + 2) % 256)
        have : 0 ≤ T.x (raw (k + 2) % 256) * ((raw (k + 2) : Nat) : Rat) := mul_nonneg this (by positivity)
        linarith
      · exact ih _ _ _ _ hx' hr

/-- the tail of the exponential ziggurat uses the memoryless property: every value returned after the offset has been advanced is
    at least the offset (offset + a fresh exponential variate) -/
theorem overhang_ge_zero_offset (T : ExpTab Rat) (h : ExpFacts T) (fexp : Rat → Rat) (raw : Nat → Nat) :
    ∀ fuel k ucx xoff r, 0 ≤ xoff → notHot T fexp raw fuel k ucx xoff = some r → xoff ≤ r.1 := by
  intro fuel
  induction fuel with
  | zero => intro k ucx xoff r _ hr; simp [notHot] at hr
  | succ f ih =>
    intro k ucx xoff r hx hr
    unfold notHot at hr
    simp only [] at hr
    split at hr
    · split at hr
      · cases hr
      · rename_i r' hov
        cases hr
        have := overhang_nonneg T h fexp raw _ _ _ _ _ _ hov
        simp only []; linarith
    · have ht := h.tail_nonneg
      have hx' : 0 ≤ xoff + T.tail := by linarith
      split at hr
      · cases hr
        simp only [cnum_ofNat]
        have := h.x_nonneg (raw (k + 2) % 256)
        have : 0 ≤ T.x (raw (k + 2) % 256) * ((raw (k + 2) : Nat) : Rat) := mul_nonneg this (by positivity)
        linarith
      · have := ih _ _ _ _ hx' hr
        linarith

end CimbaModel.Rng.Dist
