/-
  Lemmas about the vocabulary of the regenerated sampler definitions (Rng/DistBase.lean) used by Props/C16.lean:
  loop invariants for `forLoop` / `whileFuel`, wrap-around arithmetic, the exact (`Rat`) instantiation of `CNum`.
-/
import CimbaModel.Rng.DistBase
import Mathlib.Tactic.Linarith
import Mathlib.Tactic.Ring
import Mathlib.Tactic.Positivity
import Mathlib.Tactic.FieldSimp
import Mathlib.Algebra.Order.Field.Rat
import Mathlib.Data.Rat.Floor

namespace CimbaModel.Rng.Dist

/-! ### loops -/

theorem forLoop_fst_le {σ : Type} (n : Nat) (body : Nat → σ → Bool × σ) (i : Nat) (s : σ) (h : i ≤ n) :
    (forLoop n body i s).1 ≤ n := by
  induction hk : n - i generalizing i s with
  | zero =>
    unfold forLoop
    have : ¬ i < n := by omega
    simp [this]; exact h
  | succ m ih =>
    unfold forLoop
    have : i < n := by omega
    simp only [this, if_true]
    split
    · exact Nat.le_of_lt this
    · exact ih _ _ (by omega) (by omega)

theorem forLoop_fst_ge {σ : Type} (n : Nat) (body : Nat → σ → Bool × σ) (i : Nat) (s : σ) :
    i ≤ (forLoop n body i s).1 := by
  induction hk : n - i generalizing i s with
  | zero =>
    unfold forLoop
    have : ¬ i < n := by omega
    simp [this]
  | succ m ih =>
    unfold forLoop
    have : i < n := by omega
    simp only [this, if_true]
    split
    · exact Nat.le_refl _
    · exact Nat.le_trans (Nat.le_succ i) (ih _ _ (by omega))

/-- Invariant rule.  `P j t`: the loop is about to test `j < n` with state `t`.  The loop ends either by exhausting the range
    (index `n`, `P n`) or by a `break` in some iteration `j < n` that started in a state satisfying `P j`. -/
theorem forLoop_inv {σ : Type} (n : Nat) (body : Nat → σ → Bool × σ) (P : Nat → σ → Prop) (i : Nat) (s : σ)
    (hi : i ≤ n) (h0 : P i s)
    (hstep : ∀ j t, i ≤ j → j < n → P j t → (body j t).1 = false → P (j + 1) (body j t).2) :
    ((forLoop n body i s).1 = n ∧ P n (forLoop n body i s).2) ∨
    (∃ j t, j < n ∧ P j t ∧ (body j t).1 = true ∧ forLoop n body i s = (j, (body j t).2)) := by
  induction hk : n - i generalizing i s with
  | zero =>
    have hin : i = n := by omega
    subst hin
    unfold forLoop
    simp [h0]
  | succ m ih =>
    have hlt : i < n := by omega
    unfold forLoop
    simp only [hlt, if_true]
    by_cases hb : (body i s).1 = true
    · simp only [hb, if_true]
      exact Or.inr ⟨i, s, hlt, h0, hb, rfl⟩
    · have hb' : (body i s).1 = false := by simpa using hb
      simp only [hb', Bool.false_eq_true, if_false]
      exact ih (i + 1) (body i s).2 (by omega) (hstep i s (Nat.le_refl _) hlt h0 hb')
        (fun j t hj => hstep j t (by omega)) (by omega)

/-- the same as a case rule: prove `Q` of the loop's result from the two ways a loop can end -/
theorem forLoop_cases {σ : Type} (n : Nat) (body : Nat → σ → Bool × σ) (P : Nat → σ → Prop) (i : Nat) (s : σ)
    (hi : i ≤ n) (h0 : P i s)
    (hstep : ∀ j t, i ≤ j → j < n → P j t → (body j t).1 = false → P (j + 1) (body j t).2)
    (Q : Nat × σ → Prop) (hA : ∀ t, P n t → Q (n, t))
    (hB : ∀ j t, j < n → P j t → (body j t).1 = true → Q (j, (body j t).2)) : Q (forLoop n body i s) := by
  rcases forLoop_inv n body P i s hi h0 hstep with ⟨h1, h2⟩ | ⟨j, t, hj, hP, hb, he⟩
  · have : forLoop n body i s = (n, (forLoop n body i s).2) := Prod.ext h1 rfl
    rw [this]; exact hA _ h2
  · rw [he]; exact hB j t hj hP hb

/-- a loop without `break` runs to the end -/
theorem forLoop_nobreak {σ : Type} (n : Nat) (body : Nat → σ → Bool × σ) (P : Nat → σ → Prop) (i : Nat) (s : σ)
    (hi : i ≤ n) (h0 : P i s) (hnb : ∀ j t, (body j t).1 = false)
    (hstep : ∀ j t, i ≤ j → j < n → P j t → P (j + 1) (body j t).2) :
    (forLoop n body i s).1 = n ∧ P n (forLoop n body i s).2 := by
  rcases forLoop_inv n body P i s hi h0 (fun j t h1 h2 h3 _ => hstep j t h1 h2 h3) with h | ⟨j, t, _, _, hb, _⟩
  · exact h
  · rw [hnb] at hb; cases hb

/-- Total-correctness rule for `while`: with an invariant `P` and a measure `μ` that every iteration decreases, `μ s` units of
    fuel are enough; the loop ends in a state satisfying `P` in which the condition is false. -/
theorem whileFuel_inv {σ : Type} (P : σ → Prop) (μ : σ → Nat) (c : σ → Bool) (b : σ → σ)
    (hstep : ∀ s, P s → c s = true → P (b s) ∧ μ (b s) < μ s) :
    ∀ (fuel : Nat) (s : σ), P s → μ s ≤ fuel → ∃ s', whileFuel fuel c b s = some s' ∧ P s' ∧ c s' = false ∧ μ s' ≤ μ s := by
  intro fuel
  induction fuel with
  | zero =>
    intro s hP hμ
    by_cases hc : c s = true
    · have := (hstep s hP hc).2; omega
    · exact ⟨s, by simp [whileFuel, hc], hP, by simpa using hc, Nat.le_refl _⟩
  | succ f ih =>
    intro s hP hμ
    by_cases hc : c s = true
    · obtain ⟨hP', hlt⟩ := hstep s hP hc
      obtain ⟨s', h1, h2, h3, h4⟩ := ih (b s) hP' (by omega)
      exact ⟨s', by simp [whileFuel, hc, h1], h2, h3, by omega⟩
    · exact ⟨s, by simp [whileFuel, hc], hP, by simpa using hc, Nat.le_refl _⟩

theorem whileFuel_inv' {σ : Type} (P : σ → Prop) (μ : σ → Nat) (c : σ → Bool) (b : σ → σ)
    (hstep : ∀ s, P s → c s = true → P (b s) ∧ μ (b s) < μ s) (fuel : Nat) (s : σ) (hP : P s) (hμ : μ s ≤ fuel) :
    ∃ s', whileFuel fuel c b s = some s' ∧ P s' := by
  obtain ⟨s', h1, h2, _, _⟩ := whileFuel_inv P μ c b hstep fuel s hP hμ
  exact ⟨s', h1, h2⟩

theorem all_range {p : Nat → Bool} {m : Nat} (h : (List.range m).all p = true) : ∀ i, i < m → p i = true := by
  intro i hi
  rw [List.all_eq_true] at h
  exact h i (List.mem_range.mpr hi)

/-! ### wrap-around arithmetic -/

theorem u32_of_lt {x : Nat} (h : x < 4294967296) : u32 x = x := by unfold u32; omega
theorem u32_lt (x : Nat) : u32 x < 4294967296 := by unfold u32; omega
theorem u32_pred {x : Nat} (h0 : 0 < x) (h : x < 4294967296) : u32 (x + 4294967296 - 1) = x - 1 := by unfold u32; omega
theorem u64_lt (x : Nat) : u64 x < 18446744073709551616 := by unfold u64; omega
theorem u64_of_lt {x : Nat} (h : x < 18446744073709551616) : u64 x = x := by unfold u64; omega
theorem i64_of_range {x : Int} (h1 : -9223372036854775808 ≤ x) (h2 : x < 9223372036854775808) : i64 x = x := by
  unfold i64; omega

/-! ### the exact instantiation -/

@[simp] theorem cnum_ofNat (n : Nat) : (CNum.ofNat n : Rat) = (n : Rat) := rfl
@[simp] theorem cnum_ofInt (i : Int) : (CNum.ofInt i : Rat) = (i : Rat) := rfl
theorem rat_floor_eq (x : Rat) : Rat.floor x = ⌊x⌋ := rfl
theorem rat_ceil_eq (x : Rat) : Rat.ceil x = ⌈x⌉ := by
  rw [Rat.ceil_eq_neg_floor_neg, rat_floor_eq, Int.floor_neg, neg_neg]
@[simp] theorem cnum_floor (x : Rat) : (CNum.floor x : Rat) = ((⌊x⌋ : Int) : Rat) := rfl
@[simp] theorem cnum_ceil (x : Rat) : (CNum.ceil x : Rat) = ((⌈x⌉ : Int) : Rat) := by
  show ((Rat.ceil x : Int) : Rat) = _
  rw [rat_ceil_eq]
theorem cnum_abs (x : Rat) : (CNum.abs x : Rat) = |x| := by
  show (if x < 0 then -x else x) = |x|
  split
  · rw [abs_of_neg (by assumption)]
  · rw [abs_of_nonneg (by linarith)]

/-- `(long) x` of an integer-valued double is that integer -/
@[simp] theorem cnum_trunc_int (z : Int) : (CNum.trunc ((z : Int) : Rat) : Int) = z := by
  show (if ((z : Int) : Rat) < 0 then Rat.ceil (z : Rat) else Rat.floor (z : Rat)) = z
  rw [rat_floor_eq, rat_ceil_eq]
  split <;> simp

theorem cnum_trunc_nonneg {x : Rat} (h : 0 ≤ x) : (CNum.trunc x : Int) = ⌊x⌋ := by
  show (if x < 0 then Rat.ceil x else Rat.floor x) = _
  rw [if_neg (by linarith), rat_floor_eq]

end CimbaModel.Rng.Dist
