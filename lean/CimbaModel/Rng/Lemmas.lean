/-
  Lemmas about the regenerated definitions that the property theorems of Props/C15.lean rest on.  Core Lean only.
  The proofs are written to survive harmless rewrites of the C code (operands commuted, temporaries renamed).
-/
import CimbaModel.Rng.Bridge

namespace CimbaModel.Rng
open CimbaModel.Generated

/-! ### generated code = documented algorithm -/

theorem sfc64_spec (s : RngState) :
    (cmb_random_sfc64 s).1 = (core s).next.1 ∧ (cmb_random_sfc64 s).2 = setCore s (core s).next.2 := by
  constructor
  · simp [cmb_random_sfc64, core, Spec.Sfc64.next]
    all_goals ac_rfl
  · simp [cmb_random_sfc64, core, setCore, Spec.Sfc64.next, Spec.rotl]
    all_goals (repeat' apply And.intro)
    all_goals ac_rfl

theorem splitmix_spec (s : RngState) :
    (splitmix64 s).1 = (Spec.splitmix64 s.splitmix_state).1 ∧
    (splitmix64 s).2 = { s with splitmix_state := (Spec.splitmix64 s.splitmix_state).2 } := by
  constructor
  · simp [splitmix64, Spec.splitmix64]
    all_goals ac_rfl
  · simp [splitmix64, Spec.splitmix64]
    all_goals ac_rfl

theorem repeat_commute {α β : Type} (h : α → β) (f : α → α) (g : β → β) (hc : ∀ a, h (f a) = g (h a)) :
    ∀ n a, h (Nat.repeat f n a) = Nat.repeat g n (h a)
  | 0, _ => rfl
  | n + 1, a => by simp [Nat.repeat, hc, repeat_commute h f g hc n a]

theorem repeat_rel {α : Type} (R : α → α → Prop) (f : α → α) (hf : ∀ a b, R a b → R (f a) (f b)) :
    ∀ n a b, R a b → R (Nat.repeat f n a) (Nat.repeat f n b)
  | 0, _, _, h => h
  | n + 1, a, b, h => by simpa [Nat.repeat] using hf _ _ (repeat_rel R f hf n a b h)

theorem repeat_id {α : Type} : ∀ (n : Nat) (x : α), Nat.repeat id n x = x
  | 0, _ => rfl
  | n + 1, x => by simpa [Nat.repeat] using repeat_id n x

/-- `--bitpos` on a non-zero position of at most 64 leaves a shift amount below 64 -/
theorem u8_dec_lt (b : UInt8) (h0 : b ≠ 0) (h : b ≤ 64) : b - 1 < 64 := by
  have h0' : b.toNat ≠ 0 := fun h => h0 (UInt8.toNat_inj.mp (by simpa using h))
  have h' : b.toNat ≤ 64 := by simpa [UInt8.le_iff_toNat_le] using h
  have h1 : (1 : UInt8) ≤ b := by rw [UInt8.le_iff_toNat_le]; simp; omega
  rw [UInt8.lt_iff_toNat_lt, UInt8.toNat_sub_of_le _ _ h1]
  simp; omega

end CimbaModel.Rng
