/-
  Hand-written model of the exponential ziggurat of src/cmb_random.c / include/cmb_random.h:
      cmb_random_std_exponential (hot path, header inline)  ->  `stdExp`
      cmi_random_exp_not_hot     (alias step, overhang rejection loop, tail iteration)  ->  `notHot`, `overhang`
      zig_exp_convert_x / _y                                ->  `convX`, `convY`
  over a number type `K` (exact: `Rat`, Props/C16.lean `zig_exp_support`; IEEE: `Float`, executed by `distmain` and compared
  bit for bit with the library — that comparison, not a translator, is what ties this model to the code).
  Core Lean only.  The tables are the regenerated ones (Generated/RngDist.lean, `ZigTables`).

  The C loops `for (;;)` end only through `return`; here they carry fuel (`none` = fuel exhausted).  `exp` is a parameter.
  The raw generator is `raw k` with the draw counter `k` threaded through, as in the regenerated definitions.
-/
import CimbaModel.Rng.DistBase
import CimbaModel.Generated.RngDist

namespace CimbaModel.Rng.Zig
open CimbaModel.Rng.Dist

/-- the lookup tables of `cmi_random_exp_zig.inc` -/
structure ExpTab (K : Type) where
  zmax : Nat            -- cmi_random_exp_zig_max
  x : Nat → K           -- cmi_random_exp_zig_pdf_x
  y : Nat → K           -- cmi_random_exp_zig_pdf_y
  conc : Nat → Nat      -- exp_zig_u_concavity
  alias : Nat → Nat     -- exp_zig_alias
  prob : Nat → Nat      -- exp_zig_u_prob
  tail : K              -- exp_zig_x_tail_start

/-- a table of doubles given as numerators over one power of two -/
def dyadic {K : Type} [CNum K] [Div K] (nums : List Nat) (e : Nat) : Nat → K :=
  fun j => CNum.ofNat (nums.getD j 0) / CNum.ofNat (2 ^ e)

section
variable {K : Type} [CNum K] [Add K] [Sub K] [Mul K] [Neg K] [LE K] [DecidableLE K]

def M64 : Nat := 18446744073709551615

/-- `zig_exp_convert_x(&x[j], u) = ldexp(x[j], 64) + (x[j-1] - x[j]) * (double)u` -/
def convX (T : ExpTab K) (j u : Nat) : K :=
  T.x j * CNum.ofNat 18446744073709551616 + (T.x (j - 1) - T.x j) * CNum.ofNat u

/-- `zig_exp_convert_y(&y[j], u) = ldexp(y[j-1], 64) + (y[j] - y[j-1]) * (double)u` -/
def convY (T : ExpTab K) (j u : Nat) : K :=
  T.y (j - 1) * CNum.ofNat 18446744073709551616 + (T.y j - T.y (j - 1)) * CNum.ofNat u

/-- `if (u_cand_y > UINT64_MAX - u_cand_x) { u_cand_y = UINT64_MAX - u_cand_y; u_cand_x = UINT64_MAX - u_cand_x; }` -/
def reflect (ucx ucy : Nat) : Nat × Nat :=
  if ucy > M64 - ucx then (M64 - ucx, M64 - ucy) else (ucx, ucy)

/-- the alias step: `jdx = u & 0xff; jdx = (sfc64() >= prob[jdx]) ? alias[jdx] : jdx` -/
def aliasStep (T : ExpTab K) (r0 r1 : Nat) : Nat :=
  if r1 ≥ T.prob (r0 % 256) then T.alias (r0 % 256) else r0 % 256

/-- the rejection loop inside overhang `jdx`; returns the accepted x (without the tail offset) and the draw counter -/
def overhang (T : ExpTab K) (fexp : K → K) (raw : Nat → Nat) (jdx : Nat) : Nat → Nat → Nat → Nat → Option (K × Nat)
  | 0, _, _, _ => none
  | f + 1, k, ucx, ucy =>
    let ucx' := (reflect ucx ucy).1
    let ucy' := (reflect ucx ucy).2
    let udist := (M64 - ucx') - ucy'
    if udist ≥ T.conc jdx then some (convX T jdx ucx', k)
    else
      let x := convX T jdx ucx'
      let y := convY T jdx ucy'
      if y ≤ fexp (-x) then some (x, k)
      else overhang T fexp raw jdx f (k + 2) (raw (k + 1)) (raw k)

/-- `cmi_random_exp_not_hot(u_cand_x)` with the accumulated tail offset -/
def notHot (T : ExpTab K) (fexp : K → K) (raw : Nat → Nat) : Nat → Nat → Nat → K → Option (K × Nat)
  | 0, _, _, _ => none
  | f + 1, k, ucx, xoff =>
    let ucy := raw k
    let jdx := aliasStep T ucy (raw (k + 1))
    if jdx > 0 then
      match overhang T fexp raw jdx f (k + 2) ucx ucy with
      | none => none
      | some r => some (r.1 + xoff, r.2)
    else
      let xoff := xoff + T.tail
      let ucx := raw (k + 2)
      let idx := ucx % 256
      if idx ≤ T.zmax then some (T.x idx * CNum.ofNat ucx + xoff, k + 3)
      else notHot T fexp raw f (k + 3) ucx xoff

/-- `cmb_random_std_exponential()` -/
def stdExp (T : ExpTab K) (fexp : K → K) (zero : K) (raw : Nat → Nat) (fuel k : Nat) : Option (K × Nat) :=
  let u := raw k
  let idx := u % 256
  if idx ≤ T.zmax then some (T.x idx * CNum.ofNat u, k + 1)
  else notHot T fexp raw fuel (k + 1) u zero

end

/-- the regenerated tables of the current build as an `ExpTab` -/
def expTab (K : Type) [CNum K] [Div K] : ExpTab K :=
  open CimbaModel.Generated.ZigTables in
  { zmax := cmi_random_exp_zig_max
    x := dyadic cmi_random_exp_zig_pdf_x_num cmi_random_exp_zig_pdf_x_exp
    y := dyadic cmi_random_exp_zig_pdf_y_num cmi_random_exp_zig_pdf_y_exp
    conc := fun j => exp_zig_u_concavity.getD j 0
    alias := fun j => exp_zig_alias.getD j 0
    prob := fun j => exp_zig_u_prob.getD j 0
    tail := CNum.ofInt exp_zig_x_tail_start_num / CNum.ofNat (2 ^ exp_zig_x_tail_start_exp) }

end CimbaModel.Rng.Zig
