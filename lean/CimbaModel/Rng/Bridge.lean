/-
  Bridge between the regenerated definitions (Generated/Rng.lean, from cmb_random.c) and the documented
  generator (Rng/Spec.lean): which C variables hold the sfc64 / splitmix64 state, the calls a user can make
  after seeding, and the lemmas the property theorems of Props/C15.lean rest on.  Core Lean only.

  Names of C variables appear ONLY in `core`, `setCore` and the `*_spec` lemmas of Rng/Lemmas.lean (prng_state.{a,b,c,d},
  splitmix_state, initial_seed).  Everything about "what survives re-seeding" is stated through the generated
  relation `RngState.AgreeOnReads` and proved without naming a field, so moving or renaming a cache variable
  does not disturb it.
-/
import CimbaModel.Generated.Rng
import CimbaModel.Rng.Spec

namespace CimbaModel.Rng
open CimbaModel.Generated

/-- the sfc64 state held in `prng_state` (the counter is the member `d`) -/
def core (s : RngState) : Spec.Sfc64 :=
  { a := s.prng_state_a, b := s.prng_state_b, c := s.prng_state_c, counter := s.prng_state_d }

def setCore (s : RngState) (g : Spec.Sfc64) : RngState :=
  { s with prng_state_a := g.a, prng_state_b := g.b, prng_state_c := g.c, prng_state_d := g.counter }

@[simp] theorem core_setCore (s : RngState) (g : Spec.Sfc64) : core (setCore s g) = g := rfl

/-! ### the calls a user can make after seeding (integer-only part of the API) -/

inductive Call where
  | raw        -- cmb_random_sfc64()
  | flip       -- cmb_random_flip()
  | curseed    -- cmb_random_curseed()
  | terminate  -- cmb_random_terminate()
  | unit53     -- cmb_random(): ldexp((double)(sfc64() >> 11), -53); the model returns the exact numerator sfc64() >> 11
deriving DecidableEq, Repr

inductive Out where
  | word (w : UInt64)
  | int (i : Int)
  | none
deriving DecidableEq, Repr

def step : Call → RngState → Out × RngState
  | .raw, s => (.word (cmb_random_sfc64 s).1, (cmb_random_sfc64 s).2)
  | .flip, s => (.int (cmb_random_flip s).1, (cmb_random_flip s).2)
  | .curseed, s => (.word (cmb_random_curseed s).1, (cmb_random_curseed s).2)
  | .terminate, s => (.none, cmb_random_terminate s)
  | .unit53, s => (.word ((cmb_random_sfc64 s).1 >>> 11), (cmb_random_sfc64 s).2)

/-- the values returned by a sequence of calls -/
def runCalls : RngState → List Call → List Out
  | _, [] => []
  | s, c :: cs => (step c s).1 :: runCalls (step c s).2 cs

/-- the state after a sequence of calls -/
def afterCalls : RngState → List Call → RngState
  | s, [] => s
  | s, c :: cs => afterCalls (step c s).2 cs

/-! ### memo caches of the floating-point samplers -/

/-- the states a sampler's function-static cache can be in: the static initialisers, or what its memo prologue leaves after
    any number of calls with valid arguments -/
inductive MemoReach {M F : Type} (init : M) (pro : F → M → M) (valid : F → Prop) : M → Prop where
  | init : MemoReach init pro valid init
  | call (x : F) (m : M) : valid x → MemoReach init pro valid m → MemoReach init pro valid (pro x m)

end CimbaModel.Rng
