/-
  Bridge between the regenerated definitions (Generated/Rng.lean, from cmb_random.c) and the documented
  generator (Rng/Spec.lean): which C variables hold the sfc64 / splitmix64 state, the calls a user can make
  after seeding, and the lemmas the property theorems of Props/C15.lean rest on.  Core Lean only.

  Names of C variables appear ONLY in `core`, `setCore` and the three `*_spec` lemmas (prng_state.{a,b,c,d},
  splitmix_state, initial_seed).  Everything about "what survives re-seeding" is stated through the generated
  relation `RngState.AgreeOnReads` and proved without naming a field, so moving or renaming a cache variable
  does not disturb it.
-/
import CimbaModel.Generated.Rng
import CimbaModel.Rng.Spec

namespace CimbaModel.Rng
open CimbaModel.Generated

/-- the sfc64 state held in `prng_state` (the counter is the member `d`) -/
def core (s : RngState) : Spec.Sfc64 :=
  { a := s.prng_state_a, b := s.prng_state_b, c := s.prng_state_c, counter := s.prng_state_d }

def setCore (s : RngState) (g : Spec.Sfc64) : RngState :=
  { s with prng_state_a := g.a, prng_state_b := g.b, prng_state_c := g.c, prng_state_d := g.counter }

@[simp] theorem core_setCore (s : RngState) (g : Spec.Sfc64) : core (setCore s g) = g := rfl

/-! ### the calls a user can make after seeding (integer-only part of the API) -/

inductive Call where
  | raw        -- cmb_random_sfc64()
  | flip       -- cmb_random_flip()
  | curseed    -- cmb_random_curseed()
  | terminate  -- cmb_random_terminate()
  | unit53     -- cmb_random(): ldexp((double)(sfc64() >> 11), -53); the model returns the exact numerator sfc64() >> 11
deriving DecidableEq, Repr

inductive Out where
  | word (w : UInt64)
  | int (i : Int)
  | none
deriving DecidableEq, Repr

def step : Call → RngState → Out × RngState
  | .raw, s => (.word (cmb_random_sfc64 s).1, (cmb_random_sfc64 s).2)
  | .flip, s => (.int (cmb_random_flip s).1, (cmb_random_flip s).2)
  | .curseed, s => (.word (cmb_random_curseed s).1, (cmb_random_curseed s).2)
  | .terminate, s => (.none, cmb_random_terminate s)
  | .unit53, s => (.word ((cmb_random_sfc64 s).1 >>> 11), (cmb_random_sfc64 s).2)

/-- the values returned by a sequence of calls -/
def runCalls : RngState → List Call → List Out
  | _, [] => []
  | s, c :: cs => (step c s).1 :: runCalls (step c s).2 cs

/-- the state after a sequence of calls -/
def afterCalls : RngState → List Call → RngState
  | s, [] => s
  | s, c :: cs => afterCalls (step c s).2 cs

/-! ### generated code = documented algorithm -/

theorem sfc64_spec (s : RngState) :
    (cmb_random_sfc64 s).1 = (core s).next.1 ∧ (cmb_random_sfc64 s).2 = setCore s (core s).next.2 := by
  constructor
  · simp [cmb_random_sfc64, core, Spec.Sfc64.next]
  · simp [cmb_random_sfc64, core, setCore, Spec.Sfc64.next, Spec.rotl]

theorem splitmix_spec (s : RngState) :
    (splitmix64 s).1 = (Spec.splitmix64 s.splitmix_state).1 ∧
    (splitmix64 s).2 = { s with splitmix_state := (Spec.splitmix64 s.splitmix_state).2 } := by
  constructor <;> simp [splitmix64, Spec.splitmix64]

theorem repeat_commute {α β : Type} (h : α → β) (f : α → α) (g : β → β) (hc : ∀ a, h (f a) = g (h a)) :
    ∀ n a, h (Nat.repeat f n a) = Nat.repeat g n (h a)
  | 0, _ => rfl
  | n + 1, a => by simp [Nat.repeat, hc, repeat_commute h f g hc n a]

theorem repeat_rel {α : Type} (R : α → α → Prop) (f : α → α) (hf : ∀ a b, R a b → R (f a) (f b)) :
    ∀ n a b, R a b → R (Nat.repeat f n a) (Nat.repeat f n b)
  | 0, _, _, h => h
  | n + 1, a, b, h => by simpa [Nat.repeat] using hf _ _ (repeat_rel R f hf n a b h)

theorem repeat_id {α : Type} : ∀ (n : Nat) (x : α), Nat.repeat id n x = x
  | 0, _ => rfl
  | n + 1, x => by simpa [Nat.repeat] using repeat_id n x

/-- `--bitpos` on a non-zero position of at most 64 leaves a shift amount below 64 -/
theorem u8_dec_lt (b : UInt8) (h0 : b ≠ 0) (h : b ≤ 64) : b - 1 < 64 := by
  have h0' : b.toNat ≠ 0 := fun h => h0 (UInt8.toNat_inj.mp (by simpa using h))
  have h' : b.toNat ≤ 64 := by simpa [UInt8.le_iff_toNat_le] using h
  have h1 : (1 : UInt8) ≤ b := by rw [UInt8.le_iff_toNat_le]; simp; omega
  rw [UInt8.lt_iff_toNat_lt, UInt8.toNat_sub_of_le _ _ h1]
  simp; omega

end CimbaModel.Rng
