/-
  The documented generator, written from the published algorithms (NOT from cimba's source).  Core Lean only.

  sfc64 — Chris Doty-Humphrey, PractRand (https://pracrand.sourceforge.net), RNGs/sfc.h, class sfc64:
      Uint64 tmp = a + b + counter++;
      a = b ^ (b >> 11);
      b = c + (c << 3);
      c = ((c << 24) | (c >> (64 - 24))) + tmp;        // rotate left by 24
      return tmp;
  splitmix64 — Sebastiano Vigna (https://prng.di.unimi.it/splitmix64.c), after Steele, Lea & Flood:
      uint64_t z = (x += 0x9e3779b97f4a7c15);
      z = (z ^ (z >> 30)) * 0xbf58476d1ce4e5b9;
      z = (z ^ (z >> 27)) * 0x94d049bb133111eb;
      return z ^ (z >> 31);
  Seeding as documented by cimba (docs/background.rst, "three-stage bootstrapping"; include/cmb_random.h,
  cmb_random_initialize): splitmix64 is initialised with the 64-bit seed, four samples are drawn from it to
  fill the 256-bit state of the main generator (a, b, c, counter, in that order), then 20 samples of the main
  generator are drawn and discarded.
-/
namespace CimbaModel.Rng.Spec

/-- rotate a 64-bit word left by `k` (0 < k < 64) -/
def rotl (x k : UInt64) : UInt64 := (x <<< k) ||| (x >>> (64 - k))

/-- 256 bits of sfc64 state -/
structure Sfc64 where
  a : UInt64
  b : UInt64
  c : UInt64
  counter : UInt64
deriving DecidableEq, Repr

/-- one step of sfc64: (output, next state) -/
def Sfc64.next (s : Sfc64) : UInt64 × Sfc64 :=
  let tmp := s.a + s.b + s.counter
  (tmp, { a := s.b ^^^ (s.b >>> 11),
          b := s.c + (s.c <<< 3),
          c := rotl s.c 24 + tmp,
          counter := s.counter + 1 })

/-- one step of splitmix64 on its 64-bit state: (output, next state) -/
def splitmix64 (x : UInt64) : UInt64 × UInt64 :=
  let x := x + 0x9e3779b97f4a7c15
  let z := x
  let z := (z ^^^ (z >>> 30)) * 0xbf58476d1ce4e5b9
  let z := (z ^^^ (z >>> 27)) * 0x94d049bb133111eb
  (z ^^^ (z >>> 31), x)

/-- number of outputs discarded after seeding (docs/background.rst) -/
def discards : Nat := 20

/-- the four splitmix64 outputs that fill a, b, c, counter -/
def bootstrap (seed : UInt64) : Sfc64 :=
  let p1 := splitmix64 seed
  let p2 := splitmix64 p1.2
  let p3 := splitmix64 p2.2
  let p4 := splitmix64 p3.2
  { a := p1.1, b := p2.1, c := p3.1, counter := p4.1 }

/-- the state of the main generator after seeding: bootstrap, then 20 discarded outputs -/
def seed256 (seed : UInt64) : Sfc64 :=
  Nat.repeat (fun s => s.next.2) discards (bootstrap seed)

/-- the first `n` outputs from state `s` -/
def outputs : Sfc64 → Nat → List UInt64
  | _, 0 => []
  | s, n + 1 => s.next.1 :: outputs s.next.2 n

/-- the documented raw stream of a seed -/
def stream (seed : UInt64) (n : Nat) : List UInt64 := outputs (seed256 seed) n

/-- the state of splitmix64 after the four bootstrap draws -/
def splitmixAfter (seed : UInt64) : UInt64 :=
  (splitmix64 (splitmix64 (splitmix64 (splitmix64 seed).2).2).2).2

/- Known answers of the published algorithms (independent of cimba):
   splitmix64 seeded with 1234567 — the reference outputs of Vigna's splitmix64.c as listed by
   https://rosettacode.org/wiki/Pseudo-random_numbers/Splitmix64 -/
example :
    let p1 := splitmix64 1234567
    let p2 := splitmix64 p1.2
    let p3 := splitmix64 p2.2
    let p4 := splitmix64 p3.2
    let p5 := splitmix64 p4.2
    [p1.1, p2.1, p3.1, p4.1, p5.1] =
      [6457827717110365317, 3203168211198807973, 9817491932198370423, 4593380528125082431, 16408922859458223821] := by
  decide

/- sfc64 from the state (a, b, c, counter) = (1, 2, 3, 4): the outputs of numpy.random.SFC64 (numpy 2.4, whose
   sfc64 is taken from PractRand) after setting its state array to [1, 2, 3, 4] -/
example : outputs ⟨1, 2, 3, 4⟩ 6 =
    [7, 34, 452984928, 7599825881358712, 25336469023883162, 240669917008063140] := by
  decide

/-- `rotl · 24` is the 64-bit left rotation -/
theorem rotl24_is_rotate (x : UInt64) : (rotl x 24).toBitVec = x.toBitVec.rotateLeft 24 := by
  simp [rotl, BitVec.rotateLeft, BitVec.rotateLeftAux]

end CimbaModel.Rng.Spec
