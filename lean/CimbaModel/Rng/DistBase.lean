/-
  Base vocabulary of the regenerated sampler definitions (Generated/RngDist.lean, property C16).  Core Lean only:
  the compiled driver `distmain` links it.

  The translator (tools/c2lean_dist.py) turns the C functions into definitions over a number type `K` and emits the SAME text
  twice:  `DistQ` with `K := Rat` (exact arithmetic: what Props/C16.lean proves theorems about) and `DistF` with
  `K := Float` (IEEE binary64, the arithmetic the library really uses: executed by the driver and compared bit for bit with
  the library).  The operations that differ between the two are collected in the class `CNum`.

  C constructs and what they become:
    unsigned / uint64_t / long values   Nat / Nat / Int with explicit wrap-around (`u32`, `u64`, `i64`)
    double *p, calloc'ed arrays          functions `Nat → K` / `Nat → Nat`, assignment through `upd`
    for (i = a; i < n; i++) { … break }  `forLoop n body a st`   (`body i st = (broke, st')`)
    while (c) { … }                      `whileFuel fuel c body st : Option σ`  (`none`: fuel exhausted; the theorems
                                         show how much fuel is always enough, i.e. termination)
    cmb_random_sfc64()                   `raw k` with the draw counter `k` threaded through
    log, sqrt, exp, pow                  abstract functions (parameters of the definition)
-/
namespace CimbaModel.Rng.Dist

/-- array assignment `f[i] = v` -/
def upd {α : Type} (f : Nat → α) (i : Nat) (v : α) : Nat → α := fun j => if j = i then v else f j

@[simp] theorem upd_same {α : Type} (f : Nat → α) (i : Nat) (v : α) : upd f i v i = v := by simp [upd]
theorem upd_other {α : Type} (f : Nat → α) (i j : Nat) (v : α) (h : j ≠ i) : upd f i v j = f j := by simp [upd, h]

/-- `for (i = i0; i < n; i++) body`; the body returns `(true, st)` for `break`.  Result: the value of `i` when the loop was
    left (not incremented after a `break`) and the state. -/
def forLoop {σ : Type} (n : Nat) (body : Nat → σ → Bool × σ) (i : Nat) (s : σ) : Nat × σ :=
  if i < n then
    if (body i s).1 then (i, (body i s).2) else forLoop n body (i + 1) (body i s).2
  else (i, s)
termination_by n - i

/-- `while (c) body` with fuel; `none` when the fuel runs out while the condition still holds -/
def whileFuel {σ : Type} : Nat → (σ → Bool) → (σ → σ) → σ → Option σ
  | 0, c, _, s => if c s then none else some s
  | f + 1, c, b, s => if c s then whileFuel f c b (b s) else some s

def u32 (x : Nat) : Nat := x % 4294967296
def u64 (x : Nat) : Nat := x % 18446744073709551616
/-- two's-complement wrap of a `long` -/
def i64 (x : Int) : Int := (x + 9223372036854775808) % 18446744073709551616 - 9223372036854775808

/-- what the two instantiations of `double` have to provide -/
class CNum (K : Type) where
  ofNat : Nat → K
  ofInt : Int → K
  /-- `floor`, `ceil`, `fabs` of <math.h> -/
  floor : K → K
  ceil : K → K
  abs : K → K
  /-- `(long) x`, `(unsigned) x`, `(uint64_t) x` for a double: truncation toward zero (C leaves out-of-range values undefined) -/
  trunc : K → Int

instance : CNum Rat where
  ofNat n := (n : Rat)
  ofInt i := (i : Rat)
  floor x := (x.floor : Rat)
  ceil x := (x.ceil : Rat)
  abs x := if x < 0 then -x else x
  trunc x := if x < 0 then x.ceil else x.floor

/-- `(uint64_t) x` / `(long) x` on IEEE doubles.  In range this is what the hardware conversion does. -/
def floatTrunc (x : Float) : Int :=
  if x < 0 then -((Float.floor (-x)).toUInt64.toNat : Int) else ((Float.floor x).toUInt64.toNat : Int)

instance : CNum Float where
  ofNat n := Float.ofNat n
  ofInt i := Float.ofInt i
  floor := Float.floor
  ceil := Float.ceil
  abs := Float.abs
  trunc := floatTrunc

end CimbaModel.Rng.Dist
