/-
  Record type of the storage inventory that tools/gen_rng.py regenerates from cmb_random.c on every run
  (Generated/Rng.lean: `rngInventory`).  Core Lean only.
-/
namespace CimbaModel.Rng

/-- storage of a variable with static storage duration -/
inductive Storage where
  | threadLocal   -- `_Thread_local` / `__thread` (CMB_THREAD_LOCAL): one instance per thread
  | plainStatic   -- one instance shared by all threads, not const-qualified
  | constant      -- const-qualified, not thread-local: read-only
deriving DecidableEq, Repr

structure VarInfo where
  name : String
  /-- "file" for a file-scope variable, else the name of the function it is a static local of -/
  scope : String
  storage : Storage
  /-- declared `extern` here without an initialiser: lives in another translation unit -/
  isExtern : Bool
  ctype : String
  /-- functions of the translation unit (headers included) that assign to it, increment or decrement it, or take its address -/
  writers : List String
  /-- functions that load its value -/
  readers : List String
deriving DecidableEq, Repr

def VarInfo.key (v : VarInfo) : String × String := (v.name, v.scope)

end CimbaModel.Rng
