/-
  Record type of the storage inventory that tools/gen_rng.py regenerates from cmb_random.c on every run
  (Generated/Rng.lean: `rngInventory`).  Core Lean only.
-/
namespace CimbaModel.Rng

/-- storage of a variable with static storage duration -/
inductive Storage where
  | threadLocal   -- `_Thread_local` / `__thread` (CMB_THREAD_LOCAL): one instance per thread
  | plainStatic   -- one instance shared by all threads, not const-qualified
  | constant      -- const-qualified, not thread-local: read-only
deriving DecidableEq, Repr

structure VarInfo where
  name : String
  /-- "file" for a file-scope variable, else the name of the function it is a static local of -/
  scope : String
  storage : Storage
  /-- declared `extern` here without an initialiser: lives in another translation unit -/
  isExtern : Bool
  ctype : String
  /-- functions of the translation unit (headers included) that assign to it, increment or decrement it, or take its address -/
  writers : List String
  /-- functions that load its value -/
  readers : List String
deriving DecidableEq, Repr

def VarInfo.key (v : VarInfo) : String × String := (v.name, v.scope)

/-- `double` arithmetic kept abstract: the memo prologues of the samplers are translated over an arbitrary `FloatOps F`
    (literals by their source text, libm functions by name), so what is proved about them holds for IEEE-754 binary64 as
    for any other interpretation that satisfies the hypotheses a theorem states -/
structure FloatOps (F : Type) where
  lit : String → F
  add : F → F → F
  sub : F → F → F
  mul : F → F → F
  div : F → F → F
  neg : F → F
  fn : String → F → F
  ne : F → F → Bool
  eq : F → F → Bool
  lt : F → F → Bool
  le : F → F → Bool
  gt : F → F → Bool
  ge : F → F → Bool

/-- a place where the library sets the floating-point control word (Generated/FpEnv.lean, regenerated on every run) -/
structure FpWrite where
  file : String
  function : String
  /-- "mxcsr" (`_mm_setcsr`), "initial-mxcsr-slot" (the MXCSR a new coroutine starts with), "fesetround" -/
  kind : String
  value : Nat
deriving DecidableEq, Repr

/-- The bits of MXCSR that change the VALUE of a double computation: rounding control (bits 13-14), flush-to-zero (15),
    denormals-are-zero (6).  The other bits are exception masks (7-12: which conditions trap) and sticky flags (0-5). -/
def mxcsrValueBits : Nat := 0xE040

/-- the write leaves the arithmetic that every thread starts with: round to nearest, subnormals kept -/
def FpWrite.valuePreserving (w : FpWrite) : Bool :=
  if w.kind == "mxcsr" || w.kind == "initial-mxcsr-slot" then w.value &&& mxcsrValueBits == 0
  else if w.kind == "fesetround" then w.value == 0
  else false

/-! ### Classification, keyed by variable name AND scope (function).  A variable that is not listed makes the
    theorems of Props/C15.lean fail, so a newly added static has to be looked at. -/

/-- plain (shared) statics that are not const-qualified but are never written and whose address is never taken anywhere
    in the translation unit; being `static` no other translation unit can name them.
    `sum_tolerance` (file scope): the literal 1.0e-3 used by `sums_to_one`; effectively a constant. -/
def sharedReadOnlyAllow : List (String × String) := [("sum_tolerance", "file")]

/-- can the variable carry information from one thread to another? -/
def VarInfo.threadSafe (v : VarInfo) : Bool :=
  match v.storage with
  | .threadLocal => true
  | .constant => true
  | .plainStatic => v.writers.isEmpty && sharedReadOnlyAllow.contains v.key

/-- what happens to a thread-local variable across `cmb_random_initialize` -/
inductive ReseedClass where
  /-- part of the modelled state; `reseed_forgets` proves that seeding erases its influence -/
  | resetBySeed
  /-- function-static memo of a value that is a pure function of the function's argument at the moment it is used -/
  | memoOfArgument
  /-- declared here (extern), defined elsewhere, and not used by any function of this translation unit -/
  | foreignUnused
deriving DecidableEq, Repr

/-- The allow-list.  Memo caches, argued per variable (they hold doubles, so this part is an argument plus the
    differential test of tools/props/C15.py, not a theorem about IEEE arithmetic; the prologues themselves are
    translated and proved to be pure functions of the argument in Props/C15.lean `gamma_memo_pure`, `geometric_memo_pure`):
    * `cmb_random_std_gamma`: `a_prev`, `c`, `d`.  `if (shape != a_prev) { d = shape - 1/3; c = 1/sqrt(9 d); a_prev = shape; }`.
      Invariant: `a_prev = 0` (never called; `shape > 0` is release-asserted, so the first call recomputes) or
      `d = a_prev - 1/3 ∧ c = 1/sqrt(9 d)`.  After the prologue `c` and `d` are the values computed from `shape`, whether
      recomputed or cached, and nothing else of the cache is read.
    * `cmb_random_geometric`: `prev`, `denom`.  `prev` is never assigned (stays 0.0), `p > 0` is asserted, so `p != prev`
      always holds and `denom = -log(1 - p)` is recomputed on every call before it is read. -/
def reseedAllow : List ((String × String) × ReseedClass) := [
  (("prng_state", "file"), .resetBySeed),
  (("initial_seed", "file"), .resetBySeed),
  (("splitmix_state", "file"), .resetBySeed),
  (("flip_bits", "file"), .resetBySeed),
  (("flip_bitpos", "file"), .resetBySeed),
  (("a_prev", "cmb_random_std_gamma"), .memoOfArgument),
  (("c", "cmb_random_std_gamma"), .memoOfArgument),
  (("d", "cmb_random_std_gamma"), .memoOfArgument),
  (("prev", "cmb_random_geometric"), .memoOfArgument),
  (("denom", "cmb_random_geometric"), .memoOfArgument),
  (("cmi_logger_trial_idx", "file"), .foreignUnused)]

/-- does the inventory entry meet the conditions of its class?  `stateVars`: variables the model's state record covers;
    `seedWrites`: variables that `cmb_random_initialize` assigns in full (directly or through a callee); `translated`: the functions
    of the model (no other function may touch a modelled variable: the samplers reach the generator only by calling them); `memoVars`: the
    function-static doubles whose maintaining statements were translated (`…_prologue`) and proved pure in Props/C15.lean §5. -/
def VarInfo.reseedOk (stateVars seedWrites memoVars : List (String × String)) (translated : List String) (v : VarInfo) : Bool :=
  match v.storage with
  | .threadLocal =>
    match reseedAllow.lookup v.key with
    | some .resetBySeed =>
      !v.isExtern && stateVars.contains v.key && seedWrites.contains v.key &&
      (v.readers ++ v.writers).all (translated.contains ·)
    | some .memoOfArgument =>
      !v.isExtern && v.scope != "file" && v.writers.all (· == v.scope) && v.readers.all (· == v.scope) && memoVars.contains v.key
    | some .foreignUnused => v.isExtern && v.writers.isEmpty && v.readers.isEmpty
    | none => false
  | _ => true

end CimbaModel.Rng
