/-
  Refinement proof of the hashheap, part 1: function views of the two arrays, the accessor
  lemmas, the structural invariant `WFS` over function views (with an arbitrary set `L` of live
  heap indices, so that the same lemmas serve the sift loops, removal, insertion and the
  rehash loop of `grow`), and its equivalence with `WF`.
-/
import CimbaModel.HashHeap.Inv
import CimbaModel.HashHeap.Hash

namespace CimbaModel.HashHeap
open CimbaModel CimbaModel.KPQ

/-! ### function update -/

def upd {α : Type} (f : Nat → α) (i : Nat) (v : α) : Nat → α := fun j => if j = i then v else f j

@[simp] theorem upd_same {α : Type} (f : Nat → α) (i : Nat) (v : α) : upd f i v i = v := by simp [upd]
@[simp] theorem upd_other {α : Type} (f : Nat → α) (i j : Nat) (v : α) (h : j ≠ i) : upd f i v j = f j := by
  simp [upd, h]
theorem upd_apply {α : Type} (f : Nat → α) (i j : Nat) (v : α) : upd f i v j = if j = i then v else f j := rfl

/-! ### array views -/

def tg (h : Array HTag) (i : Nat) : HTag := h.getD i {}
def sl (h : Array HSlot) (i : Nat) : HSlot := h.getD i {}

theorem HH.tag_eq (s : HH) : s.tag = tg s.heap := rfl
theorem HH.slot_eq (s : HH) : s.slot = sl s.hash := rfl

theorem tg_set (h : Array HTag) (i : Nat) (t : HTag) (hi : i < h.size) :
    tg (h.set i t hi) = upd (tg h) i t := by
  funext j
  show (h.set i t hi).getD j {} = if j = i then t else h.getD j {}
  rw [Array.getD_eq_getD_getElem?, Array.getD_eq_getD_getElem?, Array.getElem?_set]
  by_cases hji : j = i
  · subst hji; simp
  · have : ¬ i = j := fun h => hji h.symm
    simp [hji, this]

theorem sl_set (h : Array HSlot) (i : Nat) (t : HSlot) (hi : i < h.size) :
    sl (h.set i t hi) = upd (sl h) i t := by
  funext j
  show (h.set i t hi).getD j {} = if j = i then t else h.getD j {}
  rw [Array.getD_eq_getD_getElem?, Array.getD_eq_getD_getElem?, Array.getElem?_set]
  by_cases hji : j = i
  · subst hji; simp
  · have : ¬ i = j := fun h => hji h.symm
    simp [hji, this]

theorem tg_replicate (n i : Nat) : tg (Array.replicate n ({} : HTag)) i = {} := by
  unfold tg
  rw [Array.getD_eq_getD_getElem?, Array.getElem?_replicate]
  split <;> rfl

theorem sl_replicate (n i : Nat) : sl (Array.replicate n ({} : HSlot)) i = {} := by
  unfold sl
  rw [Array.getD_eq_getD_getElem?, Array.getElem?_replicate]
  split <;> rfl

theorem tg_append (h : Array HTag) (n i : Nat) : tg (h ++ Array.replicate n ({} : HTag)) i = tg h i := by
  unfold tg
  rw [Array.getD_eq_getD_getElem?, Array.getD_eq_getD_getElem?, Array.getElem?_append]
  split
  · rfl
  · rw [Array.getElem?_eq_none (xs := h) (by omega), Array.getElem?_replicate]
    split <;> rfl

theorem sl_oob (h : Array HSlot) (i : Nat) (hi : h.size ≤ i) : sl h i = {} := by
  unfold sl
  rw [Array.getD_eq_getD_getElem?, Array.getElem?_eq_none hi]; rfl

/-! ### accessors never fault in bounds -/

theorem rdHeap_ok {h : Array HTag} {i : Nat} (hi : i < h.size) : rdHeap h i = .ok (tg h i) := by
  simp [rdHeap, hi, tg]

theorem wrHeap_ok {h : Array HTag} {i : Nat} {t : HTag} (hi : i < h.size) :
    wrHeap h i t = .ok (h.set i t hi) := by
  simp [wrHeap, hi]

theorem rdHash_ok {h : Array HSlot} {i : Nat} (hi : i < h.size) : rdHash h i = .ok (sl h i) := by
  simp [rdHash, hi, sl]

theorem wrHash_ok {h : Array HSlot} {i : Nat} {t : HSlot} (hi : i < h.size) :
    wrHash h i t = .ok (h.set i t hi) := by
  simp [wrHash, hi]

theorem setIdx_ok {h : Array HSlot} {j v : Nat} (hj : j < h.size) :
    setIdx h j v = .ok (h.set j { sl h j with idx := v } hj) := by
  unfold setIdx
  rw [rdHash_ok hj]
  exact wrHash_ok hj

theorem setHidx_ok {h : Array HTag} {j v : Nat} (hj : j < h.size) :
    setHidx h j v = .ok (h.set j { tg h j with hidx := v } hj) := by
  unfold setHidx
  rw [rdHeap_ok hj]
  exact wrHeap_ok hj

@[simp] theorem ok_bind {α β : Type} (a : α) (f : α → Except Fault β) : (Except.ok a >>= f) = f a := rfl

@[simp] theorem ok_map {α β : Type} (a : α) (f : α → β) : (f <$> (Except.ok a : Except Fault α)) = .ok (f a) := rfl

@[simp] theorem ok_pure {α : Type} (a : α) : (pure a : Except Fault α) = .ok a := rfl

/-! ### live entries -/

/-- `i` is a live heap index -/
def InR (c : Nat) (i : Nat) : Prop := 1 ≤ i ∧ i ≤ c

/-- `x` is one of the tags at the live heap indices -/
def Live (T : Nat → HTag) (c : Nat) (x : HTag) : Prop := ∃ i, 1 ≤ i ∧ i ≤ c ∧ T i = x

theorem mem_liveTags (s : HH) (x : HTag) : x ∈ liveTags s ↔ Live s.tag s.count x := by
  unfold liveTags Live HH.tag
  simp only [List.mem_map, List.mem_range]
  constructor
  · rintro ⟨j, hj, rfl⟩; exact ⟨j + 1, by omega, by omega, rfl⟩
  · rintro ⟨i, h1, h2, rfl⟩; exact ⟨i - 1, by omega, by rw [show i - 1 + 1 = i by omega]⟩

theorem liveTags_length (s : HH) : (liveTags s).length = s.count := by simp [liveTags]

theorem liveTags_congr (s s' : HH) (hc : s'.count = s.count)
    (h : ∀ i, 1 ≤ i → i ≤ s.count → s'.tag i = s.tag i) : liveTags s' = liveTags s := by
  unfold liveTags
  rw [hc]
  apply List.map_congr_left
  intro j hj
  have := List.mem_range.mp hj
  exact h (j + 1) (by omega) (by omega)

/-! ### the structural invariant over function views -/

/-- slots strictly before `j` on the probe path of the key stored in `j` carry other, non-zero keys -/
def ChainOK (S : Nat → HSlot) (e j : Nat) : Prop :=
  ∀ m, m < probeDist (2 ^ (e + 1)) (hashKey e (S j).key) j →
    (S ((hashKey e (S j).key + m) % 2 ^ (e + 1))).key ≠ 0 ∧
    (S ((hashKey e (S j).key + m) % 2 ^ (e + 1))).key ≠ (S j).key

/-- everything of `WF` except sizes and heap order; `L` = the set of live heap indices -/
structure WFS (T : Nat → HTag) (S : Nat → HSlot) (L : Nat → Prop) (e : Nat) : Prop where
  lpos : ∀ i, L i → i ≠ 0
  keyOk : ∀ i, L i → (T i).key ≠ 0 ∧ (T i).key < 2 ^ 64
  back : ∀ i, L i → (T i).hidx < 2 ^ (e + 1) ∧ S (T i).hidx = { key := (T i).key, idx := i }
  fwd : ∀ j, j < 2 ^ (e + 1) → (S j).idx ≠ 0 → L (S j).idx ∧ (T (S j).idx).hidx = j
  unused : ∀ j, j < 2 ^ (e + 1) → (S j).key = 0 → (S j).idx = 0
  probe : ∀ j, j < 2 ^ (e + 1) → (S j).idx ≠ 0 → ChainOK S e j

/-- heap order on a function view -/
def Ord (lt : Order) (T : Nat → HTag) (c : Nat) : Prop :=
  ∀ i, 2 ≤ i → i ≤ c → lt (T i) (T (i / 2)) = false

theorem WF_iff (lt : Order) (s : HH) :
    WF lt s ↔ (1 ≤ s.exp ∧ s.exp ≤ 31 ∧ 1 ≤ s.expInit ∧ s.expInit ≤ s.exp ∧
      s.heap.size = 2 ^ s.exp + 2 ∧ s.hash.size = 2 ^ (s.exp + 1) ∧
      s.count ≤ 2 ^ s.exp ∧ WFS s.tag s.slot (InR s.count) s.exp ∧ Ord lt s.tag s.count) := by
  constructor
  · intro h
    have hs := h.hashSize
    refine ⟨h.expPos, h.expLe, h.expInitPos, h.expInitLe, h.heapSize, h.hashSize, h.countLe, ?_, h.ord⟩
    refine ⟨fun i hi => by have := hi.1; omega, fun i hi => h.keyOk i hi.1 hi.2, ?_, ?_, ?_, ?_⟩
    · intro i hi; have := h.back i hi.1 hi.2; rw [hs] at this; exact this
    · intro j hj hne
      have := h.fwd j (by omega) hne
      have h0 : (s.slot j).idx ≠ 0 := hne
      exact ⟨⟨by omega, this.1⟩, this.2⟩
    · intro j hj; exact h.unused j (by omega)
    · intro j hj hne; have := h.probe j (by omega) hne; rw [hs] at this; exact this
  · rintro ⟨h1, h2, h3, h4, h5, h6, h7, w, ho⟩
    refine ⟨h1, h2, h3, h4, h5, h6, h7, fun i a b => w.keyOk i ⟨a, b⟩, ?_, ?_, ?_, ho, ?_⟩
    · intro i a b; rw [h6]; exact w.back i ⟨a, b⟩
    · intro j hj hne; have := w.fwd j (by omega) hne; exact ⟨this.1.2, this.2⟩
    · intro j hj; exact w.unused j (by omega)
    · intro j hj hne; rw [h6]; exact w.probe j (by omega) hne

/-- `WFS` looks at the tags only through key and back-pointer of live entries, and at the slots
    only inside the map -/
theorem WFS.congr {T T' : Nat → HTag} {S S' : Nat → HSlot} {L L' : Nat → Prop} {e : Nat}
    (w : WFS T S L e) (hL : ∀ i, L' i ↔ L i)
    (hT : ∀ i, L i → (T' i).key = (T i).key ∧ (T' i).hidx = (T i).hidx)
    (hS : ∀ j, j < 2 ^ (e + 1) → S' j = S j) : WFS T' S' L' e := by
  have hpos : 0 < 2 ^ (e + 1) := Nat.pow_pos (by decide)
  refine ⟨fun i hi => w.lpos i ((hL i).1 hi), ?_, ?_, ?_, ?_, ?_⟩
  · intro i hi; have hi := (hL i).1 hi; rw [(hT i hi).1]; exact w.keyOk i hi
  · intro i hi; have hi := (hL i).1 hi
    have b := w.back i hi
    rw [(hT i hi).1, (hT i hi).2, hS _ b.1]; exact b
  · intro j hj hne; rw [hS j hj] at hne ⊢
    have f := w.fwd j hj hne
    exact ⟨(hL _).2 f.1, by rw [(hT _ f.1).2]; exact f.2⟩
  · intro j hj; rw [hS j hj]; exact w.unused j hj
  · intro j hj hne; rw [hS j hj] at hne
    have p := w.probe j hj hne
    intro m hm
    rw [hS j hj] at hm ⊢
    rw [hS _ (Nat.mod_lt _ hpos)]
    exact p m hm

end CimbaModel.HashHeap
