/-
  Refinement proof of the hashheap, part 14: the specification `SpecStep` does not depend on the order in which
  the abstract queue lists its entries: a step possible from `q` is possible, with the same result and the same
  successor, from every permutation of `q` (keys distinct).  So the run of the specification that
  `run_refines` exhibits along the states `abs s` is a run of the specification on queues-as-multisets.
-/
import CimbaModel.HashHeap.RefineAuto

namespace CimbaModel.HashHeap
open CimbaModel CimbaModel.KPQ

variable {lt : Order}

theorem isMin_perm {q q' : KPQ} (h : q.Perm q') {e : HTag} (hm : IsMin lt q e) : IsMin lt q' e :=
  ⟨h.mem_iff.1 hm.1, fun x hx => hm.2 x (h.mem_iff.2 hx)⟩

theorem matching_perm {q q' : KPQ} (h : q.Perm q') (p : Item) : (matching q p).Perm (matching q' p) :=
  h.filter _

theorem decide_congr {p q : Prop} [Decidable p] [Decidable q] (h : p ↔ q) : decide p = decide q := by
  by_cases hp : p
  · rw [decide_eq_true hp, decide_eq_true (h.1 hp)]
  · rw [decide_eq_false hp, decide_eq_false (fun hq => hp (h.2 hq))]

theorem SpecStep.perm_left {q1 q2 : KPQ} {c : Nat} {op : Op} {r : Res} {y : KPQ × Nat}
    (hp : q1.Perm q2) (hnd : (keys q1).Nodup) (h : SpecStep lt (q1, c) op r y) :
    ∃ q', SpecStep lt (q2, c) op r (q', y.2) ∧ q'.Perm y.1 := by
  have hnd2 : (keys q2).Nodup := (show (keys q1).Perm (keys q2) from hp.map _).nodup_iff.1 hnd
  cases h with
  | enqueue _ q' _ it k d i hperm =>
    exact ⟨q', SpecStep.enqueue _ _ _ it k d i (hperm.trans (List.Perm.cons _ hp)), List.Perm.refl _⟩
  | dequeue _ q' _ e hmin hperm =>
    exact ⟨q', SpecStep.dequeue _ _ _ e (isMin_perm hp hmin) (hp.symm.trans hperm), List.Perm.refl _⟩
  | dequeueEmpty =>
    rw [← hp.nil_eq]; exact ⟨[], SpecStep.dequeueEmpty _, List.Perm.refl _⟩
  | remove _ q' _ k hperm =>
    rw [decide_congr (keys_perm hp k)]
    exact ⟨q', SpecStep.remove _ _ _ k (hperm.trans (hp.filter _)), List.Perm.refl _⟩
  | reprio _ q' _ k d i hk hperm =>
    exact ⟨q', SpecStep.reprio _ _ _ k d i ((keys_perm hp k).1 hk) (hperm.trans (hp.map _)), List.Perm.refl _⟩
  | cancel _ q' _ p hperm =>
    rw [(matching_perm hp p).length_eq]
    exact ⟨q', SpecStep.cancel _ _ _ p (hperm.trans (hp.filter _)), List.Perm.refl _⟩
  | clear => exact ⟨[], SpecStep.clear _ _, List.Perm.refl _⟩
  | reset => exact ⟨[], SpecStep.reset _ _, List.Perm.refl _⟩
  | lookup _ _ k t hl =>
    refine ⟨q2, SpecStep.lookup _ _ k t ?_, hp.symm⟩
    rw [← hl]
    exact lookup_ext hnd hnd2 k (fun x _ => hp.mem_iff.symm)
  | isEnqueued _ _ k =>
    rw [decide_congr (keys_perm hp k)]
    exact ⟨q2, SpecStep.isEnqueued _ _ k, hp.symm⟩
  | peek _ _ e hmin => exact ⟨q2, SpecStep.peek _ _ e (isMin_perm hp hmin), hp.symm⟩
  | peekEmpty => rw [← hp.nil_eq]; exact ⟨[], SpecStep.peekEmpty _, List.Perm.refl _⟩
  | findNone _ _ p hm =>
    refine ⟨q2, SpecStep.findNone _ _ p ?_, hp.symm⟩
    have := matching_perm hp p
    rw [hm] at this
    exact this.nil_eq.symm
  | findSome _ _ p t hm =>
    exact ⟨q2, SpecStep.findSome _ _ p t ((matching_perm hp p).mem_iff.1 hm), hp.symm⟩
  | count _ _ p =>
    rw [(matching_perm hp p).length_eq]
    exact ⟨q2, SpecStep.count _ _ p, hp.symm⟩

end CimbaModel.HashHeap
