/-
  Refinement proof of the hashheap, part 7: capacity doubling.  `grow` appends zeroed heap slots, allocates a
  zeroed map of twice the size and rehashes the live entries of the old map into it; the loop invariant is
  `WFS` for the set of already re-homed entries.  Tombstones disappear, every tag keeps key, payload and
  sort keys and only changes its back-pointer.
-/
import CimbaModel.HashHeap.RefineOps

set_option linter.unusedSimpArgs false

namespace CimbaModel.HashHeap
open CimbaModel CimbaModel.KPQ

theorem lt_norm (lt : Order) [ih : IgnoresHidx lt] (a b : HTag) : lt (norm a) (norm b) = lt a b :=
  ih.eq a b 0 0

theorem lt_of_norm_eq (lt : Order) [IgnoresHidx lt] {a b a' b' : HTag} (ha : norm a = norm a') (hb : norm b = norm b') :
    lt a b = lt a' b' := by
  rw [← lt_norm lt a b, ← lt_norm lt a' b', ha, hb]

structure RehInv (T0 : Nat → HTag) (c e' ui : Nat) (heap : Array HTag) (hash : Array HSlot) : Prop where
  hsz : heap.size = 2 ^ e' + 2
  hhs : hash.size = 2 ^ (e' + 1)
  same : ∀ i, norm (tg heap i) = norm (T0 i)
  unproc : ∀ i, ¬ (InR c i ∧ (T0 i).hidx < ui) → tg heap i = T0 i
  w : WFS (tg heap) (sl hash) (fun i => InR c i ∧ (T0 i).hidx < ui) e'

theorem norm_key (t : HTag) : (norm t).key = t.key := rfl

theorem rehashLoop_spec {T0 : Nat → HTag} {S0 : Nat → HSlot} {c e : Nat} (w0 : WFS T0 S0 (InR c) e)
    (he : e < 62) (hc : c ≤ 2 ^ e) (old : Array HSlot) (hold : old.size = 2 ^ (e + 1)) (hS0 : sl old = S0) :
    ∀ n ui heap hash, ui + n = 2 ^ (e + 1) → RehInv T0 c (e + 1) ui heap hash →
      ∃ heap' hash', rehashLoop (e + 1) old n ui heap hash = .ok (heap', hash') ∧
        RehInv T0 c (e + 1) (2 ^ (e + 1)) heap' hash' := by
  have hpow : 2 ^ (e + 1) = 2 * 2 ^ e := by rw [Nat.pow_succ]; omega
  have hpow2 : 2 ^ (e + 1 + 1) = 2 * 2 ^ (e + 1) := by rw [Nat.pow_succ]; omega
  intro n
  induction n with
  | zero =>
    intro ui heap hash hn inv
    have : ui = 2 ^ (e + 1) := by omega
    subst this
    exact ⟨heap, hash, rfl, inv⟩
  | succ n ih =>
    intro ui heap hash hn inv
    have hui : ui < 2 ^ (e + 1) := by omega
    rw [rehashLoop, rdHash_ok (by omega), ok_bind, hS0]
    by_cases hlive : (S0 ui).key ≠ 0 ∧ (S0 ui).idx ≠ 0
    · rw [if_pos hlive]
      obtain ⟨hiL, hihidx, hikey⟩ := w0.slot_live hui hlive.2
      have hi1 := hiL.1; have hi2 := hiL.2
      have hnp : ¬ (InR c (S0 ui).idx ∧ (T0 (S0 ui).idx).hidx < ui) := by rw [hihidx]; omega
      have hTi := inv.unproc _ hnp
      obtain ⟨p, hp, hfind, hfree, hchain⟩ := findSlot_spec hash (e + 1) (S0 ui).key inv.hhs (by omega)
        (inv.w.exists_free c (fun i hi => hi.1.2) (by omega))
      rw [hfind, ok_bind, wrHash_ok (by have := inv.hhs; omega), ok_bind,
        setHidx_ok (by have := inv.hsz; omega), ok_bind]
      apply ih (ui + 1) _ _ (by omega)
      have hPiff : ∀ j, (InR c j ∧ (T0 j).hidx < ui + 1) ↔
          ((InR c j ∧ (T0 j).hidx < ui) ∨ j = (S0 ui).idx) := by
        intro j
        constructor
        · rintro ⟨hj, hlt⟩
          by_cases h : (T0 j).hidx < ui
          · exact Or.inl ⟨hj, h⟩
          · right
            exact w0.hidx_inj hj hiL (by rw [hihidx]; omega)
        · rintro (⟨hj, hlt⟩ | rfl)
          · exact ⟨hj, by omega⟩
          · exact ⟨hiL, by rw [hihidx]; omega⟩
      have w1 := inv.w.insert (by omega) (a := (S0 ui).idx) (p := p)
        { tg heap (S0 ui).idx with hidx := p } hnp (by omega)
        (by show (tg heap (S0 ui).idx).key ≠ 0 ∧ (tg heap (S0 ui).idx).key < 2 ^ 64
            rw [hTi]; exact w0.keyOk _ hiL)
        (by
          intro j hj
          show (tg heap j).key ≠ (tg heap (S0 ui).idx).key
          rw [hTi, ← norm_key (tg heap j), inv.same j, norm_key]
          intro hk
          have := w0.key_inj (by omega) hj.1 hiL hk
          rw [this, hihidx] at hj
          omega)
        hp rfl hfree
        (by show ∀ m, m < probeDist _ (hashKey (e + 1) (tg heap (S0 ui).idx).key) p → _
            rw [hTi, hikey]; exact hchain)
      have hkeq : (tg heap (S0 ui).idx).key = (S0 ui).key := by rw [hTi, hikey]
      refine ⟨by simp [inv.hsz], by simp [inv.hhs], ?_, ?_, ?_⟩
      · intro j
        rw [tg_set]
        by_cases h : j = (S0 ui).idx
        · subst h; simp only [upd_same]; exact inv.same _
        · rw [upd_other _ _ _ _ h]; exact inv.same j
      · intro j hj
        rw [tg_set]
        have h : j ≠ (S0 ui).idx := fun h => hj ((hPiff j).2 (Or.inr h))
        rw [upd_other _ _ _ _ h]
        exact inv.unproc j (fun h' => hj ((hPiff j).2 (Or.inl h')))
      · rw [tg_set, sl_set]
        apply w1.congr hPiff (fun _ _ => ⟨rfl, rfl⟩)
        intro j _
        show upd (sl hash) p _ j = upd (sl hash) p _ j
        rw [hkeq]
    · rw [if_neg hlive]
      apply ih (ui + 1) _ _ (by omega)
      have hPiff : ∀ j, (InR c j ∧ (T0 j).hidx < ui + 1) ↔ (InR c j ∧ (T0 j).hidx < ui) := by
        intro j
        constructor
        · rintro ⟨hj, hlt⟩
          refine ⟨hj, ?_⟩
          apply Classical.byContradiction
          intro h
          have hju : (T0 j).hidx = ui := by omega
          have b := (w0.back j hj).2
          rw [hju] at b
          apply hlive
          rw [b]
          exact ⟨(w0.keyOk j hj).1, w0.lpos j hj⟩
        · rintro ⟨hj, hlt⟩; exact ⟨hj, by omega⟩
      exact ⟨inv.hsz, inv.hhs, inv.same, fun j hj => inv.unproc j (fun h => hj ((hPiff j).2 h)),
        inv.w.congr hPiff (fun _ _ => ⟨rfl, rfl⟩) (fun _ _ => rfl)⟩

variable {lt : Order}

theorem grow_spec [IgnoresHidx lt] {s : HH} (hwf : WF lt s) (he : s.exp < 31) :
    ∃ s', grow s = .ok s' ∧ WF lt s' ∧ s'.exp = s.exp + 1 ∧ s'.count = s.count ∧
      s'.expInit = s.expInit ∧ s'.counter = s.counter ∧
      ∀ i, norm (s'.tag i) = norm (s.tag i) := by
  obtain ⟨he1, he31, hei1, hei2, hsz, hhs, hc, w, ho⟩ := (WF_iff lt s).1 hwf
  have hpow : 2 ^ (s.exp + 1) = 2 * 2 ^ s.exp := by rw [Nat.pow_succ]; omega
  have hlim : ¬ growBound ≤ 2 ^ s.exp := by
    have : 2 ^ s.exp ≤ 2 ^ 30 := Nat.pow_le_pow_right (by decide) (by omega)
    unfold growBound; omega
  have hT0 : tg (s.heap ++ Array.replicate (2 ^ (s.exp + 1) + 2 - s.heap.size) ({} : HTag)) = s.tag := by
    funext i; rw [tg_append]; rfl
  have inv0 : RehInv s.tag s.count (s.exp + 1) 0
      (s.heap ++ Array.replicate (2 ^ (s.exp + 1) + 2 - s.heap.size) ({} : HTag))
      (Array.replicate (2 ^ (s.exp + 1 + 1)) ({} : HSlot)) := by
    refine ⟨by simp; omega, by simp, fun i => by rw [hT0], fun i _ => by rw [hT0], ?_⟩
    refine ⟨fun i hi => by omega, fun i hi => by omega, fun i hi => by omega, ?_, ?_, ?_⟩
    · intro j _ hne; rw [sl_replicate] at hne; exact absurd rfl hne
    · intro j _ _; rw [sl_replicate]
    · intro j _ hne; rw [sl_replicate] at hne; exact absurd rfl hne
  obtain ⟨heap', hash', hrun, inv⟩ := rehashLoop_spec w (by omega) hc s.hash hhs rfl
    (2 ^ (s.exp + 1)) 0 _ _ (by omega) inv0
  unfold grow
  rw [if_neg hlim]
  dsimp only
  rw [hhs, hrun, ok_bind]
  have hLiff : ∀ i, InR s.count i ↔ (InR s.count i ∧ (s.tag i).hidx < 2 ^ (s.exp + 1)) :=
    fun i => ⟨fun h => ⟨h, (w.back i h).1⟩, fun h => h.1⟩
  refine ⟨_, rfl, ?_, rfl, rfl, rfl, rfl, inv.same⟩
  rw [WF_iff]
  refine ⟨by show 1 ≤ s.exp + 1; omega, by show s.exp + 1 ≤ 31; omega, hei1, by show s.expInit ≤ s.exp + 1; omega,
    inv.hsz, inv.hhs, by show s.count ≤ 2 ^ (s.exp + 1); omega,
    inv.w.congr hLiff (fun _ _ => ⟨rfl, rfl⟩) (fun _ _ => rfl), ?_⟩
  intro i h2 hc'
  show lt (tg heap' i) (tg heap' (i / 2)) = false
  rw [lt_of_norm_eq lt (inv.same i) (inv.same (i / 2))]
  exact ho i h2 hc'

end CimbaModel.HashHeap
