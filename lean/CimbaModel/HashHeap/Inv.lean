/-
  The well-formedness invariant of the concrete hashheap and its abstraction to the keyed
  priority queue specification (DESIGN.md §3.2).
-/
import CimbaModel.Basic.Order
import CimbaModel.Basic.KeyedPQ

namespace CimbaModel.HashHeap
open CimbaModel CimbaModel.KPQ

/-- heap tag at index `i` (default outside the array; `WF` makes every use in-bounds) -/
def HH.tag (s : HH) (i : Nat) : HTag := s.heap.getD i {}
/-- hash slot at index `j` -/
def HH.slot (s : HH) (j : Nat) : HSlot := s.hash.getD j {}

/-- cyclic distance from the home slot `h` to slot `j` in a map of `n` slots -/
def probeDist (n h j : Nat) : Nat := (j + n - h) % n

structure WF (lt : Order) (s : HH) : Prop where
  expPos : 1 ≤ s.exp
  expLe : s.exp ≤ 31
  /-- the initial exponent (what `reset` goes back to) is valid and never above the current one -/
  expInitPos : 1 ≤ s.expInit
  expInitLe : s.expInit ≤ s.exp
  heapSize : s.heap.size = 2 ^ s.exp + 2
  hashSize : s.hash.size = 2 ^ (s.exp + 1)
  countLe : s.count ≤ 2 ^ s.exp
  /-- live heap entries have non-zero keys below 2^64 -/
  keyOk : ∀ i, 1 ≤ i → i ≤ s.count → (s.tag i).key ≠ 0 ∧ (s.tag i).key < 2 ^ 64
  /-- heap → hash back-pointer -/
  back : ∀ i, 1 ≤ i → i ≤ s.count →
    (s.tag i).hidx < s.hash.size ∧ s.slot (s.tag i).hidx = { key := (s.tag i).key, idx := i }
  /-- hash → heap pointer: every occupied slot names a live heap entry that points back -/
  fwd : ∀ j, j < s.hash.size → (s.slot j).idx ≠ 0 →
    (s.slot j).idx ≤ s.count ∧ (s.tag (s.slot j).idx).hidx = j
  /-- never-used slots are empty -/
  unused : ∀ j, j < s.hash.size → (s.slot j).key = 0 → (s.slot j).idx = 0
  /-- binary-heap order -/
  ord : ∀ i, 2 ≤ i → i ≤ s.count → lt (s.tag i) (s.tag (i / 2)) = false
  /-- probe-chain invariant: between the home slot of a live key and the slot holding it there is
      no never-used slot and no other slot (live or tombstone) carrying the same key -/
  probe : ∀ j, j < s.hash.size → (s.slot j).idx ≠ 0 →
    ∀ m, m < probeDist s.hash.size (hashKey s.exp (s.slot j).key) j →
      (s.slot ((hashKey s.exp (s.slot j).key + m) % s.hash.size)).key ≠ 0 ∧
      (s.slot ((hashKey s.exp (s.slot j).key + m) % s.hash.size)).key ≠ (s.slot j).key

/-- abstraction: the live entries in heap-array order, back-pointers forgotten -/
def abs (s : HH) : KPQ := (liveTags s).map norm

end CimbaModel.HashHeap
