/-
  Refinement proof of the hashheap, part 6: the public operations on a well-formed state, stated on
  the concrete level (`WF` of the result, and which tags are live afterwards).
-/
import CimbaModel.HashHeap.RefineSift

set_option linter.unusedSimpArgs false

namespace CimbaModel.HashHeap
open CimbaModel CimbaModel.KPQ

/-- `x` is a live tag at an index other than `i` -/
def LiveExcept (T : Nat → HTag) (c i : Nat) (x : HTag) : Prop := ∃ j, 1 ≤ j ∧ j ≤ c ∧ j ≠ i ∧ T j = x

section struct
variable {T : Nat → HTag} {S : Nat → HSlot} {c e : Nat}

theorem InR_pred (c i : Nat) : (InR c i ∧ i ≠ c) ↔ InR (c - 1) i := by
  unfold InR; omega

/-- drop the last heap entry -/
theorem WFS.removeLast (w : WFS T S (InR c) e) (hc : 1 ≤ c) :
    WFS T (upd S (T c).hidx { S (T c).hidx with idx := 0 }) (InR (c - 1)) e := by
  have hcc : InR c c := ⟨hc, Nat.le_refl _⟩
  have b := (w.back c hcc).2
  have d := w.delete hcc
  apply d.congr (fun i => (InR_pred c i).symm) (fun _ _ => ⟨rfl, rfl⟩)
  intro j _
  rw [b]

/-- overwrite entry `i` by the last one and drop the last -/
theorem WFS.removeAt {i : Nat} (w : WFS T S (InR c) e) (hi : InR c i) (hic : i ≠ c) :
    WFS (upd T i (T c))
      (upd (upd S (T i).hidx { S (T i).hidx with idx := 0 }) (T c).hidx
        { (upd S (T i).hidx { S (T i).hidx with idx := 0 }) (T c).hidx with idx := i })
      (InR (c - 1)) e := by
  have hcc : InR c c := ⟨by have := hi.1; have := hi.2; omega, Nat.le_refl _⟩
  have bi := (w.back i hi).2
  have bc := (w.back c hcc).2
  have hne : (T c).hidx ≠ (T i).hidx := fun h => hic (w.hidx_inj hi hcc h.symm)
  have s1 := w.swap hi hcc hic
  have d := s1.delete hcc
  have e1 : upd (upd T i (T c)) c (T i) c = T i := by simp
  rw [e1] at d
  apply d.congr (fun i => (InR_pred c i).symm)
  · intro j hj
    have : j ≠ c := hj.2
    simp [this]
  · intro j _
    simp only [upd_apply]
    by_cases h1 : j = (T c).hidx
    · subst h1; simp [hne, bc]
    · by_cases h2 : j = (T i).hidx
      · subst h2; simp [h1, bi]
      · simp [h1, h2]

theorem Live.removeAt {i : Nat} (hi : InR c i) (hic : i ≠ c) (x : HTag) :
    Live (upd T i (T c)) (c - 1) x ↔ LiveExcept T c i x := by
  have := hi.1; have := hi.2
  constructor
  · rintro ⟨j, h1, h2, rfl⟩
    by_cases hji : j = i
    · subst hji; exact ⟨c, by omega, by omega, by omega, by simp⟩
    · exact ⟨j, h1, by omega, hji, by simp [hji]⟩
  · rintro ⟨j, h1, h2, h3, rfl⟩
    by_cases hjc : j = c
    · subst hjc; exact ⟨i, by omega, by omega, by simp⟩
    · exact ⟨j, h1, by omega, by simp [h3]⟩

theorem Live.removeLast (hc : 1 ≤ c) (x : HTag) : Live T (c - 1) x ↔ LiveExcept T c c x := by
  constructor
  · rintro ⟨j, h1, h2, rfl⟩; exact ⟨j, h1, by omega, by omega, rfl⟩
  · rintro ⟨j, h1, h2, h3, rfl⟩; exact ⟨j, h1, by omega, rfl⟩

end struct

section ord
variable {lt : Order} [sw : StrictWeak lt] {T : Nat → HTag} {c c' i : Nat}

/-- replacing entry `i` by a tag that is not before the parent of `i`: only the children may be out of order -/
theorem Ord.replace_down (ho : Ord lt T c) (hcc : c' ≤ c) (hi : InR c' i) (b : HTag)
    (h : 2 ≤ i → lt b (T (i / 2)) = false) : DownOrd lt (upd T i b) c' i := by
  have := hi.1; have := hi.2
  constructor
  · intro x h2 hc hx
    by_cases hxi : x = i
    · subst hxi
      have : x / 2 ≠ x := by omega
      simp [this]; exact h h2
    · simp [hxi, hx]; exact ho x h2 (by omega)
  · intro x h2 hc hx hi2
    have hxi : x ≠ i := by omega
    have : i / 2 ≠ i := by omega
    simp [hxi, this]
    have h1 := ho x h2 (by omega)
    rw [hx] at h1
    exact lt_B h1 (ho i hi2 (by omega))

/-- replacing entry `i` by a tag that no child of `i` is before: only the parent may be out of order -/
theorem Ord.replace_up (ho : Ord lt T c) (hcc : c' ≤ c) (hi : InR c' i) (b : HTag)
    (h : ∀ x, 2 ≤ x → x ≤ c' → x / 2 = i → lt (T x) b = false) : UpOrd lt (upd T i b) c' i := by
  have := hi.1; have := hi.2
  constructor
  · intro x h2 hc hxi
    by_cases hx : x / 2 = i
    · rw [hx]; simp [hxi]; exact h x h2 hc hx
    · simp [hxi, hx]; exact ho x h2 (by omega)
  · intro x h2 hc hx hi2
    have hxi : x ≠ i := by omega
    have : i / 2 ≠ i := by omega
    simp [hxi, this]
    have h1 := ho x h2 (by omega)
    rw [hx] at h1
    exact lt_B h1 (ho i hi2 (by omega))

omit sw in
theorem Ord.shrink (ho : Ord lt T c) (hcc : c' ≤ c) : Ord lt T c' := fun i h2 hc => ho i h2 (by omega)

end ord

variable {lt : Order} [sw : StrictWeak lt]

omit sw in
theorem SiftPost.toWF {s1 s' : HH} (p : SiftPost lt s1 s') (h1 : 1 ≤ s1.exp) (h2 : s1.exp ≤ 31)
    (h3 : 1 ≤ s1.expInit) (h4 : s1.expInit ≤ s1.exp) (hc : s1.count ≤ 2 ^ s1.exp) : WF lt s' := by
  rw [WF_iff, p.exp, p.expInit, p.count]
  exact ⟨h1, h2, h3, h4, p.heapSize, p.hashSize, hc, p.wfs, p.ord⟩

/-- what the final sift of an operation establishes for its result `s2`, relative to the state `s1`
    handed to it -/
def Post (lt : Order) (s1 s2 : HH) : Prop :=
  WF lt s2 ∧ s2.count = s1.count ∧ s2.exp = s1.exp ∧ s2.expInit = s1.expInit ∧ s2.counter = s1.counter ∧
    ∀ x, Live s2.tag s2.count x ↔ Live s1.tag s1.count x

/-- the bookkeeping facts about the state handed to the final sift -/
structure Pre (s1 : HH) : Prop where
  he1 : 1 ≤ s1.exp
  he31 : s1.exp ≤ 31
  hei1 : 1 ≤ s1.expInit
  hei2 : s1.expInit ≤ s1.exp
  hsz : s1.heap.size = 2 ^ s1.exp + 2
  hhs : s1.hash.size = 2 ^ (s1.exp + 1)
  hc : s1.count ≤ 2 ^ s1.exp
  w : WFS s1.tag s1.slot (InR s1.count) s1.exp

omit sw in
theorem Pre.post (p : Pre s1) (ho : Ord lt s1.tag s1.count) : Post lt s1 s1 := by
  refine ⟨?_, rfl, rfl, rfl, rfl, fun x => Iff.rfl⟩
  rw [WF_iff]
  exact ⟨p.he1, p.he31, p.hei1, p.hei2, p.hsz, p.hhs, p.hc, p.w, ho⟩

theorem heapDown_tail {s1 : HH} (p : Pre s1) {k : Nat} (hk : InR s1.count k)
    (ho : DownOrd lt s1.tag s1.count k) : ∃ s2, heapDown lt s1 k = .ok s2 ∧ Post lt s1 s2 := by
  obtain ⟨s2, hrun, q⟩ := heapDown_spec (lt := lt) s1 k p.hsz p.hhs p.hc hk p.w ho
  refine ⟨s2, hrun, q.toWF p.he1 p.he31 p.hei1 p.hei2 p.hc, q.count, q.exp, q.expInit, q.counter, ?_⟩
  intro x
  rw [q.count, q.live x]

theorem heapUp_tail {s1 : HH} (p : Pre s1) {k : Nat} (hk : InR s1.count k)
    (ho : UpOrd lt s1.tag s1.count k) : ∃ s2, heapUp lt s1 k = .ok s2 ∧ Post lt s1 s2 := by
  obtain ⟨s2, hrun, q⟩ := heapUp_spec (lt := lt) s1 k p.hsz p.hhs p.hc hk p.w ho
  refine ⟨s2, hrun, q.toWF p.he1 p.he31 p.hei1 p.hei2 p.hc, q.count, q.exp, q.expInit, q.counter, ?_⟩
  intro x
  rw [q.count, q.live x]

/-- the tail of `dequeue`, for an arbitrary intermediate state `s1` -/
theorem dequeue_tail (s1 : HH) (t : HTag) (Q : HH → Prop) (c1 : Nat) (hc1 : s1.count = c1)
    (p : Pre s1) (hpos : 1 ≤ s1.count)
    (ho : DownOrd lt s1.tag s1.count 1) (hQ : ∀ s2, Post lt s1 s2 → Q s2) :
    ∃ s2, (do let s2 ← (if 1 < c1 then heapDown lt s1 1 else pure s1)
              Except.ok (s2, some t)) = .ok (s2, some t) ∧ Q s2 := by
  subst hc1
  by_cases h2 : 1 < s1.count
  · rw [if_pos h2]
    obtain ⟨s2, hrun, q⟩ := heapDown_tail (lt := lt) p ⟨Nat.le_refl _, hpos⟩ ho
    rw [hrun]
    exact ⟨s2, rfl, hQ s2 q⟩
  · rw [if_neg h2]
    refine ⟨s1, rfl, hQ s1 (p.post ?_)⟩
    intro i _ _; omega

/-- `dequeue` on a non-empty well-formed heap: returns the root, removes exactly it -/
theorem dequeue_spec {s : HH} (hwf : WF lt s) (hpos : 0 < s.count) :
    ∃ s', dequeue lt s = .ok (s', some (s.tag 1)) ∧ WF lt s' ∧ s'.count = s.count - 1 ∧
      s'.exp = s.exp ∧ s'.expInit = s.expInit ∧ s'.counter = s.counter ∧
      ∀ x, Live s'.tag s'.count x ↔ LiveExcept s.tag s.count 1 x := by
  obtain ⟨he1, he31, hei1, hei2, hsz, hhs, hc, w, ho⟩ := (WF_iff lt s).1 hwf
  have h1r : InR s.count 1 := ⟨Nat.le_refl _, hpos⟩
  have hcr : InR s.count s.count := ⟨hpos, Nat.le_refl _⟩
  have b1 := w.back 1 h1r
  have bc := w.back _ hcr
  rw [HH.tag_eq] at b1 bc
  have hlast : tg (s.heap.set 0 (tg s.heap 1) (by omega)) s.count = tg s.heap s.count := by
    rw [tg_set]; exact upd_other _ _ _ _ (by omega)
  unfold dequeue
  rw [if_neg (by omega)]
  dsimp only
  rw [rdHeap_ok (by omega), ok_bind, wrHeap_ok (by omega), ok_bind, setIdx_ok (by omega), ok_bind]
  by_cases h1 : 1 < s.count
  · rw [if_pos h1, rdHeap_ok (by simp; omega), ok_bind, hlast, wrHeap_ok (by simp; omega), ok_bind,
      setIdx_ok (by simp; omega), ok_bind]
    have w1 := w.removeAt h1r (by omega : (1 : Nat) ≠ s.count)
    rw [HH.tag_eq, HH.slot_eq] at w1
    have hT1 : ∀ i, 1 ≤ i →
        upd (upd (tg s.heap) 0 (tg s.heap 1)) 1 (tg s.heap s.count) i = upd (tg s.heap) 1 (tg s.heap s.count) i := by
      intro i hi
      by_cases h : i = 1
      · simp [h]
      · have : i ≠ 0 := by omega
        simp [h, this]
    apply dequeue_tail
    · rfl
    · refine ⟨he1, he31, hei1, hei2, by simp [hsz], by simp [hhs], (by show s.count - 1 ≤ 2 ^ s.exp; omega), ?_⟩
      show WFS (tg _) (sl _) (InR (s.count - 1)) s.exp
      rw [tg_set, tg_set, sl_set, sl_set]
      exact w1.congr (fun _ => Iff.rfl) (fun i hi => by rw [hT1 i hi.1]; exact ⟨rfl, rfl⟩) (fun _ _ => rfl)
    · show 1 ≤ s.count - 1; omega
    · show DownOrd lt (tg _) (s.count - 1) 1
      rw [tg_set, tg_set]
      apply DownOrd.congr (T := upd (tg s.heap) 1 (tg s.heap s.count)) _ (fun i hi _ => hT1 i hi)
      exact Ord.replace_down ho (by omega) ⟨Nat.le_refl _, by omega⟩ _ (by omega)
    · intro s2 q
      refine ⟨q.1, q.2.1, q.2.2.1, q.2.2.2.1, q.2.2.2.2.1, ?_⟩
      intro x
      rw [q.2.2.2.2.2 x]
      show Live (tg _) (s.count - 1) x ↔ _
      rw [tg_set, tg_set, Live.congr (fun i hi _ => hT1 i hi) x]
      exact Live.removeAt h1r (by omega) x
  · rw [if_neg h1]
    have hc1 : s.count = 1 := by omega
    have w1 := w.removeLast hpos
    rw [HH.tag_eq, HH.slot_eq, hc1] at w1
    refine ⟨_, rfl, ?_, by simp [hc1], rfl, rfl, rfl, ?_⟩
    · rw [WF_iff]
      refine ⟨he1, he31, hei1, hei2, by simp [hsz], by simp [hhs], Nat.zero_le _, ?_, ?_⟩
      · show WFS (tg _) (sl _) (InR 0) s.exp
        rw [tg_set, sl_set]
        exact w1.congr (fun _ => Iff.rfl) (fun i hi => by have := hi.1; have := hi.2; omega) (fun _ _ => rfl)
      · intro i h2' hc'; simp at hc'; omega
    · intro x
      constructor
      · rintro ⟨j, h1, h2, _⟩; simp at h2; omega
      · rintro ⟨j, h1, h2, h3, _⟩; omega

/-- the final sift of `remove` / `reprioritize`: down or up, whichever the comparison says -/
theorem sift_either (s1 : HH) (k : Nat) (down : Bool) (Q : HH → Prop) (p : Pre s1) (hk : InR s1.count k)
    (hod : down = true → DownOrd lt s1.tag s1.count k) (hou : down = false → UpOrd lt s1.tag s1.count k)
    (hQ : ∀ s2, Post lt s1 s2 → Q s2) :
    ∃ s2, (if down = true then heapDown lt s1 k else heapUp lt s1 k) = .ok s2 ∧ Q s2 := by
  cases down with
  | true =>
    obtain ⟨s2, hrun, q⟩ := heapDown_tail (lt := lt) p hk (hod rfl)
    exact ⟨s2, by simpa using hrun, hQ s2 q⟩
  | false =>
    obtain ⟨s2, hrun, q⟩ := heapUp_tail (lt := lt) p hk (hou rfl)
    exact ⟨s2, by simpa using hrun, hQ s2 q⟩

theorem remove_tail (s1 : HH) (k : Nat) (down : Bool) (Q : HH → Prop) (p : Pre s1) (hk : InR s1.count k)
    (hod : down = true → DownOrd lt s1.tag s1.count k) (hou : down = false → UpOrd lt s1.tag s1.count k)
    (hQ : ∀ s2, Post lt s1 s2 → Q s2) :
    ∃ s2, (do let s2 ← (if down = true then heapDown lt s1 k else heapUp lt s1 k)
              Except.ok (s2, true)) = .ok (s2, true) ∧ Q s2 := by
  obtain ⟨s2, hrun, q⟩ := sift_either (lt := lt) s1 k down Q p hk hod hou hQ
  rw [hrun]
  exact ⟨s2, rfl, q⟩

omit sw in
/-- `remove` of a key that no live entry carries changes nothing -/
theorem remove_absent {s : HH} (hwf : WF lt s) {key : Nat} (hk0 : key ≠ 0)
    (habs : ∀ i, InR s.count i → (s.tag i).key ≠ key) : remove lt s key = .ok (s, false) := by
  obtain ⟨he1, he31, hei1, hei2, hsz, hhs, hc, w, ho⟩ := (WF_iff lt s).1 hwf
  unfold remove
  rw [if_neg hk0]
  split
  · rfl
  · rw [findIndex_absent s hhs (by omega) w key habs]
    rfl

/-- `remove` of the key of live entry `i` removes exactly that entry -/
theorem remove_present {s : HH} (hwf : WF lt s) {i : Nat} (hi : InR s.count i) :
    ∃ s', remove lt s (s.tag i).key = .ok (s', true) ∧ WF lt s' ∧ s'.count = s.count - 1 ∧
      s'.exp = s.exp ∧ s'.expInit = s.expInit ∧ s'.counter = s.counter ∧
      ∀ x, Live s'.tag s'.count x ↔ LiveExcept s.tag s.count i x := by
  obtain ⟨he1, he31, hei1, hei2, hsz, hhs, hc, w, ho⟩ := (WF_iff lt s).1 hwf
  have hi1 := hi.1; have hi2 := hi.2
  have hcr : InR s.count s.count := ⟨by omega, Nat.le_refl _⟩
  have bi := w.back i hi
  have bc := w.back _ hcr
  rw [HH.tag_eq] at bi bc
  have hi0 : i ≠ 0 := by omega
  unfold remove
  rw [if_neg (w.keyOk i hi).1, if_neg (by omega), findIndex_live s hhs (by omega) w hi, ok_bind, if_neg hi0]
  rw [HH.tag_eq]
  dsimp only
  rw [rdHeap_ok (by omega), ok_bind, setIdx_ok (by omega), ok_bind]
  by_cases hic : i = s.count
  · rw [if_pos hic]
    subst hic
    have w1 := w.removeLast (by omega : 1 ≤ s.count)
    rw [HH.tag_eq, HH.slot_eq] at w1
    refine ⟨_, rfl, ?_, rfl, rfl, rfl, rfl, ?_⟩
    · rw [WF_iff]
      refine ⟨he1, he31, hei1, hei2, hsz, by simp [hhs], (by show s.count - 1 ≤ 2 ^ s.exp; omega), ?_,
        ho.shrink (Nat.sub_le _ _)⟩
      show WFS (tg _) (sl _) (InR (s.count - 1)) s.exp
      rw [sl_set]
      exact w1
    · intro x
      exact Live.removeLast (by omega) x
  · rw [if_neg hic, rdHeap_ok (by omega), ok_bind, wrHeap_ok (by omega), ok_bind,
      setIdx_ok (by simp; omega), ok_bind]
    have w1 := w.removeAt hi hic
    rw [HH.tag_eq, HH.slot_eq] at w1
    have hk' : InR (s.count - 1) i := ⟨hi1, by omega⟩
    apply remove_tail
    · refine ⟨he1, he31, hei1, hei2, by simp [hsz], by simp [hhs], (by show s.count - 1 ≤ 2 ^ s.exp; omega), ?_⟩
      show WFS (tg _) (sl _) (InR (s.count - 1)) s.exp
      rw [tg_set, sl_set, sl_set]
      exact w1
    · exact hk'
    · intro hdown
      show DownOrd lt (tg _) (s.count - 1) i
      rw [tg_set]
      apply Ord.replace_down ho (by omega) hk'
      intro h2
      exact lt_D hdown (ho i h2 hi2)
    · intro hup
      show UpOrd lt (tg _) (s.count - 1) i
      rw [tg_set]
      apply Ord.replace_up ho (by omega) hk'
      intro x h2 hc' hx
      have := ho x h2 (by omega)
      rw [hx] at this
      exact lt_B this hup
    · intro s2 q
      refine ⟨q.1, q.2.1, q.2.2.1, q.2.2.2.1, q.2.2.2.2.1, ?_⟩
      intro x
      rw [q.2.2.2.2.2 x]
      show Live (tg _) (s.count - 1) x ↔ _
      rw [tg_set]
      exact Live.removeAt hi hic x

/-- `reprioritize` of the key of live entry `i` changes exactly the sort keys of that entry -/
theorem reprioritize_present {s : HH} (hwf : WF lt s) {i : Nat} (hi : InR s.count i) (d' i' : Int) :
    ∃ s', reprioritize lt s (s.tag i).key d' i' = .ok s' ∧ WF lt s' ∧ s'.count = s.count ∧
      s'.exp = s.exp ∧ s'.expInit = s.expInit ∧ s'.counter = s.counter ∧
      ∀ x, Live s'.tag s'.count x ↔ Live (upd s.tag i { s.tag i with d := d', i := i' }) s.count x := by
  obtain ⟨he1, he31, hei1, hei2, hsz, hhs, hc, w, ho⟩ := (WF_iff lt s).1 hwf
  have hi1 := hi.1; have hi2 := hi.2
  have hi0 : i ≠ 0 := by omega
  unfold reprioritize
  rw [if_neg (w.keyOk i hi).1, findIndex_live s hhs (by omega) w hi, ok_bind, if_neg hi0]
  rw [HH.tag_eq] at ho ⊢
  dsimp only
  rw [rdHeap_ok (by omega), ok_bind, wrHeap_ok (by omega), ok_bind, wrHeap_ok (by simp; omega), ok_bind]
  have hT1 : ∀ j, 1 ≤ j →
      upd (upd (tg s.heap) 0 (tg s.heap i)) i { tg s.heap i with d := d', i := i' } j =
      upd (tg s.heap) i { tg s.heap i with d := d', i := i' } j := by
    intro j hj
    by_cases h : j = i
    · simp [h]
    · have : j ≠ 0 := by omega
      simp [h, this]
  apply sift_either
  · refine ⟨he1, he31, hei1, hei2, by simp [hsz], hhs, hc, ?_⟩
    show WFS (tg _) (sl _) (InR s.count) s.exp
    rw [tg_set, tg_set]
    apply w.congr (fun _ => Iff.rfl) _ (fun _ _ => rfl)
    intro j hj
    rw [hT1 j hj.1, HH.tag_eq]
    by_cases h : j = i
    · subst h; simp
    · simp [h]
  · exact hi
  · intro hdown
    show DownOrd lt (tg _) s.count i
    rw [tg_set, tg_set]
    apply DownOrd.congr _ (fun j hj _ => hT1 j hj)
    apply Ord.replace_down ho (Nat.le_refl _) hi
    intro h2
    exact lt_D hdown (ho i h2 hi2)
  · intro hup
    show UpOrd lt (tg _) s.count i
    rw [tg_set, tg_set]
    apply UpOrd.congr _ (fun j hj _ => hT1 j hj)
    apply Ord.replace_up ho (Nat.le_refl _) hi
    intro x h2 hc' hx
    have := ho x h2 hc'
    rw [hx] at this
    exact lt_B this hup
  · intro s2 q
    refine ⟨q.1, q.2.1, q.2.2.1, q.2.2.2.1, q.2.2.2.2.1, ?_⟩
    intro x
    rw [q.2.2.2.2.2 x]
    show Live (tg _) s.count x ↔ _
    rw [tg_set, tg_set]
    exact Live.congr (fun j hj _ => hT1 j hj) x

/-- `enqueue` after the capacity check and the optional growth -/
def enqueueCore (lt : Order) (s : HH) (it : Item) (key : Nat) (d i : Int) : Except Fault (HH × Nat) := do
  let hc := s.count + 1
  let counter := s.counter + 1
  let key := if key = 0 then counter else key
  let heap ← wrHeap s.heap hc { key := key, hidx := 0, item := it, d := d, i := i }
  let idx ← findSlot s.hash s.exp key
  let hash ← wrHash s.hash idx { key := key, idx := hc }
  let heap ← setHidx heap hc idx
  let s' ← heapUp lt { s with heap := heap, hash := hash, count := hc, counter := counter } hc
  .ok (s', key)

omit sw in
theorem enqueue_eq (s : HH) (it : Item) (key : Nat) (d i : Int) :
    enqueue lt s it key d i =
      if 2 ^ s.exp < s.count then .error (.assert 408)
      else (if s.count = 2 ^ s.exp then grow s else pure s) >>= fun s => enqueueCore lt s it key d i := rfl

theorem enqueue_tail (s1 : HH) (k key : Nat) (Q : HH → Prop) (p : Pre s1) (hk : InR s1.count k)
    (ho : UpOrd lt s1.tag s1.count k) (hQ : ∀ s2, Post lt s1 s2 → Q s2) :
    ∃ s2, (do let s' ← heapUp lt s1 k
              Except.ok (s', key)) = .ok (s2, key) ∧ Q s2 := by
  obtain ⟨s2, hrun, q⟩ := heapUp_tail (lt := lt) p hk ho
  rw [hrun]
  exact ⟨s2, rfl, hQ s2 q⟩

/-- `enqueue` into a well-formed heap with room for one more entry -/
theorem enqueueCore_spec {s : HH} (hwf : WF lt s) (hroom : s.count < 2 ^ s.exp) (it : Item) (key : Nat)
    (d i : Int) (k' : Nat) (hk' : k' = if key = 0 then s.counter + 1 else key)
    (hk0 : k' ≠ 0) (hk64 : k' < 2 ^ 64) (hfresh : ∀ j, InR s.count j → (s.tag j).key ≠ k') :
    ∃ p s', enqueueCore lt s it key d i = .ok (s', k') ∧ WF lt s' ∧ s'.count = s.count + 1 ∧
      s'.exp = s.exp ∧ s'.expInit = s.expInit ∧ s'.counter = s.counter + 1 ∧
      ∀ x, Live s'.tag s'.count x ↔
        (Live s.tag s.count x ∨ x = { key := k', hidx := p, item := it, d := d, i := i }) := by
  obtain ⟨he1, he31, hei1, hei2, hsz, hhs, hc, w, ho⟩ := (WF_iff lt s).1 hwf
  have hpow : 2 ^ (s.exp + 1) = 2 * 2 ^ s.exp := by rw [Nat.pow_succ]; omega
  obtain ⟨p, hp, hfind, hfree, hchain⟩ := findSlot_spec s.hash s.exp k' hhs (by omega)
    (w.exists_free s.count (fun i hi => hi.2) (by omega))
  unfold enqueueCore
  dsimp only
  rw [← hk', wrHeap_ok (by omega), ok_bind, hfind, ok_bind, wrHash_ok (by omega), ok_bind,
    setHidx_ok (by simp; omega), ok_bind]
  have hnew : InR (s.count + 1) (s.count + 1) := ⟨by omega, Nat.le_refl _⟩
  have w1 := w.insert (by omega) (a := s.count + 1) (p := p)
    { key := k', hidx := p, item := it, d := d, i := i } (fun h => by have := h.2; omega) (by omega)
    ⟨hk0, hk64⟩ hfresh hp rfl hfree hchain
  have hT1 : ∀ j, upd (upd (tg s.heap) (s.count + 1) { key := k', hidx := 0, item := it, d := d, i := i })
        (s.count + 1)
        { upd (tg s.heap) (s.count + 1) { key := k', hidx := 0, item := it, d := d, i := i } (s.count + 1)
            with hidx := p } j =
      upd (tg s.heap) (s.count + 1) { key := k', hidx := p, item := it, d := d, i := i } j := by
    intro j
    by_cases h : j = s.count + 1
    · simp [h]
    · simp [h]
  refine ⟨p, ?_⟩
  apply enqueue_tail
  · refine ⟨he1, he31, hei1, hei2, by simp [hsz], by simp [hhs], (by show s.count + 1 ≤ 2 ^ s.exp; omega), ?_⟩
    show WFS (tg _) (sl _) (InR (s.count + 1)) s.exp
    rw [tg_set, tg_set, sl_set]
    apply w1.congr
    · intro j; unfold InR; omega
    · intro j _; rw [hT1 j]; exact ⟨rfl, rfl⟩
    · intro _ _; rfl
  · exact hnew
  · show UpOrd lt (tg _) (s.count + 1) (s.count + 1)
    rw [tg_set, tg_set]
    constructor
    · intro x h2 hc' hx
      rw [hT1 x, hT1 (x / 2)]
      have h1 : x ≠ s.count + 1 := hx
      have h3 : x / 2 ≠ s.count + 1 := by omega
      simp [h1, h3]
      exact ho x h2 (by omega)
    · intro x h2 hc' hx; omega
  · intro s2 q
    refine ⟨q.1, q.2.1, q.2.2.1, q.2.2.2.1, q.2.2.2.2.1, ?_⟩
    intro x
    rw [q.2.2.2.2.2 x]
    show Live (tg _) (s.count + 1) x ↔ _
    rw [tg_set, tg_set, Live.congr (fun j _ _ => hT1 j) x]
    constructor
    · rintro ⟨j, h1, h2, rfl⟩
      by_cases h : j = s.count + 1
      · right; simp [h]
      · left; exact ⟨j, h1, by omega, by simp [h]; rfl⟩
    · rintro (⟨j, h1, h2, rfl⟩ | rfl)
      · have h : j ≠ s.count + 1 := by omega
        exact ⟨j, h1, by omega, by simp [h]; rfl⟩
      · exact ⟨s.count + 1, by omega, Nat.le_refl _, by simp⟩

end CimbaModel.HashHeap
