/-
  The documented orders of the library's five keyed priority queues, written from the
  documentation (not from the code): the specifications the regenerated C functions are proved
  equal to.  Core Lean only (linked into the monitor driver).
-/
import CimbaModel.HashHeap.Model

namespace CimbaModel.HashHeap.SpecOrders
open CimbaModel.HashHeap

/-- event queue: time ascending, priority descending, key (handle) ascending -/
def eventLt (a b : HTag) : Prop :=
  a.d < b.d ∨ (a.d = b.d ∧ (a.i > b.i ∨ (a.i = b.i ∧ a.key < b.key)))

/-- waiting lists: priority descending, entry time ascending, key ascending -/
def guardLt (a b : HTag) : Prop :=
  a.i > b.i ∨ (a.i = b.i ∧ (a.d < b.d ∨ (a.d = b.d ∧ a.key < b.key)))

/-- pool holders: priority ascending (lowest first, the preemption victims), key descending -/
def holderLt (a b : HTag) : Prop :=
  a.i < b.i ∨ (a.i = b.i ∧ a.key > b.key)

/-- object priority queue: priority descending, key (put order) ascending -/
def pqLt (a b : HTag) : Prop :=
  a.i > b.i ∨ (a.i = b.i ∧ a.key < b.key)

def defaultLt (a b : HTag) : Prop := a.d < b.d

instance (a b : HTag) : Decidable (eventLt a b) := by unfold eventLt; infer_instance
instance (a b : HTag) : Decidable (guardLt a b) := by unfold guardLt; infer_instance
instance (a b : HTag) : Decidable (holderLt a b) := by unfold holderLt; infer_instance
instance (a b : HTag) : Decidable (pqLt a b) := by unfold pqLt; infer_instance
instance (a b : HTag) : Decidable (defaultLt a b) := by unfold defaultLt; infer_instance

def eventB : Order := fun a b => decide (eventLt a b)
def guardB : Order := fun a b => decide (guardLt a b)
def holderB : Order := fun a b => decide (holderLt a b)
def pqB : Order := fun a b => decide (pqLt a b)
def defaultB : Order := fun a b => decide (defaultLt a b)

end CimbaModel.HashHeap.SpecOrders
