/-
  Concrete model of src/cmi_hashheap.c, statement by statement (DESIGN.md §3.2).

  heap : array of 2^exp + 2 tags; slot 0 = scratch of dequeue, slots 1..count = the binary
         heap, slot count+1 = working copy of the sift loops.
  hash : open-addressing map of 2^(exp+1) slots (key, heap index); key = 0 never used,
         key ≠ 0 ∧ idx = 0 tombstone.

  Every array access is bounds-checked (`Except Fault`), every `cmb_assert_release` is a
  `Fault.assert`.  Core Lean only: this file is linked into the compiled driver.
-/
import CimbaModel.Basic.Fault

namespace CimbaModel.HashHeap

/-- the four payload words `item[0..3]` -/
structure Item where
  a : Nat := 0
  b : Nat := 0
  c : Nat := 0
  d : Nat := 0
  deriving DecidableEq, Repr, Inhabited

/-- `struct cmi_heap_tag`; `d`/`i` are `dsortkey`/`isortkey` (times are modelled as integers) -/
structure HTag where
  key : Nat := 0
  hidx : Nat := 0
  item : Item := {}
  d : Int := 0
  i : Int := 0
  deriving DecidableEq, Repr, Inhabited

/-- `struct cmi_hash_tag` -/
structure HSlot where
  key : Nat := 0
  idx : Nat := 0
  deriving DecidableEq, Repr, Inhabited

abbrev Order := HTag → HTag → Bool

structure HH where
  heap : Array HTag
  hash : Array HSlot
  count : Nat
  exp : Nat
  expInit : Nat
  counter : Nat
  deriving Repr

/-- `CMI_ANY_ITEM` -/
def anyItem : Nat := 2 ^ 64 - 1

/-- `UINT32_MAX / 2` -/
def growBound : Nat := 2147483647

/-! ### bounds-checked accessors -/

@[inline] def rdHeap (h : Array HTag) (i : Nat) : Except Fault HTag :=
  if hi : i < h.size then .ok h[i] else .error (.heapOob i)

@[inline] def wrHeap (h : Array HTag) (i : Nat) (t : HTag) : Except Fault (Array HTag) :=
  if hi : i < h.size then .ok (h.set i t) else .error (.heapOob i)

@[inline] def rdHash (h : Array HSlot) (i : Nat) : Except Fault HSlot :=
  if hi : i < h.size then .ok h[i] else .error (.hashOob i)

@[inline] def wrHash (h : Array HSlot) (i : Nat) (t : HSlot) : Except Fault (Array HSlot) :=
  if hi : i < h.size then .ok (h.set i t) else .error (.hashOob i)

/-- `hash[j].heap_index = v` -/
@[inline] def setIdx (h : Array HSlot) (j v : Nat) : Except Fault (Array HSlot) := do
  let s ← rdHash h j
  wrHash h j { s with idx := v }

/-- `heap[j].hash_index = v` -/
@[inline] def setHidx (h : Array HTag) (j v : Nat) : Except Fault (Array HTag) := do
  let t ← rdHeap h j
  wrHeap h j { t with hidx := v }

/-! ### hashing -/

def fibMult : Nat := 11400714819323198485

/-- `hash_key`: `(key * C) >> (64 - (exp + 1))` in 64-bit arithmetic -/
def hashKey (exp key : Nat) : Nat := ((key * fibMult) % 2 ^ 64) >>> (64 - (exp + 1))

/-- `cmi_hash_find_index`: loop body; `fuel` = slots still to visit (the C loop stops when it
    has wrapped around to its starting slot, i.e. after exactly `hash_size` probes). -/
def findIndexLoop (hs : Array HSlot) (key : Nat) : (fuel : Nat) → (pos : Nat) → Except Fault Nat
  | 0, _ => .ok 0
  | fuel + 1, pos => do
    let s ← rdHash hs pos
    if s.key = key then .ok s.idx
    else if s.key = 0 then .ok 0
    else findIndexLoop hs key fuel ((pos + 1) % hs.size)

def findIndex (s : HH) (key : Nat) : Except Fault Nat :=
  findIndexLoop s.hash key s.hash.size (hashKey s.exp key)

/-- `hash_find_slot`: first slot with `heap_index = 0`; the C loop has no exit, running out of
    fuel is the model's rendering of "loops forever". -/
def findSlotLoop (hs : Array HSlot) : (fuel : Nat) → (pos : Nat) → Except Fault Nat
  | 0, _ => .error .noFreeSlot
  | fuel + 1, pos => do
    let s ← rdHash hs pos
    if s.idx = 0 then .ok pos
    else findSlotLoop hs fuel ((pos + 1) % hs.size)

def findSlot (hs : Array HSlot) (exp key : Nat) : Except Fault Nat :=
  findSlotLoop hs hs.size (hashKey exp key)

/-! ### sift loops -/

/-- the `while` loop of `heap_up`; returns the final hole position -/
def heapUpLoop (lt : Order) (iwc : Nat) (heap : Array HTag) (hash : Array HSlot) (k : Nat) :
    Except Fault (Array HTag × Array HSlot × Nat) :=
  if h : 0 < k / 2 then do
    let l := k / 2
    let w ← rdHeap heap iwc
    let p ← rdHeap heap l
    if lt w p then
      let heap ← wrHeap heap k p
      let hash ← setIdx hash p.hidx k
      heapUpLoop lt iwc heap hash l
    else .ok (heap, hash, k)
  else .ok (heap, hash, k)
termination_by k
decreasing_by omega

def heapUp (lt : Order) (s : HH) (k : Nat) : Except Fault HH := do
  let iwc := s.count + 1
  let t ← rdHeap s.heap k
  let heap ← wrHeap s.heap iwc t
  let (heap, hash, k') ← heapUpLoop lt iwc heap s.hash k
  let w ← rdHeap heap iwc
  let heap ← wrHeap heap k' w
  let hash ← setIdx hash w.hidx k'
  .ok { s with heap := heap, hash := hash }

/-- the `while (k <= j)` loop of `heap_down` -/
def heapDownLoop (lt : Order) (count iwc : Nat) (heap : Array HTag) (hash : Array HSlot) (k : Nat) :
    Except Fault (Array HTag × Array HSlot × Nat) :=
  if h : 0 < k ∧ k ≤ count / 2 then do
    let l := 2 * k
    let r := l + 1
    let tl ← rdHeap heap l
    let useR ← (if r ≤ count then do
                  let tr ← rdHeap heap r
                  pure (lt tr tl)
                else pure false)
    let l := if useR then r else l
    let w ← rdHeap heap iwc
    let c ← rdHeap heap l
    if lt w c then .ok (heap, hash, k)
    else
      let heap ← wrHeap heap k c
      let hash ← setIdx hash c.hidx k
      heapDownLoop lt count iwc heap hash l
  else .ok (heap, hash, k)
termination_by count - k
decreasing_by all_goals (split <;> omega)

def heapDown (lt : Order) (s : HH) (k : Nat) : Except Fault HH := do
  let iwc := s.count + 1
  let t ← rdHeap s.heap k
  let heap ← wrHeap s.heap iwc t
  let (heap, hash, k') ← heapDownLoop lt s.count iwc heap s.hash k
  let w ← rdHeap heap iwc
  let heap ← wrHeap heap k' w
  let hash ← setIdx hash w.hidx k'
  .ok { s with heap := heap, hash := hash }

/-! ### growth -/

/-- `hash_rehash`: copy the live entries of the old map into the (zeroed) new one -/
def rehashLoop (exp : Nat) (old : Array HSlot) :
    (n : Nat) → (ui : Nat) → Array HTag → Array HSlot → Except Fault (Array HTag × Array HSlot)
  | 0, _, heap, hash => .ok (heap, hash)
  | n + 1, ui, heap, hash => do
    let o ← rdHash old ui
    if o.key ≠ 0 ∧ o.idx ≠ 0 then
      let slot ← findSlot hash exp o.key
      let hash ← wrHash hash slot { key := o.key, idx := o.idx }
      let heap ← setHidx heap o.idx slot
      rehashLoop exp old n (ui + 1) heap hash
    else rehashLoop exp old n (ui + 1) heap hash

/-- `hashheap_grow` -/
def grow (s : HH) : Except Fault HH := do
  if growBound ≤ 2 ^ s.exp then .error .growLimit
  else
    let exp := s.exp + 1
    let heap := s.heap ++ Array.replicate (2 ^ exp + 2 - s.heap.size) ({} : HTag)
    let hash0 : Array HSlot := Array.replicate (2 ^ (exp + 1)) {}
    let (heap, hash) ← rehashLoop exp s.hash s.hash.size 0 heap hash0
    .ok { s with exp := exp, heap := heap, hash := hash }

/-! ### the public operations -/

/-- `cmi_hashheap_initialize` (on a zeroed struct from `cmi_hashheap_create`) -/
def init (e : Nat) : Except Fault HH :=
  if e = 0 then .error (.assert 305)
  else .ok { heap := Array.replicate (2 ^ e + 2) {}, hash := Array.replicate (2 ^ (e + 1)) {},
             count := 0, exp := e, expInit := e, counter := 0 }

/-- `cmi_hashheap_clear` -/
def clear (s : HH) : HH :=
  { s with heap := Array.replicate s.heap.size {}, hash := Array.replicate s.hash.size {}, count := 0 }

/-- `cmi_hashheap_reset` = terminate + initialize with the initial exponent; the item counter survives -/
def reset (s : HH) : Except Fault HH := do
  let s' ← init s.expInit
  .ok { s' with counter := s.counter }

/-- `cmi_hashheap_enqueue`; returns the new state and the key actually used -/
def enqueue (lt : Order) (s : HH) (it : Item) (key : Nat) (d i : Int) : Except Fault (HH × Nat) := do
  if 2 ^ s.exp < s.count then .error (.assert 408)
  else
    let s ← (if s.count = 2 ^ s.exp then grow s else pure s)
    let hc := s.count + 1
    let counter := s.counter + 1
    let key := if key = 0 then counter else key
    let heap ← wrHeap s.heap hc { key := key, hidx := 0, item := it, d := d, i := i }
    let idx ← findSlot s.hash s.exp key
    let hash ← wrHash s.hash idx { key := key, idx := hc }
    let heap ← setHidx heap hc idx
    let s' ← heapUp lt { s with heap := heap, hash := hash, count := hc, counter := counter } hc
    .ok (s', key)

/-- `cmi_hashheap_dequeue`; returns the dequeued tag (a copy of scratch slot 0) -/
def dequeue (lt : Order) (s : HH) : Except Fault (HH × Option HTag) := do
  if s.count = 0 then .ok (s, none)
  else
    let t ← rdHeap s.heap 1
    let heap ← wrHeap s.heap 0 t
    let hash ← setIdx s.hash t.hidx 0
    if 1 < s.count then
      let last ← rdHeap heap s.count
      let heap ← wrHeap heap 1 last
      let hash ← setIdx hash last.hidx 1
      let s1 : HH := { s with heap := heap, hash := hash, count := s.count - 1 }
      let s2 ← (if 1 < s1.count then heapDown lt s1 1 else pure s1)
      .ok (s2, some t)
    else
      .ok ({ s with heap := heap, hash := hash, count := 0 }, some t)

/-- `cmi_hashheap_remove` -/
def remove (lt : Order) (s : HH) (key : Nat) : Except Fault (HH × Bool) := do
  if key = 0 then .error (.assert 504)
  else if s.count = 0 then .ok (s, false)
  else
    let hi ← findIndex s key
    if hi = 0 then .ok (s, false)
    else
      let a ← rdHeap s.heap hi
      let hash ← setIdx s.hash a.hidx 0
      if hi = s.count then
        .ok ({ s with hash := hash, count := s.count - 1 }, true)
      else
        let b ← rdHeap s.heap s.count
        let down := lt a b
        let heap ← wrHeap s.heap hi b
        let hash ← setIdx hash b.hidx hi
        let s1 : HH := { s with heap := heap, hash := hash, count := s.count - 1 }
        let s2 ← (if down then heapDown lt s1 hi else heapUp lt s1 hi)
        .ok (s2, true)

/-- common part of `cmi_hashheap_item/dkey/ikey`: the tag of a key that must be present -/
def lookup (s : HH) (key : Nat) : Except Fault HTag := do
  if key = 0 then .error (.assert 555)
  else
    let hi ← findIndex s key
    if hi = 0 then .error (.assert 560)
    else rdHeap s.heap hi

/-- `cmi_hashheap_is_enqueued` -/
def isEnqueued (s : HH) (key : Nat) : Except Fault Bool := do
  if s.count = 0 then .ok false
  else
    let hi ← findIndex s key
    .ok (hi ≠ 0)

/-- `cmi_hashheap_reprioritize` -/
def reprioritize (lt : Order) (s : HH) (key : Nat) (d i : Int) : Except Fault HH := do
  if key = 0 then .error (.assert 608)
  else
    let hi ← findIndex s key
    if hi = 0 then .error (.assert 614)
    else
      let old ← rdHeap s.heap hi
      let heap ← wrHeap s.heap 0 old
      let new : HTag := { old with d := d, i := i }
      let heap ← wrHeap heap hi new
      let s1 : HH := { s with heap := heap }
      if lt old new then heapDown lt s1 hi else heapUp lt s1 hi

/-- `cmi_hashheap_peek_item` (and `peek_dkey/ikey`, which additionally assert non-emptiness) -/
def peek (s : HH) : Except Fault (Option HTag) := do
  if s.count = 0 then .ok none
  else
    let t ← rdHeap s.heap 1
    .ok (some t)

/-- `item_match` -/
def itemMatch (t : HTag) (p : Item) : Bool :=
  !( (p.a ≠ t.item.a ∧ p.a ≠ anyItem) ∨ (p.b ≠ t.item.b ∧ p.b ≠ anyItem)
   ∨ (p.c ≠ t.item.c ∧ p.c ≠ anyItem) ∨ (p.d ≠ t.item.d ∧ p.d ≠ anyItem) )

/-- the tags in heap-array order, slots 1..count -/
def liveTags (s : HH) : List HTag :=
  (List.range s.count).map fun j => s.heap.getD (j + 1) {}

/-- `cmi_hashheap_pattern_find`: key of the first match in heap-array order, 0 if none -/
def patternFind (s : HH) (p : Item) : Nat :=
  match (liveTags s).find? (itemMatch · p) with
  | some t => t.key
  | none => 0

/-- `cmi_hashheap_pattern_count` -/
def patternCount (s : HH) (p : Item) : Nat :=
  ((liveTags s).filter (itemMatch · p)).length

def removeAll (lt : Order) : HH → List Nat → Except Fault HH
  | s, [] => .ok s
  | s, k :: ks => do
    let (s', _) ← remove lt s k
    removeAll lt s' ks

/-- `cmi_hashheap_pattern_cancel`: two passes, as in the C code -/
def patternCancel (lt : Order) (s : HH) (p : Item) : Except Fault (HH × Nat) := do
  let keys := ((liveTags s).filter (itemMatch · p)).map (·.key)
  let s' ← removeAll lt s keys
  .ok (s', keys.length)

end CimbaModel.HashHeap
