/-
  The five ordering functions of the library, as regenerated from the C sources
  (Generated/Orders.lean), characterised as the documented lexicographic orders.
  The proofs are written to survive harmless rewrites of the C code: they only unfold the
  generated definition and split on its conditions.
-/
import CimbaModel.Basic.Order
import CimbaModel.Generated.Orders
import CimbaModel.HashHeap.SpecOrders

namespace CimbaModel.HashHeap.Orders
open CimbaModel CimbaModel.HashHeap CimbaModel.Generated CimbaModel.HashHeap.SpecOrders

theorem heap_order_check_iff (a b : HTag) : heap_order_check a b = true ↔ eventLt a b := by
  unfold heap_order_check eventLt
  repeat' split
  all_goals simp_all
  all_goals omega

theorem holder_queue_check_iff (a b : HTag) : holder_queue_check a b = true ↔ holderLt a b := by
  unfold holder_queue_check holderLt
  repeat' split
  all_goals simp_all
  all_goals omega

theorem compare_func_iff (a b : HTag) : compare_func a b = true ↔ pqLt a b := by
  unfold compare_func pqLt
  repeat' split
  all_goals simp_all
  all_goals omega

theorem default_order_check_iff (a b : HTag) : default_order_check a b = true ↔ defaultLt a b := by
  unfold default_order_check defaultLt
  simp

/-! ### order axioms, derived from the characterisations only -/

private theorem bfalse {lt : Order} {P : HTag → HTag → Prop} (h : ∀ a b, lt a b = true ↔ P a b) (a b : HTag) :
    lt a b = false ↔ ¬ P a b := by
  rw [← h a b]; cases lt a b <;> simp

instance : TotalOnKeys heap_order_check where
  irrefl a := by rw [bfalse heap_order_check_iff]; unfold eventLt; omega
  trans a b c := by simp only [heap_order_check_iff]; unfold eventLt; omega
  negTrans a b c := by simp only [bfalse heap_order_check_iff]; unfold eventLt; omega
  total a b := by simp only [heap_order_check_iff]; unfold eventLt; omega

instance : TotalOnKeys holder_queue_check where
  irrefl a := by rw [bfalse holder_queue_check_iff]; unfold holderLt; omega
  trans a b c := by simp only [holder_queue_check_iff]; unfold holderLt; omega
  negTrans a b c := by simp only [bfalse holder_queue_check_iff]; unfold holderLt; omega
  total a b := by simp only [holder_queue_check_iff]; unfold holderLt; omega

instance : TotalOnKeys compare_func where
  irrefl a := by rw [bfalse compare_func_iff]; unfold pqLt; omega
  trans a b c := by simp only [compare_func_iff]; unfold pqLt; omega
  negTrans a b c := by simp only [bfalse compare_func_iff]; unfold pqLt; omega
  total a b := by simp only [compare_func_iff]; unfold pqLt; omega

instance : StrictWeak default_order_check where
  irrefl a := by rw [bfalse default_order_check_iff]; unfold defaultLt; omega
  trans a b c := by simp only [default_order_check_iff]; unfold defaultLt; omega
  negTrans a b c := by simp only [bfalse default_order_check_iff]; unfold defaultLt; omega

theorem bfalse_of_iff {lt : Order} {P : HTag → HTag → Prop} (h : ∀ a b, lt a b = true ↔ P a b) (a b : HTag) :
    lt a b = false ↔ ¬ P a b := bfalse h a b

/-! ### none of the ordering functions looks at the hash back-pointer -/

theorem ignoresHidx_of_iff {lt : Order} {P : HTag → HTag → Prop} (h : ∀ a b, lt a b = true ↔ P a b)
    (hP : ∀ (a b : HTag) (x y : Nat), P { a with hidx := x } { b with hidx := y } ↔ P a b) : IgnoresHidx lt := by
  constructor
  intro a b x y
  rw [Bool.eq_iff_iff, h, h]
  exact hP a b x y

instance : IgnoresHidx heap_order_check := ignoresHidx_of_iff heap_order_check_iff (fun _ _ _ _ => Iff.rfl)
instance : IgnoresHidx holder_queue_check := ignoresHidx_of_iff holder_queue_check_iff (fun _ _ _ _ => Iff.rfl)
instance : IgnoresHidx compare_func := ignoresHidx_of_iff compare_func_iff (fun _ _ _ _ => Iff.rfl)
instance : IgnoresHidx default_order_check := ignoresHidx_of_iff default_order_check_iff (fun _ _ _ _ => Iff.rfl)

end CimbaModel.HashHeap.Orders
