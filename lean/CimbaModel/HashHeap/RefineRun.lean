/-
  Refinement proof of the hashheap, part 10: arbitrary operation sequences.  `run` executes a list
  of operations on the concrete model; `PreAll` states the documented precondition of each operation
  at the state it is applied to.  Every state reached is well-formed and no operation faults,
  across any number of capacity doublings.
-/
import CimbaModel.HashHeap.RefinePattern

namespace CimbaModel.HashHeap
open CimbaModel CimbaModel.KPQ

/-- the public operations of the hashheap -/
inductive Op where
  | enqueue (it : Item) (k : Nat) (d i : Int)
  | dequeue
  | remove (k : Nat)
  | reprio (k : Nat) (d i : Int)
  | cancel (p : Item)
  | clear
  | reset
  | lookup (k : Nat)
  | isEnqueued (k : Nat)
  | peek
  | find (p : Item)
  | count (p : Item)

/-- one operation on the concrete model (results dropped; a fault of the operation is a fault of the step) -/
def step (lt : Order) (s : HH) : Op → Except Fault HH
  | .enqueue it k d i => do let (s', _) ← enqueue lt s it k d i; pure s'
  | .dequeue => do let (s', _) ← dequeue lt s; pure s'
  | .remove k => do let (s', _) ← remove lt s k; pure s'
  | .reprio k d i => reprioritize lt s k d i
  | .cancel p => do let (s', _) ← patternCancel lt s p; pure s'
  | .clear => pure (clear s)
  | .reset => reset s
  | .lookup k => do let _ ← lookup s k; pure s
  | .isEnqueued k => do let _ ← isEnqueued s k; pure s
  | .peek => do let _ ← peek s; pure s
  | .find _ => pure s
  | .count _ => pure s

/-- the documented precondition of an operation, in terms of the abstract queue -/
def OpPre (s : HH) : Op → Prop
  | .enqueue _ k _ _ =>
      (if k = 0 then s.counter + 1 else k) ≠ 0 ∧ (if k = 0 then s.counter + 1 else k) < 2 ^ 64 ∧
      (if k = 0 then s.counter + 1 else k) ∉ keys (abs s) ∧ (s.count < 2 ^ s.exp ∨ s.exp < 31)
  | .remove k => k ≠ 0
  | .reprio k _ _ => k ∈ keys (abs s)
  | .lookup k => k ∈ keys (abs s)
  | .isEnqueued k => k ≠ 0
  | _ => True

def run (lt : Order) : HH → List Op → Except Fault HH
  | s, [] => pure s
  | s, op :: ops => do let s' ← step lt s op; run lt s' ops

/-- every operation of the sequence is applied in a state satisfying its precondition -/
def PreAll (lt : Order) : HH → List Op → Prop
  | _, [] => True
  | s, op :: ops => OpPre s op ∧ ∀ s', step lt s op = .ok s' → PreAll lt s' ops

variable {lt : Order} [StrictWeak lt] [IgnoresHidx lt]

theorem step_WF {s : HH} (h : WF lt s) (op : Op) (hpre : OpPre s op) : ∃ s', step lt s op = .ok s' ∧ WF lt s' := by
  cases op with
  | enqueue it k d i =>
    obtain ⟨s', hrun, hwf, _⟩ := enqueue_abs h it k d i hpre.1 hpre.2.1 hpre.2.2.1 hpre.2.2.2
    exact ⟨s', by simp [step, hrun], hwf⟩
  | dequeue =>
    by_cases hc : s.count = 0
    · exact ⟨s, by simp [step, dequeue, hc], h⟩
    · obtain ⟨s', hrun, hwf, _⟩ := dequeue_abs h (by omega : 0 < s.count)
      exact ⟨s', by simp [step, hrun], hwf⟩
  | remove k =>
    obtain ⟨s', hrun, hwf, _⟩ := remove_abs h k hpre
    exact ⟨s', by simp [step, hrun], hwf⟩
  | reprio k d i =>
    obtain ⟨s', hrun, hwf, _⟩ := reprio_abs h hpre d i
    exact ⟨s', by simp [step, hrun], hwf⟩
  | cancel p =>
    obtain ⟨s', hrun, hwf, _⟩ := patternCancel_abs h p
    exact ⟨s', by simp [step, hrun], hwf⟩
  | clear => exact ⟨clear s, rfl, (clear_spec h).1⟩
  | reset =>
    obtain ⟨s', hrun, hwf, _⟩ := reset_spec h
    exact ⟨s', by simp [step, hrun], hwf⟩
  | lookup k =>
    obtain ⟨t, hrun, _⟩ := lookup_spec h hpre
    exact ⟨s, by simp [step, hrun], h⟩
  | isEnqueued k =>
    exact ⟨s, by simp [step, isEnqueued_spec h k hpre], h⟩
  | peek =>
    by_cases hc : s.count = 0
    · exact ⟨s, by simp [step, peek, hc], h⟩
    · exact ⟨s, by simp [step, peek_spec h (by omega : 0 < s.count)], h⟩
  | find p => exact ⟨s, rfl, h⟩
  | count p => exact ⟨s, rfl, h⟩

theorem run_WF : ∀ (ops : List Op) {s : HH}, WF lt s → PreAll lt s ops → ∃ s', run lt s ops = .ok s' ∧ WF lt s' := by
  intro ops
  induction ops with
  | nil => intro s h _; exact ⟨s, rfl, h⟩
  | cons op ops ih =>
    intro s h hpre
    obtain ⟨s1, hrun1, hwf1⟩ := step_WF h op hpre.1
    obtain ⟨s', hrun, hwf'⟩ := ih hwf1 (hpre.2 s1 hrun1)
    exact ⟨s', by rw [run, hrun1, ok_bind]; exact hrun, hwf'⟩

end CimbaModel.HashHeap
