/-
  Refinement proof of the hashheap, part 5: the sift loops `heapUp` / `heapDown`.
  During a sift the entry being moved lives in the working copy `heap[count+1]` and the heap has
  a hole at `k`.  The *virtual* state (`vT`, `vS`) is the state with the working copy written
  back into the hole; every loop iteration is a swap on the virtual state.
-/
import CimbaModel.HashHeap.RefineOrd

set_option linter.unusedSimpArgs false

namespace CimbaModel.HashHeap
open CimbaModel CimbaModel.KPQ

def vT (Th : Nat → HTag) (c k : Nat) : Nat → HTag := upd Th k (Th (c + 1))
def vS (Th : Nat → HTag) (Sh : Nat → HSlot) (c k : Nat) : Nat → HSlot :=
  upd Sh (Th (c + 1)).hidx { Sh (Th (c + 1)).hidx with idx := k }

theorem virt_step {Th : Nat → HTag} {Sh : Nat → HSlot} {c k l e : Nat}
    (w : WFS (vT Th c k) (vS Th Sh c k) (InR c) e) (hk : InR c k) (hl : InR c l) (hlk : l ≠ k) :
    (Th l).hidx < 2 ^ (e + 1) ∧
    WFS (vT (upd Th k (Th l)) c l)
        (vS (upd Th k (Th l)) (upd Sh (Th l).hidx { Sh (Th l).hidx with idx := k }) c l) (InR c) e ∧
    (∀ i, vT (upd Th k (Th l)) c l i = swapT (vT Th c k) k l i) := by
  have hck : c + 1 ≠ k := by have := hk.2; omega
  have hcl : c + 1 ≠ l := by have := hl.2; omega
  have ek : vT Th c k k = Th (c + 1) := by simp [vT]
  have el : vT Th c k l = Th l := by simp [vT, hlk]
  have bk := w.back k hk
  have bl := w.back l hl
  rw [ek] at bk; rw [el] at bl
  have hne : (Th l).hidx ≠ (Th (c + 1)).hidx := by
    intro h
    have := w.hidx_inj hl hk (by rw [ek, el]; exact h)
    exact hlk this
  have sk : (Sh (Th (c + 1)).hidx).key = (Th (c + 1)).key := by
    have := congrArg HSlot.key bk.2; simpa [vS] using this
  have sl' : Sh (Th l).hidx = ⟨(Th l).key, l⟩ := by
    have := bl.2; simpa [vS, hne] using this
  have hT : ∀ i, vT (upd Th k (Th l)) c l i = swapT (vT Th c k) k l i := by
    intro i
    simp only [vT, swapT_apply, upd_apply, hck, if_false]
    by_cases h1 : i = l
    · simp [h1]
    · by_cases h2 : i = k
      · simp [h2, hlk]
      · simp [h1, h2]
  refine ⟨bl.1, ?_, hT⟩
  have sw := w.swap hk hl (Ne.symm hlk)
  rw [ek, el] at sw
  apply sw.congr (fun _ => Iff.rfl)
  · intro i _; rw [hT i]; unfold swapT; rw [ek, el]; exact ⟨rfl, rfl⟩
  · intro j _
    simp only [vS, upd_apply, hck, if_false]
    by_cases h1 : j = (Th (c + 1)).hidx
    · subst h1
      simp [Ne.symm hne, sk]
    · by_cases h2 : j = (Th l).hidx
      · subst h2; simp [h1, sl']
      · simp [h1, h2]

variable {lt : Order} [sw : StrictWeak lt]

theorem heapUpLoop_spec (c e : Nat) (hce : c ≤ 2 ^ e) :
    ∀ k (heap : Array HTag) (hash : Array HSlot),
      heap.size = 2 ^ e + 2 → hash.size = 2 ^ (e + 1) → InR c k →
      WFS (vT (tg heap) c k) (vS (tg heap) (sl hash) c k) (InR c) e →
      UpOrd lt (vT (tg heap) c k) c k →
      ∃ heap' hash' k', heapUpLoop lt (c + 1) heap hash k = .ok (heap', hash', k') ∧
        heap'.size = 2 ^ e + 2 ∧ hash'.size = 2 ^ (e + 1) ∧ InR c k' ∧
        WFS (vT (tg heap') c k') (vS (tg heap') (sl hash') c k') (InR c) e ∧
        Ord lt (vT (tg heap') c k') c ∧
        (∀ x, Live (vT (tg heap') c k') c x ↔ Live (vT (tg heap) c k) c x) := by
  intro k
  induction k using Nat.strongRecOn with
  | _ k ih =>
    intro heap hash hsz hhs hk w ho
    have hk1 := hk.1; have hk2 := hk.2
    have ek : vT (tg heap) c k k = tg heap (c + 1) := by simp [vT]
    rw [heapUpLoop]
    by_cases h : 0 < k / 2
    · have hl : InR c (k / 2) := ⟨h, by omega⟩
      have hlk : k / 2 ≠ k := by omega
      have el : vT (tg heap) c k (k / 2) = tg heap (k / 2) := by simp [vT, hlk]
      rw [dif_pos h]
      dsimp only
      rw [rdHeap_ok (by omega), rdHeap_ok (by omega)]
      simp only [ok_bind]
      by_cases hlt : lt (tg heap (c + 1)) (tg heap (k / 2)) = true
      · rw [if_pos hlt]
        obtain ⟨hp, w', hT⟩ := virt_step w hk hl hlk
        rw [wrHeap_ok (by omega), ok_bind, setIdx_ok (by omega), ok_bind]
        have ho' : UpOrd lt (swapT (vT (tg heap) c k) k (k / 2)) c (k / 2) :=
          ho.step (by omega) hk2 (by rw [ek, el]; exact hlt)
        obtain ⟨heap', hash', k', hrun, h1, h2, h3, h4, h5, h6⟩ :=
          ih (k / 2) (by omega) (heap.set k (tg heap (k / 2)) (by omega))
            (hash.set (tg heap (k / 2)).hidx { sl hash (tg heap (k / 2)).hidx with idx := k } (by omega))
            (by simp [hsz]) (by simp [hhs]) hl
            (by rw [tg_set, sl_set]; exact w')
            (by rw [tg_set]; exact ho'.congr (fun i _ _ => hT i))
        refine ⟨heap', hash', k', hrun, h1, h2, h3, h4, h5, ?_⟩
        intro x
        rw [h6 x, tg_set, Live.congr (fun i _ _ => hT i) x]
        exact Live.swap hk hl x
      · rw [if_neg hlt]
        refine ⟨heap, hash, k, rfl, hsz, hhs, hk, w, ?_, fun _ => Iff.rfl⟩
        apply ho.done
        intro _
        rw [ek, el]
        simpa using hlt
    · rw [dif_neg h]
      refine ⟨heap, hash, k, rfl, hsz, hhs, hk, w, ?_, fun _ => Iff.rfl⟩
      apply ho.done
      intro h2; omega

@[simp] theorem pure_bind' {α β : Type} (a : α) (f : α → Except Fault β) :
    ((pure a : Except Fault α) >>= f) = f a := rfl

theorem heapDownLoop_spec (c e : Nat) (hce : c ≤ 2 ^ e) :
    ∀ n k (heap : Array HTag) (hash : Array HSlot), c - k = n →
      heap.size = 2 ^ e + 2 → hash.size = 2 ^ (e + 1) → InR c k →
      WFS (vT (tg heap) c k) (vS (tg heap) (sl hash) c k) (InR c) e →
      DownOrd lt (vT (tg heap) c k) c k →
      ∃ heap' hash' k', heapDownLoop lt c (c + 1) heap hash k = .ok (heap', hash', k') ∧
        heap'.size = 2 ^ e + 2 ∧ hash'.size = 2 ^ (e + 1) ∧ InR c k' ∧
        WFS (vT (tg heap') c k') (vS (tg heap') (sl hash') c k') (InR c) e ∧
        Ord lt (vT (tg heap') c k') c ∧
        (∀ x, Live (vT (tg heap') c k') c x ↔ Live (vT (tg heap) c k) c x) := by
  intro n
  induction n using Nat.strongRecOn with
  | _ n ih =>
    intro k heap hash hn hsz hhs hk w ho
    have hk1 := hk.1; have hk2 := hk.2
    have ek : vT (tg heap) c k k = tg heap (c + 1) := by simp [vT]
    have eo : ∀ o, o ≠ k → vT (tg heap) c k o = tg heap o := fun o ho => by simp [vT, ho]
    rw [heapDownLoop]
    by_cases h : 0 < k ∧ k ≤ c / 2
    · rw [dif_pos h]
      dsimp only
      -- one iteration with the chosen child `l`
      have key : ∀ l, l / 2 = k → 2 ≤ l → l ≤ c →
          (∀ o, 2 ≤ o → o ≤ c → o / 2 = k → lt (tg heap o) (tg heap l) = false) →
          ∃ heap' hash' k',
            (do let w ← rdHeap heap (c + 1)
                let cc ← rdHeap heap l
                if lt w cc = true then Except.ok (heap, hash, k)
                else do
                  let heap ← wrHeap heap k cc
                  let hash ← setIdx hash cc.hidx k
                  heapDownLoop lt c (c + 1) heap hash l) = .ok (heap', hash', k') ∧
            heap'.size = 2 ^ e + 2 ∧ hash'.size = 2 ^ (e + 1) ∧ InR c k' ∧
            WFS (vT (tg heap') c k') (vS (tg heap') (sl hash') c k') (InR c) e ∧
            Ord lt (vT (tg heap') c k') c ∧
            (∀ x, Live (vT (tg heap') c k') c x ↔ Live (vT (tg heap) c k) c x) := by
        intro l hlk2 hl2 hlc hmin
        have hl : InR c l := ⟨by omega, hlc⟩
        have hlk : l ≠ k := by omega
        have hmin' : ∀ o, 2 ≤ o → o ≤ c → o / 2 = k →
            lt (vT (tg heap) c k o) (vT (tg heap) c k l) = false := by
          intro o h2 hc hok
          rw [eo o (by omega), eo l hlk]; exact hmin o h2 hc hok
        rw [rdHeap_ok (by omega), rdHeap_ok (by omega)]
        simp only [ok_bind]
        by_cases hlt : lt (tg heap (c + 1)) (tg heap l) = true
        · rw [if_pos hlt]
          refine ⟨heap, hash, k, rfl, hsz, hhs, hk, w, ?_, fun _ => Iff.rfl⟩
          exact ho.done_le hmin' (by rw [ek, eo l hlk]; exact hlt)
        · rw [if_neg hlt]
          obtain ⟨hp, w', hT⟩ := virt_step w hk hl hlk
          rw [wrHeap_ok (by omega), ok_bind, setIdx_ok (by omega), ok_bind]
          have ho' : DownOrd lt (swapT (vT (tg heap) c k) k l) c l :=
            ho.step hk1 hlk2 hl2 hlc hmin' (by rw [ek, eo l hlk]; simpa using hlt)
          obtain ⟨heap', hash', k', hrun, h1, h2, h3, h4, h5, h6⟩ :=
            ih (c - l) (by omega) l (heap.set k (tg heap l) (by omega))
              (hash.set (tg heap l).hidx { sl hash (tg heap l).hidx with idx := k } (by omega)) rfl
              (by simp [hsz]) (by simp [hhs]) hl
              (by rw [tg_set, sl_set]; exact w')
              (by rw [tg_set]; exact ho'.congr (fun i _ _ => hT i))
          refine ⟨heap', hash', k', hrun, h1, h2, h3, h4, h5, ?_⟩
          intro x
          rw [h6 x, tg_set, Live.congr (fun i _ _ => hT i) x]
          exact Live.swap hk hl x
      rw [rdHeap_ok (by omega)]
      simp only [ok_bind]
      by_cases hr : 2 * k + 1 ≤ c
      · rw [if_pos hr, rdHeap_ok (by omega)]
        simp only [ok_bind, pure_bind']
        by_cases hrl : lt (tg heap (2 * k + 1)) (tg heap (2 * k)) = true
        · simp only [hrl, if_true]
          apply key (2 * k + 1) (by omega) (by omega) hr
          intro o h2 hc hok
          have : o = 2 * k ∨ o = 2 * k + 1 := by omega
          rcases this with rfl | rfl
          · exact lt_asymm hrl
          · exact sw.irrefl _
        · simp only [hrl]
          apply key (2 * k) (by omega) (by omega) (by omega)
          intro o h2 hc hok
          have : o = 2 * k ∨ o = 2 * k + 1 := by omega
          rcases this with rfl | rfl
          · exact sw.irrefl _
          · simpa using hrl
      · rw [if_neg hr]
        simp only [pure_bind']
        apply key (2 * k) (by omega) (by omega) (by omega)
        intro o h2 hc hok
        have : o = 2 * k := by omega
        subst this
        exact sw.irrefl _
    · rw [dif_neg h]
      refine ⟨heap, hash, k, rfl, hsz, hhs, hk, w, ?_, fun _ => Iff.rfl⟩
      apply ho.done_leaf
      omega

/-- what a sift establishes: same bookkeeping fields, structure kept, heap order restored, same tags -/
structure SiftPost (lt : Order) (s s' : HH) : Prop where
  count : s'.count = s.count
  exp : s'.exp = s.exp
  expInit : s'.expInit = s.expInit
  counter : s'.counter = s.counter
  heapSize : s'.heap.size = 2 ^ s.exp + 2
  hashSize : s'.hash.size = 2 ^ (s.exp + 1)
  wfs : WFS s'.tag s'.slot (InR s.count) s.exp
  ord : Ord lt s'.tag s.count
  live : ∀ x, Live s'.tag s.count x ↔ Live s.tag s.count x

/-- the virtual state right after the working copy has been made is the state itself -/
theorem virt_init (s : HH) (k : Nat) (hsz : s.heap.size = 2 ^ s.exp + 2) (hc : s.count ≤ 2 ^ s.exp)
    (hk : InR s.count k) (w : WFS s.tag s.slot (InR s.count) s.exp) :
    (∀ i, 1 ≤ i → i ≤ s.count →
      vT (tg (s.heap.set (s.count + 1) (tg s.heap k) (by omega))) s.count k i = s.tag i) ∧
    WFS (vT (tg (s.heap.set (s.count + 1) (tg s.heap k) (by omega))) s.count k)
        (vS (tg (s.heap.set (s.count + 1) (tg s.heap k) (by omega))) (sl s.hash) s.count k) (InR s.count) s.exp := by
  have hT : ∀ i, 1 ≤ i → i ≤ s.count →
      vT (tg (s.heap.set (s.count + 1) (tg s.heap k) (by omega))) s.count k i = s.tag i := by
    intro i h1 h2
    rw [tg_set]
    simp only [vT, upd_apply, if_true]
    by_cases hik : i = k
    · subst hik; simp [HH.tag_eq]
    · have : i ≠ s.count + 1 := by omega
      simp [hik, this, HH.tag_eq]
  refine ⟨hT, ?_⟩
  apply w.congr (fun _ => Iff.rfl)
  · intro i hi; rw [hT i hi.1 hi.2]; exact ⟨rfl, rfl⟩
  · intro j _
    rw [tg_set]
    simp only [vS, upd_apply, if_true]
    have b := (w.back k hk).2
    rw [HH.tag_eq, HH.slot_eq] at b
    split
    · subst_vars; rw [b]; exact (HH.slot_eq s ▸ b).symm
    · rfl

theorem heapUp_spec (s : HH) (k : Nat) (hsz : s.heap.size = 2 ^ s.exp + 2)
    (hhs : s.hash.size = 2 ^ (s.exp + 1)) (hc : s.count ≤ 2 ^ s.exp) (hk : InR s.count k)
    (w : WFS s.tag s.slot (InR s.count) s.exp) (ho : UpOrd lt s.tag s.count k) :
    ∃ s', heapUp lt s k = .ok s' ∧ SiftPost lt s s' := by
  have hk1 := hk.1; have hk2 := hk.2
  obtain ⟨hT, w0⟩ := virt_init s k hsz hc hk w
  obtain ⟨heap', hash', k', hrun, h1, h2, h3, h4, h5, h6⟩ :=
    heapUpLoop_spec (lt := lt) s.count s.exp hc k _ s.hash (by simp [hsz]) hhs hk w0 (ho.congr hT)
  have bk := (h4.back k' h3).1
  have ek : vT (tg heap') s.count k' k' = tg heap' (s.count + 1) := by simp [vT]
  rw [ek] at bk
  unfold heapUp
  dsimp only
  rw [rdHeap_ok (by omega), ok_bind, wrHeap_ok (by omega), ok_bind, hrun, ok_bind]
  dsimp only
  rw [rdHeap_ok (by omega), ok_bind, wrHeap_ok (by have := h3.2; omega), ok_bind,
    setIdx_ok (by omega), ok_bind]
  refine ⟨_, rfl, rfl, rfl, rfl, rfl, by simp [h1], by simp [h2], ?_, ?_, ?_⟩
  · show WFS (tg _) (sl _) _ _
    rw [tg_set, sl_set]; exact h4
  · show Ord lt (tg _) _
    rw [tg_set]; exact h5
  · intro x
    show Live (tg _) _ x ↔ _
    rw [tg_set]
    exact (h6 x).trans (Live.congr hT x)

theorem heapDown_spec (s : HH) (k : Nat) (hsz : s.heap.size = 2 ^ s.exp + 2)
    (hhs : s.hash.size = 2 ^ (s.exp + 1)) (hc : s.count ≤ 2 ^ s.exp) (hk : InR s.count k)
    (w : WFS s.tag s.slot (InR s.count) s.exp) (ho : DownOrd lt s.tag s.count k) :
    ∃ s', heapDown lt s k = .ok s' ∧ SiftPost lt s s' := by
  have hk1 := hk.1; have hk2 := hk.2
  obtain ⟨hT, w0⟩ := virt_init s k hsz hc hk w
  obtain ⟨heap', hash', k', hrun, h1, h2, h3, h4, h5, h6⟩ :=
    heapDownLoop_spec (lt := lt) s.count s.exp hc _ k _ s.hash rfl (by simp [hsz]) hhs hk w0 (ho.congr hT)
  have bk := (h4.back k' h3).1
  have ek : vT (tg heap') s.count k' k' = tg heap' (s.count + 1) := by simp [vT]
  rw [ek] at bk
  unfold heapDown
  dsimp only
  rw [rdHeap_ok (by omega), ok_bind, wrHeap_ok (by omega), ok_bind, hrun, ok_bind]
  dsimp only
  rw [rdHeap_ok (by omega), ok_bind, wrHeap_ok (by have := h3.2; omega), ok_bind,
    setIdx_ok (by omega), ok_bind]
  refine ⟨_, rfl, rfl, rfl, rfl, rfl, by simp [h1], by simp [h2], ?_, ?_, ?_⟩
  · show WFS (tg _) (sl _) _ _
    rw [tg_set, sl_set]; exact h4
  · show Ord lt (tg _) _
    rw [tg_set]; exact h5
  · intro x
    show Live (tg _) _ x ↔ _
    rw [tg_set]
    exact (h6 x).trans (Live.congr hT x)

end CimbaModel.HashHeap
