/-
  Refinement proof of the hashheap, part 11: observable behaviour of whole operation sequences.
  `SpecStep` is the keyed-priority-queue specification as a labelled transition relation on
  (abstract queue, key counter) with the observable result of each operation; it is a relation because the
  specification leaves open which of several minimal entries `dequeue`/`peek` return, which matching entry
  `pattern_find` reports, and in which order entries are listed.  `stepR` is the concrete model with the same
  observable results (tags reported without their internal back-pointer).  Every concrete run from a well-formed
  state whose operations meet their preconditions is a run of the specification.
-/
import CimbaModel.HashHeap.RefineRun

namespace CimbaModel.HashHeap
open CimbaModel CimbaModel.KPQ

/-- observable result of an operation -/
inductive Res where
  | key (k : Nat)
  | tag (t : Option HTag)
  | bool (b : Bool)
  | num (n : Nat)
  | unit

/-- one operation on the concrete model, with its observable result -/
def stepR (lt : Order) (s : HH) : Op → Except Fault (HH × Res)
  | .enqueue it k d i => do let (s', k') ← enqueue lt s it k d i; pure (s', .key k')
  | .dequeue => do let (s', t) ← dequeue lt s; pure (s', .tag (t.map norm))
  | .remove k => do let (s', b) ← remove lt s k; pure (s', .bool b)
  | .reprio k d i => do let s' ← reprioritize lt s k d i; pure (s', .unit)
  | .cancel p => do let (s', n) ← patternCancel lt s p; pure (s', .num n)
  | .clear => pure (clear s, .unit)
  | .reset => do let s' ← reset s; pure (s', .unit)
  | .lookup k => do let t ← lookup s k; pure (s, .tag (some (norm t)))
  | .isEnqueued k => do let b ← isEnqueued s k; pure (s, .bool b)
  | .peek => do let t ← peek s; pure (s, .tag (t.map norm))
  | .find p => pure (s, .key (patternFind s p))
  | .count p => pure (s, .num (patternCount s p))

/-- the specification: what each operation may do to the abstract queue `q` (and the key counter `c`) and
    which result it may report -/
inductive SpecStep (lt : Order) : KPQ × Nat → Op → Res → KPQ × Nat → Prop where
  | enqueue (q q' : KPQ) (c : Nat) (it : Item) (k : Nat) (d i : Int) :
      q'.Perm (KPQ.insert q ⟨if k = 0 then c + 1 else k, 0, it, d, i⟩) →
      SpecStep lt (q, c) (.enqueue it k d i) (.key (if k = 0 then c + 1 else k)) (q', c + 1)
  | dequeue (q q' : KPQ) (c : Nat) (e : HTag) : IsMin lt q e → q.Perm (e :: q') →
      SpecStep lt (q, c) .dequeue (.tag (some e)) (q', c)
  | dequeueEmpty (c : Nat) : SpecStep lt ([], c) .dequeue (.tag none) ([], c)
  | remove (q q' : KPQ) (c k : Nat) : q'.Perm (KPQ.remove q k) →
      SpecStep lt (q, c) (.remove k) (.bool (decide (k ∈ keys q))) (q', c)
  | reprio (q q' : KPQ) (c k : Nat) (d i : Int) : k ∈ keys q → q'.Perm (KPQ.reprio q k d i) →
      SpecStep lt (q, c) (.reprio k d i) .unit (q', c)
  | cancel (q q' : KPQ) (c : Nat) (p : Item) : q'.Perm (removeMatching q p) →
      SpecStep lt (q, c) (.cancel p) (.num (matching q p).length) (q', c)
  | clear (q : KPQ) (c : Nat) : SpecStep lt (q, c) .clear .unit ([], c)
  | reset (q : KPQ) (c : Nat) : SpecStep lt (q, c) .reset .unit ([], c)
  | lookup (q : KPQ) (c k : Nat) (t : HTag) : KPQ.lookup q k = some t →
      SpecStep lt (q, c) (.lookup k) (.tag (some t)) (q, c)
  | isEnqueued (q : KPQ) (c k : Nat) : SpecStep lt (q, c) (.isEnqueued k) (.bool (decide (k ∈ keys q))) (q, c)
  | peek (q : KPQ) (c : Nat) (e : HTag) : IsMin lt q e → SpecStep lt (q, c) .peek (.tag (some e)) (q, c)
  | peekEmpty (c : Nat) : SpecStep lt ([], c) .peek (.tag none) ([], c)
  | findNone (q : KPQ) (c : Nat) (p : Item) : matching q p = [] → SpecStep lt (q, c) (.find p) (.key 0) (q, c)
  | findSome (q : KPQ) (c : Nat) (p : Item) (t : HTag) : t ∈ matching q p →
      SpecStep lt (q, c) (.find p) (.key t.key) (q, c)
  | count (q : KPQ) (c : Nat) (p : Item) : SpecStep lt (q, c) (.count p) (.num (matching q p).length) (q, c)

inductive SpecRun (lt : Order) : KPQ × Nat → List Op → List Res → KPQ × Nat → Prop where
  | nil (x : KPQ × Nat) : SpecRun lt x [] [] x
  | cons (x y z : KPQ × Nat) (op : Op) (r : Res) (ops : List Op) (rs : List Res) :
      SpecStep lt x op r y → SpecRun lt y ops rs z → SpecRun lt x (op :: ops) (r :: rs) z

def runR (lt : Order) : HH → List Op → Except Fault (HH × List Res)
  | s, [] => pure (s, [])
  | s, op :: ops => do
    let (s', r) ← stepR lt s op
    let (s'', rs) ← runR lt s' ops
    pure (s'', r :: rs)

variable {lt : Order} [StrictWeak lt] [IgnoresHidx lt]

omit [StrictWeak lt] [IgnoresHidx lt] in
theorem step_of_stepR {s s' : HH} {op : Op} {r : Res} (h : stepR lt s op = .ok (s', r)) : step lt s op = .ok s' := by
  cases op <;> simp only [stepR, step] at h ⊢
  case enqueue it k d i =>
    cases he : enqueue lt s it k d i with
    | error e => rw [he] at h; cases h
    | ok x => rw [he] at h; cases h; rfl
  case dequeue =>
    cases he : dequeue lt s with
    | error e => rw [he] at h; cases h
    | ok x => rw [he] at h; cases h; rfl
  case remove k =>
    cases he : remove lt s k with
    | error e => rw [he] at h; cases h
    | ok x => rw [he] at h; cases h; rfl
  case reprio k d i =>
    cases he : reprioritize lt s k d i with
    | error e => rw [he] at h; cases h
    | ok x => rw [he] at h; cases h; rfl
  case cancel p =>
    cases he : patternCancel lt s p with
    | error e => rw [he] at h; cases h
    | ok x => rw [he] at h; cases h; rfl
  case clear => cases h; rfl
  case reset =>
    cases he : reset s with
    | error e => rw [he] at h; cases h
    | ok x => rw [he] at h; cases h; rfl
  case lookup k =>
    cases he : lookup s k with
    | error e => rw [he] at h; cases h
    | ok x => rw [he] at h; cases h; rfl
  case isEnqueued k =>
    cases he : isEnqueued s k with
    | error e => rw [he] at h; cases h
    | ok x => rw [he] at h; cases h; rfl
  case peek =>
    cases he : peek s with
    | error e => rw [he] at h; cases h
    | ok x => rw [he] at h; cases h; rfl
  case find p => cases h; rfl
  case count p => cases h; rfl

/-- every operation, applied to a well-formed state under its precondition, never faults, keeps the state
    well-formed and is a step of the specification on the abstraction -/
theorem step_refines {s : HH} (h : WF lt s) (op : Op) (hpre : OpPre s op) :
    ∃ s' r, stepR lt s op = .ok (s', r) ∧ WF lt s' ∧
      SpecStep lt (abs s, s.counter) op r (abs s', s'.counter) := by
  cases op with
  | enqueue it k d i =>
    obtain ⟨s', hrun, hwf, hperm, hct, _⟩ := enqueue_abs h it k d i hpre.1 hpre.2.1 hpre.2.2.1 hpre.2.2.2
    refine ⟨s', _, by simp only [stepR, hrun]; rfl, hwf, ?_⟩
    rw [hct]
    exact SpecStep.enqueue _ _ _ it k d i hperm
  | dequeue =>
    by_cases hc : s.count = 0
    · refine ⟨s, .tag none, by simp [stepR, dequeue, hc], h, ?_⟩
      rw [abs_empty s hc]
      exact SpecStep.dequeueEmpty _
    · obtain ⟨s', hrun, hwf, hperm, _, _, _, hct⟩ := dequeue_abs h (by omega : 0 < s.count)
      refine ⟨s', _, by simp only [stepR, hrun]; rfl, hwf, ?_⟩
      rw [hct]
      exact SpecStep.dequeue _ _ _ _ (root_isMin_abs h (by omega)) hperm
  | remove k =>
    obtain ⟨s', hrun, hwf, hperm, _, _, hct, _⟩ := remove_abs h k hpre
    refine ⟨s', _, by simp only [stepR, hrun]; rfl, hwf, ?_⟩
    rw [hct]
    exact SpecStep.remove _ _ _ k hperm
  | reprio k d i =>
    obtain ⟨s', hrun, hwf, hperm, _, _, hct⟩ := reprio_abs h hpre d i
    refine ⟨s', _, by simp only [stepR, hrun]; rfl, hwf, ?_⟩
    rw [hct]
    exact SpecStep.reprio _ _ _ k d i hpre hperm
  | cancel p =>
    obtain ⟨s', hrun, hwf, hperm, _, _, hct⟩ := patternCancel_abs h p
    refine ⟨s', _, by simp only [stepR, hrun]; rfl, hwf, ?_⟩
    rw [hct]
    exact SpecStep.cancel _ _ _ p hperm
  | clear =>
    obtain ⟨hwf, habs, hct, _⟩ := clear_spec h
    refine ⟨clear s, .unit, rfl, hwf, ?_⟩
    rw [habs, hct]
    exact SpecStep.clear _ _
  | reset =>
    obtain ⟨s', hrun, hwf, habs, hct, _⟩ := reset_spec h
    refine ⟨s', .unit, by simp only [stepR, hrun]; rfl, hwf, ?_⟩
    rw [habs, hct]
    exact SpecStep.reset _ _
  | lookup k =>
    obtain ⟨t, hrun, hl⟩ := lookup_spec h hpre
    exact ⟨s, _, by simp only [stepR, hrun]; rfl, h, SpecStep.lookup _ _ k _ hl⟩
  | isEnqueued k =>
    exact ⟨s, _, by simp only [stepR, isEnqueued_spec h k hpre]; rfl, h, SpecStep.isEnqueued _ _ k⟩
  | peek =>
    by_cases hc : s.count = 0
    · refine ⟨s, .tag none, by simp [stepR, peek, hc], h, ?_⟩
      rw [abs_empty s hc]
      exact SpecStep.peekEmpty _
    · exact ⟨s, _, by simp only [stepR, peek_spec h (by omega : 0 < s.count)]; rfl, h,
        SpecStep.peek _ _ _ (root_isMin_abs h (by omega))⟩
  | find p =>
    refine ⟨s, _, rfl, h, ?_⟩
    have hf := patternFind_spec h p
    by_cases h0 : patternFind s p = 0
    · rw [h0]; exact SpecStep.findNone _ _ p (hf.1.1 h0)
    · obtain ⟨t, ht, hk⟩ := hf.2 h0
      rw [← hk]; exact SpecStep.findSome _ _ p t ht
  | count p =>
    refine ⟨s, _, rfl, h, ?_⟩
    rw [patternCount_spec]
    exact SpecStep.count _ _ p

/-- every run of the concrete model from a well-formed state, with each operation meeting its precondition in the
    state it is applied to, never faults, ends well-formed, and its sequence of observable results is a run of the
    keyed-priority-queue specification -/
theorem run_refines : ∀ (ops : List Op) {s : HH}, WF lt s → PreAll lt s ops →
    ∃ s' rs, runR lt s ops = .ok (s', rs) ∧ WF lt s' ∧
      SpecRun lt (abs s, s.counter) ops rs (abs s', s'.counter) := by
  intro ops
  induction ops with
  | nil => intro s h _; exact ⟨s, [], rfl, h, SpecRun.nil _⟩
  | cons op ops ih =>
    intro s h hpre
    obtain ⟨s1, r, hrun1, hwf1, hspec1⟩ := step_refines h op hpre.1
    obtain ⟨s', rs, hrun, hwf', hspec⟩ := ih hwf1 (hpre.2 s1 (step_of_stepR hrun1))
    refine ⟨s', r :: rs, ?_, hwf', SpecRun.cons _ _ _ op r ops rs hspec1 hspec⟩
    rw [runR, hrun1, ok_bind]
    simp only [hrun, ok_bind]
    rfl

end CimbaModel.HashHeap
