/-
  The waiting-list ordering function `guard_queue_check` (src/cmb_resourceguard.c), regenerated from
  the C source, is the documented order: priority descending, then entry time ascending, then key.
-/
import CimbaModel.HashHeap.Orders

namespace CimbaModel.HashHeap.Orders
open CimbaModel CimbaModel.HashHeap CimbaModel.Generated CimbaModel.HashHeap.SpecOrders

theorem guard_queue_check_iff (a b : HTag) : guard_queue_check a b = true ↔ guardLt a b := by
  unfold guard_queue_check guardLt
  repeat' split
  all_goals simp_all
  all_goals omega

instance : TotalOnKeys guard_queue_check where
  irrefl a := by rw [bfalse_of_iff guard_queue_check_iff]; unfold guardLt; omega
  trans a b c := by simp only [guard_queue_check_iff]; unfold guardLt; omega
  negTrans a b c := by simp only [bfalse_of_iff guard_queue_check_iff]; unfold guardLt; omega
  total a b := by simp only [guard_queue_check_iff]; unfold guardLt; omega

instance : IgnoresHidx guard_queue_check := ignoresHidx_of_iff guard_queue_check_iff (fun _ _ _ _ => Iff.rfl)

end CimbaModel.HashHeap.Orders
