/-
  Refinement proof of the hashheap, part 8: from the concrete specifications to the abstract keyed
  priority queue.  Live keys are pairwise distinct, so `abs s` has no duplicates and every
  permutation statement reduces to a statement about membership.
-/
import CimbaModel.HashHeap.RefineGrow

set_option linter.unusedSimpArgs false

namespace CimbaModel.HashHeap
open CimbaModel CimbaModel.KPQ

/-! ### three facts about duplicate-free lists (core Lean only) -/

theorem nodup_of_map {α β : Type} (f : α → β) {l : List α} (h : (l.map f).Nodup) : l.Nodup := by
  unfold List.Nodup at *
  rw [List.pairwise_map] at h
  exact h.imp (fun hne heq => hne (congrArg f heq))

theorem nodup_map_on {α β : Type} {f : α → β} {l : List α}
    (hinj : ∀ x, x ∈ l → ∀ y, y ∈ l → f x = f y → x = y) (h : l.Nodup) : (l.map f).Nodup := by
  unfold List.Nodup at *
  rw [List.pairwise_map]
  exact h.imp_of_mem (fun hx hy hne heq => hne (hinj _ hx _ hy heq))

theorem nodup_filter {α : Type} (p : α → Bool) {l : List α} (h : l.Nodup) : (l.filter p).Nodup :=
  List.Pairwise.filter p h

/-! ### membership in the abstraction -/

theorem mem_abs (s : HH) (x : HTag) : x ∈ abs s ↔ ∃ i, InR s.count i ∧ norm (s.tag i) = x := by
  unfold abs
  rw [List.mem_map]
  constructor
  · rintro ⟨t, ht, rfl⟩
    obtain ⟨i, h1, h2, rfl⟩ := (mem_liveTags s t).1 ht
    exact ⟨i, ⟨h1, h2⟩, rfl⟩
  · rintro ⟨i, hi, rfl⟩
    exact ⟨s.tag i, (mem_liveTags s _).2 ⟨i, hi.1, hi.2, rfl⟩, rfl⟩

theorem mem_abs_of_live (s : HH) (x : HTag) : x ∈ abs s ↔ ∃ t, Live s.tag s.count t ∧ norm t = x := by
  rw [mem_abs]
  constructor
  · rintro ⟨i, hi, rfl⟩; exact ⟨_, ⟨i, hi.1, hi.2, rfl⟩, rfl⟩
  · rintro ⟨t, ⟨i, h1, h2, rfl⟩, rfl⟩; exact ⟨i, ⟨h1, h2⟩, rfl⟩

theorem keys_abs (s : HH) : keys (abs s) = (liveTags s).map (·.key) := by
  unfold keys abs
  rw [List.map_map]
  rfl

theorem mem_keys_abs (s : HH) (k : Nat) : k ∈ keys (abs s) ↔ ∃ i, InR s.count i ∧ (s.tag i).key = k := by
  unfold keys
  rw [List.mem_map]
  constructor
  · rintro ⟨x, hx, rfl⟩
    obtain ⟨i, hi, rfl⟩ := (mem_abs s x).1 hx
    exact ⟨i, hi, rfl⟩
  · rintro ⟨i, hi, rfl⟩
    exact ⟨norm (s.tag i), (mem_abs s _).2 ⟨i, hi, rfl⟩, rfl⟩

theorem abs_length (s : HH) : (abs s).length = s.count := by
  unfold abs; rw [List.length_map, liveTags_length]

theorem abs_congr (s s' : HH) (hc : s'.count = s.count)
    (h : ∀ i, norm (s'.tag i) = norm (s.tag i)) : abs s' = abs s := by
  unfold abs liveTags
  rw [hc, List.map_map, List.map_map]
  apply List.map_congr_left
  intro j _
  exact h (j + 1)

variable {lt : Order}

theorem WF.wfs {s : HH} (h : WF lt s) : WFS s.tag s.slot (InR s.count) s.exp := ((WF_iff lt s).1 h).2.2.2.2.2.2.2.1

theorem WF.key_inj {s : HH} (h : WF lt s) {i j : Nat} (hi : InR s.count i) (hj : InR s.count j)
    (hk : (s.tag i).key = (s.tag j).key) : i = j :=
  h.wfs.key_inj (by have := h.expLe; omega) hi hj hk

/-- live keys are pairwise distinct -/
theorem WF.keys_nodup {s : HH} (h : WF lt s) : (keys (abs s)).Nodup := by
  rw [keys_abs]
  unfold liveTags
  rw [List.map_map]
  apply nodup_map_on _ List.nodup_range
  intro x hx y hy hxy
  have hx := List.mem_range.mp hx
  have hy := List.mem_range.mp hy
  have := h.key_inj (i := x + 1) (j := y + 1) ⟨by omega, by omega⟩ ⟨by omega, by omega⟩ hxy
  omega

theorem WF.abs_nodup {s : HH} (h : WF lt s) : (abs s).Nodup := by
  have := h.keys_nodup
  unfold keys at this
  exact nodup_of_map _ this

theorem WF.keys_ne_zero {s : HH} (h : WF lt s) {k : Nat} (hk : k ∈ keys (abs s)) : k ≠ 0 ∧ k < 2 ^ 64 := by
  obtain ⟨i, hi, rfl⟩ := (mem_keys_abs s k).1 hk
  exact h.keyOk i hi.1 hi.2

/-! ### lookups -/

theorem findIndex_of_mem {s : HH} (h : WF lt s) {i : Nat} (hi : InR s.count i) :
    findIndex s (s.tag i).key = .ok i :=
  findIndex_live s h.hashSize (by have := h.expLe; omega) h.wfs hi

theorem findIndex_of_not_mem {s : HH} (h : WF lt s) {k : Nat} (hk : k ∉ keys (abs s)) :
    findIndex s k = .ok 0 :=
  findIndex_absent s h.hashSize (by have := h.expLe; omega) h.wfs k
    (fun i hi he => hk ((mem_keys_abs s k).2 ⟨i, hi, he⟩))

theorem isEnqueued_spec {s : HH} (h : WF lt s) (k : Nat) (hk0 : k ≠ 0) :
    isEnqueued s k = .ok (decide (k ∈ keys (abs s))) := by
  unfold isEnqueued
  by_cases hk : k ∈ keys (abs s)
  · obtain ⟨i, hi, rfl⟩ := (mem_keys_abs s k).1 hk
    have : s.count ≠ 0 := by have := hi.1; have := hi.2; omega
    rw [if_neg this, findIndex_of_mem h hi, ok_bind]
    have : i ≠ 0 := by have := hi.1; omega
    simp [hk, this]
  · split
    · simp [hk]
    · rw [findIndex_of_not_mem h hk, ok_bind]
      simp [hk]

theorem lookup_spec {s : HH} (h : WF lt s) {k : Nat} (hk : k ∈ keys (abs s)) :
    ∃ t, lookup s k = .ok t ∧ KPQ.lookup (abs s) k = some (norm t) := by
  obtain ⟨i, hi, rfl⟩ := (mem_keys_abs s k).1 hk
  have hi1 := hi.1; have hi2 := hi.2
  have hcnt := h.countLe
  refine ⟨s.tag i, ?_, ?_⟩
  · unfold lookup
    rw [if_neg (h.keyOk i hi.1 hi.2).1, findIndex_of_mem h hi, ok_bind, if_neg (by omega)]
    exact rdHeap_ok (by have := h.heapSize; omega)
  · unfold KPQ.lookup
    cases hf : (abs s).find? (fun x => decide (x.key = (s.tag i).key)) with
    | none =>
      have := List.find?_eq_none.1 hf (norm (s.tag i)) ((mem_abs s _).2 ⟨i, hi, rfl⟩)
      simp [norm] at this
    | some x =>
      have hx := List.mem_of_find?_eq_some hf
      have hp := List.find?_some hf
      obtain ⟨j, hj, rfl⟩ := (mem_abs s x).1 hx
      have : (s.tag j).key = (s.tag i).key := of_decide_eq_true hp
      rw [h.key_inj hj hi this]

theorem peek_spec {s : HH} (h : WF lt s) (hpos : 0 < s.count) : peek s = .ok (some (s.tag 1)) := by
  unfold peek
  rw [if_neg (by omega)]
  rw [rdHeap_ok (by have := h.heapSize; have := two_pow_pos s.exp; omega)]
  rfl

/-- the root is a minimum of the live tags -/
theorem root_isMin [StrictWeak lt] {s : HH} (h : WF lt s) (hpos : 0 < s.count) : IsMin lt (liveTags s) (s.tag 1) := by
  refine ⟨(mem_liveTags s _).2 ⟨1, Nat.le_refl _, hpos, rfl⟩, ?_⟩
  intro x hx
  obtain ⟨i, h1, h2, rfl⟩ := (mem_liveTags s x).1 hx
  exact Ord.root_min h.ord i h1 h2

theorem root_isMin_abs [StrictWeak lt] [IgnoresHidx lt] {s : HH} (h : WF lt s) (hpos : 0 < s.count) :
    IsMin lt (abs s) (norm (s.tag 1)) := by
  refine ⟨(mem_abs s _).2 ⟨1, ⟨Nat.le_refl _, hpos⟩, rfl⟩, ?_⟩
  intro x hx
  obtain ⟨i, hi, rfl⟩ := (mem_abs s x).1 hx
  rw [lt_norm lt]
  exact Ord.root_min h.ord i hi.1 hi.2

/-! ### the updating operations -/

theorem dequeue_abs [StrictWeak lt] {s : HH} (h : WF lt s) (hpos : 0 < s.count) :
    ∃ s', dequeue lt s = .ok (s', some (s.tag 1)) ∧ WF lt s' ∧ (abs s).Perm (norm (s.tag 1) :: abs s') ∧
      s'.count = s.count - 1 ∧ s'.exp = s.exp ∧ s'.expInit = s.expInit ∧ s'.counter = s.counter := by
  obtain ⟨s', hrun, hwf', hc, he, hei, hct, hl⟩ := dequeue_spec h hpos
  have h1 : InR s.count 1 := ⟨Nat.le_refl _, hpos⟩
  have hmem' : ∀ x, x ∈ abs s' ↔ ∃ j, InR s.count j ∧ j ≠ 1 ∧ norm (s.tag j) = x := by
    intro x
    rw [mem_abs_of_live]
    constructor
    · rintro ⟨t, ht, rfl⟩
      obtain ⟨j, a, b, c, rfl⟩ := (hl t).1 ht
      exact ⟨j, ⟨a, b⟩, c, rfl⟩
    · rintro ⟨j, hj, hne, rfl⟩
      exact ⟨s.tag j, (hl _).2 ⟨j, hj.1, hj.2, hne, rfl⟩, rfl⟩
  refine ⟨s', hrun, hwf', ?_, hc, he, hei, hct⟩
  have hnd : (norm (s.tag 1) :: abs s').Nodup := by
    rw [List.nodup_cons]
    refine ⟨?_, hwf'.abs_nodup⟩
    intro hm
    obtain ⟨j, hj, hne, he⟩ := (hmem' _).1 hm
    have hk : (norm (s.tag j)).key = (norm (s.tag 1)).key := by rw [he]
    exact hne (h.key_inj hj h1 hk)
  rw [List.perm_ext_iff_of_nodup h.abs_nodup hnd]
  intro x
  rw [List.mem_cons, hmem', mem_abs]
  constructor
  · rintro ⟨i, hi, rfl⟩
    by_cases h : i = 1
    · left; rw [h]
    · right; exact ⟨i, hi, h, rfl⟩
  · rintro (rfl | ⟨j, hj, _, rfl⟩)
    · exact ⟨1, h1, rfl⟩
    · exact ⟨j, hj, rfl⟩

theorem remove_abs [StrictWeak lt] {s : HH} (h : WF lt s) (k : Nat) (hk0 : k ≠ 0) :
    ∃ s', remove lt s k = .ok (s', decide (k ∈ keys (abs s))) ∧ WF lt s' ∧
      (abs s').Perm (KPQ.remove (abs s) k) ∧
      s'.exp = s.exp ∧ s'.expInit = s.expInit ∧ s'.counter = s.counter ∧
      s'.count = s.count - (if k ∈ keys (abs s) then 1 else 0) := by
  by_cases hk : k ∈ keys (abs s)
  · obtain ⟨i, hi, rfl⟩ := (mem_keys_abs s k).1 hk
    obtain ⟨s', hrun, hwf', hc, he, hei, hct, hl⟩ := remove_present h hi
    refine ⟨s', by rw [hrun]; simp [hk], hwf', ?_, he, hei, hct, by rw [hc, if_pos hk]⟩
    unfold KPQ.remove
    rw [List.perm_ext_iff_of_nodup hwf'.abs_nodup (nodup_filter _ h.abs_nodup)]
    intro x
    rw [List.mem_filter, mem_abs_of_live, mem_abs]
    constructor
    · rintro ⟨t, ht, rfl⟩
      obtain ⟨j, a, b, c, rfl⟩ := (hl t).1 ht
      refine ⟨⟨j, ⟨a, b⟩, rfl⟩, ?_⟩
      have : (s.tag j).key ≠ (s.tag i).key := fun he => c (h.key_inj ⟨a, b⟩ hi he)
      exact decide_eq_true this
    · rintro ⟨⟨j, hj, rfl⟩, hne⟩
      have hne' : (s.tag j).key ≠ (s.tag i).key := of_decide_eq_true hne
      have : j ≠ i := fun he => hne' (by rw [he])
      exact ⟨s.tag j, (hl _).2 ⟨j, hj.1, hj.2, this, rfl⟩, rfl⟩
  · have hrun := remove_absent h hk0 (fun i hi he => hk ((mem_keys_abs s k).2 ⟨i, hi, he⟩))
    refine ⟨s, by rw [hrun]; simp [hk], h, ?_, rfl, rfl, rfl, by rw [if_neg hk]; rfl⟩
    unfold KPQ.remove
    rw [List.filter_eq_self.2]
    intro x hx
    have : x.key ≠ k := fun he => hk (List.mem_map.2 ⟨x, hx, he⟩)
    exact decide_eq_true this

theorem reprio_abs [StrictWeak lt] {s : HH} (h : WF lt s) {k : Nat} (hk : k ∈ keys (abs s)) (d i : Int) :
    ∃ s', reprioritize lt s k d i = .ok s' ∧ WF lt s' ∧ (abs s').Perm (KPQ.reprio (abs s) k d i) ∧
      s'.exp = s.exp ∧ s'.expInit = s.expInit ∧ s'.counter = s.counter := by
  obtain ⟨a, ha, rfl⟩ := (mem_keys_abs s k).1 hk
  obtain ⟨s', hrun, hwf', hc, he, hei, hct, hl⟩ := reprioritize_present h ha d i
  refine ⟨s', hrun, hwf', ?_, he, hei, hct⟩
  have hkeys : (KPQ.reprio (abs s) (s.tag a).key d i).map (·.key) = keys (abs s) := by
    unfold KPQ.reprio keys
    rw [List.map_map]
    apply List.map_congr_left
    intro x _
    simp only [Function.comp]
    split <;> rfl
  have hnd : (KPQ.reprio (abs s) (s.tag a).key d i).Nodup :=
    nodup_of_map (·.key) (by rw [hkeys]; exact h.keys_nodup)
  rw [List.perm_ext_iff_of_nodup hwf'.abs_nodup hnd]
  intro x
  unfold KPQ.reprio
  rw [List.mem_map, mem_abs_of_live]
  constructor
  · rintro ⟨t, ht, rfl⟩
    obtain ⟨j, h1, h2, rfl⟩ := (hl t).1 ht
    refine ⟨norm (s.tag j), (mem_abs s _).2 ⟨j, ⟨h1, h2⟩, rfl⟩, ?_⟩
    by_cases hja : j = a
    · subst hja; simp [norm]
    · have : (s.tag j).key ≠ (s.tag a).key := fun he => hja (h.key_inj ⟨h1, h2⟩ ha he)
      simp [norm, hja, this]
  · rintro ⟨y, hy, rfl⟩
    obtain ⟨j, hj, rfl⟩ := (mem_abs s y).1 hy
    refine ⟨upd s.tag a { s.tag a with d := d, i := i } j, (hl _).2 ⟨j, hj.1, hj.2, rfl⟩, ?_⟩
    by_cases hja : j = a
    · subst hja; simp [norm]
    · have : (s.tag j).key ≠ (s.tag a).key := fun he => hja (h.key_inj hj ha he)
      simp [norm, hja, this]

/-- what the optional growth step of `enqueue` has to deliver -/
def GrowOK (lt : Order) (s : HH) : Prop :=
  ∃ s1, (if s.count = 2 ^ s.exp then grow s else pure s) = .ok s1 ∧ WF lt s1 ∧
      s1.count < 2 ^ s1.exp ∧ abs s1 = abs s ∧ s1.counter = s.counter ∧ s1.expInit = s.expInit ∧
      s.exp ≤ s1.exp ∧ s1.count = s.count

theorem growOK_of_room {s : HH} (h : WF lt s) (hroom : s.count < 2 ^ s.exp) : GrowOK lt s := by
  have : s.count ≠ 2 ^ s.exp := by omega
  unfold GrowOK
  rw [if_neg this]
  exact ⟨s, rfl, h, hroom, rfl, rfl, rfl, Nat.le_refl _, rfl⟩

theorem growOK [IgnoresHidx lt] {s : HH} (h : WF lt s) (hroom : s.count < 2 ^ s.exp ∨ s.exp < 31) : GrowOK lt s := by
  by_cases hfull : s.count = 2 ^ s.exp
  · unfold GrowOK
    rw [if_pos hfull]
    obtain ⟨s1, hrun, hwf1, he, hc, hei, hct, hn⟩ := grow_spec h (by omega)
    refine ⟨s1, hrun, hwf1, ?_, abs_congr s s1 hc hn, hct, hei, by omega, hc⟩
    rw [hc, he, hfull]
    exact Nat.pow_lt_pow_right (by decide) (by omega)
  · have := h.countLe
    exact growOK_of_room h (by omega)

theorem enqueue_abs_of_grow [StrictWeak lt] {s : HH} (h : WF lt s) (it : Item) (k : Nat) (d i : Int)
    (hk0 : (if k = 0 then s.counter + 1 else k) ≠ 0) (hk64 : (if k = 0 then s.counter + 1 else k) < 2 ^ 64)
    (hfresh : (if k = 0 then s.counter + 1 else k) ∉ keys (abs s))
    (hg : GrowOK lt s) :
    ∃ s', enqueue lt s it k d i = .ok (s', if k = 0 then s.counter + 1 else k) ∧ WF lt s' ∧
      (abs s').Perm (KPQ.insert (abs s) ⟨if k = 0 then s.counter + 1 else k, 0, it, d, i⟩) ∧
      s'.counter = s.counter + 1 ∧ s'.expInit = s.expInit ∧ s.exp ≤ s'.exp ∧ s'.count = s.count + 1 := by
  generalize hk' : (if k = 0 then s.counter + 1 else k) = k' at *
  obtain ⟨s1, hrun1, hwf1, hroom1, habs1, hct1, hei1, hexp1, hc1⟩ := hg
  have hfresh1 : ∀ j, InR s1.count j → (s1.tag j).key ≠ k' := by
    intro j hj he
    apply hfresh
    rw [← habs1]
    exact (mem_keys_abs s1 k').2 ⟨j, hj, he⟩
  obtain ⟨p, s', hrun, hwf', hc, he, hei, hct, hl⟩ :=
    enqueueCore_spec hwf1 hroom1 it k d i k' (by rw [hct1]; exact hk'.symm) hk0 hk64 hfresh1
  refine ⟨s', ?_, hwf', ?_, by rw [hct, hct1], by rw [hei, hei1], by rw [he]; exact hexp1, by rw [hc, hc1]⟩
  · rw [enqueue_eq, if_neg (by have := h.countLe; omega), hrun1, ok_bind, hrun]
  · unfold KPQ.insert
    have hnew : norm ({ key := k', hidx := 0, item := it, d := d, i := i } : HTag) =
        { key := k', hidx := 0, item := it, d := d, i := i } := rfl
    rw [hnew]
    have hnd : (({ key := k', hidx := 0, item := it, d := d, i := i } : HTag) :: abs s).Nodup := by
      rw [List.nodup_cons]
      refine ⟨?_, h.abs_nodup⟩
      intro hm
      exact hfresh (List.mem_map.2 ⟨_, hm, rfl⟩)
    rw [List.perm_ext_iff_of_nodup hwf'.abs_nodup hnd]
    intro x
    rw [List.mem_cons, ← habs1, mem_abs_of_live, mem_abs_of_live]
    constructor
    · rintro ⟨t, ht, rfl⟩
      rcases (hl t).1 ht with ht | rfl
      · right; exact ⟨t, ht, rfl⟩
      · left; rfl
    · rintro (rfl | ⟨t, ht, rfl⟩)
      · exact ⟨_, (hl _).2 (Or.inr rfl), rfl⟩
      · exact ⟨t, (hl _).2 (Or.inl ht), rfl⟩

theorem enqueue_abs [StrictWeak lt] [IgnoresHidx lt] {s : HH} (h : WF lt s) (it : Item) (k : Nat) (d i : Int)
    (hk0 : (if k = 0 then s.counter + 1 else k) ≠ 0) (hk64 : (if k = 0 then s.counter + 1 else k) < 2 ^ 64)
    (hfresh : (if k = 0 then s.counter + 1 else k) ∉ keys (abs s))
    (hroom : s.count < 2 ^ s.exp ∨ s.exp < 31) :
    ∃ s', enqueue lt s it k d i = .ok (s', if k = 0 then s.counter + 1 else k) ∧ WF lt s' ∧
      (abs s').Perm (KPQ.insert (abs s) ⟨if k = 0 then s.counter + 1 else k, 0, it, d, i⟩) ∧
      s'.counter = s.counter + 1 ∧ s'.expInit = s.expInit ∧ s.exp ≤ s'.exp ∧ s'.count = s.count + 1 :=
  enqueue_abs_of_grow h it k d i hk0 hk64 hfresh (growOK h hroom)

end CimbaModel.HashHeap
