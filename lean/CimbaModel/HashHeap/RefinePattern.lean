/-
  Refinement proof of the hashheap, part 9: initialisation, clear, reset, and the wildcard pattern
  operations (find / count / cancel).
-/
import CimbaModel.HashHeap.RefineAbs

set_option linter.unusedSimpArgs false

namespace CimbaModel.HashHeap
open CimbaModel CimbaModel.KPQ

variable {lt : Order}

/-! ### empty states -/

theorem WF_empty (s : HH) (he1 : 1 ≤ s.exp) (he31 : s.exp ≤ 31) (hei1 : 1 ≤ s.expInit) (hei2 : s.expInit ≤ s.exp)
    (hsz : s.heap.size = 2 ^ s.exp + 2) (hhs : s.hash.size = 2 ^ (s.exp + 1)) (hc : s.count = 0)
    (hz : ∀ j, s.slot j = {}) : WF lt s := by
  rw [WF_iff]
  refine ⟨he1, he31, hei1, hei2, hsz, hhs, by omega, ?_, ?_⟩
  · rw [hc]
    refine ⟨fun i hi => by have := hi.1; have := hi.2; omega, fun i hi => by have := hi.1; have := hi.2; omega,
      fun i hi => by have := hi.1; have := hi.2; omega, ?_, ?_, ?_⟩
    · intro j _ hne; rw [hz] at hne; exact absurd rfl hne
    · intro j _ _; rw [hz]
    · intro j _ hne; rw [hz] at hne; exact absurd rfl hne
  · intro i h2 hc'; omega

theorem abs_empty (s : HH) (hc : s.count = 0) : abs s = [] := by
  unfold abs liveTags; rw [hc]; rfl

theorem init_spec (e : Nat) (he1 : 1 ≤ e) (he31 : e ≤ 31) :
    ∃ s, init e = .ok s ∧ WF lt s ∧ abs s = [] ∧ s.counter = 0 ∧ s.exp = e ∧ s.expInit = e := by
  unfold init
  rw [if_neg (by omega)]
  refine ⟨_, rfl, ?_, abs_empty _ rfl, rfl, rfl, rfl⟩
  exact WF_empty _ he1 he31 he1 (Nat.le_refl _) (by simp) (by simp) rfl (fun j => sl_replicate _ j)

theorem clear_spec {s : HH} (h : WF lt s) :
    WF lt (clear s) ∧ abs (clear s) = [] ∧ (clear s).counter = s.counter ∧ (clear s).exp = s.exp ∧
      (clear s).expInit = s.expInit := by
  refine ⟨?_, abs_empty _ rfl, rfl, rfl, rfl⟩
  exact WF_empty _ h.expPos h.expLe h.expInitPos h.expInitLe (by simp [clear, h.heapSize])
    (by simp [clear, h.hashSize]) rfl (fun j => sl_replicate _ j)

theorem reset_spec {s : HH} (h : WF lt s) :
    ∃ s', reset s = .ok s' ∧ WF lt s' ∧ abs s' = [] ∧ s'.counter = s.counter ∧ s'.exp = s.expInit ∧
      s'.expInit = s.expInit := by
  have hle : s.expInit ≤ 31 := by have := h.expInitLe; have := h.expLe; omega
  unfold reset init
  rw [if_neg (by have := h.expInitPos; omega)]
  refine ⟨_, rfl, ?_, abs_empty _ rfl, rfl, rfl, rfl⟩
  exact WF_empty _ h.expInitPos hle h.expInitPos (Nat.le_refl _) (by simp) (by simp) rfl
    (fun j => sl_replicate _ j)

/-! ### pattern find / count -/

theorem itemMatch_norm (t : HTag) (p : Item) : itemMatch (norm t) p = itemMatch t p := rfl

theorem matching_abs (s : HH) (p : Item) :
    matching (abs s) p = ((liveTags s).filter (itemMatch · p)).map norm := by
  unfold matching abs
  rw [List.filter_map]
  rfl

theorem patternCount_spec (s : HH) (p : Item) : patternCount s p = (matching (abs s) p).length := by
  rw [matching_abs, List.length_map]; rfl

theorem patternFind_spec {s : HH} (h : WF lt s) (p : Item) :
    (patternFind s p = 0 ↔ matching (abs s) p = []) ∧
    (patternFind s p ≠ 0 → ∃ t, t ∈ matching (abs s) p ∧ t.key = patternFind s p) := by
  unfold patternFind
  cases hf : (liveTags s).find? (itemMatch · p) with
  | none =>
    have hnone := List.find?_eq_none.1 hf
    refine ⟨⟨fun _ => ?_, fun _ => rfl⟩, fun hne => absurd rfl hne⟩
    rw [matching_abs, List.map_eq_nil_iff, List.filter_eq_nil_iff]
    exact hnone
  | some t =>
    have hm := List.mem_of_find?_eq_some hf
    have hp := List.find?_some hf
    obtain ⟨i, h1, h2, rfl⟩ := (mem_liveTags s t).1 hm
    have hk := (h.keyOk i h1 h2).1
    have hmem : norm (s.tag i) ∈ matching (abs s) p := by
      rw [matching_abs]
      exact List.mem_map.2 ⟨s.tag i, List.mem_filter.2 ⟨hm, hp⟩, rfl⟩
    refine ⟨⟨fun h0 => absurd h0 hk, fun hnil => ?_⟩, fun _ => ⟨norm (s.tag i), hmem, rfl⟩⟩
    rw [hnil] at hmem
    exact absurd hmem (List.not_mem_nil)

/-! ### pattern cancel -/

theorem removeAll_abs [StrictWeak lt] : ∀ (ks : List Nat) {s : HH}, WF lt s → (∀ k, k ∈ ks → k ≠ 0) →
    ∃ s', removeAll lt s ks = .ok s' ∧ WF lt s' ∧
      (abs s').Perm ((abs s).filter (fun t => decide (t.key ∉ ks))) ∧
      s'.exp = s.exp ∧ s'.expInit = s.expInit ∧ s'.counter = s.counter := by
  intro ks
  induction ks with
  | nil =>
    intro s h _
    refine ⟨s, rfl, h, ?_, rfl, rfl, rfl⟩
    rw [List.filter_eq_self.2 (by intro a _; simp)]
  | cons k ks ih =>
    intro s h hk0
    obtain ⟨s1, hrun1, hwf1, hperm1, he1, hei1, hct1, _⟩ := remove_abs h k (hk0 k (List.mem_cons_self))
    obtain ⟨s', hrun, hwf', hperm, he, hei, hct⟩ := ih hwf1 (fun k' hk' => hk0 k' (List.mem_cons_of_mem _ hk'))
    refine ⟨s', ?_, hwf', ?_, by rw [he, he1], by rw [hei, hei1], by rw [hct, hct1]⟩
    · rw [removeAll, hrun1, ok_bind]; exact hrun
    · refine hperm.trans ?_
      refine (hperm1.filter _).trans ?_
      unfold KPQ.remove
      rw [List.filter_filter]
      apply List.Perm.of_eq
      apply List.filter_congr
      intro x _
      simp only [List.mem_cons, not_or]
      by_cases h1 : x.key = k <;> by_cases h2 : x.key ∈ ks <;> simp [h1, h2]

theorem patternCancel_abs [StrictWeak lt] {s : HH} (h : WF lt s) (p : Item) :
    ∃ s', patternCancel lt s p = .ok (s', (matching (abs s) p).length) ∧ WF lt s' ∧
      (abs s').Perm (removeMatching (abs s) p) ∧
      s'.exp = s.exp ∧ s'.expInit = s.expInit ∧ s'.counter = s.counter := by
  have hk0 : ∀ k, k ∈ ((liveTags s).filter (itemMatch · p)).map (·.key) → k ≠ 0 := by
    intro k hk
    obtain ⟨t, ht, rfl⟩ := List.mem_map.1 hk
    obtain ⟨i, h1, h2, rfl⟩ := (mem_liveTags s t).1 (List.mem_filter.1 ht).1
    exact (h.keyOk i h1 h2).1
  obtain ⟨s', hrun, hwf', hperm, he, hei, hct⟩ := removeAll_abs (lt := lt) _ h hk0
  refine ⟨s', ?_, hwf', ?_, he, hei, hct⟩
  · unfold patternCancel
    dsimp only
    rw [hrun, ok_bind, matching_abs, List.length_map, List.length_map]
  · refine hperm.trans (List.Perm.of_eq ?_)
    unfold removeMatching
    apply List.filter_congr
    intro x hx
    obtain ⟨j, hj, rfl⟩ := (mem_abs s x).1 hx
    rw [itemMatch_norm]
    by_cases hm : itemMatch (s.tag j) p = true
    · have : (norm (s.tag j)).key ∈ ((liveTags s).filter (itemMatch · p)).map (·.key) :=
        List.mem_map.2 ⟨s.tag j, List.mem_filter.2 ⟨(mem_liveTags s _).2 ⟨j, hj.1, hj.2, rfl⟩, hm⟩, rfl⟩
      simp [this, hm]
    · have : (norm (s.tag j)).key ∉ ((liveTags s).filter (itemMatch · p)).map (·.key) := by
        intro hin
        obtain ⟨t, ht, hke⟩ := List.mem_map.1 hin
        obtain ⟨ht1, ht2⟩ := List.mem_filter.1 ht
        obtain ⟨i, h1, h2, rfl⟩ := (mem_liveTags s t).1 ht1
        have := h.key_inj ⟨h1, h2⟩ hj hke
        subst this
        exact hm ht2
      simp [this, hm]

end CimbaModel.HashHeap
