/-
  The regenerated `hash_key` and `item_match` agree with the model's definitions, and the hash
  lands inside the map.
-/
import CimbaModel.HashHeap.Model
import CimbaModel.Generated.Orders

namespace CimbaModel.HashHeap
open CimbaModel.Generated

theorem hash_key_eq (s : HH) (k : Nat) (h : s.exp < 63) : hash_key s k = hashKey s.exp k := by
  unfold hash_key hashKey fibMult
  have h1 : (s.exp + 1) % 4294967296 = s.exp + 1 := by omega
  have h2 : (64 + 4294967296 - (s.exp + 1)) % 4294967296 = 64 - (s.exp + 1) := by omega
  rw [h1, h2]

theorem hashKey_lt (e k : Nat) (h : e < 63) : hashKey e k < 2 ^ (e + 1) := by
  unfold hashKey
  rw [Nat.shiftRight_eq_div_pow]
  have hlt : k * fibMult % 2 ^ 64 < 2 ^ 64 := Nat.mod_lt _ (by decide)
  have hpow : 2 ^ 64 = 2 ^ (e + 1) * 2 ^ (64 - (e + 1)) := by
    rw [← Nat.pow_add]; congr 1; omega
  generalize k * fibMult % 2 ^ 64 = x at hlt
  rw [hpow] at hlt
  exact (Nat.div_lt_iff_lt_mul (Nat.pow_pos (by decide))).mpr hlt

theorem item_match_eq (t : HTag) (p : Item) : item_match t p.a p.b p.c p.d = itemMatch t p := by
  unfold item_match itemMatch anyItem
  simp only [show (2 : Nat) ^ 64 - 1 = 18446744073709551615 from by decide]
  split <;> simp_all <;> omega

end CimbaModel.HashHeap
