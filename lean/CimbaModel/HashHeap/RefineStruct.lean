/-
  Refinement proof of the hashheap, part 3: the structural invariant `WFS` is preserved by the three
  elementary changes every operation is made of: swapping two live heap entries (sift loops,
  move-last-into-hole), deleting one (tombstone), inserting one at the first free slot of its
  probe path (enqueue, rehash).
-/
import CimbaModel.HashHeap.RefineHash

set_option linter.unusedSimpArgs false

namespace CimbaModel.HashHeap
open CimbaModel CimbaModel.KPQ

variable {T : Nat → HTag} {S : Nat → HSlot} {L : Nat → Prop} {e : Nat}

/-- the probe-chain invariant only depends on the keys in the map and on which slots are occupied -/
theorem probe_mono {S S' : Nat → HSlot} {e : Nat}
    (hk : ∀ j, j < 2 ^ (e + 1) → (S' j).key = (S j).key)
    (ho : ∀ j, j < 2 ^ (e + 1) → (S' j).idx ≠ 0 → (S j).idx ≠ 0)
    (p : ∀ j, j < 2 ^ (e + 1) → (S j).idx ≠ 0 → ChainOK S e j) :
    ∀ j, j < 2 ^ (e + 1) → (S' j).idx ≠ 0 → ChainOK S' e j := by
  intro j hj hne m hm
  have hpos := two_pow_pos (e + 1)
  rw [hk j hj] at hm ⊢
  rw [hk _ (Nat.mod_lt _ hpos)]
  exact p j hj (ho j hj hne) m hm

theorem WFS.swap (w : WFS T S L e) {a b : Nat} (ha : L a) (hb : L b) (hab : a ≠ b) :
    WFS (upd (upd T a (T b)) b (T a))
        (upd (upd S (T a).hidx ⟨(T a).key, b⟩) (T b).hidx ⟨(T b).key, a⟩) L e := by
  have ba := w.back a ha
  have bb := w.back b hb
  have hj : (T a).hidx ≠ (T b).hidx := fun h => hab (w.hidx_inj ha hb h)
  refine ⟨w.lpos, ?_, ?_, ?_, ?_, ?_⟩
  · intro i hi
    have := w.keyOk i hi; have := w.keyOk a ha; have := w.keyOk b hb
    simp only [upd_apply]; split <;> (try split) <;> assumption
  · intro i hi
    have bi := w.back i hi
    by_cases h1 : i = b
    · subst h1; simp [upd_apply, hj, ba.1]
    · by_cases h2 : i = a
      · subst h2; simp [upd_apply, h1, bb.1]
      · have : (T i).hidx ≠ (T a).hidx := fun h => h2 (w.hidx_inj hi ha h)
        have : (T i).hidx ≠ (T b).hidx := fun h => h1 (w.hidx_inj hi hb h)
        simp [upd_apply, *]
  · intro j hjn hne
    by_cases h1 : j = (T b).hidx
    · subst h1; simp [upd_apply, hab, ha]
    · by_cases h2 : j = (T a).hidx
      · subst h2; simp [upd_apply, h1, hb]
      · simp only [upd_apply, h1, h2, if_false] at hne ⊢
        have f := w.fwd j hjn hne
        refine ⟨f.1, ?_⟩
        have : (S j).idx ≠ a := fun h => h2 (by rw [← f.2, h])
        have : (S j).idx ≠ b := fun h => h1 (by rw [← f.2, h])
        simp [*]
  · intro j hjn
    have := w.unused j hjn
    have := (w.keyOk a ha).1; have := (w.keyOk b hb).1
    simp only [upd_apply]; split <;> (try split) <;> simp_all
  · apply probe_mono (S := S) _ _ w.probe
    · intro j hjn; simp only [upd_apply]
      split <;> (try split) <;> simp_all
    · intro j hjn; simp only [upd_apply]
      have := w.lpos a ha; have := w.lpos b hb
      split <;> (try split) <;> simp_all

/-- deleting a live entry: its slot becomes a tombstone -/
theorem WFS.delete (w : WFS T S L e) {a : Nat} (ha : L a) :
    WFS T (upd S (T a).hidx ⟨(T a).key, 0⟩) (fun i => L i ∧ i ≠ a) e := by
  have ba := w.back a ha
  refine ⟨fun i hi => w.lpos i hi.1, fun i hi => w.keyOk i hi.1, ?_, ?_, ?_, ?_⟩
  · intro i hi
    have bi := w.back i hi.1
    have : (T i).hidx ≠ (T a).hidx := fun h => hi.2 (w.hidx_inj hi.1 ha h)
    simp [*]
  · intro j hjn hne
    by_cases h1 : j = (T a).hidx
    · subst h1; simp at hne
    · simp only [upd_apply, h1, if_false] at hne ⊢
      have f := w.fwd j hjn hne
      exact ⟨⟨f.1, fun h => h1 (by rw [← f.2, h])⟩, f.2⟩
  · intro j hjn
    have := w.unused j hjn
    simp only [upd_apply]; split <;> simp_all
  · apply probe_mono (S := S) _ _ w.probe
    · intro j hjn; simp only [upd_apply]
      split <;> simp_all
    · intro j hjn; simp only [upd_apply]
      split <;> simp_all

/-- inserting a fresh key as heap entry `a` at the first free slot `p` of its probe path -/
theorem WFS.insert (w : WFS T S L e) (he : e < 63) {a p : Nat} (t : HTag) (hna : ¬ L a) (ha0 : a ≠ 0)
    (hk : t.key ≠ 0 ∧ t.key < 2 ^ 64) (hfresh : ∀ i, L i → (T i).key ≠ t.key)
    (hp : p < 2 ^ (e + 1)) (htp : t.hidx = p) (hfree : (S p).idx = 0)
    (hchain : ∀ m, m < probeDist (2 ^ (e + 1)) (hashKey e t.key) p →
      (S ((hashKey e t.key + m) % 2 ^ (e + 1))).idx ≠ 0) :
    WFS (upd T a t) (upd S p ⟨t.key, a⟩) (fun i => L i ∨ i = a) e := by
  have hpos := two_pow_pos (e + 1)
  have hh := hashKey_lt e t.key he
  have hTp : ∀ i, L i → (T i).hidx ≠ p := by
    intro i hi h
    have := (w.back i hi).2
    rw [h] at this
    rw [this] at hfree
    exact w.lpos i hi hfree
  refine ⟨?_, ?_, ?_, ?_, ?_, ?_⟩
  · rintro i (hi | rfl)
    · exact w.lpos i hi
    · exact ha0
  · rintro i (hi | rfl)
    · have : i ≠ a := fun h => hna (h ▸ hi)
      simp [this, w.keyOk i hi]
    · simp [hk]
  · rintro i (hi | rfl)
    · have : i ≠ a := fun h => hna (h ▸ hi)
      have := hTp i hi
      have := w.back i hi
      simp [*]
    · simp [htp, hp]
  · intro j hjn hne
    by_cases h1 : j = p
    · subst h1; simp [htp]
    · simp only [upd_apply, h1, if_false] at hne ⊢
      have f := w.fwd j hjn hne
      have : (S j).idx ≠ a := fun h => hna (h ▸ f.1)
      simp [this, f]
  · intro j hjn
    have := w.unused j hjn
    simp only [upd_apply]; split <;> simp_all
  · intro j hjn hne
    by_cases h1 : j = p
    · subst h1
      intro m hm
      simp only [upd_same] at hm ⊢
      have hmn : m < 2 ^ (e + 1) := by have := probeDist_lt (2 ^ (e + 1)) (hashKey e t.key) j hpos; omega
      have hq : (hashKey e t.key + m) % 2 ^ (e + 1) ≠ j := by
        intro h; rw [← h, probeDist_step _ _ _ hh hmn] at hm; omega
      have hocc := hchain m hm
      have l := w.slot_live (Nat.mod_lt _ hpos) hocc
      rw [upd_other _ _ _ _ hq]
      constructor
      · intro h0; exact hocc (w.unused _ (Nat.mod_lt _ hpos) h0)
      · rw [← l.2.2]; exact hfresh _ l.1
    · simp only [upd_apply, h1, if_false] at hne
      have l := w.slot_live hjn hne
      have pj := w.probe j hjn hne
      intro m hm
      rw [upd_other _ _ _ _ h1] at hm ⊢
      have := pj m hm
      simp only [upd_apply]
      split
      · simp only []
        exact ⟨hk.1, by rw [← l.2.2]; exact (hfresh _ l.1).symm⟩
      · exact this

end CimbaModel.HashHeap
