/-
  Refinement proof of the hashheap, part 12: a payload stays attached to its key.  What `lookup` reports for a
  key after each updating operation, in terms of what it reported before: only the entry addressed by the
  operation changes.
-/
import CimbaModel.HashHeap.RefineTrace

namespace CimbaModel.HashHeap
open CimbaModel CimbaModel.KPQ

/-! ### lookups in a queue with distinct keys -/

theorem eq_of_key_eq : ∀ {q : KPQ}, (keys q).Nodup → ∀ {x y : HTag}, x ∈ q → y ∈ q → x.key = y.key → x = y := by
  intro q
  induction q with
  | nil => intro _ x y hx; cases hx
  | cons a q ih =>
    intro hnd x y hx hy hk
    have hnd' : (a.key :: keys q).Nodup := hnd
    rw [List.nodup_cons] at hnd'
    rcases List.mem_cons.1 hx with rfl | hx' <;> rcases List.mem_cons.1 hy with rfl | hy'
    · rfl
    · exact absurd (List.mem_map.2 ⟨y, hy', hk.symm⟩) hnd'.1
    · exact absurd (List.mem_map.2 ⟨x, hx', hk⟩) hnd'.1
    · exact ih hnd'.2 hx' hy' hk

theorem lookup_eq_some_iff {q : KPQ} (hnd : (keys q).Nodup) (k : Nat) (t : HTag) :
    KPQ.lookup q k = some t ↔ t ∈ q ∧ t.key = k := by
  unfold KPQ.lookup
  constructor
  · intro h
    have hp := List.find?_some h
    exact ⟨List.mem_of_find?_eq_some h, of_decide_eq_true hp⟩
  · rintro ⟨hm, hk⟩
    cases hf : q.find? (fun x => decide (x.key = k)) with
    | none => exact absurd (decide_eq_true hk) (List.find?_eq_none.1 hf t hm)
    | some t' =>
      have hm' := List.mem_of_find?_eq_some hf
      have hp := List.find?_some hf
      have hk' : t'.key = k := of_decide_eq_true hp
      rw [eq_of_key_eq hnd hm' hm (hk'.trans hk.symm)]

theorem lookup_eq_none_iff (q : KPQ) (k : Nat) : KPQ.lookup q k = none ↔ k ∉ keys q := by
  unfold KPQ.lookup keys
  rw [List.find?_eq_none]
  constructor
  · intro h hm
    obtain ⟨x, hx, rfl⟩ := List.mem_map.1 hm
    exact h x hx (decide_eq_true rfl)
  · intro h x hx hp
    exact h (List.mem_map.2 ⟨x, hx, of_decide_eq_true hp⟩)

theorem lookup_ext {q q' : KPQ} (hnd : (keys q).Nodup) (hnd' : (keys q').Nodup) (k : Nat)
    (h : ∀ t, t.key = k → (t ∈ q' ↔ t ∈ q)) : KPQ.lookup q' k = KPQ.lookup q k := by
  apply Option.ext
  intro t
  rw [lookup_eq_some_iff hnd', lookup_eq_some_iff hnd]
  constructor
  · rintro ⟨hm, hk⟩; exact ⟨(h t hk).1 hm, hk⟩
  · rintro ⟨hm, hk⟩; exact ⟨(h t hk).2 hm, hk⟩

variable {lt : Order}

/-! ### after each updating operation -/

theorem lookup_after_insert {s s' : HH} (h : WF lt s) (h' : WF lt s') (t : HTag)
    (hperm : (abs s').Perm (KPQ.insert (abs s) t)) :
    KPQ.lookup (abs s') t.key = some (norm t) ∧
    ∀ k, k ≠ t.key → KPQ.lookup (abs s') k = KPQ.lookup (abs s) k := by
  constructor
  · rw [lookup_eq_some_iff h'.keys_nodup]
    exact ⟨hperm.mem_iff.2 List.mem_cons_self, rfl⟩
  · intro k hk
    apply lookup_ext h.keys_nodup h'.keys_nodup
    intro x hx
    rw [hperm.mem_iff]
    unfold KPQ.insert
    rw [List.mem_cons]
    constructor
    · rintro (rfl | hm)
      · exact absurd hx.symm hk
      · exact hm
    · exact Or.inr

theorem lookup_after_remove {s s' : HH} (h : WF lt s) (h' : WF lt s') (k : Nat)
    (hperm : (abs s').Perm (KPQ.remove (abs s) k)) :
    KPQ.lookup (abs s') k = none ∧ ∀ k2, k2 ≠ k → KPQ.lookup (abs s') k2 = KPQ.lookup (abs s) k2 := by
  constructor
  · rw [lookup_eq_none_iff]
    intro hm
    obtain ⟨x, hx, hk⟩ := List.mem_map.1 hm
    have := hperm.mem_iff.1 hx
    unfold KPQ.remove at this
    exact of_decide_eq_true (List.mem_filter.1 this).2 hk
  · intro k2 hk2
    apply lookup_ext h.keys_nodup h'.keys_nodup
    intro x hx
    rw [hperm.mem_iff]
    unfold KPQ.remove
    rw [List.mem_filter]
    constructor
    · exact fun hm => hm.1
    · exact fun hm => ⟨hm, decide_eq_true (by rw [hx]; exact hk2)⟩

theorem lookup_after_reprio {s s' : HH} (h : WF lt s) (h' : WF lt s') (k : Nat) (d i : Int)
    (hperm : (abs s').Perm (KPQ.reprio (abs s) k d i)) :
    KPQ.lookup (abs s') k = (KPQ.lookup (abs s) k).map (fun t => { t with d := d, i := i }) ∧
    ∀ k2, k2 ≠ k → KPQ.lookup (abs s') k2 = KPQ.lookup (abs s) k2 := by
  have hmem : ∀ x, x ∈ abs s' ↔ ∃ y, y ∈ abs s ∧ (if y.key = k then { y with d := d, i := i } else y) = x := by
    intro x
    rw [hperm.mem_iff]
    unfold KPQ.reprio
    exact List.mem_map
  constructor
  · cases hl : KPQ.lookup (abs s) k with
    | none =>
      rw [lookup_eq_none_iff] at hl
      show _ = none
      rw [lookup_eq_none_iff]
      intro hm
      obtain ⟨x, hx, hk⟩ := List.mem_map.1 hm
      obtain ⟨y, hy, rfl⟩ := (hmem x).1 hx
      apply hl
      refine List.mem_map.2 ⟨y, hy, ?_⟩
      by_cases hyk : y.key = k
      · exact hyk
      · simp [hyk] at hk
    | some t =>
      rw [lookup_eq_some_iff h.keys_nodup] at hl
      show _ = some _
      rw [lookup_eq_some_iff h'.keys_nodup]
      exact ⟨(hmem _).2 ⟨t, hl.1, by simp [hl.2]⟩, hl.2⟩
  · intro k2 hk2
    apply lookup_ext h.keys_nodup h'.keys_nodup
    intro x hx
    rw [hmem]
    constructor
    · rintro ⟨y, hy, rfl⟩
      by_cases hyk : y.key = k
      · exfalso; apply hk2; rw [← hx]; simp [hyk]
      · simpa [hyk] using hy
    · intro hm
      exact ⟨x, hm, by simp [show x.key ≠ k from by rw [hx]; exact hk2]⟩

theorem lookup_after_dequeue {s s' : HH} (h : WF lt s) (h' : WF lt s') (e : HTag)
    (hperm : (abs s).Perm (e :: abs s')) :
    KPQ.lookup (abs s') e.key = none ∧ ∀ k, k ≠ e.key → KPQ.lookup (abs s') k = KPQ.lookup (abs s) k := by
  have hnd : (keys (e :: abs s')).Nodup := by
    have : (keys (abs s)).Perm (keys (e :: abs s')) := hperm.map _
    exact this.nodup_iff.1 h.keys_nodup
  constructor
  · rw [lookup_eq_none_iff]
    exact (List.nodup_cons.1 hnd).1
  · intro k hk
    apply lookup_ext h.keys_nodup h'.keys_nodup
    intro x hx
    rw [hperm.mem_iff, List.mem_cons]
    constructor
    · exact Or.inr
    · rintro (rfl | hm)
      · exact absurd hx.symm hk
      · exact hm

end CimbaModel.HashHeap
