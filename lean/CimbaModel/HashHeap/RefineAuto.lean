/-
  Refinement proof of the hashheap, part 13: automatically issued keys, and uniqueness of the minimum.
  If every live key is at most the item counter (true as long as callers only pass key 0, or keys not above the
  next automatic one), the key the next `enqueue` issues is fresh, so the freshness precondition of `enqueue`
  holds by itself.
-/
import CimbaModel.HashHeap.RefineLookup

namespace CimbaModel.HashHeap
open CimbaModel CimbaModel.KPQ

/-- every live key has been issued by the counter (or is not above it) -/
def KeysBelowCounter (s : HH) : Prop := ∀ k, k ∈ keys (abs s) → k ≤ s.counter

theorem KeysBelowCounter.fresh {s : HH} (h : KeysBelowCounter s) : s.counter + 1 ∉ keys (abs s) := by
  intro hm; have := h _ hm; omega

theorem KeysBelowCounter.of_subset {s s' : HH} (h : KeysBelowCounter s) (hc : s.counter ≤ s'.counter)
    (hsub : ∀ k, k ∈ keys (abs s') → k ∈ keys (abs s)) : KeysBelowCounter s' := by
  intro k hk; have := h k (hsub k hk); omega

variable {lt : Order}

theorem keys_perm {q q' : KPQ} (h : q.Perm q') (k : Nat) : k ∈ keys q ↔ k ∈ keys q' :=
  (h.map (·.key)).mem_iff

theorem auto_enqueue [StrictWeak lt] [IgnoresHidx lt] {s : HH} (h : WF lt s) (hkb : KeysBelowCounter s)
    (it : Item) (k : Nat) (d i : Int) (hk : k ≤ s.counter + 1)
    (hctr : s.counter + 1 < 2 ^ 64) (hfresh : k ≠ 0 → k ∉ keys (abs s))
    (hroom : s.count < 2 ^ s.exp ∨ s.exp < 31) :
    ∃ s', enqueue lt s it k d i = .ok (s', if k = 0 then s.counter + 1 else k) ∧ WF lt s' ∧
      (abs s').Perm (KPQ.insert (abs s) ⟨if k = 0 then s.counter + 1 else k, 0, it, d, i⟩) ∧
      s'.counter = s.counter + 1 ∧ KeysBelowCounter s' ∧ s'.count = s.count + 1 ∧ s'.expInit = s.expInit := by
  have h0 : (if k = 0 then s.counter + 1 else k) ≠ 0 := by split <;> omega
  have h64 : (if k = 0 then s.counter + 1 else k) < 2 ^ 64 := by split <;> omega
  have hf : (if k = 0 then s.counter + 1 else k) ∉ keys (abs s) := by
    split
    · exact hkb.fresh
    · exact hfresh ‹_›
  obtain ⟨s', hrun, hwf, hperm, hct, hei, _, hc⟩ := enqueue_abs h it k d i h0 h64 hf hroom
  refine ⟨s', hrun, hwf, hperm, hct, ?_, hc, hei⟩
  intro k2 hk2
  rw [keys_perm hperm] at hk2
  rcases List.mem_cons.1 hk2 with rfl | hm
  · rw [hct]; show (if k = 0 then s.counter + 1 else k) ≤ _; split <;> omega
  · have := hkb k2 hm; omega

/-! ### with an order that is total on distinct keys the minimum is unique -/

theorem isMin_unique [t : TotalOnKeys lt] {q : KPQ} (hnd : (keys q).Nodup) {e e' : HTag}
    (h : IsMin lt q e) (h' : IsMin lt q e') : e = e' := by
  apply Classical.byContradiction
  intro hne
  have hk : e.key ≠ e'.key := fun hk => hne (eq_of_key_eq hnd h.1 h'.1 hk)
  rcases t.total e e' hk with hlt | hlt
  · have := h'.2 e h.1; rw [hlt] at this; cases this
  · have := h.2 e' h'.1; rw [hlt] at this; cases this

end CimbaModel.HashHeap
