/-
  Refinement proof of the hashheap, part 4: pure heap-order reasoning for the sift loops.
  `UpOrd T c k`  : the heap order holds everywhere except possibly between `k` and its parent.
  `DownOrd T c k`: the heap order holds everywhere except possibly between `k` and its children.
  One iteration of `heap_up` / `heap_down` is a swap of the hole with its parent / smaller child.
-/
import CimbaModel.HashHeap.RefineStruct

set_option linter.unusedSimpArgs false

namespace CimbaModel.HashHeap
open CimbaModel CimbaModel.KPQ

/-- exchange the tags at heap indices `a` and `b` -/
def swapT (T : Nat → HTag) (a b : Nat) : Nat → HTag := upd (upd T a (T b)) b (T a)

theorem swapT_apply (T : Nat → HTag) (a b i : Nat) :
    swapT T a b i = if i = b then T a else if i = a then T b else T i := rfl

section
variable {lt : Order} [sw : StrictWeak lt]

theorem lt_asymm {a b : HTag} (h : lt a b = true) : lt b a = false := StrictWeak.asymm a b h

/-- `x` not before `p` and `w` before `p` ⇒ `x` not before `w` -/
theorem lt_A {x w p : HTag} (h1 : lt x p = false) (h2 : lt w p = true) : lt x w = false := by
  cases h : lt x w with
  | false => rfl
  | true => rw [sw.trans x w p h h2] at h1; exact absurd h1 (by simp)

theorem lt_B {a b c : HTag} (h1 : lt a b = false) (h2 : lt b c = false) : lt a c = false :=
  sw.negTrans a b c h1 h2

/-- `a` before `b` and `a` not before `c` ⇒ `b` not before `c` -/
theorem lt_D {a b c : HTag} (h1 : lt a b = true) (h2 : lt a c = false) : lt b c = false := by
  cases h : lt b c with
  | false => rfl
  | true => rw [sw.trans a b c h1 h] at h2; exact absurd h2 (by simp)

end

def UpOrd (lt : Order) (T : Nat → HTag) (c k : Nat) : Prop :=
  (∀ i, 2 ≤ i → i ≤ c → i ≠ k → lt (T i) (T (i / 2)) = false) ∧
  (∀ i, 2 ≤ i → i ≤ c → i / 2 = k → 2 ≤ k → lt (T i) (T (k / 2)) = false)

def DownOrd (lt : Order) (T : Nat → HTag) (c k : Nat) : Prop :=
  (∀ i, 2 ≤ i → i ≤ c → i / 2 ≠ k → lt (T i) (T (i / 2)) = false) ∧
  (∀ i, 2 ≤ i → i ≤ c → i / 2 = k → 2 ≤ k → lt (T i) (T (k / 2)) = false)

theorem Ord.congr {lt : Order} {T T' : Nat → HTag} {c : Nat} (h : Ord lt T c)
    (hT : ∀ i, 1 ≤ i → i ≤ c → T' i = T i) : Ord lt T' c := by
  intro i h2 hc
  rw [hT i (by omega) hc, hT (i / 2) (by omega) (by omega)]
  exact h i h2 hc

theorem UpOrd.congr {lt : Order} {T T' : Nat → HTag} {c k : Nat} (h : UpOrd lt T c k)
    (hT : ∀ i, 1 ≤ i → i ≤ c → T' i = T i) : UpOrd lt T' c k := by
  constructor
  · intro i h2 hc hk
    rw [hT i (by omega) hc, hT (i / 2) (by omega) (by omega)]
    exact h.1 i h2 hc hk
  · intro i h2 hc hk hk2
    rw [hT i (by omega) hc, hT (k / 2) (by omega) (by omega)]
    exact h.2 i h2 hc hk hk2

theorem DownOrd.congr {lt : Order} {T T' : Nat → HTag} {c k : Nat} (h : DownOrd lt T c k)
    (hT : ∀ i, 1 ≤ i → i ≤ c → T' i = T i) : DownOrd lt T' c k := by
  constructor
  · intro i h2 hc hk
    rw [hT i (by omega) hc, hT (i / 2) (by omega) (by omega)]
    exact h.1 i h2 hc hk
  · intro i h2 hc hk hk2
    rw [hT i (by omega) hc, hT (k / 2) (by omega) (by omega)]
    exact h.2 i h2 hc hk hk2

variable {lt : Order} [sw : StrictWeak lt] {T : Nat → HTag} {c k : Nat}

theorem UpOrd.step (h : UpOrd lt T c k) (hk2 : 2 ≤ k) (hkc : k ≤ c) (hlt : lt (T k) (T (k / 2)) = true) :
    UpOrd lt (swapT T k (k / 2)) c (k / 2) := by
  constructor
  · intro i h2 hc hil
    by_cases hik : i = k
    · subst hik
      have e1 : swapT T i (i / 2) i = T (i / 2) := by simp [swapT_apply]; omega
      have e2 : swapT T i (i / 2) (i / 2) = T i := by simp [swapT_apply]
      rw [e1, e2]; exact lt_asymm hlt
    · have e1 : swapT T k (k / 2) i = T i := by simp [swapT_apply, hik, hil]
      rw [e1]
      by_cases hp1 : i / 2 = k
      · have e2 : swapT T k (k / 2) (i / 2) = T (k / 2) := by
          rw [hp1]; simp [swapT_apply]; omega
        rw [e2]; exact h.2 i h2 hc hp1 hk2
      · by_cases hp2 : i / 2 = k / 2
        · have e2 : swapT T k (k / 2) (i / 2) = T k := by rw [hp2]; simp [swapT_apply]
          rw [e2]
          have := h.1 i h2 hc hik
          rw [hp2] at this
          exact lt_A this hlt
        · have e2 : swapT T k (k / 2) (i / 2) = T (i / 2) := by simp [swapT_apply, hp1, hp2]
          rw [e2]; exact h.1 i h2 hc hik
  · intro i h2 hc hil hl2
    have e0 : swapT T k (k / 2) (k / 2 / 2) = T (k / 2 / 2) := by
      simp [swapT_apply]
      rw [if_neg (by omega), if_neg (by omega)]
    rw [e0]
    have hl := h.1 (k / 2) hl2 (by omega) (by omega)
    by_cases hik : i = k
    · subst hik
      have e1 : swapT T i (i / 2) i = T (i / 2) := by simp [swapT_apply]; omega
      rw [e1]; exact hl
    · have e1 : swapT T k (k / 2) i = T i := by
        simp [swapT_apply, hik]; omega
      rw [e1]
      have := h.1 i h2 hc hik
      rw [hil] at this
      exact lt_B this hl

omit sw in
theorem UpOrd.done (h : UpOrd lt T c k) (hlt : 2 ≤ k → lt (T k) (T (k / 2)) = false) : Ord lt T c := by
  intro i h2 hc
  by_cases hik : i = k
  · subst hik; exact hlt h2
  · exact h.1 i h2 hc hik

omit sw in
theorem DownOrd.step {l : Nat} (h : DownOrd lt T c k) (hk1 : 1 ≤ k) (hlk : l / 2 = k) (hl2 : 2 ≤ l) (hlc : l ≤ c)
    (hmin : ∀ o, 2 ≤ o → o ≤ c → o / 2 = k → lt (T o) (T l) = false)
    (hlt : lt (T k) (T l) = false) :
    DownOrd lt (swapT T k l) c l := by
  have hkl : k ≠ l := by omega
  constructor
  · intro i h2 hc hil
    by_cases hi1 : i = l
    · subst hi1
      have e1 : swapT T k i i = T k := by simp [swapT_apply]
      have e2 : swapT T k i (i / 2) = T i := by rw [hlk]; simp [swapT_apply, hkl]
      rw [e1, e2]; exact hlt
    · by_cases hi2 : i = k
      · subst hi2
        have e1 : swapT T i l i = T l := by simp [swapT_apply, hkl]
        have e2 : swapT T i l (i / 2) = T (i / 2) := by
          simp [swapT_apply]; rw [if_neg (by omega), if_neg (by omega)]
        rw [e1, e2]; exact h.2 l hl2 hlc hlk h2
      · have e1 : swapT T k l i = T i := by simp [swapT_apply, hi1, hi2]
        rw [e1]
        by_cases hp : i / 2 = k
        · have e2 : swapT T k l (i / 2) = T l := by rw [hp]; simp [swapT_apply, hkl]
          rw [e2]; exact hmin i h2 hc hp
        · have e2 : swapT T k l (i / 2) = T (i / 2) := by simp [swapT_apply, hp, hil]
          rw [e2]; exact h.1 i h2 hc hp
  · intro i h2 hc hil _
    have e1 : swapT T k l i = T i := by
      simp [swapT_apply]; rw [if_neg (by omega), if_neg (by omega)]
    have e2 : swapT T k l (l / 2) = T l := by rw [hlk]; simp [swapT_apply, hkl]
    rw [e1, e2]
    have := h.1 i h2 hc (by omega)
    rw [hil] at this; exact this

omit sw in
theorem DownOrd.done_leaf (h : DownOrd lt T c k) (hleaf : c < 2 * k) : Ord lt T c := by
  intro i h2 hc
  exact h.1 i h2 hc (by omega)

theorem DownOrd.done_le {l : Nat} (h : DownOrd lt T c k)
    (hmin : ∀ o, 2 ≤ o → o ≤ c → o / 2 = k → lt (T o) (T l) = false)
    (hlt : lt (T k) (T l) = true) : Ord lt T c := by
  intro i h2 hc
  by_cases hp : i / 2 = k
  · rw [hp]; exact lt_A (hmin i h2 hc hp) hlt
  · exact h.1 i h2 hc hp

/-- the root is a minimum -/
theorem Ord.root_min (h : Ord lt T c) : ∀ i, 1 ≤ i → i ≤ c → lt (T i) (T 1) = false := by
  intro i
  induction i using Nat.strongRecOn with
  | _ i ih =>
    intro h1 hc
    by_cases hi : i = 1
    · subst hi; exact sw.irrefl _
    · have := ih (i / 2) (by omega) (by omega) (by omega)
      exact lt_B (h i (by omega) hc) this

/-! ### live tags under a swap -/

theorem Live.swap {a b : Nat} (ha : InR c a) (hb : InR c b) (x : HTag) :
    Live (swapT T a b) c x ↔ Live T c x := by
  constructor
  · rintro ⟨i, h1, h2, rfl⟩
    rw [swapT_apply]
    split
    · exact ⟨a, ha.1, ha.2, rfl⟩
    · split
      · exact ⟨b, hb.1, hb.2, rfl⟩
      · exact ⟨i, h1, h2, rfl⟩
  · rintro ⟨i, h1, h2, rfl⟩
    by_cases hia : i = a
    · subst hia; exact ⟨b, hb.1, hb.2, by simp [swapT_apply]⟩
    · by_cases hib : i = b
      · subst hib
        refine ⟨a, ha.1, ha.2, ?_⟩
        rw [swapT_apply]; split
        · subst_vars; rfl
        · simp
      · exact ⟨i, h1, h2, by simp [swapT_apply, hia, hib]⟩

theorem Live.congr {T' : Nat → HTag} (hT : ∀ i, 1 ≤ i → i ≤ c → T' i = T i) (x : HTag) :
    Live T' c x ↔ Live T c x := by
  constructor
  · rintro ⟨i, h1, h2, rfl⟩; exact ⟨i, h1, h2, (hT i h1 h2).symm⟩
  · rintro ⟨i, h1, h2, rfl⟩; exact ⟨i, h1, h2, hT i h1 h2⟩

end CimbaModel.HashHeap
