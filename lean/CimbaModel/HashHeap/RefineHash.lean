/-
  Refinement proof of the hashheap, part 2: the open-addressing hash map.
  Probe arithmetic, `findIndex` / `findSlot` correctness from the probe-chain invariant,
  distinctness of live keys, existence of a free slot (pigeonhole), and preservation of the
  structural invariant `WFS` by the three elementary changes every operation is made of:
  swapping two live heap entries, deleting one (tombstone), inserting one.
-/
import CimbaModel.HashHeap.RefineBasic

namespace CimbaModel.HashHeap
open CimbaModel CimbaModel.KPQ

/-! ### probe arithmetic -/

theorem mod_cases (x n : Nat) (hx : x < 2 * n) : x % n = if x < n then x else x - n := by
  split
  · exact Nat.mod_eq_of_lt ‹_›
  · rw [Nat.mod_eq_sub_mod (by omega)]; exact Nat.mod_eq_of_lt (by omega)

theorem probeDist_lt (n h j : Nat) (hn : 0 < n) : probeDist n h j < n := Nat.mod_lt _ hn

theorem probe_reach (n h j : Nat) (hh : h < n) (hj : j < n) : (h + probeDist n h j) % n = j := by
  unfold probeDist
  rw [mod_cases (j + n - h) n (by omega)]
  split
  · rw [mod_cases _ n (by omega)]; split <;> omega
  · rw [mod_cases _ n (by omega)]; split <;> omega

theorem probeDist_step (n h m : Nat) (hh : h < n) (hm : m < n) : probeDist n h ((h + m) % n) = m := by
  unfold probeDist
  rw [mod_cases (h + m) n (by omega)]
  split
  · rw [mod_cases _ n (by omega)]; split <;> omega
  · rw [mod_cases _ n (by omega)]; split <;> omega

theorem probe_next (n h m : Nat) : ((h + m) % n + 1) % n = (h + (m + 1)) % n := by
  rw [Nat.mod_add_mod]; rfl

theorem two_pow_pos (e : Nat) : 0 < 2 ^ e := Nat.pow_pos (by decide)

/-! ### `findIndexLoop` -/

theorem findIndexLoop_hit (hs : Array HSlot) (key n h d : Nat) (hn : hs.size = n) (hd : d < n)
    (hpre : ∀ m, m < d → (sl hs ((h + m) % n)).key ≠ key ∧ (sl hs ((h + m) % n)).key ≠ 0)
    (hit : (sl hs ((h + d) % n)).key = key) :
    ∀ r m fuel, m + r = d → d < m + fuel →
      findIndexLoop hs key fuel ((h + m) % n) = .ok (sl hs ((h + d) % n)).idx := by
  have hpos : 0 < n := by omega
  intro r
  induction r with
  | zero =>
    intro m fuel hm hf
    obtain ⟨f, rfl⟩ : ∃ f, fuel = f + 1 := ⟨fuel - 1, by omega⟩
    have hmd : m = d := by omega
    subst hmd
    rw [findIndexLoop, rdHash_ok (by rw [hn]; exact Nat.mod_lt _ hpos)]
    simp [hit]
  | succ r ih =>
    intro m fuel hm hf
    obtain ⟨f, rfl⟩ : ∃ f, fuel = f + 1 := ⟨fuel - 1, by omega⟩
    have hp := hpre m (by omega)
    rw [findIndexLoop, rdHash_ok (by rw [hn]; exact Nat.mod_lt _ hpos)]
    simp only [ok_bind, hp.1, hp.2, if_false]
    rw [hn, probe_next]
    exact ih (m + 1) f (by omega) (by omega)

theorem findIndexLoop_miss (hs : Array HSlot) (key n : Nat) (hn : hs.size = n) (hpos : 0 < n)
    (hz : ∀ j, j < n → (sl hs j).key = key → (sl hs j).idx = 0) :
    ∀ fuel pos, pos < n → findIndexLoop hs key fuel pos = .ok 0 := by
  intro fuel
  induction fuel with
  | zero => intro pos _; rfl
  | succ f ih =>
    intro pos hp
    rw [findIndexLoop, rdHash_ok (by omega)]
    simp only [ok_bind]
    split
    · rw [hz pos hp ‹_›]
    · split
      · rfl
      · exact ih _ (by rw [hn]; exact Nat.mod_lt _ hpos)

/-! ### consequences of `WFS` -/

section
variable {T : Nat → HTag} {S : Nat → HSlot} {L : Nat → Prop} {e : Nat}

theorem WFS.hidx_inj (w : WFS T S L e) {i i' : Nat} (hi : L i) (hi' : L i')
    (h : (T i).hidx = (T i').hidx) : i = i' := by
  have b := (w.back i hi).2
  have b' := (w.back i' hi').2
  rw [h, b'] at b
  exact (congrArg HSlot.idx b).symm

theorem WFS.slot_live (w : WFS T S L e) {j : Nat} (hj : j < 2 ^ (e + 1)) (hne : (S j).idx ≠ 0) :
    L (S j).idx ∧ (T (S j).idx).hidx = j ∧ (T (S j).idx).key = (S j).key := by
  have f := w.fwd j hj hne
  have b := (w.back _ f.1).2
  rw [f.2] at b
  exact ⟨f.1, f.2, (congrArg HSlot.key b).symm⟩

private theorem key_inj_aux (w : WFS T S L e) (he : e < 63) {i i' : Nat} (hi : L i) (hi' : L i')
    (hk : (T i).key = (T i').key)
    (hlt : probeDist (2 ^ (e + 1)) (hashKey e (T i).key) (T i).hidx <
           probeDist (2 ^ (e + 1)) (hashKey e (T i).key) (T i').hidx) : False := by
  have b := w.back i hi
  have b' := w.back i' hi'
  have hne : (S (T i').hidx).idx ≠ 0 := by rw [b'.2]; exact w.lpos i' hi'
  have p := w.probe _ b'.1 hne
  have hkey' : (S (T i').hidx).key = (T i).key := by rw [b'.2]; exact hk.symm
  unfold ChainOK at p
  rw [hkey'] at p
  have := (p _ hlt).2
  rw [probe_reach _ _ _ (hashKey_lt e _ he) b.1, b.2] at this
  exact this rfl

/-- live keys are pairwise distinct (a consequence of the probe-chain invariant) -/
theorem WFS.key_inj (w : WFS T S L e) (he : e < 63) {i i' : Nat} (hi : L i) (hi' : L i')
    (hk : (T i).key = (T i').key) : i = i' := by
  have b := w.back i hi
  have b' := w.back i' hi'
  rcases Nat.lt_trichotomy (probeDist (2 ^ (e + 1)) (hashKey e (T i).key) (T i).hidx)
      (probeDist (2 ^ (e + 1)) (hashKey e (T i).key) (T i').hidx) with h | h | h
  · exact (key_inj_aux w he hi hi' hk h).elim
  · have r1 := probe_reach _ _ _ (hashKey_lt e (T i).key he) b.1
    have r2 := probe_reach _ _ _ (hashKey_lt e (T i).key he) b'.1
    rw [h] at r1
    exact w.hidx_inj hi hi' (r1.symm.trans r2)
  · rw [hk] at h
    exact (key_inj_aux w he hi' hi hk.symm h).elim

end

/-- `findIndex` finds the heap index of every live key (first key match on the probe path is the
    live slot, never a stale tombstone) -/
theorem findIndex_live (s : HH) {L : Nat → Prop} (hsz : s.hash.size = 2 ^ (s.exp + 1)) (he : s.exp < 63)
    (w : WFS s.tag s.slot L s.exp) {i : Nat} (hi : L i) : findIndex s (s.tag i).key = .ok i := by
  have b := w.back i hi
  have hne : (s.slot (s.tag i).hidx).idx ≠ 0 := by rw [b.2]; exact w.lpos i hi
  have p := w.probe _ b.1 hne
  unfold ChainOK at p
  have hkey : (s.slot (s.tag i).hidx).key = (s.tag i).key := by rw [b.2]
  rw [hkey] at p
  have hh := hashKey_lt s.exp (s.tag i).key he
  have hr := probe_reach _ _ _ hh b.1
  have := findIndexLoop_hit s.hash (s.tag i).key (2 ^ (s.exp + 1)) (hashKey s.exp (s.tag i).key)
    (probeDist (2 ^ (s.exp + 1)) (hashKey s.exp (s.tag i).key) (s.tag i).hidx) hsz
    (probeDist_lt _ _ _ (two_pow_pos _))
    (fun m hm => ⟨(p m hm).2, (p m hm).1⟩) (by rw [hr]; exact hkey)
    _ 0 (2 ^ (s.exp + 1)) (Nat.zero_add _) (by have := probeDist_lt (2 ^ (s.exp + 1)) (hashKey s.exp (s.tag i).key) (s.tag i).hidx (two_pow_pos _); omega)
  unfold findIndex
  rw [hsz]
  simp only [Nat.add_zero, Nat.mod_eq_of_lt hh] at this
  rw [this, hr]
  show Except.ok (s.slot (s.tag i).hidx).idx = _
  rw [b.2]

/-- a key carried by no live entry is not found -/
theorem findIndex_absent (s : HH) {L : Nat → Prop} (hsz : s.hash.size = 2 ^ (s.exp + 1)) (he : s.exp < 63)
    (w : WFS s.tag s.slot L s.exp) (key : Nat) (habs : ∀ i, L i → (s.tag i).key ≠ key) :
    findIndex s key = .ok 0 := by
  unfold findIndex
  apply findIndexLoop_miss s.hash key _ hsz (two_pow_pos _)
  · intro j hj hk
    apply Classical.byContradiction
    intro hne
    have l := w.slot_live hj hne
    exact habs _ l.1 (l.2.2.trans hk)
  · exact hashKey_lt _ _ he

/-! ### `findSlotLoop` -/

theorem findSlotLoop_spec (hs : Array HSlot) (n h d : Nat) (hn : hs.size = n) (hd : d < n)
    (hpre : ∀ m, m < d → (sl hs ((h + m) % n)).idx ≠ 0)
    (hfree : (sl hs ((h + d) % n)).idx = 0) :
    ∀ r m fuel, m + r = d → d < m + fuel → findSlotLoop hs fuel ((h + m) % n) = .ok ((h + d) % n) := by
  have hpos : 0 < n := by omega
  intro r
  induction r with
  | zero =>
    intro m fuel hm hf
    obtain ⟨f, rfl⟩ : ∃ f, fuel = f + 1 := ⟨fuel - 1, by omega⟩
    have hmd : m = d := by omega
    subst hmd
    rw [findSlotLoop, rdHash_ok (by rw [hn]; exact Nat.mod_lt _ hpos)]
    simp [hfree]
  | succ r ih =>
    intro m fuel hm hf
    obtain ⟨f, rfl⟩ : ∃ f, fuel = f + 1 := ⟨fuel - 1, by omega⟩
    have hp := hpre m (by omega)
    rw [findSlotLoop, rdHash_ok (by rw [hn]; exact Nat.mod_lt _ hpos)]
    simp only [ok_bind, hp, if_false]
    rw [hn, probe_next]
    exact ih (m + 1) f (by omega) (by omega)

theorem exists_first (P : Nat → Prop) : ∀ d0, P d0 → ∃ d, d ≤ d0 ∧ P d ∧ ∀ m, m < d → ¬ P m := by
  intro d0
  induction d0 using Nat.strongRecOn with
  | _ d0 ih =>
    intro h0
    by_cases hex : ∃ m, m < d0 ∧ P m
    · obtain ⟨m, hm, hpm⟩ := hex
      obtain ⟨d, hd, hpd, hmin⟩ := ih m hm hpm
      exact ⟨d, by omega, hpd, hmin⟩
    · exact ⟨d0, Nat.le_refl _, h0, fun m hm hp => hex ⟨m, hm, hp⟩⟩

/-- with a free slot somewhere, `findSlot` returns the first free slot on the probe path -/
theorem findSlot_spec (hs : Array HSlot) (e key : Nat) (hn : hs.size = 2 ^ (e + 1)) (he : e < 63)
    (hfree : ∃ j, j < 2 ^ (e + 1) ∧ (sl hs j).idx = 0) :
    ∃ p, p < 2 ^ (e + 1) ∧ findSlot hs e key = .ok p ∧ (sl hs p).idx = 0 ∧
      ∀ m, m < probeDist (2 ^ (e + 1)) (hashKey e key) p →
        (sl hs ((hashKey e key + m) % 2 ^ (e + 1))).idx ≠ 0 := by
  obtain ⟨j, hj, hj0⟩ := hfree
  have hh := hashKey_lt e key he
  have hpos := two_pow_pos (e + 1)
  have hr := probe_reach _ _ _ hh hj
  obtain ⟨d, hd, hpd, hmin⟩ := exists_first
    (fun d => (sl hs ((hashKey e key + d) % 2 ^ (e + 1))).idx = 0)
    (probeDist (2 ^ (e + 1)) (hashKey e key) j) (by show (sl hs _).idx = 0; rw [hr]; exact hj0)
  have hdn : d < 2 ^ (e + 1) := by have := probeDist_lt (2 ^ (e + 1)) (hashKey e key) j hpos; omega
  refine ⟨(hashKey e key + d) % 2 ^ (e + 1), Nat.mod_lt _ hpos, ?_, hpd, ?_⟩
  · have := findSlotLoop_spec hs _ (hashKey e key) d hn hdn hmin hpd d 0 (2 ^ (e + 1)) (by omega) (by omega)
    unfold findSlot
    simp only [Nat.add_zero, Nat.mod_eq_of_lt hh] at this
    rw [hn, this]
  · intro m hm
    rw [probeDist_step _ _ _ hh hdn] at hm
    exact hmin m hm

/-! ### pigeonhole: the map always has a free slot -/

/-- an injection of `[0, n)` into `[1, c]` forces `n ≤ c` -/
theorem pigeonhole : ∀ (c n : Nat) (f : Nat → Nat), (∀ j, j < n → 1 ≤ f j ∧ f j ≤ c) →
    (∀ i j, i < n → j < n → f i = f j → i = j) → n ≤ c := by
  intro c
  induction c with
  | zero =>
    intro n f hr _
    cases n with
    | zero => exact Nat.le_refl _
    | succ m => have := hr 0 (Nat.succ_pos _); omega
  | succ c ih =>
    intro n f hr hinj
    cases n with
    | zero => exact Nat.zero_le _
    | succ m =>
      have hm : m ≤ c := by
        apply ih m (fun j => if f j = c + 1 then f m else f j)
        · intro j hj
          have h1 := hr j (by omega)
          have h2 := hr m (by omega)
          by_cases h : f j = c + 1
          · have : f m ≠ c + 1 := by
              intro h'
              have := hinj j m (by omega) (by omega) (by rw [h, h'])
              omega
            simp only [h, if_true]; omega
          · simp only [h, if_false]; omega
        · intro i j hi hj
          by_cases h1 : f i = c + 1 <;> by_cases h2 : f j = c + 1 <;> simp only [h1, h2, if_true, if_false]
          · intro _; exact hinj i j (by omega) (by omega) (by rw [h1, h2])
          · intro h; have := hinj m j (by omega) (by omega) h; omega
          · intro h; have := hinj i m (by omega) (by omega) h; omega
          · intro h; exact hinj i j (by omega) (by omega) h
      omega

theorem exists_free_slot (S : Nat → HSlot) (g : Nat → Nat) (n c : Nat) (hc : c < n)
    (hinj : ∀ j, j < n → (S j).idx ≠ 0 → 1 ≤ (S j).idx ∧ (S j).idx ≤ c ∧ g (S j).idx = j) :
    ∃ j, j < n ∧ (S j).idx = 0 := by
  apply Classical.byContradiction
  intro hno
  have hocc : ∀ j, j < n → (S j).idx ≠ 0 := fun j hj h0 => hno ⟨j, hj, h0⟩
  have := pigeonhole c n (fun j => (S j).idx)
    (fun j hj => ⟨(hinj j hj (hocc j hj)).1, (hinj j hj (hocc j hj)).2.1⟩)
    (fun i j hi hj h => by
      rw [← (hinj i hi (hocc i hi)).2.2, ← (hinj j hj (hocc j hj)).2.2]
      exact congrArg g h)
  omega

theorem WFS.exists_free {T : Nat → HTag} {S : Nat → HSlot} {L : Nat → Prop} {e : Nat} (w : WFS T S L e)
    (c : Nat) (hL : ∀ i, L i → i ≤ c) (hc : c < 2 ^ (e + 1)) : ∃ j, j < 2 ^ (e + 1) ∧ (S j).idx = 0 := by
  apply exists_free_slot S (fun i => (T i).hidx) _ c hc
  intro j hj hne
  have f := w.fwd j hj hne
  have := w.lpos _ f.1
  exact ⟨by omega, hL _ f.1, f.2⟩

end CimbaModel.HashHeap
