/-
  S3 — `PInv`, part 4: temporarily exempting one process (while it withdraws all its registrations), and the
  uniqueness facts.
-/
import CimbaModel.Sim.S3PInvReg

namespace CimbaModel.Sim.S3
open CimbaModel CimbaModel.Sim CimbaModel.Event CimbaModel.Generated CimbaModel.KPQ
open CimbaModel.HashHeap (HTag Item Order HH WF abs liveTags)

variable {ex : Pid → Prop} {fr : Pid → Option Frame}

/-- nobody is exempt -/
def noEx : Pid → Prop := fun _ => False

def exAdd (ex : Pid → Prop) (p : Pid) : Pid → Prop := fun x => ex x ∨ x = p

theorem PInv.proc_unique {w : World} (hp : PInv ex fr w) {x a b : Pid} (ha : Await.proc a ∈ (w.proc x).awaits)
    (hb : Await.proc b ∈ (w.proc x).awaits) : a = b ∧ fr x = some (.waitProc a) := by
  rw [mem_awaits_proc] at ha hb
  rcases hp.ap x with h | ⟨q, hfr, h⟩
  · rw [h] at ha; cases ha
  · rw [h] at ha hb
    simp only [List.mem_singleton, Await.proc.injEq] at ha hb
    rw [ha, hb]; exact ⟨rfl, hfr⟩

theorem PInv.event_unique {w : World} (hp : PInv ex fr w) {x : Pid} {a b : Nat} (ha : Await.event a ∈ (w.proc x).awaits)
    (hb : Await.event b ∈ (w.proc x).awaits) : a = b ∧ fr x = some (.waitEvent a) := by
  rw [mem_awaits_event] at ha hb
  rcases hp.ae x with h | ⟨q, hfr, h⟩
  · rw [h] at ha; cases ha
  · rw [h] at ha hb
    simp only [List.mem_singleton, Await.event.injEq] at ha hb
    rw [ha, hb]; exact ⟨rfl, hfr⟩

/-- exempting one more process only weakens the invariant -/
theorem PInv.exempt {w : World} (hp : PInv ex fr w) (p : Pid) : PInv (exAdd ex p) fr w :=
  { hp with
    fb := fun x hx => hp.fb x (fun h => hx (Or.inl h))
    w1 := fun x q hq hx => hp.w1 x q hq (fun h => hx (Or.inl h))
    e1 := fun h l q hm hq hx => hp.e1 h l q hm hq (fun h => hx (Or.inl h))
    op := fun e he ha x hb hx => hp.op e he ha x hb (fun h => hx (Or.inl h))
    oe := fun e he ha x hb hx => hp.oe e he ha x hb (fun h => hx (Or.inl h))
    oh := fun e he ha x hb hx => hp.oh e he ha x hb (fun h => hx (Or.inl h))
    up := fun a ha b hb haa hba hbb x hbx hx => hp.up a ha b hb haa hba hbb x hbx (fun h => hx (Or.inl h))
    ue := fun a ha b hb haa hba hbb x hbx hx => hp.ue a ha b hb haa hba hbb x hbx (fun h => hx (Or.inl h)) }

/-- the exemption can be dropped once the process is registered nowhere and has no process / event wake-up pending -/
theorem PInv.unexempt {w : World} {p : Pid} (hp : PInv (exAdd ex p) fr w)
    (hnoev : ∀ e ∈ w.ev.pending, e.item.a = aProc ∨ e.item.a = aEvent → e.item.b ≠ p + 1)
    (hnow : ∀ x, p ∉ (w.proc x).waiters) (hnoe : ∀ h l, (h, l) ∈ w.evWaiters → p ∉ l)
    (hfbp : (w.proc p).blocked ≠ fr p → procAw w p = [] ∧ evAw w p = []) : PInv ex fr w :=
  { hp with
    fb := fun x hx => by
      by_cases hxp : x = p
      · subst hxp; exact hfbp
      · exact hp.fb x (fun h => h.elim hx hxp)
    w1 := fun x q hq hx => by
      by_cases hqp : q = p
      · subst hqp; exact absurd hq (hnow x)
      · exact hp.w1 x q hq (fun h => h.elim hx hqp)
    e1 := fun h l q hm hq hx => by
      by_cases hqp : q = p
      · subst hqp; exact absurd hq (hnoe h l hm)
      · exact hp.e1 h l q hm hq (fun h => h.elim hx hqp)
    op := fun e he ha x hb hx => by
      by_cases hxp : x = p
      · subst hxp; exact absurd hb (hnoev e he (Or.inl ha))
      · exact hp.op e he ha x hb (fun h => h.elim hx hxp)
    oe := fun e he ha x hb hx => by
      by_cases hxp : x = p
      · subst hxp; exact absurd hb (hnoev e he (Or.inr ha))
      · exact hp.oe e he ha x hb (fun h => h.elim hx hxp)
    oh := fun e he ha x hb hx => by
      by_cases hxp : x = p
      · subst hxp; exact absurd hb (hnoev e he (Or.inr ha))
      · exact hp.oh e he ha x hb (fun h => h.elim hx hxp)
    up := fun a ha b hb haa hba hbb x hbx hx => by
      by_cases hxp : x = p
      · subst hxp; exact absurd hbx (hnoev a ha (Or.inl haa))
      · exact hp.up a ha b hb haa hba hbb x hbx (fun h => h.elim hx hxp)
    ue := fun a ha b hb haa hba hbb x hbx hx => by
      by_cases hxp : x = p
      · subst hxp; exact absurd hbx (hnoev a ha (Or.inr haa))
      · exact hp.ue a ha b hb haa hba hbb x hbx (fun h => h.elim hx hxp) }

/-- the record of an exempt process may be rewritten freely (awaits, recorded frame, …) as long as its waiter list
    and status stay and no process / event registration is left -/
theorem PInv.modProcEx {w : World} {p : Pid} (hp : PInv (exAdd ex p) fr w) (f : Proc → Proc)
    (hfw : (f (w.proc p)).waiters = (w.proc p).waiters) (hfs : (f (w.proc p)).status = (w.proc p).status)
    (hl1 : (f (w.proc p)).awaits.filter isProcA = []) (hl2 : (f (w.proc p)).awaits.filter isEventA = []) :
    PInv (exAdd ex p) fr (w.modProc p f) := by
  have hpr : ∀ x, x ≠ p → (w.modProc p f).proc x = w.proc x := fun x hx => modProc_proc_ne w _ hx
  have hother : ∀ x, (w.modProc p f).proc x = w.proc x ∨
      (x = p ∧ ((w.modProc p f).proc x).waiters = (w.proc x).waiters ∧
        ((w.modProc p f).proc x).status = (w.proc x).status ∧
        procAw (w.modProc p f) x = [] ∧ evAw (w.modProc p f) x = []) := by
    intro x
    by_cases hx : x = p
    · subst hx
      by_cases hs : x < w.procs.size
      · right
        refine ⟨rfl, ?_, ?_, ?_, ?_⟩
        · rw [modProc_proc_self w _ hs]; exact hfw
        · rw [modProc_proc_self w _ hs]; exact hfs
        · unfold procAw; rw [modProc_proc_self w _ hs]; exact hl1
        · unfold evAw; rw [modProc_proc_self w _ hs]; exact hl2
      · left; rw [modProc_proc]; simp [hs]
    · left; exact hpr x hx
  have hw : ∀ x, ((w.modProc p f).proc x).waiters = (w.proc x).waiters := by
    intro x; rcases hother x with h | ⟨_, h, _⟩
    · rw [h]
    · exact h
  refine { sb := hp.sb, ei := hp.ei, ap := ?_, ae := ?_, ar := ?_, fb := ?_, w1 := ?_, wn := ?_, e1 := ?_, en := hp.en,
           op := ?_, oe := ?_, up := hp.up, ue := hp.ue, oh := ?_, es := hp.es }
  · intro x; rcases hother x with h | ⟨_, _, _, h, _⟩
    · unfold procAw; rw [h]; exact hp.ap x
    · exact Or.inl h
  · intro x; rcases hother x with h | ⟨_, _, _, _, h⟩
    · unfold evAw; rw [h]; exact hp.ae x
    · exact Or.inl h
  · intro x hx; rcases hother x with h | ⟨_, _, _, h1, h2⟩
    · unfold procAw evAw; rw [h] at hx ⊢; exact hp.ar x hx
    · exact ⟨h1, h2⟩
  · intro x hxx hx; rcases hother x with h | ⟨_, _, _, h1, h2⟩
    · unfold procAw evAw; rw [h] at hx ⊢; exact hp.fb x hxx hx
    · exact ⟨h1, h2⟩
  · intro x q hq hx
    rw [hw] at hq
    have hqp : q ≠ p := fun h => hx (Or.inr h)
    rw [hpr q hqp]; exact hp.w1 x q hq hx
  · intro x; rw [hw]; exact hp.wn x
  · intro h l q hm hq hx
    have hqp : q ≠ p := fun h => hx (Or.inr h)
    rw [hpr q hqp]; exact hp.e1 h l q hm hq hx
  · intro e he ha x hb hx
    have hxp : x ≠ p := fun h => hx (Or.inr h)
    obtain ⟨q, h1, h2⟩ := hp.op e he ha x hb hx
    exact ⟨q, by rw [hpr x hxp]; exact h1, by rw [hw]; exact h2⟩
  · intro e he ha x hb hx
    have hxp : x ≠ p := fun h => hx (Or.inr h)
    obtain ⟨h, h1, h2⟩ := hp.oe e he ha x hb hx
    exact ⟨h, by rw [hpr x hxp]; exact h1, h2⟩

  · intro e he ha x hb hx h hh
    have hxp : x ≠ p := fun h => hx (Or.inr h)
    rw [hpr x hxp] at hh
    exact hp.oh e he ha x hb hx h hh

/-- shrinking a waiter list never hurts -/
theorem PInv.shrinkWaiters {w : World} (hp : PInv ex fr w) (q : Pid) (g : List Pid → List Pid)
    (hsub : ∀ l x, x ∈ g l → x ∈ l) (hnd : ∀ l, l.Nodup → (g l).Nodup) :
    PInv ex fr (w.modProc q fun y => { y with waiters := g y.waiters }) := by
  have hpr : ∀ x, ((w.modProc q fun y => { y with waiters := g y.waiters }).proc x).awaits = (w.proc x).awaits ∧
      ((w.modProc q fun y => { y with waiters := g y.waiters }).proc x).status = (w.proc x).status ∧
      ((w.modProc q fun y => { y with waiters := g y.waiters }).proc x).blocked = (w.proc x).blocked ∧
      (∀ y, y ∈ ((w.modProc q fun y => { y with waiters := g y.waiters }).proc x).waiters → y ∈ (w.proc x).waiters) ∧
      ((w.modProc q fun y => { y with waiters := g y.waiters }).proc x).waiters.Nodup := by
    intro x; rw [modProc_proc]; split
    · rename_i h; rw [h.1]; exact ⟨rfl, rfl, rfl, hsub _, hnd _ (hp.wn q)⟩
    · exact ⟨rfl, rfl, rfl, fun _ h => h, hp.wn x⟩
  have hpa : ∀ x, procAw (w.modProc q fun y => { y with waiters := g y.waiters }) x = procAw w x := by
    intro x; unfold procAw; rw [(hpr x).1]
  have hea : ∀ x, evAw (w.modProc q fun y => { y with waiters := g y.waiters }) x = evAw w x := by
    intro x; unfold evAw; rw [(hpr x).1]
  refine { sb := hp.sb, ei := hp.ei, ap := fun x => by rw [hpa]; exact hp.ap x, ae := fun x => by rw [hea]; exact hp.ae x,
           ar := fun x hx => by rw [hpa, hea]; rw [(hpr x).2.1] at hx; exact hp.ar x hx,
           fb := fun x hxx hx => by rw [hpa, hea]; rw [(hpr x).2.2.1] at hx; exact hp.fb x hxx hx,
           w1 := fun x y hy hxy => by rw [(hpr y).1]; exact hp.w1 x y ((hpr x).2.2.2.1 y hy) hxy,
           wn := fun x => (hpr x).2.2.2.2,
           e1 := fun h l y hm hy hxy => by rw [(hpr y).1]; exact hp.e1 h l y hm hy hxy,
           en := hp.en, op := ?_, oe := ?_, up := hp.up, ue := hp.ue, es := hp.es,
           oh := fun e he ha x hb hx h hh => hp.oh e he ha x hb hx h (by rw [← (hpr x).1]; exact hh) }
  · intro e he ha x hb hx
    obtain ⟨q', h1, h2⟩ := hp.op e he ha x hb hx
    exact ⟨q', by rw [(hpr x).1]; exact h1, fun hm => h2 ((hpr q').2.2.2.1 x hm)⟩
  · intro e he ha x hb hx
    obtain ⟨h, h1, h2⟩ := hp.oe e he ha x hb hx
    exact ⟨h, by rw [(hpr x).1]; exact h1, h2⟩

theorem removeFirst_subset {α : Type} [DecidableEq α] (l : List α) (a x : α) (h : x ∈ (removeFirst l a).1) : x ∈ l := by
  induction l with
  | nil => simp [removeFirst] at h
  | cons y ys ih =>
    unfold removeFirst at h
    by_cases hy : y = a
    · simp only [hy, if_true] at h; exact List.mem_cons_of_mem _ h
    · simp only [hy, if_false] at h
      rcases List.mem_cons.1 h with rfl | h
      · exact List.mem_cons_self
      · exact List.mem_cons_of_mem _ (ih h)

theorem removeFirst_nodup {α : Type} [DecidableEq α] (l : List α) (a : α) (h : l.Nodup) :
    (removeFirst l a).1.Nodup ∧ a ∉ (removeFirst l a).1 := by
  induction l with
  | nil => simp [removeFirst]
  | cons y ys ih =>
    unfold removeFirst
    have hn := List.nodup_cons.1 h
    by_cases hy : y = a
    · subst hy; simp only [if_true]; exact ⟨hn.2, hn.1⟩
    · simp only [hy, if_false]
      obtain ⟨i1, i2⟩ := ih hn.2
      refine ⟨List.nodup_cons.2 ⟨fun hm => hn.1 (removeFirst_subset ys a y hm), i1⟩, ?_⟩
      intro hm
      rcases List.mem_cons.1 hm with h | h
      · exact hy h.symm
      · exact i2 h

theorem removeFirst_snd {α : Type} [DecidableEq α] (l : List α) (a : α) : (removeFirst l a).2 = decide (a ∈ l) := by
  induction l with
  | nil => simp [removeFirst]
  | cons y ys ih =>
    unfold removeFirst
    by_cases hy : y = a
    · subst hy; simp
    · simp only [hy, if_false, ih]
      have : ¬ a = y := fun h => hy h.symm
      simp [this]


theorem removeFirst_filter_self {α : Type} [DecidableEq α] (l : List α) (a : α) (f : α → Bool) (hf : f a = true) :
    (removeFirst l a).1.filter f = (removeFirst (l.filter f) a).1 := by
  induction l with
  | nil => rfl
  | cons x xs ih =>
    by_cases hx : x = a
    · subst hx
      simp [removeFirst, hf]
    · by_cases hfx : f x = true
      · simp only [removeFirst, hx, if_false, List.filter_cons, hfx, if_true, ih]
      · simp only [removeFirst, hx, if_false, List.filter_cons, hfx, Bool.false_eq_true, ih]

theorem modProc_modProc (w : World) (p : Pid) (f g : Proc → Proc) :
    (w.modProc p f).modProc p g = w.modProc p (fun x => g (f x)) := by
  unfold World.modProc
  simp only
  congr 1
  apply Array.ext_getElem?
  intro i
  simp only [Array.getElem?_modify]
  split
  · cases w.procs[i]? <;> rfl
  · rfl

end CimbaModel.Sim.S3
