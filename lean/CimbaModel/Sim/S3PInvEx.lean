/-
  S3 — `PInv`, part 4: temporarily exempting one process (while it withdraws all its registrations), and the
  uniqueness facts.
-/
import CimbaModel.Sim.S3PInvReg

namespace CimbaModel.Sim.S3
open CimbaModel CimbaModel.Sim CimbaModel.Event CimbaModel.Generated CimbaModel.KPQ
open CimbaModel.HashHeap (HTag Item Order HH WF abs liveTags)

variable {ex : Pid → Prop} {fr : Pid → Option Frame}

/-- nobody is exempt -/
def noEx : Pid → Prop := fun _ => False

def exAdd (ex : Pid → Prop) (p : Pid) : Pid → Prop := fun x => ex x ∨ x = p

theorem PInv.proc_unique {w : World} (hp : PInv ex fr w) {x a b : Pid} (ha : Await.proc a ∈ (w.proc x).awaits)
    (hb : Await.proc b ∈ (w.proc x).awaits) : a = b ∧ fr x = some (.waitProc a) := by
  rw [mem_awaits_proc] at ha hb
  rcases hp.ap x with h | ⟨q, hfr, h⟩
  · rw [h] at ha; cases ha
  · rw [h] at ha hb
    simp only [List.mem_singleton, Await.proc.injEq] at ha hb
    rw [ha, hb]; exact ⟨rfl, hfr⟩

theorem PInv.event_unique {w : World} (hp : PInv ex fr w) {x : Pid} {a b : Nat} (ha : Await.event a ∈ (w.proc x).awaits)
    (hb : Await.event b ∈ (w.proc x).awaits) : a = b ∧ fr x = some (.waitEvent a) := by
  rw [mem_awaits_event] at ha hb
  rcases hp.ae x with h | ⟨q, hfr, h⟩
  · rw [h] at ha; cases ha
  · rw [h] at ha hb
    simp only [List.mem_singleton, Await.event.injEq] at ha hb
    rw [ha, hb]; exact ⟨rfl, hfr⟩

/-- exempting one more process only weakens the invariant -/
theorem PInv.exempt {w : World} (hp : PInv ex fr w) (p : Pid) : PInv (exAdd ex p) fr w :=
  { hp with
    w1 := fun x q hq hx => hp.w1 x q hq (fun h => hx (Or.inl h))
    e1 := fun h l q hm hq hx => hp.e1 h l q hm hq (fun h => hx (Or.inl h))
    op := fun e he ha x hb hx => hp.op e he ha x hb (fun h => hx (Or.inl h))
    oe := fun e he ha x hb hx => hp.oe e he ha x hb (fun h => hx (Or.inl h))
    up := fun a ha b hb haa hba hbb x hbx hx => hp.up a ha b hb haa hba hbb x hbx (fun h => hx (Or.inl h))
    ue := fun a ha b hb haa hba hbb x hbx hx => hp.ue a ha b hb haa hba hbb x hbx (fun h => hx (Or.inl h)) }

/-- the exemption can be dropped once the process is registered nowhere and has no process / event wake-up pending -/
theorem PInv.unexempt {w : World} {p : Pid} (hp : PInv (exAdd ex p) fr w)
    (hnoev : ∀ e ∈ w.ev.pending, e.item.a = aProc ∨ e.item.a = aEvent → e.item.b ≠ p + 1)
    (hnow : ∀ x, p ∉ (w.proc x).waiters) (hnoe : ∀ h l, (h, l) ∈ w.evWaiters → p ∉ l) : PInv ex fr w :=
  { hp with
    w1 := fun x q hq hx => by
      by_cases hqp : q = p
      · subst hqp; exact absurd hq (hnow x)
      · exact hp.w1 x q hq (fun h => h.elim hx hqp)
    e1 := fun h l q hm hq hx => by
      by_cases hqp : q = p
      · subst hqp; exact absurd hq (hnoe h l hm)
      · exact hp.e1 h l q hm hq (fun h => h.elim hx hqp)
    op := fun e he ha x hb hx => by
      by_cases hxp : x = p
      · subst hxp; exact absurd hb (hnoev e he (Or.inl ha))
      · exact hp.op e he ha x hb (fun h => h.elim hx hxp)
    oe := fun e he ha x hb hx => by
      by_cases hxp : x = p
      · subst hxp; exact absurd hb (hnoev e he (Or.inr ha))
      · exact hp.oe e he ha x hb (fun h => h.elim hx hxp)
    up := fun a ha b hb haa hba hbb x hbx hx => by
      by_cases hxp : x = p
      · subst hxp; exact absurd hbx (hnoev a ha (Or.inl haa))
      · exact hp.up a ha b hb haa hba hbb x hbx (fun h => h.elim hx hxp)
    ue := fun a ha b hb haa hba hbb x hbx hx => by
      by_cases hxp : x = p
      · subst hxp; exact absurd hbx (hnoev a ha (Or.inr haa))
      · exact hp.ue a ha b hb haa hba hbb x hbx (fun h => h.elim hx hxp) }

/-- the awaits of an exempt process may be rewritten freely as long as no process / event registration is left in
    a way that contradicts its frame; here: none is left -/
theorem PInv.setAwaitsEx {w : World} {p : Pid} (hp : PInv (exAdd ex p) fr w) (l' : List Await)
    (hl1 : l'.filter isProcA = []) (hl2 : l'.filter isEventA = []) :
    PInv (exAdd ex p) fr (w.modProc p fun x => { x with awaits := l' }) := by
  have hpr : ∀ x, x ≠ p → (w.modProc p fun x => { x with awaits := l' }).proc x = w.proc x :=
    fun x hx => modProc_proc_ne w _ hx
  have hother : ∀ x, (w.modProc p fun x => { x with awaits := l' }).proc x = w.proc x ∨
      (x = p ∧ ((w.modProc p fun x => { x with awaits := l' }).proc x).waiters = (w.proc x).waiters ∧
        ((w.modProc p fun x => { x with awaits := l' }).proc x).status = (w.proc x).status ∧
        ((w.modProc p fun x => { x with awaits := l' }).proc x).blocked = (w.proc x).blocked ∧
        procAw (w.modProc p fun x => { x with awaits := l' }) x = [] ∧
        evAw (w.modProc p fun x => { x with awaits := l' }) x = []) := by
    intro x
    by_cases hx : x = p
    · subst hx
      by_cases hs : x < w.procs.size
      · right
        refine ⟨rfl, ?_, ?_, ?_, ?_, ?_⟩
        · rw [modProc_proc_self w _ hs]
        · rw [modProc_proc_self w _ hs]
        · rw [modProc_proc_self w _ hs]
        · unfold procAw; rw [modProc_proc_self w _ hs]; exact hl1
        · unfold evAw; rw [modProc_proc_self w _ hs]; exact hl2
      · left; rw [modProc_proc]; simp [hs]
    · left; exact hpr x hx
  have hw : ∀ x, ((w.modProc p fun x => { x with awaits := l' }).proc x).waiters = (w.proc x).waiters := by
    intro x; rcases hother x with h | ⟨_, h, _⟩
    · rw [h]
    · exact h
  refine { ei := hp.ei, ap := ?_, ae := ?_, ar := ?_, fb := ?_, w1 := ?_, wn := ?_, e1 := ?_, en := hp.en,
           op := ?_, oe := ?_, up := hp.up, ue := hp.ue }
  · intro x; rcases hother x with h | ⟨_, _, _, _, h, _⟩
    · unfold procAw; rw [h]; exact hp.ap x
    · exact Or.inl h
  · intro x; rcases hother x with h | ⟨_, _, _, _, _, h⟩
    · unfold evAw; rw [h]; exact hp.ae x
    · exact Or.inl h
  · intro x hx; rcases hother x with h | ⟨_, _, _, _, h1, h2⟩
    · unfold procAw evAw; rw [h] at hx ⊢; exact hp.ar x hx
    · exact ⟨h1, h2⟩
  · intro x hx; rcases hother x with h | ⟨_, _, _, _, h1, h2⟩
    · unfold procAw evAw; rw [h] at hx ⊢; exact hp.fb x hx
    · exact ⟨h1, h2⟩
  · intro x q hq hx
    rw [hw] at hq
    have hqp : q ≠ p := fun h => hx (Or.inr h)
    rw [hpr q hqp]; exact hp.w1 x q hq hx
  · intro x; rw [hw]; exact hp.wn x
  · intro h l q hm hq hx
    have hqp : q ≠ p := fun h => hx (Or.inr h)
    rw [hpr q hqp]; exact hp.e1 h l q hm hq hx
  · intro e he ha x hb hx
    have hxp : x ≠ p := fun h => hx (Or.inr h)
    obtain ⟨q, h1, h2⟩ := hp.op e he ha x hb hx
    exact ⟨q, by rw [hpr x hxp]; exact h1, by rw [hw]; exact h2⟩
  · intro e he ha x hb hx
    have hxp : x ≠ p := fun h => hx (Or.inr h)
    obtain ⟨h, h1, h2⟩ := hp.oe e he ha x hb hx
    exact ⟨h, by rw [hpr x hxp]; exact h1, h2⟩

end CimbaModel.Sim.S3
