/-
  S3 — `PInv`, part 8: the blocking calls, all commands, all resumptions.
-/
import CimbaModel.Sim.S3PInvFinish
import CimbaModel.Sim.S3Keep

namespace CimbaModel.Sim.S3
open CimbaModel CimbaModel.Sim CimbaModel.Event CimbaModel.Generated CimbaModel.KPQ
open CimbaModel.HashHeap (HTag Item Order HH WF abs liveTags)

theorem noEx_not (x : Pid) : ¬ noEx x := fun h => h

macro_rules | `(tactic| pinv_step) => `(tactic| with_reducible apply PInv.poolMug_fst)
macro_rules | `(tactic| pinv_step) => `(tactic| with_reducible apply PInv.timersClear)
macro_rules | `(tactic| pinv_step) => `(tactic| with_reducible apply PInv.timerCancel_fst)
macro_rules | `(tactic| pinv_step) => `(tactic| with_reducible apply PInv.timerAdd_fst)
macro_rules | `(tactic| pinv_step) => `(tactic| with_reducible apply PInv.removeAwait_guard)
macro_rules | `(tactic| pinv_step) => `(tactic| with_reducible apply PInv.removeAwait_time)
macro_rules | `(tactic| pinv_step) => `(tactic| with_reducible apply PInv.guardWaitLeave)
macro_rules | `(tactic| pinv_step) => `(tactic| with_reducible apply PInv.guardWaitEnter)
macro_rules | `(tactic| pinv_step) => `(tactic| (with_reducible refine PInv.finishProc ?_ _ _ _ (noEx_not _)))
macro_rules | `(tactic| pinv_step) => `(tactic| (with_reducible refine (PInv.cancelAwaiteds ?_ _ (noEx_not _)).1))
macro_rules | `(tactic| pinv_step) => `(tactic| (with_reducible refine PInv.block_fst ?_ _ _ (by assumption)))

/-- close `∃ fr', PInv noEx fr' (expr)`: case-split the expression, then peel each leaf -/
macro "pinv_leaf" : tactic => `(tactic| (refine Exists.intro ?_ ?_; rotate_left; focus pinv))
macro "pinv_ex" : tactic => `(tactic| (repeat' split) <;> pinv_leaf)

variable {fr : Pid → Option Frame} {w : World} {p : Pid}

theorem PInv.acquireStep_ex (hp : PInv noEx fr w) (hfr : fr p = none) (r : Nat) :
    ∃ fr', PInv noEx fr' (acquireStep w p r).1 := by
  simp only [Sim.acquireStep]; pinv_ex

theorem PInv.poolLoop_ex (hp : PInv noEx fr w) (hfr : fr p = none) (pl rem ini : Nat) (pre : Bool) :
    ∃ fr', PInv noEx fr' (poolLoop w p pl rem ini pre).1 := by
  simp only [Sim.poolLoop]; pinv_ex

theorem PInv.bufGetLoop_ex (hp : PInv noEx fr w) (hfr : fr p = none) (b rem got : Nat) :
    ∃ fr', PInv noEx fr' (bufGetLoop w p b rem got).1 := by
  simp only [Sim.bufGetLoop]; pinv_ex

theorem PInv.bufPutLoop_ex (hp : PInv noEx fr w) (hfr : fr p = none) (b rem left : Nat) :
    ∃ fr', PInv noEx fr' (bufPutLoop w p b rem left).1 := by
  simp only [Sim.bufPutLoop]; pinv_ex

theorem PInv.oqGetLoop_ex (hp : PInv noEx fr w) (hfr : fr p = none) (q : Nat) : ∃ fr', PInv noEx fr' (oqGetLoop w p q).1 := by
  simp only [Sim.oqGetLoop]; pinv_ex
theorem PInv.oqPutLoop_ex (hp : PInv noEx fr w) (hfr : fr p = none) (q obj : Nat) : ∃ fr', PInv noEx fr' (oqPutLoop w p q obj).1 := by
  simp only [Sim.oqPutLoop]; pinv_ex
theorem PInv.pqGetLoop_ex (hp : PInv noEx fr w) (hfr : fr p = none) (k : Nat) : ∃ fr', PInv noEx fr' (pqGetLoop w p k).1 := by
  simp only [Sim.pqGetLoop]; pinv_ex
theorem PInv.pqPutLoop_ex (hp : PInv noEx fr w) (hfr : fr p = none) (k obj : Nat) (pri : Int) (v : Nat) :
    ∃ fr', PInv noEx fr' (pqPutLoop w p k obj pri v).1 := by
  simp only [Sim.pqPutLoop]; pinv_ex


/-! ### commands -/

theorem PInv.execCmd_ex (hp : PInv noEx fr w) (hfr : fr p = none) (hr : (w.proc p).status = .running) (c : Cmd) :
    ∃ fr', PInv noEx fr' (execCmd w p c).1 := by
  cases c with
  | prioSet q v =>
    by_cases hq : q < w.procs.size
    · rw [prioSet_eq w p q v hq]
      dsimp only
      refine ⟨fr, ?_⟩
      refine PInv.foldl (fun w x h => h.prioHeldStep q v x) _ ?_
      refine PInv.foldl (fun w x h => h.prioAwaitStep q v x) _ ?_
      pinv
    · have : q ≥ w.procs.size := Nat.le_of_not_lt hq
      simp only [Sim.execCmd, this, if_true]
      exact ⟨fr, hp⟩
  | waitProc q =>
    simp only [Sim.execCmd]
    split
    · exact ⟨fr, hp⟩
    · rename_i hq
      split
      · exact ⟨fr, hp⟩
      · exact ⟨_, hp.cmd_waitProc hfr hr (Nat.lt_of_not_le hq) (noEx_not p)⟩
  | waitEvent v =>
    simp only [Sim.execCmd]
    split
    · exact ⟨fr, hp⟩
    · rename_i hs
      have hs' : getVar w p v ∈ keys w.ev.pending := by
        have : isScheduled w.ev (getVar w p v) = true := by
          cases h : isScheduled w.ev (getVar w p v) with
          | true => rfl
          | false => exact absurd (Or.inr (by simp [h])) hs
        simpa [isScheduled] using this
      exact ⟨_, hp.cmd_waitEvent hfr hr (noEx_not p) hs'⟩
  | acquire r => simp only [Sim.execCmd]; exact hp.acquireStep_ex hfr r
  | preempt r =>
    simp only [Sim.execCmd]
    repeat' split
    all_goals first | exact hp.acquireStep_ex hfr r | pinv_leaf
  | poolAcquire pl n =>
    simp only [Sim.execCmd]
    repeat' split
    all_goals first | exact hp.poolLoop_ex hfr _ _ _ _ | pinv_leaf
  | poolPreempt pl n =>
    simp only [Sim.execCmd]
    repeat' split
    all_goals first | exact hp.poolLoop_ex hfr _ _ _ _ | pinv_leaf
  | bufGet b n =>
    simp only [Sim.execCmd]; split
    · exact ⟨fr, hp⟩
    · exact hp.bufGetLoop_ex hfr _ _ _
  | bufPut b n =>
    simp only [Sim.execCmd]; split
    · exact ⟨fr, hp⟩
    · exact hp.bufPutLoop_ex hfr _ _ _
  | oqGet q =>
    simp only [Sim.execCmd]; split
    · exact ⟨fr, hp⟩
    · exact hp.oqGetLoop_ex hfr _
  | oqPut q obj =>
    simp only [Sim.execCmd]; split
    · exact ⟨fr, hp⟩
    · exact hp.oqPutLoop_ex hfr _ _
  | pqGet k =>
    simp only [Sim.execCmd]; split
    · exact ⟨fr, hp⟩
    · exact hp.pqGetLoop_ex hfr _
  | pqPut k obj pri v =>
    simp only [Sim.execCmd]; split
    · exact ⟨fr, hp⟩
    · exact hp.pqPutLoop_ex hfr _ _ _ _
  | _ => simp only [Sim.execCmd] <;> pinv_ex

/-! ### resumptions of everything but `wait_process` / `wait_event` -/

def isWaitPE : Frame → Bool
  | .waitProc _ => true
  | .waitEvent _ => true
  | _ => false

theorem PInv.resumeFrame_ex (hp : PInv noEx fr w) (hfr : fr p = none) (f : Frame) (hf : isWaitPE f = false) (sig : Int) :
    ∃ fr', PInv noEx fr' (resumeFrame w p f sig).1 := by
  cases f with
  | waitProc q => cases hf
  | waitEvent h => cases hf
  | acquire r =>
    simp only [Sim.resumeFrame]
    repeat' split
    all_goals first | (refine PInv.acquireStep_ex ?_ hfr r; pinv) | pinv_leaf
  | pool pl rem ini pre =>
    simp only [Sim.resumeFrame]
    repeat' split
    all_goals first | (refine PInv.poolLoop_ex ?_ hfr _ _ _ _; pinv) | pinv_leaf
  | bufGet b rem got =>
    simp only [Sim.resumeFrame]
    repeat' split
    all_goals first | (refine PInv.bufGetLoop_ex ?_ hfr _ _ _; pinv) | pinv_leaf
  | bufPut b rem left =>
    simp only [Sim.resumeFrame]
    repeat' split
    all_goals first | (refine PInv.bufPutLoop_ex ?_ hfr _ _ _; pinv) | pinv_leaf
  | oqGet q =>
    simp only [Sim.resumeFrame]
    repeat' split
    all_goals first | (refine PInv.oqGetLoop_ex ?_ hfr _; pinv) | pinv_leaf
  | oqPut q obj =>
    simp only [Sim.resumeFrame]
    repeat' split
    all_goals first | (refine PInv.oqPutLoop_ex ?_ hfr _ _; pinv) | pinv_leaf
  | pqGet k =>
    simp only [Sim.resumeFrame]
    repeat' split
    all_goals first | (refine PInv.pqGetLoop_ex ?_ hfr _; pinv) | pinv_leaf
  | pqPut k obj pri v =>
    simp only [Sim.resumeFrame]
    repeat' split
    all_goals first | (refine PInv.pqPutLoop_ex ?_ hfr _ _ _ _; pinv) | pinv_leaf
  | _ => simp only [Sim.resumeFrame] <;> pinv_ex

end CimbaModel.Sim.S3
