/-
  S3 — the clock: no function of the process layer moves the clock, every event it schedules is at or after the
  current time (the kernel invariant `EvInv` is preserved), a recorded fault is never cleared, handles only grow.
  `Evo w w'` is the (reflexive, transitive) footprint; every function of Sim/Model.lean and Sim/Run.lean below
  `dispatch` satisfies it.
-/
import CimbaModel.Sim.S3GuardOps

namespace CimbaModel.Sim.S3
open CimbaModel CimbaModel.Sim CimbaModel.Event CimbaModel.Generated CimbaModel.KPQ
open CimbaModel.HashHeap (HTag Item Order HH WF abs liveTags)

structure Evo (w w' : World) : Prop where
  now : w'.ev.now = w.ev.now
  evinv : EvInv w.ev → EvInv w'.ev
  fault : w'.fault = none → w.fault = none
  counter : w.ev.counter ≤ w'.ev.counter
  executed : w'.ev.executed = w.ev.executed
  current : w'.ev.current = w.ev.current
  psize : w'.procs.size = w.procs.size
  gsize : w'.guards.size = w.guards.size
  conds : w'.conds = w.conds
  dispatched : w'.dispatched = w.dispatched
  /-- an event that keeps its handle keeps its time, action, subject and signal (only its priority can change) -/
  stable : ∀ e' ∈ w'.ev.pending, e'.key ≤ w.ev.counter → ∃ e ∈ w.ev.pending, e.key = e'.key ∧ e.d = e'.d ∧ e.item = e'.item

theorem Evo.refl (w : World) : Evo w w :=
  ⟨rfl, id, id, Nat.le_refl _, rfl, rfl, rfl, rfl, rfl, rfl, fun e he _ => ⟨e, he, rfl, rfl, rfl⟩⟩

theorem Evo.trans {w w1 w2 : World} (h1 : Evo w w1) (h2 : Evo w1 w2) : Evo w w2 :=
  ⟨h2.now.trans h1.now, fun h => h2.evinv (h1.evinv h), fun h => h1.fault (h2.fault h),
   Nat.le_trans h1.counter h2.counter, h2.executed.trans h1.executed, h2.current.trans h1.current,
   h2.psize.trans h1.psize, h2.gsize.trans h1.gsize, h2.conds.trans h1.conds, h2.dispatched.trans h1.dispatched,
   by
    intro e2 he2 hk
    obtain ⟨e1, he1, hk1, hd1, hi1⟩ := h2.stable e2 he2 (Nat.le_trans hk h1.counter)
    obtain ⟨e0, he0, hk0, hd0, hi0⟩ := h1.stable e1 he1 (by rw [hk1]; exact hk)
    exact ⟨e0, he0, hk0.trans hk1, hd0.trans hd1, hi0.trans hi1⟩⟩

theorem Evo.wnow {w w' : World} (h : Evo w w') : w'.now = w.now := h.now

/-- anything that leaves the event queue, the fault flag, the conditions table and the table sizes alone -/
theorem Evo.same {w0 w w' : World} (h : Evo w0 w) (hev : w'.ev = w.ev) (hf : w'.fault = w.fault)
    (hp : w'.procs.size = w.procs.size) (hg : w'.guards.size = w.guards.size) (hc : w'.conds = w.conds)
    (hd : w'.dispatched = w.dispatched) : Evo w0 w' :=
  h.trans ⟨by rw [hev], by rw [hev]; exact id, by rw [hf]; exact id, by rw [hev]; exact Nat.le_refl _, by rw [hev],
    by rw [hev], hp, hg, hc, hd, by rw [hev]; exact fun e he _ => ⟨e, he, rfl, rfl, rfl⟩⟩

/-! ### atomic transformers -/

theorem Evo.fail {w0 w : World} (h : Evo w0 w) (m : String) : Evo w0 (w.fail m) :=
  h.trans ⟨by simp, by simp, fun hf => (fail_fault_none hf).elim, by simp, by simp, by simp, by simp, by simp, by simp, by simp,
    by simp only [fail_ev]; exact fun e he _ => ⟨e, he, rfl, rfl, rfl⟩⟩

theorem Evo.emit {w0 w : World} (h : Evo w0 w) (l : String) : Evo w0 (w.emit l) :=
  h.same rfl rfl rfl rfl rfl rfl

theorem Evo.modProc {w0 w : World} (h : Evo w0 w) (p : Pid) (f : Proc → Proc) : Evo w0 (w.modProc p f) :=
  h.same rfl rfl (by simp) rfl rfl rfl

theorem Evo.setEvWaiters {w0 w : World} (h : Evo w0 w) (x : List (Nat × List Pid)) : Evo w0 { w with evWaiters := x } :=
  h.same rfl rfl rfl rfl rfl rfl
theorem Evo.setRes {w0 w : World} (h : Evo w0 w) (x : Array Res) : Evo w0 { w with res := x } :=
  h.same rfl rfl rfl rfl rfl rfl
theorem Evo.setPools {w0 w : World} (h : Evo w0 w) (x : Array Pool) : Evo w0 { w with pools := x } :=
  h.same rfl rfl rfl rfl rfl rfl
theorem Evo.setBufs {w0 w : World} (h : Evo w0 w) (x : Array Buf) : Evo w0 { w with bufs := x } :=
  h.same rfl rfl rfl rfl rfl rfl
theorem Evo.setOqs {w0 w : World} (h : Evo w0 w) (x : Array OQ) : Evo w0 { w with oqs := x } :=
  h.same rfl rfl rfl rfl rfl rfl
theorem Evo.setPqs {w0 w : World} (h : Evo w0 w) (x : Array PQ) : Evo w0 { w with pqs := x } :=
  h.same rfl rfl rfl rfl rfl rfl
theorem Evo.setFlags {w0 w : World} (h : Evo w0 w) (x : Array Int) : Evo w0 { w with flags := x } :=
  h.same rfl rfl rfl rfl rfl rfl
theorem Evo.setGvars {w0 w : World} (h : Evo w0 w) (x : Array Nat) : Evo w0 { w with gvars := x } :=
  h.same rfl rfl rfl rfl rfl rfl
theorem Evo.setGuardsSet {w0 w : World} (h : Evo w0 w) (g : Nat) (x : Guard) :
    Evo w0 { w with guards := w.guards.set! g x } :=
  h.same rfl rfl rfl (by simp [Array.set!_eq_setIfInBounds]) rfl rfl
theorem Evo.setGuardQ {w0 w : World} (h : Evo w0 w) (g : Nat) (q : HH) : Evo w0 (setGuardQ w g q) :=
  h.same rfl rfl rfl (by simp) rfl rfl

theorem Evo.pushEv {w0 w : World} (h : Evo w0 w) (a s : Nat) (sig t pri : Int) (ht : w.now ≤ t) :
    Evo w0 (pushEv w a s sig t pri) :=
  h.trans ⟨rfl, pushEv_evinv a s sig t pri ht, id, by simp, rfl, rfl, rfl, rfl, rfl, rfl, by
    intro e he hk
    simp only [pushEv_pending, List.mem_cons] at he
    rcases he with rfl | he
    · simp only [mkEv] at hk; omega
    · exact ⟨e, he, rfl, rfl, rfl⟩⟩

theorem Evo.sched_fst {w0 w : World} (h : Evo w0 w) (a s : Nat) (sig t pri : Int) : Evo w0 (sched w a s sig t pri).1 := by
  rcases sched_cases w a s sig t pri with ⟨ht, he⟩ | ⟨_, m, he⟩
  · rw [he]; exact h.pushEv a s sig t pri ht
  · rw [he]; exact h.fail m

theorem Evo.ofCanRel {w w' : World} (h : CanRel w w') : Evo w w' :=
  ⟨h.evnow, h.evinv, by rw [h.fault]; exact id, h.counter, h.executed, h.current, by rw [h.procs], by rw [h.guards],
   h.conds, h.dispatched, by
    intro e he hk
    rcases h.pend e he with hold | ⟨hc, _⟩
    · exact ⟨e, hold, rfl, rfl, rfl⟩
    · omega⟩

theorem Evo.evCancel_fst {w0 w : World} (h : Evo w0 w) (k : Nat) : Evo w0 (evCancel w k).1 :=
  h.trans (Evo.ofCanRel (evCancel_rel w k))

theorem Evo.foldl {α : Type} {f : World → α → World} (hf : ∀ w a, Evo w (f w a)) {w0 : World} :
    ∀ (l : List α) {w : World}, Evo w0 w → Evo w0 (l.foldl f w) := by
  intro l
  induction l with
  | nil => intro w h; exact h
  | cons a l ih => intro w h; exact ih (h.trans (hf w a))

/-! ### the tactic: peel the outermost function -/

syntax "evo_step" : tactic
-- tried very last: unfold `have` / `let` bindings in the term
macro_rules | `(tactic| evo_step) => `(tactic| dsimp only)
-- tried last: record updates (structure eta makes these lemmas apply to anything, hence the progress check)
macro_rules | `(tactic| evo_step) => `(tactic| (guard_world_lit; with_reducible apply Evo.setGuardsSet))
macro_rules | `(tactic| evo_step) => `(tactic| (guard_world_lit; with_reducible apply Evo.setGvars))
macro_rules | `(tactic| evo_step) => `(tactic| (guard_world_lit; with_reducible apply Evo.setFlags))
macro_rules | `(tactic| evo_step) => `(tactic| (guard_world_lit; with_reducible apply Evo.setPqs))
macro_rules | `(tactic| evo_step) => `(tactic| (guard_world_lit; with_reducible apply Evo.setOqs))
macro_rules | `(tactic| evo_step) => `(tactic| (guard_world_lit; with_reducible apply Evo.setBufs))
macro_rules | `(tactic| evo_step) => `(tactic| (guard_world_lit; with_reducible apply Evo.setPools))
macro_rules | `(tactic| evo_step) => `(tactic| (guard_world_lit; with_reducible apply Evo.setRes))
macro_rules | `(tactic| evo_step) => `(tactic| (guard_world_lit; with_reducible apply Evo.setEvWaiters))
macro_rules | `(tactic| evo_step) => `(tactic| split)
macro_rules | `(tactic| evo_step) => `(tactic| with_reducible apply Evo.evCancel_fst)
macro_rules | `(tactic| evo_step) => `(tactic| with_reducible apply Evo.sched_fst)
macro_rules | `(tactic| evo_step) => `(tactic| with_reducible apply Evo.setGuardQ)
macro_rules | `(tactic| evo_step) => `(tactic| with_reducible apply Evo.modProc)
macro_rules | `(tactic| evo_step) => `(tactic| with_reducible apply Evo.emit)
macro_rules | `(tactic| evo_step) => `(tactic| with_reducible apply Evo.fail)
macro_rules | `(tactic| evo_step) => `(tactic| with_reducible exact Evo.refl _)
macro_rules | `(tactic| evo_step) => `(tactic| with_reducible assumption)

/-- close an `Evo w0 (expr)` goal by peeling `expr` -/
macro "evo" : tactic => `(tactic| repeat' evo_step)

/-! ### the functions of Sim/Model.lean -/

theorem Evo.wakeEventWaiters {w0 w : World} (h : Evo w0 w) (ps : List Pid) (sig : Int) :
    Evo w0 (wakeEventWaiters w ps sig) := by
  unfold Sim.wakeEventWaiters
  exact Evo.foldl (fun w q => by evo) ps h
macro_rules | `(tactic| evo_step) => `(tactic| with_reducible apply Evo.wakeEventWaiters)

theorem Evo.cancelAllFor {w0 w : World} (h : Evo w0 w) (p : Pid) : Evo w0 (cancelAllFor w p) := by
  unfold Sim.cancelAllFor
  exact Evo.foldl (fun w q => by evo) _ h
macro_rules | `(tactic| evo_step) => `(tactic| with_reducible apply Evo.cancelAllFor)

theorem Evo.cancelKindFor_fst {w0 w : World} (h : Evo w0 w) (p : Pid) (act : Nat) (sig : Option Int) :
    Evo w0 (cancelKindFor w p act sig).1 := by
  unfold Sim.cancelKindFor
  exact Evo.foldl (fun w q => by evo) _ h
macro_rules | `(tactic| evo_step) => `(tactic| with_reducible apply Evo.cancelKindFor_fst)
theorem Evo.cancelUserAll_fst {w0 w : World} (h : Evo w0 w) :
    Evo w0 (cancelUserAll w).1 := by
  unfold Sim.cancelUserAll
  exact Evo.foldl (fun w q => by evo) _ h
macro_rules | `(tactic| evo_step) => `(tactic| with_reducible apply Evo.cancelUserAll_fst)

theorem Evo.recordRes {w0 w : World} (h : Evo w0 w) (r : Nat) : Evo w0 (recordRes w r) := by
  unfold Sim.recordRes; evo
theorem Evo.recordPool {w0 w : World} (h : Evo w0 w) (r : Nat) : Evo w0 (recordPool w r) := by
  unfold Sim.recordPool; evo
theorem Evo.recordBuf {w0 w : World} (h : Evo w0 w) (r : Nat) : Evo w0 (recordBuf w r) := by
  unfold Sim.recordBuf; evo
theorem Evo.recordOQ {w0 w : World} (h : Evo w0 w) (r : Nat) : Evo w0 (recordOQ w r) := by
  unfold Sim.recordOQ; evo
theorem Evo.recordPQ {w0 w : World} (h : Evo w0 w) (r : Nat) : Evo w0 (recordPQ w r) := by
  unfold Sim.recordPQ; evo
macro_rules | `(tactic| evo_step) => `(tactic| with_reducible apply Evo.recordRes)
macro_rules | `(tactic| evo_step) => `(tactic| with_reducible apply Evo.recordPool)
macro_rules | `(tactic| evo_step) => `(tactic| with_reducible apply Evo.recordBuf)
macro_rules | `(tactic| evo_step) => `(tactic| with_reducible apply Evo.recordOQ)
macro_rules | `(tactic| evo_step) => `(tactic| with_reducible apply Evo.recordPQ)

theorem Evo.guardRemove_fst {w0 w : World} (h : Evo w0 w) (g : Nat) (p : Pid) : Evo w0 (guardRemove w g p).1 := by
  unfold Sim.guardRemove; evo
macro_rules | `(tactic| evo_step) => `(tactic| with_reducible apply Evo.guardRemove_fst)

theorem Evo.frontStep {w0 w : World} (h : Evo w0 w) (g : Nat) (gd : Guard) : Evo w0 (frontStep w g gd) := by
  unfold S3.frontStep; evo

theorem Evo.condSignal_fst {w0 w : World} (h : Evo w0 w) (g : Nat) : Evo w0 (condSignal w g).1 := by
  simp only [Sim.condSignal]
  split
  · exact h
  · split
    · exact h
    · refine Evo.foldl (fun w q => by evo) _ ?_
      exact Evo.foldl (fun w q => by evo) _ h
macro_rules | `(tactic| evo_step) => `(tactic| with_reducible apply Evo.condSignal_fst)

theorem Evo.ownStep {w0 w : World} (h : Evo w0 w) (fwd : Bool) (g : Nat) (gd : Guard) : Evo w0 (ownStep fwd w g gd) := by
  unfold S3.ownStep
  split
  · exact h.condSignal_fst g
  · exact h.frontStep g gd

theorem Evo.guardSignalF' : ∀ (fuel : Nat) (fwd : Bool) (w : World) (g : Nat), Evo w (guardSignalF fwd fuel w g) := by
  intro fuel
  induction fuel with
  | zero => intro fwd w g; rw [guardSignalF_zero]; exact (Evo.refl w).fail _
  | succ fuel ih =>
    intro fwd w g
    rw [guardSignalF_succ]
    split
    · exact Evo.refl w
    · exact Evo.foldl (fun w o => ih true w o) _ ((Evo.refl w).ownStep fwd g _)

theorem Evo.guardSignal' (fuel : Nat) (w : World) (g : Nat) : Evo w (guardSignal fuel w g) :=
  Evo.guardSignalF' fuel false w g

theorem Evo.guardSignal {w0 w : World} (h : Evo w0 w) (fuel : Nat) (g : Nat) : Evo w0 (guardSignal fuel w g) :=
  h.trans (Evo.guardSignal' fuel w g)

theorem Evo.signal {w0 w : World} (h : Evo w0 w) (g : Nat) : Evo w0 (signal w g) := h.guardSignal 8 g
macro_rules | `(tactic| evo_step) => `(tactic| with_reducible apply Evo.signal)

theorem Evo.guardWithdraw {w0 w : World} (h : Evo w0 w) (g : Nat) (p : Pid) : Evo w0 (guardWithdraw w g p) := by
  simp only [Sim.guardWithdraw]; evo
macro_rules | `(tactic| evo_step) => `(tactic| with_reducible apply Evo.guardWithdraw)

theorem Evo.addAwait {w0 w : World} (h : Evo w0 w) (p : Pid) (a : Await) : Evo w0 (addAwait w p a) := by
  unfold Sim.addAwait; evo
macro_rules | `(tactic| evo_step) => `(tactic| with_reducible apply Evo.addAwait)

theorem Evo.removeAwait_fst {w0 w : World} (h : Evo w0 w) (p : Pid) (a : Await) : Evo w0 (removeAwait w p a).1 := by
  simp only [Sim.removeAwait]; evo
macro_rules | `(tactic| evo_step) => `(tactic| with_reducible apply Evo.removeAwait_fst)

theorem Evo.removeAwaitKind_fst {w0 w : World} (h : Evo w0 w) (p : Pid) (k : Await → Bool) :
    Evo w0 (removeAwaitKind w p k).1 := by
  simp only [Sim.removeAwaitKind]; evo
macro_rules | `(tactic| evo_step) => `(tactic| with_reducible apply Evo.removeAwaitKind_fst)

theorem Evo.removeHeld_fst {w0 w : World} (h : Evo w0 w) (p : Pid) (x : HoldRef) : Evo w0 (removeHeld w p x).1 := by
  simp only [Sim.removeHeld]; evo
macro_rules | `(tactic| evo_step) => `(tactic| with_reducible apply Evo.removeHeld_fst)

theorem Evo.timerAdd_fst {w0 w : World} (h : Evo w0 w) (p : Pid) (d sig : Int) : Evo w0 (timerAdd w p d sig).1 := by
  simp only [Sim.timerAdd]; evo
macro_rules | `(tactic| evo_step) => `(tactic| with_reducible apply Evo.timerAdd_fst)

theorem Evo.timerCancel_fst {w0 w : World} (h : Evo w0 w) (p : Pid) (k : Nat) : Evo w0 (timerCancel w p k).1 := by
  simp only [Sim.timerCancel]; evo
macro_rules | `(tactic| evo_step) => `(tactic| with_reducible apply Evo.timerCancel_fst)

theorem Evo.timersClear {w0 w : World} (h : Evo w0 w) (p : Pid) : Evo w0 (timersClear w p) := by
  unfold Sim.timersClear
  exact Evo.foldl (fun w q => by evo) _ (by evo)
macro_rules | `(tactic| evo_step) => `(tactic| with_reducible apply Evo.timersClear)

theorem Evo.cancelAwaiteds {w0 w : World} (h : Evo w0 w) (p : Pid) : Evo w0 (cancelAwaiteds w p) := by
  unfold Sim.cancelAwaiteds
  apply Evo.cancelAllFor
  exact Evo.foldl (fun w q => by evo) _ (by evo)
macro_rules | `(tactic| evo_step) => `(tactic| with_reducible apply Evo.cancelAwaiteds)

theorem Evo.wakeWaiters {w0 w : World} (h : Evo w0 w) (p : Pid) (sig : Int) : Evo w0 (wakeWaiters w p sig) := by
  unfold Sim.wakeWaiters
  exact Evo.foldl (fun w q => by evo) _ (by evo)
macro_rules | `(tactic| evo_step) => `(tactic| with_reducible apply Evo.wakeWaiters)

theorem Evo.poolDropHolder {w0 w : World} (h : Evo w0 w) (pl : Nat) (p : Pid) : Evo w0 (poolDropHolder w pl p) := by
  unfold Sim.poolDropHolder; evo
macro_rules | `(tactic| evo_step) => `(tactic| with_reducible apply Evo.poolDropHolder)

theorem Evo.dropResources {w0 w : World} (h : Evo w0 w) (p : Pid) : Evo w0 (dropResources w p) := by
  unfold Sim.dropResources
  exact Evo.foldl (fun w q => by evo) _ (by evo)
macro_rules | `(tactic| evo_step) => `(tactic| with_reducible apply Evo.dropResources)

theorem Evo.finishProc {w0 w : World} (h : Evo w0 w) (p : Pid) (v : Int) (s : Bool) : Evo w0 (finishProc w p v s) := by
  unfold Sim.finishProc; evo
macro_rules | `(tactic| evo_step) => `(tactic| with_reducible apply Evo.finishProc)

theorem Evo.guardWaitEnter {w0 w : World} (h : Evo w0 w) (g : Nat) (p : Pid) (d : Demand) :
    Evo w0 (guardWaitEnter w g p d) := by
  unfold Sim.guardWaitEnter; evo
macro_rules | `(tactic| evo_step) => `(tactic| with_reducible apply Evo.guardWaitEnter)

theorem Evo.guardWaitLeave {w0 w : World} (h : Evo w0 w) (g : Nat) (p : Pid) (sig : Int) :
    Evo w0 (guardWaitLeave w g p sig) := by
  unfold Sim.guardWaitLeave; evo
macro_rules | `(tactic| evo_step) => `(tactic| with_reducible apply Evo.guardWaitLeave)

theorem Evo.grab {w0 w : World} (h : Evo w0 w) (r : Nat) (p : Pid) : Evo w0 (grab w r p) := by
  unfold Sim.grab; evo
macro_rules | `(tactic| evo_step) => `(tactic| with_reducible apply Evo.grab)

theorem Evo.poolUpdateRecord {w0 w : World} (h : Evo w0 w) (pl : Nat) (p : Pid) (a : Nat) :
    Evo w0 (poolUpdateRecord w pl p a) := by
  unfold Sim.poolUpdateRecord; evo
macro_rules | `(tactic| evo_step) => `(tactic| with_reducible apply Evo.poolUpdateRecord)

theorem Evo.setPoolInUse {w0 w : World} (h : Evo w0 w) (pl v : Nat) : Evo w0 (setPoolInUse w pl v) := by
  unfold Sim.setPoolInUse; evo
macro_rules | `(tactic| evo_step) => `(tactic| with_reducible apply Evo.setPoolInUse)

theorem Evo.setHeldAmount {w0 w : World} (h : Evo w0 w) (pl : Nat) (p : Pid) (a : Nat) :
    Evo w0 (setHeldAmount w pl p a) := by
  unfold Sim.setHeldAmount; evo
macro_rules | `(tactic| evo_step) => `(tactic| with_reducible apply Evo.setHeldAmount)

/-! ### the functions of Sim/Run.lean -/

theorem Evo.block_fst {w0 w : World} (h : Evo w0 w) (p : Pid) (f : Frame) : Evo w0 (block w p f).1 := by
  unfold Sim.block; evo
macro_rules | `(tactic| evo_step) => `(tactic| with_reducible apply Evo.block_fst)

theorem Evo.setVar {w0 w : World} (h : Evo w0 w) (p : Pid) (v x : Nat) : Evo w0 (setVar w p v x) := by
  unfold Sim.setVar; evo
macro_rules | `(tactic| evo_step) => `(tactic| with_reducible apply Evo.setVar)

theorem Evo.poolMug' : ∀ (fuel : Nat) (w : World) (p : Pid) (pl rem : Nat), Evo w (poolMug fuel w p pl rem).1 := by
  intro fuel
  induction fuel with
  | zero => intro w p pl rem; exact Evo.refl w
  | succ fuel ih =>
    intro w p pl rem
    simp only [Sim.poolMug]
    repeat' first | (with_reducible refine Evo.trans ?_ (ih _ _ _ _)) | evo_step

theorem Evo.poolMug_fst {w0 w : World} (h : Evo w0 w) (fuel : Nat) (p : Pid) (pl rem : Nat) :
    Evo w0 (poolMug fuel w p pl rem).1 := h.trans (Evo.poolMug' fuel w p pl rem)
macro_rules | `(tactic| evo_step) => `(tactic| with_reducible apply Evo.poolMug_fst)

theorem Evo.poolLoop_fst {w0 w : World} (h : Evo w0 w) (p : Pid) (pl rem ini : Nat) (pre : Bool) :
    Evo w0 (poolLoop w p pl rem ini pre).1 := by
  simp only [Sim.poolLoop]; evo
macro_rules | `(tactic| evo_step) => `(tactic| with_reducible apply Evo.poolLoop_fst)

theorem Evo.poolRollback {w0 w : World} (h : Evo w0 w) (p : Pid) (pl ini : Nat) : Evo w0 (poolRollback w p pl ini) := by
  simp only [Sim.poolRollback]; evo
macro_rules | `(tactic| evo_step) => `(tactic| with_reducible apply Evo.poolRollback)

theorem Evo.bufGetLoop_fst {w0 w : World} (h : Evo w0 w) (p : Pid) (b rem got : Nat) : Evo w0 (bufGetLoop w p b rem got).1 := by
  simp only [Sim.bufGetLoop]; evo
macro_rules | `(tactic| evo_step) => `(tactic| with_reducible apply Evo.bufGetLoop_fst)

theorem Evo.bufPutLoop_fst {w0 w : World} (h : Evo w0 w) (p : Pid) (b rem left : Nat) : Evo w0 (bufPutLoop w p b rem left).1 := by
  simp only [Sim.bufPutLoop]; evo
macro_rules | `(tactic| evo_step) => `(tactic| with_reducible apply Evo.bufPutLoop_fst)

theorem Evo.oqGetLoop_fst {w0 w : World} (h : Evo w0 w) (p : Pid) (q : Nat) : Evo w0 (oqGetLoop w p q).1 := by
  simp only [Sim.oqGetLoop]; evo
macro_rules | `(tactic| evo_step) => `(tactic| with_reducible apply Evo.oqGetLoop_fst)

theorem Evo.oqPutLoop_fst {w0 w : World} (h : Evo w0 w) (p : Pid) (q obj : Nat) : Evo w0 (oqPutLoop w p q obj).1 := by
  simp only [Sim.oqPutLoop]; evo
macro_rules | `(tactic| evo_step) => `(tactic| with_reducible apply Evo.oqPutLoop_fst)

theorem Evo.pqGetLoop_fst {w0 w : World} (h : Evo w0 w) (p : Pid) (k : Nat) : Evo w0 (pqGetLoop w p k).1 := by
  simp only [Sim.pqGetLoop]; evo
macro_rules | `(tactic| evo_step) => `(tactic| with_reducible apply Evo.pqGetLoop_fst)

theorem Evo.pqPutLoop_fst {w0 w : World} (h : Evo w0 w) (p : Pid) (k obj : Nat) (pri : Int) (v : Nat) :
    Evo w0 (pqPutLoop w p k obj pri v).1 := by
  simp only [Sim.pqPutLoop]; evo
macro_rules | `(tactic| evo_step) => `(tactic| with_reducible apply Evo.pqPutLoop_fst)


theorem Evo.acquireStep_fst {w0 w : World} (h : Evo w0 w) (p : Pid) (r : Nat) : Evo w0 (acquireStep w p r).1 := by
  simp only [Sim.acquireStep]; evo
macro_rules | `(tactic| evo_step) => `(tactic| with_reducible apply Evo.acquireStep_fst)

theorem Evo.setRecording {w0 w : World} (h : Evo w0 w) (kind idx : Nat) (on : Bool) : Evo w0 (setRecording w kind idx on) := by
  simp only [Sim.setRecording]; evo
macro_rules | `(tactic| evo_step) => `(tactic| with_reducible apply Evo.setRecording)

end CimbaModel.Sim.S3
