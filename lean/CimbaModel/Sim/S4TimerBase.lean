/-
  S4 — the strong timer invariant (no "or was cancelled" escape), part 1: definitions, congruence lemmas, the atomic
  state transformers.

  `TX fr w` is what is carried through every primitive: kernel invariant, `TL` (every TIME awaitable has its pending
  timer), `VarInv` (what the handle variables can name) and — when `fr = true` — `FrInv` (what the handle recorded in a
  suspended `hold` / the variable recorded in a suspended `priority_queue_put` can name).  `S3.TInv` travels next to it
  (its own lemmas are reused); the bundles `TT` / `TTH` are assembled in S4TimerRun.
-/
import CimbaModel.Sim.S4Defs

namespace CimbaModel.Sim.S4
open CimbaModel CimbaModel.Sim CimbaModel.Sim.S3 CimbaModel.Event CimbaModel.Generated CimbaModel.KPQ
open CimbaModel.HashHeap (HTag Item Order HH WF abs liveTags)

/-- what a recorded frame may mention: the handle of a suspended `hold` names (if anything pending) the timer of that
    process; the handle variable of a suspended `priority_queue_put` is a priority-queue variable -/
def FrameOk (w : World) (p : Pid) : Frame → Prop
  | .hold k => k ≤ w.ev.counter ∧ ∀ e ∈ w.ev.pending, e.key = k → e.item.a = aTime ∧ e.item.b = p + 1
  | .pqPut _ _ _ v => 4 ≤ v ∧ v < 8
  | _ => True

def FrInv (w : World) : Prop := ∀ p f, (w.proc p).blocked = some f → FrameOk w p f

/-- handles only grow, an event that keeps its handle keeps its action / subject -/
def Stb (w w' : World) : Prop :=
  w.ev.counter ≤ w'.ev.counter ∧
  ∀ e' ∈ w'.ev.pending, e'.key ≤ w.ev.counter → ∃ e ∈ w.ev.pending, e.key = e'.key ∧ e.item = e'.item

theorem Stb.refl (w : World) : Stb w w := ⟨Nat.le_refl _, fun e he _ => ⟨e, he, rfl, rfl⟩⟩

theorem Stb.ofEvo {w w' : World} (h : Evo w w') : Stb w w' :=
  ⟨h.counter, fun e' he' hk => by
    obtain ⟨e, he, h1, _, h3⟩ := h.stable e' he' hk
    exact ⟨e, he, h1, h3⟩⟩

theorem Stb.ofEv {w w' : World} (h : w'.ev = w.ev) : Stb w w' := by
  unfold Stb; rw [h]; exact Stb.refl w

theorem FrameOk.mono {w w' : World} {p : Pid} {f : Frame} (h : FrameOk w p f) (hs : Stb w w') : FrameOk w' p f := by
  cases f with
  | hold k =>
    obtain ⟨hk, he⟩ := h
    refine ⟨Nat.le_trans hk hs.1, ?_⟩
    intro e' he' hk'
    obtain ⟨e, hm, h1, h2⟩ := hs.2 e' he' (by rw [hk']; exact hk)
    rw [← h2]; exact he e hm (h1.trans hk')
  | pqPut k obj pri v => exact h
  | _ => trivial

theorem VarInv.mono {w w' : World} (hv : VarInv w) (hs : Stb w w')
    (hvars : ∀ p, (w'.proc p).vars = (w.proc p).vars) (hg : w'.gvars = w.gvars) : VarInv w' where
  tv := by
    intro p i hi
    rw [hvars]
    obtain ⟨h1, h2⟩ := hv.tv p i hi
    refine ⟨Nat.le_trans h1 hs.1, ?_⟩
    intro e' he' hk
    obtain ⟨e, hm, h3, h4⟩ := hs.2 e' he' (by rw [hk]; exact h1)
    rw [← h4]; exact h2 e hm (h3.trans hk)
  uv := by
    intro i hi
    rw [hg]
    obtain ⟨h1, h2⟩ := hv.uv i hi
    refine ⟨Nat.le_trans h1 hs.1, ?_⟩
    intro e' he' hk
    obtain ⟨e, hm, h3, h4⟩ := hs.2 e' he' (by rw [hk]; exact h1)
    rw [← h4]; exact h2 e hm (h3.trans hk)

theorem FrInv.mono {w w' : World} (hf : FrInv w) (hs : Stb w w')
    (hb : ∀ p, (w'.proc p).blocked = (w.proc p).blocked ∨ (w'.proc p).blocked = none) : FrInv w' := by
  intro p f hpf
  rcases hb p with h | h
  · rw [h] at hpf; exact (hf p f hpf).mono hs
  · rw [h] at hpf; cases hpf

/-- registrations only disappear; the timer event of a registration that is still there is still there -/
theorem TL.congr {w w' : World} (h : TL w)
    (ha : ∀ q k, Await.time k ∈ (w'.proc q).awaits → Await.time k ∈ (w.proc q).awaits)
    (hs : ∀ q k, Await.time k ∈ (w'.proc q).awaits → ∀ e ∈ w.ev.pending, e.key = k → e.item.a = aTime →
      e.item.b = q + 1 → ∃ e' ∈ w'.ev.pending, e'.key = e.key ∧ e'.item = e.item) : TL w' := by
  intro q k hk
  obtain ⟨e, he, h1, h2, h3⟩ := h q k (ha q k hk)
  obtain ⟨e', he', h4, h5⟩ := hs q k hk e he h1 h2 h3
  exact ⟨e', he', h4.trans h1, by rw [h5]; exact h2, by rw [h5]; exact h3⟩

/-- the timer event of a registration is the only pending event with that handle -/
theorem TL.owner {w : World} (h : TL w) (hi : EvInv w.ev) {q : Pid} {k : Nat} (hk : Await.time k ∈ (w.proc q).awaits)
    {e : HTag} (he : e ∈ w.ev.pending) (hek : e.key = k) : e.item.a = aTime ∧ e.item.b = q + 1 := by
  obtain ⟨e0, he0, h1, h2, h3⟩ := h q k hk
  have : e = e0 := HashHeap.eq_of_key_eq hi.part.keysNodup he he0 (hek.trans h1.symm)
  subst this; exact ⟨h2, h3⟩

/-- a timer handle is registered with one process only -/
theorem TL.unique {w : World} (h : TL w) (hi : EvInv w.ev) {q q' : Pid} {k : Nat} (hk : Await.time k ∈ (w.proc q).awaits)
    (hk' : Await.time k ∈ (w.proc q').awaits) : q = q' := by
  obtain ⟨e, he, h1, _, h3⟩ := h q k hk
  have := (h.owner hi hk' he h1).2
  exact Nat.add_right_cancel (h3.symm.trans this)

/-- the keys of pending events are positive -/
theorem key_pos {q : EvQ} (h : EvInv q) {e : HTag} (he : e ∈ q.pending) : 1 ≤ e.key := by
  have hp := h.part
  unfold Partition at hp
  have : e.key ∈ List.range' 1 q.counter := by
    apply hp.mem_iff.1
    simp only [List.mem_append]
    exact Or.inl (Or.inl (Event.mem_keys.2 ⟨e, he, rfl⟩))
  simp [List.mem_range'] at this
  omega

structure TX (fr : Bool) (w : World) : Prop where
  ei : EvInv w.ev
  tl : TL w
  vi : VarInv w
  fi : fr = true → FrInv w

variable {fr : Bool} {w w' : World}

/-- the general congruence -/
theorem TX.of (h : TX fr w) (hei : EvInv w'.ev) (hs : Stb w w')
    (hp : ∀ q, (∀ k, Await.time k ∈ (w'.proc q).awaits → Await.time k ∈ (w.proc q).awaits) ∧
      (w'.proc q).vars = (w.proc q).vars ∧
      (fr = true → (w'.proc q).blocked = (w.proc q).blocked ∨ (w'.proc q).blocked = none))
    (hg : w'.gvars = w.gvars)
    (hsv : ∀ q k, Await.time k ∈ (w'.proc q).awaits → ∀ e ∈ w.ev.pending, e.key = k →
      ∃ e' ∈ w'.ev.pending, e'.key = e.key ∧ e'.item = e.item) : TX fr w' where
  ei := hei
  tl := h.tl.congr (fun q k hk => (hp q).1 k hk) (fun q k hk e he h1 _ _ => hsv q k hk e he h1)
  vi := h.vi.mono hs (fun q => (hp q).2.1) hg
  fi := fun hfr => (h.fi hfr).mono hs (fun q => (hp q).2.2 hfr)

theorem TX.ofEvo (h : TX fr w) (he : Evo w w')
    (hp : ∀ q, (∀ k, Await.time k ∈ (w'.proc q).awaits → Await.time k ∈ (w.proc q).awaits) ∧
      (w'.proc q).vars = (w.proc q).vars ∧
      (fr = true → (w'.proc q).blocked = (w.proc q).blocked ∨ (w'.proc q).blocked = none))
    (hg : w'.gvars = w.gvars)
    (hsv : ∀ q k, Await.time k ∈ (w'.proc q).awaits → ∀ e ∈ w.ev.pending, e.key = k →
      ∃ e' ∈ w'.ev.pending, e'.key = e.key ∧ e'.item = e.item) : TX fr w' :=
  h.of (he.evinv h.ei) (Stb.ofEvo he) hp hg hsv

/-- same event queue -/
theorem TX.same (h : TX fr w) (hev : w'.ev = w.ev)
    (hp : ∀ q, (∀ k, Await.time k ∈ (w'.proc q).awaits → Await.time k ∈ (w.proc q).awaits) ∧
      (w'.proc q).vars = (w.proc q).vars ∧
      (fr = true → (w'.proc q).blocked = (w.proc q).blocked ∨ (w'.proc q).blocked = none))
    (hg : w'.gvars = w.gvars) : TX fr w' :=
  h.of (by rw [hev]; exact h.ei) (Stb.ofEv hev) hp hg (fun _ _ _ e he _ => ⟨e, by rw [hev]; exact he, rfl, rfl⟩)

theorem procs_keep {w w' : World} (hp : w'.procs = w.procs) (fr : Bool) (q : Pid) :
    (∀ k, Await.time k ∈ (w'.proc q).awaits → Await.time k ∈ (w.proc q).awaits) ∧
      (w'.proc q).vars = (w.proc q).vars ∧
      (fr = true → (w'.proc q).blocked = (w.proc q).blocked ∨ (w'.proc q).blocked = none) := by
  rw [proc_congr hp]; exact ⟨fun _ h => h, rfl, fun _ => Or.inl rfl⟩

/-- same processes, same variables -/
theorem TX.sameP (h : TX fr w) (hev : w'.ev = w.ev) (hp : w'.procs = w.procs) (hg : w'.gvars = w.gvars) : TX fr w' :=
  h.same hev (procs_keep hp fr) hg

/-! ### atomic transformers -/

theorem TX.fail (h : TX fr w) (m : String) : TX fr (w.fail m) := h.sameP (by simp) (by simp) (by simp)
theorem TX.emit (h : TX fr w) (l : String) : TX fr (w.emit l) := h.sameP rfl rfl rfl

theorem TX.modProc_ctl (h : TX fr w) (p : Pid) (f : Proc → Proc)
    (hf : ∀ x, (f x).awaits = x.awaits ∧ (f x).vars = x.vars ∧
      (fr = true → (f x).blocked = x.blocked ∨ (f x).blocked = none)) : TX fr (w.modProc p f) := by
  refine h.same rfl (fun q => ?_) rfl
  rw [modProc_proc]; split
  · rename_i hq; rw [hq.1]
    exact ⟨fun k hk => by rw [(hf _).1] at hk; exact hk, (hf _).2.1, (hf _).2.2⟩
  · exact ⟨fun _ hk => hk, rfl, fun _ => Or.inl rfl⟩

/-- registrations may be dropped at will -/
theorem TX.shrinkAwaits (h : TX fr w) (p : Pid) (g : List Await → List Await) (hg : ∀ l a, a ∈ g l → a ∈ l) :
    TX fr (w.modProc p fun x => { x with awaits := g x.awaits }) := by
  refine h.same rfl (fun q => ?_) rfl
  rw [modProc_proc]; split
  · rename_i hq; rw [hq.1]
    exact ⟨fun k hk => hg _ _ hk, rfl, fun _ => Or.inl rfl⟩
  · exact ⟨fun _ hk => hk, rfl, fun _ => Or.inl rfl⟩

/-- registrations of other kinds may be added -/
theorem TX.addAwait_other (h : TX fr w) (p : Pid) (a : Await) (ha : isTimeA a = false) : TX fr (addAwait w p a) := by
  refine h.same rfl (fun q => ?_) rfl
  unfold addAwait
  rw [modProc_proc]; split
  · rename_i hq; rw [hq.1]
    refine ⟨fun k hk => ?_, rfl, fun _ => Or.inl rfl⟩
    rcases List.mem_cons.1 hk with heq | hk
    · rw [← heq] at ha; cases ha
    · exact hk
  · exact ⟨fun _ hk => hk, rfl, fun _ => Or.inl rfl⟩

theorem TX.setRes (h : TX fr w) (x : Array Res) : TX fr { w with res := x } := h.sameP rfl rfl rfl
theorem TX.setPools (h : TX fr w) (x : Array Pool) : TX fr { w with pools := x } := h.sameP rfl rfl rfl
theorem TX.setBufs (h : TX fr w) (x : Array Buf) : TX fr { w with bufs := x } := h.sameP rfl rfl rfl
theorem TX.setOqs (h : TX fr w) (x : Array OQ) : TX fr { w with oqs := x } := h.sameP rfl rfl rfl
theorem TX.setPqs (h : TX fr w) (x : Array PQ) : TX fr { w with pqs := x } := h.sameP rfl rfl rfl
theorem TX.setFlags (h : TX fr w) (x : Array Int) : TX fr { w with flags := x } := h.sameP rfl rfl rfl
theorem TX.setGuards (h : TX fr w) (x : Array Guard) : TX fr { w with guards := x } := h.sameP rfl rfl rfl
theorem TX.setEvWaiters (h : TX fr w) (x : List (Nat × List Pid)) : TX fr { w with evWaiters := x } := h.sameP rfl rfl rfl
theorem TX.setGuardQ (h : TX fr w) (g : Nat) (q : HH) : TX fr (setGuardQ w g q) := h.sameP rfl rfl rfl

/-- a new event never hurts (whatever its kind: `TX` goes from registrations to events only) -/
theorem TX.pushEv (h : TX fr w) (a s : Nat) (sig t pri : Int) (ht : w.now ≤ t) : TX fr (pushEv w a s sig t pri) :=
  h.ofEvo ((Evo.refl w).pushEv a s sig t pri ht) (procs_keep rfl fr) rfl
    (fun _ _ _ e he _ => ⟨e, by simp only [pushEv_pending]; exact List.mem_cons_of_mem _ he, rfl, rfl⟩)

theorem TX.sched_fst (h : TX fr w) (a s : Nat) (sig t pri : Int) : TX fr (sched w a s sig t pri).1 := by
  rcases sched_cases w a s sig t pri with ⟨ht, he⟩ | ⟨_, m, he⟩
  · rw [he]; exact h.pushEv a s sig t pri ht
  · rw [he]; exact h.fail m

theorem TX.reprioEv (h : TX fr w) {k : Nat} {v : Int} {ev' : EvQ} (hr : reprioritize w.ev k v = .ok ev') :
    TX fr { w with ev := ev' } := by
  refine h.ofEvo ((Evo.refl w).reprioEv hr) (procs_keep rfl fr) rfl ?_
  unfold reprioritize at hr
  split at hr
  · cases hr
  · simp only [Except.ok.injEq] at hr
    subst hr
    intro _ _ _ e he _
    refine ⟨_, List.mem_map.2 ⟨e, he, rfl⟩, ?_, ?_⟩ <;> split <;> rfl

/-! ### cancellations -/

theorem evCancel_stay {w : World} {k : Nat} {e : HTag} (he : e ∈ w.ev.pending) (hk : e.key ≠ k) :
    e ∈ (evCancel w k).1.ev.pending := by
  rw [evCancel_eq]
  split
  · simp only [pushAll_pending, cancelEv_pending, List.mem_append, mem_remove]
    exact Or.inr ⟨he, hk⟩
  · exact he

/-- any number of cancellations that spare the timers still registered -/
theorem TX.ofCanRel (h : TX fr w) (hr : CanRel w w')
    (hsv : ∀ q k, Await.time k ∈ (w.proc q).awaits → ∀ e ∈ w.ev.pending, e.key = k → e ∈ w'.ev.pending) : TX fr w' :=
  h.ofEvo (Evo.ofCanRel hr) (procs_keep hr.procs fr) hr.gvars
    (fun q k hk e he h1 => ⟨e, hsv q k (by rw [← hr.proc]; exact hk) e he h1, rfl, rfl⟩)

/-- `cmb_event_cancel` of a handle nobody awaits as a timer -/
theorem TX.evCancel_fst (h : TX fr w) (k : Nat) (hk : ∀ q, Await.time k ∉ (w.proc q).awaits) : TX fr (evCancel w k).1 :=
  h.ofCanRel (evCancel_rel w k) (fun q k' hk' e he h1 => evCancel_stay he (fun h2 => hk q (by rw [← h2, h1]; exact hk')))

/-- cancelling the pending events of a kind other than timers -/
theorem TX.cancelKindFor_fst (h : TX fr w) (p : Pid) (act : Nat) (sig : Option Int) (ha : act ≠ aTime) :
    TX fr (cancelKindFor w p act sig).1 := by
  obtain ⟨hrel, _, hstay, _⟩ := cancelKindFor_spec w p act sig h.ei
  refine h.ofCanRel hrel (fun q k hk e he h1 => hstay e he ?_)
  have := (h.tl.owner h.ei hk he h1).1
  unfold kindMatch
  have hne : ¬ e.item.a = act := by rw [this]; exact fun h => ha h.symm
  simp [hne]

/-- cancelling the pending user events (pattern cancel): none of them is a timer -/
theorem TX.cancelUserAll_fst (h : TX fr w) : TX fr (cancelUserAll w).1 := by
  obtain ⟨hrel, _, hstay, _⟩ := cancelUserAll_spec w h.ei
  refine h.ofCanRel hrel (fun q k hk e he h1 => hstay e he ?_)
  have := (h.tl.owner h.ei hk he h1).1
  rw [this]; decide

/-- cancelling everything pending for a process that has no timer registered -/
theorem TX.cancelAllFor (h : TX fr w) (p : Pid) (hp : ∀ k, Await.time k ∉ (w.proc p).awaits) : TX fr (cancelAllFor w p) := by
  obtain ⟨hrel, _, hstay⟩ := cancelAllFor_spec w p h.ei
  refine h.ofCanRel hrel (fun q k hk e he h1 => hstay e he ?_)
  have := (h.tl.owner h.ei hk he h1).2
  intro hb
  have hqp : q = p := Nat.add_right_cancel (this.symm.trans hb)
  subst hqp
  exact hp k hk

/-- cancelling a list of handles nobody awaits as a timer -/
theorem TX.cancelFold (h : TX fr w) (hs : List Nat) (hk : ∀ k ∈ hs, ∀ q, Await.time k ∉ (w.proc q).awaits) :
    TX fr (hs.foldl (fun w h => (evCancel w h).1) w) := by
  obtain ⟨hrel, _, hstay⟩ := cancelFold_spec hs w h.ei
  exact h.ofCanRel hrel (fun q k hk' e he h1 => hstay e he (fun hm => hk _ hm q (by rw [h1]; exact hk')))

end CimbaModel.Sim.S4
