/-
  S1 — (re)starting a process (C09): the dispatch of a start event.
-/
import CimbaModel.Sim.S1DeadStep

namespace CimbaModel.Sim
open CimbaModel CimbaModel.Event CimbaModel.Generated
open CimbaModel.HashHeap (HTag Item Order HH)

/-- the world in which the event's action runs: the event is off the queue, the clock is at its time, the processes
    waiting for this very event have their wake-ups scheduled -/
def afterPop (w : World) (t : HTag) (ev' : EvQ) : World :=
  wakeEventWaiters { w with ev := ev', dispatched := w.dispatched + 1, evWaiters := (popWaiters w.evWaiters t.key).2 }
    (popWaiters w.evWaiters t.key).1 sigSuccess

@[simp] theorem afterPop_proc (w : World) (t : HTag) (ev' : EvQ) (q : Pid) : (afterPop w t ev').proc q = w.proc q := by
  unfold afterPop; simp

@[simp] theorem afterPop_size (w : World) (t : HTag) (ev' : EvQ) : (afterPop w t ev').procs.size = w.procs.size := by
  unfold afterPop; simp

/-- the world in which the started process begins to execute -/
def startWorld (w : World) (t : HTag) (ev' : EvQ) : World :=
  (afterPop w t ev').modProc (t.item.b - 1) fun y => { y with status := .running, pc := 0, blocked := none }

/-- **dispatching a start event** for a process that is not running runs its script from `startWorld` -/
theorem dispatch_start (w : World) (t : HTag) (ev' : EvQ) (hex : executeNext w.ev = some (t, ev'))
    (ha : t.item.a = aStart) (hnr : (w.proc (t.item.b - 1)).status ≠ .running) :
    dispatch w = some (runScript ((w.proc (t.item.b - 1)).script.size + 2) (startWorld w t ev') (t.item.b - 1)) := by
  unfold dispatch
  simp only [hex, ha, if_true]
  have e : (afterPop w t ev').proc (t.item.b - 1) = w.proc (t.item.b - 1) := afterPop_proc w t ev' _
  unfold afterPop at e
  simp only [e, hnr, if_false]
  have e2 : ((startWorld w t ev').proc (t.item.b - 1)).script = (w.proc (t.item.b - 1)).script := by
    unfold startWorld
    refine (modProc_field Proc.script _ _ _ ?_ _).trans (by rw [afterPop_proc])
    intro; rfl
  unfold startWorld afterPop at e2
  rw [e2]
  rfl

/-- **a (re)started process begins at the start of its function**, running, not suspended, with the awaits and
    holdings it had before — which are empty for a process that had finished (`DeadRec`) -/
theorem startWorld_record (w : World) (t : HTag) (ev' : EvQ) (hp : t.item.b - 1 < w.procs.size) :
    ((startWorld w t ev').proc (t.item.b - 1)).status = .running ∧
    ((startWorld w t ev').proc (t.item.b - 1)).pc = 0 ∧
    ((startWorld w t ev').proc (t.item.b - 1)).blocked = none ∧
    ((startWorld w t ev').proc (t.item.b - 1)).awaits = (w.proc (t.item.b - 1)).awaits ∧
    ((startWorld w t ev').proc (t.item.b - 1)).held = (w.proc (t.item.b - 1)).held ∧
    ((startWorld w t ev').proc (t.item.b - 1)).waiters = (w.proc (t.item.b - 1)).waiters := by
  unfold startWorld
  rw [proc_modProc_self _ _ _ (by simpa using hp), afterPop_proc]
  exact ⟨rfl, rfl, rfl, rfl, rfl, rfl⟩

theorem restart_clean {w : World} (h : DeadRec w) (t : HTag) (ev' : EvQ) (hp : t.item.b - 1 < w.procs.size)
    (hfin : (w.proc (t.item.b - 1)).status = .finished) :
    ((startWorld w t ev').proc (t.item.b - 1)).status = .running ∧
    ((startWorld w t ev').proc (t.item.b - 1)).pc = 0 ∧
    ((startWorld w t ev').proc (t.item.b - 1)).blocked = none ∧
    ((startWorld w t ev').proc (t.item.b - 1)).awaits = [] ∧
    ((startWorld w t ev').proc (t.item.b - 1)).held = [] ∧
    ((startWorld w t ev').proc (t.item.b - 1)).waiters = [] := by
  obtain ⟨a, b, c, d, e, f⟩ := startWorld_record w t ev' hp
  obtain ⟨h1, h2, h3, _⟩ := h.clean _ hfin
  exact ⟨a, b, c, d.trans h2, e.trans h1, f.trans h3⟩

end CimbaModel.Sim
