/-
  S3 — every state change that can satisfy a waiter's demand signals the right guard in the same step.
  Each statement is an equation: the step = `signal (the updated, recorded state) guard`.
-/
import CimbaModel.Sim.S3GuardOps

namespace CimbaModel.Sim.S3
open CimbaModel CimbaModel.Sim CimbaModel.Event CimbaModel.Generated CimbaModel.KPQ
open CimbaModel.HashHeap (HTag Item Order HH WF abs liveTags)

/-! ### resources -/

/-- `cmb_resource_release` by the holder: holder := none, record, signal the resource's guard -/
theorem release_signals {w : World} {p : Pid} {r : Nat} {x : Res} (hx : w.res[r]? = some x) (hh : x.holder = some p) :
    execCmd w p (.release r) =
      (signal (recordRes { (removeHeld w p (.res r)).1 with
        res := (removeHeld w p (.res r)).1.res.set! r { x with holder := none } } r) x.guard, .ret 0 "") := by
  simp only [execCmd, hx, hh]
  simp

/-- one step of `cmi_process_drop_resources` -/
def dropStep (p : Pid) (w : World) (h : HoldRef) : World :=
  match h with
  | .res r =>
    match w.res[r]? with
    | some x =>
      let w := { w with res := w.res.set! r { x with holder := none } }
      let w := recordRes w r
      signal w x.guard
    | none => w
  | .pool pl => poolDropHolder w pl p

theorem dropResources_eq (w : World) (p : Pid) :
    dropResources w p = (w.proc p).held.foldl (dropStep p) (w.modProc p fun x => { x with held := [] }) := rfl

/-- a resource dropped at the end of a process (or on a stop): holder := none, record, signal -/
theorem dropStep_res_signals {w : World} (p : Pid) {r : Nat} {x : Res} (hx : w.res[r]? = some x) :
    dropStep p w (.res r) = signal (recordRes { w with res := w.res.set! r { x with holder := none } } r) x.guard := by
  simp only [dropStep, hx]

theorem dropStep_pool (w : World) (p : Pid) (pl : Nat) : dropStep p w (.pool pl) = poolDropHolder w pl p := rfl

/-! ### pools -/

/-- a holder record dropped: the units go back, record, signal the pool's guard -/
theorem poolDropHolder_signals {w : World} {pl : Nat} {p : Pid} {x : Pool} {i : Nat} {h' : HH} {b : Bool}
    (hx : w.pools[pl]? = some x) (hi : HashHeap.findIndex x.holders (p + 1) = .ok (i + 1))
    (hr : HashHeap.remove holder_queue_check x.holders (p + 1) = .ok (h', b)) :
    poolDropHolder w pl p =
      signal (recordPool { w with pools := w.pools.set! pl { x with inUse := x.inUse - (x.holders.heap.getD (i + 1) {}).item.b, holders := h' } } pl) x.guard := by
  simp only [poolDropHolder, hx, hi, hr]

/-- not a holder: nothing happens (and nothing needs to be signalled) -/
theorem poolDropHolder_absent {w : World} {pl : Nat} {p : Pid} {x : Pool}
    (hx : w.pools[pl]? = some x) (hi : HashHeap.findIndex x.holders (p + 1) = .ok 0) :
    poolDropHolder w pl p = w := by
  simp only [poolDropHolder, hx, hi]

/-- `cmb_resourcepool_release` of `n ≤ held` units: in_use -= n, record, signal -/
theorem poolRelease_signals {w : World} {p : Pid} {pl n : Nat} {x : Pool} (hx : w.pools[pl]? = some x)
    (hn : ¬ (n = 0 ∨ n > heldAmount w pl p)) :
    ∃ w1 : World, execCmd w p (.poolRelease pl n) =
      (signal (recordPool (setPoolInUse w1 pl (x.inUse - n)) pl) x.guard, .ret 0 "") := by
  simp only [execCmd, hx, hn, if_false]
  exact ⟨_, rfl⟩

/-- rollback of a partly fulfilled acquisition that started from nothing: the units go back, signal -/
theorem poolRollback_zero_signals {w : World} {p : Pid} {pl : Nat} {x : Pool} {h' : HH} {found : Bool}
    (hx : w.pools[pl]? = some x)
    (hr : HashHeap.remove holder_queue_check x.holders (p + 1) = .ok (h', found)) :
    ∃ w1 : World, poolRollback w p pl 0 = signal w1 x.guard ∧
      w1.pools = (recordPool (setPoolInUse w pl (x.inUse - heldAmount w pl p)) pl).pools.modify pl
        (fun y => { y with holders := h' }) := by
  simp only [poolRollback, hx, hr, Nat.lt_irrefl, if_false]
  refine ⟨_, rfl, ?_⟩
  split <;> simp [removeHeld]

/-- rollback to what was held initially when more is held now: the surplus goes back, signal -/
theorem poolRollback_surplus_signals {w : World} {p : Pid} {pl initially : Nat} {x : Pool}
    (hx : w.pools[pl]? = some x) (h0 : initially > 0) (hs : heldAmount w pl p > initially) :
    poolRollback w p pl initially =
      signal (recordPool (setPoolInUse (setHeldAmount w pl p initially) pl
        (x.inUse - (heldAmount w pl p - initially))) pl) x.guard := by
  simp only [poolRollback, hx, h0, hs, if_true]

/-- an acquisition that can be completed from the free units: take them, record, update the holder record, signal
    (what is left may satisfy the next waiter) -/
theorem poolLoop_done_signals {w : World} {p : Pid} {pl rem initially : Nat} {preempt : Bool} {x : Pool}
    (hx : w.pools[pl]? = some x) (ha : x.cap - x.inUse ≥ rem) :
    poolLoop w p pl rem initially preempt =
      (signal (poolUpdateRecord (recordPool (setPoolInUse w pl (x.inUse + rem)) pl) pl p rem) x.guard,
       .ret sigSuccess "") := by
  simp only [poolLoop, hx, ha, if_true]

/-! ### buffers -/

/-- a get that can be completed: level -= n, record, signal the putters' guard, and the getters' guard if something
    is left -/
theorem bufGet_done_signals {w : World} {p : Pid} {b rem got : Nat} {x : Buf} (hx : w.bufs[b]? = some x)
    (hl : x.level ≥ rem) :
    (bufGetLoop w p b rem got).1 =
      (let w1 := signal (recordBuf { w with bufs := w.bufs.set! b { x with level := x.level - rem, getTotal := x.getTotal + rem } } b) x.rear
       if x.level - rem > 0 then signal w1 x.front else w1) := by
  simp only [bufGetLoop, hx, hl, if_true]

/-- a get that takes what is there and then waits: level := 0, record, signal the putters' guard (twice, as the C code
    does), then enter the wait on the getters' guard -/
theorem bufGet_partial_signals {w : World} {p : Pid} {b rem got : Nat} {x : Buf} (hx : w.bufs[b]? = some x)
    (hl : ¬ x.level ≥ rem) (hpos : x.level > 0) :
    (bufGetLoop w p b rem got).1 =
      (guardWaitEnter (signal (signal (recordBuf { w with bufs := w.bufs.set! b { x with level := 0, getTotal := x.getTotal + x.level } } b) x.rear) x.rear) x.front p (.bufContent b)).modProc p
        (fun y => { y with blocked := some (.bufGet b (rem - x.level) (got + x.level)) }) := by
  simp only [bufGetLoop, hx, hl, hpos, if_true, if_false, block]

/-- a put that can be completed: level += n, record, signal the getters' guard, and the putters' guard if space is left -/
theorem bufPut_done_signals {w : World} {p : Pid} {b rem left : Nat} {x : Buf} (hx : w.bufs[b]? = some x)
    (hl : x.cap - x.level ≥ rem) :
    (bufPutLoop w p b rem left).1 =
      (let w1 := signal (recordBuf { w with bufs := w.bufs.set! b { x with level := x.level + rem, putTotal := x.putTotal + rem } } b) x.front
       if x.level + rem < x.cap then signal w1 x.rear else w1) := by
  simp only [bufPutLoop, hx, hl, if_true]

theorem bufPut_partial_signals {w : World} {p : Pid} {b rem left : Nat} {x : Buf} (hx : w.bufs[b]? = some x)
    (hl : ¬ x.cap - x.level ≥ rem) (hpos : x.level < x.cap) :
    (bufPutLoop w p b rem left).1 =
      (guardWaitEnter (signal (signal (recordBuf { w with bufs := w.bufs.set! b { x with level := x.cap, putTotal := x.putTotal + (x.cap - x.level) } } b) x.front) x.front) x.rear p (.bufSpace b)).modProc p
        (fun y => { y with blocked := some (.bufPut b (rem - (x.cap - x.level)) (left - (x.cap - x.level))) }) := by
  simp only [bufPutLoop, hx, hl, hpos, if_true, if_false, block]

/-! ### object queues and priority queues -/

theorem oqGet_signals {w : World} {p : Pid} {q : Nat} {x : OQ} {o : Nat} {rest : List Nat} (hx : w.oqs[q]? = some x)
    (hi : x.items = o :: rest) :
    (oqGetLoop w p q).1 =
      signal (recordOQ { w with oqs := w.oqs.set! q { x with items := rest, gotLog := x.gotLog ++ [o] } } q) x.rear := by
  simp only [oqGetLoop, hx, hi]

theorem oqPut_signals {w : World} {p : Pid} {q obj : Nat} {x : OQ} (hx : w.oqs[q]? = some x)
    (hl : x.items.length < x.cap) :
    (oqPutLoop w p q obj).1 =
      signal (recordOQ { w with oqs := w.oqs.set! q { x with items := x.items ++ [obj], putLog := x.putLog ++ [obj] } } q)
        x.front := by
  simp only [oqPutLoop, hx, hl, if_true]

theorem pqGet_signals {w : World} {p : Pid} {k : Nat} {x : PQ} {q' : HH} {t : HTag} (hx : w.pqs[k]? = some x)
    (hc : x.queue.count > 0) (hd : HashHeap.dequeue compare_func x.queue = .ok (q', some t)) :
    (pqGetLoop w p k).1 =
      signal (recordPQ { w with pqs := w.pqs.set! k { x with queue := q', gotLog := x.gotLog ++ [t.key] } } k) x.rear := by
  simp only [pqGetLoop, hx, hc, if_true, hd]

theorem pqPut_signals {w : World} {p : Pid} {k obj v : Nat} {pri : Int} {x : PQ} {q' : HH} {h : Nat}
    (hx : w.pqs[k]? = some x) (hc : x.queue.count < x.cap)
    (he : HashHeap.enqueue compare_func x.queue ⟨obj, 0, 0, 0⟩ 0 0 pri = .ok (q', h)) :
    (pqPutLoop w p k obj pri v).1 =
      signal (recordPQ (setVar { w with pqs := w.pqs.set! k { x with queue := q', putLog := x.putLog ++ [h] } } p v h) k)
        x.front := by
  simp only [pqPutLoop, hx, hc, if_true, he]

/-- cancelling a queued object frees a slot: record, signal the putters' guard -/
theorem pqCancel_signals {w : World} {p : Pid} {k v : Nat} {x : PQ} {q' : HH} (hx : w.pqs[k]? = some x)
    (hv : getVar w p v ≠ 0) (hr : HashHeap.remove compare_func x.queue (getVar w p v) = .ok (q', true)) :
    (execCmd w p (.pqCancel k v)).1 =
      signal (recordPQ { w with pqs := w.pqs.set! k { x with queue := q', cancelLog := x.cancelLog ++ [getVar w p v] } } k) x.rear := by
  simp only [execCmd, hx, hv, if_false, hr, if_true]

end CimbaModel.Sim.S3
