/-
  S1 — the hashheap operations as the process-layer model uses them (results matched against `.ok`), in terms of
  the set of live keys.  Thin wrappers around the refinement theorems of CimbaModel/HashHeap (C02).
-/
import CimbaModel.HashHeap.RefineAbs
import CimbaModel.HashHeap.GuardOrder
import CimbaModel.HashHeap.RefinePattern

namespace CimbaModel.Sim
open CimbaModel CimbaModel.KPQ CimbaModel.HashHeap

section
variable {lt : Order} [StrictWeak lt]

/-- the live keys -/
def hkeys (s : HH) : List Nat := keys (abs s)

theorem hkeys_nodup {s : HH} (h : WF lt s) : (hkeys s).Nodup := h.keys_nodup

theorem hkeys_pos {s : HH} (h : WF lt s) {k : Nat} (hk : k ∈ hkeys s) : 1 ≤ k := by
  have := (h.keys_ne_zero hk).1; omega

theorem mem_keys_of_perm {q q' : KPQ} (hp : q.Perm q') (k : Nat) : k ∈ keys q ↔ k ∈ keys q' := by
  unfold keys
  exact (hp.map _).mem_iff

theorem hh_remove_ok {s s' : HH} {k : Nat} {r : Bool} (h : WF lt s) (hk0 : k ≠ 0)
    (hr : remove lt s k = .ok (s', r)) :
    WF lt s' ∧ (∀ x, x ∈ hkeys s' ↔ x ∈ hkeys s ∧ x ≠ k) ∧ r = decide (k ∈ hkeys s) := by
  obtain ⟨s1, hrun, hwf, hperm, _⟩ := remove_abs h k hk0
  rw [hrun] at hr
  injection hr with hr
  injection hr with h1 h2
  subst h1
  refine ⟨hwf, ?_, h2.symm⟩
  intro x
  unfold hkeys
  rw [mem_keys_of_perm hperm]
  unfold KPQ.remove keys
  simp only [List.mem_map, List.mem_filter]
  constructor
  · rintro ⟨e, ⟨he, hne⟩, rfl⟩
    exact ⟨⟨e, he, rfl⟩, by simpa using hne⟩
  · rintro ⟨⟨e, he, rfl⟩, hne⟩
    exact ⟨e, ⟨he, by simpa using hne⟩, rfl⟩

theorem hh_dequeue_ok {s s' : HH} {x : Option HTag} (h : WF lt s) (hc : s.count ≠ 0)
    (hr : dequeue lt s = .ok (s', x)) :
    ∃ t, x = some t ∧ peek s = .ok (some t) ∧ WF lt s' ∧ t.key ∈ hkeys s ∧
      ∀ k, k ∈ hkeys s' ↔ k ∈ hkeys s ∧ k ≠ t.key := by
  have hpos : 0 < s.count := Nat.pos_of_ne_zero hc
  obtain ⟨s1, hrun, hwf, hperm, _⟩ := dequeue_abs h hpos
  rw [hrun] at hr
  injection hr with hr
  injection hr with h1 h2
  subst h1
  refine ⟨s.tag 1, h2.symm, peek_spec h hpos, hwf, ?_, ?_⟩
  · unfold hkeys
    rw [mem_keys_of_perm hperm]
    simp [keys, norm]
  · intro k
    have hnd := h.keys_nodup
    have hk : (keys (abs s)).Perm ((s.tag 1).key :: keys (abs s1)) := by
      have := hperm.map (·.key)
      simpa [keys, norm] using this
    unfold hkeys
    have hnd' : ((s.tag 1).key :: keys (abs s1)).Nodup := hk.nodup_iff.1 hnd
    rw [List.nodup_cons] at hnd'
    rw [hk.mem_iff]
    constructor
    · intro hm
      exact ⟨List.mem_cons_of_mem _ hm, fun e => hnd'.1 (e ▸ hm)⟩
    · rintro ⟨hm, hne⟩
      rcases List.mem_cons.1 hm with e | e
      · exact absurd e hne
      · exact e

theorem enqueue_no_room {s : HH} (h : WF lt s) (it : Item) (k : Nat) (d i : Int)
    (hroom : ¬ (s.count < 2 ^ s.exp ∨ s.exp < 31)) : ∃ f, enqueue lt s it k d i = .error f := by
  have h1 := h.countLe
  have h2 := h.expLe
  have he : s.exp = 31 := by omega
  have hcnt : s.count = 2 ^ s.exp := by omega
  unfold enqueue
  have : ¬ 2 ^ s.exp < s.count := by omega
  simp only [this, if_false, hcnt, if_true]
  unfold grow
  have : growBound ≤ 2 ^ s.exp := by rw [he]; decide
  simp [this]
  exact ⟨_, rfl⟩

theorem hh_enqueue_ok [IgnoresHidx lt] {s s' : HH} {it : Item} {k k' : Nat} {d i : Int} (h : WF lt s) (hk0 : k ≠ 0)
    (hk64 : k < 2 ^ 64) (hfresh : k ∉ hkeys s) (hr : enqueue lt s it k d i = .ok (s', k')) :
    k' = k ∧ WF lt s' ∧ ∀ x, x ∈ hkeys s' ↔ x = k ∨ x ∈ hkeys s := by
  by_cases hroom : s.count < 2 ^ s.exp ∨ s.exp < 31
  · have e : (if k = 0 then s.counter + 1 else k) = k := by simp [hk0]
    obtain ⟨s1, hrun, hwf, hperm, _⟩ := enqueue_abs h it k d i (by rw [e]; exact hk0) (by rw [e]; exact hk64)
      (by rw [e]; exact hfresh) hroom
    rw [e] at hrun hperm
    rw [hrun] at hr
    injection hr with hr
    injection hr with h1 h2
    subst h1
    refine ⟨h2.symm, hwf, ?_⟩
    intro x
    unfold hkeys
    rw [mem_keys_of_perm hperm]
    simp [keys, KPQ.insert, norm]
  · obtain ⟨f, hf⟩ := enqueue_no_room h it k d i hroom
    rw [hf] at hr; cases hr

theorem hh_findIndex {s : HH} (h : WF lt s) (k : Nat) {i : Nat} (hr : findIndex s k = .ok i) :
    (i ≠ 0 ↔ k ∈ hkeys s) := by
  unfold hkeys
  by_cases hk : k ∈ keys (abs s)
  · obtain ⟨j, hj, rfl⟩ := (mem_keys_abs s k).1 hk
    rw [findIndex_of_mem h hj] at hr
    injection hr with hr
    subst hr
    have := hj.1
    constructor
    · intro _; exact hk
    · intro _; omega
  · rw [findIndex_of_not_mem h hk] at hr
    injection hr with hr
    subst hr
    simp [hk]

theorem hh_reprio_ok {s s' : HH} {k : Nat} {d i : Int} (h : WF lt s) (hr : reprioritize lt s k d i = .ok s') :
    WF lt s' ∧ ∀ x, x ∈ hkeys s' ↔ x ∈ hkeys s := by
  by_cases hk : k ∈ keys (abs s)
  · obtain ⟨s1, hrun, hwf, hperm, _⟩ := reprio_abs h hk d i
    rw [hrun] at hr
    injection hr with hr
    subst hr
    refine ⟨hwf, ?_⟩
    intro x
    unfold hkeys
    rw [mem_keys_of_perm hperm]
    unfold KPQ.reprio keys
    simp only [List.mem_map]
    constructor
    · rintro ⟨e, ⟨e0, he0, rfl⟩, rfl⟩
      refine ⟨e0, he0, ?_⟩
      split <;> rfl
    · rintro ⟨e0, he0, rfl⟩
      refine ⟨_, ⟨e0, he0, rfl⟩, ?_⟩
      split <;> rfl
  · exfalso
    unfold reprioritize at hr
    by_cases hk0 : k = 0
    · simp [hk0] at hr
    · rw [if_neg hk0, findIndex_of_not_mem h hk] at hr
      simp at hr

theorem hh_isEnqueued {s : HH} (h : WF lt s) (k : Nat) (hk0 : k ≠ 0) :
    isEnqueued s k = .ok (decide (k ∈ hkeys s)) := isEnqueued_spec h k hk0

end

/-! ### changing the payload of a live entry in place (the pools' amount field) -/

theorem tag_set (s : HH) (i : Nat) (t : HTag) (j : Nat) (hi : i < s.heap.size) :
    HH.tag { s with heap := s.heap.set! i t } j = if j = i then t else s.tag j := by
  unfold HH.tag
  simp only [Array.set!_eq_setIfInBounds, Array.getD_eq_getD_getElem?, Array.getElem?_setIfInBounds]
  by_cases e : i = j
  · subst e; simp [hi]
  · have : ¬ j = i := fun h => e h.symm
    simp [e, this]

theorem wf_setItem {lt : Order} {s : HH} (h : WF lt s)
    (hlt : ∀ (a b : HTag) (x y : Item), lt { a with item := x } { b with item := y } = lt a b)
    (i : Nat) (hi1 : 1 ≤ i) (hi2 : i ≤ s.count) (it : Item) :
    WF lt { s with heap := s.heap.set! i { s.tag i with item := it } } ∧
    hkeys { s with heap := s.heap.set! i { s.tag i with item := it } } = hkeys s := by
  have hsz : i < s.heap.size := by
    have := h.heapSize; have := h.countLe; omega
  have htag : ∀ j, HH.tag { s with heap := s.heap.set! i { s.tag i with item := it } } j =
      if j = i then { s.tag i with item := it } else s.tag j := fun j => tag_set s i _ j hsz
  have hkey : ∀ j, (HH.tag { s with heap := s.heap.set! i { s.tag i with item := it } } j).key = (s.tag j).key := by
    intro j; rw [htag]; split
    · rename_i e; subst e; rfl
    · rfl
  have hhidx : ∀ j, (HH.tag { s with heap := s.heap.set! i { s.tag i with item := it } } j).hidx = (s.tag j).hidx := by
    intro j; rw [htag]; split
    · rename_i e; subst e; rfl
    · rfl
  constructor
  · refine ⟨h.expPos, h.expLe, h.expInitPos, h.expInitLe, ?_, h.hashSize, h.countLe, ?_, ?_, ?_, h.unused, ?_, h.probe⟩
    · show (s.heap.set! i _).size = _
      simp [Array.set!_eq_setIfInBounds]; exact h.heapSize
    · intro j h1 h2; rw [hkey]; exact h.keyOk j h1 h2
    · intro j h1 h2
      rw [hhidx, hkey]; exact h.back j h1 h2
    · intro j h1 h2
      have := h.fwd j h1 h2
      exact ⟨this.1, by rw [hhidx]; exact this.2⟩
    · intro j h1 h2
      have hform : ∀ k, HH.tag { s with heap := s.heap.set! i { s.tag i with item := it } } k =
          { s.tag k with item := if k = i then it else (s.tag k).item } := by
        intro k; rw [htag]; split
        · rename_i e; subst e; rfl
        · rfl
      rw [hform, hform, hlt]
      exact h.ord j h1 h2
  · unfold hkeys keys HashHeap.abs HashHeap.liveTags
    simp only [List.map_map]
    apply List.map_congr_left
    intro j _
    simp only [Function.comp, norm]
    exact hkey (j + 1)

end CimbaModel.Sim
