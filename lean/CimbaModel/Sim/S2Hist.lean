/-
  S2 — recorded histories (C14), generic part: a recordable object has a recording flag, a history of
  (value, time) samples and a current state value; `record` appends (value, now) while recording is on.
  The invariant: sample times are nondecreasing and not after `now`; while recording the last sample carries
  the current value.  A composite operation on object `i` may break the second clause for `i` until it calls
  `record`, which restores it whatever happened in between.
-/
import CimbaModel.Sim.S2Buf

namespace CimbaModel.Sim
open CimbaModel CimbaModel.Event CimbaModel.Generated

structure RecOps (α : Type) where
  recording : α → Bool
  hist : α → Array (Int × Int)
  val : α → Int
  push : α → Int × Int → α
  push_rec : ∀ x s, recording (push x s) = recording x
  push_hist : ∀ x s, hist (push x s) = (hist x).push s
  push_val : ∀ x s, val (push x s) = val x

/-- sample times nondecreasing and not in the future -/
def TimesOK (h : Array (Int × Int)) (now : Int) : Prop :=
  (h.toList.map (·.2)).Pairwise (· ≤ ·) ∧ ∀ s ∈ h.toList, s.2 ≤ now

theorem TimesOK.push {h : Array (Int × Int)} {now : Int} (ok : TimesOK h now) (v : Int) : TimesOK (h.push (v, now)) now := by
  constructor
  · rw [Array.toList_push, List.map_append, List.pairwise_append]
    refine ⟨ok.1, by simp, ?_⟩
    intro a ha b hb
    simp at hb; subst hb
    obtain ⟨s, hs, rfl⟩ := List.mem_map.1 ha
    exact ok.2 s hs
  · intro s hs
    rw [Array.toList_push, List.mem_append] at hs
    rcases hs with hs | hs
    · exact ok.2 s hs
    · simp at hs; subst hs; exact Int.le_refl _

theorem TimesOK.mono {h : Array (Int × Int)} {now now' : Int} (ok : TimesOK h now) (hle : now ≤ now') : TimesOK h now' :=
  ⟨ok.1, fun s hs => Int.le_trans (ok.2 s hs) hle⟩

variable {α : Type} (R : RecOps α)

/-- full invariant of one object -/
def RecOK (now : Int) (x : α) : Prop :=
  TimesOK (R.hist x) now ∧ (R.recording x = true → ∃ s, (R.hist x).back? = some s ∧ s.1 = R.val x)

/-- everything is fine, except that object `i` may not have recorded its latest change yet -/
def OKexc (now : Int) (i : Nat) (a : Array α) : Prop :=
  ∀ (j : Nat) (x : α), a[j]? = some x → TimesOK (R.hist x) now ∧ (j ≠ i → RecOK R now x)

/-- `record` of object `i` at time `now` -/
def genRecord (a : Array α) (i : Nat) (now : Int) : Array α :=
  match a[i]? with
  | some x => if R.recording x then a.set! i (R.push x (R.val x, now)) else a
  | none => a

theorem RecOK.mono {now now' : Int} {x : α} (ok : RecOK R now x) (hle : now ≤ now') : RecOK R now' x :=
  ⟨ok.1.mono hle, ok.2⟩

theorem OKexc.of_all {now : Int} {a : Array α} (h : ArrAll (RecOK R now) a) (i : Nat) : OKexc R now i a :=
  fun j x hx => ⟨(h j x hx).1, fun _ => h j x hx⟩

/-- any change of object `i` that leaves its history alone -/
theorem OKexc.set {now : Int} {i : Nat} {a : Array α} (h : OKexc R now i a) {x : α} (hx : a[i]? = some x) {y : α}
    (hh : R.hist y = R.hist x) : OKexc R now i (a.setIfInBounds i y) := by
  intro j z hz
  rw [Array.getElem?_setIfInBounds] at hz
  split at hz
  · rename_i e; subst e
    split at hz
    · cases hz
      exact ⟨by rw [hh]; exact (h i x hx).1, fun hne => absurd rfl hne⟩
    · cases hz
  · exact h j z hz

theorem OKexc.modify {now : Int} {i : Nat} {a : Array α} (h : OKexc R now i a) {f : α → α}
    (hh : ∀ x, R.hist (f x) = R.hist x) : OKexc R now i (a.modify i f) := by
  intro j z hz
  rw [Array.getElem?_modify] at hz
  split at hz
  · rename_i e; subst e
    cases ha : a[i]? with
    | none => rw [ha] at hz; cases hz
    | some x =>
      rw [ha] at hz; cases hz
      exact ⟨by rw [hh]; exact (h i x ha).1, fun hne => absurd rfl hne⟩
  · exact h j z hz

/-- `record` restores the full invariant -/
theorem genRecord_restores {now : Int} {i : Nat} {a : Array α} (h : OKexc R now i a) :
    ArrAll (RecOK R now) (genRecord R a i now) := by
  unfold genRecord
  cases hx : a[i]? with
  | none =>
    intro j x hj
    by_cases hji : j = i
    · subst hji; rw [hx] at hj; cases hj
    · exact (h j x hj).2 hji
  | some x =>
    dsimp only
    split
    · intro j z hz
      rw [Array.set!_eq_setIfInBounds, Array.getElem?_setIfInBounds] at hz
      split at hz
      · rename_i e; subst e
        split at hz
        · cases hz
          refine ⟨by rw [R.push_hist]; exact (h i x hx).1.push _, fun _ => ⟨(R.val x, now), ?_, ?_⟩⟩
          · rw [R.push_hist]; exact Array.back?_push
          · rw [R.push_val]
        · cases hz
      · rename_i hne
        exact (h j z hz).2 (fun e => hne e.symm)
    · rename_i hrec
      intro j z hz
      by_cases hji : j = i
      · subst hji; rw [hx] at hz; cases hz
        exact ⟨(h j x hx).1, fun hr => absurd hr hrec⟩
      · exact (h j z hz).2 hji

theorem genRecord_ok {now : Int} {a : Array α} (h : ArrAll (RecOK R now) a) (i : Nat) :
    ArrAll (RecOK R now) (genRecord R a i now) := genRecord_restores R (OKexc.of_all R h i)

/-- a change of object `i` that keeps flag, history and value keeps the full invariant -/
theorem RecOK.set_same {now : Int} {i : Nat} {a : Array α} (h : ArrAll (RecOK R now) a) {x : α} (hx : a[i]? = some x) {y : α}
    (hr : R.recording y = R.recording x) (hh : R.hist y = R.hist x) (hv : R.val y = R.val x) :
    ArrAll (RecOK R now) (a.setIfInBounds i y) :=
  ArrAll.set h i ⟨by rw [hh]; exact (h i x hx).1, by rw [hr, hh, hv]; exact (h i x hx).2⟩

theorem RecOK.modify_same {now : Int} {i : Nat} {a : Array α} (h : ArrAll (RecOK R now) a) {f : α → α}
    (hr : ∀ x, R.recording (f x) = R.recording x) (hh : ∀ x, R.hist (f x) = R.hist x) (hv : ∀ x, R.val (f x) = R.val x) :
    ArrAll (RecOK R now) (a.modify i f) :=
  ArrAll.modify h i (fun x _ ok => ⟨by rw [hh]; exact ok.1, by rw [hr, hh, hv]; exact ok.2⟩)

/-- switching recording on or off (history and value untouched): fine for every other object, and for `i` up to the
    next `record` -/
theorem OKexc.modify_flag {now : Int} {i : Nat} {a : Array α} (h : ArrAll (RecOK R now) a) {f : α → α}
    (hh : ∀ x, R.hist (f x) = R.hist x) : OKexc R now i (a.modify i f) :=
  OKexc.modify R (OKexc.of_all R h i) hh

/-- switching recording off -/
theorem RecOK.modify_off {now : Int} {i : Nat} {a : Array α} (h : ArrAll (RecOK R now) a) {f : α → α}
    (hr : ∀ x, R.recording (f x) = false) (hh : ∀ x, R.hist (f x) = R.hist x) :
    ArrAll (RecOK R now) (a.modify i f) :=
  ArrAll.modify h i (fun x _ ok => ⟨by rw [hh]; exact ok.1, fun e => by rw [hr] at e; cases e⟩)

/-- a change of some object `j` that keeps flag, history and value keeps the weak invariant too -/
theorem OKexc.set_same {now : Int} {i j : Nat} {a : Array α} (h : OKexc R now i a) {x : α} (hx : a[j]? = some x) {y : α}
    (hr : R.recording y = R.recording x) (hh : R.hist y = R.hist x) (hv : R.val y = R.val x) :
    OKexc R now i (a.setIfInBounds j y) := by
  intro k z hz
  rw [Array.getElem?_setIfInBounds] at hz
  split at hz
  · rename_i e; subst e
    split at hz
    · cases hz
      have := h j x hx
      exact ⟨by rw [hh]; exact this.1, fun hne => ⟨by rw [hh]; exact this.1, by rw [hr, hh, hv]; exact (this.2 hne).2⟩⟩
    · cases hz
  · exact h k z hz

theorem OKexc.modify_same {now : Int} {i j : Nat} {a : Array α} (h : OKexc R now i a) {f : α → α}
    (hr : ∀ x, R.recording (f x) = R.recording x) (hh : ∀ x, R.hist (f x) = R.hist x) (hv : ∀ x, R.val (f x) = R.val x) :
    OKexc R now i (a.modify j f) := by
  intro k z hz
  rw [Array.getElem?_modify] at hz
  split at hz
  · rename_i e; subst e
    cases ha : a[j]? with
    | none => rw [ha] at hz; cases hz
    | some x =>
      rw [ha] at hz; cases hz
      have := h j x ha
      exact ⟨by rw [hh]; exact this.1, fun hne => ⟨by rw [hh]; exact this.1, by rw [hr, hh, hv]; exact (this.2 hne).2⟩⟩
  · exact h k z hz

/-- the exception is in fact fine -/
theorem OKexc.upgrade {now : Int} {i : Nat} {a : Array α} (h : OKexc R now i a)
    (hi : ∀ y, a[i]? = some y → RecOK R now y) : ArrAll (RecOK R now) a := by
  intro j x hx
  by_cases hji : j = i
  · subst hji; exact hi x hx
  · exact (h j x hx).2 hji

/-- a change of the state value cannot go unrecorded: two states of an object, both recording and both satisfying the
    invariant, with different values, have different histories -/
theorem RecOK.change_recorded {now now' : Int} {x x' : α} (ok : RecOK R now x) (ok' : RecOK R now' x')
    (hr : R.recording x = true) (hr' : R.recording x' = true) (hv : R.val x ≠ R.val x') : R.hist x ≠ R.hist x' := by
  intro he
  obtain ⟨s, hs, hsv⟩ := ok.2 hr
  obtain ⟨s', hs', hsv'⟩ := ok'.2 hr'
  rw [he, hs'] at hs
  injection hs with e
  rw [← hsv, ← hsv', e] at hv
  exact hv rfl

theorem ArrAll.mono {β : Type} {P Q : β → Prop} {a : Array β} (h : ArrAll P a) (hpq : ∀ x, P x → Q x) : ArrAll Q a :=
  fun i x hx => hpq x (h i x hx)

/-- `history_complete_step`, generic form: while recording, `record` appends exactly one sample, (current value, now) -/
theorem genRecord_appends {a : Array α} {i : Nat} {x : α} (hx : a[i]? = some x) (hrec : R.recording x = true) (now : Int) :
    ∃ y, (genRecord R a i now)[i]? = some y ∧ R.hist y = (R.hist x).push (R.val x, now) ∧ R.val y = R.val x := by
  unfold genRecord
  rw [hx]
  simp only [hrec, if_true]
  refine ⟨R.push x (R.val x, now), ?_, R.push_hist _ _, R.push_val _ _⟩
  rw [Array.set!_eq_setIfInBounds, Array.getElem?_setIfInBounds, if_pos rfl, if_pos (Array.getElem?_eq_some_iff.1 hx).1]

/-- … and nothing while recording is off -/
theorem genRecord_off {a : Array α} {i : Nat} {x : α} (hx : a[i]? = some x) (hrec : R.recording x = false) (now : Int) :
    genRecord R a i now = a := by
  unfold genRecord
  rw [hx]
  simp [hrec]

end CimbaModel.Sim
