/-
  S4 — `Safe` through the loops of Sim/Run.lean (pools, buffers, queues, conditions).  A call that suspends ends with the
  enqueue of the caller (`guardWaitEnter`), after which only "no fault" is needed: `SafeR`.
-/
import CimbaModel.Sim.S4SafePool

namespace CimbaModel.Sim.S4
open CimbaModel CimbaModel.Sim CimbaModel.Sim.S3 CimbaModel.Event CimbaModel.Generated CimbaModel.KPQ
open CimbaModel.HashHeap (HTag Item Order HH WF abs liveTags KeysBelowCounter)

variable {ex : Nat → Prop} {w : World} {p : Pid}

/-- the result of a command or of a resumed call: if it returned, `Safe` goes on; if the caller is now suspended or
    has ended, no fault has been recorded -/
def SafeR (ex : Nat → Prop) : World × Outcome → Prop
  | (w, .ret _ _) => Safe ex w
  | (w, .skip) => Safe ex w
  | (w, .blocked) => w.fault = none
  | (w, .ended) => w.fault = none

theorem SafeR.nf {r : World × Outcome} (h : SafeR ex r) : r.1.fault = none := by
  rcases r with ⟨w, o⟩
  cases o <;> first | exact Safe.nf h | exact h

theorem SafeR.ret (h : Safe ex w) (v : Int) (e : String) : SafeR ex (w, .ret v e) := h
theorem SafeR.skip (h : Safe ex w) : SafeR ex (w, .skip) := h
theorem SafeR.ended (h : Safe ex w) : SafeR ex (w, .ended) := h.nf
theorem SafeR.block (h : w.fault = none) (f : Frame) : SafeR ex (Sim.block w p f) := by
  show (Sim.block w p f).1.fault = none
  simpa using h

/-- the enqueue of the caller cannot fail: its key is fresh, it is a process key, there is room -/
theorem guardWaitEnter_nf (h : Safe (isKey p) w) (g : Nat) (hg : g < w.guards.size) (hp : p < w.procs.size) (d : Demand) :
    (guardWaitEnter w g p d).fault = none := by
  have hgd : w.guards[g]? = some w.guards[g] := Array.getElem?_eq_getElem hg
  obtain ⟨hwf, hk⟩ := h.gq g _ hgd
  have hpsz := h.st.psz
  have h64 : p + 1 < 2 ^ 64 := Nat.lt_trans (Nat.lt_of_le_of_lt (Nat.succ_le_of_lt hp) hpsz) (by decide)
  have hfresh : p + 1 ∉ keys (abs w.guards[g].q) := fun hm => (hk _ hm).2 rfl
  obtain ⟨q', _, _, _, heq⟩ := guardWaitEnter_spec hgd hwf p d h64 hfresh
    (room_of_keys hwf (fun k hk' => (hk k hk').1) hpsz)
  rw [heq]
  exact h.nf

macro_rules | `(tactic| safe_step) => `(tactic| with_reducible apply Safe.condSignal_fst)

theorem stat_of_safe_gsize {w w' : World} (hs : Stat w w') : w'.guards.size = w.guards.size := stat_gsize hs

/-! ### resources -/

theorem SafeR.acquireStep (h : Safe (isKey p) w) (hp : p < w.procs.size) (r : Nat) (hr : r < w.res.size) :
    SafeR (isKey p) (Sim.acquireStep w p r) := by
  unfold Sim.acquireStep
  split
  · rename_i hn
    rw [Array.getElem?_eq_getElem hr] at hn; cases hn
  · rename_i x hx
    split
    · rename_i hfree
      refine SafeR.ret (Safe.recordRes (h.grab r p (fun y hy => ?_)) r) _ _
      rw [hx] at hy; cases hy
      simpa using hfree
    · exact SafeR.block (guardWaitEnter_nf h _ (h.st.gex.res r x hx) hp _) _

/-! ### pools -/

theorem Safe.poolMug : ∀ (fuel : Nat) {w : World}, Safe ex w → ∀ (p : Pid), p < w.procs.size → ∀ (pl rem : Nat),
    Safe ex (Sim.poolMug fuel w p pl rem).1 := by
  intro fuel
  induction fuel with
  | zero => intro w h p _ pl rem; exact h
  | succ fuel ih =>
    intro w h p hp pl rem
    simp only [Sim.poolMug]
    split
    · exact h
    · rename_i x hx
      split
      · exact h
      · rename_i hc
        obtain ⟨hwf, hkb⟩ := h.hq pl x hx
        have hpos : 0 < x.holders.count := Nat.pos_of_ne_zero hc
        rw [HashHeap.peek_spec hwf hpos]
        dsimp only
        split
        · obtain ⟨h', hrun, hwf', hperm, _⟩ := HashHeap.dequeue_abs hwf hpos
          rw [hrun]
          dsimp only
          have hk' : ∀ k ∈ keys (abs h'), k ≤ w.procs.size := by
            intro k hk
            apply hkb k
            have := (HashHeap.keys_perm hperm k).2
            simp only [keys, List.map_cons, List.mem_cons] at this
            exact this (Or.inr hk)
          have h1 : Safe ex { w with pools := w.pools.set! pl { x with holders := h' } } :=
            h.setHolders pl x hx _ rfl hwf' hk'
          split
          · apply ih
            · apply Safe.poolUpdateRecord
              · safe
              · simpa using hp
            · simpa using hp
          · dsimp only
            apply Safe.signal
            apply Safe.recordPool
            apply Safe.setPoolInUse
            apply Safe.poolUpdateRecord
            · safe
            · simpa using hp
        · exact h

theorem SafeR.poolLoop (h : Safe (isKey p) w) (hp : p < w.procs.size) (pl rem initially : Nat) (preempt : Bool)
    (hpl : pl < w.pools.size) : SafeR (isKey p) (Sim.poolLoop w p pl rem initially preempt) := by
  unfold Sim.poolLoop
  split
  · rename_i hn
    rw [Array.getElem?_eq_getElem hpl] at hn; cases hn
  · rename_i x hx
    have hgx : x.guard < w.guards.size := h.st.gex.pools pl x hx
    dsimp only
    split
    · refine SafeR.ret ?_ _ _
      apply Safe.signal
      apply Safe.poolUpdateRecord
      · safe
      · simpa using hp
    · generalize hT : (if x.cap - x.inUse > 0 then
          (Sim.poolUpdateRecord (Sim.recordPool (Sim.setPoolInUse w pl (x.inUse + (x.cap - x.inUse))) pl) pl p (x.cap - x.inUse),
            rem - (x.cap - x.inUse))
        else (w, rem)) = T
      have hT1 : Safe (isKey p) T.1 ∧ Stat w T.1 := by
        rw [← hT]; split
        · constructor
          · apply Safe.poolUpdateRecord
            · safe
            · simpa using hp
          · have h0 := Stat.refl w; stat
        · exact ⟨h, Stat.refl w⟩
      generalize hM : (if preempt = true then Sim.poolMug (x.holders.count + 1) T.1 p pl T.2 else (T.1, some T.2)) = M
      have hM1 : Safe (isKey p) M.1 ∧ Stat w M.1 := by
        rw [← hM]; split
        · exact ⟨Safe.poolMug _ hT1.1 p (by rw [hT1.2.psize]; exact hp) pl _, hT1.2.trans (Stat.poolMug' _ _ _ _ _)⟩
        · exact hT1
      rcases M with ⟨wm, _ | r⟩
      · exact SafeR.ret hM1.1 _ _
      · refine SafeR.block (guardWaitEnter_nf hM1.1 _ ?_ ?_ _) _
        · rw [stat_gsize hM1.2]; exact hgx
        · rw [hM1.2.psize]; exact hp

theorem Safe.poolRollback (h : Safe ex w) (p : Pid) (pl initially : Nat) : Safe ex (Sim.poolRollback w p pl initially) := by
  unfold Sim.poolRollback
  split
  · exact h
  · rename_i x hx
    obtain ⟨hwf, hkb⟩ := h.hq pl x hx
    split
    · dsimp only
      split
      · rename_i hgt
        apply Safe.signal
        apply Safe.recordPool
        apply Safe.setPoolInUse
        apply h.setHeldAmount
        intro y hy
        rw [hx] at hy; cases hy
        exact heldAmount_pos hx hwf (by omega)
      · exact h
    · dsimp only
      obtain ⟨h', hrun, hwf', hperm, _⟩ := HashHeap.remove_abs hwf (p + 1) (by omega)
      have hx1 : (Sim.recordPool (Sim.setPoolInUse w pl (x.inUse - heldAmount w pl p)) pl).pools[pl]? =
          (Sim.recordPool (Sim.setPoolInUse w pl (x.inUse - heldAmount w pl p)) pl).pools[pl]? := rfl
      simp only [hrun]
      have h1 : Safe ex (Sim.recordPool (Sim.setPoolInUse w pl (x.inUse - heldAmount w pl p)) pl) := by safe
      have h2 : Safe ex { Sim.recordPool (Sim.setPoolInUse w pl (x.inUse - heldAmount w pl p)) pl with
          pools := (Sim.recordPool (Sim.setPoolInUse w pl (x.inUse - heldAmount w pl p)) pl).pools.modify pl fun y => { y with holders := h' } } := by
        refine ⟨h1.nf, h1.st.ofStat ((Stat.refl _).setPoolsModify pl _ (fun _ => rfl)), h1.gq, ?_⟩
        intro i y hy
        simp only [Array.getElem?_modify] at hy
        split at hy
        · rename_i e; subst e
          cases hz : (Sim.recordPool (Sim.setPoolInUse w pl (x.inUse - heldAmount w pl p)) pl).pools[pl]? with
          | none => rw [hz] at hy; cases hy
          | some z =>
            rw [hz] at hy
            simp only [Option.map_some, Option.some.injEq] at hy
            subst hy
            refine ⟨hwf', fun k hk => ?_⟩
            have := hkb k (keys_sub_of_remove hperm hk)
            simpa using this
        · exact h1.hq i y hy
      apply Safe.signal
      split
      · exact Safe.removeHeld_fst h2 _ _
      · exact h2

/-! ### buffers, object queues -/

theorem SafeR.bufGetLoop (h : Safe (isKey p) w) (hp : p < w.procs.size) (b rem got : Nat) (hb : b < w.bufs.size) :
    SafeR (isKey p) (Sim.bufGetLoop w p b rem got) := by
  unfold Sim.bufGetLoop
  split
  · rename_i hn
    rw [Array.getElem?_eq_getElem hb] at hn; cases hn
  · rename_i x hx
    have hgx := h.st.gex.bufs b x hx
    split
    · refine SafeR.ret ?_ _ _
      safe
    · dsimp only
      refine SafeR.block (guardWaitEnter_nf (w := Sim.signal _ x.rear) ?_ _ ?_ ?_ _) _
      · safe
      · have hst : Stat w (Sim.signal (if x.level > 0 then
            (Sim.signal (Sim.recordBuf { w with bufs := w.bufs.set! b { x with level := 0, getTotal := x.getTotal + x.level } } b) x.rear,
              rem - x.level, got + x.level) else (w, rem, got)).1 x.rear) := by
          have h0 := Stat.refl w; stat
        rw [stat_gsize hst]; exact hgx.1
      · simp; split <;> simpa using hp

theorem SafeR.bufPutLoop (h : Safe (isKey p) w) (hp : p < w.procs.size) (b rem left : Nat) (hb : b < w.bufs.size) :
    SafeR (isKey p) (Sim.bufPutLoop w p b rem left) := by
  unfold Sim.bufPutLoop
  split
  · rename_i hn
    rw [Array.getElem?_eq_getElem hb] at hn; cases hn
  · rename_i x hx
    have hgx := h.st.gex.bufs b x hx
    split
    · refine SafeR.ret ?_ _ _
      safe
    · dsimp only
      refine SafeR.block (guardWaitEnter_nf (w := Sim.signal _ x.front) ?_ _ ?_ ?_ _) _
      · safe
      · have hst : Stat w (Sim.signal (if x.level < x.cap then
            (Sim.signal (Sim.recordBuf { w with bufs := w.bufs.set! b { x with level := x.cap, putTotal := x.putTotal + (x.cap - x.level) } } b) x.front,
              rem - (x.cap - x.level), left - (x.cap - x.level)) else (w, rem, left)).1 x.front) := by
          have h0 := Stat.refl w; stat
        rw [stat_gsize hst]; exact hgx.2
      · simp; split <;> simpa using hp

theorem SafeR.oqGetLoop (h : Safe (isKey p) w) (hp : p < w.procs.size) (q : Nat) (hq : q < w.oqs.size) :
    SafeR (isKey p) (Sim.oqGetLoop w p q) := by
  unfold Sim.oqGetLoop
  split
  · rename_i hn
    rw [Array.getElem?_eq_getElem hq] at hn; cases hn
  · rename_i x hx
    have hgx := h.st.gex.oqs q x hx
    split
    · refine SafeR.ret ?_ _ _
      safe
    · exact SafeR.block (guardWaitEnter_nf h _ hgx.1 hp _) _

theorem SafeR.oqPutLoop (h : Safe (isKey p) w) (hp : p < w.procs.size) (q obj : Nat) (hq : q < w.oqs.size) :
    SafeR (isKey p) (Sim.oqPutLoop w p q obj) := by
  unfold Sim.oqPutLoop
  split
  · rename_i hn
    rw [Array.getElem?_eq_getElem hq] at hn; cases hn
  · rename_i x hx
    have hgx := h.st.gex.oqs q x hx
    split
    · refine SafeR.ret ?_ _ _
      safe
    · exact SafeR.block (guardWaitEnter_nf h _ hgx.2 hp _) _

/-! ### priority queues -/

/-- what a priority queue needs for its operations to succeed: well-formed, handles issued by the counter, and fewer than
    2³¹ − 1 puts so far (the growth limit of the hashheap; also keeps the handles below 2⁶⁴) -/
structure PQRoom (x : PQ) : Prop where
  wf : WF compare_func x.queue
  below : KeysBelowCounter x.queue
  room : x.queue.counter + 1 < 2 ^ 31

theorem SafeR.pqGetLoop (h : Safe (isKey p) w) (hp : p < w.procs.size) (k : Nat) (hk : k < w.pqs.size)
    (hok : ∀ x, w.pqs[k]? = some x → WF compare_func x.queue) : SafeR (isKey p) (Sim.pqGetLoop w p k) := by
  unfold Sim.pqGetLoop
  split
  · rename_i hn
    rw [Array.getElem?_eq_getElem hk] at hn; cases hn
  · rename_i x hx
    have hgx := h.st.gex.pqs k x hx
    split
    · rename_i hpos
      obtain ⟨q', hrun, _⟩ := HashHeap.dequeue_abs (hok x hx) hpos
      rw [hrun]
      refine SafeR.ret ?_ _ _
      safe
    · exact SafeR.block (guardWaitEnter_nf h _ hgx.1 hp _) _

theorem SafeR.pqPutLoop (h : Safe (isKey p) w) (hp : p < w.procs.size) (k obj : Nat) (pri : Int) (v : Nat) (hk : k < w.pqs.size)
    (hok : ∀ x, w.pqs[k]? = some x → PQRoom x) : SafeR (isKey p) (Sim.pqPutLoop w p k obj pri v) := by
  unfold Sim.pqPutLoop
  split
  · rename_i hn
    rw [Array.getElem?_eq_getElem hk] at hn; cases hn
  · rename_i x hx
    have hgx := h.st.gex.pqs k x hx
    obtain ⟨hwf, hbelow, hroom⟩ := hok x hx
    split
    · obtain ⟨q', hrun, _⟩ := HashHeap.auto_enqueue hwf hbelow ⟨obj, 0, 0, 0⟩ 0 0 pri (Nat.zero_le _)
        (Nat.lt_trans hroom (by decide)) (fun h0 => absurd rfl h0)
        (room_of_keys hwf (fun j hj => hbelow j hj) (Nat.lt_of_succ_lt hroom))
      simp only [if_true] at hrun
      rw [hrun]
      refine SafeR.ret ?_ _ _
      safe
    · exact SafeR.block (guardWaitEnter_nf h _ hgx.2 hp _) _

end CimbaModel.Sim.S4
