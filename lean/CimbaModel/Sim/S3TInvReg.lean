/-
  S3 — `TInv`, part 3: arming, cancelling and clearing timers, `cancel_awaiteds`, the end of a process.
-/
import CimbaModel.Sim.S3TInvFrame

namespace CimbaModel.Sim.S3
open CimbaModel CimbaModel.Sim CimbaModel.Event CimbaModel.Generated CimbaModel.KPQ
open CimbaModel.HashHeap (HTag Item Order HH WF abs liveTags)

variable {ex : Pid → Prop}

theorem TInv.exempt {w : World} (hp : TInv ex w) (p : Pid) : TInv (exAdd ex p) w :=
  { hp with t2 := fun e he ha x hb hx => hp.t2 e he ha x hb (fun h => hx (Or.inl h)) }

theorem TInv.unexempt {w : World} {p : Pid} (hp : TInv (exAdd ex p) w)
    (ht2 : ¬ ex p → ∀ e ∈ w.ev.pending, e.item.a = aTime → e.item.b = p + 1 → Await.time e.key ∈ (w.proc p).awaits) :
    TInv ex w := by
  refine { hp with t2 := ?_ }
  intro e he ha x hb hx
  by_cases hxp : x = p
  · subst hxp; exact ht2 hx e he ha hb
  · exact hp.t2 e he ha x hb (fun h => h.elim hx hxp)

/-- the awaits of an exempt process may be replaced by anything that contains no new TIME awaitable -/
theorem TInv.setAwaitsEx {w : World} {p : Pid} (hp : TInv (exAdd ex p) w) (g : List Await → List Await)
    (hg : ∀ l a, a ∈ (g l).filter isTimeA → a ∈ l.filter isTimeA)
    (hnd : ∀ l, ((l.filter isTimeA).filter (· ≠ .time 0)).Nodup → (((g l).filter isTimeA).filter (· ≠ .time 0)).Nodup) :
    TInv (exAdd ex p) (w.modProc p fun x => { x with awaits := g x.awaits }) := by
  have hpr : ∀ x, x ≠ p → (w.modProc p fun x => { x with awaits := g x.awaits }).proc x = w.proc x :=
    fun x hx => modProc_proc_ne w _ hx
  have hsub : ∀ x h, Await.time h ∈ ((w.modProc p fun x => { x with awaits := g x.awaits }).proc x).awaits →
      Await.time h ∈ (w.proc x).awaits := by
    intro x h hh
    rw [modProc_proc] at hh
    split at hh
    · rename_i hx; rw [hx.1]
      have : Await.time h ∈ (g (w.proc p).awaits).filter isTimeA := List.mem_filter.2 ⟨hh, rfl⟩
      exact (List.mem_filter.1 (hg _ _ this)).1
    · exact hh
  refine { ei := hp.ei, t1 := fun x h h0 hh => hp.t1 x h h0 (hsub x h hh), t2 := ?_,
           tle := fun x h hh => hp.tle x h (hsub x h hh), tnd := ?_, tb := hp.tb }
  · intro e he ha x hb hx
    have hxp : x ≠ p := fun h => hx (Or.inr h)
    rw [hpr x hxp]; exact hp.t2 e he ha x hb hx
  · intro x
    unfold timeAw
    rw [modProc_proc]; split
    · exact hnd _ (hp.tnd p)
    · exact hp.tnd x

/-! ### arming -/

/-- the dummy TIME(0) of a refused arming is harmless -/
theorem TInv.addAwait_time0 {w : World} (hp : TInv ex w) (p : Pid) : TInv ex (addAwait w p (.time 0)) := by
  have hpr : ∀ x, ((addAwait w p (.time 0)).proc x).awaits =
      if x = p ∧ p < w.procs.size then .time 0 :: (w.proc x).awaits else (w.proc x).awaits := by
    intro x; unfold addAwait; rw [modProc_proc]
    split
    · rename_i h; rw [h.1]
    · rfl
  have hmem : ∀ x h, h ≠ 0 → (Await.time h ∈ ((addAwait w p (.time 0)).proc x).awaits ↔ Await.time h ∈ (w.proc x).awaits) := by
    intro x h h0; rw [hpr]; split
    · constructor
      · intro hm; rcases List.mem_cons.1 hm with heq | hm
        · cases heq; exact absurd rfl h0
        · exact hm
      · exact List.mem_cons_of_mem _
    · exact Iff.rfl
  refine { ei := hp.ei, t1 := fun x h h0 hh => hp.t1 x h h0 ((hmem x h h0).1 hh), t2 := ?_, tle := ?_, tnd := ?_, tb := hp.tb }
  · intro e he ha x hb hx
    have := hp.t2 e he ha x hb hx
    rw [hpr]; split
    · exact List.mem_cons_of_mem _ this
    · exact this
  · intro x h hh
    by_cases h0 : h = 0
    · subst h0; exact Nat.zero_le _
    · exact hp.tle x h ((hmem x h h0).1 hh)
  · intro x
    unfold timeAw; rw [hpr]; split
    · simp only [List.filter_cons, isTimeA, if_true, ne_eq, not_true_eq_false, decide_false, Bool.false_eq_true, if_false]
      exact hp.tnd x
    · exact hp.tnd x



theorem TInv.timerAdd_fst {w : World} (hp : TInv ex w) (p : Pid) (d sig : Int) (hlt : p < w.procs.size) :
    TInv ex (timerAdd w p d sig).1 := by
  simp only [Sim.timerAdd]
  rcases sched_cases w aTime (p + 1) sig (w.now + d) (w.proc p).prio with ⟨ht, he⟩ | ⟨_, m, he⟩
  · rw [he]
    -- one new timer event, registered at once
    have hpr : ∀ x, ((addAwait (pushEv w aTime (p + 1) sig (w.now + d) (w.proc p).prio) p (.time (w.ev.counter + 1))).proc x).awaits =
        if x = p then .time (w.ev.counter + 1) :: (w.proc x).awaits else (w.proc x).awaits := by
      intro x; unfold addAwait; rw [modProc_proc]
      have : p < (pushEv w aTime (p + 1) sig (w.now + d) (w.proc p).prio).procs.size := hlt
      by_cases hx : x = p
      · subst hx; simp [hlt]
      · simp [hx]
    refine { ei := pushEv_evinv _ _ _ _ _ ht hp.ei, t1 := ?_, t2 := ?_, tle := ?_, tnd := ?_, tb := ?_ }
    · intro x h h0 hh
      rw [hpr] at hh
      split at hh
      · rename_i hx; subst hx
        rcases List.mem_cons.1 hh with heq | hh
        · cases heq
          exact Or.inl ⟨_, List.mem_cons_self, rfl, rfl, rfl⟩
        · rcases hp.t1 x h h0 hh with ⟨e, he', h1, h2, h3⟩ | hc
          · exact Or.inl ⟨e, List.mem_cons_of_mem _ he', h1, h2, h3⟩
          · exact Or.inr hc
      · rcases hp.t1 x h h0 hh with ⟨e, he', h1, h2, h3⟩ | hc
        · exact Or.inl ⟨e, List.mem_cons_of_mem _ he', h1, h2, h3⟩
        · exact Or.inr hc
    · intro e he' ha x hb hx
      have he'' : e ∈ mkEv (w.ev.counter + 1) aTime (p + 1) sig (w.now + d) (w.proc p).prio :: w.ev.pending := he'
      rw [hpr]
      rcases List.mem_cons.1 he'' with heq | he''
      · rw [heq] at hb ⊢
        simp only [mkEv] at hb ⊢
        have : x = p := (Nat.add_right_cancel hb).symm
        rw [if_pos this]; exact List.mem_cons_self
      · have := hp.t2 e he'' ha x hb hx
        split
        · exact List.mem_cons_of_mem _ this
        · exact this
    · intro x h hh
      rw [hpr] at hh
      show h ≤ w.ev.counter + 1
      split at hh
      · rcases List.mem_cons.1 hh with heq | hh
        · cases heq; exact Nat.le_refl _
        · exact Nat.le_succ_of_le (hp.tle x h hh)
      · exact Nat.le_succ_of_le (hp.tle x h hh)
    · intro x
      unfold timeAw
      rw [hpr]
      split
      · rename_i hx; subst hx
        simp only [List.filter_cons, isTimeA, if_true]
        have hne : (Await.time (w.ev.counter + 1) ≠ Await.time 0) := by simp
        simp only [hne, ne_eq, not_false_eq_true, decide_true, if_true]
        refine List.nodup_cons.2 ⟨?_, hp.tnd x⟩
        intro hm
        have := (List.mem_filter.1 (List.mem_filter.1 hm).1).1
        have := hp.tle x _ this
        omega
      · exact hp.tnd x
    · intro e he' ha
      have he'' : e ∈ mkEv (w.ev.counter + 1) aTime (p + 1) sig (w.now + d) (w.proc p).prio :: w.ev.pending := he'
      rcases List.mem_cons.1 he'' with heq | he''
      · rw [heq]; simp [mkEv]
      · exact hp.tb e he'' ha
  · rw [he]
    -- refused (duration < 0): a fault is recorded and the dummy TIME(0) is pushed
    exact (hp.fail m).addAwait_time0 p

/-! ### disarming -/

theorem removeFirst_mem_ne {α : Type} [DecidableEq α] (l : List α) (a x : α) (hx : x ∈ l) (hne : x ≠ a) : x ∈ (removeFirst l a).1 := by
  induction l with
  | nil => cases hx
  | cons y ys ih =>
    unfold removeFirst
    by_cases hy : y = a
    · simp only [hy, if_true]
      rcases List.mem_cons.1 hx with h | h
      · exact absurd (h.trans hy) hne
      · exact h
    · simp only [hy, if_false]
      rcases List.mem_cons.1 hx with h | h
      · rw [h]; exact List.mem_cons_self
      · exact List.mem_cons_of_mem _ (ih h)

theorem removeFirst_sublist {α : Type} [DecidableEq α] (l : List α) (a : α) : (removeFirst l a).1.Sublist l := by
  induction l with
  | nil => exact List.Sublist.refl _
  | cons y ys ih =>
    unfold removeFirst
    by_cases hy : y = a
    · simp only [hy, if_true]; exact List.sublist_cons_self _ _
    · simp only [hy, if_false]; exact List.Sublist.cons₂ _ ih

/-- forgetting a TIME awaitable whose event is not pending (any more) -/
theorem TInv.removeAwait_time_gone {w : World} (hp : TInv ex w) (p : Pid) (h : Nat)
    (hgone : ∀ e ∈ w.ev.pending, e.key = h → e.item.a = aTime → e.item.b ≠ p + 1) :
    TInv ex (removeAwait w p (.time h)).1 := by
  rw [removeAwait_fst_eq]
  have hpr : ∀ x, ((w.modProc p fun x => { x with awaits := (removeFirst x.awaits (.time h)).1 }).proc x).awaits =
      if x = p ∧ p < w.procs.size then (removeFirst (w.proc x).awaits (.time h)).1 else (w.proc x).awaits := by
    intro x; rw [modProc_proc]; split
    · rename_i hx; rw [hx.1]
    · rfl
  have hsub : ∀ x a, a ∈ ((w.modProc p fun x => { x with awaits := (removeFirst x.awaits (.time h)).1 }).proc x).awaits →
      a ∈ (w.proc x).awaits := by
    intro x a ha; rw [hpr] at ha; split at ha
    · exact removeFirst_subset _ _ _ ha
    · exact ha
  refine { ei := hp.ei, t1 := fun x k k0 hk => hp.t1 x k k0 (hsub x _ hk), t2 := ?_,
           tle := fun x k hk => hp.tle x k (hsub x _ hk), tnd := ?_, tb := hp.tb }
  · intro e he ha x hb hx
    have := hp.t2 e he ha x hb hx
    rw [hpr]; split
    · rename_i hxp
      refine removeFirst_mem_ne _ _ _ this ?_
      intro heq
      have hk : e.key = h := by injection heq
      exact hgone e he hk ha (by rw [hb, hxp.1])
    · exact this
  · intro x
    unfold timeAw; rw [hpr]; split
    · exact List.Nodup.sublist (((removeFirst_sublist _ _).filter _).filter _) (hp.tnd x)
    · exact hp.tnd x

/-- `cmb_process_timer_cancel` -/
theorem TInv.timerCancel_fst {w : World} (hp : TInv ex w) (p : Pid) (h : Nat) : TInv ex (timerCancel w p h).1 := by
  simp only [Sim.timerCancel]
  -- exempt p while the registration is gone but the event still there
  have h1 : TInv (exAdd ex p) (removeAwait w p (.time h)).1 := by
    rw [removeAwait_fst_eq]
    refine (hp.exempt p).setAwaitsEx (fun l => (removeFirst l (.time h)).1) ?_ ?_
    · intro l a ha
      exact List.mem_filter.2 ⟨removeFirst_subset _ _ _ (List.mem_filter.1 ha).1, (List.mem_filter.1 ha).2⟩
    · intro l hl
      exact List.Nodup.sublist (((removeFirst_sublist _ _).filter _).filter _) hl
  have h2 := h1.evCancel_fst h
  refine h2.unexempt ?_
  intro hxp e he ha hb
  -- e is an old timer event of p other than h
  have hrel := evCancel_rel (removeAwait w p (.time h)).1 h
  have hev : (removeAwait w p (.time h)).1.ev = w.ev := by simp only [removeAwait]; rfl
  rcases hrel.pend e he with hold | ⟨_, _, _, _, _, _, heq⟩
  · rw [hev] at hold
    have hne : e.key ≠ h := by
      intro hk
      rw [evCancel_eq] at he
      split at he
      · simp only [pushAll_pending, cancelEv_pending, List.mem_append, mem_remove] at he
        rcases he with he | he
        · obtain ⟨_, _, _, _, x, hx, heq⟩ := wakeEvs_props he
          simp only [evWakes, List.mem_map] at hx
          obtain ⟨q, _, rfl⟩ := hx
          rw [heq] at ha; simp [mkEv] at ha; exact absurd ha (by decide)
        · exact he.2 hk
      · rename_i hnk
        rw [hev] at hnk
        exact hnk (hk ▸ Event.mem_keys.2 ⟨e, hold, rfl⟩)
    have hm := hp.t2 e hold ha p hb hxp
    rw [hrel.proc, removeAwait_fst_eq, modProc_proc]
    split
    · exact removeFirst_mem_ne _ _ _ hm (fun heq => hne (by injection heq))
    · exact hm
  · rw [heq] at ha; simp [mkEv] at ha; exact absurd ha (by decide)


/-- `cmb_process_timers_clear`: afterwards the process has neither a TIME awaitable nor a pending timer event -/
theorem TInv.timersClear {w : World} (hp : TInv ex w) (p : Pid) : TInv ex (timersClear w p) := by
  unfold Sim.timersClear
  have h1 : TInv (exAdd ex p) (w.modProc p fun x => { x with awaits := x.awaits.filter fun a => match a with | .time _ => false | _ => true }) := by
    refine (hp.exempt p).setAwaitsEx (fun l => l.filter fun a => match a with | .time _ => false | _ => true) ?_ ?_
    · intro l a ha
      have := List.mem_filter.1 ha
      have h2 := List.mem_filter.1 this.1
      cases a <;> simp_all [isTimeA]
    · intro l hl
      exact List.Nodup.sublist (((List.filter_sublist).filter _).filter _) hl
  have hev : (w.modProc p fun x => { x with awaits := x.awaits.filter fun a => match a with | .time _ => false | _ => true }).ev = w.ev := rfl
  obtain ⟨hrel, hgone, _⟩ := cancelFold_spec ((w.proc p).awaits.filterMap fun a => match a with | .time h => some h | _ => none)
    (w.modProc p fun x => { x with awaits := x.awaits.filter fun a => match a with | .time _ => false | _ => true }) hp.ei
  have h2 : TInv (exAdd ex p) (((w.proc p).awaits.filterMap fun a => match a with | .time h => some h | _ => none).foldl
      (fun w h => (evCancel w h).1)
      (w.modProc p fun x => { x with awaits := x.awaits.filter fun a => match a with | .time _ => false | _ => true })) :=
    h1.ofCanRel hrel
  refine h2.unexempt ?_
  intro hxp e he ha hb
  exfalso
  rcases hrel.pend e he with hold | ⟨_, _, _, _, _, _, heq⟩
  · have hold' : e ∈ w.ev.pending := hold
    have hm := hp.t2 e hold' ha p hb hxp
    refine hgone e he (EvInv.key_le hp.ei hold') ?_
    exact List.mem_filterMap.2 ⟨_, hm, rfl⟩
  · rw [heq] at ha; simp [mkEv] at ha; exact absurd ha (by decide)

theorem TInv.caStep {w : World} (hp : TInv ex w) (p : Pid) (a : Await) : TInv ex (caStep p w a) := by
  cases a with
  | time k => exact hp.evCancel_fst k
  | guard g => exact hp.guardWithdraw g p
  | proc q => exact hp.modProc_ctl q _ (fun _ => rfl)
  | event k => exact hp.setEvWaiters _

/-- `cmi_process_cancel_awaiteds`: afterwards the process has neither a TIME awaitable nor a pending timer event -/
theorem TInv.cancelAwaiteds {w : World} (hp : TInv ex w) (p : Pid) : TInv ex (Sim.cancelAwaiteds w p) := by
  rw [cancelAwaiteds_eq]
  have h1 : TInv (exAdd ex p) (w.modProc p fun x => { x with awaits := [] }) :=
    (hp.exempt p).setAwaitsEx (fun _ => []) (fun _ _ ha => by cases ha) (fun _ _ => List.nodup_nil)
  have h2 : TInv (exAdd ex p) ((w.proc p).awaits.foldl (S3.caStep p) (w.modProc p fun x => { x with awaits := [] })) :=
    TInv.foldl (fun w a h => h.caStep p a) _ h1
  generalize ((w.proc p).awaits.foldl (S3.caStep p) (w.modProc p fun x => { x with awaits := [] })) = w1 at h2
  have h3 := h2.cancelAllFor p
  obtain ⟨hrel, hgone, _⟩ := cancelAllFor_spec w1 p h2.ei
  refine h3.unexempt ?_
  intro _ e he ha hb
  exfalso
  rcases hrel.pend e he with hold | ⟨_, _, _, _, _, _, heq⟩
  · exact hgone e he (EvInv.key_le h2.ei hold) hb
  · rw [heq] at ha; simp [mkEv] at ha; exact absurd ha (by decide)

theorem TInv.wakeWaiters {w : World} (hp : TInv ex w) (p : Pid) (sig : Int) : TInv ex (Sim.wakeWaiters w p sig) := by
  unfold Sim.wakeWaiters
  exact TInv.foldl (fun w q h => by tinv) _ (hp.modProc_ctl p _ (fun _ => rfl))

theorem TInv.finishProc {w : World} (hp : TInv ex w) (p : Pid) (val : Int) (stopped : Bool) :
    TInv ex (Sim.finishProc w p val stopped) := by
  unfold Sim.finishProc
  refine TInv.modProc_ctl ?_ p _ (fun _ => rfl)
  apply TInv.wakeWaiters
  split
  · exact (hp.cancelAwaiteds p).dropResources p
  · exact (hp.dropResources p).cancelAwaiteds p

theorem TInv.guardWaitEnter {w : World} (hp : TInv ex w) (g : Nat) (p : Pid) (d : Demand) : TInv ex (Sim.guardWaitEnter w g p d) := by
  unfold Sim.guardWaitEnter
  split
  · exact hp.fail _
  · split
    · exact (hp.setGuards _).addAwait_other p _ rfl
    · exact hp.fail _

theorem TInv.guardWaitLeave {w : World} (hp : TInv ex w) (g : Nat) (p : Pid) (sig : Int) : TInv ex (Sim.guardWaitLeave w g p sig) := by
  unfold Sim.guardWaitLeave
  apply TInv.removeAwait_other _ _ _ rfl
  split
  · exact hp.guardWithdraw g p
  · exact hp

theorem TInv.block_fst {w : World} (hp : TInv ex w) (p : Pid) (f : Frame) : TInv ex (block w p f).1 :=
  hp.modProc_ctl p _ (fun _ => rfl)

end CimbaModel.Sim.S3
