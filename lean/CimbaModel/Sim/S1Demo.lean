/-
  S1 — a small concrete world for the non-vacuity examples of C05 / C09:
  two running processes (priorities 0 and 5), one resource with its guard.
-/
import CimbaModel.Sim.S1Start

namespace CimbaModel.Sim
open CimbaModel CimbaModel.Event CimbaModel.Generated

def demoWorld : World :=
  { procs := #[{ status := .running }, { status := .running, prio := 5 }, { status := .running }],
    guards := #[{ q := mkHH 3 }],
    res := #[{ guard := 0 }] }

/-- process 0 has acquired the resource -/
def demoHeld : World := (execCmd demoWorld 0 (.acquire 0)).1

/-- … and process 2 waits for process 0 -/
def demoWaiting : World := (execCmd demoHeld 2 (.waitProc 0)).1

end CimbaModel.Sim
