/-
  S1 — a small concrete world for the non-vacuity examples of C05 / C09:
  two running processes (priorities 0 and 5), one resource with its guard.
-/
import CimbaModel.Sim.S1Start

namespace CimbaModel.Sim
open CimbaModel CimbaModel.Event CimbaModel.Generated

def demoWorld : World :=
  { procs := #[{ status := .running }, { status := .running, prio := 5 }, { status := .running }],
    guards := #[{ q := mkHH 3 }],
    res := #[{ guard := 0 }] }

/-- process 0 has acquired the resource -/
def demoHeld : World := (execCmd demoWorld 0 (.acquire 0)).1

/-- … and process 2 waits for process 0 -/
def demoWaiting : World := (execCmd demoHeld 2 (.waitProc 0)).1

/-- a complete scenario: three processes contend for one resource (process 1, of higher priority, preempts process 0
    at t = 1); process 2 first waits for the end of process 0; start events for all three are pending at t = 0 -/
def scenWorld : World :=
  let w : World :=
    { procs := #[
        { script := #[(.acquire 0, "a"), (.hold 5, "h"), (.release 0, "r")] },
        { prio := 5, script := #[(.hold 1, "h"), (.preempt 0, "p"), (.hold 2, "h"), (.release 0, "r")] },
        { script := #[(.waitProc 0, "w"), (.acquire 0, "a"), (.exit 3, "x")] }],
      guards := #[{ q := mkHH 3 }],
      res := #[{ guard := 0 }] }
  let w := (sched w aStart 1 0 0 0).1
  let w := (sched w aStart 2 0 0 0).1
  (sched w aStart 3 0 0 0).1

end CimbaModel.Sim
