/-
  S3 — what `PInvB` says in plain terms, and that the initial states satisfy it.
-/
import CimbaModel.Sim.S3PInvDispatch
import CimbaModel.Sim.S3TInvRun

namespace CimbaModel.Sim.S3
open CimbaModel CimbaModel.Sim CimbaModel.Event CimbaModel.Generated CimbaModel.KPQ
open CimbaModel.HashHeap (HTag Item Order HH WF abs liveTags)

/-- a state before anything has been registered: kernel invariant, no awaits, no waiters, no event waiters, no
    process-end / event-done wake-up pending (start events, user events, … may be pending) -/
structure InitOk (w : World) : Prop where
  ei : EvInv w.ev
  aw : ∀ p, (w.proc p).awaits = []
  wt : ∀ p, (w.proc p).waiters = []
  ew : w.evWaiters = []
  nw : ∀ e ∈ w.ev.pending, e.item.a ≠ aProc ∧ e.item.a ≠ aEvent
  nt : ∀ e ∈ w.ev.pending, e.item.a ≠ aTime

theorem InitOk.pinv {w : World} (h : InitOk w) : PInvB w where
  ei := h.ei
  ap := fun p => Or.inl (by unfold procAw; rw [h.aw]; rfl)
  ae := fun p => Or.inl (by unfold evAw; rw [h.aw]; rfl)
  ar := fun p _ => ⟨by unfold procAw; rw [h.aw]; rfl, by unfold evAw; rw [h.aw]; rfl⟩
  fb := fun p _ hx => absurd rfl hx
  w1 := fun p q hq => by rw [h.wt] at hq; cases hq
  wn := fun p => by rw [h.wt]; exact List.nodup_nil
  e1 := fun k l q hm => by rw [h.ew] at hm; cases hm
  en := by rw [h.ew]; exact ⟨List.nodup_nil, fun _ _ hm => by cases hm⟩
  sb := fun e he hk => by
    rcases hk with hk | hk
    · exact absurd hk (h.nw e he).1
    · exact absurd hk (h.nw e he).2
  es := fun k l hm => by rw [h.ew] at hm; cases hm
  op := fun e he ha => absurd ha (h.nw e he).1
  oe := fun e he ha => absurd ha (h.nw e he).2
  oh := fun e he ha => absurd ha (h.nw e he).2
  up := fun a ha _ _ haa => absurd haa (h.nw a ha).1
  ue := fun a ha _ _ haa => absurd haa (h.nw a ha).2

theorem InitOk.tinv {w : World} (h : InitOk w) : TInvB w where
  ei := h.ei
  t1 := fun p k _ hk => by rw [h.aw] at hk; cases hk
  t2 := fun e he ha => absurd ha (h.nt e he)
  tle := fun p k hk => by rw [h.aw] at hk; cases hk
  tnd := fun p => by unfold timeAw; rw [h.aw]; exact List.nodup_nil
  tb := fun e he ha => absurd ha (h.nt e he)

/-- I_waiters: whoever is registered as a waiter of `p` awaits `p` and is suspended in `wait_process p`; nobody is
    registered twice -/
theorem PInvB.waiters {w : World} (h : PInvB w) (p q : Pid) (hq : q ∈ (w.proc p).waiters) :
    Await.proc p ∈ (w.proc q).awaits ∧ (w.proc q).blocked = some (.waitProc p) ∧ (w.proc q).status = .running ∧
    (w.proc p).waiters.Nodup := by
  have h1 := h.w1 p q hq (noEx_not q)
  refine ⟨h1, (h.proc_unique h1 h1).2, ?_, h.wn p⟩
  apply Classical.byContradiction
  intro hn
  have := (h.ar q hn).1
  rw [mem_awaits_proc, this] at h1; cases h1

/-- the same for event waiters; waiters are only registered with scheduled events -/
theorem PInvB.eventWaiters {w : World} (h : PInvB w) (k : Nat) (l : List Pid) (hm : (k, l) ∈ w.evWaiters) (q : Pid) (hq : q ∈ l) :
    Await.event k ∈ (w.proc q).awaits ∧ (w.proc q).blocked = some (.waitEvent k) ∧ (w.proc q).status = .running ∧
    k ∈ keys w.ev.pending ∧ l.Nodup := by
  have h1 := h.e1 k l q hm hq (noEx_not q)
  refine ⟨h1, (h.event_unique h1 h1).2, ?_, h.es k l hm, h.en.2 k l hm⟩
  apply Classical.byContradiction
  intro hn
  have := (h.ar q hn).2
  rw [mem_awaits_event, this] at h1; cases h1

/-- no stale process-end wake-ups: a pending (aProc) event addressed to `p` — whatever signal it carries — belongs to
    the `wait_process q` the process is suspended in right now: `p` is running, its recorded frame is `waitProc q`, it
    awaits `q`, it has already been taken off `q`'s waiter list, and it is the only such event for `p` -/
theorem PInvB.procWake_owned {w : World} (h : PInvB w) {e : HTag} (he : e ∈ w.ev.pending) (ha : e.item.a = aProc) :
    ∃ p q, e.item.b = p + 1 ∧ (w.proc p).blocked = some (.waitProc q) ∧ (w.proc p).status = .running ∧
      Await.proc q ∈ (w.proc p).awaits ∧ p ∉ (w.proc q).waiters ∧
      ∀ e' ∈ w.ev.pending, e'.item.a = aProc → e'.item.b = p + 1 → e' = e := by
  have hb0 := h.sb e he (Or.inl ha)
  have hb : e.item.b = (e.item.b - 1) + 1 := by omega
  obtain ⟨q, h1, h2⟩ := h.op e he ha (e.item.b - 1) hb (noEx_not _)
  refine ⟨e.item.b - 1, q, hb, (h.proc_unique h1 h1).2, ?_, h1, h2, ?_⟩
  · apply Classical.byContradiction
    intro hn
    have := (h.ar _ hn).1
    rw [mem_awaits_proc, this] at h1; cases h1
  · intro e' he' ha' hb'
    exact h.up e' he' e he ha' ha (by rw [hb', ← hb]) _ hb' (noEx_not _)

/-- no stale event-done wake-ups: a pending (aEvent) event addressed to `p` belongs to the `wait_event k` the process is
    suspended in right now; the awaited event `k` is no longer scheduled (it has been executed or cancelled), `p` is no
    longer registered with it, and it is the only such wake-up for `p` -/
theorem PInvB.eventWake_owned {w : World} (h : PInvB w) {e : HTag} (he : e ∈ w.ev.pending) (ha : e.item.a = aEvent) :
    ∃ p k, e.item.b = p + 1 ∧ (w.proc p).blocked = some (.waitEvent k) ∧ (w.proc p).status = .running ∧
      Await.event k ∈ (w.proc p).awaits ∧ p ∉ evWaitersOf w k ∧ k ∉ keys w.ev.pending ∧
      ∀ e' ∈ w.ev.pending, e'.item.a = aEvent → e'.item.b = p + 1 → e' = e := by
  have hb0 := h.sb e he (Or.inr ha)
  have hb : e.item.b = (e.item.b - 1) + 1 := by omega
  obtain ⟨k, h1, h2⟩ := h.oe e he ha (e.item.b - 1) hb (noEx_not _)
  refine ⟨e.item.b - 1, k, hb, (h.event_unique h1 h1).2, ?_, h1, h2, (h.oh e he ha _ hb (noEx_not _) k h1).1, ?_⟩
  · apply Classical.byContradiction
    intro hn
    have := (h.ar _ hn).2
    rw [mem_awaits_event, this] at h1; cases h1
  · intro e' he' ha' hb'
    exact h.ue e' he' e he ha' ha (by rw [hb', ← hb]) _ hb' (noEx_not _)

/-- once `wait_process` / `wait_event` has returned (the process is not suspended in it), nothing that belonged to it
    is left: no registration of the process with any process or event, no PROCESS / EVENT awaitable, and no pending
    process-end or event-done wake-up addressed to it -/
theorem PInvB.returned_clean {w : World} (h : PInvB w) (p : Pid)
    (hf : ∀ q, (w.proc p).blocked ≠ some (.waitProc q)) (hg : ∀ k, (w.proc p).blocked ≠ some (.waitEvent k)) :
    (∀ x, p ∉ (w.proc x).waiters) ∧ (∀ k l, (k, l) ∈ w.evWaiters → p ∉ l) ∧
    procAw w p = [] ∧ evAw w p = [] ∧
    (∀ e ∈ w.ev.pending, e.item.a = aProc ∨ e.item.a = aEvent → e.item.b ≠ p + 1) := by
  refine ⟨fun x hx => hf x (h.waiters x p hx).2.1, fun k l hm hpl => hg k (h.eventWaiters k l hm p hpl).2.1, ?_, ?_, ?_⟩
  · rcases h.ap p with h' | ⟨q, hq, _⟩
    · exact h'
    · exact absurd hq (hf q)
  · rcases h.ae p with h' | ⟨k, hk, _⟩
    · exact h'
    · exact absurd hk (hg k)
  · intro e he hk hb
    rcases hk with hk | hk
    · obtain ⟨p', q, hb', hbl, _⟩ := h.procWake_owned he hk
      have : p' = p := Nat.add_right_cancel (hb'.symm.trans hb)
      subst this; exact hf q hbl
    · obtain ⟨p', k, hb', hbl, _⟩ := h.eventWake_owned he hk
      have : p' = p := Nat.add_right_cancel (hb'.symm.trans hb)
      subst this; exact hg k hbl

end CimbaModel.Sim.S3
