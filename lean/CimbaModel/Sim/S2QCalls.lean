/-
  S2 — object queues and priority queues (C12): what a get delivers, what cancel / reprioritize / position do, what a
  failed get leaves.
-/
import CimbaModel.Sim.S2PQ

namespace CimbaModel.Sim
open CimbaModel CimbaModel.Event CimbaModel.Generated CimbaModel.KPQ
open CimbaModel.HashHeap (HTag Item Order HH WF abs KeysBelowCounter)

/-! ### object queues -/

/-- a get on a non-empty queue delivers the head — the oldest object not yet delivered — and logs it -/
theorem oqGetLoop_delivers {w : World} (p : Pid) {q : Nat} {x : OQ} (hx : w.oqs[q]? = some x) {o : Nat} {rest : List Nat}
    (hit : x.items = o :: rest) :
    oqGetLoop w p q =
      (signal (recordOQ { w with oqs := w.oqs.set! q { x with items := rest, gotLog := x.gotLog ++ [o] } } q) x.rear,
        .ret sigSuccess s!"obj={o}") := by
  unfold oqGetLoop
  simp only [hx, hit]

/-- under the invariant the object delivered is the one put at position `gotLog.length` of the put sequence: FIFO -/
theorem oq_delivers_in_put_order {x : OQ} (ok : OQOK x) {o : Nat} {rest : List Nat} (hit : x.items = o :: rest) :
    x.putLog[x.gotLog.length]? = some o := by
  rw [ok.fifo, hit]
  simp

/-- a put on a queue with room appends at the tail -/
theorem oqPutLoop_appends {w : World} (p : Pid) {q : Nat} {x : OQ} (hx : w.oqs[q]? = some x) (obj : Nat)
    (hroom : x.items.length < x.cap) :
    oqPutLoop w p q obj =
      (signal (recordOQ { w with oqs := w.oqs.set! q { x with items := x.items ++ [obj], putLog := x.putLog ++ [obj] } } q) x.front,
        .ret sigSuccess "") := by
  unfold oqPutLoop
  simp only [hx, hroom, if_true]

/-- a get that is woken by anything but a grant delivers nothing: it reports `obj=0` and the queues are untouched -/
theorem oqGet_failed (w : World) (p : Pid) (q : Nat) (sig : Int) (hs : sig ≠ sigSuccess) :
    (resumeFrame w p (.oqGet q) sig).1.oqs = w.oqs ∧
    ((resumeFrame w p (.oqGet q) sig).2 = .ret sig "obj=0" ∨ (w.oqs[q]? = none ∧ (resumeFrame w p (.oqGet q) sig).2 = .ret sig "")) := by
  simp only [resumeFrame]
  cases hx : w.oqs[q]? with
  | none => exact ⟨rfl, Or.inr ⟨rfl, rfl⟩⟩
  | some x =>
    simp only [hs, if_false]
    exact ⟨by simp, Or.inl trivial⟩

/-- a get that has to wait (queue empty) delivers nothing either -/
theorem oqGet_waits {w : World} (p : Pid) {q : Nat} {x : OQ} (hx : w.oqs[q]? = some x) (hit : x.items = []) :
    oqGetLoop w p q = block (guardWaitEnter w x.front p (.oqContent q)) p (.oqGet q) := by
  unfold oqGetLoop
  simp only [hx, hit]

/-! ### priority queues -/

/-- **a get delivers the entry that goes before all others**: highest priority, and among equal priorities the smallest
    handle, i.e. the earliest put; the delivered object is the payload stored under that handle -/
theorem pqGetLoop_delivers {w : World} (p : Pid) {k : Nat} {x : PQ} (hx : w.pqs[k]? = some x)
    (hwf : WF compare_func x.queue) (hpos : x.queue.count > 0) :
    ∃ q' t, HashHeap.dequeue compare_func x.queue = .ok (q', some t) ∧
      pqGetLoop w p k =
        (signal (recordPQ { w with pqs := w.pqs.set! k { x with queue := q', gotLog := x.gotLog ++ [t.key] } } k) x.rear,
          .ret sigSuccess s!"obj={t.item.a}") ∧
      KPQ.lookup (abs x.queue) t.key = some (KPQ.norm t) ∧
      (abs x.queue).Perm (KPQ.norm t :: abs q') ∧
      (∀ e ∈ abs q', t.i > e.i ∨ (t.i = e.i ∧ t.key < e.key)) ∧
      q'.count = x.queue.count - 1 := by
  obtain ⟨q', hrun, hwf', hperm, hc, _⟩ := HashHeap.dequeue_abs hwf hpos
  have hstrict : ∀ e ∈ abs q', compare_func (KPQ.norm (x.queue.tag 1)) e = true := by
    intro e he
    have hmin := HashHeap.root_isMin_abs hwf hpos
    have hes : e ∈ abs x.queue := hperm.mem_iff.2 (List.mem_cons_of_mem _ he)
    have hnd : (KPQ.norm (x.queue.tag 1) :: abs q').Nodup := hperm.nodup_iff.1 hwf.abs_nodup
    have hne : e ≠ KPQ.norm (x.queue.tag 1) := fun h => (List.nodup_cons.1 hnd).1 (h ▸ he)
    have hk : (KPQ.norm (x.queue.tag 1)).key ≠ e.key :=
      fun hk => hne (HashHeap.eq_of_key_eq hwf.keys_nodup hes hmin.1 hk.symm)
    rcases TotalOnKeys.total (lt := compare_func) _ _ hk with hlt | hlt
    · exact hlt
    · rw [hmin.2 e hes] at hlt; cases hlt
  refine ⟨q', x.queue.tag 1, hrun, ?_, ?_, hperm, ?_, hc⟩
  · unfold pqGetLoop
    simp only [hx, hpos, if_true, hrun]
  · rw [HashHeap.lookup_eq_some_iff hwf.keys_nodup]
    exact ⟨hperm.mem_iff.2 List.mem_cons_self, rfl⟩
  · intro e he
    have := (HashHeap.Orders.compare_func_iff _ _).1 (hstrict e he)
    unfold HashHeap.SpecOrders.pqLt at this
    simpa [KPQ.norm] using this

/-- a put stores the object under a fresh handle (the next value of the item counter, never used before) with the given
    priority -/
theorem pqPutLoop_stores {w : World} (p : Pid) {k : Nat} {x : PQ} (hx : w.pqs[k]? = some x) (ok : PQOK x)
    (hctr : x.putLog.length + 2 < 2 ^ 64) (hroom : x.queue.count < x.cap) (obj : Nat) (pri : Int) (v : Nat)
    {q' : HH} {h : Nat} (he : HashHeap.enqueue compare_func x.queue ⟨obj, 0, 0, 0⟩ 0 0 pri = .ok (q', h)) :
    h = x.queue.counter + 1 ∧
      (pqPutLoop w p k obj pri v).2 = .ret sigSuccess s!"h={h}" ∧
      (abs q').Perm (⟨h, 0, ⟨obj, 0, 0, 0⟩, 0, pri⟩ :: abs x.queue) ∧
      h ∉ x.putLog ∧ h ∉ keys (abs x.queue) := by
  have hc64 : x.queue.counter + 1 < 2 ^ 64 := by rw [ok.counter]; omega
  obtain ⟨hk, hwf, hperm, _, _⟩ := HashHeap.enqueue_ok_inv ok.wf ⟨obj, 0, 0, 0⟩ 0 0 pri
    (by simp) (by simpa using hc64) (by simpa using ok.below.fresh) he
  simp only [if_true] at hk
  refine ⟨hk, ?_, ?_, ?_, ?_⟩
  · unfold pqPutLoop
    simp only [hx, hroom, if_true, he]
  · simpa [KPQ.insert, KPQ.norm] using hperm
  · intro hm
    have := ok.putBelow h hm
    omega
  · rw [hk]; exact ok.below.fresh

/-- **cancel** removes exactly the entry named by the handle (and reports whether there was one); nothing else changes -/
theorem pqCancel_exact {x : PQ} (hwf : WF compare_func x.queue) {h : Nat} (h0 : h ≠ 0) :
    ∃ q', HashHeap.remove compare_func x.queue h = .ok (q', decide (h ∈ keys (abs x.queue))) ∧
      (abs q').Perm (KPQ.remove (abs x.queue) h) ∧
      (∀ h2, h2 ≠ h → KPQ.lookup (abs q') h2 = KPQ.lookup (abs x.queue) h2) ∧ KPQ.lookup (abs q') h = none := by
  obtain ⟨q', hrun, hwf', hperm, _⟩ := HashHeap.remove_abs hwf h h0
  have hl := HashHeap.lookup_after_remove hwf hwf' h hperm
  exact ⟨q', hrun, hperm, hl.2, hl.1⟩

/-- **reprioritize** changes the priority of exactly the entry named by the handle; payload and all other entries stay -/
theorem pqReprio_exact {x : PQ} (hwf : WF compare_func x.queue) {h : Nat} (hk : h ∈ keys (abs x.queue)) (pri : Int) :
    ∃ q', HashHeap.reprioritize compare_func x.queue h 0 pri = .ok q' ∧
      (abs q').Perm (KPQ.reprio (abs x.queue) h 0 pri) ∧
      KPQ.lookup (abs q') h = (KPQ.lookup (abs x.queue) h).map (fun t => { t with d := 0, i := pri }) ∧
      (∀ h2, h2 ≠ h → KPQ.lookup (abs q') h2 = KPQ.lookup (abs x.queue) h2) := by
  obtain ⟨q', hrun, hwf', hperm, _⟩ := HashHeap.reprio_abs hwf hk 0 pri
  have hl := HashHeap.lookup_after_reprio hwf hwf' h 0 pri hperm
  exact ⟨q', hrun, hperm, hl.1, hl.2⟩

/-! ### position -/

theorem compare_func_norm (a b : HTag) : compare_func (KPQ.norm a) (KPQ.norm b) = compare_func a b :=
  (inferInstance : IgnoresHidx compare_func).eq a b 0 0

/-- **position** of a queued handle = 1 + the number of queued entries that go strictly before it -/
theorem pqPosition_spec {x : PQ} (hwf : WF compare_func x.queue) {h : Nat} (hk : h ∈ keys (abs x.queue)) :
    ∃ t, KPQ.lookup (abs x.queue) h = some t ∧
      pqPosition x h = ((abs x.queue).filter (fun e => compare_func e t)).length + 1 := by
  obtain ⟨i, hi, hki⟩ := (HashHeap.mem_keys_abs x.queue h).1 hk
  have hfi := HashHeap.findIndex_of_mem hwf hi
  rw [hki] at hfi
  have hc : x.queue.count ≠ 0 := by have := hi.1; have := hi.2; omega
  have hi0 : i ≠ 0 := by have := hi.1; omega
  refine ⟨KPQ.norm (x.queue.tag i), ?_, ?_⟩
  · rw [HashHeap.lookup_eq_some_iff hwf.keys_nodup]
    exact ⟨(HashHeap.mem_abs _ _).2 ⟨i, hi, rfl⟩, hki⟩
  · unfold pqPosition
    rw [if_neg hc, hfi]
    cases i with
    | zero => exact absurd rfl hi0
    | succ j =>
      show ((List.range x.queue.count).filter (fun m => decide (m + 1 ≠ j + 1 ∧
        compare_func (x.queue.heap.getD (m + 1) {}) (x.queue.heap.getD (j + 1) {}) = true))).length + 1 = _
      congr 1
      unfold HashHeap.abs HashHeap.liveTags
      rw [List.filter_map, List.length_map, List.filter_map, List.length_map]
      congr 1
      apply List.filter_congr
      intro m _
      simp only [Function.comp]
      show decide (m + 1 ≠ j + 1 ∧ compare_func (x.queue.tag (m + 1)) (x.queue.tag (j + 1)) = true) =
        compare_func (KPQ.norm (x.queue.tag (m + 1))) (KPQ.norm (x.queue.tag (j + 1)))
      rw [compare_func_norm]
      by_cases hm : m + 1 = j + 1
      · rw [hm]
        have := (inferInstance : TotalOnKeys compare_func).irrefl (x.queue.tag (j + 1))
        simp [this]
      · have hmj : ¬ m = j := fun e => hm (by rw [e])
        simp [hmj]

/-- a handle that is not queued has position 0 -/
theorem pqPosition_absent {x : PQ} (hwf : WF compare_func x.queue) {h : Nat} (hk : h ∉ keys (abs x.queue)) :
    pqPosition x h = 0 := by
  apply Classical.byContradiction
  intro hp
  exact hk (mem_keys_of_pqPosition hwf hp)

/-- position 1 ⇔ the handle is the next to be delivered -/
theorem pqPosition_one_iff {x : PQ} (hwf : WF compare_func x.queue) {h : Nat} (hk : h ∈ keys (abs x.queue)) :
    pqPosition x h = 1 ↔ ∃ t, KPQ.lookup (abs x.queue) h = some t ∧ IsMin compare_func (abs x.queue) t := by
  obtain ⟨t, hl, hp⟩ := pqPosition_spec hwf hk
  have ht : t ∈ abs x.queue := ((HashHeap.lookup_eq_some_iff hwf.keys_nodup h t).1 hl).1
  rw [hp]
  constructor
  · intro h1
    refine ⟨t, hl, ht, ?_⟩
    intro e he
    have hz : ((abs x.queue).filter (fun e => compare_func e t)).length = 0 := by omega
    have hnil := List.eq_nil_of_length_eq_zero hz
    cases hc : compare_func e t with
    | false => rfl
    | true =>
      have : e ∈ (abs x.queue).filter (fun e => compare_func e t) := List.mem_filter.2 ⟨he, hc⟩
      rw [hnil] at this; cases this
  · rintro ⟨t', hl', hmin⟩
    rw [hl] at hl'; cases hl'
    have : (abs x.queue).filter (fun e => compare_func e t) = [] := by
      apply List.filter_eq_nil_iff.2
      intro e he
      rw [hmin.2 e he]; simp
    rw [this]; rfl

/-- **position = index of delivery**: when a get delivers another entry, the position of every handle that stays queued
    goes down by exactly one (and the delivered entry was at position 1, `pqPosition_one_iff`); by induction a handle at
    position `k` is delivered by the `k`-th get from now, if nothing else changes -/
theorem pqPosition_after_get {x : PQ} (hwf : WF compare_func x.queue) (hpos : 0 < x.queue.count) {h : Nat}
    (hk : h ∈ keys (abs x.queue)) (hne : h ≠ (x.queue.tag 1).key) :
    ∃ q', HashHeap.dequeue compare_func x.queue = .ok (q', some (x.queue.tag 1)) ∧ WF compare_func q' ∧
      h ∈ keys (abs q') ∧ pqPosition { x with queue := q' } h + 1 = pqPosition x h := by
  obtain ⟨q', hrun, hwf', hperm, _⟩ := HashHeap.dequeue_abs hwf hpos
  have hk' : h ∈ keys (abs q') := by
    have := (HashHeap.keys_perm hperm h).1 hk
    simp only [keys, List.map_cons, List.mem_cons] at this
    rcases this with e | e
    · exact absurd e hne
    · exact e
  obtain ⟨t0, hl0, hp0⟩ := pqPosition_spec hwf hk
  obtain ⟨t1, hl1, hp1⟩ := pqPosition_spec (x := { x with queue := q' }) hwf' hk'
  have hl := (HashHeap.lookup_after_dequeue hwf hwf' (KPQ.norm (x.queue.tag 1)) hperm).2 h hne
  have ht : t1 = t0 := by
    have : some t1 = some t0 := by rw [← hl1, ← hl0]; exact hl
    injection this
  subst ht
  refine ⟨q', hrun, hwf', hk', ?_⟩
  rw [hp0, hp1]
  have hmem1 : t1 ∈ abs q' := ((HashHeap.lookup_eq_some_iff hwf'.keys_nodup h t1).1 hl1).1
  -- the delivered entry goes strictly before every entry that stays
  have hfirst : compare_func (KPQ.norm (x.queue.tag 1)) t1 = true := by
    have hmin := HashHeap.root_isMin_abs hwf hpos
    have hes : t1 ∈ abs x.queue := hperm.mem_iff.2 (List.mem_cons_of_mem _ hmem1)
    have hkk : (KPQ.norm (x.queue.tag 1)).key ≠ t1.key := by
      have : t1.key = h := ((HashHeap.lookup_eq_some_iff hwf'.keys_nodup h t1).1 hl1).2
      rw [this]; exact fun e => hne e.symm
    rcases TotalOnKeys.total (lt := compare_func) _ _ hkk with hlt | hlt
    · exact hlt
    · rw [hmin.2 t1 hes] at hlt; cases hlt
  have hlen : ((abs x.queue).filter (fun e => compare_func e t1)).length =
      ((KPQ.norm (x.queue.tag 1) :: abs q').filter (fun e => compare_func e t1)).length :=
    (hperm.filter _).length_eq
  show ((abs q').filter (fun e => compare_func e t1)).length + 1 + 1 = _
  rw [hlen, List.filter_cons, if_pos hfirst]
  rfl

end CimbaModel.Sim
