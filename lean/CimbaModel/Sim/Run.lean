/-
  The interpreter of the process-layer model: command execution (with the self-guards of the
  scenario language), resumption of suspended library calls, event dispatch, the run loop.
-/
import CimbaModel.Sim.Model

namespace CimbaModel.Sim
open CimbaModel CimbaModel.Event CimbaModel.Generated
open CimbaModel.HashHeap (HTag Item Order HH)

inductive Outcome where
  | ret (v : Int) (extra : String)
  | skip
  | blocked
  | ended

def block (w : World) (p : Pid) (f : Frame) : World × Outcome :=
  (w.modProc p fun x => { x with blocked := some f }, .blocked)

/-- handle variables 8..15 are shared between the processes, 0..7 are private -/
def getVar (w : World) (p : Pid) (v : Nat) : Nat := if v ≥ 8 then w.gvars.getD v 0 else (w.proc p).vars.getD v 0
def setVar (w : World) (p : Pid) (v h : Nat) : World :=
  if v ≥ 8 then { w with gvars := w.gvars.set! v h } else w.modProc p fun y => { y with vars := y.vars.set! v h }

def pendingCountFor (w : World) (p : Pid) : Nat := (pendingOf w p).length

/-! ### pools -/

/-- the victim-mugging loop of `cmi_pool_acquire_inner`; returns the remaining claim, or `none` when satisfied -/
def poolMug : Nat → World → Pid → Nat → Nat → World × Option Nat
  | 0, w, _, _, rem => (w, some rem)
  | fuel + 1, w, p, pl, rem =>
    match w.pools[pl]? with
    | none => (w, some rem)
    | some x =>
      if x.holders.count = 0 then (w, some rem) else
      match HashHeap.peek x.holders with
      | .ok (some top) =>
        if top.i < (w.proc p).prio then
          match HashHeap.dequeue holder_queue_check x.holders with
          | .ok (h', some t) =>
            let victim := t.key - 1
            let loot := t.item.b
            let w := { w with pools := w.pools.set! pl { x with holders := h' } }
            let w := (removeHeld w victim (.pool pl)).1
            let w := (sched w aIntr (victim + 1) sigPreempted w.now (w.proc victim).prio).1
            if loot < rem then
              let w := poolUpdateRecord w pl p loot
              poolMug fuel w p pl (rem - loot)
            else
              let w := poolUpdateRecord w pl p rem
              let surplus := loot - rem
              let w := setPoolInUse w pl ((w.pools.getD pl x).inUse - surplus)
              let w := recordPool w pl
              let w := signal w x.guard
              (w, none)
          | .ok (_, none) => (w, some rem)
          | .error f => (w.fail s!"pool mug: {f}", some rem)
        else (w, some rem)
      | _ => (w, some rem)

/-- one pass of the `while (true)` loop of `cmi_pool_acquire_inner` up to the wait -/
def poolLoop (w : World) (p : Pid) (pl rem initially : Nat) (preempt : Bool) : World × Outcome :=
  match w.pools[pl]? with
  | none => (w.fail "no such pool", .ret 0 "")
  | some x =>
    let avail := x.cap - x.inUse
    if avail ≥ rem then
      let w := setPoolInUse w pl (x.inUse + rem)
      let w := recordPool w pl
      let w := poolUpdateRecord w pl p rem
      let w := signal w x.guard
      (w, .ret sigSuccess "")
    else
      let (w, rem) :=
        if avail > 0 then
          let w := setPoolInUse w pl (x.inUse + avail)
          let w := recordPool w pl
          (poolUpdateRecord w pl p avail, rem - avail)
        else (w, rem)
      let (w, rem?) := if preempt then poolMug (x.holders.count + 1) w p pl rem else (w, some rem)
      match rem? with
      | none => (w, .ret sigSuccess "")
      | some rem =>
        let w := guardWaitEnter w x.guard p (.poolAvail pl)
        block w p (.pool pl rem initially preempt)

def poolRollback (w : World) (p : Pid) (pl initially : Nat) : World :=
  match w.pools[pl]? with
  | none => w
  | some x =>
    if initially > 0 then
      let now := heldAmount w pl p
      -- everything may have been taken by a preempting process in this same instant: nothing to put back
      if now > initially then
        let surplus := now - initially
        let w := setHeldAmount w pl p initially
        let w := setPoolInUse w pl (x.inUse - surplus)
        let w := recordPool w pl
        signal w x.guard
      else w
    else
      let now := heldAmount w pl p
      let w := setPoolInUse w pl (x.inUse - now)
      let w := recordPool w pl
      match HashHeap.remove holder_queue_check x.holders (p + 1) with
      | .ok (h', found) =>
        let w := { w with pools := w.pools.modify pl fun y => { y with holders := h' } }
        let w := if found then (removeHeld w p (.pool pl)).1 else w
        -- units were put back: somebody else may be able to use them
        signal w x.guard
      | .error f => w.fail s!"pool rollback: {f}"

/-! ### buffers -/

def bufGetLoop (w : World) (p : Pid) (b rem got : Nat) : World × Outcome :=
  match w.bufs[b]? with
  | none => (w.fail "no such buffer", .ret 0 "")
  | some x =>
    if x.level ≥ rem then
      let w := { w with bufs := w.bufs.set! b { x with level := x.level - rem, getTotal := x.getTotal + rem } }
      let w := recordBuf w b
      let w := signal w x.rear
      let w := if x.level - rem > 0 then signal w x.front else w
      (w, .ret sigSuccess s!"amt={got + rem}")
    else
      let (w, rem, got) :=
        if x.level > 0 then
          let w := { w with bufs := w.bufs.set! b { x with level := 0, getTotal := x.getTotal + x.level } }
          let w := recordBuf w b
          let w := signal w x.rear
          (w, rem - x.level, got + x.level)
        else (w, rem, got)
      let w := signal w x.rear
      let w := guardWaitEnter w x.front p (.bufContent b)
      block w p (.bufGet b rem got)

def bufPutLoop (w : World) (p : Pid) (b rem left : Nat) : World × Outcome :=
  match w.bufs[b]? with
  | none => (w.fail "no such buffer", .ret 0 "")
  | some x =>
    if x.cap - x.level ≥ rem then
      let w := { w with bufs := w.bufs.set! b { x with level := x.level + rem, putTotal := x.putTotal + rem } }
      let w := recordBuf w b
      let w := signal w x.front
      let w := if x.level + rem < x.cap then signal w x.rear else w
      (w, .ret sigSuccess s!"amt={left - rem}")
    else
      let (w, rem, left) :=
        if x.level < x.cap then
          let grabN := x.cap - x.level
          let w := { w with bufs := w.bufs.set! b { x with level := x.cap, putTotal := x.putTotal + grabN } }
          let w := recordBuf w b
          let w := signal w x.front
          (w, rem - grabN, left - grabN)
        else (w, rem, left)
      let w := signal w x.front
      let w := guardWaitEnter w x.rear p (.bufSpace b)
      block w p (.bufPut b rem left)

/-! ### object queues / priority queues -/

def oqGetLoop (w : World) (p : Pid) (q : Nat) : World × Outcome :=
  match w.oqs[q]? with
  | none => (w.fail "no such queue", .ret 0 "")
  | some x =>
    match x.items with
    | o :: rest =>
      let w := { w with oqs := w.oqs.set! q { x with items := rest, gotLog := x.gotLog ++ [o] } }
      let w := recordOQ w q
      let w := signal w x.rear
      (w, .ret sigSuccess s!"obj={o}")
    | [] =>
      let w := guardWaitEnter w x.front p (.oqContent q)
      block w p (.oqGet q)

def oqPutLoop (w : World) (p : Pid) (q obj : Nat) : World × Outcome :=
  match w.oqs[q]? with
  | none => (w.fail "no such queue", .ret 0 "")
  | some x =>
    if x.items.length < x.cap then
      let w := { w with oqs := w.oqs.set! q { x with items := x.items ++ [obj], putLog := x.putLog ++ [obj] } }
      let w := recordOQ w q
      let w := signal w x.front
      (w, .ret sigSuccess "")
    else
      let w := guardWaitEnter w x.rear p (.oqSpace q)
      block w p (.oqPut q obj)

def pqGetLoop (w : World) (p : Pid) (k : Nat) : World × Outcome :=
  match w.pqs[k]? with
  | none => (w.fail "no such pq", .ret 0 "")
  | some x =>
    if x.queue.count > 0 then
      match HashHeap.dequeue compare_func x.queue with
      | .ok (q', some t) =>
        let w := { w with pqs := w.pqs.set! k { x with queue := q', gotLog := x.gotLog ++ [t.key] } }
        let w := recordPQ w k
        let w := signal w x.rear
        (w, .ret sigSuccess s!"obj={t.item.a}")
      | .ok (_, none) => (w.fail "pq dequeue none", .ret 0 "")
      | .error f => (w.fail s!"pq dequeue: {f}", .ret 0 "")
    else
      let w := guardWaitEnter w x.front p (.pqContent k)
      block w p (.pqGet k)

def pqPutLoop (w : World) (p : Pid) (k obj : Nat) (pri : Int) (v : Nat) : World × Outcome :=
  match w.pqs[k]? with
  | none => (w.fail "no such pq", .ret 0 "")
  | some x =>
    if x.queue.count < x.cap then
      match HashHeap.enqueue compare_func x.queue ⟨obj, 0, 0, 0⟩ 0 0 pri with
      | .ok (q', h) =>
        let w := { w with pqs := w.pqs.set! k { x with queue := q', putLog := x.putLog ++ [h] } }
        let w := setVar w p v h
        let w := recordPQ w k
        let w := signal w x.front
        (w, .ret sigSuccess s!"h={h}")
      | .error f => (w.fail s!"pq enqueue: {f}", .ret 0 "")
    else
      let w := guardWaitEnter w x.rear p (.pqSpace k)
      block w p (.pqPut k obj pri v)

def pqPosition (x : PQ) (h : Nat) : Nat :=
  if x.queue.count = 0 then 0 else
  match HashHeap.findIndex x.queue h with
  | .ok 0 => 0
  | .ok i =>
    let target := x.queue.heap.getD i {}
    let ahead := ((List.range x.queue.count).filter fun j =>
      j + 1 ≠ i ∧ compare_func (x.queue.heap.getD (j + 1) {}) target).length
    ahead + 1
  | .error _ => 0

/-! ### commands -/


def isRunning (w : World) (p : Pid) : Bool := (w.proc p).status = .running

def acquireStep (w : World) (p : Pid) (r : Nat) : World × Outcome :=
  match w.res[r]? with
  | none => (w.fail "no such resource", .ret 0 "")
  | some x =>
    if x.holder.isNone then
      let w := grab w r p
      (recordRes w r, .ret sigSuccess "")
    else
      let w := guardWaitEnter w x.guard p (.resAvail r)
      block w p (.acquire r)

def setRecording (w : World) (kind idx : Nat) (on : Bool) : World :=
  let stamp (w : World) : World :=
    match kind with
    | 0 => recordRes w idx | 1 => recordPool w idx | 2 => recordBuf w idx | 3 => recordOQ w idx | _ => recordPQ w idx
  let setf (w : World) : World :=
    match kind with
    | 0 => { w with res := w.res.modify idx fun x => { x with recording := on } }
    | 1 => { w with pools := w.pools.modify idx fun x => { x with recording := on } }
    | 2 => { w with bufs := w.bufs.modify idx fun x => { x with recording := on } }
    | 3 => { w with oqs := w.oqs.modify idx fun x => { x with recording := on } }
    | _ => { w with pqs := w.pqs.modify idx fun x => { x with recording := on } }
  if on then stamp (setf w) else setf (stamp w)

def execCmd (w : World) (p : Pid) (c : Cmd) : World × Outcome :=
  match c with
  | .hold d =>
    let (w, h) := timerAdd w p d sigSuccess
    block w p (.hold h)
  | .yield => block w p .yield
  | .timerAdd v d sig =>
    let (w, h) := timerAdd w p d sig
    (setVar w p v h, .ret 0 s!"h={h}")
  | .timerSet v d sig =>
    let w := timersClear w p
    let (w, h) := timerAdd w p d sig
    (setVar w p v h, .ret 0 s!"h={h}")
  | .timerCancel v =>
    let h := getVar w p v
    if h = 0 then (w, .skip) else
    let (w, r) := timerCancel w p h
    (w, .ret (if r then 1 else 0) "")
  | .timersClear => (timersClear w p, .ret 0 "")
  | .timersClearOf q =>
    -- `cmb_process_timers_clear(&procs[q])` by another process (or by `q` itself): the target is a started, unfinished process
    if ¬ isRunning w q then (w, .skip) else (timersClear w q, .ret 0 "")
  | .timerAddOf q d sig =>
    -- `cmb_process_timer_add(&procs[q], d, sig)`, the handle is not kept
    if ¬ isRunning w q then (w, .skip) else
    let (w, h) := timerAdd w q d sig
    (w, .ret 0 s!"h={h}")
  | .resume q sig =>
    if ¬ isRunning w q ∨ sig = 0 then (w, .skip) else
    ((sched w aResume (q + 1) sig w.now (w.proc q).prio).1, .ret 0 "")
  | .interrupt q sig pri =>
    if ¬ isRunning w q ∨ sig = 0 then (w, .skip) else
    ((sched w aIntr (q + 1) sig w.now pri).1, .ret 0 "")
  | .stop q val =>
    if q = p then (finishProc w p val true, .ended)
    else if isRunning w q then (finishProc w q val true, .ret 0 "")
    else (w, .ret 0 "")
  | .start q =>
    if isRunning w q ∨ pendingCountFor w q > 0 ∨ q ≥ w.procs.size then (w, .skip) else
    ((sched w aStart (q + 1) 0 w.now (w.proc q).prio).1, .ret 0 "")
  | .exit val => (finishProc w p val false, .ended)
  | .prioSet q v =>
    if q ≥ w.procs.size then (w, .skip) else
    let w := w.modProc q fun y => { y with prio := v }
    let w := (w.proc q).awaits.foldl (fun w a =>
      match a with
      | .time h =>
        match reprioritize w.ev h v with
        | .ok ev' => { w with ev := ev' }
        | .error f => w.fail s!"priority_set: timer event not scheduled: {f}"
      | .guard g =>
        match w.guards[g]? with
        | some gd =>
          if guardEnqueued w g q then
            match HashHeap.lookup gd.q (q + 1) with
            | .ok t =>
              match HashHeap.reprioritize guard_queue_check gd.q (q + 1) t.d v with
              | .ok q' => setGuardQ w g q'
              | .error f => w.fail s!"priority_set guard: {f}"
            | .error f => w.fail s!"priority_set guard lookup: {f}"
          else w
        | none => w
      | _ => w) w
    let w := (w.proc q).held.foldl (fun w h =>
      match h with
      | .pool pl =>
        match w.pools[pl]? with
        | some x =>
          match HashHeap.reprioritize holder_queue_check x.holders (q + 1) 0 v with
          | .ok h' => { w with pools := w.pools.set! pl { x with holders := h' } }
          | .error f => w.fail s!"priority_set holder: {f}"
        | none => w
      | .res _ => w) w
    (w, .ret 0 "")
  | .waitProc q =>
    if q ≥ w.procs.size then (w, .skip) else
    if (w.proc q).status = .finished then (w, .ret sigSuccess "")
    else
      let w := addAwait w p (.proc q)
      let w := w.modProc q fun y => { y with waiters := p :: y.waiters }
      block w p (.waitProc q)
  | .schedUser v d pri =>
    let (w, h) := sched w aUser 0 0 (w.now + d) pri
    (setVar w p v h, .ret 0 s!"h={h}")
  | .cancelUser v =>
    let h := getVar w p v
    if h = 0 then (w, .skip) else
    let (w, r) := evCancel w h
    (w, .ret (if r then 1 else 0) "")
  | .cancelUserAll =>
    let (w, n) := cancelUserAll w
    (w, .ret n "")
  | .waitEvent v =>
    let h := getVar w p v
    if h = 0 ∨ ¬ isScheduled w.ev h then (w, .skip) else
    let cur := (w.evWaiters.lookup h).getD []
    let w := { w with evWaiters := (h, p :: cur) :: w.evWaiters.filter (·.1 ≠ h) }
    let w := addAwait w p (.event h)
    block w p (.waitEvent h)
  | .acquire r => acquireStep w p r
  | .preempt r =>
    match w.res[r]? with
    | none => (w, .skip)
    | some x =>
      if x.holder = some p then (w, .skip) else
      match x.holder with
      | none =>
        let w := grab w r p
        (recordRes w r, .ret sigSuccess "")
      | some victim =>
        if (w.proc p).prio ≥ (w.proc victim).prio then
          let w := (removeHeld w victim (.res r)).1
          let w := cancelAwaiteds w victim
          let w := { w with res := w.res.modify r fun y => { y with holder := none } }
          let w := (sched w aPreempt (victim + 1) sigPreempted w.now (w.proc victim).prio).1
          let w := grab w r p
          (w, .ret sigSuccess "")
        else acquireStep w p r
  | .release r =>
    match w.res[r]? with
    | none => (w, .skip)
    | some x =>
      if x.holder ≠ some p then (w, .skip) else
      let w := (removeHeld w p (.res r)).1
      let w := { w with res := w.res.set! r { x with holder := none } }
      let w := recordRes w r
      (signal w x.guard, .ret 0 "")
  | .poolAcquire pl n =>
    match w.pools[pl]? with
    | none => (w, .skip)
    | some x => if n = 0 ∨ n > x.cap then (w, .skip) else poolLoop w p pl n (heldAmount w pl p) false
  | .poolPreempt pl n =>
    match w.pools[pl]? with
    | none => (w, .skip)
    | some x => if n = 0 ∨ n > x.cap then (w, .skip) else poolLoop w p pl n (heldAmount w pl p) true
  | .poolRelease pl n =>
    match w.pools[pl]? with
    | none => (w, .skip)
    | some x =>
      let held := heldAmount w pl p
      if n = 0 ∨ n > held then (w, .skip) else
      let w :=
        if held = n then
          match HashHeap.remove holder_queue_check x.holders (p + 1) with
          | .ok (h', _) =>
            let w := { w with pools := w.pools.set! pl { x with holders := h' } }
            (removeHeld w p (.pool pl)).1
          | .error f => w.fail s!"pool release: {f}"
        else setHeldAmount w pl p (held - n)
      let w := setPoolInUse w pl (x.inUse - n)
      let w := recordPool w pl
      (signal w x.guard, .ret 0 "")
  | .bufGet b n => if b ≥ w.bufs.size then (w, .skip) else bufGetLoop w p b n 0
  | .bufPut b n => if b ≥ w.bufs.size ∨ n = 0 then (w, .skip) else bufPutLoop w p b n n
  | .oqGet q => if q ≥ w.oqs.size then (w, .skip) else oqGetLoop w p q
  | .oqPut q obj => if q ≥ w.oqs.size then (w, .skip) else oqPutLoop w p q obj
  | .pqGet k => if k ≥ w.pqs.size then (w, .skip) else pqGetLoop w p k
  | .pqPut k obj pri v => if k ≥ w.pqs.size then (w, .skip) else pqPutLoop w p k obj pri v
  | .pqCancel k v =>
    match w.pqs[k]? with
    | none => (w, .skip)
    | some x =>
      let h := getVar w p v
      if h = 0 then (w, .skip) else
      match HashHeap.remove compare_func x.queue h with
      | .ok (q', r) =>
        let w := { w with pqs := w.pqs.set! k { x with queue := q', cancelLog := if r then x.cancelLog ++ [h] else x.cancelLog } }
        let w := if r then signal (recordPQ w k) x.rear else w
        (w, .ret (if r then 1 else 0) "")
      | .error f => (w.fail s!"pq cancel: {f}", .ret 0 "")
  | .pqReprio k v pri =>
    match w.pqs[k]? with
    | none => (w, .skip)
    | some x =>
      let h := getVar w p v
      if h = 0 ∨ pqPosition x h = 0 then (w, .skip) else
      match HashHeap.reprioritize compare_func x.queue h 0 pri with
      | .ok q' => ({ w with pqs := w.pqs.set! k { x with queue := q' } }, .ret 0 "")
      | .error f => (w.fail s!"pq reprio: {f}", .ret 0 "")
  | .pqPos k v =>
    match w.pqs[k]? with
    | none => (w, .skip)
    | some x =>
      let h := getVar w p v
      if h = 0 then (w, .skip) else (w, .ret (pqPosition x h) "")
  | .condWait c kind a b =>
    match w.conds[c]? with
    | none => (w, .skip)
    | some g =>
      let w := guardWaitEnter w g p (.cond kind a b)
      block w p (.condWait c)
  | .condSignal c =>
    match w.conds[c]? with
    | none => (w, .skip)
    | some g => let (w, r) := condSignal w g; (w, .ret (if r then 1 else 0) "")
  | .condCancel c q =>
    match w.conds[c]? with
    | none => (w, .skip)
    | some g =>
      if q ≥ w.procs.size then (w, .skip) else
      let (w, was) := guardRemove w g q
      let w := if was then (sched w aRes (q + 1) sigCancelled w.now (w.proc q).prio).1 else w
      (w, .ret (if was then 1 else 0) "")
  | .condRemove c q =>
    match w.conds[c]? with
    | none => (w, .skip)
    | some g =>
      if q ≥ w.procs.size then (w, .skip) else
      let (w, was) := guardRemove w g q
      (w, .ret (if was then 1 else 0) "")
  | .setFlag k v => ({ w with flags := w.flags.set! k v }, .ret 0 "")
  | .recStart kind idx => (setRecording w kind idx true, .ret 0 "")
  | .recStop kind idx => (setRecording w kind idx false, .ret 0 "")

/-- continue a suspended library call with the value `sig` passed to its yield -/
def resumeFrame (w : World) (p : Pid) (f : Frame) (sig : Int) : World × Outcome :=
  match f with
  | .hold h =>
    if sig ≠ sigSuccess then
      let (w, _) := timerCancel w p h
      let (w, _) := removeAwait w p (.time h)
      (w, .ret sig "")
    else (w, .ret sig "")
  | .yield => (w, .ret sig "")
  | .waitProc q =>
    -- woken by something other than the end of q: withdraw the registration, or the pending wake-up
    let (w, still) := removeAwait w p (.proc q)
    if still then
      let (l, was) := removeFirst (w.proc q).waiters p
      if was then (w.modProc q fun y => { y with waiters := l }, .ret sig "")
      else ((cancelKindFor w p aProc none).1, .ret sig "")
    else (w, .ret sig "")
  | .waitEvent h =>
    let (w, still) := removeAwait w p (.event h)
    if still then
      if isScheduled w.ev h then
        ({ w with evWaiters := w.evWaiters.map fun (k, l) => if k = h then (k, (removeFirst l p).1) else (k, l) }, .ret sig "")
      else ((cancelKindFor w p aEvent none).1, .ret sig "")
    else (w, .ret sig "")
  | .acquire r =>
    match w.res[r]? with
    | none => (w, .ret sig "")
    | some x =>
      let w := guardWaitLeave w x.guard p sig
      if sig = sigSuccess then acquireStep w p r   -- re-check: somebody may have taken it in this instant
      else (w, .ret sig "")
  | .pool pl rem initially preempt =>
    match w.pools[pl]? with
    | none => (w, .ret sig "")
    | some x =>
      let w := guardWaitLeave w x.guard p sig
      if sig ≠ sigSuccess then (poolRollback w p pl initially, .ret sig "")
      else poolLoop w p pl rem initially preempt
  | .bufGet b rem got =>
    match w.bufs[b]? with
    | none => (w, .ret sig "")
    | some x =>
      let w := guardWaitLeave w x.front p sig
      if sig = sigSuccess then bufGetLoop w p b rem got else (w, .ret sig s!"amt={got}")
  | .bufPut b rem left =>
    match w.bufs[b]? with
    | none => (w, .ret sig "")
    | some x =>
      let w := guardWaitLeave w x.rear p sig
      if sig = sigSuccess then bufPutLoop w p b rem left else (w, .ret sig s!"amt={left}")
  | .oqGet q =>
    match w.oqs[q]? with
    | none => (w, .ret sig "")
    | some x =>
      let w := guardWaitLeave w x.front p sig
      if sig = sigSuccess then oqGetLoop w p q else (w, .ret sig "obj=0")
  | .oqPut q obj =>
    match w.oqs[q]? with
    | none => (w, .ret sig "")
    | some x =>
      let w := guardWaitLeave w x.rear p sig
      if sig = sigSuccess then oqPutLoop w p q obj else (w, .ret sig "")
  | .pqGet k =>
    match w.pqs[k]? with
    | none => (w, .ret sig "")
    | some x =>
      let w := guardWaitLeave w x.front p sig
      if sig = sigSuccess then pqGetLoop w p k else (w, .ret sig "obj=0")
  | .pqPut k obj pri v =>
    match w.pqs[k]? with
    | none => (w, .ret sig "")
    | some x =>
      let w := guardWaitLeave w x.rear p sig
      if sig = sigSuccess then pqPutLoop w p k obj pri v else (w, .ret sig "")
  | .condWait c =>
    match w.conds[c]? with
    | none => (w, .ret sig "")
    | some g =>
      let w := guardWaitLeave w g p sig
      -- left for another reason: a wake-up from a signal in this same instant may be pending; withdraw it
      let w := if sig ≠ sigSuccess then (cancelKindFor w p aCond none).1 else w
      (w, .ret sig "")

/-! ### running a process until it blocks or ends -/

def cmdText (w : World) (p : Pid) : String :=
  match (w.proc p).script[(w.proc p).pc]? with
  | some (_, t) => t
  | none => "?"

/-- run script commands of `p` starting at its pc; `fuel` = commands left (scripts are finite) -/
def runScript : Nat → World → Pid → World
  | 0, w, _ => w.fail "script fuel exhausted"
  | fuel + 1, w, p =>
    let pr := w.proc p
    match pr.script[pr.pc]? with
    | none =>
      -- the process function returns 0: the trampoline calls cmb_process_exit(0)
      let w := w.emit s!"e {p} {w.now} 0"
      finishProc w p 0 false
    | some (c, text) =>
      let w := w.emit s!"c {p} {pr.pc} {w.now} {text}"
      match execCmd w p c with
      | (w, .ret v extra) =>
        let w := w.emit (s!"r {p} {pr.pc} {w.now} {v}" ++ (if extra = "" then "" else " " ++ extra))
        runScript fuel (w.modProc p fun y => { y with pc := pr.pc + 1 }) p
      | (w, .skip) =>
        let w := w.emit s!"s {p} {pr.pc} {w.now}"
        runScript fuel (w.modProc p fun y => { y with pc := pr.pc + 1 }) p
      | (w, .blocked) => w
      | (w, .ended) =>
        match c with
        | .exit v => w.emit s!"x {p} {w.now} {v}"
        | _ => w.emit s!"x {p} {w.now} stop"

/-- `cmi_coroutine_resume(p, sig)` as seen from the dispatcher: p continues where it is suspended -/
def resumeProc (w : World) (p : Pid) (sig : Int) : World :=
  let pr := w.proc p
  if pr.status ≠ .running then w.fail s!"resume of a process that is not running: {p}" else
  match pr.blocked with
  | none => w.fail s!"resume of a process that is not suspended: {p}"
  | some f =>
    let w := w.modProc p fun y => { y with blocked := none }
    match resumeFrame w p f sig with
    | (w, .ret v extra) =>
      let w := w.emit (s!"r {p} {pr.pc} {w.now} {v}" ++ (if extra = "" then "" else " " ++ extra))
      runScript (pr.script.size + 2) (w.modProc p fun y => { y with pc := pr.pc + 1 }) p
    | (w, .skip) => w
    | (w, .blocked) => w
    | (w, .ended) => w

def isProcA : Await → Bool | .proc _ => true | _ => false
def isEventA : Await → Bool | .event _ => true | _ => false
def isGuardA : Await → Bool | .guard _ => true | _ => false

/-- `cmb_event_execute_next` -/
def dispatch (w : World) : Option World :=
  match executeNext w.ev with
  | none => none
  | some (t, ev') =>
    let w := { w with ev := ev', dispatched := w.dispatched + 1 }
    let (ps, ws') := popWaiters w.evWaiters t.key
    let w := wakeEventWaiters { w with evWaiters := ws' } ps sigSuccess
    let p := t.item.b - 1
    let sig := decSig t.item.c
    let act := t.item.a
    some <|
      if act = aStart then
        if (w.proc p).status = .running then w.fail s!"start of a running process {p}"
        else
          let w := w.modProc p fun y => { y with status := .running, pc := 0, blocked := none }
          runScript ((w.proc p).script.size + 2) w p
      else if act = aTime then
        let (w, _) := removeAwait w p (.time t.key)
        resumeProc w p sig
      else if act = aProc then
        let (w, _) := removeAwaitKind w p isProcA
        if isRunning w p then resumeProc w p sig else w
      else if act = aEvent then
        let (w, _) := removeAwaitKind w p isEventA
        if isRunning w p then resumeProc w p sig else w
      else if act = aRes ∨ act = aPreempt then
        if isRunning w p then resumeProc w p sig else w
      else if act = aCond then
        let (w, _) := removeAwaitKind w p isGuardA
        if isRunning w p then resumeProc w p sig else w
      else if act = aIntr then
        let w := cancelAwaiteds w p
        resumeProc w p sig
      else if act = aResume then resumeProc w p sig
      else w

def runAll : Nat → World → World
  | 0, w => w.emit "cap"
  | fuel + 1, w =>
    if w.fault.isSome then w else
    match dispatch w with
    | none => w
    | some w' => runAll fuel w'

end CimbaModel.Sim
