/-
  S3 — `TInv` (I_timers): a process's TIME awaitables and its pending timer events correspond.
  Part 1: definition, congruence, atomic transformers, registrations.
-/
import CimbaModel.Sim.S3PInvDispatch

namespace CimbaModel.Sim.S3
open CimbaModel CimbaModel.Sim CimbaModel.Event CimbaModel.Generated CimbaModel.KPQ
open CimbaModel.HashHeap (HTag Item Order HH WF abs liveTags)

def isTimeA : Await → Bool | .time _ => true | _ => false

/-- the TIME(h) awaitables of `p` -/
def timeAw (w : World) (p : Pid) : List Await := (w.proc p).awaits.filter isTimeA

theorem mem_awaits_time {w : World} {x : Pid} {h : Nat} : Await.time h ∈ (w.proc x).awaits ↔ Await.time h ∈ timeAw w x := by
  unfold timeAw; simp [List.mem_filter, isTimeA]

structure TInv (ex : Pid → Prop) (w : World) : Prop where
  ei : EvInv w.ev
  /-- an armed timer stays armed until it fires (is dispatched) or is cancelled -/
  t1 : ∀ p h, h ≠ 0 → Await.time h ∈ (w.proc p).awaits →
    (∃ e ∈ w.ev.pending, e.key = h ∧ e.item.a = aTime ∧ e.item.b = p + 1) ∨ h ∈ w.ev.cancelled
  /-- every pending timer event is registered with its process -/
  t2 : ∀ e ∈ w.ev.pending, e.item.a = aTime → ∀ p, e.item.b = p + 1 → ¬ ex p → Await.time e.key ∈ (w.proc p).awaits
  tle : ∀ p h, Await.time h ∈ (w.proc p).awaits → h ≤ w.ev.counter
  /-- each handle at most once (TIME(0) is the dummy left by a refused arming, which records a fault) -/
  tnd : ∀ p, ((timeAw w p).filter (· ≠ .time 0)).Nodup
  /-- timer events are addressed to a process -/
  tb : ∀ e ∈ w.ev.pending, e.item.a = aTime → e.item.b ≠ 0

variable {ex : Pid → Prop}

/-- same registrations; timer events only disappear by cancellation -/
theorem TInv.congr {w w' : World} (hp : TInv ex w) (hc : ∀ p, (w'.proc p).awaits = (w.proc p).awaits)
    (hei : EvInv w'.ev)
    (ha : ∀ e' ∈ w'.ev.pending, e'.item.a = aTime → ∃ e ∈ w.ev.pending, e.key = e'.key ∧ e.item = e'.item)
    (hb : ∀ e ∈ w.ev.pending, e.item.a = aTime → (∃ e' ∈ w'.ev.pending, e'.key = e.key ∧ e'.item = e.item) ∨ e.key ∈ w'.ev.cancelled)
    (hcan : ∀ h ∈ w.ev.cancelled, h ∈ w'.ev.cancelled) (hctr : w.ev.counter ≤ w'.ev.counter) : TInv ex w' where
  ei := hei
  t1 := by
    intro p h h0 hh
    rw [hc] at hh
    rcases hp.t1 p h h0 hh with ⟨e, he, hk, hea, heb⟩ | hcn
    · rcases hb e he hea with ⟨e', he', hk', hi'⟩ | hcn
      · exact Or.inl ⟨e', he', hk'.trans hk, by rw [hi']; exact hea, by rw [hi']; exact heb⟩
      · exact Or.inr (hk ▸ hcn)
    · exact Or.inr (hcan h hcn)
  t2 := by
    intro e' he' hea p hb' hx
    obtain ⟨e, he, hk, hi⟩ := ha e' he' hea
    rw [hc, ← hk]
    exact hp.t2 e he (by rw [hi]; exact hea) p (by rw [hi]; exact hb') hx
  tle := fun p h hh => Nat.le_trans (hp.tle p h (by rw [← hc]; exact hh)) hctr
  tnd := fun p => by unfold timeAw; rw [hc]; exact hp.tnd p
  tb := by
    intro e' he' hea
    obtain ⟨e, he, _, hi⟩ := ha e' he' hea
    rw [← hi]; exact hp.tb e he (by rw [hi]; exact hea)

theorem TInv.same {w w' : World} (hp : TInv ex w) (hc : ∀ p, (w'.proc p).awaits = (w.proc p).awaits) (he : w'.ev = w.ev) :
    TInv ex w' :=
  hp.congr hc (by rw [he]; exact hp.ei) (by rw [he]; exact fun e h _ => ⟨e, h, rfl, rfl⟩)
    (by rw [he]; exact fun e h _ => Or.inl ⟨e, h, rfl, rfl⟩) (by rw [he]; exact fun _ h => h) (by rw [he]; exact Nat.le_refl _)

theorem TInv.fail {w : World} (h : TInv ex w) (m : String) : TInv ex (w.fail m) := h.same (fun p => by simp) (by simp)
theorem TInv.emit {w : World} (h : TInv ex w) (l : String) : TInv ex (w.emit l) := h.same (fun _ => rfl) rfl
theorem TInv.modProc_ctl {w : World} (h : TInv ex w) (p : Pid) (f : Proc → Proc) (hf : ∀ x, (f x).awaits = x.awaits) :
    TInv ex (w.modProc p f) := by
  refine h.same (fun q => ?_) rfl
  rw [modProc_proc]; split
  · rename_i hq; rw [hq.1]; exact hf _
  · rfl
theorem TInv.setRes {w : World} (h : TInv ex w) (x : Array Res) : TInv ex { w with res := x } := h.same (fun _ => rfl) rfl
theorem TInv.setPools {w : World} (h : TInv ex w) (x : Array Pool) : TInv ex { w with pools := x } := h.same (fun _ => rfl) rfl
theorem TInv.setBufs {w : World} (h : TInv ex w) (x : Array Buf) : TInv ex { w with bufs := x } := h.same (fun _ => rfl) rfl
theorem TInv.setOqs {w : World} (h : TInv ex w) (x : Array OQ) : TInv ex { w with oqs := x } := h.same (fun _ => rfl) rfl
theorem TInv.setPqs {w : World} (h : TInv ex w) (x : Array PQ) : TInv ex { w with pqs := x } := h.same (fun _ => rfl) rfl
theorem TInv.setFlags {w : World} (h : TInv ex w) (x : Array Int) : TInv ex { w with flags := x } := h.same (fun _ => rfl) rfl
theorem TInv.setGvars {w : World} (h : TInv ex w) (x : Array Nat) : TInv ex { w with gvars := x } := h.same (fun _ => rfl) rfl
theorem TInv.setGuards {w : World} (h : TInv ex w) (x : Array Guard) : TInv ex { w with guards := x } := h.same (fun _ => rfl) rfl
theorem TInv.setEvWaiters {w : World} (h : TInv ex w) (x : List (Nat × List Pid)) : TInv ex { w with evWaiters := x } :=
  h.same (fun _ => rfl) rfl
theorem TInv.setGuardQ {w : World} (h : TInv ex w) (g : Nat) (q : HH) : TInv ex (setGuardQ w g q) := h.same (fun _ => rfl) rfl

theorem TInv.pushEv_other {w : World} (h : TInv ex w) (a s : Nat) (sig t pri : Int) (ht : w.now ≤ t) (ha : a ≠ aTime) :
    TInv ex (pushEv w a s sig t pri) := by
  refine h.congr (fun _ => rfl) (pushEv_evinv a s sig t pri ht h.ei) ?_ ?_ (fun _ h => h) (by simp)
  · intro e' he' hea
    simp only [pushEv_pending, List.mem_cons] at he'
    rcases he' with rfl | he'
    · exact absurd hea ha
    · exact ⟨e', he', rfl, rfl⟩
  · intro e he _
    exact Or.inl ⟨e, by simp only [pushEv_pending]; exact List.mem_cons_of_mem _ he, rfl, rfl⟩

theorem TInv.sched_other {w : World} (h : TInv ex w) (a s : Nat) (sig t pri : Int) (ha : a ≠ aTime) :
    TInv ex (sched w a s sig t pri).1 := by
  rcases sched_cases w a s sig t pri with ⟨ht, he⟩ | ⟨_, m, he⟩
  · rw [he]; exact h.pushEv_other a s sig t pri ht ha
  · rw [he]; exact h.fail m

theorem TInv.reprioEv {w : World} (h : TInv ex w) {k : Nat} {v : Int} {ev' : EvQ}
    (hr : reprioritize w.ev k v = .ok ev') : TInv ex { w with ev := ev' } := by
  have hinv := (reprioritize_inv h.ei hr).1
  unfold reprioritize at hr
  split at hr
  · cases hr
  · simp only [Except.ok.injEq] at hr
    subst hr
    refine h.congr (fun _ => rfl) hinv ?_ ?_ (fun _ h => h) (Nat.le_refl _)
    · intro e' he' _
      simp only [List.mem_map] at he'
      obtain ⟨e, he, rfl⟩ := he'
      refine ⟨e, he, ?_, ?_⟩ <;> split <;> rfl
    · intro e he _
      refine Or.inl ⟨_, List.mem_map.2 ⟨e, he, rfl⟩, ?_, ?_⟩ <;> split <;> rfl

/-- any number of cancellations -/
theorem TInv.ofCanRel {w w' : World} (h : TInv ex w) (hr : CanRel w w') : TInv ex w' := by
  refine h.congr (fun p => by rw [hr.proc]) (hr.evinv h.ei) ?_ ?_ hr.cancelled hr.counter
  · intro e' he' hea
    rcases hr.pend e' he' with hold | ⟨_, _, _, _, _, _, heq⟩
    · exact ⟨e', hold, rfl, rfl⟩
    · rw [heq] at hea; simp [mkEv] at hea; exact absurd hea (by decide)
  · intro e he _
    by_cases hm : e ∈ w'.ev.pending
    · exact Or.inl ⟨e, hm, rfl, rfl⟩
    · exact Or.inr (hr.removed e he hm)

theorem TInv.evCancel_fst {w : World} (h : TInv ex w) (k : Nat) : TInv ex (evCancel w k).1 := h.ofCanRel (evCancel_rel w k)

/-- rewriting the awaits of a process without touching its TIME awaitables -/
theorem TInv.mapAwaits {w : World} (hp : TInv ex w) (p : Pid) (g : List Await → List Await)
    (hg : ∀ l, (g l).filter isTimeA = l.filter isTimeA) :
    TInv ex (w.modProc p fun x => { x with awaits := g x.awaits }) := by
  have hta : ∀ x, timeAw (w.modProc p fun x => { x with awaits := g x.awaits }) x = timeAw w x := by
    intro x; unfold timeAw; rw [modProc_proc]; split
    · rename_i h; rw [h.1]; exact hg _
    · rfl
  have hm : ∀ x h, Await.time h ∈ ((w.modProc p fun x => { x with awaits := g x.awaits }).proc x).awaits ↔
      Await.time h ∈ (w.proc x).awaits := by
    intro x h; rw [mem_awaits_time, mem_awaits_time, hta]
  exact { ei := hp.ei, t1 := fun x h h0 hh => hp.t1 x h h0 ((hm x h).1 hh),
          t2 := fun e he hea x hb hx => (hm x _).2 (hp.t2 e he hea x hb hx),
          tle := fun x h hh => hp.tle x h ((hm x h).1 hh), tnd := fun x => by rw [hta]; exact hp.tnd x, tb := hp.tb }

theorem TInv.addAwait_other {w : World} (hp : TInv ex w) (p : Pid) (a : Await) (ha : isTimeA a = false) :
    TInv ex (addAwait w p a) :=
  hp.mapAwaits p (fun l => a :: l) (fun l => by simp [List.filter_cons, ha])

theorem TInv.removeAwait_other {w : World} (hp : TInv ex w) (p : Pid) (a : Await) (ha : isTimeA a = false) :
    TInv ex (removeAwait w p a).1 := by
  rw [removeAwait_fst_eq]
  exact hp.mapAwaits p (fun l => (removeFirst l a).1) (fun l => removeFirst_filter_ne l _ _ ha)

theorem TInv.removeAwaitKind_other {w : World} (hp : TInv ex w) (p : Pid) (k : Await → Bool)
    (hk : ∀ a, k a = true → isTimeA a = false) : TInv ex (removeAwaitKind w p k).1 := by
  rw [removeAwaitKind_fst_eq]
  exact hp.mapAwaits p (fun l => (removeAwaitKind.go k l).1) (fun l => rak_go_filter _ _ hk l)

end CimbaModel.Sim.S3
