/-
  S1 — `WInv` is preserved by every command, every resumption, every dispatched event.
-/
import CimbaModel.Sim.S1Wait

namespace CimbaModel.Sim
open CimbaModel CimbaModel.Event CimbaModel.Generated
open CimbaModel.HashHeap (HTag Item Order HH)

/-! ### the suspended frame of the other processes, and `pa`, under the blocking calls -/

theorem block_blocked (w : World) (p : Pid) (f : Frame) (z : Pid) :
    ((block w p f).1.proc z).blocked = if z = p ∧ p < w.procs.size then some f else (w.proc z).blocked := by
  unfold block; dsimp only; rw [proc_modProc]; split <;> rfl

@[simp] theorem block_blocked_ne (w : World) (p : Pid) (f : Frame) (z : Pid) (hz : z ≠ p) :
    ((block w p f).1.proc z).blocked = (w.proc z).blocked := by
  rw [block_blocked]; simp [hz]

/-- close a goal about the frame of another process / about `pa` after a blocking call: unfold, split, simp -/
syntax "wait_close " ident : tactic
macro_rules
  | `(tactic| wait_close $hz) =>
    `(tactic| first
        | with_reducible rfl
        | (simp [$hz:ident]; done)
        | (split <;> wait_close $hz))

section
variable (w : World) (p : Pid) (z : Pid) (hz : z ≠ p)
include hz

@[simp] theorem poolLoop_blocked_ne (pl rem initially : Nat) (preempt : Bool) :
    ((poolLoop w p pl rem initially preempt).1.proc z).blocked = (w.proc z).blocked := by
  unfold poolLoop; dsimp only; wait_close hz
@[simp] theorem bufGetLoop_blocked_ne (b rem got : Nat) :
    ((bufGetLoop w p b rem got).1.proc z).blocked = (w.proc z).blocked := by
  unfold bufGetLoop; dsimp only; wait_close hz
@[simp] theorem bufPutLoop_blocked_ne (b rem left : Nat) :
    ((bufPutLoop w p b rem left).1.proc z).blocked = (w.proc z).blocked := by
  unfold bufPutLoop; dsimp only; wait_close hz
@[simp] theorem oqGetLoop_blocked_ne (k : Nat) : ((oqGetLoop w p k).1.proc z).blocked = (w.proc z).blocked := by
  unfold oqGetLoop; dsimp only; wait_close hz
@[simp] theorem oqPutLoop_blocked_ne (k obj : Nat) : ((oqPutLoop w p k obj).1.proc z).blocked = (w.proc z).blocked := by
  unfold oqPutLoop; dsimp only; wait_close hz
@[simp] theorem pqGetLoop_blocked_ne (k : Nat) : ((pqGetLoop w p k).1.proc z).blocked = (w.proc z).blocked := by
  unfold pqGetLoop; dsimp only; wait_close hz
@[simp] theorem pqPutLoop_blocked_ne (k obj : Nat) (pri : Int) (v : Nat) :
    ((pqPutLoop w p k obj pri v).1.proc z).blocked = (w.proc z).blocked := by
  unfold pqPutLoop; dsimp only; wait_close hz
@[simp] theorem acquireStep_blocked_ne (r : Nat) : ((acquireStep w p r).1.proc z).blocked = (w.proc z).blocked := by
  unfold acquireStep; wait_close hz
end

section
variable (w : World) (p : Pid) (z : Pid)
@[simp] theorem poolLoop_pa (pl rem initially : Nat) (preempt : Bool) :
    (poolLoop w p pl rem initially preempt).1.pa z = w.pa z := by
  unfold poolLoop; dsimp only; frame_close
@[simp] theorem bufGetLoop_pa (b rem got : Nat) : (bufGetLoop w p b rem got).1.pa z = w.pa z := by
  unfold bufGetLoop; dsimp only; frame_close
@[simp] theorem bufPutLoop_pa (b rem left : Nat) : (bufPutLoop w p b rem left).1.pa z = w.pa z := by
  unfold bufPutLoop; dsimp only; frame_close
@[simp] theorem oqGetLoop_pa (k : Nat) : (oqGetLoop w p k).1.pa z = w.pa z := by
  unfold oqGetLoop; dsimp only; frame_close
@[simp] theorem oqPutLoop_pa (k obj : Nat) : (oqPutLoop w p k obj).1.pa z = w.pa z := by
  unfold oqPutLoop; dsimp only; frame_close
@[simp] theorem pqGetLoop_pa (k : Nat) : (pqGetLoop w p k).1.pa z = w.pa z := by
  unfold pqGetLoop; dsimp only; frame_close
@[simp] theorem pqPutLoop_pa (k obj : Nat) (pri : Int) (v : Nat) : (pqPutLoop w p k obj pri v).1.pa z = w.pa z := by
  unfold pqPutLoop; dsimp only; frame_close
@[simp] theorem acquireStep_pa (r : Nat) : (acquireStep w p r).1.pa z = w.pa z := by
  unfold acquireStep; frame_close
end

/-! ### `cancelAwaiteds` -/

/-- one step of the withdrawal loop of `cmi_process_cancel_awaiteds` -/
def cancelStep (z : Pid) (w : World) (a : Await) : World :=
  match a with
  | .time h => (evCancel w h).1
  | .guard g => guardWithdraw w g z
  | .proc q => w.modProc q fun x => { x with waiters := (removeFirst x.waiters z).1 }
  | .event h =>
    { w with evWaiters := w.evWaiters.map fun (k, l) => if k = h then (k, (removeFirst l z).1) else (k, l) }

theorem cancelAwaiteds_eq (w : World) (z : Pid) :
    cancelAwaiteds w z =
      cancelAllFor ((w.proc z).awaits.foldl (cancelStep z) (w.modProc z fun x => { x with awaits := [] })) z := rfl

theorem cancelStep_waiters (z : Pid) (w : World) (a : Await) (q : Pid) :
    ((cancelStep z w a).proc q).waiters =
      match procOf a with
      | some q' => if q' = q then (removeFirst (w.proc q).waiters z).1 else (w.proc q).waiters
      | none => (w.proc q).waiters := by
  cases a with
  | time h => simp [cancelStep]
  | guard g => simp [cancelStep]
  | event h => simp [cancelStep]
  | proc q' =>
    simp only [cancelStep, procOf_proc]
    rw [proc_modProc]
    by_cases e : q' = q
    · subst e
      by_cases hlt : q' < w.procs.size
      · simp [hlt]
      · simp [hlt, proc_oob w q' hlt, removeFirst]
    · have : ¬ q = q' := fun x => e x.symm
      simp [e, this]

theorem foldl_cancelStep_waiters (z : Pid) (aws : List Await) (w : World) (q : Pid) :
    ((aws.foldl (cancelStep z) w).proc q).waiters =
      (aws.filterMap procOf).foldl (fun l q' => if q' = q then (removeFirst l z).1 else l) (w.proc q).waiters := by
  induction aws generalizing w with
  | nil => rfl
  | cons a l ih =>
    rw [List.foldl_cons, ih, cancelStep_waiters]
    cases h : procOf a with
    | none => simp [List.filterMap_cons, h]
    | some q' => simp [List.filterMap_cons, h]

theorem cancelAwaiteds_waiters (w : World) (z q : Pid) :
    ((cancelAwaiteds w z).proc q).waiters =
      (w.pa z).foldl (fun l q' => if q' = q then (removeFirst l z).1 else l) (w.proc q).waiters := by
  rw [cancelAwaiteds_eq, cancelAllFor_proc, foldl_cancelStep_waiters]
  have : ((w.modProc z fun x => { x with awaits := [] }).proc q).waiters = (w.proc q).waiters := by
    apply modProc_field; intro; rfl
  rw [this]; rfl

theorem cancelAwaiteds_pa (w : World) (z p : Pid) : (cancelAwaiteds w z).pa p = if p = z then [] else w.pa p := by
  unfold World.pa
  rw [cancelAwaiteds_awaits]
  split <;> rfl

theorem cancelAwaiteds_np_self (w : World) (z : Pid) : np (cancelAwaiteds w z) z = 0 := by
  rw [cancelAwaiteds_eq]
  apply cancelAllFor_none
  · intro s c; rfl
  · intro it h
    unfold isAProc at h
    simp at h; exact h.2

theorem winv_cancelAwaiteds {w : World} (h : WInv w) (z : Pid) : WInv (cancelAwaiteds w z) := by
  have hev : WEv w (cancelAwaiteds w z) :=
    ec_cancelAwaiteds (wev_closed w) allButProc_notProc.event ⟨allButProc_notProc.res, allButProc_notProc.cond⟩ w z h.wev
  have hwt : ∀ q, ((cancelAwaiteds w z).proc q).waiters =
      if q ∈ w.pa z then (removeFirst (w.proc q).waiters z).1 else (w.proc q).waiters := by
    intro q
    rw [cancelAwaiteds_waiters]
    rcases h.frame z with e | ⟨q0, e, _⟩
    · rw [e]; simp
    · rw [e]; simp only [List.foldl_cons, List.foldl_nil, List.mem_singleton]
      by_cases x : q0 = q
      · simp [x]
      · have : ¬ q = q0 := fun y => x y.symm
        simp [x, this]
  have hsub : ∀ q, ((cancelAwaiteds w z).proc q).waiters.Sublist (w.proc q).waiters := by
    intro q; rw [hwt]; split
    · exact removeFirst_sublist _ _
    · exact List.Sublist.refl _
  refine ⟨?_, ?_, ?_, ?_, ?_, hev.2⟩
  · intro p q hm
    rw [cancelAwaiteds_pa]
    by_cases hp : p = z
    · subst hp
      exfalso
      have hm0 := (hsub q).subset hm
      have hq := h.reg p q hm0
      rw [hwt, if_pos hq] at hm
      exact removeFirst_not_mem p (h.nodup q) hm
    · rw [if_neg hp]; exact h.reg p q ((hsub q).subset hm)
  · intro q; exact (h.nodup q).sublist (hsub q)
  · intro p
    rw [cancelAwaiteds_pa]
    by_cases hp : p = z
    · left; simp [hp]
    · rw [if_neg hp]
      rcases h.frame p with e | ⟨q, e, b⟩
      · exact Or.inl e
      · exact Or.inr ⟨q, e, by rw [cancelAwaiteds_blocked]; exact b⟩
  · intro p; exact Nat.le_trans (hev.1 p) (h.one p)
  · intro p hp
    have hpz : p ≠ z := by
      intro e; subst e; rw [cancelAwaiteds_np_self] at hp; omega
    have := h.woken p (Nat.lt_of_lt_of_le hp (hev.1 p))
    rw [cancelAwaiteds_pa, if_neg hpz]
    exact ⟨this.1, fun q hm => this.2 q ((hsub q).subset hm)⟩

/-! ### `wakeWaiters` -/

theorem countP_wakeTags (sig : Int) (now : Int) (prio : Pid → Int) (c : Nat) (ws : List Pid) (p : Pid) :
    (wakeTags aProc sig now prio c ws).countP (fun e => isAProc p e.item) = ws.count p := by
  induction ws generalizing c with
  | nil => rfl
  | cons q qs ih =>
    simp only [wakeTags, List.countP_cons, List.count_cons, ih]
    by_cases e : q = p
    · simp [isAProc, e]
    · simp [isAProc, e]

theorem wakeWaiters_npcount (w : World) (z : Pid) (sig : Int) (p : Pid) :
    np (wakeWaiters w z sig) p = np w p + (w.proc z).waiters.count p := by
  unfold np cnt
  rw [wakeWaiters_pending, List.countP_append, List.countP_reverse, countP_wakeTags]
  omega

theorem winv_wakeWaiters {w : World} (h : WInv w) (z : Pid) (sig : Int) : WInv (wakeWaiters w z sig) := by
  have hwt : ∀ q, ((wakeWaiters w z sig).proc q).waiters = if q = z then [] else (w.proc q).waiters :=
    wakeWaiters_waiters w z sig
  have hcount : ∀ p, (w.proc z).waiters.count p = if p ∈ (w.proc z).waiters then 1 else 0 := by
    intro p; split
    · rename_i hm; exact count_eq_one_of_nodup_mem _ _ (h.nodup z) hm
    · rename_i hm; exact List.count_eq_zero.2 hm
  refine ⟨?_, ?_, ?_, ?_, ?_, ?_⟩
  · intro p q hm
    rw [hwt] at hm
    split at hm
    · cases hm
    · simpa using h.reg p q hm
  · intro q; rw [hwt]; split
    · exact List.nodup_nil
    · exact h.nodup q
  · intro p
    rcases h.frame p with e | ⟨q, e, b⟩
    · left; simpa using e
    · right; exact ⟨q, by simpa using e, by simpa using b⟩
  · intro p
    rw [wakeWaiters_npcount, hcount]
    split
    · rename_i hm
      have : np w p = 0 := by
        apply Classical.byContradiction
        intro hn
        exact (h.woken p (by omega)).2 z hm
      omega
    · have := h.one p; omega
  · intro p hp
    rw [wakeWaiters_npcount, hcount] at hp
    by_cases hm : p ∈ (w.proc z).waiters
    · have hz := h.reg p z hm
      have hne : (wakeWaiters w z sig).pa p ≠ [] := by
        rw [wakeWaiters_pa]; intro e; rw [e] at hz; cases hz
      refine ⟨hne, ?_⟩
      intro q hq
      rw [hwt] at hq
      split at hq
      · cases hq
      · rename_i hqz
        have hq' := h.reg p q hq
        rcases h.frame p with e | ⟨q0, e, _⟩
        · rw [e] at hz; cases hz
        · rw [e] at hz hq'
          simp at hz hq'
          exact hqz (hq'.trans hz.symm)
    · rw [if_neg hm] at hp
      have := h.woken p (by omega)
      refine ⟨by simpa using this.1, ?_⟩
      intro q hq
      rw [hwt] at hq
      split at hq
      · cases hq
      · exact this.2 q hq
  · intro e he ha
    rw [wakeWaiters_pending] at he
    rcases List.mem_append.1 he with he | he
    · obtain ⟨_, _, _, _, _, q, _, hb, _⟩ := mem_wakeTags (List.mem_reverse.1 he)
      omega
    · exact h.subj e he ha

/-! ### the end of a process -/

theorem WInv.of_views' {w w' : World} (h : WInv w)
    (hpa : ∀ z, w'.pa z = w.pa z) (hwt : ∀ q, (w'.proc q).waiters = (w.proc q).waiters)
    (hbl : ∀ z, w.pa z ≠ [] → (w'.proc z).blocked = (w.proc z).blocked) (hev : WEv w w') : WInv w' :=
  h.of_views hpa hwt hbl hev.1 hev.2

/-- establish `WInv w'` for a world `w'` that differs from `w` by library steps that neither touch the registrations
    nor wake process waiters; `hp : w.pa p = []` for the executing process `p` -/
syntax "winv_views " ident ident : tactic
macro_rules
  | `(tactic| winv_views $h $hp) =>
    `(tactic| (
        refine WInv.of_views' $h ?_ ?_ ?_ ?hev
        case hev => ec_peel2 (wev_closed _) allButProc_notProc (WInv.wev $h) 12
        · intro z; simp
        · intro q; simp
        · intro z hz
          have hzp : z ≠ _ := fun e => hz (e ▸ $hp)
          simp [hzp]))

theorem winv_dropResources {w : World} (h : WInv w) (z : Pid) : WInv (dropResources w z) := by
  have hev : WEv w (dropResources w z) := ec_dropResources (wev_closed w) ⟨allButProc_notProc.res, allButProc_notProc.cond⟩ w z h.wev
  exact h.of_views (fun p => by simp) (fun q => by simp) (fun p _ => by simp) hev.1 hev.2

theorem winv_finishProc {w : World} (h : WInv w) (z : Pid) (val : Int) (stopped : Bool) :
    WInv (finishProc w z val stopped) ∧ (finishProc w z val stopped).pa z = [] := by
  have hmid : WInv (finishMid w z stopped) ∧ (finishMid w z stopped).pa z = [] := by
    unfold finishMid; split
    · exact ⟨winv_dropResources (winv_cancelAwaiteds h z) z, by simp [cancelAwaiteds_pa]⟩
    · exact ⟨winv_cancelAwaiteds (winv_dropResources h z) z, by simp [cancelAwaiteds_pa]⟩
  have hw := winv_wakeWaiters hmid.1 z (if stopped then sigStopped else sigSuccess)
  have hpa : (wakeWaiters (finishMid w z stopped) z (if stopped then sigStopped else sigSuccess)).pa z = [] := by
    simpa using hmid.2
  rw [finishProc_eq]
  constructor
  · refine hw.of_views (fun p => by simp) (fun q => ?_) (fun p hp => ?_) (fun p => ?_) ?_
    · apply modProc_field; intro; rfl
    · have hpz : p ≠ z := fun e => hp (e ▸ hpa)
      rw [proc_modProc_ne _ _ _ _ hpz]
    · exact Nat.le_of_eq (cnt_of_ev rfl)
    · exact hw.subj
  · simpa using hpa

/-! ### `wait_process` -/

/-- the world after `p` has registered with `q` and suspended itself -/
def waitWorld (w : World) (p q : Pid) : World :=
  (block ((addAwait w p (.proc q)).modProc q fun y => { y with waiters := p :: y.waiters }) p (.waitProc q)).1

theorem execCmd_waitProc (w : World) (p q : Pid) (hq : q < w.procs.size) (hnf : (w.proc q).status ≠ .finished) :
    execCmd w p (.waitProc q) = (waitWorld w p q, .blocked) := by
  have : ¬ q ≥ w.procs.size := Nat.not_le.2 hq
  simp only [execCmd, this, if_false, hnf]
  rfl

theorem addAwait_pa_proc (w : World) (p q : Pid) (hp : p < w.procs.size) (z : Pid) :
    (addAwait w p (.proc q)).pa z = if z = p then q :: w.pa z else w.pa z := by
  unfold addAwait
  rw [pa_modProc]
  by_cases e : z = p
  · subst e; simp [hp, World.pa, List.filterMap_cons]
  · simp [e]

theorem waitWorld_pa (w : World) (p q : Pid) (hp : p < w.procs.size) (z : Pid) :
    (waitWorld w p q).pa z = if z = p then q :: w.pa z else w.pa z := by
  unfold waitWorld
  rw [block_pa, ← addAwait_pa_proc w p q hp]
  simp

theorem waitWorld_waiters (w : World) (p q : Pid) (hq : q < w.procs.size) (z : Pid) :
    ((waitWorld w p q).proc z).waiters = if z = q then p :: (w.proc z).waiters else (w.proc z).waiters := by
  unfold waitWorld
  rw [block_waiters, proc_modProc]
  by_cases e : z = q
  · subst e
    have : z < (addAwait w p (.proc z)).procs.size := by simpa using hq
    rw [if_pos ⟨rfl, this⟩, if_pos rfl]
    simp
  · simp [e]

theorem waitWorld_blocked (w : World) (p q : Pid) (hp : p < w.procs.size) (z : Pid) :
    ((waitWorld w p q).proc z).blocked = if z = p then some (.waitProc q) else (w.proc z).blocked := by
  unfold waitWorld
  rw [block_blocked]
  by_cases e : z = p
  · subst e
    have : z < ((addAwait w z (.proc q)).modProc q fun y => { y with waiters := z :: y.waiters }).procs.size := by
      simpa using hp
    rw [if_pos ⟨rfl, this⟩, if_pos rfl]
  · simp only [e, false_and, if_false]
    refine (modProc_field Proc.blocked _ _ _ ?_ _).trans (by simp)
    intro; rfl

theorem winv_waitProc {w : World} (h : WInv w) (p q : Pid) (hp : p < w.procs.size) (hq : q < w.procs.size)
    (hpa : w.pa p = []) : WInv (waitWorld w p q) := by
  obtain ⟨hfree, hnp⟩ := h.free p hpa
  have hev : ∀ z, np (waitWorld w p q) z = np w z := fun z => cnt_of_ev (by unfold waitWorld; simp)
  refine ⟨?_, ?_, ?_, ?_, ?_, ?_⟩
  · intro p' q' hm
    rw [waitWorld_waiters w p q hq] at hm
    rw [waitWorld_pa w p q hp]
    by_cases e : p' = p
    · subst e
      rw [if_pos rfl, hpa]
      split at hm
      · rename_i e2; subst e2; exact List.mem_singleton.2 rfl
      · exact absurd hm (hfree q')
    · rw [if_neg e]
      split at hm
      · rcases List.mem_cons.1 hm with x | x
        · exact absurd x e
        · exact h.reg p' q' x
      · exact h.reg p' q' hm
  · intro q'
    rw [waitWorld_waiters w p q hq]
    split
    · exact List.nodup_cons.2 ⟨hfree q', h.nodup q'⟩
    · exact h.nodup q'
  · intro p'
    rw [waitWorld_pa w p q hp, waitWorld_blocked w p q hp]
    by_cases e : p' = p
    · subst e; right; exact ⟨q, by simp [hpa], by simp⟩
    · simp only [e, if_false]; exact h.frame p'
  · intro z; rw [hev]; exact h.one z
  · intro z hz
    rw [hev] at hz
    have hzp : z ≠ p := by intro e; subst e; omega
    have := h.woken z hz
    rw [waitWorld_pa w p q hp, if_neg hzp]
    refine ⟨this.1, fun q' => ?_⟩
    rw [waitWorld_waiters w p q hq]
    split
    · intro hm
      rcases List.mem_cons.1 hm with x | x
      · exact hzp x
      · exact this.2 q' x
    · exact this.2 q'
  · intro e he
    have : (waitWorld w p q).ev = w.ev := by unfold waitWorld; simp
    rw [this] at he; exact h.subj e he

/-! ### leaving `wait_process` -/

/-- abstract transition: `p`, which awaited the end of `q`, stops awaiting it and is taken off `q`'s waiter list (if it
    was still on it); any pending process-end wake-up for `p` is gone -/
theorem WInv.unregister {w w' : World} (h : WInv w) (p q : Pid) (hpa : w.pa p = [q])
    (hpa' : ∀ z, w'.pa z = if z = p then [] else w.pa z)
    (hwt : ∀ z, (w'.proc z).waiters.Sublist (w.proc z).waiters)
    (hout : p ∉ (w'.proc q).waiters)
    (hbl : ∀ z, z ≠ p → (w'.proc z).blocked = (w.proc z).blocked)
    (hnp : ∀ z, np w' z ≤ np w z) (hnp0 : np w' p = 0)
    (hsub : ∀ e ∈ w'.ev.pending, e.item.a = aProc → 1 ≤ e.item.b) : WInv w' := by
  refine ⟨?_, ?_, ?_, ?_, ?_, hsub⟩
  · intro p' q' hm
    have hm0 := (hwt q').subset hm
    have hq := h.reg p' q' hm0
    rw [hpa']
    by_cases e : p' = p
    · subst e
      rw [hpa] at hq
      have : q' = q := List.mem_singleton.1 hq
      subst this
      exact absurd hm hout
    · rw [if_neg e]; exact hq
  · intro z; exact (h.nodup z).sublist (hwt z)
  · intro z
    rw [hpa']
    by_cases e : z = p
    · left; simp [e]
    · rw [if_neg e, hbl z e]; exact h.frame z
  · intro z; exact Nat.le_trans (hnp z) (h.one z)
  · intro z hz
    have hzp : z ≠ p := by intro e; subst e; omega
    have := h.woken z (Nat.lt_of_lt_of_le hz (hnp z))
    rw [hpa', if_neg hzp]
    exact ⟨this.1, fun q' hm => this.2 q' ((hwt q').subset hm)⟩

theorem filterMap_removeFirst_proc (l : List Await) (q : Pid) :
    (removeFirst l (.proc q)).1.filterMap procOf = (removeFirst (l.filterMap procOf) q).1 := by
  induction l with
  | nil => rfl
  | cons x xs ih =>
    cases x with
    | proc q' =>
      by_cases e : q' = q
      · subst e; simp [List.filterMap_cons, removeFirst]
      · have e' : ¬ Await.proc q' = Await.proc q := fun x => e (by injection x)
        simp only [removeFirst, e', if_false, List.filterMap_cons, procOf_proc, e, ih]
    | time h =>
      have e' : ¬ Await.time h = Await.proc q := fun x => by cases x
      simp only [removeFirst, e', if_false, List.filterMap_cons, procOf_time, ih]
    | guard g =>
      have e' : ¬ Await.guard g = Await.proc q := fun x => by cases x
      simp only [removeFirst, e', if_false, List.filterMap_cons, procOf_guard, ih]
    | event h =>
      have e' : ¬ Await.event h = Await.proc q := fun x => by cases x
      simp only [removeFirst, e', if_false, List.filterMap_cons, procOf_event, ih]

theorem removeAwait_pa_proc (w : World) (p q : Pid) (z : Pid) :
    (removeAwait w p (.proc q)).1.pa z = if z = p then (removeFirst (w.pa z) q).1 else w.pa z := by
  unfold removeAwait; dsimp only
  rw [pa_modProc]
  by_cases e : z = p
  · subst e
    by_cases hlt : z < w.procs.size
    · simp only [hlt, and_self, if_true]
      exact filterMap_removeFirst_proc _ _
    · simp [hlt, World.pa, proc_oob w z hlt, removeFirst]
  · simp [e]

theorem removeAwait_still_proc (w : World) (p q : Pid) : (removeAwait w p (.proc q)).2 = true ↔ q ∈ w.pa p := by
  unfold removeAwait; dsimp only
  rw [removeFirst_flag]
  unfold World.pa
  rw [List.mem_filterMap]
  constructor
  · intro h; exact ⟨_, h, rfl⟩
  · rintro ⟨a, ha, e⟩
    cases a <;> simp_all

/-- the three ways out of `wait_process` -/
theorem resumeFrame_waitProc_eq (w0 : World) (p q : Pid) (sig : Int) :
    (resumeFrame w0 p (.waitProc q) sig).1 =
      if (removeAwait w0 p (.proc q)).2 = true then
        if (removeFirst ((removeAwait w0 p (.proc q)).1.proc q).waiters p).2 = true then
          (removeAwait w0 p (.proc q)).1.modProc q fun y =>
            { y with waiters := (removeFirst ((removeAwait w0 p (.proc q)).1.proc q).waiters p).1 }
        else (cancelKindFor (removeAwait w0 p (.proc q)).1 p aProc none).1
      else (removeAwait w0 p (.proc q)).1 := by
  simp only [resumeFrame]
  split
  · split <;> rfl
  · rfl

/-- **leaving `wait_process` for whatever reason** restores the invariant with nothing awaited.  `w0` is the world in
    which the frame is resumed: `w` with the suspension mark of `p` cleared. -/
theorem winv_resume_waitProc {w w0 : World} (h : WInv w) (p q : Pid) (hb : (w.proc p).blocked = some (.waitProc q))
    (h0pa : ∀ z, w0.pa z = w.pa z) (h0wt : ∀ z, (w0.proc z).waiters = (w.proc z).waiters)
    (h0bl : ∀ z, z ≠ p → (w0.proc z).blocked = (w.proc z).blocked) (h0ev : w0.ev = w.ev) (sig : Int) :
    WInv (resumeFrame w0 p (.waitProc q) sig).1 ∧ (resumeFrame w0 p (.waitProc q) sig).1.pa p = [] := by
  rw [resumeFrame_waitProc_eq]
  have hev1 : (removeAwait w0 p (.proc q)).1.ev = w.ev := by simp [h0ev]
  have hwt1 : ∀ z, ((removeAwait w0 p (.proc q)).1.proc z).waiters = (w.proc z).waiters :=
    fun z => by rw [removeAwait_waiters, h0wt]
  have hbl1 : ∀ z, z ≠ p → ((removeAwait w0 p (.proc q)).1.proc z).blocked = (w.proc z).blocked :=
    fun z hz => by rw [removeAwait_blocked, h0bl z hz]
  rcases h.frame p with e | ⟨q0, e, b⟩
  · -- nothing awaited any more (the wake-up came from the end of `q`, or everything was cancelled)
    have hstill : (removeAwait w0 p (.proc q)).2 = false := by
      cases hs : (removeAwait w0 p (.proc q)).2 with
      | false => rfl
      | true =>
        have := (removeAwait_still_proc _ p q).1 hs
        rw [h0pa, e] at this; cases this
    rw [hstill]
    simp only [Bool.false_eq_true, if_false]
    have hpa : ∀ z, (removeAwait w0 p (.proc q)).1.pa z = w.pa z := by
      intro z
      rw [removeAwait_pa_proc, h0pa]
      split
      · rename_i x; subst x; rw [e]; rfl
      · rfl
    constructor
    · refine h.of_views hpa hwt1 ?_ ?_ ?_
      · intro z hz
        exact hbl1 z (fun x => hz (x ▸ e))
      · intro z; exact Nat.le_of_eq (cnt_of_ev hev1)
      · intro ev hev; rw [hev1] at hev; exact h.subj ev hev
    · rw [hpa, e]
  · -- still registered as awaiting `q`
    have hq : q0 = q := by rw [hb] at b; injection b with b; injection b with b; exact b.symm
    subst hq
    have hstill : (removeAwait w0 p (.proc q0)).2 = true := by
      rw [removeAwait_still_proc, h0pa, e]; exact List.mem_singleton.2 rfl
    rw [hstill]
    simp only [if_true]
    have hpa1 : ∀ z, (removeAwait w0 p (.proc q0)).1.pa z = if z = p then [] else w.pa z := by
      intro z
      rw [removeAwait_pa_proc, h0pa]
      split
      · rename_i x; subst x; rw [e]; simp [removeFirst]
      · rfl
    rw [hwt1 q0]
    cases hwas : (removeFirst (w.proc q0).waiters p).2 with
    | true =>
      simp only [if_true]
      have hmem : p ∈ (w.proc q0).waiters := (removeFirst_flag _ _).1 hwas
      have hnp0 : np w p = 0 := by
        apply Classical.byContradiction
        intro hn
        exact (h.woken p (by omega)).2 q0 hmem
      have hlt : q0 < w.procs.size := by
        apply Classical.byContradiction
        intro hlt; rw [proc_oob w q0 hlt] at hmem; cases hmem
      have hwt2 : ∀ z, (((removeAwait w0 p (.proc q0)).1.modProc q0
          fun y => { y with waiters := (removeFirst (w.proc q0).waiters p).1 }).proc z).waiters
            = if z = q0 then (removeFirst (w.proc q0).waiters p).1 else (w.proc z).waiters := by
        intro z
        rw [proc_modProc]
        by_cases x : z = q0
        · subst x
          have hz0 : p ∈ (w0.proc z).waiters := by rw [h0wt]; exact hmem
          have hlt0 : z < w0.procs.size := by
            apply Classical.byContradiction
            intro hlt0; rw [proc_oob w0 z hlt0] at hz0; cases hz0
          have : z < (removeAwait w0 p (.proc z)).1.procs.size := by simpa using hlt0
          rw [if_pos ⟨rfl, this⟩, if_pos rfl]
        · simp [x, hwt1]
      constructor
      · refine h.unregister p q0 e ?_ ?_ ?_ ?_ ?_ ?_ ?_
        · intro z; rw [← hpa1 z]; simp
        · intro z; rw [hwt2]; split
          · rename_i x; subst x; exact removeFirst_sublist _ _
          · exact List.Sublist.refl _
        · rw [hwt2, if_pos rfl]; exact removeFirst_not_mem p (h.nodup q0)
        · intro z hz
          refine (modProc_field Proc.blocked _ _ _ ?_ _).trans (hbl1 z hz)
          intro; rfl
        · intro z; exact Nat.le_of_eq (cnt_of_ev hev1)
        · have : np ((removeAwait w0 p (.proc q0)).1.modProc q0
            fun y => { y with waiters := (removeFirst (w.proc q0).waiters p).1 }) p = np w p := cnt_of_ev hev1
          rw [this]; exact hnp0
        · intro ev hev
          have : ((removeAwait w0 p (.proc q0)).1.modProc q0
            fun y => { y with waiters := (removeFirst (w.proc q0).waiters p).1 }).ev = w.ev := hev1
          rw [this] at hev; exact h.subj ev hev
      · have := hpa1 p; simp at this ⊢; exact this
    | false =>
      simp only [Bool.false_eq_true, if_false]
      have hnm : p ∉ (w.proc q0).waiters := by
        intro hm
        have := (removeFirst_flag _ _).2 hm
        rw [hwas] at this; cases this
      have hev2 : WEv w (cancelKindFor (removeAwait w0 p (.proc q0)).1 p aProc none).1 :=
        ec_cancelKindFor (wev_closed w) allButProc_notProc.event _ _ _ _
          ((wev_closed w).ev_only h.wev hev1)
      constructor
      · refine h.unregister p q0 e ?_ ?_ ?_ ?_ hev2.1 ?_ hev2.2
        · intro z; rw [cancelKindFor_pa, hpa1]
        · intro z; rw [cancelKindFor_proc, hwt1]; exact List.Sublist.refl _
        · rw [cancelKindFor_proc, hwt1]; exact hnm
        · intro z hz; rw [cancelKindFor_proc]; exact hbl1 z hz
        · apply cancelKindFor_none
          · intro s c; rfl
          · intro it hit
            unfold isAProc at hit
            simp at hit; exact ⟨hit.2, hit.1⟩
      · rw [cancelKindFor_pa, hpa1]; simp

/-! ### every command -/

syntax "winv_cmd " ident ident : tactic
macro_rules
  | `(tactic| winv_cmd $h $hp) =>
    `(tactic| first
        | with_reducible exact $h
        | (split <;> winv_cmd $h $hp)
        | (winv_views $h $hp; done))

set_option maxHeartbeats 1000000 in
theorem winv_execCmd_frame {w : World} (h : WInv w) (p : Pid) (hpa : w.pa p = []) (c : Cmd)
    (h1 : ∀ z v, c ≠ .stop z v) (h2 : ∀ v, c ≠ .exit v) (h3 : ∀ q, c ≠ .waitProc q) (h4 : ∀ r, c ≠ .preempt r)
    (h5 : ∀ q v, c ≠ .prioSet q v) :
    WInv (execCmd w p c).1 := by
  cases c
  case stop z v => exact absurd rfl (h1 z v)
  case exit v => exact absurd rfl (h2 v)
  case waitProc q => exact absurd rfl (h3 q)
  case preempt r => exact absurd rfl (h4 r)
  case prioSet q v => exact absurd rfl (h5 q v)
  all_goals simp only [execCmd]
  all_goals winv_cmd h hpa

theorem finishProc_pa (w : World) (z : Pid) (val : Int) (stopped : Bool) (p : Pid) :
    (finishProc w z val stopped).pa p = if p = z then [] else w.pa p := by
  rw [finishProc_eq]
  have e : ∀ W : World, (W.modProc z fun x => { x with status := .finished, exitVal := val, blocked := none }).pa p
      = W.pa p := fun W => by simp
  rw [e, wakeWaiters_pa]
  unfold finishMid; split
  · rw [dropResources_pa, cancelAwaiteds_pa]
  · rw [cancelAwaiteds_pa, dropResources_pa]

theorem reprioritize_items {q q' : EvQ} {h : Nat} {v : Int} (hr : reprioritize q h v = .ok q') :
    q'.pending.map (·.item) = q.pending.map (·.item) := by
  unfold reprioritize at hr
  split at hr
  · cases hr
  · injection hr with hr; subst hr
    simp only [List.map_map]
    apply List.map_congr_left
    intro e _
    simp only [Function.comp]
    split <;> rfl

theorem wev_reprioritize {w0 w : World} (hw : WEv w0 w) {ev' : EvQ} {h : Nat} {v : Int}
    (hr : reprioritize w.ev h v = .ok ev') : WEv w0 { w with ev := ev' } := by
  have hi := reprioritize_items hr
  have hc : ∀ z, np { w with ev := ev' } z = np w z := by
    intro z
    unfold np cnt
    have : ∀ l : List HTag, l.countP (fun e => isAProc z e.item) = (l.map (·.item)).countP (isAProc z) := by
      intro l; rw [List.countP_map]; rfl
    rw [this, this]
    exact congrArg _ hi
  refine ⟨fun z => by rw [hc]; exact hw.1 z, ?_⟩
  intro e he ha
  have : e.item ∈ ev'.pending.map (·.item) := List.mem_map.2 ⟨e, he, rfl⟩
  rw [hi] at this
  obtain ⟨e0, he0, hie⟩ := List.mem_map.1 this
  have := hw.2 e0 he0 (by rw [hie]; exact ha)
  rw [hie] at this; exact this

theorem prioSet_awaits (w : World) (p q : Pid) (v : Int) (z : Pid) :
    ((execCmd w p (.prioSet q v)).1.proc z).awaits = (w.proc z).awaits := by
  simp only [execCmd]
  split
  · rfl
  · dsimp only
    fold_proc; fold_proc; frame_close

theorem prioSet_waiters (w : World) (p q : Pid) (v : Int) (z : Pid) :
    ((execCmd w p (.prioSet q v)).1.proc z).waiters = (w.proc z).waiters := by
  simp only [execCmd]
  split
  · rfl
  · dsimp only
    fold_proc; fold_proc; frame_close

theorem prioSet_blocked (w : World) (p q : Pid) (v : Int) (z : Pid) :
    ((execCmd w p (.prioSet q v)).1.proc z).blocked = (w.proc z).blocked := by
  simp only [execCmd]
  split
  · rfl
  · dsimp only
    fold_proc; fold_proc; frame_close

theorem winv_prioSet {w : World} (h : WInv w) (p q : Pid) (v : Int) : WInv (execCmd w p (.prioSet q v)).1 := by
  refine h.of_views' (fun z => pa_congr (prioSet_awaits w p q v) z) (prioSet_waiters w p q v)
    (fun z _ => prioSet_blocked w p q v z) ?_
  simp only [execCmd]
  split
  · exact h.wev
  · dsimp only
    apply foldl_inv (WEv w)
    · intro w' a hw'
      ec_peel (wev_closed w) allButProc_notProc hw' 10
    · apply foldl_inv (WEv w)
      · intro w' a hw'
        split
        · split
          · rename_i ev' hr; exact wev_reprioritize hw' hr
          · exact ec_fail (wev_closed w) _ _ hw'
        · ec_peel (wev_closed w) allButProc_notProc hw' 10
        · exact hw'
      · exact (wev_closed w).ev_only h.wev rfl

theorem winv_preempt {w : World} (h : WInv w) (p : Pid) (hpa : w.pa p = []) (r : Nat) :
    WInv (execCmd w p (.preempt r)).1 ∧ (execCmd w p (.preempt r)).1.pa p = [] := by
  simp only [execCmd]
  split
  · exact ⟨h, hpa⟩
  · split
    · exact ⟨h, hpa⟩
    · split
      · constructor
        · winv_views h hpa
        · simpa using hpa
      · rename_i victim _
        split
        · dsimp only
          have h1 : WInv (removeHeld w victim (.res r)).1 := by winv_views h hpa
          have h2 := winv_cancelAwaiteds h1 victim
          have hpa2 : (cancelAwaiteds (removeHeld w victim (.res r)).1 victim).pa p = [] := by
            rw [cancelAwaiteds_pa]; split
            · rfl
            · simpa using hpa
          constructor
          · winv_views h2 hpa2
          · simpa using hpa2
        · constructor
          · winv_views h hpa
          · simpa using hpa

set_option maxHeartbeats 1000000 in
theorem execCmd_pa_frame (w : World) (p : Pid) (c : Cmd) (z : Pid)
    (h1 : ∀ z v, c ≠ .stop z v) (h2 : ∀ v, c ≠ .exit v) (h3 : ∀ q, c ≠ .waitProc q) (h4 : ∀ r, c ≠ .preempt r)
    (h5 : ∀ q v, c ≠ .prioSet q v) : (execCmd w p c).1.pa z = w.pa z := by
  cases c
  case stop z v => exact absurd rfl (h1 z v)
  case exit v => exact absurd rfl (h2 v)
  case waitProc q => exact absurd rfl (h3 q)
  case preempt r => exact absurd rfl (h4 r)
  case prioSet q v => exact absurd rfl (h5 q v)
  all_goals simp only [execCmd]
  all_goals frame_close

/-- **every command keeps the registration invariant**; unless it is a `wait_process` that blocks, the caller still
    awaits no process end afterwards -/
theorem winv_execCmd {w : World} (h : WInv w) (p : Pid) (hp : p < w.procs.size) (hpa : w.pa p = []) (c : Cmd) :
    WInv (execCmd w p c).1 ∧
      ((execCmd w p c).1.pa p = [] ∨ ∃ q, execCmd w p c = (waitWorld w p q, .blocked)) := by
  by_cases h1 : ∃ z v, c = .stop z v
  · obtain ⟨z, v, rfl⟩ := h1
    simp only [execCmd]
    split
    · exact ⟨(winv_finishProc h p v true).1, Or.inl (winv_finishProc h p v true).2⟩
    · split
      · refine ⟨(winv_finishProc h z v true).1, Or.inl ?_⟩
        rw [finishProc_pa]; split
        · rfl
        · exact hpa
      · exact ⟨h, Or.inl hpa⟩
  by_cases h2 : ∃ v, c = .exit v
  · obtain ⟨v, rfl⟩ := h2
    exact ⟨(winv_finishProc h p v false).1, Or.inl (winv_finishProc h p v false).2⟩
  by_cases h3 : ∃ q, c = .waitProc q
  · obtain ⟨q, rfl⟩ := h3
    by_cases hq : q < w.procs.size
    · by_cases hf : (w.proc q).status = .finished
      · have : ¬ q ≥ w.procs.size := Nat.not_le.2 hq
        simp only [execCmd, this, if_false, hf, if_true]
        exact ⟨h, Or.inl hpa⟩
      · rw [execCmd_waitProc w p q hq hf]
        exact ⟨winv_waitProc h p q hp hq hpa, Or.inr ⟨q, rfl⟩⟩
    · have : q ≥ w.procs.size := Nat.le_of_not_lt hq
      simp only [execCmd, this, if_true]
      exact ⟨h, Or.inl hpa⟩
  by_cases h4 : ∃ r, c = .preempt r
  · obtain ⟨r, rfl⟩ := h4
    exact ⟨(winv_preempt h p hpa r).1, Or.inl (winv_preempt h p hpa r).2⟩
  by_cases h5 : ∃ q v, c = .prioSet q v
  · obtain ⟨q, v, rfl⟩ := h5
    exact ⟨winv_prioSet h p q v, Or.inl (by rw [pa_congr (prioSet_awaits w p q v)]; exact hpa)⟩
  refine ⟨winv_execCmd_frame h p hpa c (fun z v e => h1 ⟨z, v, e⟩) (fun v e => h2 ⟨v, e⟩) (fun q e => h3 ⟨q, e⟩)
    (fun r e => h4 ⟨r, e⟩) (fun q v e => h5 ⟨q, v, e⟩), Or.inl ?_⟩
  rw [execCmd_pa_frame w p c p (fun z v e => h1 ⟨z, v, e⟩) (fun v e => h2 ⟨v, e⟩) (fun q e => h3 ⟨q, e⟩)
    (fun r e => h4 ⟨r, e⟩) (fun q v e => h5 ⟨q, v, e⟩)]
  exact hpa

end CimbaModel.Sim

