/-
  S2 — the generic induction: a world predicate that is kept by `Same` steps, by the clock tick of
  `dispatch`, by every command, by every resumption of a suspended call and by the end of a process is
  kept by `runScript`, `resumeProc`, `dispatch` and `runAll`, i.e. holds in every reachable state.
-/
import CimbaModel.Sim.S2Frame

namespace CimbaModel.Sim
open CimbaModel CimbaModel.Event CimbaModel.Generated
open CimbaModel.HashHeap (HTag Item Order HH)

/-- everything except the clock tick: what happens inside one dispatched event after the clock has been advanced -/
structure PreservedCore (I : World → Prop) : Prop where
  same : ∀ {w w'}, Same w w' → I w → I w'
  /-- commands are only ever executed by an existing process -/
  exec : ∀ w p c, p < w.procs.size → I w → I (execCmd w p c).1
  /-- only an existing (running) process is ever resumed, and with the frame it was suspended in: `w` is a state `w0`
      (satisfying `I`) in which `p` was blocked in frame `f`, with that `blocked` field just cleared -/
  resume : ∀ w p f sig, p < w.procs.size →
    (∃ w0, I w0 ∧ (w0.proc p).blocked = some f ∧ w = w0.modProc p fun y => { y with blocked := none }) →
    I w → I (resumeFrame w p f sig).1
  finish : ∀ w p v st, I w → I (finishProc w p v st)
  /-- a process is taken out of its suspended state (resumption, start): `blocked := none`, `held` untouched -/
  clear : ∀ w p (f : Proc → Proc), (∀ x, (f x).held = x.held) → (∀ x, (f x).blocked = none) → (∀ x, (f x).prio = x.prio) →
    I w → I (w.modProc p f)

structure Preserved (I : World → Prop) : Prop extends PreservedCore I where
  tick : ∀ {w t ev'}, executeNext w.ev = some (t, ev') → I w →
    I { w with ev := ev', dispatched := w.dispatched + 1 }

variable {I : World → Prop}

theorem proc_default_of_ge {w : World} {p : Pid} (h : ¬ p < w.procs.size) : w.proc p = {} := by
  unfold World.proc
  simp [Array.getD_eq_getD_getElem?, Array.getElem?_eq_none (Nat.le_of_not_lt h)]

theorem valid_of_script {w : World} {p : Pid} {i : Nat} {x : Cmd × String} (h : (w.proc p).script[i]? = some x) :
    p < w.procs.size := by
  apply Classical.byContradiction
  intro hn
  rw [proc_default_of_ge hn] at h
  simp at h

theorem valid_of_running {w : World} {p : Pid} (h : (w.proc p).status = .running) : p < w.procs.size := by
  apply Classical.byContradiction
  intro hn
  rw [proc_default_of_ge hn] at h
  cases h

theorem PreservedCore.runScript (hI : PreservedCore I) : ∀ fuel w p, I w → I (runScript fuel w p) := by
  intro fuel
  induction fuel with
  | zero => intro w p h; exact hI.same (fail_same _ _) h
  | succ n ih =>
    intro w p h
    unfold Sim.runScript
    dsimp only
    split
    · exact hI.finish _ _ _ _ (hI.same (emit_same _ _) h)
    · rename_i c text hsc
      have hv : p < w.procs.size := valid_of_script hsc
      have h1 := hI.exec _ p c (by simpa [World.emit] using hv) (hI.same (emit_same w s!"c {p} {(w.proc p).pc} {w.now} {text}") h)
      split
      · rename_i w' v extra heq
        rw [heq] at h1
        exact ih _ _ (hI.same (modProc_same _ _ _ (fun _ => rfl) (fun _ => rfl) (fun _ => rfl)) (hI.same (emit_same _ _) h1))
      · rename_i w' heq
        rw [heq] at h1
        exact ih _ _ (hI.same (modProc_same _ _ _ (fun _ => rfl) (fun _ => rfl) (fun _ => rfl)) (hI.same (emit_same _ _) h1))
      · rename_i w' heq
        rw [heq] at h1; exact h1
      · rename_i w' heq
        rw [heq] at h1
        split <;> exact hI.same (emit_same _ _) h1

theorem PreservedCore.resumeProc (hI : PreservedCore I) (w : World) (p : Pid) (sig : Int) (h : I w) : I (resumeProc w p sig) := by
  unfold Sim.resumeProc
  dsimp only
  split
  · exact hI.same (fail_same _ _) h
  · split
    · exact hI.same (fail_same _ _) h
    · rename_i hst _ f hbl
      have hv : p < w.procs.size := valid_of_running (Decidable.not_not.1 hst)
      have h1 := hI.resume _ p f sig (by simpa using hv) ⟨w, h, hbl, rfl⟩ (hI.clear w p (fun y => { y with blocked := none }) (fun _ => rfl) (fun _ => rfl) (fun _ => rfl) h)
      split
      · rename_i w' v extra heq
        rw [heq] at h1
        exact hI.runScript _ _ _ (hI.same (modProc_same _ _ _ (fun _ => rfl) (fun _ => rfl) (fun _ => rfl)) (hI.same (emit_same _ _) h1))
      all_goals (rename_i w' heq; rw [heq] at h1; exact h1)

/-- one dispatched event, given that the invariant holds right after the clock tick -/
theorem PreservedCore.afterTick (hI : PreservedCore I) {w w' : World} {t : HTag} {ev' : EvQ}
    (hex : executeNext w.ev = some (t, ev')) (h0 : I { w with ev := ev', dispatched := w.dispatched + 1 })
    (hd : dispatch w = some w') : I w' := by
  unfold Sim.dispatch at hd
  rw [hex] at hd
  · simp only [Option.some.injEq] at hd
    subst hd
    generalize hw1 : wakeEventWaiters _ _ sigSuccess = w1
    have h1 : I w1 := by
      rw [← hw1]
      refine hI.same (wakeEventWaiters_same _ _ _) (hI.same ?_ h0)
      exact ⟨rfl, rfl, rfl, rfl, rfl, rfl, id, rfl, fun _ => rfl, fun _ => rfl, fun _ => rfl⟩
    split
    · split
      · exact hI.same (fail_same _ _) h1
      · exact hI.runScript _ _ _ (hI.clear _ _ _ (fun _ => rfl) (fun _ => rfl) (fun _ => rfl) h1)
    · split
      · exact hI.resumeProc _ _ _ (hI.same (removeAwait_same _ _ _) h1)
      · split
        · split
          · exact hI.resumeProc _ _ _ (hI.same (removeAwaitKind_same _ _ _) h1)
          · exact hI.same (removeAwaitKind_same _ _ _) h1
        · split
          · split
            · exact hI.resumeProc _ _ _ (hI.same (removeAwaitKind_same _ _ _) h1)
            · exact hI.same (removeAwaitKind_same _ _ _) h1
          · split
            · split
              · exact hI.resumeProc _ _ _ h1
              · exact h1
            · split
              · split
                · exact hI.resumeProc _ _ _ (hI.same (removeAwaitKind_same _ _ _) h1)
                · exact hI.same (removeAwaitKind_same _ _ _) h1
              · split
                · exact hI.resumeProc _ _ _ (hI.same (cancelAwaiteds_same _ _) h1)
                · split
                  · exact hI.resumeProc _ _ _ h1
                  · exact h1

theorem Preserved.dispatch (hI : Preserved I) {w w' : World} (h : I w) (hd : dispatch w = some w') : I w' := by
  cases hex : executeNext w.ev with
  | none => unfold Sim.dispatch at hd; rw [hex] at hd; cases hd
  | some r =>
    obtain ⟨t, ev'⟩ := r
    exact hI.toPreservedCore.afterTick hex (hI.tick hex h) hd

theorem Preserved.runScript (hI : Preserved I) : ∀ fuel w p, I w → I (runScript fuel w p) :=
  hI.toPreservedCore.runScript

theorem Preserved.resumeProc (hI : Preserved I) (w : World) (p : Pid) (sig : Int) (h : I w) : I (resumeProc w p sig) :=
  hI.toPreservedCore.resumeProc w p sig h

theorem Preserved.runAll (hI : Preserved I) : ∀ fuel w, I w → I (runAll fuel w) := by
  intro fuel
  induction fuel with
  | zero => intro w h; exact hI.same (emit_same _ _) h
  | succ n ih =>
    intro w h
    unfold Sim.runAll
    split
    · exact h
    · split
      · exact h
      · rename_i w' hd
        exact ih _ (hI.dispatch h hd)

/-- conjunction of preserved predicates -/
theorem Preserved.and {J : World → Prop} (hI : Preserved I) (hJ : Preserved J) : Preserved (fun w => I w ∧ J w) where
  same hs h := ⟨hI.same hs h.1, hJ.same hs h.2⟩
  tick he h := ⟨hI.tick he h.1, hJ.tick he h.2⟩
  exec w p c hv h := ⟨hI.exec w p c hv h.1, hJ.exec w p c hv h.2⟩
  resume w p f sig hv hfr h := by
    obtain ⟨w0, h0, hb, e⟩ := hfr
    exact ⟨hI.resume w p f sig hv ⟨w0, h0.1, hb, e⟩ h.1, hJ.resume w p f sig hv ⟨w0, h0.2, hb, e⟩ h.2⟩
  finish w p v st h := ⟨hI.finish w p v st h.1, hJ.finish w p v st h.2⟩
  clear w p f hf hb hp h := ⟨hI.clear w p f hf hb hp h.1, hJ.clear w p f hf hb hp h.2⟩

end CimbaModel.Sim
