/-
  S2 — buffers (C11): `level + getTotal = putTotal`, `level ≤ cap` in every reachable state; exact accounting of
  one pass of the get / put loops.
-/
import CimbaModel.Sim.S2Cmd
import CimbaModel.Sim.S2Dispatch

namespace CimbaModel.Sim
open CimbaModel CimbaModel.Event CimbaModel.Generated
open CimbaModel.HashHeap (HTag Item Order HH)

/-- every element of an array satisfies `P` -/
def ArrAll {α : Type} (P : α → Prop) (a : Array α) : Prop := ∀ (i : Nat) (x : α), a[i]? = some x → P x

theorem ArrAll.set {α : Type} {P : α → Prop} {a : Array α} (h : ArrAll P a) (i : Nat) {y : α} (hy : P y) :
    ArrAll P (a.setIfInBounds i y) := by
  intro j x hj
  rw [Array.getElem?_setIfInBounds] at hj
  split at hj
  · split at hj
    · cases hj; exact hy
    · cases hj
  · exact h j x hj

theorem ArrAll.modify {α : Type} {P : α → Prop} {a : Array α} (h : ArrAll P a) (i : Nat) {f : α → α}
    (hf : ∀ x, a[i]? = some x → P x → P (f x)) : ArrAll P (a.modify i f) := by
  intro j x hj
  rw [Array.getElem?_modify] at hj
  split at hj
  · rename_i hij
    subst hij
    cases ha : a[i]? with
    | none => rw [ha] at hj; cases hj
    | some y => rw [ha] at hj; cases hj; exact hf y ha (h i y ha)
  · exact h j x hj

theorem ArrAll.get {α : Type} {P : α → Prop} {a : Array α} (h : ArrAll P a) {i : Nat} {x : α} (hx : a[i]? = some x) : P x :=
  h i x hx

structure BufOK (x : Buf) : Prop where
  conserve : x.level + x.getTotal = x.putTotal
  inCap : x.level ≤ x.cap

def BufInv (w : World) : Prop := ArrAll BufOK w.bufs

theorem BufInv.of_eq {w w' : World} (h : w'.bufs = w.bufs) (hi : BufInv w) : BufInv w' := by
  unfold BufInv; rw [h]; exact hi

@[simp] theorem arrAll_recordBuf (w : World) (b : Nat) : ArrAll BufOK (recordBuf w b).bufs ↔ ArrAll BufOK w.bufs := by
  unfold recordBuf
  split
  · split
    · rename_i x hx _
      constructor
      · intro h i y hy
        by_cases hi : b = i
        · subst hi
          have := h b _ (by
            rw [Array.set!_eq_setIfInBounds, Array.getElem?_setIfInBounds, if_pos rfl, if_pos]
            exact (Array.getElem?_eq_some_iff.1 hx).1)
          rw [hx] at hy; cases hy
          exact ⟨this.conserve, this.inCap⟩
        · exact h i y (by rw [Array.set!_eq_setIfInBounds, Array.getElem?_setIfInBounds, if_neg hi]; exact hy)
      · intro h
        rw [Array.set!_eq_setIfInBounds]
        exact ArrAll.set h b ⟨(h.get hx).conserve, (h.get hx).inCap⟩
    · exact Iff.rfl
  · exact Iff.rfl

theorem BufInv.recordBuf {w : World} (b : Nat) (h : BufInv w) : BufInv (recordBuf w b) :=
  (arrAll_recordBuf w b).2 h

theorem BufInv.bufGetLoop {w : World} (p : Pid) (b rem got : Nat) (h : BufInv w) : BufInv (bufGetLoop w p b rem got).1 := by
  unfold BufInv at *
  unfold Sim.bufGetLoop
  split
  · simpa using h
  · rename_i x hx
    have ok := h.get hx
    have c := ok.conserve
    have l := ok.inCap
    split
    · (repeat' split) <;> simp <;> (refine ArrAll.set h b ⟨?_, ?_⟩ <;> simp <;> omega)
    · split
      rename_i heq
      split at heq <;> cases heq <;> simp
      · refine ArrAll.set h b ⟨?_, ?_⟩ <;> simp <;> omega
      · exact h

theorem BufInv.bufPutLoop {w : World} (p : Pid) (b rem left : Nat) (h : BufInv w) : BufInv (bufPutLoop w p b rem left).1 := by
  unfold BufInv at *
  unfold Sim.bufPutLoop
  split
  · simpa using h
  · rename_i x hx
    have ok := h.get hx
    have c := ok.conserve
    have l := ok.inCap
    split
    · (repeat' split) <;> simp <;> (refine ArrAll.set h b ⟨?_, ?_⟩ <;> simp <;> omega)
    · split
      rename_i heq
      split at heq <;> cases heq <;> simp
      · refine ArrAll.set h b ⟨?_, ?_⟩ <;> simp <;> omega
      · exact h

theorem BufInv.setRecording {w : World} (kind idx : Nat) (on : Bool) (h : BufInv w) : BufInv (setRecording w kind idx on) := by
  by_cases hk : kind = 2
  · subst hk
    unfold Sim.setRecording
    dsimp only
    have hm : ∀ w : World, BufInv w → BufInv { w with bufs := w.bufs.modify idx fun x => { x with recording := on } } :=
      fun w hw => ArrAll.modify hw idx (fun x _ hx => ⟨hx.conserve, hx.inCap⟩)
    split
    · exact BufInv.recordBuf idx (hm w h)
    · exact hm _ (BufInv.recordBuf idx h)
  · refine BufInv.of_eq ((setRecording_fp w kind idx on).2.2.1 ?_) h
    unfold recMask
    split <;> simp_all

theorem BufInv.preserved : Preserved BufInv where
  same hs h := BufInv.of_eq hs.2.2.1 h
  tick _ h := h
  finish w p v st h := BufInv.of_eq (by simp) h
  clear w p f _ _ _ h := BufInv.of_eq (by simp) h
  exec w p c _ h := by
    by_cases hm : (cmdMask c).bufs = false
    · exact BufInv.of_eq ((execCmd_fp w p c).2.2.1 hm) h
    · cases c <;> simp [cmdMask] at hm
      case bufGet b n => simp only [execCmd]; split; exact h; exact BufInv.bufGetLoop _ _ _ _ h
      case bufPut b n => simp only [execCmd]; split; exact h; exact BufInv.bufPutLoop _ _ _ _ h
      case recStart kind idx => exact BufInv.setRecording _ _ _ h
      case recStop kind idx => exact BufInv.setRecording _ _ _ h
  resume w p f sig _ _ h := by
    by_cases hm : (frameMask f).bufs = false
    · exact BufInv.of_eq ((resumeFrame_fp w p f sig).2.2.1 hm) h
    · cases f <;> simp [frameMask] at hm
      case bufGet b rem got =>
        simp only [resumeFrame]
        split
        · exact h
        · split
          · exact BufInv.bufGetLoop _ _ _ _ (BufInv.of_eq (by simp) h)
          · exact BufInv.of_eq (by simp) h
      case bufPut b rem left =>
        simp only [resumeFrame]
        split
        · exact h
        · split
          · exact BufInv.bufPutLoop _ _ _ _ (BufInv.of_eq (by simp) h)
          · exact BufInv.of_eq (by simp) h

end CimbaModel.Sim
