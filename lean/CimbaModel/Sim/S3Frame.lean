/-
  S3 — basic frame lemmas of the process-layer model: what the atomic state transformers
  (`fail`, `emit`, `modProc`, `sched`, `setGuardQ`, `evCancel`, …) do to each component of a `World`.
  Everything lives in `CimbaModel.Sim.S3` so that it cannot clash with the lemma files of the other
  invariants.
-/
import CimbaModel.Sim.Run
import CimbaModel.Event.Lemmas
import Lean.Elab.Tactic

namespace CimbaModel.Sim.S3
open CimbaModel CimbaModel.Sim CimbaModel.Event CimbaModel.Generated
open CimbaModel.HashHeap (HTag Item Order HH)

/-- succeeds iff the last argument of the goal is syntactically a `World` record literal / update (`World.mk …`);
    used by the footprint tactics so that lemmas about record updates are not applied, through structure eta, to
    arbitrary terms -/
elab "guard_world_lit" : tactic => do
  let g ← Lean.Elab.Tactic.getMainGoal
  let t ← Lean.instantiateMVars (← g.getType)
  unless t.isApp && t.appArg!.isAppOf ``World.mk do
    throwError "the last argument of the goal is not a World literal"

/-! ### fail / emit -/

@[simp] theorem fail_ev (w : World) (m : String) : (w.fail m).ev = w.ev := by unfold World.fail; split <;> rfl
@[simp] theorem fail_evWaiters (w : World) (m : String) : (w.fail m).evWaiters = w.evWaiters := by unfold World.fail; split <;> rfl
@[simp] theorem fail_procs (w : World) (m : String) : (w.fail m).procs = w.procs := by unfold World.fail; split <;> rfl
@[simp] theorem fail_guards (w : World) (m : String) : (w.fail m).guards = w.guards := by unfold World.fail; split <;> rfl
@[simp] theorem fail_res (w : World) (m : String) : (w.fail m).res = w.res := by unfold World.fail; split <;> rfl
@[simp] theorem fail_pools (w : World) (m : String) : (w.fail m).pools = w.pools := by unfold World.fail; split <;> rfl
@[simp] theorem fail_bufs (w : World) (m : String) : (w.fail m).bufs = w.bufs := by unfold World.fail; split <;> rfl
@[simp] theorem fail_oqs (w : World) (m : String) : (w.fail m).oqs = w.oqs := by unfold World.fail; split <;> rfl
@[simp] theorem fail_pqs (w : World) (m : String) : (w.fail m).pqs = w.pqs := by unfold World.fail; split <;> rfl
@[simp] theorem fail_conds (w : World) (m : String) : (w.fail m).conds = w.conds := by unfold World.fail; split <;> rfl
@[simp] theorem fail_flags (w : World) (m : String) : (w.fail m).flags = w.flags := by unfold World.fail; split <;> rfl
@[simp] theorem fail_gvars (w : World) (m : String) : (w.fail m).gvars = w.gvars := by unfold World.fail; split <;> rfl
@[simp] theorem fail_log (w : World) (m : String) : (w.fail m).log = w.log := by unfold World.fail; split <;> rfl
@[simp] theorem fail_dispatched (w : World) (m : String) : (w.fail m).dispatched = w.dispatched := by unfold World.fail; split <;> rfl
@[simp] theorem fail_now (w : World) (m : String) : (w.fail m).now = w.now := by simp [World.now]
@[simp] theorem fail_proc (w : World) (m : String) (p : Pid) : (w.fail m).proc p = w.proc p := by simp [World.proc]

/-- a fault, once recorded, is never cleared -/
theorem fail_fault_none {w : World} {m : String} (h : (w.fail m).fault = none) : False := by
  unfold World.fail at h
  split at h
  · rename_i hs; rw [h] at hs; simp at hs
  · simp at h

theorem fail_fault_isSome (w : World) (m : String) : (w.fail m).fault.isSome = true := by
  cases h : (w.fail m).fault with
  | none => exact (fail_fault_none h).elim
  | some _ => rfl

@[simp] theorem emit_ev (w : World) (l : String) : (w.emit l).ev = w.ev := rfl
@[simp] theorem emit_evWaiters (w : World) (l : String) : (w.emit l).evWaiters = w.evWaiters := rfl
@[simp] theorem emit_procs (w : World) (l : String) : (w.emit l).procs = w.procs := rfl
@[simp] theorem emit_guards (w : World) (l : String) : (w.emit l).guards = w.guards := rfl
@[simp] theorem emit_res (w : World) (l : String) : (w.emit l).res = w.res := rfl
@[simp] theorem emit_pools (w : World) (l : String) : (w.emit l).pools = w.pools := rfl
@[simp] theorem emit_bufs (w : World) (l : String) : (w.emit l).bufs = w.bufs := rfl
@[simp] theorem emit_oqs (w : World) (l : String) : (w.emit l).oqs = w.oqs := rfl
@[simp] theorem emit_pqs (w : World) (l : String) : (w.emit l).pqs = w.pqs := rfl
@[simp] theorem emit_conds (w : World) (l : String) : (w.emit l).conds = w.conds := rfl
@[simp] theorem emit_flags (w : World) (l : String) : (w.emit l).flags = w.flags := rfl
@[simp] theorem emit_gvars (w : World) (l : String) : (w.emit l).gvars = w.gvars := rfl
@[simp] theorem emit_fault (w : World) (l : String) : (w.emit l).fault = w.fault := rfl
@[simp] theorem emit_dispatched (w : World) (l : String) : (w.emit l).dispatched = w.dispatched := rfl
@[simp] theorem emit_now (w : World) (l : String) : (w.emit l).now = w.now := rfl
@[simp] theorem emit_proc (w : World) (l : String) (p : Pid) : (w.emit l).proc p = w.proc p := rfl

/-! ### modProc -/

@[simp] theorem modProc_ev (w : World) (p : Pid) (f : Proc → Proc) : (w.modProc p f).ev = w.ev := rfl
@[simp] theorem modProc_evWaiters (w : World) (p : Pid) (f : Proc → Proc) : (w.modProc p f).evWaiters = w.evWaiters := rfl
@[simp] theorem modProc_guards (w : World) (p : Pid) (f : Proc → Proc) : (w.modProc p f).guards = w.guards := rfl
@[simp] theorem modProc_res (w : World) (p : Pid) (f : Proc → Proc) : (w.modProc p f).res = w.res := rfl
@[simp] theorem modProc_pools (w : World) (p : Pid) (f : Proc → Proc) : (w.modProc p f).pools = w.pools := rfl
@[simp] theorem modProc_bufs (w : World) (p : Pid) (f : Proc → Proc) : (w.modProc p f).bufs = w.bufs := rfl
@[simp] theorem modProc_oqs (w : World) (p : Pid) (f : Proc → Proc) : (w.modProc p f).oqs = w.oqs := rfl
@[simp] theorem modProc_pqs (w : World) (p : Pid) (f : Proc → Proc) : (w.modProc p f).pqs = w.pqs := rfl
@[simp] theorem modProc_conds (w : World) (p : Pid) (f : Proc → Proc) : (w.modProc p f).conds = w.conds := rfl
@[simp] theorem modProc_flags (w : World) (p : Pid) (f : Proc → Proc) : (w.modProc p f).flags = w.flags := rfl
@[simp] theorem modProc_gvars (w : World) (p : Pid) (f : Proc → Proc) : (w.modProc p f).gvars = w.gvars := rfl
@[simp] theorem modProc_log (w : World) (p : Pid) (f : Proc → Proc) : (w.modProc p f).log = w.log := rfl
@[simp] theorem modProc_fault (w : World) (p : Pid) (f : Proc → Proc) : (w.modProc p f).fault = w.fault := rfl
@[simp] theorem modProc_dispatched (w : World) (p : Pid) (f : Proc → Proc) : (w.modProc p f).dispatched = w.dispatched := rfl
@[simp] theorem modProc_now (w : World) (p : Pid) (f : Proc → Proc) : (w.modProc p f).now = w.now := rfl
@[simp] theorem modProc_procs_size (w : World) (p : Pid) (f : Proc → Proc) : (w.modProc p f).procs.size = w.procs.size := by
  simp [World.modProc]

/-- the process table after a modification: only an existing `p` changes -/
theorem modProc_proc (w : World) (p q : Pid) (f : Proc → Proc) :
    (w.modProc p f).proc q = if q = p ∧ p < w.procs.size then f (w.proc p) else w.proc q := by
  unfold World.modProc World.proc
  simp only [Array.getD_eq_getD_getElem?, Array.getElem?_modify]
  by_cases hq : q = p
  · subst hq
    by_cases hp : q < w.procs.size
    · simp [hp]
    · simp [hp]
  · have : ¬ p = q := fun h => hq h.symm
    simp [hq, this]

theorem modProc_proc_ne (w : World) {p q : Pid} (f : Proc → Proc) (h : q ≠ p) : (w.modProc p f).proc q = w.proc q := by
  rw [modProc_proc]; simp [h]

theorem modProc_proc_self (w : World) {p : Pid} (f : Proc → Proc) (h : p < w.procs.size) :
    (w.modProc p f).proc p = f (w.proc p) := by
  rw [modProc_proc]; simp [h]

/-- out-of-range processes read as the default record -/
theorem proc_oob (w : World) {p : Pid} (h : w.procs.size ≤ p) : w.proc p = {} := by
  unfold World.proc
  simp [Array.getD_eq_getD_getElem?, Array.getElem?_eq_none h]

/-! ### sched -/

/-- the event record a library wake-up is stored as -/
def mkEv (k act subj : Nat) (sig : Int) (t pri : Int) : HTag :=
  { key := k, item := ⟨act, subj, encSig sig, 0⟩, d := t, i := pri }

/-- the successful branch of `sched`: one more pending event, handle = counter + 1 -/
def pushEv (w : World) (act subj : Nat) (sig : Int) (t pri : Int) : World :=
  { w with ev := { w.ev with pending := mkEv (w.ev.counter + 1) act subj sig t pri :: w.ev.pending,
                             counter := w.ev.counter + 1 } }

theorem sched_ge (w : World) (act subj : Nat) (sig t pri : Int) (ht : w.now ≤ t) :
    sched w act subj sig t pri = (pushEv w act subj sig t pri, w.ev.counter + 1) := by
  unfold sched schedule pushEv mkEv World.now at *
  have : ¬ t < w.ev.now := by omega
  simp [this, KPQ.insert, KPQ.norm]

theorem sched_now (w : World) (act subj : Nat) (sig pri : Int) :
    sched w act subj sig w.now pri = (pushEv w act subj sig w.now pri, w.ev.counter + 1) :=
  sched_ge w act subj sig w.now pri (Int.le_refl _)

theorem sched_lt (w : World) (act subj : Nat) (sig t pri : Int) (ht : t < w.now) :
    ∃ m, sched w act subj sig t pri = (w.fail m, 0) := by
  unfold sched schedule World.now at *
  simp only [ht, if_true]
  exact ⟨_, rfl⟩

/-- `sched` either pushes one event or records a fault; in both cases only `ev` / `fault` can change -/
theorem sched_cases (w : World) (act subj : Nat) (sig t pri : Int) :
    (w.now ≤ t ∧ sched w act subj sig t pri = (pushEv w act subj sig t pri, w.ev.counter + 1)) ∨
    (t < w.now ∧ ∃ m, sched w act subj sig t pri = (w.fail m, 0)) := by
  by_cases h : w.now ≤ t
  · exact Or.inl ⟨h, sched_ge w act subj sig t pri h⟩
  · exact Or.inr ⟨by omega, sched_lt w act subj sig t pri (by omega)⟩

@[simp] theorem pushEv_evWaiters (w : World) (a s : Nat) (sig t pri : Int) : (pushEv w a s sig t pri).evWaiters = w.evWaiters := rfl
@[simp] theorem pushEv_procs (w : World) (a s : Nat) (sig t pri : Int) : (pushEv w a s sig t pri).procs = w.procs := rfl
@[simp] theorem pushEv_guards (w : World) (a s : Nat) (sig t pri : Int) : (pushEv w a s sig t pri).guards = w.guards := rfl
@[simp] theorem pushEv_res (w : World) (a s : Nat) (sig t pri : Int) : (pushEv w a s sig t pri).res = w.res := rfl
@[simp] theorem pushEv_pools (w : World) (a s : Nat) (sig t pri : Int) : (pushEv w a s sig t pri).pools = w.pools := rfl
@[simp] theorem pushEv_bufs (w : World) (a s : Nat) (sig t pri : Int) : (pushEv w a s sig t pri).bufs = w.bufs := rfl
@[simp] theorem pushEv_oqs (w : World) (a s : Nat) (sig t pri : Int) : (pushEv w a s sig t pri).oqs = w.oqs := rfl
@[simp] theorem pushEv_pqs (w : World) (a s : Nat) (sig t pri : Int) : (pushEv w a s sig t pri).pqs = w.pqs := rfl
@[simp] theorem pushEv_conds (w : World) (a s : Nat) (sig t pri : Int) : (pushEv w a s sig t pri).conds = w.conds := rfl
@[simp] theorem pushEv_flags (w : World) (a s : Nat) (sig t pri : Int) : (pushEv w a s sig t pri).flags = w.flags := rfl
@[simp] theorem pushEv_gvars (w : World) (a s : Nat) (sig t pri : Int) : (pushEv w a s sig t pri).gvars = w.gvars := rfl
@[simp] theorem pushEv_log (w : World) (a s : Nat) (sig t pri : Int) : (pushEv w a s sig t pri).log = w.log := rfl
@[simp] theorem pushEv_fault (w : World) (a s : Nat) (sig t pri : Int) : (pushEv w a s sig t pri).fault = w.fault := rfl
@[simp] theorem pushEv_dispatched (w : World) (a s : Nat) (sig t pri : Int) : (pushEv w a s sig t pri).dispatched = w.dispatched := rfl
@[simp] theorem pushEv_now (w : World) (a s : Nat) (sig t pri : Int) : (pushEv w a s sig t pri).now = w.now := rfl
@[simp] theorem pushEv_proc (w : World) (a s : Nat) (sig t pri : Int) (p : Pid) : (pushEv w a s sig t pri).proc p = w.proc p := rfl
@[simp] theorem pushEv_pending (w : World) (a s : Nat) (sig t pri : Int) :
    (pushEv w a s sig t pri).ev.pending = mkEv (w.ev.counter + 1) a s sig t pri :: w.ev.pending := rfl
@[simp] theorem pushEv_counter (w : World) (a s : Nat) (sig t pri : Int) : (pushEv w a s sig t pri).ev.counter = w.ev.counter + 1 := rfl
@[simp] theorem pushEv_ev_now (w : World) (a s : Nat) (sig t pri : Int) : (pushEv w a s sig t pri).ev.now = w.ev.now := rfl
@[simp] theorem pushEv_executed (w : World) (a s : Nat) (sig t pri : Int) : (pushEv w a s sig t pri).ev.executed = w.ev.executed := rfl
@[simp] theorem pushEv_cancelled (w : World) (a s : Nat) (sig t pri : Int) : (pushEv w a s sig t pri).ev.cancelled = w.ev.cancelled := rfl
@[simp] theorem pushEv_current (w : World) (a s : Nat) (sig t pri : Int) : (pushEv w a s sig t pri).ev.current = w.ev.current := rfl

/-- whatever happens, `sched` touches nothing but the event queue and the fault flag -/
theorem sched_frame (w : World) (act subj : Nat) (sig t pri : Int) :
    let w' := (sched w act subj sig t pri).1
    w'.evWaiters = w.evWaiters ∧ w'.procs = w.procs ∧ w'.guards = w.guards ∧ w'.res = w.res ∧ w'.pools = w.pools ∧
    w'.bufs = w.bufs ∧ w'.oqs = w.oqs ∧ w'.pqs = w.pqs ∧ w'.conds = w.conds ∧ w'.flags = w.flags ∧
    w'.gvars = w.gvars ∧ w'.dispatched = w.dispatched ∧ w'.now = w.now := by
  rcases sched_cases w act subj sig t pri with ⟨_, h⟩ | ⟨_, m, h⟩ <;> simp [h]

@[simp] theorem sched_evWaiters (w : World) (a s : Nat) (sig t pri : Int) : (sched w a s sig t pri).1.evWaiters = w.evWaiters := (sched_frame w a s sig t pri).1
@[simp] theorem sched_procs (w : World) (a s : Nat) (sig t pri : Int) : (sched w a s sig t pri).1.procs = w.procs := (sched_frame w a s sig t pri).2.1
@[simp] theorem sched_guards (w : World) (a s : Nat) (sig t pri : Int) : (sched w a s sig t pri).1.guards = w.guards := (sched_frame w a s sig t pri).2.2.1
@[simp] theorem sched_res (w : World) (a s : Nat) (sig t pri : Int) : (sched w a s sig t pri).1.res = w.res := (sched_frame w a s sig t pri).2.2.2.1
@[simp] theorem sched_pools (w : World) (a s : Nat) (sig t pri : Int) : (sched w a s sig t pri).1.pools = w.pools := (sched_frame w a s sig t pri).2.2.2.2.1
@[simp] theorem sched_bufs (w : World) (a s : Nat) (sig t pri : Int) : (sched w a s sig t pri).1.bufs = w.bufs := (sched_frame w a s sig t pri).2.2.2.2.2.1
@[simp] theorem sched_oqs (w : World) (a s : Nat) (sig t pri : Int) : (sched w a s sig t pri).1.oqs = w.oqs := (sched_frame w a s sig t pri).2.2.2.2.2.2.1
@[simp] theorem sched_pqs (w : World) (a s : Nat) (sig t pri : Int) : (sched w a s sig t pri).1.pqs = w.pqs := (sched_frame w a s sig t pri).2.2.2.2.2.2.2.1
@[simp] theorem sched_conds (w : World) (a s : Nat) (sig t pri : Int) : (sched w a s sig t pri).1.conds = w.conds := (sched_frame w a s sig t pri).2.2.2.2.2.2.2.2.1
@[simp] theorem sched_flags (w : World) (a s : Nat) (sig t pri : Int) : (sched w a s sig t pri).1.flags = w.flags := (sched_frame w a s sig t pri).2.2.2.2.2.2.2.2.2.1
@[simp] theorem sched_gvars (w : World) (a s : Nat) (sig t pri : Int) : (sched w a s sig t pri).1.gvars = w.gvars := (sched_frame w a s sig t pri).2.2.2.2.2.2.2.2.2.2.1
@[simp] theorem sched_dispatched (w : World) (a s : Nat) (sig t pri : Int) : (sched w a s sig t pri).1.dispatched = w.dispatched := (sched_frame w a s sig t pri).2.2.2.2.2.2.2.2.2.2.2.1
@[simp] theorem sched_now' (w : World) (a s : Nat) (sig t pri : Int) : (sched w a s sig t pri).1.now = w.now := (sched_frame w a s sig t pri).2.2.2.2.2.2.2.2.2.2.2.2
@[simp] theorem sched_proc (w : World) (a s : Nat) (sig t pri : Int) (p : Pid) : (sched w a s sig t pri).1.proc p = w.proc p := by
  simp [World.proc]

theorem sched_fault_none {w : World} {a s : Nat} {sig t pri : Int} (h : (sched w a s sig t pri).1.fault = none) :
    w.fault = none ∧ sched w a s sig t pri = (pushEv w a s sig t pri, w.ev.counter + 1) := by
  rcases sched_cases w a s sig t pri with ⟨_, h'⟩ | ⟨_, m, h'⟩
  · rw [h'] at h; exact ⟨h, h'⟩
  · rw [h'] at h; exact (fail_fault_none h).elim

/-! ### setGuardQ -/

@[simp] theorem setGuardQ_ev (w : World) (g : Nat) (q : HH) : (setGuardQ w g q).ev = w.ev := rfl
@[simp] theorem setGuardQ_evWaiters (w : World) (g : Nat) (q : HH) : (setGuardQ w g q).evWaiters = w.evWaiters := rfl
@[simp] theorem setGuardQ_procs (w : World) (g : Nat) (q : HH) : (setGuardQ w g q).procs = w.procs := rfl
@[simp] theorem setGuardQ_res (w : World) (g : Nat) (q : HH) : (setGuardQ w g q).res = w.res := rfl
@[simp] theorem setGuardQ_pools (w : World) (g : Nat) (q : HH) : (setGuardQ w g q).pools = w.pools := rfl
@[simp] theorem setGuardQ_bufs (w : World) (g : Nat) (q : HH) : (setGuardQ w g q).bufs = w.bufs := rfl
@[simp] theorem setGuardQ_oqs (w : World) (g : Nat) (q : HH) : (setGuardQ w g q).oqs = w.oqs := rfl
@[simp] theorem setGuardQ_pqs (w : World) (g : Nat) (q : HH) : (setGuardQ w g q).pqs = w.pqs := rfl
@[simp] theorem setGuardQ_conds (w : World) (g : Nat) (q : HH) : (setGuardQ w g q).conds = w.conds := rfl
@[simp] theorem setGuardQ_flags (w : World) (g : Nat) (q : HH) : (setGuardQ w g q).flags = w.flags := rfl
@[simp] theorem setGuardQ_gvars (w : World) (g : Nat) (q : HH) : (setGuardQ w g q).gvars = w.gvars := rfl
@[simp] theorem setGuardQ_log (w : World) (g : Nat) (q : HH) : (setGuardQ w g q).log = w.log := rfl
@[simp] theorem setGuardQ_fault (w : World) (g : Nat) (q : HH) : (setGuardQ w g q).fault = w.fault := rfl
@[simp] theorem setGuardQ_dispatched (w : World) (g : Nat) (q : HH) : (setGuardQ w g q).dispatched = w.dispatched := rfl
@[simp] theorem setGuardQ_now (w : World) (g : Nat) (q : HH) : (setGuardQ w g q).now = w.now := rfl
@[simp] theorem setGuardQ_proc (w : World) (g : Nat) (q : HH) (p : Pid) : (setGuardQ w g q).proc p = w.proc p := rfl

theorem setGuardQ_guards_get (w : World) (g g' : Nat) (q : HH) :
    (setGuardQ w g q).guards[g']? = if g' = g then (w.guards[g]?).map (fun gd => { gd with q := q }) else w.guards[g']? := by
  unfold setGuardQ
  simp only [Array.getElem?_modify]
  by_cases h : g' = g
  · subst h; simp
  · have : ¬ g = g' := fun e => h e.symm
    simp [h, this]

@[simp] theorem setGuardQ_guards_size (w : World) (g : Nat) (q : HH) : (setGuardQ w g q).guards.size = w.guards.size := by
  simp [setGuardQ]

/-- demand evaluation only looks at the objects and the flags -/
theorem evalDemand_congr {w w' : World} (hr : w'.res = w.res) (hp : w'.pools = w.pools) (hb : w'.bufs = w.bufs)
    (ho : w'.oqs = w.oqs) (hq : w'.pqs = w.pqs) (hf : w'.flags = w.flags) (d : Demand) :
    evalDemand w' d = evalDemand w d := by
  unfold evalDemand
  rw [hr, hp, hb, ho, hq, hf]

end CimbaModel.Sim.S3
