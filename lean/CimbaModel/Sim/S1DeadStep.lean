/-
  S1 — `DeadRec` (the record of a finished process stays empty) is preserved by every command,
  every resumption and every dispatched event; a running process stays running until it ends.
-/
import CimbaModel.Sim.S1Dead

namespace CimbaModel.Sim
open CimbaModel CimbaModel.Event CimbaModel.Generated
open CimbaModel.HashHeap (HTag Item Order HH)

section
variable (w : World) (p : Pid) (r : Nat)
proc_frame acquireStep : (acquireStep w p r).1 ~ w keeps prio status waiters pc script vars exitVal
  by (unfold acquireStep; frame_close)
end

theorem finishProc_status (w : World) (z : Pid) (val : Int) (stopped : Bool) (q : Pid) :
    ((finishProc w z val stopped).proc q).status = if q = z ∧ z < w.procs.size then .finished else (w.proc q).status := by
  rw [finishProc_eq, proc_modProc]
  have hsz : (wakeWaiters (finishMid w z stopped) z (if stopped then sigStopped else sigSuccess)).procs.size = w.procs.size := by
    unfold finishMid; split <;> simp
  rw [hsz]
  split
  · rfl
  · unfold finishMid; split <;> simp

set_option maxHeartbeats 1000000 in
theorem execCmd_status (w : World) (p : Pid) (c : Cmd) (q : Pid)
    (h1 : ∀ z v, c ≠ .stop z v) (h2 : ∀ v, c ≠ .exit v) :
    ((execCmd w p c).1.proc q).status = (w.proc q).status := by
  cases c
  case stop z v => exact absurd rfl (h1 z v)
  case exit v => exact absurd rfl (h2 v)
  case prioSet z v =>
    simp only [execCmd]
    split
    · rfl
    · dsimp only
      fold_proc; fold_proc; frame_close
  all_goals simp only [execCmd]
  all_goals frame_close

@[simp] theorem modProc_status_keep (w : World) (z : Pid) (f : Proc → Proc) (q : Pid)
    (hf : ∀ x, (f x).status = x.status) : ((w.modProc z f).proc q).status = (w.proc q).status :=
  modProc_field Proc.status w z f hf q

/-- peel a composition of primitives and library calls from the outside in, down to `h : DeadRecA p w`;
    the numeral bounds the depth -/
syntax "dra_peel2 " ident num : tactic
open Lean in
macro_rules
  | `(tactic| dra_peel2 $h $n) => do
    if n.getNat = 0 then `(tactic| fail "dra_peel2: out of fuel")
    else
      let m := Syntax.mkNumLit (toString (n.getNat - 1))
      `(tactic| first
          | with_reducible exact $h
          | (with_reducible first
              | apply dra_acquireStep
              | apply dra_poolLoop
              | apply dra_poolMug
              | apply dra_poolRollback
              | apply dra_bufGetLoop
              | apply dra_bufPutLoop
              | apply dra_oqGetLoop
              | apply dra_oqPutLoop
              | apply dra_pqGetLoop
              | apply dra_pqPutLoop
              | apply dra_fail
              | apply dra_emit
              | apply dra_setGuardQ
              | apply dra_setPoolInUse
              | apply dra_sched
              | apply dra_wakeEventWaiters
              | apply dra_evCancel
              | apply dra_cancelAllFor
              | apply dra_cancelUserAll
              | apply dra_cancelKindFor
              | apply dra_recordRes
              | apply dra_recordPool
              | apply dra_recordBuf
              | apply dra_recordOQ
              | apply dra_recordPQ
              | apply dra_guardRemove
              | apply dra_guardSignal
              | apply dra_signal
              | apply dra_guardWithdraw
              | apply dra_poolDropHolder
              | apply dra_setHeldAmount
              | apply dra_condSignal
              | apply dra_setRecording
              | apply dra_addAwait
              | apply dra_block
              | apply dra_timerAdd
              | apply dra_guardWaitEnter
              | apply dra_grab
              | apply dra_poolUpdateRecord
              | apply dra_removeAwait
              | apply dra_removeAwaitKind
              | apply dra_removeHeld
              | apply dra_setVar
              | apply dra_timerCancel
              | apply dra_timersClear
              | apply dra_cancelAwaiteds
              | apply dra_wakeWaiters
              | apply dra_dropResources
              | apply dra_guardWaitLeave
              | apply dra_mk
            ) <;> dra_peel2 $h $m
          | (split <;> dra_peel2 $h $m))

section
variable (w : World) (p : Pid) (f : Frame) (sig : Int)
proc_frame resumeFrame : (resumeFrame w p f sig).1 ~ w keeps prio status pc script exitVal
  by (cases f <;> simp only [resumeFrame] <;> frame_close)
end

theorem running_ne_finished {x : Proc} (h : x.status = .running) : x.status ≠ .finished := by
  rw [h]; decide

set_option maxHeartbeats 1000000 in
/-- every command other than `stop` / `exit` keeps `DeadRec` and the caller alive -/
theorem dra_execCmd {p : Pid} {w : World} (h : DeadRecA p w) (c : Cmd)
    (h1 : ∀ z v, c ≠ .stop z v) (h2 : ∀ v, c ≠ .exit v) : DeadRecA p (execCmd w p c).1 := by
  cases c
  case stop z v => exact absurd rfl (h1 z v)
  case exit v => exact absurd rfl (h2 v)
  case prioSet z v =>
    simp only [execCmd]
    split
    · exact h
    · dsimp only
      have h0 : DeadRecA p (w.modProc z fun y => { y with prio := v }) :=
        ⟨dr_modProc_shrink h.1 z _ ⟨rfl, fun e => e, fun e => e, fun e => e, fun e => e⟩,
         by simpa using h.2⟩
      apply foldl_inv (DeadRecA p)
      · intro w a hw; dra_peel2 hw 30
      · apply foldl_inv (DeadRecA p)
        · intro w a hw; dra_peel2 hw 30
        · exact h0
  case waitProc z =>
    simp only [execCmd]
    split
    · exact h
    · split
      · exact h
      · rename_i hz
        apply dra_block
        have ha := dra_addAwait h (.proc z)
        refine ⟨dr_modProc_waiters ha.1 z _ (by simpa using hz) (fun _ => ⟨rfl, rfl, rfl, rfl⟩), ?_⟩
        simpa using ha.2
  case timerAddOf z d sig =>
    simp only [execCmd]
    split
    · exact h
    · rename_i hz
      have hz' : (w.proc z).status = .running := by simpa [isRunning] using hz
      exact ⟨dr_timerAdd h.1 z d sig hz', by simpa using h.2⟩
  all_goals simp only [execCmd]
  all_goals dra_peel2 h 30

/-- **every command keeps `DeadRec`** when executed by a running process -/
theorem dr_execCmd {w : World} (h : DeadRec w) (p : Pid) (hrun : (w.proc p).status = .running) (c : Cmd) :
    DeadRec (execCmd w p c).1 := by
  by_cases h1 : ∃ z v, c = .stop z v
  · obtain ⟨z, v, rfl⟩ := h1
    simp only [execCmd]
    split
    · exact dr_finishProc h p v true
    · split
      · exact dr_finishProc h z v true
      · exact h
  · by_cases h2 : ∃ v, c = .exit v
    · obtain ⟨v, rfl⟩ := h2
      exact dr_finishProc h p v false
    · exact (dra_execCmd ⟨h, hrun⟩ c (fun z v e => h1 ⟨z, v, e⟩) (fun v e => h2 ⟨v, e⟩)).1

/-- a command that does not end the caller leaves it running -/
theorem execCmd_running (w : World) (p : Pid) (hrun : (w.proc p).status = .running) (c : Cmd)
    (hne : ∀ w', execCmd w p c ≠ (w', .ended)) : ((execCmd w p c).1.proc p).status = .running := by
  by_cases h1 : ∃ z v, c = .stop z v
  · obtain ⟨z, v, rfl⟩ := h1
    by_cases hz : z = p
    · subst hz
      exact absurd (by simp only [execCmd, if_true]) (hne (finishProc w z v true))
    · simp only [execCmd, hz, if_false]
      split
      · rw [finishProc_status]
        have : ¬ p = z := fun e => hz e.symm
        simp [this, hrun]
      · exact hrun
  · by_cases h2 : ∃ v, c = .exit v
    · obtain ⟨v, rfl⟩ := h2
      exact absurd (by simp only [execCmd]) (hne (finishProc w p v false))
    · rw [execCmd_status w p c p (fun z v e => h1 ⟨z, v, e⟩) (fun v e => h2 ⟨v, e⟩)]; exact hrun

theorem dra_resumeFrame {p : Pid} {w : World} (h : DeadRecA p w) (f : Frame) (sig : Int) :
    DeadRecA p (resumeFrame w p f sig).1 := by
  cases f
  case waitProc z =>
    simp only [resumeFrame]
    split
    · split
      · refine ⟨dr_modProc_shrink (dr_removeAwait h.1 p _) z _ ⟨rfl, fun e => e, fun e => e, ?_, fun e => e⟩, ?_⟩
        · intro e; dsimp only; rw [e]; rfl
        · simpa using h.2
      · dra_peel2 h 30
    · dra_peel2 h 30
  all_goals simp only [resumeFrame]
  all_goals dra_peel2 h 30

theorem dr_runScript : ∀ (fuel : Nat) {w : World}, DeadRec w → ∀ p,
    (p < w.procs.size → (w.proc p).status = .running) → DeadRec (runScript fuel w p) := by
  intro fuel
  induction fuel with
  | zero => intro w h p _; unfold runScript; exact h.of_procs (by simp)
  | succ n ih =>
    intro w h p hrun
    unfold runScript
    dsimp only
    split
    · exact dr_finishProc (h.of_procs (by simp)) p 0 false
    · rename_i c text hc
      have hrun := hrun (lt_np_of_script w p _ _ hc)
      have h1 : DeadRec (w.emit s!"c {p} {(w.proc p).pc} {w.now} {text}") := h.of_procs (by simp)
      have hr1 : ((w.emit s!"c {p} {(w.proc p).pc} {w.now} {text}").proc p).status = .running := by simpa using hrun
      have h2 := dr_execCmd h1 p hr1 c
      have h3 := execCmd_running _ p hr1 c
      split
      · rename_i w2 v extra heq
        rw [heq] at h2 h3
        have hr2 : (w2.proc p).status = .running := h3 (by intro w' e; cases e)
        refine ih (dr_modProc_shrink (h2.of_procs (by simp)) p _ ⟨rfl, fun e => e, fun e => e, fun e => e, fun e => e⟩) p ?_
        intro _; simpa using hr2
      · rename_i w2 heq
        rw [heq] at h2 h3
        have hr2 : (w2.proc p).status = .running := h3 (by intro w' e; cases e)
        refine ih (dr_modProc_shrink (h2.of_procs (by simp)) p _ ⟨rfl, fun e => e, fun e => e, fun e => e, fun e => e⟩) p ?_
        intro _; simpa using hr2
      · rename_i w2 heq
        rw [heq] at h2
        exact h2
      · rename_i w2 heq
        rw [heq] at h2
        split <;> exact h2.of_procs (by simp)

theorem dr_resumeProc {w : World} (h : DeadRec w) (p : Pid) (sig : Int) : DeadRec (resumeProc w p sig) := by
  unfold resumeProc
  dsimp only
  split
  · exact h.of_procs (by simp)
  · rename_i hrun
    have hrun : (w.proc p).status = .running := Classical.not_not.1 hrun
    split
    · exact h.of_procs (by simp)
    · rename_i f hf
      have h1 : DeadRecA p (w.modProc p fun y => { y with blocked := none }) :=
        ⟨dr_modProc_shrink h p _ ⟨rfl, fun e => e, fun e => e, fun e => e, fun _ => rfl⟩,
         by simpa using hrun⟩
      have hs1 : ((w.modProc p fun y => { y with blocked := none }).proc p).status = .running := by
        simpa using hrun
      have h2 := dra_resumeFrame h1 f sig
      split
      · rename_i w2 v extra heq
        have hs2 : (w2.proc p).status = .running := by
          have := resumeFrame_status (w.modProc p fun y => { y with blocked := none }) p f sig p
          rw [heq] at this; rw [this]; exact hs1
        rw [heq] at h2
        refine dr_runScript _ (dr_modProc_shrink (h2.1.of_procs (by simp)) p _
          ⟨rfl, fun e => e, fun e => e, fun e => e, fun e => e⟩) p ?_
        intro _; simpa using hs2
      all_goals (rename_i w2 heq; rw [heq] at h2; exact h2.1)

theorem dr_modProc_to_alive {w : World} (h : DeadRec w) (z : Pid) (g : Proc → Proc)
    (hg : ∀ x, (g x).status = .running) : DeadRec (w.modProc z g) := by
  intro p hp
  rw [proc_modProc] at hp ⊢
  split at hp
  · exact absurd (hg _) hp
  · rename_i c; rw [if_neg c]; exact h p hp

/-- **every dispatched event keeps `DeadRec`** -/
theorem dr_dispatch {w w' : World} (h : DeadRec w) (hd : dispatch w = some w') : DeadRec w' := by
  unfold dispatch at hd
  split at hd
  · cases hd
  · rename_i t ev' hex
    dsimp only at hd
    injection hd with hd
    subst hd
    have h0 : DeadRec (wakeEventWaiters
        { w with ev := ev', dispatched := w.dispatched + 1, evWaiters := (popWaiters w.evWaiters t.key).2 }
        (popWaiters w.evWaiters t.key).1 sigSuccess) := h.of_procs (by simp)
    split
    · split
      · exact h0.of_procs (by simp)
      · refine dr_runScript _ (dr_modProc_to_alive h0 _ _ (fun x => rfl)) _ ?_
        intro hlt
        rw [proc_modProc_self _ _ _ (by simpa using hlt)]
    · split
      · exact dr_resumeProc (dr_removeAwait h0 _ _) _ _
      · split
        · split
          · exact dr_resumeProc (dr_removeAwaitKind h0 _ _) _ _
          · exact dr_removeAwaitKind h0 _ _
        · split
          · split
            · exact dr_resumeProc (dr_removeAwaitKind h0 _ _) _ _
            · exact dr_removeAwaitKind h0 _ _
          · split
            · split
              · exact dr_resumeProc h0 _ _
              · exact h0
            · split
              · split
                · exact dr_resumeProc (dr_removeAwaitKind h0 _ _) _ _
                · exact dr_removeAwaitKind h0 _ _
              · split
                · exact dr_resumeProc (dr_cancelAwaiteds h0 _) _ _
                · split
                  · exact dr_resumeProc h0 _ _
                  · exact h0

theorem dr_runAll : ∀ (fuel : Nat) {w : World}, DeadRec w → DeadRec (runAll fuel w) := by
  intro fuel
  induction fuel with
  | zero => intro w h; unfold runAll; exact h.of_procs (by simp)
  | succ n ih =>
    intro w h
    unfold runAll
    split
    · exact h
    · split
      · exact h
      · rename_i w' hd
        exact ih (dr_dispatch h hd)

/-- **a finished process never executes**: the interpreter only runs a process through `resumeProc`, which refuses a
    process that is not running (it records a fault and changes nothing else), or through a start event -/
theorem resumeProc_not_running (w : World) (p : Pid) (sig : Int) (h : (w.proc p).status ≠ .running) :
    resumeProc w p sig = w.fail s!"resume of a process that is not running: {p}" := by
  unfold resumeProc; simp [h]

end CimbaModel.Sim
