/-
  S3 — `GInv`, part 9: all commands and all resumptions.
-/
import CimbaModel.Sim.S3GInvFinish

namespace CimbaModel.Sim.S3
open CimbaModel CimbaModel.Sim CimbaModel.Event CimbaModel.Generated CimbaModel.KPQ
open CimbaModel.HashHeap (HTag Item Order HH WF abs liveTags)

/-- the documented precondition on signal values: a timer, resume or interrupt signal is not (congruent to) SUCCESS -/
def CmdOk : Cmd → Prop
  | .timerAdd _ _ sig => encSig sig ≠ 0
  | .timerSet _ _ sig => encSig sig ≠ 0
  | .resume _ sig => sig = 0 ∨ encSig sig ≠ 0
  | .interrupt _ sig _ => sig = 0 ∨ encSig sig ≠ 0
  | _ => True

/-- every command of every script satisfies it -/
def ScriptsOk (w : World) : Prop := ∀ (p : Pid) (i : Nat) (c : Cmd) (t : String), (w.proc p).script[i]? = some (c, t) → CmdOk c

theorem ScriptsOk.ofStat {w w' : World} (h : ScriptsOk w) (hs : Stat w w') : ScriptsOk w' := by
  intro p i c t hc; rw [hs.script] at hc; exact h p i c t hc

macro_rules | `(tactic| ginv_step) => `(tactic| with_reducible apply GInv.wakeWaiters)
macro_rules | `(tactic| ginv_step) => `(tactic| with_reducible apply GInv.timersClear)
macro_rules | `(tactic| ginv_step) => `(tactic| with_reducible apply GInv.timerCancel_fst)
macro_rules | `(tactic| ginv_step) => `(tactic| (with_reducible refine GInv.removeAwait_other ?_ _ _ rfl))
macro_rules | `(tactic| ginv_step) => `(tactic| (with_reducible refine GInv.addAwait_other ?_ _ _ rfl))
macro_rules | `(tactic| ginv_step) => `(tactic| (with_reducible refine GInv.finishProc ?_ _ _ _ (noEx_not _)))
macro_rules | `(tactic| ginv_step) => `(tactic| (with_reducible refine (GInv.cancelAwaiteds ?_ _ (noEx_not _)).1))
macro_rules | `(tactic| ginv_step) => `(tactic| (with_reducible refine GInv.block_fst ?_ _ _ (noEx_not _) (by assumption)))

variable {fr : Pid → Option Frame} {w : World} {p : Pid}

theorem GInv.execCmd_ex (hp : GInv noEx fr w) (hfr : fr p = none) (hlt : p < w.procs.size) (hsep : CondSep w) (c : Cmd)
    (hok : CmdOk c) : ∃ fr', GInv noEx fr' (execCmd w p c).1 := by
  have hst := Stat.refl w
  cases c with
  | hold d => exact ⟨_, hp.cmd_hold d (noEx_not p) hfr hlt⟩
  | timerAdd v d sig =>
    simp only [Sim.execCmd]
    refine ⟨fr, ?_⟩
    have := hp.timerAdd_fst p d sig hok
    ginv
  | timerSet v d sig =>
    simp only [Sim.execCmd]
    refine ⟨fr, ?_⟩
    have := (hp.timersClear p).timerAdd_fst p d sig hok
    ginv
  | resume q sig =>
    simp only [Sim.execCmd]
    split
    · exact ⟨fr, hp⟩
    · rename_i hn
      have hs0 : sig ≠ 0 := fun h => hn (Or.inr h)
      have hne : encSig sig ≠ 0 := by rcases hok with h | h; exact absurd h hs0; exact h
      exact ⟨fr, hp.sched_harmless _ _ _ _ _ ⟨by decide, fun h => absurd h (by decide), fun h => absurd h hne⟩⟩
  | interrupt q sig pri =>
    simp only [Sim.execCmd]
    split
    · exact ⟨fr, hp⟩
    · rename_i hn
      have hs0 : sig ≠ 0 := fun h => hn (Or.inr h)
      have hne : encSig sig ≠ 0 := by rcases hok with h | h; exact absurd h hs0; exact h
      exact ⟨fr, hp.sched_harmless _ _ _ _ _ ⟨by decide, fun h => absurd h (by decide), fun h => absurd h hne⟩⟩
  | prioSet q v =>
    by_cases hq : q < w.procs.size
    · rw [prioSet_eq w p q v hq]
      dsimp only
      refine ⟨fr, ?_⟩
      refine GInv.foldl (fun w x h => h.prioHeldStep q v x) _ ?_
      refine GInv.foldl (fun w x h => h.prioAwaitStep q v x) _ ?_
      ginv
    · have : q ≥ w.procs.size := Nat.le_of_not_lt hq
      simp only [Sim.execCmd, this, if_true]
      exact ⟨fr, hp⟩
  | acquire r => simp only [Sim.execCmd]; exact hp.acquireStep_ex hfr hlt hsep r
  | preempt r =>
    simp only [Sim.execCmd]
    repeat' split
    all_goals first | exact hp.acquireStep_ex hfr hlt hsep r | ginv_leaf
  | poolAcquire pl n =>
    simp only [Sim.execCmd]
    repeat' split
    all_goals first | exact hp.poolLoop_ex hfr hlt hsep _ _ _ _ | ginv_leaf
  | poolPreempt pl n =>
    simp only [Sim.execCmd]
    repeat' split
    all_goals first | exact hp.poolLoop_ex hfr hlt hsep _ _ _ _ | ginv_leaf
  | bufGet b n =>
    simp only [Sim.execCmd]; split
    · exact ⟨fr, hp⟩
    · exact hp.bufGetLoop_ex hfr hlt hsep _ _ _
  | bufPut b n =>
    simp only [Sim.execCmd]; split
    · exact ⟨fr, hp⟩
    · exact hp.bufPutLoop_ex hfr hlt hsep _ _ _
  | oqGet q =>
    simp only [Sim.execCmd]; split
    · exact ⟨fr, hp⟩
    · exact hp.oqGetLoop_ex hfr hlt hsep _
  | oqPut q obj =>
    simp only [Sim.execCmd]; split
    · exact ⟨fr, hp⟩
    · exact hp.oqPutLoop_ex hfr hlt hsep _ _
  | pqGet k =>
    simp only [Sim.execCmd]; split
    · exact ⟨fr, hp⟩
    · exact hp.pqGetLoop_ex hfr hlt hsep _
  | pqPut k obj pri v =>
    simp only [Sim.execCmd]; split
    · exact ⟨fr, hp⟩
    · exact hp.pqPutLoop_ex hfr hlt hsep _ _ _ _
  | condWait c kind a b =>
    simp only [Sim.execCmd]
    split
    · exact ⟨fr, hp⟩
    · ginv_block hfr hlt hsep
  | condSignal c =>
    simp only [Sim.execCmd]
    split
    · exact ⟨fr, hp⟩
    · rename_i g hg
      exact ⟨fr, hp.condSignal_fst g ⟨c, hg⟩⟩
  | _ => simp only [Sim.execCmd] <;> ((repeat' split) <;> ginv_leaf)

end CimbaModel.Sim.S3
