/-
  S3 — `GInv`, part 9: all commands and all resumptions.
-/
import CimbaModel.Sim.S3GInvFinish

namespace CimbaModel.Sim.S3
open CimbaModel CimbaModel.Sim CimbaModel.Event CimbaModel.Generated CimbaModel.KPQ
open CimbaModel.HashHeap (HTag Item Order HH WF abs liveTags)

/-- the documented precondition on signal values: a timer, resume or interrupt signal is not (congruent to) SUCCESS -/
def CmdOk : Cmd → Prop
  | .timerAdd _ _ sig => encSig sig ≠ 0
  | .timerSet _ _ sig => encSig sig ≠ 0
  | .timerAddOf _ _ sig => encSig sig ≠ 0
  | .resume _ sig => sig = 0 ∨ encSig sig ≠ 0
  | .interrupt _ sig _ => sig = 0 ∨ encSig sig ≠ 0
  | _ => True

/-- every command of every script satisfies it -/
def ScriptsOk (w : World) : Prop := ∀ (p : Pid) (i : Nat) (c : Cmd) (t : String), (w.proc p).script[i]? = some (c, t) → CmdOk c

theorem ScriptsOk.ofStat {w w' : World} (h : ScriptsOk w) (hs : Stat w w') : ScriptsOk w' := by
  intro p i c t hc; rw [hs.script] at hc; exact h p i c t hc

macro_rules | `(tactic| ginv_step) => `(tactic| with_reducible apply GInv.wakeWaiters)
macro_rules | `(tactic| ginv_step) => `(tactic| with_reducible apply GInv.timersClear)
macro_rules | `(tactic| ginv_step) => `(tactic| with_reducible apply GInv.timerCancel_fst)
macro_rules | `(tactic| ginv_step) => `(tactic| (with_reducible refine GInv.removeAwait_other ?_ _ _ rfl))
macro_rules | `(tactic| ginv_step) => `(tactic| (with_reducible refine GInv.addAwait_other ?_ _ _ rfl))
macro_rules | `(tactic| ginv_step) => `(tactic| (with_reducible refine GInv.finishProc ?_ _ _ _ (noEx_not _)))
macro_rules | `(tactic| ginv_step) => `(tactic| (with_reducible refine (GInv.cancelAwaiteds ?_ _ (noEx_not _)).1))
macro_rules | `(tactic| ginv_step) => `(tactic| (with_reducible refine GInv.block_fst ?_ _ _ (noEx_not _) (by assumption)))

variable {fr : Pid → Option Frame} {w : World} {p : Pid}

theorem GInv.execCmd_ex (hp : GInv noEx fr w) (hfr : fr p = none) (hlt : p < w.procs.size) (hsep : CondSep w) (c : Cmd)
    (hok : CmdOk c) : ∃ fr', GInv noEx fr' (execCmd w p c).1 := by
  have hst := Stat.refl w
  cases c with
  | hold d => exact ⟨_, hp.cmd_hold d (noEx_not p) hfr hlt⟩
  | timerAdd v d sig =>
    simp only [Sim.execCmd]
    refine ⟨fr, ?_⟩
    have := hp.timerAdd_fst p d sig hok
    ginv
  | timerSet v d sig =>
    simp only [Sim.execCmd]
    refine ⟨fr, ?_⟩
    have := (hp.timersClear p).timerAdd_fst p d sig hok
    ginv
  | timerAddOf q d sig =>
    simp only [Sim.execCmd]
    split
    · exact ⟨fr, hp⟩
    · exact ⟨fr, hp.timerAdd_fst q d sig hok⟩
  | resume q sig =>
    simp only [Sim.execCmd]
    split
    · exact ⟨fr, hp⟩
    · rename_i hn
      have hs0 : sig ≠ 0 := fun h => hn (Or.inr h)
      have hne : encSig sig ≠ 0 := by rcases hok with h | h; exact absurd h hs0; exact h
      exact ⟨fr, hp.sched_harmless _ _ _ _ _ ⟨by decide, fun h => absurd h (by decide), fun h => absurd h hne⟩⟩
  | interrupt q sig pri =>
    simp only [Sim.execCmd]
    split
    · exact ⟨fr, hp⟩
    · rename_i hn
      have hs0 : sig ≠ 0 := fun h => hn (Or.inr h)
      have hne : encSig sig ≠ 0 := by rcases hok with h | h; exact absurd h hs0; exact h
      exact ⟨fr, hp.sched_harmless _ _ _ _ _ ⟨by decide, fun h => absurd h (by decide), fun h => absurd h hne⟩⟩
  | prioSet q v =>
    by_cases hq : q < w.procs.size
    · rw [prioSet_eq w p q v hq]
      dsimp only
      refine ⟨fr, ?_⟩
      refine GInv.foldl (fun w x h => h.prioHeldStep q v x) _ ?_
      refine GInv.foldl (fun w x h => h.prioAwaitStep q v x) _ ?_
      ginv
    · have : q ≥ w.procs.size := Nat.le_of_not_lt hq
      simp only [Sim.execCmd, this, if_true]
      exact ⟨fr, hp⟩
  | acquire r => simp only [Sim.execCmd]; exact hp.acquireStep_ex hfr hlt hsep r
  | preempt r =>
    simp only [Sim.execCmd]
    repeat' split
    all_goals first | exact hp.acquireStep_ex hfr hlt hsep r | ginv_leaf
  | poolAcquire pl n =>
    simp only [Sim.execCmd]
    repeat' split
    all_goals first | exact hp.poolLoop_ex hfr hlt hsep _ _ _ _ | ginv_leaf
  | poolPreempt pl n =>
    simp only [Sim.execCmd]
    repeat' split
    all_goals first | exact hp.poolLoop_ex hfr hlt hsep _ _ _ _ | ginv_leaf
  | bufGet b n =>
    simp only [Sim.execCmd]; split
    · exact ⟨fr, hp⟩
    · exact hp.bufGetLoop_ex hfr hlt hsep _ _ _
  | bufPut b n =>
    simp only [Sim.execCmd]; split
    · exact ⟨fr, hp⟩
    · exact hp.bufPutLoop_ex hfr hlt hsep _ _ _
  | oqGet q =>
    simp only [Sim.execCmd]; split
    · exact ⟨fr, hp⟩
    · exact hp.oqGetLoop_ex hfr hlt hsep _
  | oqPut q obj =>
    simp only [Sim.execCmd]; split
    · exact ⟨fr, hp⟩
    · exact hp.oqPutLoop_ex hfr hlt hsep _ _
  | pqGet k =>
    simp only [Sim.execCmd]; split
    · exact ⟨fr, hp⟩
    · exact hp.pqGetLoop_ex hfr hlt hsep _
  | pqPut k obj pri v =>
    simp only [Sim.execCmd]; split
    · exact ⟨fr, hp⟩
    · exact hp.pqPutLoop_ex hfr hlt hsep _ _ _ _
  | condWait c kind a b =>
    simp only [Sim.execCmd]
    split
    · exact ⟨fr, hp⟩
    · ginv_block hfr hlt hsep
  | condSignal c =>
    simp only [Sim.execCmd]
    split
    · exact ⟨fr, hp⟩
    · rename_i g hg
      exact ⟨fr, hp.condSignal_fst g ⟨c, hg⟩⟩
  | _ => simp only [Sim.execCmd] <;> ((repeat' split) <;> ginv_leaf)


/-! ### resumptions -/

/-- nothing that could be mistaken for the SUCCESS wake-up of a guard wait or hold of `p` is pending, and `p` is not
    queued on the guard it awaits: the situation in which a SUCCESS resumption is legitimate -/
structure Quiet (w : World) (p : Pid) : Prop where
  ng : ∀ e ∈ w.ev.pending, isGrant e → e.item.b ≠ p + 1
  nt : ∀ e ∈ w.ev.pending, e.item.a = aTime → e.item.c = 0 → e.item.b ≠ p + 1
  nq : ∀ g, Await.guard g ∈ (w.proc p).awaits → ¬ queued w g (p + 1)

theorem GInv.quiet_guard (hp : GInv noEx fr w) {f : Frame} {g : Nat} (hfr : fr p = some f) (hon : FrameOn w f g) {sig : Int}
    (hq : sig = sigSuccess → Quiet w p) :
    sig = sigSuccess → (∀ e ∈ w.ev.pending, isGrant e → e.item.b ≠ p + 1) ∧ ¬ queued w g (p + 1) := by
  intro hs
  obtain ⟨h1, _, h3⟩ := hq hs
  refine ⟨h1, fun hqq => ?_⟩
  have := (hp.gk g _ hqq).2.2 (noEx_not _)
  simp only [Nat.add_sub_cancel] at this
  exact h3 g this hqq

/-- a suspended process whose frame names no existing guard has no RESOURCE awaitable; clearing its recorded frame is
    harmless -/
theorem GInv.clearBlocked_clean (hp : GInv noEx fr w) (haw : guardAw w p = []) (hnh : ∀ h, fr p ≠ some (.hold h)) :
    GInv noEx fr (w.modProc p fun y => { y with blocked := none }) :=
  hp.modBlocked p none (Or.inr (Or.inr (hp.clean_of_aw (noEx_not p) haw hnh)))

theorem GInv.aw_nil_of_noFrame (hp : GInv noEx fr w) {f : Frame} (hfr : fr p = some f) (hno : ∀ g, ¬ FrameOn w f g) :
    guardAw w p = [] := by
  rcases hp.ga p with h | ⟨g, f', h1, h2, _⟩
  · exact h
  · rw [hfr] at h1; cases h1; exact absurd h2 (hno g)

theorem stat_leave (w : World) (p : Pid) (g : Nat) (sig : Int) :
    Stat w (guardWaitLeave (w.modProc p fun y => { y with blocked := none }) g p sig) := by
  have h := Stat.refl w
  stat

theorem GInv.resume_ex (hp : GInv noEx fr w) {f : Frame} (hfr : fr p = some f) (hlt : p < w.procs.size) (hsep : CondSep w)
    (sig : Int) (hq : sig = sigSuccess → Quiet w p) :
    ∃ fr', GInv noEx fr' (resumeFrame (w.modProc p fun y => { y with blocked := none }) p f sig).1 := by
  have hx := noEx_not p
  have hres : (w.modProc p fun y => { y with blocked := none }).res = w.res := rfl
  cases f with
  | hold h => exact ⟨_, hp.resume_hold hx hfr sig (fun hs => (hq hs).nt)⟩
  | yield =>
    have hA := hp.clearBlocked_clean (hp.aw_nil_of_noFrame hfr (fun g h => h.elim)) (fun h hh => by rw [hfr] at hh; cases hh)
    exact ⟨fr, by simpa [resumeFrame] using hA⟩
  | waitProc q =>
    have hA := hp.clearBlocked_clean (hp.aw_nil_of_noFrame hfr (fun g h => h.elim)) (fun h hh => by rw [hfr] at hh; cases hh)
    simp only [resumeFrame]
    (repeat' split) <;> ginv_leaf
  | waitEvent k =>
    have hA := hp.clearBlocked_clean (hp.aw_nil_of_noFrame hfr (fun g h => h.elim)) (fun h hh => by rw [hfr] at hh; cases hh)
    simp only [resumeFrame]
    (repeat' split) <;> ginv_leaf
  | acquire r =>
    simp only [resumeFrame]
    split
    · rename_i hn
      have hn' : w.res[r]? = none := hn
      refine ⟨fr, hp.clearBlocked_clean (hp.aw_nil_of_noFrame hfr (fun g h => ?_)) (fun h hh => by rw [hfr] at hh; cases hh)⟩
      simp [FrameOn, hn'] at h
    · rename_i x hx'
      have hx'' : w.res[r]? = some x := hx'
      have hon : FrameOn w (.acquire r) x.guard := by simp [FrameOn, hx'', resStat]
      have h1 := hp.left_plain hx hfr hon (fun c h => by cases h) sig (hp.quiet_guard hfr hon hq)
      have hs := stat_leave w p x.guard sig
      split
      · exact h1.acquireStep_ex (setFrame_self _ _ _) (by rw [hs.psize]; exact hlt) (hsep.ofStat hs) r
      · exact ⟨_, h1⟩
  | pool pl rem ini pre =>
    simp only [resumeFrame]
    split
    · rename_i hn
      have hn' : w.pools[pl]? = none := hn
      refine ⟨fr, hp.clearBlocked_clean (hp.aw_nil_of_noFrame hfr (fun g h => ?_)) (fun h hh => by rw [hfr] at hh; cases hh)⟩
      simp [FrameOn, hn'] at h
    · rename_i x hx'
      have hx'' : w.pools[pl]? = some x := hx'
      have hon : FrameOn w (.pool pl rem ini pre) x.guard := by simp [FrameOn, hx'', poolStat]
      have h1 := hp.left_plain hx hfr hon (fun c h => by cases h) sig (hp.quiet_guard hfr hon hq)
      have hs := stat_leave w p x.guard sig
      split
      · exact ⟨_, h1.poolRollback p pl ini⟩
      · exact h1.poolLoop_ex (setFrame_self _ _ _) (by rw [hs.psize]; exact hlt) (hsep.ofStat hs) _ _ _ _
  | bufGet b rem got =>
    simp only [resumeFrame]
    split
    · rename_i hn
      have hn' : w.bufs[b]? = none := hn
      refine ⟨fr, hp.clearBlocked_clean (hp.aw_nil_of_noFrame hfr (fun g h => ?_)) (fun h hh => by rw [hfr] at hh; cases hh)⟩
      simp [FrameOn, hn'] at h
    · rename_i x hx'
      have hx'' : w.bufs[b]? = some x := hx'
      have hon : FrameOn w (.bufGet b rem got) x.front := by simp [FrameOn, hx'', bufStat]
      have h1 := hp.left_plain hx hfr hon (fun c h => by cases h) sig (hp.quiet_guard hfr hon hq)
      have hs := stat_leave w p x.front sig
      split
      · exact h1.bufGetLoop_ex (setFrame_self _ _ _) (by rw [hs.psize]; exact hlt) (hsep.ofStat hs) _ _ _
      · exact ⟨_, h1⟩
  | bufPut b rem left =>
    simp only [resumeFrame]
    split
    · rename_i hn
      have hn' : w.bufs[b]? = none := hn
      refine ⟨fr, hp.clearBlocked_clean (hp.aw_nil_of_noFrame hfr (fun g h => ?_)) (fun h hh => by rw [hfr] at hh; cases hh)⟩
      simp [FrameOn, hn'] at h
    · rename_i x hx'
      have hx'' : w.bufs[b]? = some x := hx'
      have hon : FrameOn w (.bufPut b rem left) x.rear := by simp [FrameOn, hx'', bufStat]
      have h1 := hp.left_plain hx hfr hon (fun c h => by cases h) sig (hp.quiet_guard hfr hon hq)
      have hs := stat_leave w p x.rear sig
      split
      · exact h1.bufPutLoop_ex (setFrame_self _ _ _) (by rw [hs.psize]; exact hlt) (hsep.ofStat hs) _ _ _
      · exact ⟨_, h1⟩
  | oqGet q =>
    simp only [resumeFrame]
    split
    · rename_i hn
      have hn' : w.oqs[q]? = none := hn
      refine ⟨fr, hp.clearBlocked_clean (hp.aw_nil_of_noFrame hfr (fun g h => ?_)) (fun h hh => by rw [hfr] at hh; cases hh)⟩
      simp [FrameOn, hn'] at h
    · rename_i x hx'
      have hx'' : w.oqs[q]? = some x := hx'
      have hon : FrameOn w (.oqGet q) x.front := by simp [FrameOn, hx'', oqStat]
      have h1 := hp.left_plain hx hfr hon (fun c h => by cases h) sig (hp.quiet_guard hfr hon hq)
      have hs := stat_leave w p x.front sig
      split
      · exact h1.oqGetLoop_ex (setFrame_self _ _ _) (by rw [hs.psize]; exact hlt) (hsep.ofStat hs) _
      · exact ⟨_, h1⟩
  | oqPut q obj =>
    simp only [resumeFrame]
    split
    · rename_i hn
      have hn' : w.oqs[q]? = none := hn
      refine ⟨fr, hp.clearBlocked_clean (hp.aw_nil_of_noFrame hfr (fun g h => ?_)) (fun h hh => by rw [hfr] at hh; cases hh)⟩
      simp [FrameOn, hn'] at h
    · rename_i x hx'
      have hx'' : w.oqs[q]? = some x := hx'
      have hon : FrameOn w (.oqPut q obj) x.rear := by simp [FrameOn, hx'', oqStat]
      have h1 := hp.left_plain hx hfr hon (fun c h => by cases h) sig (hp.quiet_guard hfr hon hq)
      have hs := stat_leave w p x.rear sig
      split
      · exact h1.oqPutLoop_ex (setFrame_self _ _ _) (by rw [hs.psize]; exact hlt) (hsep.ofStat hs) _ _
      · exact ⟨_, h1⟩
  | pqGet k =>
    simp only [resumeFrame]
    split
    · rename_i hn
      have hn' : w.pqs[k]? = none := hn
      refine ⟨fr, hp.clearBlocked_clean (hp.aw_nil_of_noFrame hfr (fun g h => ?_)) (fun h hh => by rw [hfr] at hh; cases hh)⟩
      simp [FrameOn, hn'] at h
    · rename_i x hx'
      have hx'' : w.pqs[k]? = some x := hx'
      have hon : FrameOn w (.pqGet k) x.front := by simp [FrameOn, hx'', pqStat]
      have h1 := hp.left_plain hx hfr hon (fun c h => by cases h) sig (hp.quiet_guard hfr hon hq)
      have hs := stat_leave w p x.front sig
      split
      · exact h1.pqGetLoop_ex (setFrame_self _ _ _) (by rw [hs.psize]; exact hlt) (hsep.ofStat hs) _
      · exact ⟨_, h1⟩
  | pqPut k obj pri v =>
    simp only [resumeFrame]
    split
    · rename_i hn
      have hn' : w.pqs[k]? = none := hn
      refine ⟨fr, hp.clearBlocked_clean (hp.aw_nil_of_noFrame hfr (fun g h => ?_)) (fun h hh => by rw [hfr] at hh; cases hh)⟩
      simp [FrameOn, hn'] at h
    · rename_i x hx'
      have hx'' : w.pqs[k]? = some x := hx'
      have hon : FrameOn w (.pqPut k obj pri v) x.rear := by simp [FrameOn, hx'', pqStat]
      have h1 := hp.left_plain hx hfr hon (fun c h => by cases h) sig (hp.quiet_guard hfr hon hq)
      have hs := stat_leave w p x.rear sig
      split
      · exact h1.pqPutLoop_ex (setFrame_self _ _ _) (by rw [hs.psize]; exact hlt) (hsep.ofStat hs) _ _ _ _
      · exact ⟨_, h1⟩
  | condWait c =>
    simp only [resumeFrame]
    split
    · rename_i hn
      have hn' : w.conds[c]? = none := hn
      refine ⟨fr, hp.clearBlocked_clean (hp.aw_nil_of_noFrame hfr (fun g h => ?_)) (fun h hh => by rw [hfr] at hh; cases hh)⟩
      simp [FrameOn, hn'] at h
    · rename_i g hg
      have hg' : w.conds[c]? = some g := hg
      exact ⟨_, hp.left_cond hx hfr hg' sig (hp.quiet_guard hfr (f := .condWait c) hg' hq)⟩

end CimbaModel.Sim.S3
