/-
  S3 — what the hashheap operations do to `count`, without any well-formedness hypothesis (the object priority queues
  are not covered by the guard invariants).
-/
import CimbaModel.HashHeap.Model

namespace CimbaModel.Sim.S3
open CimbaModel CimbaModel.HashHeap

theorem bind_ok {ε α β : Type} {x : Except ε α} {f : α → Except ε β} {b : β} (h : (x >>= f) = .ok b) :
    ∃ a, x = .ok a ∧ f a = .ok b := by
  cases x with
  | error e => cases h
  | ok a => exact ⟨a, rfl, h⟩

theorem heapUp_count {lt : Order} {s s' : HH} {k : Nat} (h : heapUp lt s k = .ok s') : s'.count = s.count := by
  unfold heapUp at h
  obtain ⟨_, _, h⟩ := bind_ok h
  obtain ⟨_, _, h⟩ := bind_ok h
  obtain ⟨⟨_, _, _⟩, _, h⟩ := bind_ok h
  obtain ⟨_, _, h⟩ := bind_ok h
  obtain ⟨_, _, h⟩ := bind_ok h
  obtain ⟨_, _, h⟩ := bind_ok h
  cases h; rfl

theorem heapDown_count {lt : Order} {s s' : HH} {k : Nat} (h : heapDown lt s k = .ok s') : s'.count = s.count := by
  unfold heapDown at h
  obtain ⟨_, _, h⟩ := bind_ok h
  obtain ⟨_, _, h⟩ := bind_ok h
  obtain ⟨⟨_, _, _⟩, _, h⟩ := bind_ok h
  obtain ⟨_, _, h⟩ := bind_ok h
  obtain ⟨_, _, h⟩ := bind_ok h
  obtain ⟨_, _, h⟩ := bind_ok h
  cases h; rfl

theorem reprioritize_count {lt : Order} {s s' : HH} {key : Nat} {d i : Int} (h : reprioritize lt s key d i = .ok s') :
    s'.count = s.count := by
  unfold reprioritize at h
  split at h
  · cases h
  · obtain ⟨hi, _, h⟩ := bind_ok h
    split at h
    · cases h
    · obtain ⟨_, _, h⟩ := bind_ok h
      obtain ⟨_, _, h⟩ := bind_ok h
      obtain ⟨_, _, h⟩ := bind_ok h
      split at h
      · exact (heapDown_count h).trans rfl
      · exact (heapUp_count h).trans rfl

theorem dequeue_count {lt : Order} {s s' : HH} {t : HTag} (h : dequeue lt s = .ok (s', some t)) : s'.count + 1 = s.count := by
  unfold dequeue at h
  split at h
  · cases h
  · rename_i hc
    obtain ⟨_, _, h⟩ := bind_ok h
    obtain ⟨_, _, h⟩ := bind_ok h
    obtain ⟨_, _, h⟩ := bind_ok h
    split at h
    · obtain ⟨_, _, h⟩ := bind_ok h
      obtain ⟨_, _, h⟩ := bind_ok h
      obtain ⟨_, _, h⟩ := bind_ok h
      obtain ⟨s2, h2, h⟩ := bind_ok h
      simp only [pure, Except.pure, Except.ok.injEq, Prod.mk.injEq] at h
      obtain ⟨rfl, _⟩ := h
      split at h2
      · rw [heapDown_count h2]; show s.count - 1 + 1 = s.count; omega
      · cases h2; show s.count - 1 + 1 = s.count; omega
    · simp only [pure, Except.pure, Except.ok.injEq, Prod.mk.injEq] at h
      obtain ⟨rfl, _⟩ := h
      show 0 + 1 = s.count; omega

theorem dequeue_none {lt : Order} {s s' : HH} (h : dequeue lt s = .ok (s', none)) : s.count = 0 := by
  unfold dequeue at h
  split at h
  · assumption
  · obtain ⟨_, _, h⟩ := bind_ok h
    obtain ⟨_, _, h⟩ := bind_ok h
    obtain ⟨_, _, h⟩ := bind_ok h
    split at h
    · obtain ⟨_, _, h⟩ := bind_ok h
      obtain ⟨_, _, h⟩ := bind_ok h
      obtain ⟨_, _, h⟩ := bind_ok h
      obtain ⟨s2, h2, h⟩ := bind_ok h
      simp [pure, Except.pure] at h
    · simp [pure, Except.pure] at h

theorem remove_count {lt : Order} {s s' : HH} {key : Nat} {r : Bool} (h : remove lt s key = .ok (s', r)) :
    s'.count + (if r then 1 else 0) = s.count ∧ (r = true → 0 < s.count) := by
  unfold remove at h
  split at h
  · cases h
  · split at h
    · cases h; simp
    · rename_i hc
      obtain ⟨hi, _, h⟩ := bind_ok h
      split at h
      · cases h; simp
      · obtain ⟨_, _, h⟩ := bind_ok h
        obtain ⟨_, _, h⟩ := bind_ok h
        split at h
        · simp only [pure, Except.pure, Except.ok.injEq, Prod.mk.injEq] at h
          obtain ⟨rfl, rfl⟩ := h
          exact ⟨by show s.count - 1 + 1 = s.count; omega, fun _ => by omega⟩
        · obtain ⟨_, _, h⟩ := bind_ok h
          obtain ⟨_, _, h⟩ := bind_ok h
          obtain ⟨_, _, h⟩ := bind_ok h
          obtain ⟨s2, h2, h⟩ := bind_ok h
          simp only [pure, Except.pure, Except.ok.injEq, Prod.mk.injEq] at h
          obtain ⟨rfl, rfl⟩ := h
          refine ⟨?_, fun _ => by omega⟩
          split at h2
          · rw [heapDown_count h2]; show s.count - 1 + 1 = s.count; omega
          · rw [heapUp_count h2]; show s.count - 1 + 1 = s.count; omega

theorem grow_count {s s' : HH} (h : grow s = .ok s') : s'.count = s.count := by
  unfold grow at h
  split at h
  · cases h
  · obtain ⟨⟨_, _⟩, _, h⟩ := bind_ok h
    cases h; rfl

theorem enqueue_count {lt : Order} {s s' : HH} {it : Item} {key k' : Nat} {d i : Int}
    (h : enqueue lt s it key d i = .ok (s', k')) : s'.count = s.count + 1 := by
  unfold enqueue at h
  split at h
  · cases h
  · obtain ⟨s1, h1, h⟩ := bind_ok h
    have hc1 : s1.count = s.count := by
      split at h1
      · exact grow_count h1
      · cases h1; rfl
    obtain ⟨_, _, h⟩ := bind_ok h
    obtain ⟨_, _, h⟩ := bind_ok h
    obtain ⟨_, _, h⟩ := bind_ok h
    obtain ⟨_, _, h⟩ := bind_ok h
    obtain ⟨s2, h2, h⟩ := bind_ok h
    simp only [pure, Except.pure, Except.ok.injEq, Prod.mk.injEq] at h
    obtain ⟨rfl, _⟩ := h
    rw [heapUp_count h2]
    show s1.count + 1 = s.count + 1
    rw [hc1]

end CimbaModel.Sim.S3
