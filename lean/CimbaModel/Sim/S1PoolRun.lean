/-
  S1 — the pool-holder invariant `PInv` through every command, resumption, dispatch and the run loop.
-/
import CimbaModel.Sim.S1Pool

namespace CimbaModel.Sim
open CimbaModel CimbaModel.Event CimbaModel.Generated
open CimbaModel.HashHeap (HTag Item Order HH WF)

set_option maxHeartbeats 1000000 in
theorem pinv_execCmd {w : World} (h : PInv w) (p : Pid) (hp : p < w.procs.size) (c : Cmd) : PInv (execCmd w p c).1 := by
  cases c
  case prioSet q v => exact pinv_prioSet h p q v
  case poolRelease pl n => exact pinv_poolRelease h p pl n
  case preempt r =>
    simp only [execCmd]
    split
    · exact h
    · split
      · exact h
      · split
        · exact pinv_recordRes (pinv_grab h _ _) _
        · split
          · dsimp only
            apply pinv_grab
            apply pinv_sched
            refine PInv.of_same (w := cancelAwaiteds (removeHeld w _ (.res r)).1 _) ?_ (fun pl => rfl)
              (fun q pl hm => hm) rfl
            exact pinv_cancelAwaiteds (pinv_removeHeld_res h _ _) _
          · exact pinv_acquireStep h _ _
  case release r =>
    simp only [execCmd]
    split
    · exact h
    · split
      · exact h
      · apply pinv_signal
        apply pinv_recordRes
        refine PInv.of_same (w := (removeHeld w p (.res r)).1) (pinv_removeHeld_res h _ _) (fun pl => rfl)
          (fun q pl hm => hm) rfl
  case waitProc q =>
    simp only [execCmd]
    split
    · exact h
    · split
      · exact h
      · apply pinv_block
        exact (pinv_addAwait h p (.proc q)).of_same (fun pl => rfl) (fun q' pl hm => by simpa using hm)
  case waitEvent v =>
    simp only [execCmd]
    split
    · exact h
    · apply pinv_block
      apply pinv_addAwait
      exact pinv_frame h rfl rfl
  case condCancel c q =>
    simp only [execCmd]
    split
    · exact h
    · split
      · exact h
      · dsimp only
        split
        · exact pinv_sched (pinv_guardRemove h _ _) _ _ _ _ _
        · exact pinv_guardRemove h _ _
  all_goals simp only [execCmd]
  all_goals pinv_peel h hp 14

theorem pinv_modProc_keep {w : World} (h : PInv w) (z : Pid) (f : Proc → Proc) (hf : ∀ x, (f x).held = x.held) :
    PInv (w.modProc z f) :=
  h.of_same (fun pl => rfl) (fun q pl hm => by rw [modProc_held_keep _ _ _ _ hf]; exact hm)

set_option maxHeartbeats 1000000 in
theorem pinv_resumeFrame {w : World} (h : PInv w) (p : Pid) (hp : p < w.procs.size) (f : Frame) (sig : Int) :
    PInv (resumeFrame w p f sig).1 := by
  cases f
  case waitProc q =>
    simp only [resumeFrame]
    split
    · split
      · refine pinv_modProc_keep (pinv_removeAwait h _ _) _ _ ?_; intro; rfl
      · dsimp only; exact pinv_cancelKindFor (pinv_removeAwait h _ _) _ _ _
    · exact pinv_removeAwait h _ _
  case waitEvent v =>
    simp only [resumeFrame]
    split
    · split
      · exact pinv_frame (pinv_removeAwait h p (.event v)) rfl rfl
      · dsimp only; exact pinv_cancelKindFor (pinv_removeAwait h _ _) _ _ _
    · exact pinv_removeAwait h _ _
  all_goals simp only [resumeFrame]
  all_goals pinv_peel h hp 14

theorem pinv_runScript : ∀ (fuel : Nat) {w : World}, PInv w → ∀ p, PInv (runScript fuel w p) := by
  intro fuel
  induction fuel with
  | zero => intro w h p; unfold runScript; exact pinv_fail h _
  | succ n ih =>
    intro w h p
    unfold runScript
    dsimp only
    split
    · exact pinv_finishProc (pinv_emit h _) p 0 false
    · rename_i c text hc
      have hp : p < w.procs.size := lt_np_of_script w p _ _ hc
      have h2 := pinv_execCmd (pinv_emit h s!"c {p} {(w.proc p).pc} {w.now} {text}") p (by simpa using hp) c
      split
      · rename_i w2 v extra heq
        rw [heq] at h2
        refine ih (pinv_modProc_keep (pinv_emit h2 _) _ _ ?_) p; intro; rfl
      · rename_i w2 heq
        rw [heq] at h2
        refine ih (pinv_modProc_keep (pinv_emit h2 _) _ _ ?_) p; intro; rfl
      · rename_i w2 heq
        rw [heq] at h2
        exact h2
      · rename_i w2 heq
        rw [heq] at h2
        split <;> exact pinv_emit h2 _

theorem pinv_resumeProc {w : World} (h : PInv w) (p : Pid) (sig : Int) : PInv (resumeProc w p sig) := by
  unfold resumeProc
  dsimp only
  split
  · exact pinv_fail h _
  · rename_i hrun
    have hp : p < w.procs.size := lt_np_of_status w p (by
      intro e; apply hrun; rw [e]; decide)
    split
    · exact pinv_fail h _
    · rename_i f hf
      have h2 := pinv_resumeFrame (pinv_modProc_keep h p (fun y => { y with blocked := none }) (fun _ => rfl)) p
        (by simpa using hp) f sig
      split
      · rename_i w2 v extra heq
        rw [heq] at h2
        refine pinv_runScript _ (pinv_modProc_keep (pinv_emit h2 _) _ _ ?_) p; intro; rfl
      all_goals (rename_i w2 heq; rw [heq] at h2; exact h2)

/-- **every dispatched event keeps the pool-holder invariant** -/
theorem pinv_dispatch {w w' : World} (h : PInv w) (hd : dispatch w = some w') : PInv w' := by
  cases hex : executeNext w.ev with
  | none => unfold dispatch at hd; simp [hex] at hd
  | some x =>
    obtain ⟨t, ev'⟩ := x
    rw [dispatch_eq w t ev' hex] at hd
    injection hd with hd
    subst hd
    have h1 : PInv (afterPop w t ev') := by
      unfold afterPop
      exact pinv_wakeEventWaiters (w := { w with ev := ev', dispatched := w.dispatched + 1, evWaiters := (popWaiters w.evWaiters t.key).2 }) (pinv_frame h rfl rfl) _ _
    split
    · split
      · exact pinv_fail h1 _
      · refine pinv_runScript _ (pinv_modProc_keep h1 _ _ ?_) _; intro; rfl
    · split
      · exact pinv_resumeProc (pinv_removeAwait h1 _ _) _ _
      · split
        · split
          · exact pinv_resumeProc (pinv_removeAwaitKind h1 _ _) _ _
          · exact pinv_removeAwaitKind h1 _ _
        · split
          · split
            · exact pinv_resumeProc (pinv_removeAwaitKind h1 _ _) _ _
            · exact pinv_removeAwaitKind h1 _ _
          · split
            · split
              · exact pinv_resumeProc h1 _ _
              · exact h1
            · split
              · split
                · exact pinv_resumeProc (pinv_removeAwaitKind h1 _ _) _ _
                · exact pinv_removeAwaitKind h1 _ _
              · split
                · exact pinv_resumeProc (pinv_cancelAwaiteds h1 _) _ _
                · split
                  · exact pinv_resumeProc h1 _ _
                  · exact h1

theorem pinv_runAll : ∀ (fuel : Nat) {w : World}, PInv w → PInv (runAll fuel w) := by
  intro fuel
  induction fuel with
  | zero => intro w h; unfold runAll; exact pinv_emit h _
  | succ n ih =>
    intro w h
    unfold runAll
    split
    · exact h
    · split
      · exact h
      · rename_i w' hd
        exact ih (pinv_dispatch h hd)

end CimbaModel.Sim
