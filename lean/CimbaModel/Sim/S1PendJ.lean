/-
  S1 — the transport lemmas of S1Pend for predicates that tolerate every wake-up except the interrupt
  (`AllButIntr`); the mugging loop of the pools, which schedules interrupts, is not covered here.
  Generated from the `AllButProc` family by renaming.
-/
import CimbaModel.Sim.S1Pend

namespace CimbaModel.Sim
open CimbaModel CimbaModel.Event CimbaModel.Generated
open CimbaModel.HashHeap (HTag Item Order HH)

/-- every action kind except the interrupt is allowed -/
structure AllButIntr (A : Nat → Bool) : Prop where
  start : A aStart = true
  time : A aTime = true
  proc : A aProc = true
  event : A aEvent = true
  res : A aRes = true
  preempt : A aPreempt = true
  cond : A aCond = true
  resume : A aResume = true
  user : A aUser = true

/-- close `R w'` from `h : R w` through any composition of library steps that never wakes the waiters of a process
    end; the numeral bounds the depth -/
syntax "ej_peel " term:max term:max term:max num : tactic
open Lean in
macro_rules
  | `(tactic| ej_peel $hR $hA $h $n) => do
    if n.getNat = 0 then `(tactic| fail "ej_peel: out of fuel")
    else
      let m := Syntax.mkNumLit (toString (n.getNat - 1))
      `(tactic| first
          | with_reducible exact $h
          | (with_reducible first
              | apply ec_fail $hR
              | apply ec_wakeEventWaiters $hR (AllButIntr.event $hA)
              | apply ec_evCancel $hR (AllButIntr.event $hA)
              | apply ec_cancelAllFor $hR (AllButIntr.event $hA)
              | apply ec_cancelKindFor $hR (AllButIntr.event $hA)
              | apply ec_cancelUserAll $hR (AllButIntr.event $hA)
              | apply ec_guardSignal $hR (And.intro (AllButIntr.res $hA) (AllButIntr.cond $hA))
              | apply ec_signal $hR (And.intro (AllButIntr.res $hA) (AllButIntr.cond $hA))
              | apply ec_guardWithdraw $hR (AllButIntr.event $hA) (And.intro (AllButIntr.res $hA) (AllButIntr.cond $hA))
              | apply ec_timerAdd $hR (AllButIntr.time $hA)
              | apply ec_timerCancel $hR (AllButIntr.event $hA)
              | apply ec_timersClear $hR (AllButIntr.event $hA)
              | apply ec_cancelAwaiteds $hR (AllButIntr.event $hA) (And.intro (AllButIntr.res $hA) (AllButIntr.cond $hA))
              | apply ec_poolDropHolder $hR (And.intro (AllButIntr.res $hA) (AllButIntr.cond $hA))
              | apply ec_dropResources $hR (And.intro (AllButIntr.res $hA) (AllButIntr.cond $hA))
              | apply ec_guardWaitEnter $hR
              | apply ec_guardWaitLeave $hR (AllButIntr.event $hA) (And.intro (AllButIntr.res $hA) (AllButIntr.cond $hA))
              | apply ec_wakeWaiters $hR (AllButIntr.proc $hA)
              | apply ec_emit $hR
              | apply ec_modProc $hR
              | apply ec_setGuardQ $hR
              | apply ec_setPoolInUse $hR
              | apply ec_recordRes $hR
              | apply ec_recordPool $hR
              | apply ec_recordBuf $hR
              | apply ec_recordOQ $hR
              | apply ec_recordPQ $hR
              | apply ec_guardRemove $hR
              | apply ec_setHeldAmount $hR
              | apply ec_setRecording $hR
              | apply ec_addAwait $hR
              | apply ec_removeAwait $hR
              | apply ec_removeAwaitKind $hR
              | apply ec_removeHeld $hR
              | apply ec_block $hR
              | apply ec_setVar $hR
              | apply ec_grab $hR
              | apply ec_poolUpdateRecord $hR
              | apply EvClosed.sched $hR _ _ _ _ _ _ (AllButIntr.start $hA)
              | apply EvClosed.sched $hR _ _ _ _ _ _ (AllButIntr.time $hA)
              | apply EvClosed.sched $hR _ _ _ _ _ _ (AllButIntr.event $hA)
              | apply EvClosed.sched $hR _ _ _ _ _ _ (AllButIntr.res $hA)
              | apply EvClosed.sched $hR _ _ _ _ _ _ (AllButIntr.preempt $hA)
              | apply EvClosed.sched $hR _ _ _ _ _ _ (AllButIntr.cond $hA)
              | apply EvClosed.sched $hR _ _ _ _ _ _ (AllButIntr.proc $hA)
              | apply EvClosed.sched $hR _ _ _ _ _ _ (AllButIntr.resume $hA)
              | apply EvClosed.sched $hR _ _ _ _ _ _ (AllButIntr.user $hA)
              | apply ec_mk $hR
            ) <;> ej_peel $hR $hA $h $m
          | (split <;> ej_peel $hR $hA $h $m))

section
variable {A : Nat → Bool} {R : World → Prop} (hR : EvClosed A R) (hA : AllButIntr A)
include hR hA

theorem ej_poolRollback (w : World) (p : Pid) (pl initially : Nat) (h : R w) : R (poolRollback w p pl initially) := by
  unfold poolRollback; dsimp only; ej_peel hR hA h 30

theorem ej_bufGetLoop (w : World) (p : Pid) (b rem got : Nat) (h : R w) : R (bufGetLoop w p b rem got).1 := by
  unfold bufGetLoop; dsimp only; ej_peel hR hA h 30

theorem ej_bufPutLoop (w : World) (p : Pid) (b rem left : Nat) (h : R w) : R (bufPutLoop w p b rem left).1 := by
  unfold bufPutLoop; dsimp only; ej_peel hR hA h 30

theorem ej_oqGetLoop (w : World) (p : Pid) (q : Nat) (h : R w) : R (oqGetLoop w p q).1 := by
  unfold oqGetLoop; dsimp only; ej_peel hR hA h 30

theorem ej_oqPutLoop (w : World) (p : Pid) (q obj : Nat) (h : R w) : R (oqPutLoop w p q obj).1 := by
  unfold oqPutLoop; dsimp only; ej_peel hR hA h 30

theorem ej_pqGetLoop (w : World) (p : Pid) (k : Nat) (h : R w) : R (pqGetLoop w p k).1 := by
  unfold pqGetLoop; dsimp only; ej_peel hR hA h 30

theorem ej_pqPutLoop (w : World) (p : Pid) (k obj : Nat) (pri : Int) (v : Nat) (h : R w) :
    R (pqPutLoop w p k obj pri v).1 := by
  unfold pqPutLoop; dsimp only; ej_peel hR hA h 30

theorem ej_acquireStep (w : World) (p : Pid) (r : Nat) (h : R w) : R (acquireStep w p r).1 := by
  unfold acquireStep; ej_peel hR hA h 30

theorem ej_condSignal (w : World) (g : Nat) (h : R w) : R (condSignal w g).1 := by
  unfold condSignal
  split
  · exact h
  · split
    · exact h
    · dsimp only
      apply foldl_inv R _ (fun w t hw => ec_guardRemove hR w _ _ hw)
      exact foldl_inv R _ (fun w t hw => hR.sched _ _ _ _ _ _ hA.cond hw) _ _ h

end

/-- `ec_peel` extended with the blocking library calls -/
syntax "ej_peel2 " term:max term:max term:max num : tactic
open Lean in
macro_rules
  | `(tactic| ej_peel2 $hR $hA $h $n) => do
    if n.getNat = 0 then `(tactic| fail "ej_peel2: out of fuel")
    else
      let m := Syntax.mkNumLit (toString (n.getNat - 1))
      `(tactic| first
          | ej_peel $hR $hA $h 8
          | (with_reducible first
              | apply ej_acquireStep $hR $hA
              | apply ej_poolRollback $hR $hA
              | apply ej_bufGetLoop $hR $hA
              | apply ej_bufPutLoop $hR $hA
              | apply ej_oqGetLoop $hR $hA
              | apply ej_oqPutLoop $hR $hA
              | apply ej_pqGetLoop $hR $hA
              | apply ej_pqPutLoop $hR $hA
              | apply ej_condSignal $hR $hA
              | apply ec_signal $hR (And.intro (AllButIntr.res $hA) (AllButIntr.cond $hA))
              | apply ec_guardWaitLeave $hR (AllButIntr.event $hA) (And.intro (AllButIntr.res $hA) (AllButIntr.cond $hA))
              | apply ec_cancelKindFor $hR (AllButIntr.event $hA)
              | apply ec_cancelUserAll $hR (AllButIntr.event $hA)
              | apply ec_recordPool $hR
              | apply ec_recordPQ $hR
              | apply ec_setPoolInUse $hR
              | apply ec_setHeldAmount $hR
              | apply ec_removeHeld $hR
              | apply ec_mk $hR
              | apply ec_fail $hR
              | apply ec_guardRemove $hR
              | apply EvClosed.sched $hR _ _ _ _ _ _ (AllButIntr.res $hA)
            ) <;> ej_peel2 $hR $hA $h $m
          | (split <;> ej_peel2 $hR $hA $h $m))


end CimbaModel.Sim
