/-
  S3 — the other waiting-list primitives: `guardEnqueued`, `guardRemove`, `guardWaitEnter`, the priority change of a
  waiting process, and the footprint of cancelling events (`evCancel` folds: `cancelKindFor`, `cancelAllFor`).
-/
import CimbaModel.Sim.S3Guard
import CimbaModel.Sim.S3Wake

namespace CimbaModel.Sim.S3
open CimbaModel CimbaModel.Sim CimbaModel.Event CimbaModel.Generated CimbaModel.KPQ
open CimbaModel.HashHeap (HTag Item Order HH WF abs liveTags)

/-! ### membership / removal -/

theorem guardEnqueued_eq {w : World} {g : Nat} {gd : Guard} (hg : w.guards[g]? = some gd) (hwf : GWF gd.q) (p : Pid) :
    guardEnqueued w g p = decide (p + 1 ∈ keys (abs gd.q)) := by
  unfold guardEnqueued
  rw [hg]
  simp only [HashHeap.isEnqueued_spec hwf (p + 1) (by omega)]

/-- `guardRemove` on a well-formed queue: exactly the named process leaves, the answer is whether it was queued -/
theorem guardRemove_spec {w : World} {g : Nat} {gd : Guard} (hg : w.guards[g]? = some gd) (hwf : GWF gd.q) (p : Pid) :
    ∃ q', HashHeap.remove guard_queue_check gd.q (p + 1) = .ok (q', decide (p + 1 ∈ keys (abs gd.q))) ∧ GWF q' ∧
      (abs q').Perm (KPQ.remove (abs gd.q) (p + 1)) ∧
      guardRemove w g p = (setGuardQ w g q', decide (p + 1 ∈ keys (abs gd.q))) := by
  obtain ⟨q', hrun, hwf', hperm, _⟩ := HashHeap.remove_abs hwf (p + 1) (by omega)
  refine ⟨q', hrun, hwf', hperm, ?_⟩
  unfold guardRemove
  rw [hg]
  simp only [hrun]

theorem guardRemove_none {w : World} {g : Nat} (hg : w.guards[g]? = none) (p : Pid) : guardRemove w g p = (w, false) := by
  unfold guardRemove; rw [hg]

/-- removing a key that is not queued leaves the hashheap as it is -/
theorem remove_absent {lt : Order} {s : HH} (h : WF lt s) {k : Nat} (hk0 : k ≠ 0) (hk : k ∉ keys (abs s)) :
    HashHeap.remove lt s k = .ok (s, false) := by
  unfold HashHeap.remove
  rw [if_neg hk0]
  split
  · rfl
  · rw [HashHeap.findIndex_of_not_mem h hk]
    rfl

theorem setGuardQ_self {w : World} {g : Nat} {gd : Guard} (hg : w.guards[g]? = some gd) : setGuardQ w g gd.q = w := by
  unfold setGuardQ
  have : w.guards.modify g (fun gd' => { gd' with q := gd.q }) = w.guards := by
    apply Array.ext_getElem?
    intro i
    rw [Array.getElem?_modify]
    split
    · rename_i h; subst h; rw [hg]; rfl
    · rfl
  rw [this]

theorem guardRemove_absent {w : World} {g : Nat} {gd : Guard} (hg : w.guards[g]? = some gd) (hwf : GWF gd.q) {p : Pid}
    (hp : p + 1 ∉ keys (abs gd.q)) : guardRemove w g p = (w, false) := by
  unfold guardRemove
  rw [hg]
  simp only [remove_absent hwf (Nat.succ_ne_zero p) hp, setGuardQ_self hg]

/-! ### entering a wait -/

/-- the world after a successful enqueue in `guardWaitEnter` -/
def enterWorld (w : World) (g : Nat) (gd : Guard) (q' : HH) (p : Pid) (d : Demand) : World :=
  addAwait { w with guards := w.guards.set! g { gd with q := q', demands := (p + 1, d) :: gd.demands.filter (·.1 ≠ p + 1) } }
    p (.guard g)

/-- `guardWaitEnter`: the caller is enqueued with key p+1, entry time = now, priority = its current priority, its demand
    is registered, and the guard is pushed on its awaits -/
theorem guardWaitEnter_spec {w : World} {g : Nat} {gd : Guard} (hg : w.guards[g]? = some gd) (hwf : GWF gd.q) (p : Pid)
    (d : Demand) (h64 : p + 1 < 2 ^ 64) (hfresh : p + 1 ∉ keys (abs gd.q))
    (hroom : gd.q.count < 2 ^ gd.q.exp ∨ gd.q.exp < 31) :
    ∃ q', HashHeap.enqueue guard_queue_check gd.q ⟨p + 1, 0, 0, 0⟩ (p + 1) w.now (w.proc p).prio = .ok (q', p + 1) ∧
      GWF q' ∧ (abs q').Perm (⟨p + 1, 0, ⟨p + 1, 0, 0, 0⟩, w.now, (w.proc p).prio⟩ :: abs gd.q) ∧
      guardWaitEnter w g p d = enterWorld w g gd q' p d := by
  have hk : (if p + 1 = 0 then gd.q.counter + 1 else p + 1) = p + 1 := if_neg (Nat.succ_ne_zero p)
  obtain ⟨q', hrun, hwf', hperm, _⟩ := HashHeap.enqueue_abs hwf ⟨p + 1, 0, 0, 0⟩ (p + 1) w.now (w.proc p).prio
    (by rw [hk]; omega) (by rw [hk]; exact h64) (by rw [hk]; exact hfresh) hroom
  rw [hk] at hrun hperm
  refine ⟨q', hrun, hwf', hperm, ?_⟩
  unfold guardWaitEnter enterWorld
  rw [hg]
  simp only [hrun]

theorem enterWorld_guard (w : World) (g : Nat) (gd : Guard) (q' : HH) (p : Pid) (d : Demand) (hg : g < w.guards.size) :
    (enterWorld w g gd q' p d).guards[g]? =
      some { gd with q := q', demands := (p + 1, d) :: gd.demands.filter (·.1 ≠ p + 1) } := by
  simp [enterWorld, addAwait, World.modProc, Array.set!_eq_setIfInBounds, hg]

theorem enterWorld_guard_ne (w : World) (g g' : Nat) (gd : Guard) (q' : HH) (p : Pid) (d : Demand) (h : g' ≠ g) :
    (enterWorld w g gd q' p d).guards[g']? = w.guards[g']? := by
  simp [enterWorld, addAwait, World.modProc, Array.set!_eq_setIfInBounds, Array.getElem?_setIfInBounds, Ne.symm h]

theorem lookup_filter_ne {β : Type} (l : List (Nat × β)) (k a : Nat) (h : k ≠ a) :
    (l.filter (·.1 ≠ a)).lookup k = l.lookup k := by
  induction l with
  | nil => rfl
  | cons x xs ih =>
    rcases x with ⟨x1, x2⟩
    by_cases hx : x1 = a
    · subst hx
      have h1 : (k == x1) = false := by simpa using h
      rw [List.filter_cons_of_neg (by simp), List.lookup_cons, h1, ih]
    · rw [List.filter_cons_of_pos (by simpa using hx), List.lookup_cons, List.lookup_cons, ih]

/-- the registered demand of the new waiter is its own, the others keep theirs -/
theorem enter_demandOf (gd : Guard) (q' : HH) (p : Pid) (d : Demand) (k : Nat) :
    demandOf { gd with q := q', demands := (p + 1, d) :: gd.demands.filter (·.1 ≠ p + 1) } k =
      if k = p + 1 then d else demandOf gd k := by
  unfold demandOf
  by_cases hk : k = p + 1
  · subst hk; simp [List.lookup]
  · have h1 : (k == p + 1) = false := by simpa using hk
    simp only [hk, if_false]
    rw [List.lookup_cons, h1, lookup_filter_ne _ _ _ hk]


/-! ### the footprint of cancelling events -/

/-- a wake-up (aEvent, CANCELLED) for a process registered as a waiter of some event in `w` -/
def IsCancelWake (w : World) (e : HTag) : Prop :=
  w.ev.counter < e.key ∧ ∃ (h : Nat) (l : List Pid) (q : Pid), (h, l) ∈ w.evWaiters ∧ q ∈ l ∧
    e = mkEv e.key aEvent (q + 1) sigCancelled w.now (w.proc q).prio

/-- what any number of `cmb_event_cancel` calls can do to the world -/
structure CanRel (w w' : World) : Prop where
  procs : w'.procs = w.procs
  guards : w'.guards = w.guards
  res : w'.res = w.res
  pools : w'.pools = w.pools
  bufs : w'.bufs = w.bufs
  oqs : w'.oqs = w.oqs
  pqs : w'.pqs = w.pqs
  conds : w'.conds = w.conds
  flags : w'.flags = w.flags
  gvars : w'.gvars = w.gvars
  log : w'.log = w.log
  fault : w'.fault = w.fault
  dispatched : w'.dispatched = w.dispatched
  evnow : w'.ev.now = w.ev.now
  executed : w'.ev.executed = w.ev.executed
  current : w'.ev.current = w.ev.current
  counter : w.ev.counter ≤ w'.ev.counter
  /-- a pending event afterwards was pending before, or is a CANCELLED wake-up of an event waiter -/
  pend : ∀ e ∈ w'.ev.pending, e ∈ w.ev.pending ∨ IsCancelWake w e
  cancelled : ∀ h ∈ w.ev.cancelled, h ∈ w'.ev.cancelled
  /-- an event that is no longer pending has been recorded as cancelled -/
  removed : ∀ e ∈ w.ev.pending, e ∉ w'.ev.pending → e.key ∈ w'.ev.cancelled
  evWaiters : ∀ x ∈ w'.evWaiters, x ∈ w.evWaiters
  evinv : EvInv w.ev → EvInv w'.ev

theorem CanRel.now {w w' : World} (h : CanRel w w') : w'.now = w.now := h.evnow
theorem CanRel.proc {w w' : World} (h : CanRel w w') (p : Pid) : w'.proc p = w.proc p := by
  unfold World.proc; rw [h.procs]

theorem CanRel.refl (w : World) : CanRel w w where
  procs := rfl
  guards := rfl
  res := rfl
  pools := rfl
  bufs := rfl
  oqs := rfl
  pqs := rfl
  conds := rfl
  flags := rfl
  gvars := rfl
  log := rfl
  fault := rfl
  dispatched := rfl
  evnow := rfl
  executed := rfl
  current := rfl
  counter := Nat.le_refl _
  pend := fun _ he => Or.inl he
  cancelled := fun _ h => h
  removed := fun _ he hn => absurd he hn
  evWaiters := fun _ h => h
  evinv := id

theorem CanRel.trans {w w1 w2 : World} (h1 : CanRel w w1) (h2 : CanRel w1 w2) : CanRel w w2 where
  procs := h2.procs.trans h1.procs
  guards := h2.guards.trans h1.guards
  res := h2.res.trans h1.res
  pools := h2.pools.trans h1.pools
  bufs := h2.bufs.trans h1.bufs
  oqs := h2.oqs.trans h1.oqs
  pqs := h2.pqs.trans h1.pqs
  conds := h2.conds.trans h1.conds
  flags := h2.flags.trans h1.flags
  gvars := h2.gvars.trans h1.gvars
  log := h2.log.trans h1.log
  fault := h2.fault.trans h1.fault
  dispatched := h2.dispatched.trans h1.dispatched
  evnow := h2.evnow.trans h1.evnow
  executed := h2.executed.trans h1.executed
  current := h2.current.trans h1.current
  counter := Nat.le_trans h1.counter h2.counter
  pend := by
    intro e he
    rcases h2.pend e he with h | ⟨hc, hh, l, q, hm, hq, heq⟩
    · exact h1.pend e h
    · right
      refine ⟨Nat.lt_of_le_of_lt h1.counter hc, hh, l, q, h1.evWaiters _ hm, hq, ?_⟩
      rw [heq]; simp only [mkEv]; rw [h1.now, h1.proc]
  cancelled := fun h hh => h2.cancelled h (h1.cancelled h hh)
  removed := by
    intro e he hn
    by_cases h : e ∈ w1.ev.pending
    · exact h2.removed e h hn
    · exact h2.cancelled _ (h1.removed e he h)
  evWaiters := fun x hx => h1.evWaiters x (h2.evWaiters x hx)
  evinv := fun h => h2.evinv (h1.evinv h)

theorem lookup_mem {β : Type} {l : List (Nat × β)} {k : Nat} {v : β} (h : l.lookup k = some v) : (k, v) ∈ l := by
  induction l with
  | nil => simp at h
  | cons x xs ih =>
    rcases x with ⟨x1, x2⟩
    rw [List.lookup_cons] at h
    split at h
    · rename_i hk
      have : k = x1 := by simpa using hk
      cases h; subst this; exact List.mem_cons_self
    · exact List.mem_cons_of_mem _ (ih h)

theorem mem_remove {q : KPQ} {k : Nat} {e : HTag} : e ∈ KPQ.remove q k ↔ e ∈ q ∧ e.key ≠ k := by
  simp [KPQ.remove]

theorem evCancel_rel (w : World) (h : Nat) : CanRel w (evCancel w h).1 := by
  rw [evCancel_eq]
  split
  · rename_i hk
    refine { procs := rfl, guards := rfl, res := rfl, pools := rfl, bufs := rfl, oqs := rfl, pqs := rfl, conds := rfl,
             flags := rfl, gvars := rfl, log := rfl, fault := rfl, dispatched := rfl, evnow := rfl, executed := rfl,
             current := rfl, counter := by simp, pend := ?_, cancelled := ?_, removed := ?_, evWaiters := ?_, evinv := ?_ }
    · intro e he
      simp only [pushAll_pending, cancelEv_pending, List.mem_append] at he
      rcases he with he | he
      · right
        obtain ⟨hlo, _, _, _, x, hx, heq⟩ := wakeEvs_props he
        simp only [evWakes, List.mem_map] at hx
        obtain ⟨q, hq, rfl⟩ := hx
        refine ⟨by simpa using hlo, h, (w.evWaiters.lookup h).getD [], q, ?_, hq, by simpa using heq⟩
        cases hl : w.evWaiters.lookup h with
        | none => rw [hl] at hq; simp at hq
        | some l => exact lookup_mem hl
      · left; exact (mem_remove.1 he).1
    · intro x hx; simp [hx]
    · intro e he hn
      simp only [pushAll_pending, cancelEv_pending, List.mem_append, not_or, mem_remove] at hn
      have : e.key = h := Classical.byContradiction fun hne => hn.2 ⟨he, hne⟩
      simp [this]
    · intro x hx
      simp only [pushAll_evWaiters, cancelEv_evWaiters, List.mem_filter] at hx
      exact hx.1
    · intro hi; exact pushAll_evinv _ (cancelEv_evinv hk hi)
  · exact CanRel.refl w

/-- the keys of pending events never exceed the handle counter -/
theorem EvInv.key_le {q : EvQ} (h : EvInv q) {e : HTag} (he : e ∈ q.pending) : e.key ≤ q.counter := by
  have hp := h.part
  unfold Partition at hp
  have : e.key ∈ List.range' 1 q.counter := by
    apply hp.mem_iff.1
    simp only [List.mem_append]
    exact Or.inl (Or.inl (Event.mem_keys.2 ⟨e, he, rfl⟩))
  simp [List.mem_range'] at this
  omega

/-- cancelling a list of handles: every one of them is gone, everything else stays -/
theorem cancelFold_spec : ∀ (hs : List Nat) (w : World), EvInv w.ev →
    let w' := hs.foldl (fun w h => (evCancel w h).1) w
    CanRel w w' ∧ (∀ e ∈ w'.ev.pending, e.key ≤ w.ev.counter → e.key ∉ hs) ∧
      (∀ e ∈ w.ev.pending, e.key ∉ hs → e ∈ w'.ev.pending) := by
  intro hs
  induction hs with
  | nil => intro w _; exact ⟨CanRel.refl w, by simp, by simp⟩
  | cons h hs ih =>
    intro w hi
    have h1 := evCancel_rel w h
    obtain ⟨h2, hgone, hstay⟩ := ih (evCancel w h).1 (h1.evinv hi)
    simp only [List.foldl_cons]
    refine ⟨h1.trans h2, ?_, ?_⟩
    · intro e he hle
      have hnot := hgone e he (Nat.le_trans hle h1.counter)
      simp only [List.mem_cons, not_or]
      refine ⟨?_, hnot⟩
      -- e survived to the end, so it was in the intermediate queue, where key h is no longer present
      rcases h2.pend e he with hm | ⟨hc, _⟩
      · intro hk
        rw [evCancel_eq] at hm
        split at hm
        · simp only [pushAll_pending, cancelEv_pending, List.mem_append, mem_remove] at hm
          rcases hm with hm | hm
          · have := (wakeEvs_props hm).1
            simp at this; omega
          · exact hm.2 hk
        · rename_i hnk
          exact hnk (hk ▸ Event.mem_keys.2 ⟨e, hm, rfl⟩)
      · have := h1.counter; omega
    · intro e he hn
      simp only [List.mem_cons, not_or] at hn
      apply hstay e _ hn.2
      rw [evCancel_eq]
      split
      · simp only [pushAll_pending, cancelEv_pending, List.mem_append, mem_remove]
        exact Or.inr ⟨he, hn.1⟩
      · exact he

/-- the handles `cancelKindFor` goes after -/
def kindMatch (p : Pid) (act : Nat) (sig : Option Int) (e : HTag) : Bool :=
  e.item.b = p + 1 && e.item.a = act && (match sig with | some s => e.item.c = encSig s | none => true)

theorem cancelKindFor_eq (w : World) (p : Pid) (act : Nat) (sig : Option Int) :
    cancelKindFor w p act sig =
      (((w.ev.pending.filter (kindMatch p act sig)).map (·.key)).foldl (fun w h => (evCancel w h).1) w,
       (w.ev.pending.filter (kindMatch p act sig)).length) := by
  unfold cancelKindFor
  simp only [List.length_map]
  rfl

/-- `cancelKindFor`: afterwards no pending event of the kind is left for `p`, every other old event is still pending,
    the count is the number of such events; only (aEvent, CANCELLED) wake-ups of event waiters are added -/
theorem cancelKindFor_spec (w : World) (p : Pid) (act : Nat) (sig : Option Int) (hi : EvInv w.ev) :
    CanRel w (cancelKindFor w p act sig).1 ∧
    (∀ e ∈ (cancelKindFor w p act sig).1.ev.pending, e.key ≤ w.ev.counter → kindMatch p act sig e = false) ∧
    (∀ e ∈ w.ev.pending, kindMatch p act sig e = false → e ∈ (cancelKindFor w p act sig).1.ev.pending) ∧
    (cancelKindFor w p act sig).2 = (w.ev.pending.filter (kindMatch p act sig)).length := by
  rw [cancelKindFor_eq]
  obtain ⟨hrel, hgone, hstay⟩ := cancelFold_spec ((w.ev.pending.filter (kindMatch p act sig)).map (·.key)) w hi
  refine ⟨hrel, ?_, ?_, rfl⟩
  · intro e he hle
    have hnot := hgone e he hle
    cases hm : kindMatch p act sig e with
    | false => rfl
    | true =>
      exfalso
      -- e is an old event (key ≤ counter), hence was pending before; it matches, so its key was cancelled
      rcases hrel.pend e he with hold | ⟨hc, _⟩
      · exact hnot (List.mem_map.2 ⟨e, List.mem_filter.2 ⟨hold, hm⟩, rfl⟩)
      · omega
  · intro e he hm
    apply hstay e he
    intro hk
    obtain ⟨e', he', hkk⟩ := List.mem_map.1 hk
    have he'' := List.mem_filter.1 he'
    have : e' = e := HashHeap.eq_of_key_eq hi.part.keysNodup he''.1 he hkk
    subst this
    rw [he''.2] at hm; cases hm

/-- the handles `cancelUserAll` goes after -/
theorem mem_userPending {w : World} {k : Nat} :
    k ∈ userPending w ↔ ∃ e ∈ w.ev.pending, e.item.a = aUser ∧ e.key = k := by
  unfold userPending
  simp only [List.mem_map, List.mem_filter, decide_eq_true_eq]
  constructor
  · rintro ⟨e, ⟨he, ha⟩, rfl⟩; exact ⟨e, he, ha, rfl⟩
  · rintro ⟨e, he, ha, rfl⟩; exact ⟨e, ⟨he, ha⟩, rfl⟩

/-- `cancelUserAll` (pattern cancel of the user events): afterwards no user event is pending, every other old event is
    still pending, the count is the number of user events that were pending; only (aEvent, CANCELLED) wake-ups of event
    waiters are added -/
theorem cancelUserAll_spec (w : World) (hi : EvInv w.ev) :
    CanRel w (cancelUserAll w).1 ∧
    (∀ e ∈ (cancelUserAll w).1.ev.pending, e.item.a ≠ aUser) ∧
    (∀ e ∈ w.ev.pending, e.item.a ≠ aUser → e ∈ (cancelUserAll w).1.ev.pending) ∧
    (cancelUserAll w).2 = (w.ev.pending.filter fun e => e.item.a = aUser).length := by
  unfold cancelUserAll
  obtain ⟨hrel, hgone, hstay⟩ := cancelFold_spec (userPending w) w hi
  refine ⟨hrel, ?_, ?_, by simp [userPending]⟩
  · intro e he ha
    rcases hrel.pend e he with hold | ⟨_, _, _, _, _, _, heq⟩
    · exact hgone e he (EvInv.key_le hi hold) (mem_userPending.2 ⟨e, hold, ha, rfl⟩)
    · rw [heq] at ha; simp [mkEv, aEvent, aUser] at ha
  · intro e he ha
    apply hstay e he
    intro hk
    obtain ⟨e', he', ha', hkk⟩ := mem_userPending.1 hk
    have : e' = e := HashHeap.eq_of_key_eq hi.part.keysNodup he' he hkk
    subst this
    exact ha ha'

theorem pendingOf_eq (w : World) (p : Pid) :
    pendingOf w p = (w.ev.pending.filter fun e => e.item.b = p + 1).map (·.key) := rfl

/-- `cancelAllFor`: afterwards no old pending event is addressed to `p`; events of others stay -/
theorem cancelAllFor_spec (w : World) (p : Pid) (hi : EvInv w.ev) :
    CanRel w (cancelAllFor w p) ∧
    (∀ e ∈ (cancelAllFor w p).ev.pending, e.key ≤ w.ev.counter → e.item.b ≠ p + 1) ∧
    (∀ e ∈ w.ev.pending, e.item.b ≠ p + 1 → e ∈ (cancelAllFor w p).ev.pending) := by
  unfold cancelAllFor
  rw [pendingOf_eq]
  obtain ⟨hrel, hgone, hstay⟩ := cancelFold_spec ((w.ev.pending.filter fun e => e.item.b = p + 1).map (·.key)) w hi
  refine ⟨hrel, ?_, ?_⟩
  · intro e he hle hb
    rcases hrel.pend e he with hold | ⟨hc, _⟩
    · exact hgone e he hle (List.mem_map.2 ⟨e, List.mem_filter.2 ⟨hold, by simpa using hb⟩, rfl⟩)
    · omega
  · intro e he hb
    apply hstay e he
    intro hk
    obtain ⟨e', he', hkk⟩ := List.mem_map.1 hk
    have he'' := List.mem_filter.1 he'
    have : e' = e := HashHeap.eq_of_key_eq hi.part.keysNodup he''.1 he hkk
    subst this
    exact hb (by simpa using he''.2)


/-! ### leaving a wait for another reason -/

/-- still queued: exactly the entry is withdrawn -/
theorem guardWithdraw_queued {w : World} {g : Nat} {gd : Guard} (hg : w.guards[g]? = some gd) (hwf : GWF gd.q) {p : Pid}
    (hp : p + 1 ∈ keys (abs gd.q)) :
    ∃ q', GWF q' ∧ (abs q').Perm (KPQ.remove (abs gd.q) (p + 1)) ∧ guardWithdraw w g p = setGuardQ w g q' := by
  obtain ⟨q', _, hwf', hperm, heq⟩ := guardRemove_spec hg hwf p
  refine ⟨q', hwf', hperm, ?_⟩
  unfold guardWithdraw
  rw [heq]
  simp [hp]

/-- already dequeued (granted): the pending grants of `p` are cancelled and, if there was one, the guard is signalled
    again in the same step, so that the grant is passed on -/
theorem guardWithdraw_granted {w : World} {g : Nat} {gd : Guard} (hg : w.guards[g]? = some gd) (hwf : GWF gd.q) {p : Pid}
    (hp : p + 1 ∉ keys (abs gd.q)) :
    guardWithdraw w g p =
      if (cancelKindFor w p aRes (some sigSuccess)).2 > 0 then signal (cancelKindFor w p aRes (some sigSuccess)).1 g
      else (cancelKindFor w p aRes (some sigSuccess)).1 := by
  unfold guardWithdraw
  rw [guardRemove_absent hg hwf hp]
  simp

theorem guardWithdraw_noguard {w : World} {g : Nat} (hg : w.guards[g]? = none) (p : Pid) :
    guardWithdraw w g p =
      if (cancelKindFor w p aRes (some sigSuccess)).2 > 0 then signal (cancelKindFor w p aRes (some sigSuccess)).1 g
      else (cancelKindFor w p aRes (some sigSuccess)).1 := by
  unfold guardWithdraw
  rw [guardRemove_none hg]
  simp

/-! ### priority change of a waiting process -/

/-- what `cmb_process_priority_set` does for one awaited guard -/
def reprioGuard (w : World) (q : Pid) (v : Int) (g : Nat) : World :=
  match w.guards[g]? with
  | some gd =>
    if guardEnqueued w g q then
      match HashHeap.lookup gd.q (q + 1) with
      | .ok t =>
        match HashHeap.reprioritize guard_queue_check gd.q (q + 1) t.d v with
        | .ok q' => setGuardQ w g q'
        | .error f => w.fail s!"priority_set guard: {f}"
      | .error f => w.fail s!"priority_set guard lookup: {f}"
    else w
  | none => w

/-- changing only the priority of the entry with key `k` -/
def setPrio (q : KPQ) (k : Nat) (v : Int) : KPQ := q.map fun t => if t.key = k then { t with i := v } else t

theorem reprio_eq_setPrio {q : KPQ} (hnd : (keys q).Nodup) {k : Nat} {t : HTag} (hl : KPQ.lookup q k = some t) (v : Int) :
    KPQ.reprio q k t.d v = setPrio q k v := by
  unfold KPQ.reprio setPrio
  apply List.map_congr_left
  intro x hx
  by_cases hk : x.key = k
  · have ht := (HashHeap.lookup_eq_some_iff hnd k t).1 hl
    have : x = t := HashHeap.eq_of_key_eq hnd hx ht.1 (hk.trans ht.2.symm)
    subst this
    simp [hk]
  · simp [hk]

/-- `reprio_repositions`: the waiter's entry gets the new priority and keeps its entry time (and everything else);
    all other entries are untouched; a process that is not queued changes nothing -/
theorem reprioGuard_spec {w : World} {g : Nat} {gd : Guard} (hg : w.guards[g]? = some gd) (hwf : GWF gd.q) (q : Pid) (v : Int) :
    (q + 1 ∈ keys (abs gd.q) →
      ∃ q', GWF q' ∧ (abs q').Perm (setPrio (abs gd.q) (q + 1) v) ∧ reprioGuard w q v g = setGuardQ w g q') ∧
    (q + 1 ∉ keys (abs gd.q) → reprioGuard w q v g = w) := by
  constructor
  · intro hk
    obtain ⟨t, hlk, habs⟩ := HashHeap.lookup_spec hwf hk
    obtain ⟨q', hrun, hwf', hperm, _⟩ := HashHeap.reprio_abs hwf hk t.d v
    refine ⟨q', hwf', ?_, ?_⟩
    · have := reprio_eq_setPrio hwf.keys_nodup habs v
      simp only [norm] at this
      rw [← this]; exact hperm
    · unfold reprioGuard
      rw [hg]
      simp only [guardEnqueued_eq hg hwf, hk, decide_true, if_true, hlk, hrun]
  · intro hk
    unfold reprioGuard
    rw [hg]
    simp only [guardEnqueued_eq hg hwf, hk, decide_false]
    rfl

/-- what `cmb_process_priority_set` does for one awaited thing -/
def prioAwaitStep (q : Pid) (v : Int) (w : World) (a : Await) : World :=
  match a with
  | .time h =>
    match reprioritize w.ev h v with
    | .ok ev' => { w with ev := ev' }
    | .error f => w.fail s!"priority_set: timer event not scheduled: {f}"
  | .guard g => reprioGuard w q v g
  | _ => w

def prioHeldStep (q : Pid) (v : Int) (w : World) (h : HoldRef) : World :=
  match h with
  | .pool pl =>
    match w.pools[pl]? with
    | some x =>
      match HashHeap.reprioritize holder_queue_check x.holders (q + 1) 0 v with
      | .ok h' => { w with pools := w.pools.set! pl { x with holders := h' } }
      | .error f => w.fail s!"priority_set holder: {f}"
    | none => w
  | .res _ => w

theorem prioSet_eq (w : World) (p q : Pid) (v : Int) (hq : q < w.procs.size) :
    execCmd w p (.prioSet q v) =
      (let w1 := w.modProc q fun y => { y with prio := v }
       let w2 := (w1.proc q).awaits.foldl (prioAwaitStep q v) w1
       ((w2.proc q).held.foldl (prioHeldStep q v) w2, .ret 0 "")) := by
  have : ¬ q ≥ w.procs.size := Nat.not_le.2 hq
  simp only [execCmd, this, if_false]
  rfl

end CimbaModel.Sim.S3
