/-
  S1 — the holder lists of the resource pools (C09 "everything it held is released", C07 support):
  every process on a pool's holder list lists that pool among its holdings; the holder lists stay well-formed
  hashheaps.  Consequence: a process that is not running is on no holder list.
-/
import CimbaModel.Sim.S1HH
import CimbaModel.Sim.S1SilentRun

namespace CimbaModel.Sim
open CimbaModel CimbaModel.Event CimbaModel.Generated
open CimbaModel.HashHeap (HTag Item Order HH WF)
open CimbaModel.HashHeap.Orders

/-- the holder list of pool `pl` -/
def World.ph (w : World) (pl : Nat) : Option HH := w.pools[pl]?.map (·.holders)

/-- the keys (process index + 1) on the holder list of pool `pl` -/
def World.hk (w : World) (pl : Nat) : List Nat := match w.ph pl with | some h => hkeys h | none => []

/-- **the pool-holder invariant** -/
structure PInv (w : World) : Prop where
  /-- process indices fit the 64-bit keys of the holder lists -/
  small : w.procs.size < 2 ^ 64
  wf : ∀ pl h, w.ph pl = some h → WF holder_queue_check h
  listed : ∀ pl p, p + 1 ∈ w.hk pl → HoldRef.pool pl ∈ (w.proc p).held

theorem ph_congr {w w' : World} (h : w'.pools = w.pools) (pl : Nat) : w'.ph pl = w.ph pl := by
  unfold World.ph; rw [h]

theorem hk_congr {w w' : World} (h : ∀ pl, w'.ph pl = w.ph pl) (pl : Nat) : w'.hk pl = w.hk pl := by
  unfold World.hk; rw [h]

/-- the invariant only looks at the holder lists and at which pools each process lists -/
theorem PInv.of_same {w w' : World} (h : PInv w) (hph : ∀ pl, w'.ph pl = w.ph pl)
    (hheld : ∀ p pl, HoldRef.pool pl ∈ (w.proc p).held → HoldRef.pool pl ∈ (w'.proc p).held)
    (hsz : w'.procs.size = w.procs.size := by simp) : PInv w' :=
  ⟨by rw [hsz]; exact h.small, fun pl x hx => h.wf pl x (by rw [← hph]; exact hx),
   fun pl p hm => hheld p pl (h.listed pl p (by rw [← hk_congr hph]; exact hm))⟩

/-- **a process that is not running is on no pool's holder list** -/
theorem PInv.not_running {w : World} (h : PInv w) (hd : DeadRec w) (p : Pid) (hp : (w.proc p).status ≠ .running)
    (pl : Nat) : p + 1 ∉ w.hk pl := by
  intro hm
  have := h.listed pl p hm
  rw [(hd p hp).2.2.1] at this
  cases this

/-! ### the holder list after updates of the pool table -/

theorem ph_set (w : World) (pl : Nat) (y : Pool) (pl' : Nat) (hlt : pl < w.pools.size) :
    World.ph { w with pools := w.pools.set! pl y } pl' = if pl' = pl then some y.holders else w.ph pl' := by
  unfold World.ph
  simp only [Array.set!_eq_setIfInBounds, Array.getElem?_setIfInBounds]
  by_cases e : pl = pl'
  · subst e; simp [hlt]
  · have : ¬ pl' = pl := fun h => e h.symm
    simp [e, this]

theorem ph_modify (w : World) (pl : Nat) (f : Pool → Pool) (pl' : Nat) :
    World.ph { w with pools := w.pools.modify pl f } pl' =
      if pl' = pl then (w.pools[pl']?.map fun x => (f x).holders) else w.ph pl' := by
  unfold World.ph
  simp only [Array.getElem?_modify]
  by_cases e : pl = pl'
  · subst e; simp; rfl
  · have : ¬ pl' = pl := fun h => e h.symm
    simp [e, this]

theorem ph_modify_keep (w : World) (pl : Nat) (f : Pool → Pool) (hf : ∀ x, (f x).holders = x.holders) (pl' : Nat) :
    World.ph { w with pools := w.pools.modify pl f } pl' = w.ph pl' := by
  rw [ph_modify]; split
  · unfold World.ph; cases w.pools[pl']? <;> simp [hf]
  · rfl

@[simp] theorem setPoolInUse_ph (w : World) (pl v : Nat) (pl' : Nat) : (setPoolInUse w pl v).ph pl' = w.ph pl' := by
  unfold setPoolInUse
  apply ph_modify_keep; intro; rfl

@[simp] theorem signal_ph (w : World) (g : Nat) (pl : Nat) : (signal w g).ph pl = w.ph pl := ph_congr (by simp) pl

@[simp] theorem recordPool_ph (w : World) (pl : Nat) (pl' : Nat) : (recordPool w pl).ph pl' = w.ph pl' := by
  unfold recordPool
  split
  · split
    · rename_i x hx _
      rw [ph_set w pl _ pl' (lt_size_of_getElem? hx)]
      split
      · rename_i e; subst e; simp [World.ph, hx]
      · rfl
    · rfl
  · rfl

theorem holder_ignores_item (a b : HTag) (x y : Item) :
    holder_queue_check { a with item := x } { b with item := y } = holder_queue_check a b := rfl

theorem hk_eq (w : World) (pl : Nat) (x : Pool) (hx : w.pools[pl]? = some x) : w.hk pl = hkeys x.holders := by
  simp [World.hk, World.ph, hx]

theorem ph_eq (w : World) (pl : Nat) (x : Pool) (hx : w.pools[pl]? = some x) : w.ph pl = some x.holders := by
  simp [World.ph, hx]

/-- replacing the holder list of pool `pl` by a well-formed one whose keys all list the pool -/
theorem PInv.set_holders {w w' : World} (h : PInv w) (pl : Nat) (h' : HH)
    (hph : ∀ pl', w'.ph pl' = if pl' = pl then some h' else w.ph pl')
    (hwf : WF holder_queue_check h')
    (hheld : ∀ p pl', pl' ≠ pl → HoldRef.pool pl' ∈ (w.proc p).held → HoldRef.pool pl' ∈ (w'.proc p).held)
    (hl : ∀ p, p + 1 ∈ hkeys h' → HoldRef.pool pl ∈ (w'.proc p).held)
    (hsz : w'.procs.size = w.procs.size := by simp) : PInv w' := by
  refine ⟨by rw [hsz]; exact h.small, ?_, ?_⟩
  · intro pl' x hx
    rw [hph] at hx
    split at hx
    · injection hx with hx; subst hx; exact hwf
    · exact h.wf pl' x hx
  · intro pl' p hm
    unfold World.hk at hm
    rw [hph] at hm
    by_cases e : pl' = pl
    · subst e; simp only [if_true] at hm; exact hl p hm
    · simp only [e, if_false] at hm
      exact hheld p pl' e (h.listed pl' p hm)

/-! ### `poolUpdateRecord` -/

theorem pinv_poolUpdateRecord {w : World} (h : PInv w) (pl : Nat) (p : Pid) (n : Nat) (hp : p < w.procs.size) :
    PInv (poolUpdateRecord w pl p n) := by
  unfold poolUpdateRecord
  split
  · exact h
  · rename_i x hx
    have hwf := h.wf pl x.holders (ph_eq w pl x hx)
    have hlt := lt_size_of_getElem? hx
    dsimp only
    by_cases hk : p + 1 ∈ hkeys x.holders
    · obtain ⟨i, hi, hkey⟩ := (HashHeap.mem_keys_abs x.holders (p + 1)).1 hk
      have hfi : HashHeap.findIndex x.holders (p + 1) = .ok i := by
        rw [← hkey]; exact HashHeap.findIndex_of_mem hwf hi
      have hc : x.holders.count ≠ 0 := by have := hi.1; have := hi.2; omega
      have hi0 : i ≠ 0 := by have := hi.1; omega
      simp only [hc, if_false, hfi]
      simp only [hi0, ne_eq, not_false_eq_true, decide_true, if_true]
      obtain ⟨hwf', hkeys'⟩ := wf_setItem hwf holder_ignores_item i hi.1 hi.2
        { (x.holders.tag i).item with b := (x.holders.tag i).item.b + n }
      refine h.set_holders pl _ (fun pl' => ph_set w pl _ pl' hlt) hwf' (fun p' pl' _ hm => hm) ?_
      intro p' hm
      have hm' : p' + 1 ∈ hkeys x.holders := by rw [← hkeys']; exact hm
      exact h.listed pl p' (by rw [hk_eq w pl x hx]; exact hm')
    · have hfi : HashHeap.findIndex x.holders (p + 1) = .ok 0 := HashHeap.findIndex_of_not_mem hwf hk
      simp only [hfi, ne_eq, not_true_eq_false, decide_false, ite_self, Bool.false_eq_true, if_false]
      have hmod : PInv (w.modProc p fun y => { y with held := .pool pl :: y.held }) := by
        refine h.of_same (fun pl' => rfl) ?_
        intro p' pl' hm
        rw [proc_modProc]; split
        · rename_i e; obtain ⟨rfl, _⟩ := e; exact List.mem_cons_of_mem _ hm
        · exact hm
      split
      · rename_i h' k' henq
        have hk64 : p + 1 < 2 ^ 64 := Nat.lt_of_le_of_lt (Nat.succ_le_of_lt hp) h.small
        obtain ⟨_, hwf', hkeys'⟩ := hh_enqueue_ok hwf (Nat.succ_ne_zero p) hk64 hk henq
        refine hmod.set_holders pl h' (fun pl' => ph_set _ pl _ pl' hlt) hwf' (fun p' pl' _ hm => hm) ?_
        intro q hq
        rcases (hkeys' _).1 hq with e | e
        · have : q = p := Nat.succ.inj e
          subst this
          show HoldRef.pool pl ∈ ((w.modProc q fun y => { y with held := .pool pl :: y.held }).proc q).held
          rw [proc_modProc_self _ _ _ hp]; exact List.mem_cons_self
        · exact hmod.listed pl q (by rw [hk_eq _ pl x (by simpa using hx)]; exact e)
      · exact hmod.of_same (fun pl' => by simp [World.ph]) (fun p' pl' hm => by simpa using hm)

/-! ### the mugging loop -/

theorem removeHeld_mem (w : World) (z : Pid) (a b : HoldRef) (q : Pid) (hm : b ∈ (w.proc q).held)
    (hne : q ≠ z ∨ b ≠ a) : b ∈ ((removeHeld w z a).1.proc q).held := by
  unfold removeHeld; dsimp only
  rw [proc_modProc]; split
  · rename_i e; obtain ⟨rfl, _⟩ := e
    dsimp only
    rw [List.mem_filter]
    refine ⟨hm, ?_⟩
    rcases hne with x | x
    · exact absurd rfl x
    · simpa using x
  · exact hm

@[simp] theorem removeHeld_ph (w : World) (z : Pid) (a : HoldRef) (pl : Nat) : (removeHeld w z a).1.ph pl = w.ph pl :=
  ph_congr (by simp) pl

/-- taking the front holder `t` off the list of pool `pl` and striking the pool from the victim's holdings -/
theorem pinv_mug_step {w : World} (h : PInv w) (pl : Nat) (x : Pool) (hx : w.pools[pl]? = some x)
    (hc : x.holders.count ≠ 0) (h' : HH) (t : HTag)
    (hdq : HashHeap.dequeue holder_queue_check x.holders = .ok (h', some t)) :
    PInv (removeHeld { w with pools := w.pools.set! pl { x with holders := h' } } (t.key - 1) (.pool pl)).1 := by
  have hwf := h.wf pl x.holders (ph_eq w pl x hx)
  have hlt := lt_size_of_getElem? hx
  obtain ⟨t', ht', _, hwf', htk, hkeys'⟩ := hh_dequeue_ok hwf hc hdq
  injection ht' with ht'; subst ht'
  have hpos := hkeys_pos hwf htk
  refine h.set_holders pl h' ?_ hwf' ?_ ?_
  · intro pl'; rw [removeHeld_ph]; exact ph_set w pl _ pl' hlt
  · intro q pl' hne hm
    exact removeHeld_mem _ _ _ _ q hm (Or.inr (fun e => hne (by injection e)))
  · intro q hq
    obtain ⟨hq1, hq2⟩ := (hkeys' _).1 hq
    have hqv : q ≠ t.key - 1 := by
      intro e; apply hq2; rw [e]; omega
    exact removeHeld_mem _ _ _ _ q (h.listed pl q (by rw [hk_eq w pl x hx]; exact hq1)) (Or.inl hqv)

theorem pinv_frame {w w' : World} (h : PInv w) (hp : w'.pools = w.pools) (hprocs : w'.procs = w.procs) : PInv w' :=
  h.of_same (ph_congr hp) (fun p pl hm => by rw [proc_congr hprocs]; exact hm) (by rw [hprocs])

theorem pinv_sched {w : World} (h : PInv w) (a s : Nat) (sig t pri : Int) : PInv (sched w a s sig t pri).1 :=
  pinv_frame h (by simp) (by simp)
theorem pinv_signal {w : World} (h : PInv w) (g : Nat) : PInv (signal w g) := pinv_frame h (by simp) (by simp)
theorem pinv_fail {w : World} (h : PInv w) (m : String) : PInv (w.fail m) := pinv_frame h (by simp) (by simp)
theorem pinv_recordPool {w : World} (h : PInv w) (pl : Nat) : PInv (recordPool w pl) :=
  h.of_same (fun pl' => recordPool_ph w pl pl') (fun q pl' hm => by simpa using hm)
theorem pinv_setPoolInUse {w : World} (h : PInv w) (pl v : Nat) : PInv (setPoolInUse w pl v) :=
  h.of_same (fun pl' => setPoolInUse_ph w pl v pl') (fun q pl' hm => by simpa using hm)

theorem pinv_poolMug : ∀ (fuel : Nat) {w : World}, PInv w → ∀ (p : Pid), p < w.procs.size → ∀ pl rem,
    PInv (poolMug fuel w p pl rem).1 := by
  intro fuel
  induction fuel with
  | zero => intro w h p _ pl rem; exact h
  | succ n ih =>
    intro w h p hp pl rem
    unfold poolMug
    split
    · exact h
    · rename_i x hx
      split
      · exact h
      · rename_i hc
        split
        · split
          · split
            · rename_i h' t hdq
              have h4 := pinv_sched (pinv_mug_step h pl x hx hc h' t hdq) aIntr (t.key - 1 + 1) sigPreempted
                (removeHeld { w with pools := w.pools.set! pl { x with holders := h' } } (t.key - 1) (.pool pl)).1.now
                ((removeHeld { w with pools := w.pools.set! pl { x with holders := h' } }
                  (t.key - 1) (.pool pl)).1.proc (t.key - 1)).prio
              dsimp only
              split
              · exact ih (pinv_poolUpdateRecord h4 pl p _ (by simpa using hp)) p (by simpa using hp) pl _
              · exact pinv_signal (pinv_recordPool (pinv_setPoolInUse
                  (pinv_poolUpdateRecord h4 pl p rem (by simpa using hp)) _ _) _) _
            · exact h
            · exact pinv_fail h _
          · exact h
        · exact h

/-! ### `poolLoop`, `setHeldAmount`, `poolRollback`, release -/

theorem pinv_guardWaitEnter {w : World} (h : PInv w) (g : Nat) (p : Pid) (d : Demand) : PInv (guardWaitEnter w g p d) :=
  h.of_same (fun pl => ph_congr (by simp) pl) (fun q pl hm => by simpa using hm)

theorem pinv_block {w : World} (h : PInv w) (p : Pid) (f : Frame) : PInv (block w p f).1 :=
  h.of_same (fun pl => ph_congr (by simp) pl) (fun q pl hm => by simpa using hm)

theorem pinv_poolLoop {w : World} (h : PInv w) (p : Pid) (hp : p < w.procs.size) (pl rem initially : Nat)
    (preempt : Bool) : PInv (poolLoop w p pl rem initially preempt).1 := by
  have hupd : ∀ (w : World) n, PInv w → p < w.procs.size → PInv (poolUpdateRecord w pl p n) :=
    fun w n h hp => pinv_poolUpdateRecord h pl p n hp
  have hpre : ∀ (w : World) v, PInv w → PInv (recordPool (setPoolInUse w pl v) pl) :=
    fun w v h => pinv_recordPool (pinv_setPoolInUse h _ _) _
  unfold poolLoop
  split
  · exact pinv_fail h _
  · rename_i x hx
    dsimp only
    split
    · exact pinv_signal (hupd _ rem (hpre _ (x.inUse + rem) h) (by simpa using hp)) _
    · have h1 : PInv (if x.cap - x.inUse > 0 then
          (poolUpdateRecord (recordPool (setPoolInUse w pl (x.inUse + (x.cap - x.inUse))) pl) pl p (x.cap - x.inUse),
            rem - (x.cap - x.inUse)) else (w, rem)).1 ∧
          p < (if x.cap - x.inUse > 0 then
          (poolUpdateRecord (recordPool (setPoolInUse w pl (x.inUse + (x.cap - x.inUse))) pl) pl p (x.cap - x.inUse),
            rem - (x.cap - x.inUse)) else (w, rem)).1.procs.size := by
        split
        · exact ⟨hupd _ _ (hpre _ _ h) (by simpa using hp), by simpa using hp⟩
        · exact ⟨h, hp⟩
      have h2 : PInv (if preempt = true then
          poolMug (x.holders.count + 1) (if x.cap - x.inUse > 0 then
            (poolUpdateRecord (recordPool (setPoolInUse w pl (x.inUse + (x.cap - x.inUse))) pl) pl p (x.cap - x.inUse),
              rem - (x.cap - x.inUse)) else (w, rem)).1 p pl (if x.cap - x.inUse > 0 then
            (poolUpdateRecord (recordPool (setPoolInUse w pl (x.inUse + (x.cap - x.inUse))) pl) pl p (x.cap - x.inUse),
              rem - (x.cap - x.inUse)) else (w, rem)).2
          else ((if x.cap - x.inUse > 0 then
            (poolUpdateRecord (recordPool (setPoolInUse w pl (x.inUse + (x.cap - x.inUse))) pl) pl p (x.cap - x.inUse),
              rem - (x.cap - x.inUse)) else (w, rem)).1, some (if x.cap - x.inUse > 0 then
            (poolUpdateRecord (recordPool (setPoolInUse w pl (x.inUse + (x.cap - x.inUse))) pl) pl p (x.cap - x.inUse),
              rem - (x.cap - x.inUse)) else (w, rem)).2)).1 := by
        split
        · exact pinv_poolMug _ h1.1 p h1.2 _ _
        · exact h1.1
      split
      · exact h2
      · exact pinv_block (pinv_guardWaitEnter h2 _ _ _) _ _

theorem pinv_setHeldAmount {w : World} (h : PInv w) (pl : Nat) (p : Pid) (n : Nat) : PInv (setHeldAmount w pl p n) := by
  unfold setHeldAmount
  split
  · rename_i x hx
    have hwf := h.wf pl x.holders (ph_eq w pl x hx)
    have hlt := lt_size_of_getElem? hx
    split
    · rename_i i hfi
      split
      · exact pinv_fail h _
      · rename_i hi0
        have hk := (hh_findIndex hwf (p + 1) hfi).1 hi0
        obtain ⟨j, hj, hkey⟩ := (HashHeap.mem_keys_abs x.holders (p + 1)).1 hk
        have hfj : HashHeap.findIndex x.holders (p + 1) = .ok j := by
          rw [← hkey]; exact HashHeap.findIndex_of_mem hwf hj
        rw [hfi] at hfj; injection hfj with hfj; subst hfj
        obtain ⟨hwf', hkeys'⟩ := wf_setItem hwf holder_ignores_item i hj.1 hj.2
          { (x.holders.tag i).item with b := n }
        dsimp only
        refine h.set_holders pl _ (fun pl' => ph_set w pl _ pl' hlt) hwf' (fun p' pl' _ hm => hm) ?_
        intro p' hm
        have hm' : p' + 1 ∈ hkeys x.holders := by rw [← hkeys']; exact hm
        exact h.listed pl p' (by rw [hk_eq w pl x hx]; exact hm')
    · exact pinv_fail h _
  · exact h

/-- taking `p` off the holder list of pool `pl` (and, if it was on it, striking the pool from its holdings) -/
theorem pinv_remove_holder {w : World} (h : PInv w) (pl : Nat) (hh : HH) (hph0 : w.ph pl = some hh) (p : Pid)
    (h' : HH) (r : Bool) (hrm : HashHeap.remove holder_queue_check hh (p + 1) = .ok (h', r))
    {w' : World} (hph : ∀ pl', w'.ph pl' = if pl' = pl then some h' else w.ph pl')
    (hheld : ∀ q b, b ∈ (w.proc q).held → (q ≠ p ∨ b ≠ .pool pl) → b ∈ (w'.proc q).held)
    (hsz : w'.procs.size = w.procs.size) : PInv w' := by
  have hwf := h.wf pl hh hph0
  obtain ⟨hwf', hkeys', _⟩ := hh_remove_ok hwf (Nat.succ_ne_zero p) hrm
  refine h.set_holders pl h' hph hwf' ?_ ?_ hsz
  · intro q pl' hne hm
    exact hheld q _ hm (Or.inr (fun e => hne (by injection e)))
  · intro q hq
    obtain ⟨hq1, hq2⟩ := (hkeys' _).1 hq
    have hqp : q ≠ p := fun e => hq2 (by rw [e])
    exact hheld q _ (h.listed pl q (by unfold World.hk; rw [hph0]; exact hq1)) (Or.inl hqp)

theorem ph_modify_set (w : World) (pl : Nat) (h' hh : HH) (hph0 : w.ph pl = some hh) (pl' : Nat) :
    World.ph { w with pools := w.pools.modify pl fun y => { y with holders := h' } } pl' =
      if pl' = pl then some h' else w.ph pl' := by
  rw [ph_modify]
  split
  · rename_i e; subst e
    unfold World.ph at hph0
    cases hx : w.pools[pl']? with
    | none => rw [hx] at hph0; cases hph0
    | some x => rfl
  · rfl

theorem pinv_poolRollback {w : World} (h : PInv w) (p : Pid) (pl initially : Nat) :
    PInv (poolRollback w p pl initially) := by
  unfold poolRollback
  split
  · exact h
  · rename_i x hx
    split
    · dsimp only
      split
      · exact pinv_signal (pinv_recordPool (pinv_setPoolInUse (pinv_setHeldAmount h _ _ _) _ _) _) _
      · exact h
    · dsimp only
      have h2 : PInv (recordPool (setPoolInUse w pl (x.inUse - heldAmount w pl p)) pl) :=
        pinv_recordPool (pinv_setPoolInUse h _ _) _
      have hph2 : (recordPool (setPoolInUse w pl (x.inUse - heldAmount w pl p)) pl).ph pl = some x.holders := by
        rw [recordPool_ph, setPoolInUse_ph]; exact ph_eq w pl x hx
      split
      · rename_i h' found hrm
        apply pinv_signal
        split
        · refine pinv_remove_holder h2 pl x.holders hph2 p h' found hrm ?_ ?_ (by simp)
          · intro pl'; rw [removeHeld_ph]; exact ph_modify_set _ pl h' _ hph2 pl'
          · intro q b hm hne
            exact removeHeld_mem _ _ _ _ q hm hne
        · refine pinv_remove_holder h2 pl x.holders hph2 p h' found hrm ?_ ?_ rfl
          · intro pl'; exact ph_modify_set _ pl h' _ hph2 pl'
          · intro q b hm _; exact hm
      · exact pinv_fail h2 _

/-- the `pool_release` command -/
theorem pinv_poolRelease {w : World} (h : PInv w) (p : Pid) (pl n : Nat) : PInv (execCmd w p (.poolRelease pl n)).1 := by
  simp only [execCmd]
  split
  · exact h
  · rename_i x hx
    have hlt := lt_size_of_getElem? hx
    split
    · exact h
    · apply pinv_signal
      apply pinv_recordPool
      apply pinv_setPoolInUse
      split
      · split
        · rename_i h' r hrm
          refine pinv_remove_holder h pl x.holders (ph_eq w pl x hx) p h' r hrm ?_ ?_ (by simp)
          · intro pl'; rw [removeHeld_ph]; exact ph_set w pl _ pl' hlt
          · intro q b hm hne
            exact removeHeld_mem _ _ _ _ q hm hne
        · exact pinv_fail h _
      · exact pinv_setHeldAmount h _ _ _

theorem pinv_poolDropHolder {w : World} (h : PInv w) (pl : Nat) (p : Pid) : PInv (poolDropHolder w pl p) := by
  unfold poolDropHolder
  split
  · exact h
  · rename_i x hx
    have hlt := lt_size_of_getElem? hx
    split
    · exact h
    · split
      · rename_i h' r hrm
        apply pinv_signal
        apply pinv_recordPool
        refine pinv_remove_holder h pl x.holders (ph_eq w pl x hx) p h' r hrm ?_ ?_ rfl
        · intro pl'; exact ph_set w pl _ pl' hlt
        · intro q b hm _; exact hm
      · exact pinv_fail h _
    · exact pinv_fail h _

/-! ### dropping everything at the end of a process -/

/-- the invariant while `z` is being taken off the holder lists: `z` may still be on the list of a pool that is in
    the remainder `L` of its former holdings -/
structure PInvX (z : Pid) (L : List HoldRef) (w : World) : Prop where
  small : w.procs.size < 2 ^ 64
  wf : ∀ pl h, w.ph pl = some h → WF holder_queue_check h
  listed : ∀ pl q, q + 1 ∈ w.hk pl → if q = z then HoldRef.pool pl ∈ L else HoldRef.pool pl ∈ (w.proc q).held

theorem PInvX.of_same {z : Pid} {L L' : List HoldRef} {w w' : World} (h : PInvX z L w)
    (hph : ∀ pl, w'.ph pl = w.ph pl) (hprocs : w'.procs = w.procs)
    (hL : ∀ pl, z + 1 ∈ w.hk pl → HoldRef.pool pl ∈ L → HoldRef.pool pl ∈ L') : PInvX z L' w' := by
  refine ⟨by rw [hprocs]; exact h.small, fun pl x hx => h.wf pl x (by rw [← hph]; exact hx), ?_⟩
  intro pl q hm
  have hm' : q + 1 ∈ w.hk pl := by rw [← hk_congr hph]; exact hm
  have := h.listed pl q hm'
  by_cases e : q = z
  · subst e; simp only [if_true] at this ⊢; exact hL pl hm' this
  · simp only [e, if_false] at this ⊢; rw [proc_congr hprocs]; exact this

theorem pinvx_dropStep {z : Pid} {a : HoldRef} {L : List HoldRef} {w : World} (h : PInvX z (a :: L) w) :
    PInvX z L (dropStep z w a) := by
  unfold dropStep
  split
  · -- a resource: the pools are untouched
    rename_i r
    have hne : ∀ pl, HoldRef.pool pl ∈ HoldRef.res r :: L → HoldRef.pool pl ∈ L := by
      intro pl hm
      rcases List.mem_cons.1 hm with e | e
      · cases e
      · exact e
    split
    · exact h.of_same (fun pl => ph_congr (by simp) pl) (by simp) (fun pl _ => hne pl)
    · exact h.of_same (fun pl => rfl) rfl (fun pl _ => hne pl)
  · -- a pool: `z` leaves its holder list
    rename_i pl0
    have hne : ∀ pl, pl ≠ pl0 → HoldRef.pool pl ∈ HoldRef.pool pl0 :: L → HoldRef.pool pl ∈ L := by
      intro pl hpl hm
      rcases List.mem_cons.1 hm with e | e
      · injection e with e; exact absurd e hpl
      · exact e
    unfold poolDropHolder
    split
    · rename_i hx
      refine h.of_same (fun pl => rfl) rfl ?_
      intro pl hm
      by_cases e : pl = pl0
      · subst e; simp [World.hk, World.ph, hx] at hm
      · exact hne pl e
    · rename_i x hx
      have hwf := h.wf pl0 x.holders (ph_eq w pl0 x hx)
      have hlt := lt_size_of_getElem? hx
      -- whatever the branch, the new holder list of `pl0` is well-formed, does not contain `z`, and is a sublist
      have key : ∀ (h1 : HH) (w' : World), WF holder_queue_check h1 → z + 1 ∉ hkeys h1 →
          (∀ k, k ∈ hkeys h1 → k ∈ hkeys x.holders) →
          (∀ pl, w'.ph pl = if pl = pl0 then some h1 else w.ph pl) → w'.procs = w.procs → PInvX z L w' := by
        intro h1 w' hwf1 hnot hsub hph hprocs
        refine ⟨by rw [hprocs]; exact h.small, ?_, ?_⟩
        · intro pl hh hhh
          rw [hph] at hhh
          split at hhh
          · injection hhh with hhh; subst hhh; exact hwf1
          · exact h.wf pl hh hhh
        · intro pl q hm
          unfold World.hk at hm
          rw [hph] at hm
          by_cases e : pl = pl0
          · subst e
            simp only [if_true] at hm
            have hqz : q ≠ z := fun e => hnot (e ▸ hm)
            have := h.listed pl q (by rw [hk_eq w pl x hx]; exact hsub _ hm)
            simp only [hqz, if_false] at this ⊢
            rw [proc_congr hprocs]; exact this
          · simp only [e, if_false] at hm
            have := h.listed pl q hm
            by_cases eq : q = z
            · subst eq; simp only [if_true] at this ⊢; exact hne pl e this
            · simp only [eq, if_false] at this ⊢; rw [proc_congr hprocs]; exact this
      split
      · -- not on the list
        rename_i hfi
        have hk : z + 1 ∉ hkeys x.holders := fun hk => (hh_findIndex hwf (z + 1) hfi).2 hk rfl
        refine key x.holders w hwf hk (fun _ hk => hk) (fun pl => ?_) rfl
        split
        · rename_i e; rw [e]; exact ph_eq w pl0 x hx
        · rfl
      · dsimp only
        split
        · rename_i h1 r hrm
          obtain ⟨hwf1, hkeys', _⟩ := hh_remove_ok hwf (Nat.succ_ne_zero z) hrm
          refine key h1 _ hwf1 (fun hm => ((hkeys' _).1 hm).2 rfl) (fun k hk => ((hkeys' _).1 hk).1) (fun pl => ?_) ?_
          · rw [signal_ph, recordPool_ph]
            exact ph_set w pl0 _ pl hlt
          · simp
        · rename_i f hrm
          obtain ⟨h1, hrun, _⟩ := HashHeap.remove_abs hwf (z + 1) (Nat.succ_ne_zero z)
          rw [hrun] at hrm; cases hrm
      · rename_i f hfi
        exfalso
        by_cases hk : z + 1 ∈ hkeys x.holders
        · obtain ⟨i, hi, hkey⟩ := (HashHeap.mem_keys_abs x.holders (z + 1)).1 hk
          have := HashHeap.findIndex_of_mem hwf hi
          rw [hkey, hfi] at this; cases this
        · rw [HashHeap.findIndex_of_not_mem hwf hk] at hfi; cases hfi

theorem pinv_dropResources {w : World} (h : PInv w) (z : Pid) : PInv (dropResources w z) := by
  rw [dropResources_eq]
  have h0 : PInvX z (w.proc z).held (w.modProc z fun x => { x with held := [] }) := by
    refine ⟨by simpa using h.small, fun pl x hx => h.wf pl x hx, ?_⟩
    intro pl q hm
    have := h.listed pl q hm
    by_cases e : q = z
    · subst e; simp only [if_true]; exact this
    · simp only [e, if_false]; rw [proc_modProc_ne _ _ _ _ e]; exact this
  have hfold : ∀ (L : List HoldRef) (v : World), PInvX z L v → PInvX z [] (L.foldl (dropStep z) v) := by
    intro L
    induction L with
    | nil => intro v hv; exact hv
    | cons a L ih => intro v hv; exact ih _ (pinvx_dropStep hv)
  have hfin := hfold _ _ h0
  refine ⟨hfin.small, hfin.wf, ?_⟩
  intro pl q hm
  have := hfin.listed pl q hm
  by_cases e : q = z
  · subst e; simp only [if_true] at this; cases this
  · simp only [e, if_false] at this; exact this

/-- after `dropResources`, the process is on no holder list -/
theorem dropResources_off {w : World} (h : PInv w) (z : Pid) (pl : Nat) : z + 1 ∉ (dropResources w z).hk pl := by
  intro hm
  have := (pinv_dropResources h z).listed pl z hm
  rw [dropResources_held, if_pos rfl] at this
  cases this

/-! ### every command -/

theorem pinv_cancelAwaiteds {w : World} (h : PInv w) (z : Pid) : PInv (cancelAwaiteds w z) :=
  h.of_same (fun pl => ph_congr (by simp) pl) (fun q pl hm => by simpa using hm)

theorem pinv_wakeWaiters {w : World} (h : PInv w) (z : Pid) (sig : Int) : PInv (wakeWaiters w z sig) :=
  h.of_same (fun pl => ph_congr (by simp) pl) (fun q pl hm => by simpa using hm)

@[simp] theorem modProc_held_keep (w : World) (z : Pid) (f : Proc → Proc) (q : Pid)
    (hf : ∀ x, (f x).held = x.held) : ((w.modProc z f).proc q).held = (w.proc q).held :=
  modProc_field Proc.held w z f hf q

theorem pinv_finishProc {w : World} (h : PInv w) (z : Pid) (val : Int) (stopped : Bool) :
    PInv (finishProc w z val stopped) := by
  have hmid : PInv (finishMid w z stopped) := by
    unfold finishMid; split
    · exact pinv_dropResources (pinv_cancelAwaiteds h z) z
    · exact pinv_cancelAwaiteds (pinv_dropResources h z) z
  rw [finishProc_eq]
  refine (pinv_wakeWaiters hmid z _).of_same (fun pl => rfl) ?_
  intro q pl hm
  simpa using hm

/-- after the end of `z` it is on no pool's holder list -/
theorem finishProc_off {w : World} (h : PInv w) (z : Pid) (val : Int) (stopped : Bool) (pl : Nat) :
    z + 1 ∉ (finishProc w z val stopped).hk pl := by
  intro hm
  have hl := (pinv_finishProc h z val stopped).listed pl z hm
  have hz : z < (finishProc w z val stopped).procs.size := lt_np_of_held _ _ _ hl
  rw [(finishProc_record w z (by simpa using hz) val stopped).1] at hl
  cases hl

theorem ph_setRecording (w : World) (kind idx : Nat) (on : Bool) (pl : Nat) :
    (setRecording w kind idx on).ph pl = w.ph pl := by
  rcases kind with _|_|_|_|n <;> simp only [setRecording] <;> split
  all_goals try (refine ph_congr ?_ pl; simp; done)
  all_goals try rw [recordPool_ph]
  · refine ph_modify_keep w idx _ ?_ pl
    intro x; rfl
  · refine Eq.trans (ph_modify_keep (recordPool w idx) idx _ ?_ pl) (recordPool_ph _ _ _)
    intro x; rfl

theorem pinv_setRecording {w : World} (h : PInv w) (kind idx : Nat) (on : Bool) : PInv (setRecording w kind idx on) :=
  h.of_same (ph_setRecording w kind idx on) (fun q pl hm => by simpa using hm)

/-- one step of the second loop of `priority_set`: re-sorting the holder record of pool `pl` -/
theorem pinv_reprio_step {w : World} (h : PInv w) (q : Pid) (v : Int) (a : HoldRef) :
    PInv (match a with
      | .pool pl =>
        match w.pools[pl]? with
        | some x =>
          match HashHeap.reprioritize holder_queue_check x.holders (q + 1) 0 v with
          | .ok h' => { w with pools := w.pools.set! pl { x with holders := h' } }
          | .error f => w.fail s!"priority_set holder: {f}"
        | none => w
      | .res _ => w) := by
  split
  · rename_i pl
    split
    · rename_i x hx
      split
      · rename_i h' hr
        have hwf := h.wf pl x.holders (ph_eq w pl x hx)
        obtain ⟨hwf', hkeys'⟩ := hh_reprio_ok hwf hr
        refine h.set_holders pl h' (fun pl' => ph_set w pl _ pl' (lt_size_of_getElem? hx)) hwf'
          (fun _ _ _ hm => hm) ?_ rfl
        intro q' hq'
        exact h.listed pl q' (by rw [hk_eq w pl x hx]; exact (hkeys' _).1 hq')
      · exact pinv_fail h _
    · exact h
  · exact h

theorem pinv_prioSet {w : World} (h : PInv w) (p q : Pid) (v : Int) : PInv (execCmd w p (.prioSet q v)).1 := by
  simp only [execCmd]
  split
  · exact h
  · dsimp only
    have h0 : PInv (w.modProc q fun y => { y with prio := v }) :=
      h.of_same (fun pl => rfl) (fun q' pl hm => by simpa using hm)
    apply foldl_inv PInv _ (fun w' a hw' => pinv_reprio_step hw' q v a)
    apply foldl_inv PInv
    · intro w' a hw'
      have hp : ∀ (x : World), x.pools = w'.pools → x.procs = w'.procs → PInv x := fun x h1 h2 => pinv_frame hw' h1 h2
      apply hp <;> frame_close
    · exact h0


/-! ### the remaining primitives, in peeling form -/

theorem pinv_mk {w : World} (h : PInv w) (ev : EvQ) (evW : List (Nat × List Pid)) (guards : Array Guard)
    (res : Array Res) (bufs : Array Buf) (oqs : Array OQ) (pqs : Array PQ) (conds : Array Nat)
    (flags : Array Int) (gvars : Array Nat) (log : Array String) (fault : Option String) (d : Nat) :
    PInv ⟨ev, evW, w.procs, guards, res, w.pools, bufs, oqs, pqs, conds, flags, gvars, log, fault, d⟩ :=
  pinv_frame h rfl rfl

theorem pinv_emit {w : World} (h : PInv w) (m : String) : PInv (World.emit w m) :=
  h.of_same (fun pl => ph_congr (by simp) pl) (fun q pl hm => by simpa using hm)
theorem pinv_setGuardQ {w : World} (h : PInv w) (g : Nat) (q' : HH) : PInv (setGuardQ w g q') :=
  h.of_same (fun pl => ph_congr (by simp) pl) (fun q pl hm => by simpa using hm)
theorem pinv_wakeEventWaiters {w : World} (h : PInv w) (ps : List Pid) (sig : Int) : PInv (wakeEventWaiters w ps sig) :=
  h.of_same (fun pl => ph_congr (by simp) pl) (fun q pl hm => by simpa using hm)
theorem pinv_evCancel {w : World} (h : PInv w) (x : Nat) : PInv ((evCancel w x).1) :=
  h.of_same (fun pl => ph_congr (by simp) pl) (fun q pl hm => by simpa using hm)
theorem pinv_cancelAllFor {w : World} (h : PInv w) (z : Pid) : PInv (cancelAllFor w z) :=
  h.of_same (fun pl => ph_congr (by simp) pl) (fun q pl hm => by simpa using hm)
theorem pinv_cancelKindFor {w : World} (h : PInv w) (z : Pid) (act : Nat) (sig : Option Int) : PInv ((cancelKindFor w z act sig).1) :=
  h.of_same (fun pl => ph_congr (by simp) pl) (fun q pl hm => by simpa using hm)
theorem pinv_cancelUserAll {w : World} (h : PInv w) : PInv ((cancelUserAll w).1) :=
  h.of_same (fun pl => ph_congr (by simp) pl) (fun q pl hm => by simpa using hm)
theorem pinv_recordRes {w : World} (h : PInv w) (r : Nat) : PInv (recordRes w r) :=
  h.of_same (fun pl => ph_congr (by simp) pl) (fun q pl hm => by simpa using hm)
theorem pinv_recordBuf {w : World} (h : PInv w) (r : Nat) : PInv (recordBuf w r) :=
  h.of_same (fun pl => ph_congr (by simp) pl) (fun q pl hm => by simpa using hm)
theorem pinv_recordOQ {w : World} (h : PInv w) (r : Nat) : PInv (recordOQ w r) :=
  h.of_same (fun pl => ph_congr (by simp) pl) (fun q pl hm => by simpa using hm)
theorem pinv_recordPQ {w : World} (h : PInv w) (r : Nat) : PInv (recordPQ w r) :=
  h.of_same (fun pl => ph_congr (by simp) pl) (fun q pl hm => by simpa using hm)
theorem pinv_guardRemove {w : World} (h : PInv w) (g : Nat) (z : Pid) : PInv ((guardRemove w g z).1) :=
  h.of_same (fun pl => ph_congr (by simp) pl) (fun q pl hm => by simpa using hm)
theorem pinv_guardSignal {w : World} (h : PInv w) (fuel g : Nat) : PInv (guardSignal fuel w g) :=
  h.of_same (fun pl => ph_congr (by simp) pl) (fun q pl hm => by simpa using hm)
theorem pinv_guardWithdraw {w : World} (h : PInv w) (g : Nat) (z : Pid) : PInv (guardWithdraw w g z) :=
  h.of_same (fun pl => ph_congr (by simp) pl) (fun q pl hm => by simpa using hm)
theorem pinv_condSignal {w : World} (h : PInv w) (g : Nat) : PInv ((condSignal w g).1) :=
  h.of_same (fun pl => ph_congr (by simp) pl) (fun q pl hm => by simpa using hm)
theorem pinv_addAwait {w : World} (h : PInv w) (z : Pid) (a : Await) : PInv (addAwait w z a) :=
  h.of_same (fun pl => ph_congr (by simp) pl) (fun q pl hm => by simpa using hm)
theorem pinv_removeAwait {w : World} (h : PInv w) (z : Pid) (a : Await) : PInv ((removeAwait w z a).1) :=
  h.of_same (fun pl => ph_congr (by simp) pl) (fun q pl hm => by simpa using hm)
theorem pinv_removeAwaitKind {w : World} (h : PInv w) (z : Pid) (k : Await → Bool) : PInv ((removeAwaitKind w z k).1) :=
  h.of_same (fun pl => ph_congr (by simp) pl) (fun q pl hm => by simpa using hm)
theorem pinv_setVar {w : World} (h : PInv w) (z : Pid) (v x : Nat) : PInv (setVar w z v x) :=
  h.of_same (fun pl => ph_congr (by simp) pl) (fun q pl hm => by simpa using hm)
theorem pinv_timerAdd {w : World} (h : PInv w) (z : Pid) (d sig : Int) : PInv ((timerAdd w z d sig).1) :=
  h.of_same (fun pl => ph_congr (by simp) pl) (fun q pl hm => by simpa using hm)
theorem pinv_timerCancel {w : World} (h : PInv w) (z : Pid) (x : Nat) : PInv ((timerCancel w z x).1) :=
  h.of_same (fun pl => ph_congr (by simp) pl) (fun q pl hm => by simpa using hm)
theorem pinv_timersClear {w : World} (h : PInv w) (z : Pid) : PInv (timersClear w z) :=
  h.of_same (fun pl => ph_congr (by simp) pl) (fun q pl hm => by simpa using hm)
theorem pinv_guardWaitLeave {w : World} (h : PInv w) (g : Nat) (z : Pid) (sig : Int) : PInv (guardWaitLeave w g z sig) :=
  h.of_same (fun pl => ph_congr (by simp) pl) (fun q pl hm => by simpa using hm)
theorem pinv_bufGetLoop {w : World} (h : PInv w) (z : Pid) (b rem got : Nat) : PInv ((bufGetLoop w z b rem got).1) :=
  h.of_same (fun pl => ph_congr (by simp) pl) (fun q pl hm => by simpa using hm)
theorem pinv_bufPutLoop {w : World} (h : PInv w) (z : Pid) (b rem left : Nat) : PInv ((bufPutLoop w z b rem left).1) :=
  h.of_same (fun pl => ph_congr (by simp) pl) (fun q pl hm => by simpa using hm)
theorem pinv_oqGetLoop {w : World} (h : PInv w) (z : Pid) (k : Nat) : PInv ((oqGetLoop w z k).1) :=
  h.of_same (fun pl => ph_congr (by simp) pl) (fun q pl hm => by simpa using hm)
theorem pinv_oqPutLoop {w : World} (h : PInv w) (z : Pid) (k obj : Nat) : PInv ((oqPutLoop w z k obj).1) :=
  h.of_same (fun pl => ph_congr (by simp) pl) (fun q pl hm => by simpa using hm)
theorem pinv_pqGetLoop {w : World} (h : PInv w) (z : Pid) (k : Nat) : PInv ((pqGetLoop w z k).1) :=
  h.of_same (fun pl => ph_congr (by simp) pl) (fun q pl hm => by simpa using hm)

theorem pinv_removeHeld_res {w : World} (h : PInv w) (z : Pid) (r : Nat) : PInv (removeHeld w z (.res r)).1 :=
  h.of_same (fun pl => by simp) (fun q pl hm => removeHeld_mem _ _ _ _ q hm (Or.inr (by intro e; cases e)))

theorem held_mem_cons_modProc (W : World) (p q : Pid) (a b : HoldRef) (hm : b ∈ (W.proc q).held) :
    b ∈ ((W.modProc p fun y => { y with held := a :: y.held }).proc q).held := by
  rw [proc_modProc]
  split
  · rename_i e; rw [e.1] at hm; exact List.mem_cons_of_mem _ hm
  · exact hm

theorem grab_held_mem (w : World) (r : Nat) (p : Pid) (q : Pid) (b : HoldRef) (hm : b ∈ (w.proc q).held) :
    b ∈ ((grab w r p).proc q).held := by
  unfold grab
  cases hx : w.res[r]? with
  | none => exact hm
  | some x =>
    dsimp only
    apply held_mem_cons_modProc
    split <;> simpa using hm

theorem pinv_grab {w : World} (h : PInv w) (r : Nat) (p : Pid) : PInv (grab w r p) :=
  h.of_same (fun pl => ph_congr (by simp) pl) (fun q pl hm => grab_held_mem w r p q _ hm)

theorem pinv_acquireStep {w : World} (h : PInv w) (p : Pid) (r : Nat) : PInv (acquireStep w p r).1 := by
  unfold acquireStep
  split
  · exact pinv_fail h _
  · split
    · exact pinv_recordRes (pinv_grab h _ _) _
    · exact pinv_block (pinv_guardWaitEnter h _ _ _) _ _

theorem pinv_pqPutLoop {w : World} (h : PInv w) (z : Pid) (k obj : Nat) (pri : Int) (v : Nat) :
    PInv (pqPutLoop w z k obj pri v).1 :=
  h.of_same (fun pl => ph_congr (by simp) pl) (fun q pl hm => by simpa using hm)

/-- peel a composition of library steps down to `h : PInv w`; `hp : p < w.procs.size` for the caller -/
syntax "pinv_peel " ident ident num : tactic
open Lean in
macro_rules
  | `(tactic| pinv_peel $h $hp $n) => do
    if n.getNat = 0 then `(tactic| fail "pinv_peel: out of fuel")
    else
      let m := Syntax.mkNumLit (toString (n.getNat - 1))
      `(tactic| first
          | with_reducible exact $h
          | (simpa using $hp)
          | (with_reducible first
              | apply pinv_emit
              | apply pinv_setGuardQ
              | apply pinv_wakeEventWaiters
              | apply pinv_evCancel
              | apply pinv_cancelAllFor
              | apply pinv_cancelUserAll
              | apply pinv_cancelKindFor
              | apply pinv_recordRes
              | apply pinv_recordBuf
              | apply pinv_recordOQ
              | apply pinv_recordPQ
              | apply pinv_guardRemove
              | apply pinv_guardSignal
              | apply pinv_guardWithdraw
              | apply pinv_condSignal
              | apply pinv_addAwait
              | apply pinv_removeAwait
              | apply pinv_removeAwaitKind
              | apply pinv_setVar
              | apply pinv_timerAdd
              | apply pinv_timerCancel
              | apply pinv_timersClear
              | apply pinv_guardWaitLeave
              | apply pinv_bufGetLoop
              | apply pinv_bufPutLoop
              | apply pinv_oqGetLoop
              | apply pinv_oqPutLoop
              | apply pinv_pqGetLoop
              | apply pinv_fail
              | apply pinv_sched
              | apply pinv_signal
              | apply pinv_recordPool
              | apply pinv_setPoolInUse
              | apply pinv_guardWaitEnter
              | apply pinv_block
              | apply pinv_poolUpdateRecord
              | apply pinv_poolMug
              | apply pinv_poolLoop
              | apply pinv_setHeldAmount
              | apply pinv_poolRollback
              | apply pinv_poolDropHolder
              | apply pinv_dropResources
              | apply pinv_cancelAwaiteds
              | apply pinv_wakeWaiters
              | apply pinv_finishProc
              | apply pinv_setRecording
              | apply pinv_removeHeld_res
              | apply pinv_grab
              | apply pinv_acquireStep
              | apply pinv_pqPutLoop
              | apply pinv_mk
            ) <;> pinv_peel $h $hp $m
          | (split <;> pinv_peel $h $hp $m))

end CimbaModel.Sim
