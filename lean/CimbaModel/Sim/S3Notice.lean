/-
  S3 — cancellation notices (`cmb_condition_cancel`: an aRes event with a non-SUCCESS code) are addressed to running
  processes.  `NI` is a unary invariant; its traversal is generated from the `Evo` traversal.
-/
import CimbaModel.Sim.S3GrantBuilt

namespace CimbaModel.Sim.S3
open CimbaModel CimbaModel.Sim CimbaModel.Event CimbaModel.Generated CimbaModel.KPQ
open CimbaModel.HashHeap (HTag Item Order HH WF abs liveTags)

/-- a cancellation notice -/
def isNotice (e : HTag) : Prop := e.item.a = aRes ∧ e.item.c ≠ 0

/-- every pending cancellation notice is addressed to a process that is running -/
def NI (w : World) : Prop := ∀ e ∈ w.ev.pending, isNotice e → 1 ≤ e.item.b ∧ (w.proc (e.item.b - 1)).status = .running

/-- notices only disappear, statuses do not change -/
theorem NI.step {w w' : World} (h : NI w) (hs : ∀ x, (w'.proc x).status = (w.proc x).status)
    (he : ∀ e' ∈ w'.ev.pending, isNotice e' → ∃ e ∈ w.ev.pending, e.item = e'.item) : NI w' := by
  intro e' he' hn
  obtain ⟨e, hm, hi⟩ := he e' he' hn
  have := h e hm (by unfold isNotice at *; rw [hi]; exact hn)
  rw [hi] at this; rw [hs]; exact this

theorem NI.same {w w' : World} (h : NI w) (hev : w'.ev = w.ev) (hp : w'.procs = w.procs) : NI w' :=
  h.step (fun x => by unfold World.proc; rw [hp]) (by rw [hev]; exact fun e he _ => ⟨e, he, rfl⟩)

theorem NI.fail {w : World} (h : NI w) (m : String) : NI (w.fail m) := h.same (by simp) (by simp)
theorem NI.emit {w : World} (h : NI w) (l : String) : NI (w.emit l) := h.same rfl rfl
/-- a modification of a process record that does not stop it -/
theorem NI.modProc {w : World} (h : NI w) (p : Pid) (f : Proc → Proc)
    (hf : ∀ x, (f x).status = x.status ∨ (f x).status = .running) : NI (w.modProc p f) := by
  intro e he hn
  obtain ⟨h1, h2⟩ := h e he hn
  refine ⟨h1, ?_⟩
  rw [modProc_proc]; split
  · rename_i hq
    rcases hf (w.proc p) with e' | e'
    · rw [e', ← hq.1]; exact h2
    · exact e'
  · exact h2
theorem NI.setEvWaiters {w : World} (h : NI w) (x : List (Nat × List Pid)) : NI { w with evWaiters := x } := h.same rfl rfl
theorem NI.setRes {w : World} (h : NI w) (x : Array Res) : NI { w with res := x } := h.same rfl rfl
theorem NI.setPools {w : World} (h : NI w) (x : Array Pool) : NI { w with pools := x } := h.same rfl rfl
theorem NI.setBufs {w : World} (h : NI w) (x : Array Buf) : NI { w with bufs := x } := h.same rfl rfl
theorem NI.setOqs {w : World} (h : NI w) (x : Array OQ) : NI { w with oqs := x } := h.same rfl rfl
theorem NI.setPqs {w : World} (h : NI w) (x : Array PQ) : NI { w with pqs := x } := h.same rfl rfl
theorem NI.setFlags {w : World} (h : NI w) (x : Array Int) : NI { w with flags := x } := h.same rfl rfl
theorem NI.setGvars {w : World} (h : NI w) (x : Array Nat) : NI { w with gvars := x } := h.same rfl rfl
theorem NI.setGuardsSet {w : World} (h : NI w) (g : Nat) (x : Guard) : NI { w with guards := w.guards.set! g x } := h.same rfl rfl
theorem NI.setGuardQ {w : World} (h : NI w) (g : Nat) (q : HH) : NI (setGuardQ w g q) := h.same rfl rfl

/-- scheduling something that is not a notice, or a notice for a running process -/
theorem NI.pushEv {w : World} (h : NI w) (a s : Nat) (sig t pri : Int)
    (hs : a = aRes → encSig sig ≠ 0 → 1 ≤ s ∧ (w.proc (s - 1)).status = .running) : NI (pushEv w a s sig t pri) := by
  intro e he hn
  simp only [pushEv_pending, List.mem_cons] at he
  rcases he with rfl | he
  · exact hs hn.1 hn.2
  · exact h e he hn

theorem NI.sched_fst {w : World} (h : NI w) (a s : Nat) (sig t pri : Int)
    (hs : a = aRes → encSig sig ≠ 0 → 1 ≤ s ∧ (w.proc (s - 1)).status = .running) : NI (sched w a s sig t pri).1 := by
  rcases sched_cases w a s sig t pri with ⟨ht, he⟩ | ⟨_, m, he⟩
  · rw [he]; exact h.pushEv a s sig t pri hs
  · rw [he]; exact h.fail m

theorem NI.ofCanRel {w w' : World} (h : NI w) (hr : CanRel w w') : NI w' := by
  refine h.step (fun x => by rw [hr.proc]) ?_
  intro e he hn
  rcases hr.pend e he with hold | ⟨_, _, _, _, _, _, heq⟩
  · exact ⟨e, hold, rfl⟩
  · rw [heq] at hn; exact absurd hn.1 (by show aEvent ≠ aRes; decide)

theorem NI.evCancel_fst {w : World} (h : NI w) (k : Nat) : NI (evCancel w k).1 := h.ofCanRel (evCancel_rel w k)

theorem NI.reprioEv {w : World} (h : NI w) {k : Nat} {v : Int} {ev' : EvQ} (hr : reprioritize w.ev k v = .ok ev') :
    NI { w with ev := ev' } := by
  refine h.step (fun _ => rfl) ?_
  unfold reprioritize at hr
  split at hr
  · cases hr
  · simp only [Except.ok.injEq] at hr
    subst hr
    intro e' he' _
    simp only [List.mem_map] at he'
    obtain ⟨e, he, rfl⟩ := he'
    exact ⟨e, he, by split <;> rfl⟩

theorem NI.foldl {α : Type} {f : World → α → World} (hf : ∀ w a, NI w → NI (f w a)) :
    ∀ (l : List α) {w : World}, NI w → NI (l.foldl f w) := by
  intro l
  induction l with
  | nil => intro w h; exact h
  | cons a l ih => intro w h; exact ih (hf w a h)

syntax "ni_step" : tactic
macro_rules | `(tactic| ni_step) => `(tactic| (first | (intro h; exact absurd h (by decide)) | (intro _ h; exact absurd (by decide) h)))
macro_rules | `(tactic| ni_step) => `(tactic| dsimp only)
macro_rules | `(tactic| ni_step) => `(tactic| (guard_world_lit'; with_reducible apply NI.setGuardsSet))
macro_rules | `(tactic| ni_step) => `(tactic| (guard_world_lit'; with_reducible apply NI.setGvars))
macro_rules | `(tactic| ni_step) => `(tactic| (guard_world_lit'; with_reducible apply NI.setFlags))
macro_rules | `(tactic| ni_step) => `(tactic| (guard_world_lit'; with_reducible apply NI.setPqs))
macro_rules | `(tactic| ni_step) => `(tactic| (guard_world_lit'; with_reducible apply NI.setOqs))
macro_rules | `(tactic| ni_step) => `(tactic| (guard_world_lit'; with_reducible apply NI.setBufs))
macro_rules | `(tactic| ni_step) => `(tactic| (guard_world_lit'; with_reducible apply NI.setPools))
macro_rules | `(tactic| ni_step) => `(tactic| (guard_world_lit'; with_reducible apply NI.setRes))
macro_rules | `(tactic| ni_step) => `(tactic| (guard_world_lit'; with_reducible apply NI.setEvWaiters))
macro_rules | `(tactic| ni_step) => `(tactic| split)
macro_rules | `(tactic| ni_step) => `(tactic| with_reducible apply NI.evCancel_fst)
macro_rules | `(tactic| ni_step) => `(tactic| (with_reducible refine NI.sched_fst ?_ _ _ _ _ _ ?_))
macro_rules | `(tactic| ni_step) => `(tactic| with_reducible apply NI.setGuardQ)
macro_rules | `(tactic| ni_step) => `(tactic| (with_reducible refine NI.modProc ?_ _ _ (fun _ => Or.inr rfl)))
macro_rules | `(tactic| ni_step) => `(tactic| (with_reducible refine NI.modProc ?_ _ _ (fun _ => Or.inl rfl)))
macro_rules | `(tactic| ni_step) => `(tactic| with_reducible apply NI.emit)
macro_rules | `(tactic| ni_step) => `(tactic| with_reducible apply NI.fail)
macro_rules | `(tactic| ni_step) => `(tactic| with_reducible assumption)

macro "ni" : tactic => `(tactic| repeat' ni_step)

/-! ### the functions of Sim/Model.lean -/

theorem NI.wakeEventWaiters {w : World} (h : NI w) (ps : List Pid) (sig : Int) :
    NI (wakeEventWaiters w ps sig) := by
  unfold Sim.wakeEventWaiters
  exact NI.foldl (fun w q h => by ni) ps h
macro_rules | `(tactic| ni_step) => `(tactic| with_reducible apply NI.wakeEventWaiters)

theorem NI.cancelAllFor {w : World} (h : NI w) (p : Pid) : NI (cancelAllFor w p) := by
  unfold Sim.cancelAllFor
  exact NI.foldl (fun w q h => by ni) _ h
macro_rules | `(tactic| ni_step) => `(tactic| with_reducible apply NI.cancelAllFor)

theorem NI.cancelKindFor_fst {w : World} (h : NI w) (p : Pid) (act : Nat) (sig : Option Int) :
    NI (cancelKindFor w p act sig).1 := by
  unfold Sim.cancelKindFor
  exact NI.foldl (fun w q h => by ni) _ h
macro_rules | `(tactic| ni_step) => `(tactic| with_reducible apply NI.cancelKindFor_fst)
theorem NI.cancelUserAll_fst {w : World} (h : NI w) :
    NI (cancelUserAll w).1 := by
  unfold Sim.cancelUserAll
  exact NI.foldl (fun w q h => by ni) _ h
macro_rules | `(tactic| ni_step) => `(tactic| with_reducible apply NI.cancelUserAll_fst)

theorem NI.recordRes {w : World} (h : NI w) (r : Nat) : NI (recordRes w r) := by
  unfold Sim.recordRes; ni
theorem NI.recordPool {w : World} (h : NI w) (r : Nat) : NI (recordPool w r) := by
  unfold Sim.recordPool; ni
theorem NI.recordBuf {w : World} (h : NI w) (r : Nat) : NI (recordBuf w r) := by
  unfold Sim.recordBuf; ni
theorem NI.recordOQ {w : World} (h : NI w) (r : Nat) : NI (recordOQ w r) := by
  unfold Sim.recordOQ; ni
theorem NI.recordPQ {w : World} (h : NI w) (r : Nat) : NI (recordPQ w r) := by
  unfold Sim.recordPQ; ni
macro_rules | `(tactic| ni_step) => `(tactic| with_reducible apply NI.recordRes)
macro_rules | `(tactic| ni_step) => `(tactic| with_reducible apply NI.recordPool)
macro_rules | `(tactic| ni_step) => `(tactic| with_reducible apply NI.recordBuf)
macro_rules | `(tactic| ni_step) => `(tactic| with_reducible apply NI.recordOQ)
macro_rules | `(tactic| ni_step) => `(tactic| with_reducible apply NI.recordPQ)

theorem NI.guardRemove_fst {w : World} (h : NI w) (g : Nat) (p : Pid) : NI (guardRemove w g p).1 := by
  unfold Sim.guardRemove; ni
macro_rules | `(tactic| ni_step) => `(tactic| with_reducible apply NI.guardRemove_fst)

theorem NI.frontStep {w : World} (h : NI w) (g : Nat) (gd : Guard) : NI (frontStep w g gd) := by
  unfold S3.frontStep; ni

theorem NI.condSignal_fst {w : World} (h : NI w) (g : Nat) : NI (condSignal w g).1 := by
  simp only [Sim.condSignal]
  split
  · exact h
  · split
    · exact h
    · refine NI.foldl (fun w q h => by ni) _ ?_
      exact NI.foldl (fun w q h => by ni) _ h
macro_rules | `(tactic| ni_step) => `(tactic| with_reducible apply NI.condSignal_fst)

theorem NI.ownStep {w : World} (h : NI w) (fwd : Bool) (g : Nat) (gd : Guard) : NI (ownStep fwd w g gd) := by
  unfold S3.ownStep
  split
  · exact h.condSignal_fst g
  · exact h.frontStep g gd

theorem NI.guardSignalF : ∀ (fuel : Nat) (fwd : Bool) {w : World}, NI w → ∀ g, NI (guardSignalF fwd fuel w g) := by
  intro fuel
  induction fuel with
  | zero => intro fwd w h g; rw [guardSignalF_zero]; exact h.fail _
  | succ fuel ih =>
    intro fwd w h g
    rw [guardSignalF_succ]
    split
    · exact h
    · exact NI.foldl (fun w o hw => ih true hw o) _ (h.ownStep fwd g _)

theorem NI.guardSignal (fuel : Nat) {w : World} (h : NI w) (g : Nat) : NI (guardSignal fuel w g) :=
  NI.guardSignalF fuel false h g

theorem NI.signal {w : World} (h : NI w) (g : Nat) : NI (signal w g) := NI.guardSignal 8 h g
macro_rules | `(tactic| ni_step) => `(tactic| with_reducible apply NI.signal)

theorem NI.guardWithdraw {w : World} (h : NI w) (g : Nat) (p : Pid) : NI (guardWithdraw w g p) := by
  simp only [Sim.guardWithdraw]; ni
macro_rules | `(tactic| ni_step) => `(tactic| with_reducible apply NI.guardWithdraw)

theorem NI.addAwait {w : World} (h : NI w) (p : Pid) (a : Await) : NI (addAwait w p a) := by
  unfold Sim.addAwait; ni
macro_rules | `(tactic| ni_step) => `(tactic| with_reducible apply NI.addAwait)

theorem NI.removeAwait_fst {w : World} (h : NI w) (p : Pid) (a : Await) : NI (removeAwait w p a).1 := by
  simp only [Sim.removeAwait]; ni
macro_rules | `(tactic| ni_step) => `(tactic| with_reducible apply NI.removeAwait_fst)

theorem NI.removeAwaitKind_fst {w : World} (h : NI w) (p : Pid) (k : Await → Bool) :
    NI (removeAwaitKind w p k).1 := by
  simp only [Sim.removeAwaitKind]; ni
macro_rules | `(tactic| ni_step) => `(tactic| with_reducible apply NI.removeAwaitKind_fst)

theorem NI.removeHeld_fst {w : World} (h : NI w) (p : Pid) (x : HoldRef) : NI (removeHeld w p x).1 := by
  simp only [Sim.removeHeld]; ni
macro_rules | `(tactic| ni_step) => `(tactic| with_reducible apply NI.removeHeld_fst)

theorem NI.timerAdd_fst {w : World} (h : NI w) (p : Pid) (d sig : Int) : NI (timerAdd w p d sig).1 := by
  simp only [Sim.timerAdd]; ni
macro_rules | `(tactic| ni_step) => `(tactic| with_reducible apply NI.timerAdd_fst)

theorem NI.timerCancel_fst {w : World} (h : NI w) (p : Pid) (k : Nat) : NI (timerCancel w p k).1 := by
  simp only [Sim.timerCancel]; ni
macro_rules | `(tactic| ni_step) => `(tactic| with_reducible apply NI.timerCancel_fst)

theorem NI.timersClear {w : World} (h : NI w) (p : Pid) : NI (timersClear w p) := by
  unfold Sim.timersClear
  exact NI.foldl (fun w q h => by ni) _ (by ni)
macro_rules | `(tactic| ni_step) => `(tactic| with_reducible apply NI.timersClear)

theorem NI.cancelAwaiteds {w : World} (h : NI w) (p : Pid) : NI (cancelAwaiteds w p) := by
  unfold Sim.cancelAwaiteds
  apply NI.cancelAllFor
  exact NI.foldl (fun w q h => by ni) _ (by ni)
macro_rules | `(tactic| ni_step) => `(tactic| with_reducible apply NI.cancelAwaiteds)

theorem NI.wakeWaiters {w : World} (h : NI w) (p : Pid) (sig : Int) : NI (wakeWaiters w p sig) := by
  unfold Sim.wakeWaiters
  exact NI.foldl (fun w q h => by ni) _ (by ni)
macro_rules | `(tactic| ni_step) => `(tactic| with_reducible apply NI.wakeWaiters)

theorem NI.poolDropHolder {w : World} (h : NI w) (pl : Nat) (p : Pid) : NI (poolDropHolder w pl p) := by
  unfold Sim.poolDropHolder; ni
macro_rules | `(tactic| ni_step) => `(tactic| with_reducible apply NI.poolDropHolder)

theorem NI.dropResources {w : World} (h : NI w) (p : Pid) : NI (dropResources w p) := by
  unfold Sim.dropResources
  exact NI.foldl (fun w q h => by ni) _ (by ni)
macro_rules | `(tactic| ni_step) => `(tactic| with_reducible apply NI.dropResources)


theorem NI.guardWaitEnter {w : World} (h : NI w) (g : Nat) (p : Pid) (d : Demand) :
    NI (guardWaitEnter w g p d) := by
  unfold Sim.guardWaitEnter; ni
macro_rules | `(tactic| ni_step) => `(tactic| with_reducible apply NI.guardWaitEnter)

theorem NI.guardWaitLeave {w : World} (h : NI w) (g : Nat) (p : Pid) (sig : Int) :
    NI (guardWaitLeave w g p sig) := by
  unfold Sim.guardWaitLeave; ni
macro_rules | `(tactic| ni_step) => `(tactic| with_reducible apply NI.guardWaitLeave)

theorem NI.grab {w : World} (h : NI w) (r : Nat) (p : Pid) : NI (grab w r p) := by
  unfold Sim.grab; ni
macro_rules | `(tactic| ni_step) => `(tactic| with_reducible apply NI.grab)

theorem NI.poolUpdateRecord {w : World} (h : NI w) (pl : Nat) (p : Pid) (a : Nat) :
    NI (poolUpdateRecord w pl p a) := by
  unfold Sim.poolUpdateRecord; ni
macro_rules | `(tactic| ni_step) => `(tactic| with_reducible apply NI.poolUpdateRecord)

theorem NI.setPoolInUse {w : World} (h : NI w) (pl v : Nat) : NI (setPoolInUse w pl v) := by
  unfold Sim.setPoolInUse; ni
macro_rules | `(tactic| ni_step) => `(tactic| with_reducible apply NI.setPoolInUse)

theorem NI.setHeldAmount {w : World} (h : NI w) (pl : Nat) (p : Pid) (a : Nat) :
    NI (setHeldAmount w pl p a) := by
  unfold Sim.setHeldAmount; ni
macro_rules | `(tactic| ni_step) => `(tactic| with_reducible apply NI.setHeldAmount)

/-! ### the functions of Sim/Run.lean -/

theorem NI.block_fst {w : World} (h : NI w) (p : Pid) (f : Frame) : NI (block w p f).1 := by
  unfold Sim.block; ni
macro_rules | `(tactic| ni_step) => `(tactic| with_reducible apply NI.block_fst)

theorem NI.setVar {w : World} (h : NI w) (p : Pid) (v x : Nat) : NI (setVar w p v x) := by
  unfold Sim.setVar; ni
macro_rules | `(tactic| ni_step) => `(tactic| with_reducible apply NI.setVar)

theorem NI.poolMug_fst : ∀ (fuel : Nat) {w : World}, NI w → ∀ (p : Pid) (pl rem : Nat), NI (poolMug fuel w p pl rem).1 := by
  intro fuel
  induction fuel with
  | zero => intro w h p pl rem; exact h
  | succ fuel ih =>
    intro w h p pl rem
    simp only [Sim.poolMug]
    repeat' first | (with_reducible refine ih ?_ _ _ _) | ni_step
macro_rules | `(tactic| ni_step) => `(tactic| (with_reducible refine NI.poolMug_fst _ ?_ _ _ _))

theorem NI.poolLoop_fst {w : World} (h : NI w) (p : Pid) (pl rem ini : Nat) (pre : Bool) :
    NI (poolLoop w p pl rem ini pre).1 := by
  simp only [Sim.poolLoop]; ni
macro_rules | `(tactic| ni_step) => `(tactic| with_reducible apply NI.poolLoop_fst)

theorem NI.poolRollback {w : World} (h : NI w) (p : Pid) (pl ini : Nat) : NI (poolRollback w p pl ini) := by
  simp only [Sim.poolRollback]; ni
macro_rules | `(tactic| ni_step) => `(tactic| with_reducible apply NI.poolRollback)

theorem NI.bufGetLoop_fst {w : World} (h : NI w) (p : Pid) (b rem got : Nat) : NI (bufGetLoop w p b rem got).1 := by
  simp only [Sim.bufGetLoop]; ni
macro_rules | `(tactic| ni_step) => `(tactic| with_reducible apply NI.bufGetLoop_fst)

theorem NI.bufPutLoop_fst {w : World} (h : NI w) (p : Pid) (b rem left : Nat) : NI (bufPutLoop w p b rem left).1 := by
  simp only [Sim.bufPutLoop]; ni
macro_rules | `(tactic| ni_step) => `(tactic| with_reducible apply NI.bufPutLoop_fst)

theorem NI.oqGetLoop_fst {w : World} (h : NI w) (p : Pid) (q : Nat) : NI (oqGetLoop w p q).1 := by
  simp only [Sim.oqGetLoop]; ni
macro_rules | `(tactic| ni_step) => `(tactic| with_reducible apply NI.oqGetLoop_fst)

theorem NI.oqPutLoop_fst {w : World} (h : NI w) (p : Pid) (q obj : Nat) : NI (oqPutLoop w p q obj).1 := by
  simp only [Sim.oqPutLoop]; ni
macro_rules | `(tactic| ni_step) => `(tactic| with_reducible apply NI.oqPutLoop_fst)

theorem NI.pqGetLoop_fst {w : World} (h : NI w) (p : Pid) (k : Nat) : NI (pqGetLoop w p k).1 := by
  simp only [Sim.pqGetLoop]; ni
macro_rules | `(tactic| ni_step) => `(tactic| with_reducible apply NI.pqGetLoop_fst)

theorem NI.pqPutLoop_fst {w : World} (h : NI w) (p : Pid) (k obj : Nat) (pri : Int) (v : Nat) :
    NI (pqPutLoop w p k obj pri v).1 := by
  simp only [Sim.pqPutLoop]; ni
macro_rules | `(tactic| ni_step) => `(tactic| with_reducible apply NI.pqPutLoop_fst)


theorem NI.acquireStep_fst {w : World} (h : NI w) (p : Pid) (r : Nat) : NI (acquireStep w p r).1 := by
  simp only [Sim.acquireStep]; ni
macro_rules | `(tactic| ni_step) => `(tactic| with_reducible apply NI.acquireStep_fst)

theorem NI.setRecording {w : World} (h : NI w) (kind idx : Nat) (on : Bool) : NI (setRecording w kind idx on) := by
  simp only [Sim.setRecording]; ni
macro_rules | `(tactic| ni_step) => `(tactic| with_reducible apply NI.setRecording)


theorem NI.reprioGuard {w : World} (h : NI w) (q : Pid) (v : Int) (g : Nat) : NI (reprioGuard w q v g) := by
  unfold S3.reprioGuard; ni

theorem NI.prioAwaitStep {w : World} (h : NI w) (q : Pid) (v : Int) (a : Await) : NI (prioAwaitStep q v w a) := by
  unfold S3.prioAwaitStep
  split
  · split
    · rename_i hr; exact h.reprioEv hr
    · exact h.fail _
  · exact h.reprioGuard q v _
  · exact h

theorem NI.prioHeldStep {w : World} (h : NI w) (q : Pid) (v : Int) (x : HoldRef) : NI (prioHeldStep q v w x) := by
  unfold S3.prioHeldStep; ni

/-- no notice is pending for `q` -/
def NQ (q : Pid) (w : World) : Prop := ∀ e ∈ w.ev.pending, isNotice e → e.item.b ≠ q + 1

theorem NQ.cancelAwaiteds {w : World} (hi : EvInv w.ev) (q : Pid) : NQ q (cancelAwaiteds w q) := by
  rw [cancelAwaiteds_eq]
  have hi3 : EvInv ((w.proc q).awaits.foldl (caStep q) (w.modProc q fun x => { x with awaits := [] })).ev :=
    (((Evo.refl w).modProc q _).caFold q _).evinv hi
  generalize ((w.proc q).awaits.foldl (caStep q) (w.modProc q fun x => { x with awaits := [] })) = w1 at hi3
  obtain ⟨hrel, hgone, _⟩ := cancelAllFor_spec w1 q hi3
  intro e he hn hb
  rcases hrel.pend e he with hold | ⟨_, _, _, _, _, _, heq⟩
  · exact hgone e he (EvInv.key_le hi3 hold) hb
  · rw [heq] at hn; exact absurd hn.1 (by show aEvent ≠ aRes; decide)

/-- the end of a process: its pending events, a notice included, are cancelled before its status changes -/
theorem NI.finishProc {fr : Pid → Option Frame} {w : World} (h : NI w) (hp : GInv noEx fr w) (q : Pid) (v : Int) (s : Bool) :
    NI (finishProc w q v s) := by
  unfold Sim.finishProc
  have hpre : NI (if s then Sim.dropResources (Sim.cancelAwaiteds w q) q else Sim.cancelAwaiteds (Sim.dropResources w q) q) ∧
      NQ q (if s then Sim.dropResources (Sim.cancelAwaiteds w q) q else Sim.cancelAwaiteds (Sim.dropResources w q) q) := by
    split
    · refine ⟨(h.cancelAwaiteds q).dropResources q, ?_⟩
      have hc := (hp.cancelAwaiteds q (noEx_not q)).1
      have hf := GrantFoot.dropResources hc q
      intro e he hn hb
      rcases hf.e e he with hold | ⟨_, hc0, _⟩
      · exact NQ.cancelAwaiteds hp.ei q e hold hn hb
      · exact hn.2 hc0
    · exact ⟨(h.dropResources q).cancelAwaiteds q, NQ.cancelAwaiteds (hp.dropResources q).ei q⟩
  obtain ⟨h1, hq1⟩ := hpre
  generalize (if s then Sim.dropResources (Sim.cancelAwaiteds w q) q else Sim.cancelAwaiteds (Sim.dropResources w q) q) = w1 at h1 hq1
  have h2 : NI (Sim.wakeWaiters w1 q (if s then sigStopped else sigSuccess)) := h1.wakeWaiters q _
  have hq2 : NQ q (Sim.wakeWaiters w1 q (if s then sigStopped else sigSuccess)) := by
    rw [wakeWaiters_eq]
    intro e he hn
    simp only [pushAll_pending, modProc_ev, List.mem_append] at he
    rcases he with he | he
    · obtain ⟨_, _, _, _, x, hx', heq⟩ := wakeEvs_props he
      simp only [procWakes, List.mem_map] at hx'
      obtain ⟨r, _, rfl⟩ := hx'
      rw [heq] at hn; exact absurd hn.1 (by show aProc ≠ aRes; decide)
    · exact hq1 e he hn
  have hfin : ∀ w2 : World, NI w2 → NQ q w2 →
      NI (w2.modProc q fun x => { x with status := .finished, exitVal := v, blocked := none }) := by
    intro w2 h2 hq2 e he hn
    obtain ⟨hb1, hst⟩ := h2 e he hn
    refine ⟨hb1, ?_⟩
    have hne : e.item.b - 1 ≠ q := by have := hq2 e he hn; omega
    rw [modProc_proc_ne w2 _ hne]; exact hst
  exact hfin _ h2 hq2

theorem NI.execCmd_fst {fr : Pid → Option Frame} {w : World} (h : NI w) (hp : GInv noEx fr w) (hnr : NRInv w) (p : Pid) (c : Cmd) :
    NI (execCmd w p c).1 := by
  cases c with
  | prioSet q v =>
    by_cases hq : q < w.procs.size
    · rw [prioSet_eq w p q v hq]
      dsimp only
      refine NI.foldl (fun w x h => h.prioHeldStep q v x) _ ?_
      refine NI.foldl (fun w x h => h.prioAwaitStep q v x) _ ?_
      ni
    · have : q ≥ w.procs.size := Nat.le_of_not_lt hq
      simp only [execCmd, this, if_true]
      exact h
  | stop q v =>
    simp only [execCmd]
    split
    · exact h.finishProc hp p v true
    · split
      · exact h.finishProc hp q v true
      · exact h
  | exit v => simp only [execCmd]; exact h.finishProc hp p v false
  | condCancel c q =>
    simp only [execCmd]
    split
    · exact h
    · rename_i g hc
      split
      · exact h
      · cases hg : w.guards[g]? with
        | none => rw [guardRemove_none hg]; exact h
        | some gd =>
          obtain ⟨q', _, _, _, heq⟩ := guardRemove_spec hg (hp.gw g gd hg) q
          rw [heq]
          dsimp only
          split
          · rename_i hwas
            have hk : q + 1 ∈ keys (abs gd.q) := by simpa using hwas
            have haw := (hp.gk g _ ⟨gd, hg, hk⟩).2.2 (noEx_not _)
            rw [Nat.add_sub_cancel] at haw
            refine NI.sched_fst (h.setGuardQ g q') _ _ _ _ _ (fun _ _ => ⟨Nat.succ_le_succ (Nat.zero_le _), ?_⟩)
            rw [Nat.add_sub_cancel]
            show (w.proc q).status = .running
            apply Classical.byContradiction
            intro hs
            rw [(hnr q hs).1] at haw; cases haw
          · exact h.setGuardQ g q'
  | _ => simp only [execCmd] <;> ni

theorem NI.resumeFrame_fst {w : World} (h : NI w) (p : Pid) (f : Frame) (sig : Int) :
    NI (resumeFrame w p f sig).1 := by
  cases f <;> simp only [resumeFrame] <;> ni

macro_rules | `(tactic| ni_step) => `(tactic| with_reducible apply NI.resumeFrame_fst)


end CimbaModel.Sim.S3
