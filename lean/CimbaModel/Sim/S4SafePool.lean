/-
  S4 — `Safe` through the primitives that touch holder lists (pools), `grab`, the end of a process, and the
  enqueue of a waiter (`guardWaitEnter`, which only has to stay fault-free: the command ends there).
-/
import CimbaModel.Sim.S4Safe
import CimbaModel.Sim.S1HH
import CimbaModel.Sim.S2HH

namespace CimbaModel.Sim.S4
open CimbaModel CimbaModel.Sim CimbaModel.Sim.S3 CimbaModel.Event CimbaModel.Generated CimbaModel.KPQ
open CimbaModel.HashHeap (HTag Item Order HH WF abs liveTags)

variable {ex : Nat → Prop} {w : World}

/-! ### hashheap facts -/

/-- pigeonhole: a well-formed hashheap whose keys are at most `n` has at most `n` entries -/
theorem count_le_of_keys {lt : Order} {s : HH} {n : Nat} (h : WF lt s) (hk : ∀ k ∈ keys (abs s), k ≤ n) : s.count ≤ n := by
  rw [← HashHeap.abs_length]
  have hl : (abs s).length = (keys (abs s)).length := by simp [keys]
  rw [hl]
  have hsub : keys (abs s) ⊆ List.range' 1 n := by
    intro k hk'
    have h0 := (h.keys_ne_zero hk').1
    have h1 := hk k hk'
    rw [List.mem_range']
    exact ⟨k - 1, by omega, by omega⟩
  have := List.Nodup.length_le_of_subset h.keys_nodup hsub
  simpa using this

theorem room_of_keys {lt : Order} {s : HH} {n : Nat} (h : WF lt s) (hk : ∀ k ∈ keys (abs s), k ≤ n) (hn : n < 2 ^ 31) :
    s.count < 2 ^ s.exp ∨ s.exp < 31 := by
  by_cases he : s.exp < 31
  · exact Or.inr he
  · left
    have := h.expLe
    have h31 : s.exp = 31 := by omega
    rw [h31]
    have := count_le_of_keys h hk
    omega

theorem findIndex_mem {lt : Order} {s : HH} (h : WF lt s) {k : Nat} (hk : k ∈ keys (abs s)) :
    ∃ i, 1 ≤ i ∧ i ≤ s.count ∧ (s.tag i).key = k ∧ HashHeap.findIndex s k = .ok i := by
  obtain ⟨i, hi, rfl⟩ := (HashHeap.mem_keys_abs s k).1 hk
  exact ⟨i, hi.1, hi.2, rfl, HashHeap.findIndex_of_mem h hi⟩

theorem findIndex_total {lt : Order} {s : HH} (h : WF lt s) (k : Nat) : ∃ i, HashHeap.findIndex s k = .ok i := by
  by_cases hk : k ∈ keys (abs s)
  · obtain ⟨i, _, _, _, hf⟩ := findIndex_mem h hk; exact ⟨i, hf⟩
  · exact ⟨0, HashHeap.findIndex_of_not_mem h hk⟩

theorem keys_sub_of_remove {q q' : KPQ} {k : Nat} (hperm : q'.Perm (KPQ.remove q k)) {j : Nat} (hj : j ∈ keys q') : j ∈ keys q := by
  obtain ⟨e, he, rfl⟩ := Event.mem_keys.1 ((HashHeap.keys_perm hperm _).1 hj)
  exact Event.mem_keys.2 ⟨e, (S3.mem_remove.1 he).1, rfl⟩

/-- a positive held amount means there is a record -/
theorem heldAmount_pos {pl : Nat} {p : Pid} {x : Pool} (hx : w.pools[pl]? = some x) (hwf : HWF x.holders)
    (hpos : 0 < heldAmount w pl p) : p + 1 ∈ keys (abs x.holders) := by
  unfold heldAmount at hpos
  rw [hx] at hpos
  simp only at hpos
  split at hpos
  · omega
  · obtain ⟨i, hi⟩ := findIndex_total hwf (p + 1)
    rw [hi] at hpos
    have : i ≠ 0 := by
      intro e; subst e; simp at hpos
    exact (hh_findIndex hwf (p + 1) hi).1 this

/-! ### holder lists -/

theorem Safe.setHolders (h : Safe ex w) (pl : Nat) (x : Pool) (hx : w.pools[pl]? = some x) (y : Pool)
    (hs : poolStat y = poolStat x) (hwf : HWF y.holders) (hk : ∀ k ∈ keys (abs y.holders), k ≤ w.procs.size) :
    Safe ex { w with pools := w.pools.set! pl y } :=
  h.setPoolsSet pl y (fun x' hx' => by rw [hx] at hx'; cases hx'; exact hs) ⟨hwf, hk⟩

theorem Safe.poolDropHolder (h : Safe ex w) (pl : Nat) (p : Pid) : Safe ex (Sim.poolDropHolder w pl p) := by
  unfold Sim.poolDropHolder
  split
  · exact h
  · rename_i x hx
    obtain ⟨hwf, hkb⟩ := h.hq pl x hx
    obtain ⟨i, hi⟩ := findIndex_total hwf (p + 1)
    rw [hi]
    obtain ⟨h', hrun, hwf', hperm, _⟩ := HashHeap.remove_abs hwf (p + 1) (by omega)
    split
    · exact h
    · rename_i i' hne heq
      simp only [hrun]
      apply Safe.signal
      apply Safe.recordPool
      exact h.setHolders pl x hx _ rfl hwf' (fun k hk => hkb k (keys_sub_of_remove hperm hk))
    · rename_i heq; cases heq
macro_rules | `(tactic| safe_step) => `(tactic| with_reducible apply Safe.poolDropHolder)

theorem Safe.dropResources (h : Safe ex w) (p : Pid) : Safe ex (Sim.dropResources w p) := by
  unfold Sim.dropResources
  exact Safe.foldl (fun w a h => by safe) _ (by safe)
macro_rules | `(tactic| safe_step) => `(tactic| with_reducible apply Safe.dropResources)

theorem Safe.finishProc (h : Safe ex w) (p : Pid) (v : Int) (s : Bool) : Safe ex (Sim.finishProc w p v s) := by
  unfold Sim.finishProc; safe
macro_rules | `(tactic| safe_step) => `(tactic| with_reducible apply Safe.finishProc)

/-- `grab` on a free resource -/
theorem Safe.grab (h : Safe ex w) (r : Nat) (p : Pid) (hfree : ∀ x, w.res[r]? = some x → x.holder = none) :
    Safe ex (Sim.grab w r p) := by
  unfold Sim.grab
  split
  · rename_i x hx
    have : x.holder.isSome = false := by rw [hfree x hx]; rfl
    simp only [this, Bool.false_eq_true, if_false]
    safe
  · exact h

theorem Safe.setHeldAmount (h : Safe ex w) (pl : Nat) (p : Pid) (a : Nat)
    (hpres : ∀ x, w.pools[pl]? = some x → p + 1 ∈ keys (abs x.holders)) : Safe ex (Sim.setHeldAmount w pl p a) := by
  unfold Sim.setHeldAmount
  split
  · rename_i x hx
    obtain ⟨hwf, hkb⟩ := h.hq pl x hx
    obtain ⟨i, hi1, hi2, _, hfi⟩ := findIndex_mem hwf (hpres x hx)
    rw [hfi]
    have hi0 : ¬ i = 0 := by omega
    simp only [hi0, if_false]
    obtain ⟨hwf', hk'⟩ := wf_setItem hwf (fun a b x y => HashHeap.IgnoresItem.eq a b x y) i hi1 hi2
      { (x.holders.tag i).item with b := a }
    unfold hkeys at hk'
    refine h.setHolders pl x hx _ rfl hwf' (fun k hk => hkb k ?_)
    rw [← hk']; exact hk
  · exact h

theorem Safe.poolUpdateRecord (h : Safe ex w) (pl : Nat) (p : Pid) (a : Nat) (hp : p < w.procs.size) :
    Safe ex (Sim.poolUpdateRecord w pl p a) := by
  unfold Sim.poolUpdateRecord
  split
  · exact h
  · rename_i x hx
    obtain ⟨hwf, hkb⟩ := h.hq pl x hx
    by_cases hk : p + 1 ∈ keys (abs x.holders)
    · obtain ⟨i, hi1, hi2, _, hfi⟩ := findIndex_mem hwf hk
      have hc : ¬ x.holders.count = 0 := by omega
      have hi0 : i ≠ 0 := by omega
      simp only [hc, if_false, hfi, ne_eq, hi0, not_false_eq_true, decide_true, if_true]
      obtain ⟨hwf', hk'⟩ := wf_setItem hwf (fun a b x y => HashHeap.IgnoresItem.eq a b x y) i hi1 hi2
        { (x.holders.tag i).item with b := (x.holders.tag i).item.b + a }
      unfold hkeys at hk'
      refine h.setHolders pl x hx _ rfl hwf' (fun k hk2 => hkb k ?_)
      rw [← hk']; exact hk2
    · have hfi := HashHeap.findIndex_of_not_mem hwf hk
      rw [hfi]
      simp only [ne_eq, not_true_eq_false, decide_false, ite_self, Bool.false_eq_true, if_false]
      have hpsz := h.st.psz
      have h64 : p + 1 < 2 ^ 64 :=
        Nat.lt_trans (Nat.lt_of_le_of_lt (Nat.succ_le_of_lt hp) hpsz) (by decide)
      obtain ⟨h', hrun, hwf', hperm, _⟩ := HashHeap.enqueue_abs hwf ⟨p + 1, a, 0, 0⟩ (p + 1) 0
        ((w.modProc p fun y => { y with held := HoldRef.pool pl :: y.held }).proc p).prio
        (by simp) (by simpa using h64) (by simpa using hk) (room_of_keys hwf hkb hpsz)
      simp only [Nat.succ_ne_zero, if_false] at hrun hperm
      simp only [hrun]
      have h1 : Safe ex (w.modProc p fun y => { y with held := HoldRef.pool pl :: y.held }) := by safe
      have hx1 : (w.modProc p fun y => { y with held := HoldRef.pool pl :: y.held }).pools[pl]? = some x := hx
      refine h1.setHolders pl x hx1 { x with holders := h' } rfl hwf' (fun k hk2 => ?_)
      have := (HashHeap.keys_perm hperm k).1 hk2
      simp only [keys, KPQ.insert, List.map_cons, List.mem_cons] at this
      rcases this with rfl | hm
      · simp only [modProc_procs_size]; exact Nat.succ_le_of_lt hp
      · simp only [modProc_procs_size]; exact hkb k hm

end CimbaModel.Sim.S4
