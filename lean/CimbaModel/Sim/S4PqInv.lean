/-
  S4 — the priority queues' hashheaps stay well-formed with handles issued by the counter (`PQS`), as long as the handle
  counter is below 2⁶⁴ − 1 (S2's `PQInv` says more, but the S2 files cannot be imported next to the S1 files).
-/
import CimbaModel.Sim.S4Pq
import CimbaModel.Sim.S2HH
import CimbaModel.Sim.S1HH

namespace CimbaModel.Sim.S4
open CimbaModel CimbaModel.Sim CimbaModel.Event CimbaModel.Generated CimbaModel.KPQ
open CimbaModel.HashHeap (HTag Item Order HH WF abs KeysBelowCounter)

structure PQOk (x : PQ) : Prop where
  wf : WF compare_func x.queue
  below : KeysBelowCounter x.queue
  ctr : x.queue.counter = x.putLog.length

def PQGood (x : PQ) : Prop := x.putLog.length + 1 < 2 ^ 64 → PQOk x

def PQS (w : World) : Prop := ∀ (k : Nat) (x : PQ), w.pqs[k]? = some x → PQGood x

theorem PQS.of_eq {w w' : World} (h : PQS w) (he : w'.pqs = w.pqs) : PQS w' := by
  intro k x hx; rw [he] at hx; exact h k x hx

theorem PQS.set {w : World} (h : PQS w) (k : Nat) (y : PQ) (hy : PQGood y) : PQS { w with pqs := w.pqs.set! k y } := by
  intro i z hz
  simp only [Array.set!_eq_setIfInBounds, Array.getElem?_setIfInBounds] at hz
  split at hz
  · split at hz
    · cases hz; exact hy
    · cases hz
  · exact h i z hz

theorem PQS.modify {w : World} (h : PQS w) (k : Nat) (f : PQ → PQ) (hf : ∀ x, (f x).queue = x.queue ∧ (f x).putLog = x.putLog) :
    PQS { w with pqs := w.pqs.modify k f } := by
  intro i z hz
  simp only [Array.getElem?_modify] at hz
  split at hz
  · cases hy : w.pqs[i]? with
    | none => rw [hy] at hz; cases hz
    | some y =>
      rw [hy] at hz
      simp only [Option.map_some, Option.some.injEq] at hz
      subst hz
      intro hb
      rw [(hf y).2] at hb
      obtain ⟨a, b, c⟩ := h i y hy hb
      exact ⟨by rw [(hf y).1]; exact a, by rw [(hf y).1]; exact b, by rw [(hf y).1, (hf y).2]; exact c⟩
  · exact h i z hz

theorem PQS.recordPQ {w : World} (h : PQS w) (k : Nat) : PQS (Sim.recordPQ w k) := by
  unfold Sim.recordPQ
  split
  · rename_i x hx
    split
    · exact h.set k _ (fun hb => let ⟨a, b, c⟩ := h k x hx hb; ⟨a, b, c⟩)
    · exact h
  · exact h

theorem PQS.pqGetLoop {w : World} (h : PQS w) (p : Pid) (k : Nat) : PQS (Sim.pqGetLoop w p k).1 := by
  unfold Sim.pqGetLoop
  split
  · exact h.of_eq (by simp)
  · rename_i x hx
    split
    · rename_i hpos
      split
      · rename_i q' t heq
        dsimp only
        refine PQS.of_eq (w := Sim.recordPQ { w with pqs := w.pqs.set! k { x with queue := q', gotLog := x.gotLog ++ [t.key] } } k) ?_ (by simp)
        apply PQS.recordPQ
        refine h.set k _ (fun hb => ?_)
        obtain ⟨hwf, hbelow, hctr⟩ := h k x hx hb
        obtain ⟨s', hrun, hwf', hperm, _, _, _, hc⟩ := HashHeap.dequeue_abs hwf hpos
        rw [hrun] at heq
        simp only [Except.ok.injEq, Prod.mk.injEq] at heq
        obtain ⟨rfl, _⟩ := heq
        refine ⟨hwf', ?_, by rw [hc]; exact hctr⟩
        apply hbelow.of_subset (by rw [hc]; exact Nat.le_refl _)
        intro j hj
        have := (HashHeap.keys_perm hperm j).2
        simp only [keys, List.map_cons, List.mem_cons] at this
        exact this (Or.inr hj)
      · exact h.of_eq (by simp)
      · exact h.of_eq (by simp)
    · exact h.of_eq (by simp [block])

theorem PQS.pqPutLoop {w : World} (h : PQS w) (p : Pid) (k obj : Nat) (pri : Int) (v : Nat) : PQS (Sim.pqPutLoop w p k obj pri v).1 := by
  unfold Sim.pqPutLoop
  split
  · exact h.of_eq (by simp)
  · rename_i x hx
    split
    · split
      · rename_i q' hh heq
        dsimp only
        refine PQS.of_eq (w := Sim.recordPQ (setVar { w with pqs := w.pqs.set! k { x with queue := q', putLog := x.putLog ++ [hh] } } p v hh) k) ?_ (by simp)
        apply PQS.recordPQ
        refine PQS.of_eq (w := { w with pqs := w.pqs.set! k { x with queue := q', putLog := x.putLog ++ [hh] } }) ?_
          (by unfold Sim.setVar; split <;> rfl)
        refine h.set k _ (fun hb => ?_)
        have hb' : x.putLog.length + 1 < 2 ^ 64 := by
          simp only [List.length_append, List.length_cons, List.length_nil] at hb; omega
        obtain ⟨hwf, hbelow, hctr⟩ := h k x hx hb'
        have hk0 : (if (0:Nat) = 0 then x.queue.counter + 1 else 0) ≠ 0 := by simp
        have hk64 : (if (0:Nat) = 0 then x.queue.counter + 1 else 0) < 2 ^ 64 := by simp; omega
        have hfresh : (if (0:Nat) = 0 then x.queue.counter + 1 else 0) ∉ keys (abs x.queue) := by
          simp only [if_true]; exact hbelow.fresh
        obtain ⟨_, hwf', hperm, hc, _⟩ := HashHeap.enqueue_ok_inv hwf ⟨obj, 0, 0, 0⟩ 0 0 pri hk0 hk64 hfresh heq
        refine ⟨hwf', ?_, by simp only [List.length_append, List.length_cons, List.length_nil]; rw [hc, hctr]⟩
        intro j hj
        show j ≤ q'.counter
        have := (HashHeap.keys_perm hperm j).1 hj
        simp only [keys, KPQ.insert, List.map_cons, List.mem_cons] at this
        have hk : hh = x.queue.counter + 1 := by
          have := (HashHeap.enqueue_ok_inv hwf ⟨obj, 0, 0, 0⟩ 0 0 pri hk0 hk64 hfresh heq).1
          simpa using this
        rcases this with hj' | hm
        · rw [hc, hj', hk]; exact Nat.le_refl _
        · have := hbelow j hm; omega
      · exact h.of_eq (by simp)
    · exact h.of_eq (by simp [block])

theorem PQS.setRecording {w : World} (h : PQS w) (kind idx : Nat) (on : Bool) : PQS (Sim.setRecording w kind idx on) := by
  by_cases hk : kind < 4
  · exact h.of_eq (setRecording_pqs_other w kind idx on hk)
  · obtain ⟨n, rfl⟩ : ∃ n, kind = n + 4 := ⟨kind - 4, by omega⟩
    rw [setRecording_pq]
    split
    · exact (h.modify idx (fun x => { x with recording := on }) (fun _ => ⟨rfl, rfl⟩)).recordPQ idx
    · exact (h.recordPQ idx).modify idx (fun x => { x with recording := on }) (fun _ => ⟨rfl, rfl⟩)

theorem PQS.execCmd {w : World} (h : PQS w) (p : Pid) (c : Cmd) : PQS (Sim.execCmd w p c).1 := by
  by_cases hc : (∀ k, c ≠ .pqGet k) ∧ (∀ k o pr v, c ≠ .pqPut k o pr v) ∧ (∀ k v, c ≠ .pqCancel k v) ∧ (∀ k v pr, c ≠ .pqReprio k v pr) ∧
      (∀ k i, c ≠ .recStart k i) ∧ (∀ k i, c ≠ .recStop k i)
  · exact h.of_eq (execCmd_pqs w p c hc)
  cases c
  case pqGet k => simp only [Sim.execCmd]; split; exact h; exact h.pqGetLoop p k
  case pqPut k obj pri v => simp only [Sim.execCmd]; split; exact h; exact h.pqPutLoop p k obj pri v
  case pqCancel k v =>
    simp only [Sim.execCmd]
    split
    · exact h
    · rename_i x hx
      split
      · exact h
      · rename_i h0
        split
        · rename_i q' r heq
          dsimp only
          have hy : PQGood { x with queue := q', cancelLog := if r = true then x.cancelLog ++ [getVar w p v] else x.cancelLog } := by
            intro hb
            obtain ⟨hwf, hbelow, hctr⟩ := h k x hx hb
            obtain ⟨s', hrun, hwf', hperm, _, _, hc', _⟩ := HashHeap.remove_abs hwf (getVar w p v) h0
            rw [hrun] at heq
            simp only [Except.ok.injEq, Prod.mk.injEq] at heq
            obtain ⟨rfl, _⟩ := heq
            refine ⟨hwf', ?_, by rw [hc']; exact hctr⟩
            apply hbelow.of_subset (by rw [hc']; exact Nat.le_refl _)
            intro j hj
            obtain ⟨e, he, rfl⟩ := Event.mem_keys.1 ((HashHeap.keys_perm hperm _).1 hj)
            exact Event.mem_keys.2 ⟨e, (List.mem_filter.1 he).1, rfl⟩
          have h1 := h.set k _ hy
          split
          · exact (h1.recordPQ k).of_eq (by simp [*])
          · rename_i hr
            have hr' : r = false := by cases r <;> simp_all
            subst hr'
            exact h1
        · exact h.of_eq (by simp)
  case pqReprio k v pri =>
    simp only [Sim.execCmd]
    split
    · exact h
    · rename_i x hx
      split
      · exact h
      · split
        · rename_i q' heq
          refine h.set k _ (fun hb => ?_)
          obtain ⟨hwf, hbelow, hctr⟩ := h k x hx hb
          have hr := hh_reprio_ok hwf heq
          have hc' : q'.counter = x.queue.counter := by
            by_cases hm : getVar w p v ∈ keys (abs x.queue)
            · obtain ⟨s', hrun, _, _, _, _, hc'⟩ := HashHeap.reprio_abs hwf hm 0 pri
              rw [hrun] at heq; cases heq; exact hc'
            · exfalso
              unfold HashHeap.reprioritize at heq
              by_cases hk0 : getVar w p v = 0
              · simp [hk0] at heq
              · rw [if_neg hk0, HashHeap.findIndex_of_not_mem hwf hm] at heq
                simp at heq
          refine ⟨hr.1, ?_, by rw [hc']; exact hctr⟩
          intro j hj
          have : j ∈ hkeys x.queue := (hr.2 j).1 hj
          rw [hc']; exact hbelow j this
        · exact h.of_eq (by simp)
  case recStart kind idx => simp only [Sim.execCmd]; exact h.setRecording kind idx true
  case recStop kind idx => simp only [Sim.execCmd]; exact h.setRecording kind idx false
  all_goals (exfalso; apply hc; refine ⟨?_, ?_, ?_, ?_, ?_, ?_⟩ <;> intros <;> (intro h; cases h))

theorem PQS.resumeFrame {w : World} (h : PQS w) (p : Pid) (f : Frame) (sig : Int) : PQS (Sim.resumeFrame w p f sig).1 := by
  cases f
  case pqGet k =>
    simp only [Sim.resumeFrame]
    split
    · exact h
    · split
      · exact (h.of_eq (by simp)).pqGetLoop p k
      · exact h.of_eq (by simp)
  case pqPut k obj pri v =>
    simp only [Sim.resumeFrame]
    split
    · exact h
    · split
      · exact (h.of_eq (by simp)).pqPutLoop p k obj pri v
      · exact h.of_eq (by simp)
  all_goals (apply h.of_eq; simp only [Sim.resumeFrame]; first | frame_close | (repeat' split; all_goals first | rfl | (simp; done)))

/-- what a `put` needs -/
theorem PQS.room {w : World} (h : PQS w) {k : Nat} {x : PQ} (hx : w.pqs[k]? = some x) (hb : x.putLog.length + 1 < 2 ^ 31) :
    WF compare_func x.queue ∧ KeysBelowCounter x.queue ∧ x.queue.counter + 1 < 2 ^ 31 := by
  obtain ⟨a, b, c⟩ := h k x hx (Nat.lt_trans hb (by decide))
  exact ⟨a, b, by rw [c]; exact hb⟩

end CimbaModel.Sim.S4
