/-
  S3 — static data: no function of the process layer changes a script, the guard / capacity assigned to a resource,
  pool, buffer or queue, the conditions table, nor whether a guard is a condition and who observes it.
  (`Stat w w'`, same traversal scheme as `Evo`.)
-/
import CimbaModel.Sim.S3Clock

namespace CimbaModel.Sim.S3
open CimbaModel CimbaModel.Sim CimbaModel.Event CimbaModel.Generated CimbaModel.KPQ
open CimbaModel.HashHeap (HTag Item Order HH WF abs liveTags)

def resStat (x : Res) : Nat := x.guard
def poolStat (x : Pool) : Nat × Nat := (x.guard, x.cap)
def bufStat (x : Buf) : Nat × Nat × Nat := (x.front, x.rear, x.cap)
def oqStat (x : OQ) : Nat × Nat × Nat := (x.front, x.rear, x.cap)
def pqStat (x : PQ) : Nat × Nat × Nat := (x.front, x.rear, x.cap)
def guardStat (x : Guard) : Bool × List Nat := (x.isCond, x.observers)

structure Stat (w w' : World) : Prop where
  conds : w'.conds = w.conds
  psize : w'.procs.size = w.procs.size
  script : ∀ p, (w'.proc p).script = (w.proc p).script
  res : ∀ i : Nat, (w'.res[i]?).map resStat = (w.res[i]?).map resStat
  pools : ∀ i : Nat, (w'.pools[i]?).map poolStat = (w.pools[i]?).map poolStat
  bufs : ∀ i : Nat, (w'.bufs[i]?).map bufStat = (w.bufs[i]?).map bufStat
  oqs : ∀ i : Nat, (w'.oqs[i]?).map oqStat = (w.oqs[i]?).map oqStat
  pqs : ∀ i : Nat, (w'.pqs[i]?).map pqStat = (w.pqs[i]?).map pqStat
  guards : ∀ i : Nat, (w'.guards[i]?).map guardStat = (w.guards[i]?).map guardStat

theorem Stat.refl (w : World) : Stat w w :=
  ⟨rfl, rfl, fun _ => rfl, fun _ => rfl, fun _ => rfl, fun _ => rfl, fun _ => rfl, fun _ => rfl, fun _ => rfl⟩

theorem Stat.trans {w w1 w2 : World} (h1 : Stat w w1) (h2 : Stat w1 w2) : Stat w w2 :=
  ⟨h2.conds.trans h1.conds, h2.psize.trans h1.psize, fun p => (h2.script p).trans (h1.script p),
   fun i => (h2.res i).trans (h1.res i), fun i => (h2.pools i).trans (h1.pools i), fun i => (h2.bufs i).trans (h1.bufs i),
   fun i => (h2.oqs i).trans (h1.oqs i), fun i => (h2.pqs i).trans (h1.pqs i), fun i => (h2.guards i).trans (h1.guards i)⟩

theorem map_set!_same {α β : Type} (xs : Array α) (i : Nat) (v : α) (f : α → β)
    (hv : ∀ x, xs[i]? = some x → f v = f x) (j : Nat) : ((xs.set! i v)[j]?).map f = (xs[j]?).map f := by
  rw [Array.set!_eq_setIfInBounds, Array.getElem?_setIfInBounds]
  split
  · rename_i hij; subst hij
    split
    · rename_i hlt
      rw [Array.getElem?_eq_getElem hlt]
      simp only [Option.map_some]
      rw [hv _ (Array.getElem?_eq_getElem hlt)]
    · rename_i hlt
      rw [Array.getElem?_eq_none (Nat.le_of_not_lt hlt)]
  · rfl

theorem map_modify_same {α β : Type} (xs : Array α) (i : Nat) (g : α → α) (f : α → β)
    (hg : ∀ x, f (g x) = f x) (j : Nat) : ((xs.modify i g)[j]?).map f = (xs[j]?).map f := by
  rw [Array.getElem?_modify]
  split
  · cases xs[j]? with
    | none => rfl
    | some x => simp [hg]
  · rfl

/-- nothing static changed: same tables except possibly events / faults / flags / variables / log -/
theorem Stat.same {w0 w w' : World} (h : Stat w0 w) (hp : w'.procs = w.procs) (hr : w'.res = w.res) (hpl : w'.pools = w.pools)
    (hb : w'.bufs = w.bufs) (ho : w'.oqs = w.oqs) (hq : w'.pqs = w.pqs) (hg : w'.guards = w.guards) (hc : w'.conds = w.conds) :
    Stat w0 w' :=
  h.trans ⟨hc, by rw [hp], fun p => by unfold World.proc; rw [hp], fun i => by rw [hr], fun i => by rw [hpl], fun i => by rw [hb],
    fun i => by rw [ho], fun i => by rw [hq], fun i => by rw [hg]⟩

theorem Stat.fail {w0 w : World} (h : Stat w0 w) (m : String) : Stat w0 (w.fail m) :=
  h.same (by simp) (by simp) (by simp) (by simp) (by simp) (by simp) (by simp) (by simp)
theorem Stat.emit {w0 w : World} (h : Stat w0 w) (l : String) : Stat w0 (w.emit l) := h.same rfl rfl rfl rfl rfl rfl rfl rfl
theorem Stat.modProc {w0 w : World} (h : Stat w0 w) (p : Pid) (f : Proc → Proc) (hf : ∀ x, (f x).script = x.script) :
    Stat w0 (w.modProc p f) := by
  refine h.trans ⟨rfl, by simp, fun q => ?_, fun _ => rfl, fun _ => rfl, fun _ => rfl, fun _ => rfl, fun _ => rfl, fun _ => rfl⟩
  rw [modProc_proc]; split
  · rename_i hq; rw [hq.1]; exact hf _
  · rfl
theorem Stat.setEvWaiters {w0 w : World} (h : Stat w0 w) (x : List (Nat × List Pid)) : Stat w0 { w with evWaiters := x } :=
  h.same rfl rfl rfl rfl rfl rfl rfl rfl
theorem Stat.setEv {w0 w : World} (h : Stat w0 w) (x : EvQ) : Stat w0 { w with ev := x } := h.same rfl rfl rfl rfl rfl rfl rfl rfl
theorem Stat.setFlags {w0 w : World} (h : Stat w0 w) (x : Array Int) : Stat w0 { w with flags := x } :=
  h.same rfl rfl rfl rfl rfl rfl rfl rfl
theorem Stat.setGvars {w0 w : World} (h : Stat w0 w) (x : Array Nat) : Stat w0 { w with gvars := x } :=
  h.same rfl rfl rfl rfl rfl rfl rfl rfl

theorem Stat.setResSet {w0 w : World} (h : Stat w0 w) (r : Nat) (y : Res) (hy : ∀ x, w.res[r]? = some x → resStat y = resStat x) :
    Stat w0 { w with res := w.res.set! r y } :=
  h.trans ⟨rfl, rfl, fun _ => rfl, map_set!_same _ _ _ _ hy, fun _ => rfl, fun _ => rfl, fun _ => rfl, fun _ => rfl, fun _ => rfl⟩
theorem Stat.setResModify {w0 w : World} (h : Stat w0 w) (r : Nat) (g : Res → Res) (hg : ∀ x, resStat (g x) = resStat x) :
    Stat w0 { w with res := w.res.modify r g } :=
  h.trans ⟨rfl, rfl, fun _ => rfl, map_modify_same _ _ _ _ hg, fun _ => rfl, fun _ => rfl, fun _ => rfl, fun _ => rfl, fun _ => rfl⟩
theorem Stat.setPoolsSet {w0 w : World} (h : Stat w0 w) (r : Nat) (y : Pool) (hy : ∀ x, w.pools[r]? = some x → poolStat y = poolStat x) :
    Stat w0 { w with pools := w.pools.set! r y } :=
  h.trans ⟨rfl, rfl, fun _ => rfl, fun _ => rfl, map_set!_same _ _ _ _ hy, fun _ => rfl, fun _ => rfl, fun _ => rfl, fun _ => rfl⟩
theorem Stat.setPoolsModify {w0 w : World} (h : Stat w0 w) (r : Nat) (g : Pool → Pool) (hg : ∀ x, poolStat (g x) = poolStat x) :
    Stat w0 { w with pools := w.pools.modify r g } :=
  h.trans ⟨rfl, rfl, fun _ => rfl, fun _ => rfl, map_modify_same _ _ _ _ hg, fun _ => rfl, fun _ => rfl, fun _ => rfl, fun _ => rfl⟩
theorem Stat.setBufsSet {w0 w : World} (h : Stat w0 w) (r : Nat) (y : Buf) (hy : ∀ x, w.bufs[r]? = some x → bufStat y = bufStat x) :
    Stat w0 { w with bufs := w.bufs.set! r y } :=
  h.trans ⟨rfl, rfl, fun _ => rfl, fun _ => rfl, fun _ => rfl, map_set!_same _ _ _ _ hy, fun _ => rfl, fun _ => rfl, fun _ => rfl⟩
theorem Stat.setBufsModify {w0 w : World} (h : Stat w0 w) (r : Nat) (g : Buf → Buf) (hg : ∀ x, bufStat (g x) = bufStat x) :
    Stat w0 { w with bufs := w.bufs.modify r g } :=
  h.trans ⟨rfl, rfl, fun _ => rfl, fun _ => rfl, fun _ => rfl, map_modify_same _ _ _ _ hg, fun _ => rfl, fun _ => rfl, fun _ => rfl⟩
theorem Stat.setOqsSet {w0 w : World} (h : Stat w0 w) (r : Nat) (y : OQ) (hy : ∀ x, w.oqs[r]? = some x → oqStat y = oqStat x) :
    Stat w0 { w with oqs := w.oqs.set! r y } :=
  h.trans ⟨rfl, rfl, fun _ => rfl, fun _ => rfl, fun _ => rfl, fun _ => rfl, map_set!_same _ _ _ _ hy, fun _ => rfl, fun _ => rfl⟩
theorem Stat.setOqsModify {w0 w : World} (h : Stat w0 w) (r : Nat) (g : OQ → OQ) (hg : ∀ x, oqStat (g x) = oqStat x) :
    Stat w0 { w with oqs := w.oqs.modify r g } :=
  h.trans ⟨rfl, rfl, fun _ => rfl, fun _ => rfl, fun _ => rfl, fun _ => rfl, map_modify_same _ _ _ _ hg, fun _ => rfl, fun _ => rfl⟩
theorem Stat.setPqsSet {w0 w : World} (h : Stat w0 w) (r : Nat) (y : PQ) (hy : ∀ x, w.pqs[r]? = some x → pqStat y = pqStat x) :
    Stat w0 { w with pqs := w.pqs.set! r y } :=
  h.trans ⟨rfl, rfl, fun _ => rfl, fun _ => rfl, fun _ => rfl, fun _ => rfl, fun _ => rfl, map_set!_same _ _ _ _ hy, fun _ => rfl⟩
theorem Stat.setPqsModify {w0 w : World} (h : Stat w0 w) (r : Nat) (g : PQ → PQ) (hg : ∀ x, pqStat (g x) = pqStat x) :
    Stat w0 { w with pqs := w.pqs.modify r g } :=
  h.trans ⟨rfl, rfl, fun _ => rfl, fun _ => rfl, fun _ => rfl, fun _ => rfl, fun _ => rfl, map_modify_same _ _ _ _ hg, fun _ => rfl⟩
theorem Stat.setGuardsSet {w0 w : World} (h : Stat w0 w) (g : Nat) (y : Guard) (hy : ∀ x, w.guards[g]? = some x → guardStat y = guardStat x) :
    Stat w0 { w with guards := w.guards.set! g y } :=
  h.trans ⟨rfl, rfl, fun _ => rfl, fun _ => rfl, fun _ => rfl, fun _ => rfl, fun _ => rfl, fun _ => rfl, map_set!_same _ _ _ _ hy⟩
theorem Stat.setGuardQ {w0 w : World} (h : Stat w0 w) (g : Nat) (q : HH) : Stat w0 (setGuardQ w g q) :=
  h.trans ⟨rfl, rfl, fun _ => rfl, fun _ => rfl, fun _ => rfl, fun _ => rfl, fun _ => rfl, fun _ => rfl,
    map_modify_same _ _ _ _ (fun _ => rfl)⟩

theorem Stat.sched_fst {w0 w : World} (h : Stat w0 w) (a s : Nat) (sig t pri : Int) : Stat w0 (sched w a s sig t pri).1 :=
  h.same (by simp) (by simp) (by simp) (by simp) (by simp) (by simp) (by simp) (by simp)
theorem Stat.evCancel_fst {w0 w : World} (h : Stat w0 w) (k : Nat) : Stat w0 (evCancel w k).1 :=
  h.same (evCancel_rel w k).procs (evCancel_rel w k).res (evCancel_rel w k).pools (evCancel_rel w k).bufs
    (evCancel_rel w k).oqs (evCancel_rel w k).pqs (evCancel_rel w k).guards (evCancel_rel w k).conds

theorem Stat.foldl {α : Type} {f : World → α → World} (hf : ∀ w a, Stat w (f w a)) {w0 : World} :
    ∀ (l : List α) {w : World}, Stat w0 w → Stat w0 (l.foldl f w) := by
  intro l
  induction l with
  | nil => intro w h; exact h
  | cons a l ih => intro w h; exact ih (h.trans (hf w a))

/-- side condition of the `set!` lemmas: the element written carries the static data of the element read -/
macro "stat_side" : tactic => `(tactic| (intro x hx; simp_all [resStat, poolStat, bufStat, oqStat, pqStat, guardStat, removeHeld]))

syntax "stat_step" : tactic
macro_rules | `(tactic| stat_step) => `(tactic| dsimp only)
macro_rules | `(tactic| stat_step) => `(tactic| (guard_world_lit; with_reducible refine Stat.setGuardsSet ?_ _ _ (by stat_side)))
macro_rules | `(tactic| stat_step) => `(tactic| (guard_world_lit; with_reducible apply Stat.setGvars))
macro_rules | `(tactic| stat_step) => `(tactic| (guard_world_lit; with_reducible apply Stat.setFlags))
macro_rules | `(tactic| stat_step) => `(tactic| (guard_world_lit; with_reducible apply Stat.setEv))
macro_rules | `(tactic| stat_step) => `(tactic| (guard_world_lit; with_reducible refine Stat.setPqsModify ?_ _ _ (fun _ => rfl)))
macro_rules | `(tactic| stat_step) => `(tactic| (guard_world_lit; with_reducible refine Stat.setPqsSet ?_ _ _ (by stat_side)))
macro_rules | `(tactic| stat_step) => `(tactic| (guard_world_lit; with_reducible refine Stat.setOqsModify ?_ _ _ (fun _ => rfl)))
macro_rules | `(tactic| stat_step) => `(tactic| (guard_world_lit; with_reducible refine Stat.setOqsSet ?_ _ _ (by stat_side)))
macro_rules | `(tactic| stat_step) => `(tactic| (guard_world_lit; with_reducible refine Stat.setBufsModify ?_ _ _ (fun _ => rfl)))
macro_rules | `(tactic| stat_step) => `(tactic| (guard_world_lit; with_reducible refine Stat.setBufsSet ?_ _ _ (by stat_side)))
macro_rules | `(tactic| stat_step) => `(tactic| (guard_world_lit; with_reducible refine Stat.setPoolsModify ?_ _ _ (fun _ => rfl)))
macro_rules | `(tactic| stat_step) => `(tactic| (guard_world_lit; with_reducible refine Stat.setPoolsSet ?_ _ _ (by stat_side)))
macro_rules | `(tactic| stat_step) => `(tactic| (guard_world_lit; with_reducible refine Stat.setResModify ?_ _ _ (fun _ => rfl)))
macro_rules | `(tactic| stat_step) => `(tactic| (guard_world_lit; with_reducible refine Stat.setResSet ?_ _ _ (by stat_side)))
macro_rules | `(tactic| stat_step) => `(tactic| (guard_world_lit; with_reducible apply Stat.setEvWaiters))
macro_rules | `(tactic| stat_step) => `(tactic| split)
macro_rules | `(tactic| stat_step) => `(tactic| with_reducible apply Stat.evCancel_fst)
macro_rules | `(tactic| stat_step) => `(tactic| with_reducible apply Stat.sched_fst)
macro_rules | `(tactic| stat_step) => `(tactic| with_reducible apply Stat.setGuardQ)
macro_rules | `(tactic| stat_step) => `(tactic| (with_reducible refine Stat.modProc ?_ _ _ (fun _ => rfl)))
macro_rules | `(tactic| stat_step) => `(tactic| with_reducible apply Stat.emit)
macro_rules | `(tactic| stat_step) => `(tactic| with_reducible apply Stat.fail)
macro_rules | `(tactic| stat_step) => `(tactic| with_reducible exact Stat.refl _)
macro_rules | `(tactic| stat_step) => `(tactic| with_reducible assumption)

/-- close a `Stat w0 (expr)` goal by peeling `expr` -/
macro "stat" : tactic => `(tactic| repeat' stat_step)

/-! ### the functions of Sim/Model.lean -/

theorem Stat.wakeEventWaiters {w0 w : World} (h : Stat w0 w) (ps : List Pid) (sig : Int) :
    Stat w0 (wakeEventWaiters w ps sig) := by
  unfold Sim.wakeEventWaiters
  exact Stat.foldl (fun w q => by stat) ps h
macro_rules | `(tactic| stat_step) => `(tactic| with_reducible apply Stat.wakeEventWaiters)

theorem Stat.cancelAllFor {w0 w : World} (h : Stat w0 w) (p : Pid) : Stat w0 (cancelAllFor w p) := by
  unfold Sim.cancelAllFor
  exact Stat.foldl (fun w q => by stat) _ h
macro_rules | `(tactic| stat_step) => `(tactic| with_reducible apply Stat.cancelAllFor)

theorem Stat.cancelKindFor_fst {w0 w : World} (h : Stat w0 w) (p : Pid) (act : Nat) (sig : Option Int) :
    Stat w0 (cancelKindFor w p act sig).1 := by
  unfold Sim.cancelKindFor
  exact Stat.foldl (fun w q => by stat) _ h
macro_rules | `(tactic| stat_step) => `(tactic| with_reducible apply Stat.cancelKindFor_fst)
theorem Stat.cancelUserAll_fst {w0 w : World} (h : Stat w0 w) :
    Stat w0 (cancelUserAll w).1 := by
  unfold Sim.cancelUserAll
  exact Stat.foldl (fun w q => by stat) _ h
macro_rules | `(tactic| stat_step) => `(tactic| with_reducible apply Stat.cancelUserAll_fst)

theorem Stat.recordRes {w0 w : World} (h : Stat w0 w) (r : Nat) : Stat w0 (recordRes w r) := by
  unfold Sim.recordRes; stat
theorem Stat.recordPool {w0 w : World} (h : Stat w0 w) (r : Nat) : Stat w0 (recordPool w r) := by
  unfold Sim.recordPool; stat
theorem Stat.recordBuf {w0 w : World} (h : Stat w0 w) (r : Nat) : Stat w0 (recordBuf w r) := by
  unfold Sim.recordBuf; stat
theorem Stat.recordOQ {w0 w : World} (h : Stat w0 w) (r : Nat) : Stat w0 (recordOQ w r) := by
  unfold Sim.recordOQ; stat
theorem Stat.recordPQ {w0 w : World} (h : Stat w0 w) (r : Nat) : Stat w0 (recordPQ w r) := by
  unfold Sim.recordPQ; stat
macro_rules | `(tactic| stat_step) => `(tactic| with_reducible apply Stat.recordRes)
macro_rules | `(tactic| stat_step) => `(tactic| with_reducible apply Stat.recordPool)
macro_rules | `(tactic| stat_step) => `(tactic| with_reducible apply Stat.recordBuf)
macro_rules | `(tactic| stat_step) => `(tactic| with_reducible apply Stat.recordOQ)
macro_rules | `(tactic| stat_step) => `(tactic| with_reducible apply Stat.recordPQ)

theorem Stat.guardRemove_fst {w0 w : World} (h : Stat w0 w) (g : Nat) (p : Pid) : Stat w0 (guardRemove w g p).1 := by
  unfold Sim.guardRemove; stat
macro_rules | `(tactic| stat_step) => `(tactic| with_reducible apply Stat.guardRemove_fst)

theorem Stat.frontStep {w0 w : World} (h : Stat w0 w) (g : Nat) (gd : Guard) : Stat w0 (frontStep w g gd) := by
  unfold S3.frontStep; stat

theorem Stat.condSignal_fst {w0 w : World} (h : Stat w0 w) (g : Nat) : Stat w0 (condSignal w g).1 := by
  simp only [Sim.condSignal]
  split
  · exact h
  · split
    · exact h
    · refine Stat.foldl (fun w q => by stat) _ ?_
      exact Stat.foldl (fun w q => by stat) _ h
macro_rules | `(tactic| stat_step) => `(tactic| with_reducible apply Stat.condSignal_fst)

theorem Stat.ownStep {w0 w : World} (h : Stat w0 w) (fwd : Bool) (g : Nat) (gd : Guard) : Stat w0 (ownStep fwd w g gd) := by
  unfold S3.ownStep
  split
  · exact h.condSignal_fst g
  · exact h.frontStep g gd

theorem Stat.guardSignalF' : ∀ (fuel : Nat) (fwd : Bool) (w : World) (g : Nat), Stat w (guardSignalF fwd fuel w g) := by
  intro fuel
  induction fuel with
  | zero => intro fwd w g; rw [guardSignalF_zero]; exact (Stat.refl w).fail _
  | succ fuel ih =>
    intro fwd w g
    rw [guardSignalF_succ]
    split
    · exact Stat.refl w
    · exact Stat.foldl (fun w o => ih true w o) _ ((Stat.refl w).ownStep fwd g _)

theorem Stat.guardSignal' (fuel : Nat) (w : World) (g : Nat) : Stat w (guardSignal fuel w g) :=
  Stat.guardSignalF' fuel false w g

theorem Stat.guardSignal {w0 w : World} (h : Stat w0 w) (fuel : Nat) (g : Nat) : Stat w0 (guardSignal fuel w g) :=
  h.trans (Stat.guardSignal' fuel w g)

theorem Stat.signal {w0 w : World} (h : Stat w0 w) (g : Nat) : Stat w0 (signal w g) := h.guardSignal 8 g
macro_rules | `(tactic| stat_step) => `(tactic| with_reducible apply Stat.signal)

theorem Stat.guardWithdraw {w0 w : World} (h : Stat w0 w) (g : Nat) (p : Pid) : Stat w0 (guardWithdraw w g p) := by
  simp only [Sim.guardWithdraw]; stat
macro_rules | `(tactic| stat_step) => `(tactic| with_reducible apply Stat.guardWithdraw)

theorem Stat.addAwait {w0 w : World} (h : Stat w0 w) (p : Pid) (a : Await) : Stat w0 (addAwait w p a) := by
  unfold Sim.addAwait; stat
macro_rules | `(tactic| stat_step) => `(tactic| with_reducible apply Stat.addAwait)

theorem Stat.removeAwait_fst {w0 w : World} (h : Stat w0 w) (p : Pid) (a : Await) : Stat w0 (removeAwait w p a).1 := by
  simp only [Sim.removeAwait]; stat
macro_rules | `(tactic| stat_step) => `(tactic| with_reducible apply Stat.removeAwait_fst)

theorem Stat.removeAwaitKind_fst {w0 w : World} (h : Stat w0 w) (p : Pid) (k : Await → Bool) :
    Stat w0 (removeAwaitKind w p k).1 := by
  simp only [Sim.removeAwaitKind]; stat
macro_rules | `(tactic| stat_step) => `(tactic| with_reducible apply Stat.removeAwaitKind_fst)

theorem Stat.removeHeld_fst {w0 w : World} (h : Stat w0 w) (p : Pid) (x : HoldRef) : Stat w0 (removeHeld w p x).1 := by
  simp only [Sim.removeHeld]; stat
macro_rules | `(tactic| stat_step) => `(tactic| with_reducible apply Stat.removeHeld_fst)

theorem Stat.timerAdd_fst {w0 w : World} (h : Stat w0 w) (p : Pid) (d sig : Int) : Stat w0 (timerAdd w p d sig).1 := by
  simp only [Sim.timerAdd]; stat
macro_rules | `(tactic| stat_step) => `(tactic| with_reducible apply Stat.timerAdd_fst)

theorem Stat.timerCancel_fst {w0 w : World} (h : Stat w0 w) (p : Pid) (k : Nat) : Stat w0 (timerCancel w p k).1 := by
  simp only [Sim.timerCancel]; stat
macro_rules | `(tactic| stat_step) => `(tactic| with_reducible apply Stat.timerCancel_fst)

theorem Stat.timersClear {w0 w : World} (h : Stat w0 w) (p : Pid) : Stat w0 (timersClear w p) := by
  unfold Sim.timersClear
  exact Stat.foldl (fun w q => by stat) _ (by stat)
macro_rules | `(tactic| stat_step) => `(tactic| with_reducible apply Stat.timersClear)

theorem Stat.cancelAwaiteds {w0 w : World} (h : Stat w0 w) (p : Pid) : Stat w0 (cancelAwaiteds w p) := by
  unfold Sim.cancelAwaiteds
  apply Stat.cancelAllFor
  exact Stat.foldl (fun w q => by stat) _ (by stat)
macro_rules | `(tactic| stat_step) => `(tactic| with_reducible apply Stat.cancelAwaiteds)

theorem Stat.wakeWaiters {w0 w : World} (h : Stat w0 w) (p : Pid) (sig : Int) : Stat w0 (wakeWaiters w p sig) := by
  unfold Sim.wakeWaiters
  exact Stat.foldl (fun w q => by stat) _ (by stat)
macro_rules | `(tactic| stat_step) => `(tactic| with_reducible apply Stat.wakeWaiters)

theorem Stat.poolDropHolder {w0 w : World} (h : Stat w0 w) (pl : Nat) (p : Pid) : Stat w0 (poolDropHolder w pl p) := by
  unfold Sim.poolDropHolder; stat
macro_rules | `(tactic| stat_step) => `(tactic| with_reducible apply Stat.poolDropHolder)

theorem Stat.dropResources {w0 w : World} (h : Stat w0 w) (p : Pid) : Stat w0 (dropResources w p) := by
  unfold Sim.dropResources
  exact Stat.foldl (fun w q => by stat) _ (by stat)
macro_rules | `(tactic| stat_step) => `(tactic| with_reducible apply Stat.dropResources)

theorem Stat.finishProc {w0 w : World} (h : Stat w0 w) (p : Pid) (v : Int) (s : Bool) : Stat w0 (finishProc w p v s) := by
  unfold Sim.finishProc; stat
macro_rules | `(tactic| stat_step) => `(tactic| with_reducible apply Stat.finishProc)

theorem Stat.guardWaitEnter {w0 w : World} (h : Stat w0 w) (g : Nat) (p : Pid) (d : Demand) :
    Stat w0 (guardWaitEnter w g p d) := by
  unfold Sim.guardWaitEnter; stat
macro_rules | `(tactic| stat_step) => `(tactic| with_reducible apply Stat.guardWaitEnter)

theorem Stat.guardWaitLeave {w0 w : World} (h : Stat w0 w) (g : Nat) (p : Pid) (sig : Int) :
    Stat w0 (guardWaitLeave w g p sig) := by
  unfold Sim.guardWaitLeave; stat
macro_rules | `(tactic| stat_step) => `(tactic| with_reducible apply Stat.guardWaitLeave)

theorem Stat.grab {w0 w : World} (h : Stat w0 w) (r : Nat) (p : Pid) : Stat w0 (grab w r p) := by
  unfold Sim.grab; stat
macro_rules | `(tactic| stat_step) => `(tactic| with_reducible apply Stat.grab)

theorem Stat.poolUpdateRecord {w0 w : World} (h : Stat w0 w) (pl : Nat) (p : Pid) (a : Nat) :
    Stat w0 (poolUpdateRecord w pl p a) := by
  unfold Sim.poolUpdateRecord; stat
macro_rules | `(tactic| stat_step) => `(tactic| with_reducible apply Stat.poolUpdateRecord)

theorem Stat.setPoolInUse {w0 w : World} (h : Stat w0 w) (pl v : Nat) : Stat w0 (setPoolInUse w pl v) := by
  unfold Sim.setPoolInUse; stat
macro_rules | `(tactic| stat_step) => `(tactic| with_reducible apply Stat.setPoolInUse)

theorem Stat.setHeldAmount {w0 w : World} (h : Stat w0 w) (pl : Nat) (p : Pid) (a : Nat) :
    Stat w0 (setHeldAmount w pl p a) := by
  unfold Sim.setHeldAmount; stat
macro_rules | `(tactic| stat_step) => `(tactic| with_reducible apply Stat.setHeldAmount)

/-! ### the functions of Sim/Run.lean -/

theorem Stat.block_fst {w0 w : World} (h : Stat w0 w) (p : Pid) (f : Frame) : Stat w0 (block w p f).1 := by
  unfold Sim.block; stat
macro_rules | `(tactic| stat_step) => `(tactic| with_reducible apply Stat.block_fst)

theorem Stat.setVar {w0 w : World} (h : Stat w0 w) (p : Pid) (v x : Nat) : Stat w0 (setVar w p v x) := by
  unfold Sim.setVar; stat
macro_rules | `(tactic| stat_step) => `(tactic| with_reducible apply Stat.setVar)

theorem Stat.poolMug' : ∀ (fuel : Nat) (w : World) (p : Pid) (pl rem : Nat), Stat w (poolMug fuel w p pl rem).1 := by
  intro fuel
  induction fuel with
  | zero => intro w p pl rem; exact Stat.refl w
  | succ fuel ih =>
    intro w p pl rem
    simp only [Sim.poolMug]
    repeat' first | (with_reducible refine Stat.trans ?_ (ih _ _ _ _)) | stat_step

theorem Stat.poolMug_fst {w0 w : World} (h : Stat w0 w) (fuel : Nat) (p : Pid) (pl rem : Nat) :
    Stat w0 (poolMug fuel w p pl rem).1 := h.trans (Stat.poolMug' fuel w p pl rem)
macro_rules | `(tactic| stat_step) => `(tactic| with_reducible apply Stat.poolMug_fst)

theorem Stat.poolLoop_fst {w0 w : World} (h : Stat w0 w) (p : Pid) (pl rem ini : Nat) (pre : Bool) :
    Stat w0 (poolLoop w p pl rem ini pre).1 := by
  simp only [Sim.poolLoop]; stat
macro_rules | `(tactic| stat_step) => `(tactic| with_reducible apply Stat.poolLoop_fst)

theorem Stat.poolRollback {w0 w : World} (h : Stat w0 w) (p : Pid) (pl ini : Nat) : Stat w0 (poolRollback w p pl ini) := by
  simp only [Sim.poolRollback]; stat
macro_rules | `(tactic| stat_step) => `(tactic| with_reducible apply Stat.poolRollback)

theorem Stat.bufGetLoop_fst {w0 w : World} (h : Stat w0 w) (p : Pid) (b rem got : Nat) : Stat w0 (bufGetLoop w p b rem got).1 := by
  simp only [Sim.bufGetLoop]; stat
macro_rules | `(tactic| stat_step) => `(tactic| with_reducible apply Stat.bufGetLoop_fst)

theorem Stat.bufPutLoop_fst {w0 w : World} (h : Stat w0 w) (p : Pid) (b rem left : Nat) : Stat w0 (bufPutLoop w p b rem left).1 := by
  simp only [Sim.bufPutLoop]; stat
macro_rules | `(tactic| stat_step) => `(tactic| with_reducible apply Stat.bufPutLoop_fst)

theorem Stat.oqGetLoop_fst {w0 w : World} (h : Stat w0 w) (p : Pid) (q : Nat) : Stat w0 (oqGetLoop w p q).1 := by
  simp only [Sim.oqGetLoop]; stat
macro_rules | `(tactic| stat_step) => `(tactic| with_reducible apply Stat.oqGetLoop_fst)

theorem Stat.oqPutLoop_fst {w0 w : World} (h : Stat w0 w) (p : Pid) (q obj : Nat) : Stat w0 (oqPutLoop w p q obj).1 := by
  simp only [Sim.oqPutLoop]; stat
macro_rules | `(tactic| stat_step) => `(tactic| with_reducible apply Stat.oqPutLoop_fst)

theorem Stat.pqGetLoop_fst {w0 w : World} (h : Stat w0 w) (p : Pid) (k : Nat) : Stat w0 (pqGetLoop w p k).1 := by
  simp only [Sim.pqGetLoop]; stat
macro_rules | `(tactic| stat_step) => `(tactic| with_reducible apply Stat.pqGetLoop_fst)

theorem Stat.pqPutLoop_fst {w0 w : World} (h : Stat w0 w) (p : Pid) (k obj : Nat) (pri : Int) (v : Nat) :
    Stat w0 (pqPutLoop w p k obj pri v).1 := by
  simp only [Sim.pqPutLoop]; stat
macro_rules | `(tactic| stat_step) => `(tactic| with_reducible apply Stat.pqPutLoop_fst)


theorem Stat.acquireStep_fst {w0 w : World} (h : Stat w0 w) (p : Pid) (r : Nat) : Stat w0 (acquireStep w p r).1 := by
  simp only [Sim.acquireStep]; stat
macro_rules | `(tactic| stat_step) => `(tactic| with_reducible apply Stat.acquireStep_fst)

theorem Stat.setRecording {w0 w : World} (h : Stat w0 w) (kind idx : Nat) (on : Bool) : Stat w0 (setRecording w kind idx on) := by
  simp only [Sim.setRecording]; stat
macro_rules | `(tactic| stat_step) => `(tactic| with_reducible apply Stat.setRecording)


theorem Stat.reprioEv {w0 w : World} (h : Stat w0 w) (ev' : EvQ) : Stat w0 { w with ev := ev' } := h.setEv ev'

theorem Stat.reprioGuard {w0 w : World} (h : Stat w0 w) (q : Pid) (v : Int) (g : Nat) : Stat w0 (reprioGuard w q v g) := by
  unfold S3.reprioGuard; stat

theorem Stat.prioAwaitStep {w0 w : World} (h : Stat w0 w) (q : Pid) (v : Int) (a : Await) : Stat w0 (prioAwaitStep q v w a) := by
  unfold S3.prioAwaitStep
  split
  · split
    · exact h.reprioEv _
    · exact h.fail _
  · exact h.reprioGuard q v _
  · exact h

theorem Stat.prioHeldStep {w0 w : World} (h : Stat w0 w) (q : Pid) (v : Int) (x : HoldRef) : Stat w0 (prioHeldStep q v w x) := by
  unfold S3.prioHeldStep; stat

theorem Stat.execCmd_fst {w0 w : World} (h : Stat w0 w) (p : Pid) (c : Cmd) : Stat w0 (execCmd w p c).1 := by
  cases c with
  | prioSet q v =>
    by_cases hq : q < w.procs.size
    · rw [prioSet_eq w p q v hq]
      dsimp only
      refine Stat.foldl (fun w x => (Stat.refl w).prioHeldStep q v x) _ ?_
      refine Stat.foldl (fun w x => (Stat.refl w).prioAwaitStep q v x) _ ?_
      stat
    · have : q ≥ w.procs.size := Nat.le_of_not_lt hq
      simp only [execCmd, this, if_true]
      exact h
  | _ => simp only [execCmd] <;> stat

theorem Stat.resumeFrame_fst {w0 w : World} (h : Stat w0 w) (p : Pid) (f : Frame) (sig : Int) :
    Stat w0 (resumeFrame w p f sig).1 := by
  cases f <;> simp only [resumeFrame] <;> stat

macro_rules | `(tactic| stat_step) => `(tactic| with_reducible apply Stat.execCmd_fst)
macro_rules | `(tactic| stat_step) => `(tactic| with_reducible apply Stat.resumeFrame_fst)

theorem Stat.runScript {w0 : World} : ∀ (fuel : Nat) {w : World}, Stat w0 w → ∀ p, Stat w0 (runScript fuel w p) := by
  intro fuel
  induction fuel with
  | zero => intro w h p; exact h.fail _
  | succ fuel ih =>
    intro w h p
    simp only [Sim.runScript]
    split
    · stat
    · rename_i c text hs
      have hx : Stat w0 (execCmd (w.emit s!"c {p} {(w.proc p).pc} {w.now} {text}") p c).1 := by stat
      split
      · rename_i w1 v extra heq
        rw [heq] at hx
        apply ih
        stat
      · rename_i w1 heq
        rw [heq] at hx
        apply ih
        stat
      · rename_i w1 heq
        rw [heq] at hx
        exact hx
      · rename_i w1 heq
        rw [heq] at hx
        split <;> stat

theorem Stat.resumeProc {w0 w : World} (h : Stat w0 w) (p : Pid) (sig : Int) : Stat w0 (resumeProc w p sig) := by
  simp only [Sim.resumeProc]
  split
  · exact h.fail _
  · split
    · exact h.fail _
    · rename_i f hb
      have hx : Stat w0 (resumeFrame (w.modProc p fun y => { y with blocked := none }) p f sig).1 := by stat
      split
      · rename_i w1 v extra heq
        rw [heq] at hx
        apply Stat.runScript
        stat
      · rename_i w1 heq; rw [heq] at hx; exact hx
      · rename_i w1 heq; rw [heq] at hx; exact hx
      · rename_i w1 heq; rw [heq] at hx; exact hx


theorem Stat.dispatchBody {w0 w : World} (h : Stat w0 w) (t : HTag) : Stat w0 (dispatchBody w t) := by
  simp only [S3.dispatchBody]
  repeat' first | (with_reducible apply Stat.resumeProc) | (with_reducible apply Stat.runScript) | stat_step

theorem Stat.takeNext (w : World) (t : HTag) (ev' : EvQ) : Stat w (S3.takeNext w t ev') := by
  unfold S3.takeNext
  refine Stat.wakeEventWaiters ?_ _ _
  exact (Stat.refl w).same rfl rfl rfl rfl rfl rfl rfl rfl

/-- static data survive every dispatched event -/
theorem Stat.dispatch {w w' : World} (hd : dispatch w = some w') : Stat w w' := by
  rw [dispatch_eq] at hd
  split at hd
  · cases hd
  · simp only [Option.some.injEq] at hd
    rw [← hd]
    exact (Stat.takeNext w _ _).dispatchBody _

end CimbaModel.Sim.S3
