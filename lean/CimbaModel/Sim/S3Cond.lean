/-
  S3 — conditions: the exact effect of `condSignal`, and of cancel / remove on a condition's queue.
-/
import CimbaModel.Sim.S3GuardOps

namespace CimbaModel.Sim.S3
open CimbaModel CimbaModel.Sim CimbaModel.Event CimbaModel.Generated CimbaModel.KPQ
open CimbaModel.HashHeap (HTag Item Order HH WF abs liveTags)

/-- the waiters whose predicate is true now, in heap-array order -/
def condSat (w : World) (gd : Guard) : List HTag :=
  (liveTags gd.q).filter fun t => evalDemand w (demandOf gd t.key)

/-- their wake-ups: (aCond, SUCCESS) with the waiter's current priority -/
def condWakes (w : World) (sat : List HTag) : List Wake :=
  sat.map fun t => ⟨aCond, t.key - 1 + 1, sigSuccess, (w.proc (t.key - 1)).prio⟩

theorem condSignal_none {w : World} {g : Nat} (hg : w.guards[g]? = none) : condSignal w g = (w, false) := by
  unfold condSignal; rw [hg]

theorem condSignal_empty {w : World} {g : Nat} {gd : Guard} (hg : w.guards[g]? = some gd) (hc : gd.q.count = 0) :
    condSignal w g = (w, false) := by
  unfold condSignal; rw [hg]; simp [hc]

/-- `condSignal` = one batch of wake-ups, then the removal of the woken entries -/
theorem condSignal_eq {w : World} {g : Nat} {gd : Guard} (hg : w.guards[g]? = some gd) (hc : gd.q.count ≠ 0) :
    condSignal w g =
      ((condSat w gd).foldl (fun w t => (guardRemove w g (t.key - 1)).1) (pushAll w (condWakes w (condSat w gd))),
       decide ((condSat w gd).length > 0)) := by
  unfold condSignal
  rw [hg]
  simp only [hc, if_false]
  have := foldl_sched_eq (fun (w : World) (t : HTag) => (⟨aCond, t.key - 1 + 1, sigSuccess, (w.proc (t.key - 1)).prio⟩ : Wake))
    (fun _ _ _ _ _ _ _ => rfl) (condSat w gd) w
  simp only at this
  unfold condSat demandOf at *
  rw [this]
  rfl

theorem setGuardQ_setGuardQ (w : World) (g : Nat) (q1 q2 : HH) : setGuardQ (setGuardQ w g q1) g q2 = setGuardQ w g q2 := by
  unfold setGuardQ
  simp only
  congr 1
  apply Array.ext_getElem?
  intro i
  simp only [Array.getElem?_modify]
  split
  · cases w.guards[i]? <;> rfl
  · rfl

/-- removing a list of (non-zero) keys from a well-formed waiting list -/
theorem removeFold_spec (g : Nat) : ∀ (ts : List HTag) (w : World) (gd : Guard), w.guards[g]? = some gd → GWF gd.q →
    (∀ t ∈ ts, t.key ≠ 0) →
    ∃ q', GWF q' ∧ (abs q').Perm ((abs gd.q).filter fun x => decide (x.key ∉ ts.map (·.key))) ∧
      ts.foldl (fun w t => (guardRemove w g (t.key - 1)).1) w = setGuardQ w g q' := by
  intro ts
  induction ts with
  | nil =>
    intro w gd hg hwf _
    refine ⟨gd.q, hwf, ?_, (setGuardQ_self hg).symm⟩
    simp only [List.map_nil, List.not_mem_nil, not_false_eq_true, decide_true]
    rw [List.filter_eq_self.2 (fun _ _ => rfl)]
  | cons t ts ih =>
    intro w gd hg hwf hk
    have ht : t.key - 1 + 1 = t.key := by have := hk t List.mem_cons_self; omega
    obtain ⟨q1, _, hwf1, hperm1, heq1⟩ := guardRemove_spec hg hwf (t.key - 1)
    rw [ht] at hperm1
    have hg1 : (setGuardQ w g q1).guards[g]? = some { gd with q := q1 } := by
      rw [setGuardQ_guards_get]; simp [hg]
    obtain ⟨q', hwf', hperm', heq'⟩ := ih (setGuardQ w g q1) { gd with q := q1 } hg1 hwf1
      (fun t' ht' => hk t' (List.mem_cons_of_mem _ ht'))
    refine ⟨q', hwf', ?_, ?_⟩
    · refine hperm'.trans ?_
      refine (hperm1.filter _).trans ?_
      simp only [KPQ.remove, List.filter_filter]
      apply List.Perm.of_eq
      apply List.filter_congr
      intro x _
      simp only [List.map_cons, List.mem_cons, not_or, ne_eq]
      by_cases h1 : x.key = t.key <;> simp [h1]
    · simp only [List.foldl_cons, heq1]
      rw [heq', setGuardQ_setGuardQ]

/-- `cmb_condition_signal` on a well-formed queue: every waiter whose predicate holds (and no other) gets one
    (aCond, SUCCESS) wake-up at the current time, in heap-array order; exactly those entries leave the queue; the
    return value says whether anybody was woken -/
theorem condSignal_spec {w : World} {g : Nat} {gd : Guard} (hg : w.guards[g]? = some gd) (hwf : GWF gd.q)
    (hc : gd.q.count ≠ 0) :
    ∃ q', GWF q' ∧
      (abs q').Perm ((abs gd.q).filter fun x => !evalDemand w (demandOf gd x.key)) ∧
      condSignal w g = (setGuardQ (pushAll w (condWakes w (condSat w gd))) g q', decide ((condSat w gd).length > 0)) := by
  rw [condSignal_eq hg hc]
  have hkeys : ∀ t ∈ condSat w gd, t.key ≠ 0 := by
    intro t ht
    have hl := (List.mem_filter.1 ht).1
    obtain ⟨i, hi1, hi2, rfl⟩ := (HashHeap.mem_liveTags _ _).1 hl
    exact (hwf.keyOk i hi1 hi2).1
  obtain ⟨q', hwf', hperm, heq⟩ := removeFold_spec g (condSat w gd) (pushAll w (condWakes w (condSat w gd))) gd
    (by simpa using hg) hwf hkeys
  refine ⟨q', hwf', ?_, by rw [heq]⟩
  refine hperm.trans (List.Perm.of_eq ?_)
  apply List.filter_congr
  intro x hx
  -- x is a live entry: it is in the woken set iff its predicate holds
  obtain ⟨i, hi, rfl⟩ := (HashHeap.mem_abs _ _).1 hx
  have hlive : gd.q.tag i ∈ liveTags gd.q := (HashHeap.mem_liveTags _ _).2 ⟨i, hi.1, hi.2, rfl⟩
  have hnk : (norm (gd.q.tag i)).key = (gd.q.tag i).key := rfl
  rw [hnk]
  cases hd : evalDemand w (demandOf gd (gd.q.tag i).key) with
  | true =>
    have : (gd.q.tag i).key ∈ (condSat w gd).map (·.key) :=
      List.mem_map.2 ⟨_, List.mem_filter.2 ⟨hlive, hd⟩, rfl⟩
    simp [this]
  | false =>
    have : (gd.q.tag i).key ∉ (condSat w gd).map (·.key) := by
      intro hm
      obtain ⟨t, ht, hk⟩ := List.mem_map.1 hm
      have ht' := List.mem_filter.1 ht
      rw [hk, hd] at ht'
      exact absurd ht'.2 (by simp)
    simp [this]

/-- the satisfied waiters are exactly the live entries whose predicate holds; each is woken once -/
theorem mem_condSat {w : World} {gd : Guard} {t : HTag} :
    t ∈ condSat w gd ↔ t ∈ liveTags gd.q ∧ evalDemand w (demandOf gd t.key) = true := by
  simp [condSat]

/-- the pending events after a condition signal: the batch for the satisfied waiters on top of the old ones -/
theorem condSignal_pending {w : World} {g : Nat} {gd : Guard} (hg : w.guards[g]? = some gd) (hwf : GWF gd.q)
    (hc : gd.q.count ≠ 0) :
    (condSignal w g).1.ev.pending = wakeEvs w.ev.counter w.now (condWakes w (condSat w gd)) ++ w.ev.pending ∧
    (condSignal w g).1.now = w.now ∧ (condSignal w g).1.procs = w.procs ∧ (condSignal w g).1.fault = w.fault ∧
    (condSignal w g).1.res = w.res ∧ (condSignal w g).1.pools = w.pools ∧ (condSignal w g).1.bufs = w.bufs ∧
    (condSignal w g).1.oqs = w.oqs ∧ (condSignal w g).1.pqs = w.pqs ∧ (condSignal w g).1.flags = w.flags ∧
    (condSignal w g).1.evWaiters = w.evWaiters ∧
    ∀ g', g' ≠ g → (condSignal w g).1.guards[g']? = w.guards[g']? := by
  obtain ⟨q', _, _, heq⟩ := condSignal_spec hg hwf hc
  rw [heq]
  refine ⟨rfl, rfl, rfl, rfl, rfl, rfl, rfl, rfl, rfl, rfl, rfl, ?_⟩
  intro g' hne
  simp [setGuardQ_guards_get, hne]

/-! ### the footprint of a signal, observers included (`SigRel`, Sim/S3Guard) -/

/-- the footprint of `cmb_condition_signal` on the guard of a condition: only that queue shrinks, the only new events are
    the condition wake-ups of its satisfied waiters -/
theorem condSignal_rel {w : World} {g : Nat} (hh : hasHandler w g = true) (hall : AllGWF w) : SigRel w (condSignal w g).1 := by
  cases hg : w.guards[g]? with
  | none => rw [condSignal_none hg]; exact SigRel.refl hall
  | some gd =>
    have hwf := hall g gd hg
    by_cases hc : gd.q.count = 0
    · rw [condSignal_empty hg hc]; exact SigRel.refl hall
    · obtain ⟨q', hwf', hperm, heq⟩ := condSignal_spec hg hwf hc
      rw [heq]
      show SigRel w (setGuardQ (pushAll w (condWakes w (condSat w gd))) g q')
      have hsub : ∀ x ∈ abs q', x ∈ abs gd.q := fun x hx => (List.mem_filter.1 (hperm.mem_iff.1 hx)).1
      have hguards : ∀ (g' : Nat) (gd0 : Guard), w.guards[g']? = some gd0 →
          ∃ gd' : Guard, (setGuardQ (pushAll w (condWakes w (condSat w gd))) g q').guards[g']? = some gd' ∧
            gd'.observers = gd0.observers ∧ gd'.demands = gd0.demands ∧ gd'.isCond = gd0.isCond ∧ GWF gd'.q ∧
            ∀ x ∈ abs gd'.q, x ∈ abs gd0.q := by
        intro g' gd0 hg0
        simp only [setGuardQ_guards_get, pushAll_guards]
        by_cases hgg : g' = g
        · subst hgg
          have e : gd = gd0 := by rw [hg0] at hg; exact (Option.some.inj hg).symm
          subst e
          exact ⟨{ gd with q := q' }, by simp [hg0], rfl, rfl, rfl, hwf', hsub⟩
        · exact ⟨gd0, by simp [hgg, hg0], rfl, rfl, rfl, hall g' gd0 hg0, fun _ hx => hx⟩
      refine { evWaiters := rfl, procs := rfl, res := rfl, pools := rfl, bufs := rfl, oqs := rfl, pqs := rfl,
               conds := rfl, flags := rfl, gvars := rfl, log := rfl, dispatched := rfl,
               gsize := by simp [setGuardQ], guards := hguards, evnow := rfl, executed := rfl, cancelled := rfl,
               current := rfl, pending := ?_, evinv := ?_, fault := id, wf := ?_ }
      · refine ⟨wakeEvs w.ev.counter w.now (condWakes w (condSat w gd)), rfl, by simp, ?_⟩
        intro e he
        right
        obtain ⟨hlt, _, _, _, x, hx, hex⟩ := wakeEvs_props he
        obtain ⟨t, ht, rfl⟩ := List.mem_map.1 hx
        obtain ⟨hlive, hdem⟩ := mem_condSat.1 ht
        obtain ⟨i, hi1, hi2, rfl⟩ := (HashHeap.mem_liveTags _ _).1 hlive
        have hk0 : (gd.q.tag i).key ≠ 0 := (hwf.keyOk i hi1 hi2).1
        have hk1 : (gd.q.tag i).key - 1 + 1 = (gd.q.tag i).key := by omega
        have hb : e.item.b = (gd.q.tag i).key := by rw [hex]; simp [mkEv, hk1]
        have hin : (gd.q.tag i).key ∈ keys (abs gd.q) :=
          Event.mem_keys.2 ⟨norm (gd.q.tag i), (HashHeap.mem_abs _ _).2 ⟨i, ⟨hi1, hi2⟩, rfl⟩, rfl⟩
        refine ⟨g, gd, { gd with q := q' }, hg, by simp [setGuardQ_guards_get, hg], by rw [hb]; exact hin, ?_,
          by rw [hb]; exact hdem, fun _ => hh, ?_, hlt⟩
        · rw [hb]
          intro hm
          obtain ⟨y, hy, hyk⟩ := Event.mem_keys.1 hm
          have := (List.mem_filter.1 (hperm.mem_iff.1 hy)).2
          rw [hyk, hdem] at this
          exact absurd this (by simp)
        · rw [hb]; rw [hex]; simp [mkEv, hk1]
      · intro hi; exact pushAll_evinv _ hi
      · intro g' gd' hg'
        have hsz : g' < w.guards.size := by
          rcases Nat.lt_or_ge g' w.guards.size with h | h
          · exact h
          · have : (setGuardQ (pushAll w (condWakes w (condSat w gd))) g q').guards.size = w.guards.size := by simp [setGuardQ]
            rw [Array.getElem?_eq_none (by omega)] at hg'; cases hg'
        obtain ⟨gd'', hg'', _, _, _, hw'', _⟩ := hguards g' _ (Array.getElem?_eq_getElem hsz)
        rw [hg'] at hg''; cases hg''
        exact hw''

/-- what a signal does at the guard itself keeps the footprint -/
theorem ownStep_rel (fwd : Bool) {w : World} {g : Nat} {gd : Guard} (hg : w.guards[g]? = some gd) (hwf : AllGWF w) :
    SigRel w (ownStep fwd w g gd) := by
  unfold ownStep
  split
  · rename_i h
    simp only [Bool.and_eq_true] at h
    exact condSignal_rel h.2 hwf
  · exact frontStep_rel hg hwf

/-- the footprint of a signal (direct or forwarded), observers included -/
theorem guardSignalF_rel : ∀ (fuel : Nat) (fwd : Bool) (w : World) (g : Nat), AllGWF w → SigRel w (guardSignalF fwd fuel w g) := by
  intro fuel
  induction fuel with
  | zero => intro fwd w g h; rw [guardSignalF_zero]; exact SigRel.fail h _
  | succ fuel ih =>
    intro fwd w g h
    rw [guardSignalF_succ]
    cases hg : w.guards[g]? with
    | none => exact SigRel.refl h
    | some gd =>
      have h1 := ownStep_rel fwd hg h
      exact h1.trans (foldl_sigRel _ (fun w o hw => ih true w o hw) _ _ h1.wf)

/-- the footprint of `cmb_resourceguard_signal`, observers included -/
theorem guardSignal_rel (fuel : Nat) (w : World) (g : Nat) (h : AllGWF w) : SigRel w (guardSignal fuel w g) :=
  guardSignalF_rel fuel false w g h

theorem signal_rel (w : World) (g : Nat) (h : AllGWF w) : SigRel w (signal w g) := guardSignal_rel 8 w g h

end CimbaModel.Sim.S3
