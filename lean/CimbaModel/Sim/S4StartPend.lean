/-
  S4 — the transport lemmas of S1Pend for predicates on the event queue that tolerate every wake-up except a start event
  (`NoStart`).  Generated from the `Internal` family (S1PendI) by renaming; `es_peel` / `es_peel2` are the peeling tactics.
-/
import CimbaModel.Sim.S4Defs
import CimbaModel.Sim.S1SilentRun

namespace CimbaModel.Sim.S4
open CimbaModel CimbaModel.Sim CimbaModel.Event CimbaModel.Generated
open CimbaModel.HashHeap (HTag Item Order HH)

/-- every action kind except the start event is allowed -/
structure NoStart (A : Nat → Bool) : Prop where
  time : A aTime = true
  proc : A aProc = true
  event : A aEvent = true
  res : A aRes = true
  preempt : A aPreempt = true
  cond : A aCond = true
  intr : A aIntr = true
  resume : A aResume = true
  user : A aUser = true

/-- close `R w'` from `h : R w` through any composition of library steps that never wakes the waiters of a process
    end; the numeral bounds the depth -/
syntax "es_peel " term:max term:max term:max num : tactic
open Lean in
macro_rules
  | `(tactic| es_peel $hR $hA $h $n) => do
    if n.getNat = 0 then `(tactic| fail "es_peel: out of fuel")
    else
      let m := Syntax.mkNumLit (toString (n.getNat - 1))
      `(tactic| first
          | with_reducible exact $h
          | (with_reducible first
              | apply ec_fail $hR
              | apply ec_wakeEventWaiters $hR (NoStart.event $hA)
              | apply ec_evCancel $hR (NoStart.event $hA)
              | apply ec_cancelAllFor $hR (NoStart.event $hA)
              | apply ec_cancelKindFor $hR (NoStart.event $hA)
              | apply ec_cancelUserAll $hR (NoStart.event $hA)
              | apply ec_guardSignal $hR (And.intro (NoStart.res $hA) (NoStart.cond $hA))
              | apply ec_signal $hR (And.intro (NoStart.res $hA) (NoStart.cond $hA))
              | apply ec_guardWithdraw $hR (NoStart.event $hA) (And.intro (NoStart.res $hA) (NoStart.cond $hA))
              | apply ec_timerAdd $hR (NoStart.time $hA)
              | apply ec_wakeWaiters $hR (NoStart.proc $hA)
              | apply ec_timerCancel $hR (NoStart.event $hA)
              | apply ec_timersClear $hR (NoStart.event $hA)
              | apply ec_cancelAwaiteds $hR (NoStart.event $hA) (And.intro (NoStart.res $hA) (NoStart.cond $hA))
              | apply ec_poolDropHolder $hR (And.intro (NoStart.res $hA) (NoStart.cond $hA))
              | apply ec_dropResources $hR (And.intro (NoStart.res $hA) (NoStart.cond $hA))
              | apply ec_guardWaitEnter $hR
              | apply ec_guardWaitLeave $hR (NoStart.event $hA) (And.intro (NoStart.res $hA) (NoStart.cond $hA))
              | apply ec_poolMug $hR (NoStart.intr $hA) (And.intro (NoStart.res $hA) (NoStart.cond $hA))
              | apply ec_emit $hR
              | apply ec_modProc $hR
              | apply ec_setGuardQ $hR
              | apply ec_setPoolInUse $hR
              | apply ec_recordRes $hR
              | apply ec_recordPool $hR
              | apply ec_recordBuf $hR
              | apply ec_recordOQ $hR
              | apply ec_recordPQ $hR
              | apply ec_guardRemove $hR
              | apply ec_setHeldAmount $hR
              | apply ec_setRecording $hR
              | apply ec_addAwait $hR
              | apply ec_removeAwait $hR
              | apply ec_removeAwaitKind $hR
              | apply ec_removeHeld $hR
              | apply ec_block $hR
              | apply ec_setVar $hR
              | apply ec_grab $hR
              | apply ec_poolUpdateRecord $hR
              | apply EvClosed.sched $hR _ _ _ _ _ _ (NoStart.time $hA)
              | apply EvClosed.sched $hR _ _ _ _ _ _ (NoStart.proc $hA)
              | apply EvClosed.sched $hR _ _ _ _ _ _ (NoStart.preempt $hA)
              | apply EvClosed.sched $hR _ _ _ _ _ _ (NoStart.resume $hA)
              | apply EvClosed.sched $hR _ _ _ _ _ _ (NoStart.event $hA)
              | apply EvClosed.sched $hR _ _ _ _ _ _ (NoStart.res $hA)
              | apply EvClosed.sched $hR _ _ _ _ _ _ (NoStart.cond $hA)
              | apply EvClosed.sched $hR _ _ _ _ _ _ (NoStart.intr $hA)
              | apply EvClosed.sched $hR _ _ _ _ _ _ (NoStart.user $hA)
              | apply ec_mk $hR
            ) <;> es_peel $hR $hA $h $m
          | (split <;> es_peel $hR $hA $h $m))

section
variable {A : Nat → Bool} {R : World → Prop} (hR : EvClosed A R) (hA : NoStart A)
include hR hA

theorem es_poolLoop (w : World) (p : Pid) (pl rem initially : Nat) (preempt : Bool) (h : R w) :
    R (poolLoop w p pl rem initially preempt).1 := by
  have hupd : ∀ (w : World) n, R w → R (poolUpdateRecord w pl p n) := fun w n h => ec_poolUpdateRecord hR w pl p n h
  have hpre : ∀ (w : World) v, R w → R (recordPool (setPoolInUse w pl v) pl) :=
    fun w v h => ec_recordPool hR _ _ (ec_setPoolInUse hR _ _ _ h)
  unfold poolLoop
  split
  · exact ec_fail hR _ _ h
  · rename_i x hx
    dsimp only
    split
    · exact ec_signal hR ⟨hA.res, hA.cond⟩ _ _ (hupd _ rem (hpre _ (x.inUse + rem) h))
    · have h1 : R (if x.cap - x.inUse > 0 then
          (poolUpdateRecord (recordPool (setPoolInUse w pl (x.inUse + (x.cap - x.inUse))) pl) pl p (x.cap - x.inUse),
            rem - (x.cap - x.inUse)) else (w, rem)).1 := by
        split
        · exact hupd _ _ (hpre _ _ h)
        · exact h
      have h2 : R (if preempt = true then
          poolMug (x.holders.count + 1) (if x.cap - x.inUse > 0 then
            (poolUpdateRecord (recordPool (setPoolInUse w pl (x.inUse + (x.cap - x.inUse))) pl) pl p (x.cap - x.inUse),
              rem - (x.cap - x.inUse)) else (w, rem)).1 p pl (if x.cap - x.inUse > 0 then
            (poolUpdateRecord (recordPool (setPoolInUse w pl (x.inUse + (x.cap - x.inUse))) pl) pl p (x.cap - x.inUse),
              rem - (x.cap - x.inUse)) else (w, rem)).2
          else ((if x.cap - x.inUse > 0 then
            (poolUpdateRecord (recordPool (setPoolInUse w pl (x.inUse + (x.cap - x.inUse))) pl) pl p (x.cap - x.inUse),
              rem - (x.cap - x.inUse)) else (w, rem)).1, some (if x.cap - x.inUse > 0 then
            (poolUpdateRecord (recordPool (setPoolInUse w pl (x.inUse + (x.cap - x.inUse))) pl) pl p (x.cap - x.inUse),
              rem - (x.cap - x.inUse)) else (w, rem)).2)).1 := by
        split
        · exact ec_poolMug hR hA.intr ⟨hA.res, hA.cond⟩ _ _ _ _ _ h1
        · exact h1
      split
      · exact h2
      · exact ec_block hR _ _ _ (ec_guardWaitEnter hR _ _ _ _ h2)

set_option maxHeartbeats 400000 in
theorem es_poolRollback (w : World) (p : Pid) (pl initially : Nat) (h : R w) : R (poolRollback w p pl initially) := by
  unfold poolRollback; dsimp only; es_peel hR hA h 30

theorem es_bufGetLoop (w : World) (p : Pid) (b rem got : Nat) (h : R w) : R (bufGetLoop w p b rem got).1 := by
  unfold bufGetLoop; dsimp only; es_peel hR hA h 30

theorem es_bufPutLoop (w : World) (p : Pid) (b rem left : Nat) (h : R w) : R (bufPutLoop w p b rem left).1 := by
  unfold bufPutLoop; dsimp only; es_peel hR hA h 30

theorem es_oqGetLoop (w : World) (p : Pid) (q : Nat) (h : R w) : R (oqGetLoop w p q).1 := by
  unfold oqGetLoop; dsimp only; es_peel hR hA h 30

theorem es_oqPutLoop (w : World) (p : Pid) (q obj : Nat) (h : R w) : R (oqPutLoop w p q obj).1 := by
  unfold oqPutLoop; dsimp only; es_peel hR hA h 30

theorem es_pqGetLoop (w : World) (p : Pid) (k : Nat) (h : R w) : R (pqGetLoop w p k).1 := by
  unfold pqGetLoop; dsimp only; es_peel hR hA h 30

theorem es_pqPutLoop (w : World) (p : Pid) (k obj : Nat) (pri : Int) (v : Nat) (h : R w) :
    R (pqPutLoop w p k obj pri v).1 := by
  unfold pqPutLoop; dsimp only; es_peel hR hA h 30

theorem es_acquireStep (w : World) (p : Pid) (r : Nat) (h : R w) : R (acquireStep w p r).1 := by
  unfold acquireStep; es_peel hR hA h 30

theorem es_condSignal (w : World) (g : Nat) (h : R w) : R (condSignal w g).1 := by
  unfold condSignal
  split
  · exact h
  · split
    · exact h
    · dsimp only
      apply foldl_inv R _ (fun w t hw => ec_guardRemove hR w _ _ hw)
      exact foldl_inv R _ (fun w t hw => hR.sched _ _ _ _ _ _ hA.cond hw) _ _ h

end

/-- `ec_peel` extended with the blocking library calls -/
syntax "es_peel2 " term:max term:max term:max num : tactic
open Lean in
macro_rules
  | `(tactic| es_peel2 $hR $hA $h $n) => do
    if n.getNat = 0 then `(tactic| fail "es_peel2: out of fuel")
    else
      let m := Syntax.mkNumLit (toString (n.getNat - 1))
      `(tactic| first
          | es_peel $hR $hA $h 8
          | (with_reducible first
              | apply es_acquireStep $hR $hA
              | apply es_poolLoop $hR $hA
              | apply es_poolRollback $hR $hA
              | apply es_bufGetLoop $hR $hA
              | apply es_bufPutLoop $hR $hA
              | apply es_oqGetLoop $hR $hA
              | apply es_oqPutLoop $hR $hA
              | apply es_pqGetLoop $hR $hA
              | apply es_pqPutLoop $hR $hA
              | apply es_condSignal $hR $hA
              | apply ec_signal $hR (And.intro (NoStart.res $hA) (NoStart.cond $hA))
              | apply ec_guardWaitLeave $hR (NoStart.event $hA) (And.intro (NoStart.res $hA) (NoStart.cond $hA))
              | apply ec_cancelKindFor $hR (NoStart.event $hA)
              | apply ec_cancelUserAll $hR (NoStart.event $hA)
              | apply ec_recordPool $hR
              | apply ec_recordPQ $hR
              | apply ec_setPoolInUse $hR
              | apply ec_setHeldAmount $hR
              | apply ec_removeHeld $hR
              | apply ec_mk $hR
              | apply ec_fail $hR
              | apply ec_guardRemove $hR
              | apply EvClosed.sched $hR _ _ _ _ _ _ (NoStart.res $hA)
            ) <;> es_peel2 $hR $hA $h $m
          | (split <;> es_peel2 $hR $hA $h $m))


end CimbaModel.Sim.S4
