/-
  S6 — forwarded signals after the repair of `forward_signal`: a signal forwarded from an observed guard reaches the guard
  of a condition as `cmb_condition_signal`. Closed forms for the usual shape of subscriptions (the observers of an object's
  guard are guards of conditions, which have no observers themselves) and the exact effect on the observing condition.
-/
import CimbaModel.Sim.S3Cond
import CimbaModel.Sim.S3Stat
import CimbaModel.Sim.S3Signals

namespace CimbaModel.Sim.S3
open CimbaModel CimbaModel.Sim CimbaModel.Event CimbaModel.Generated CimbaModel.KPQ
open CimbaModel.HashHeap (HTag Item Order HH WF abs liveTags)

/-- guard `o` has no observers of its own -/
def Leaf (w : World) (o : Nat) : Prop := ∀ od : Guard, w.guards[o]? = some od → od.observers = []

theorem Leaf.ofStat {w w' : World} {o : Nat} (h : Leaf w o) (hs : Stat w w') : Leaf w' o := by
  intro od' hod
  have := hs.guards o
  rw [hod] at this
  cases hg : w.guards[o]? with
  | none => rw [hg] at this; cases this
  | some od =>
    rw [hg] at this
    simp only [Option.map_some, Option.some.injEq, guardStat, Prod.mk.injEq] at this
    rw [this.2]; exact h od hg

/-- the forwarded signal to the guard of a condition without observers of its own: exactly `condSignal` -/
theorem fwdSignal_cond_leaf {w : World} {o : Nat} (hh : hasHandler w o = true) (hl : Leaf w o) (fuel : Nat) :
    fwdSignal (fuel + 1) w o = (condSignal w o).1 := by
  rw [fwdSignal_handler hh]
  cases hg : w.guards[o]? with
  | none => simp [condSignal_none hg]
  | some od => simp [hl od hg]

theorem foldl_fwd_eq_condSignals (fuel : Nat) {w0 : World} : ∀ (os : List Nat) (w : World), Stat w0 w →
    (∀ o ∈ os, hasHandler w0 o = true ∧ Leaf w0 o) →
    os.foldl (fun w o => fwdSignal (fuel + 1) w o) w = os.foldl (fun w o => (condSignal w o).1) w := by
  intro os
  induction os with
  | nil => intro w _ _; rfl
  | cons o os ih =>
    intro w hs hos
    obtain ⟨hh, hl⟩ := hos o List.mem_cons_self
    simp only [List.foldl_cons]
    rw [fwdSignal_cond_leaf (by rw [hasHandler_congr hs.conds]; exact hh) (hl.ofStat hs)]
    exact ih _ (hs.condSignal_fst o) (fun o' ho' => hos o' (List.mem_cons_of_mem _ ho'))

/-- **a signal of a guard all of whose observers are guards of conditions** (without observers of their own): the guard's own
    front step, then `condSignal` on every observing condition, in list order -/
theorem guardSignal_cond_observers {fuel : Nat} {w : World} {g : Nat} {gd : Guard} (hg : w.guards[g]? = some gd)
    (hobs : ∀ o ∈ gd.observers, hasHandler w o = true ∧ Leaf w o) :
    guardSignal (fuel + 2) w g = gd.observers.foldl (fun w o => (condSignal w o).1) (frontStep w g gd) := by
  rw [guardSignal_succ, hg]
  exact foldl_fwd_eq_condSignals fuel _ _ ((Stat.refl w).frontStep g gd) hobs

/-- the front step of `g` leaves every other guard alone -/
theorem frontStep_guards_ne {w : World} {g : Nat} {gd : Guard} (hwf : GWF gd.q) {g' : Nat} (hne : g' ≠ g) :
    (frontStep w g gd).guards[g']? = w.guards[g']? := by
  obtain ⟨h0, hpos⟩ := frontStep_spec w g gd hwf
  rcases Nat.eq_zero_or_pos gd.q.count with hc | hc
  · rw [h0 hc]
  · obtain ⟨_, hfalse, htrue⟩ := hpos hc
    cases hd : evalDemand w (demandOf gd (gd.q.tag 1).key) with
    | false => rw [hfalse hd]
    | true =>
      obtain ⟨q', _, _, _, heq⟩ := htrue hd
      rw [heq]; simp [grant, setGuardQ_guards_get, hne]

/-- … and changes neither the objects, nor the processes, nor the clock -/
theorem frontStep_frame {w : World} {g : Nat} {gd : Guard} (hwf : GWF gd.q) :
    (∀ d, evalDemand (frontStep w g gd) d = evalDemand w d) ∧ (∀ p, (frontStep w g gd).proc p = w.proc p) ∧
    (frontStep w g gd).now = w.now ∧ (frontStep w g gd).conds = w.conds := by
  obtain ⟨h0, hpos⟩ := frontStep_spec w g gd hwf
  rcases Nat.eq_zero_or_pos gd.q.count with hc | hc
  · rw [h0 hc]; exact ⟨fun _ => rfl, fun _ => rfl, rfl, rfl⟩
  · obtain ⟨_, hfalse, htrue⟩ := hpos hc
    cases hd : evalDemand w (demandOf gd (gd.q.tag 1).key) with
    | false => rw [hfalse hd]; exact ⟨fun _ => rfl, fun _ => rfl, rfl, rfl⟩
    | true =>
      obtain ⟨q', _, _, _, heq⟩ := htrue hd
      rw [heq]
      exact ⟨fun d => evalDemand_congr rfl rfl rfl rfl rfl rfl d, fun _ => rfl, rfl, rfl⟩

theorem condSat_congr {w w' : World} (h : ∀ d, evalDemand w' d = evalDemand w d) (gd : Guard) : condSat w' gd = condSat w gd := by
  unfold condSat; simp only [h]

theorem condWakes_congr {w w' : World} (h : ∀ p, w'.proc p = w.proc p) (l : List HTag) : condWakes w' l = condWakes w l := by
  unfold condWakes; simp only [h]

/-- **one observing condition**: the complete signal of `g` is `g`'s own front step followed by exactly the condition
    signal of the observing condition `o`, evaluated in the state the signal finds (`w`: the front step changes neither
    objects, processes nor clock): one (aCond, SUCCESS) wake-up at the current time, with the waiter's priority, per waiter
    of `o` whose predicate holds, in heap-array order; `o`'s waiting list keeps exactly the others (`abs q'` is a
    permutation of the unsatisfied entries); nothing else is touched -/
theorem guardSignal_one_cond_observer {fuel : Nat} {w : World} {g o : Nat} {gd od : Guard} (hg : w.guards[g]? = some gd)
    (hobs : gd.observers = [o]) (hh : hasHandler w o = true) (hl : Leaf w o) (hne : o ≠ g)
    (hod : w.guards[o]? = some od) (hwfg : GWF gd.q) (hwf : GWF od.q) (hc : od.q.count ≠ 0) :
    ∃ q', GWF q' ∧ (abs q').Perm ((abs od.q).filter fun x => !evalDemand w (demandOf od x.key)) ∧
      guardSignal (fuel + 2) w g = setGuardQ (pushAll (frontStep w g gd) (condWakes w (condSat w od))) o q' := by
  have hobs' : ∀ o' ∈ gd.observers, hasHandler w o' = true ∧ Leaf w o' := by
    intro o' ho'; rw [hobs] at ho'; simp only [List.mem_singleton] at ho'; subst ho'; exact ⟨hh, hl⟩
  rw [guardSignal_cond_observers hg hobs', hobs]
  simp only [List.foldl_cons, List.foldl_nil]
  have hod1 : (frontStep w g gd).guards[o]? = some od := by rw [frontStep_guards_ne hwfg hne]; exact hod
  obtain ⟨hev, hpr, _, _⟩ := frontStep_frame (w := w) (g := g) hwfg
  obtain ⟨q', hwf', hperm, heq⟩ := condSignal_spec hod1 hwf hc
  refine ⟨q', hwf', ?_, ?_⟩
  · simpa only [hev] using hperm
  · rw [heq, condSat_congr hev, condWakes_congr hpr]

/-- the keys of a condition-signal batch: each satisfied waiter exactly once, nobody else -/
theorem condBatch_count {w : World} {od : Guard} (hwf : GWF od.q) (c : Nat) (t : Int) (k : Nat) :
    ((wakeEvs c t (condWakes w (condSat w od))).map (·.item.b)).count k =
      if k ∈ keys (abs od.q) ∧ evalDemand w (demandOf od k) = true then 1 else 0 := by
  rw [wakeEvs_subjs, List.count_reverse]
  have hkeys : ∀ x ∈ condSat w od, x.key - 1 + 1 = x.key := by
    intro x hx
    obtain ⟨hlive, _⟩ := mem_condSat.1 hx
    obtain ⟨i, hi1, hi2, rfl⟩ := (HashHeap.mem_liveTags _ _).1 hlive
    have := (hwf.keyOk i hi1 hi2).1; omega
  have hmap : (condWakes w (condSat w od)).map (·.subj) = (condSat w od).map (·.key) := by
    simp only [condWakes, List.map_map, Function.comp_def]
    exact List.map_congr_left hkeys
  rw [hmap]
  have hnd : ((condSat w od).map (·.key)).Nodup := by
    have h1 : (keys (abs od.q)).Nodup := hwf.keys_nodup
    rw [HashHeap.keys_abs] at h1
    exact List.Nodup.sublist ((List.filter_sublist).map _) h1
  have hmem : k ∈ (condSat w od).map (·.key) ↔ k ∈ keys (abs od.q) ∧ evalDemand w (demandOf od k) = true := by
    constructor
    · intro hm
      obtain ⟨x, hx, rfl⟩ := List.mem_map.1 hm
      obtain ⟨hlive, hd⟩ := mem_condSat.1 hx
      obtain ⟨i, hi1, hi2, rfl⟩ := (HashHeap.mem_liveTags _ _).1 hlive
      exact ⟨(HashHeap.mem_keys_abs _ _).2 ⟨i, ⟨hi1, hi2⟩, rfl⟩, hd⟩
    · intro ⟨hk, hd⟩
      obtain ⟨i, ⟨hi1, hi2⟩, rfl⟩ := (HashHeap.mem_keys_abs _ _).1 hk
      exact List.mem_map.2 ⟨od.q.tag i, mem_condSat.2 ⟨(HashHeap.mem_liveTags _ _).2 ⟨i, hi1, hi2, rfl⟩, hd⟩, rfl⟩
  rw [hnd.count]
  by_cases hk : k ∈ (condSat w od).map (·.key)
  · rw [if_pos hk, if_pos (hmem.1 hk)]
  · rw [if_neg hk, if_neg (fun h => hk (hmem.2 h))]

/-- what is true after the complete signal of a guard `g` with one observing condition `o` -/
structure FwdWoken (w W : World) (g o : Nat) (gd od : Guard) : Prop where
  /-- the events: the condition batch on top of what `g`'s own front step leaves -/
  pending : W.ev.pending = wakeEvs (frontStep w g gd).ev.counter w.now (condWakes w (condSat w od)) ++ (frontStep w g gd).ev.pending
  /-- every event of the batch is an (aCond, SUCCESS) wake-up at the current time with its subject's current priority -/
  batch : ∀ e ∈ wakeEvs (frontStep w g gd).ev.counter w.now (condWakes w (condSat w od)),
    w.ev.counter < e.key ∧ e = mkEv e.key aCond e.item.b sigSuccess w.now (w.proc (e.item.b - 1)).prio
  /-- exactly one wake-up per waiter of `o` whose predicate holds, none for anybody else -/
  once : ∀ k, ((wakeEvs (frontStep w g gd).ev.counter w.now (condWakes w (condSat w od))).map (·.item.b)).count k =
    if k ∈ keys (abs od.q) ∧ evalDemand w (demandOf od k) = true then 1 else 0
  /-- the waiting list of `o` keeps exactly the waiters whose predicate does not hold -/
  queue : ∃ od' : Guard, W.guards[o]? = some od' ∧ GWF od'.q ∧
    ∀ k, k ∈ keys (abs od'.q) ↔ k ∈ keys (abs od.q) ∧ evalDemand w (demandOf od k) = false
  /-- nothing else is touched -/
  others : ∀ g', g' ≠ o → W.guards[g']? = (frontStep w g gd).guards[g']?
  procs : W.procs = w.procs
  now : W.now = w.now
  objs : W.res = w.res ∧ W.pools = w.pools ∧ W.bufs = w.bufs ∧ W.oqs = w.oqs ∧ W.pqs = w.pqs ∧ W.flags = w.flags ∧
    W.conds = w.conds ∧ W.evWaiters = w.evWaiters

theorem fwdWoken_of_signal {fuel : Nat} {w : World} {g o : Nat} {gd od : Guard} (hg : w.guards[g]? = some gd)
    (hobs : gd.observers = [o]) (hh : hasHandler w o = true) (hl : Leaf w o) (hne : o ≠ g)
    (hod : w.guards[o]? = some od) (hall : AllGWF w) :
    FwdWoken w (guardSignal (fuel + 2) w g) g o gd od := by
  have hwfg := hall g gd hg
  have hwf := hall o od hod
  have hrel := frontStep_rel hg hall
  obtain ⟨hev, hpr, hnow, _⟩ := frontStep_frame (w := w) (g := g) hwfg
  have hctr : w.ev.counter ≤ (frontStep w g gd).ev.counter := by
    obtain ⟨new, _, hc, _⟩ := hrel.pending; omega
  have hbatch : ∀ e ∈ wakeEvs (frontStep w g gd).ev.counter w.now (condWakes w (condSat w od)),
      w.ev.counter < e.key ∧ e = mkEv e.key aCond e.item.b sigSuccess w.now (w.proc (e.item.b - 1)).prio := by
    intro e he
    obtain ⟨hlo, _, _, _, x, hx, hex⟩ := wakeEvs_props he
    obtain ⟨t, ht, rfl⟩ := List.mem_map.1 hx
    obtain ⟨hlive, _⟩ := mem_condSat.1 ht
    obtain ⟨i, hi1, hi2, rfl⟩ := (HashHeap.mem_liveTags _ _).1 hlive
    have hk0 := (hwf.keyOk i hi1 hi2).1
    have hk1 : (od.q.tag i).key - 1 + 1 = (od.q.tag i).key := by omega
    have hb : e.item.b = (od.q.tag i).key := by rw [hex]; simp [mkEv, hk1]
    refine ⟨by omega, ?_⟩
    rw [hb]; rw [hex]; simp [mkEv, hk1]
  by_cases hc : od.q.count = 0
  · -- nobody waits on the condition: the signal is the front step
    have hobs' : ∀ o' ∈ gd.observers, hasHandler w o' = true ∧ Leaf w o' := by
      intro o' ho'; rw [hobs] at ho'; simp only [List.mem_singleton] at ho'; subst ho'; exact ⟨hh, hl⟩
    have hod1 : (frontStep w g gd).guards[o]? = some od := by rw [frontStep_guards_ne hwfg hne]; exact hod
    have heq : guardSignal (fuel + 2) w g = frontStep w g gd := by
      rw [guardSignal_cond_observers hg hobs', hobs]
      simp only [List.foldl_cons, List.foldl_nil]
      rw [condSignal_empty hod1 hc]
    have hsat : condSat w od = [] := by
      unfold condSat
      have : liveTags od.q = [] := by
        apply List.eq_nil_iff_forall_not_mem.2
        intro t ht
        obtain ⟨i, hi1, hi2, _⟩ := (HashHeap.mem_liveTags _ _).1 ht
        omega
      rw [this]; rfl
    have hkeys : keys (abs od.q) = [] := by
      have : (abs od.q).length = 0 := by rw [HashHeap.abs_length]; exact hc
      rw [List.length_eq_zero_iff.1 this]; rfl
    rw [heq]
    refine { pending := by simp [hsat, condWakes, wakeEvs], batch := hbatch, once := fun k => condBatch_count hwf _ _ k,
             queue := ⟨od, hod1, hwf, fun k => by simp [hkeys]⟩, others := fun _ _ => rfl, procs := hrel.procs, now := hnow,
             objs := ⟨hrel.res, hrel.pools, hrel.bufs, hrel.oqs, hrel.pqs, hrel.flags, hrel.conds, hrel.evWaiters⟩ }
  · obtain ⟨q', hwf', hperm, heq⟩ := guardSignal_one_cond_observer (fuel := fuel) hg hobs hh hl hne hod hwfg hwf hc
    rw [heq]
    refine { pending := by simp [hnow], batch := hbatch, once := fun k => condBatch_count hwf _ _ k,
             queue := ?_, others := fun g' hg' => by simp [setGuardQ_guards_get, hg'], procs := hrel.procs, now := hnow,
             objs := ⟨hrel.res, hrel.pools, hrel.bufs, hrel.oqs, hrel.pqs, hrel.flags, hrel.conds, hrel.evWaiters⟩ }
    have hod1 : (frontStep w g gd).guards[o]? = some od := by rw [frontStep_guards_ne hwfg hne]; exact hod
    refine ⟨{ od with q := q' }, by simp [setGuardQ_guards_get, hod1], hwf', ?_⟩
    intro k
    have hkp : (keys (abs q')).Perm (keys ((abs od.q).filter fun x => !evalDemand w (demandOf od x.key))) := hperm.map _
    rw [hkp.mem_iff]
    constructor
    · intro hm
      obtain ⟨x, hx, rfl⟩ := Event.mem_keys.1 hm
      obtain ⟨hx1, hx2⟩ := List.mem_filter.1 hx
      exact ⟨Event.mem_keys.2 ⟨x, hx1, rfl⟩, by simpa using hx2⟩
    · intro ⟨hk, hd⟩
      obtain ⟨x, hx, rfl⟩ := Event.mem_keys.1 hk
      exact Event.mem_keys.2 ⟨x, List.mem_filter.2 ⟨hx, by simp [hd]⟩, rfl⟩

/-- the consequence the property asks for: every waiter of the observing condition whose predicate holds when the observed
    guard is signalled has its wake-up pending at that very time and is off the list; the others stay queued -/
theorem FwdWoken.resumed {w W : World} {g o : Nat} {gd od : Guard} (h : FwdWoken w W g o gd od) {k : Nat}
    (hk : k ∈ keys (abs od.q)) :
    (evalDemand w (demandOf od k) = true →
      (∃ e ∈ W.ev.pending, w.ev.counter < e.key ∧ e = mkEv e.key aCond k sigSuccess w.now (w.proc (k - 1)).prio) ∧
      ∃ od', W.guards[o]? = some od' ∧ k ∉ keys (abs od'.q)) ∧
    (evalDemand w (demandOf od k) = false → ∃ od', W.guards[o]? = some od' ∧ k ∈ keys (abs od'.q)) := by
  obtain ⟨od', hod', _, hq⟩ := h.queue
  constructor
  · intro hd
    refine ⟨?_, od', hod', fun hm => ?_⟩
    · have hcnt := h.once k
      rw [if_pos ⟨hk, hd⟩] at hcnt
      have hmem : k ∈ (wakeEvs (frontStep w g gd).ev.counter w.now (condWakes w (condSat w od))).map (·.item.b) :=
        List.count_pos_iff.1 (by omega)
      obtain ⟨e, he, hb⟩ := List.mem_map.1 hmem
      obtain ⟨h1, h2⟩ := h.batch e he
      refine ⟨e, by rw [h.pending]; exact List.mem_append_left _ he, h1, ?_⟩
      rw [← hb]; exact h2
    · have := ((hq k).1 hm).2
      rw [hd] at this; cases this
  · intro hd
    exact ⟨od', hod', (hq k).2 ⟨hk, hd⟩⟩

/-! ### the built-in objects: every state change that signals a guard reaches the observing condition

Each state-changing primitive is, as an equation, `signal w1 g` with `w1` the recorded updated state (Props/C08); with a
condition observing `g` (`Observes`), `FwdWoken w1 (signal w1 g) …` says what happens to the condition's waiters, and the
object state that their predicates see in `w1` is given next to it. -/

theorem getElem?_set!_self {α : Type} (xs : Array α) (i : Nat) (v : α) (h : i < xs.size) : (xs.set! i v)[i]? = some v := by
  rw [Array.set!_eq_setIfInBounds, Array.getElem?_setIfInBounds]; simp [h]

theorem lt_of_getElem?_some {α : Type} {xs : Array α} {i : Nat} {v : α} (h : xs[i]? = some v) : i < xs.size := by
  rcases Nat.lt_or_ge i xs.size with h' | h'
  · exact h'
  · rw [Array.getElem?_eq_none h'] at h; cases h

theorem recordRes_holder (w : World) (r : Nat) :
    ((recordRes w r).res[r]?).map (fun x : Res => x.holder) = (w.res[r]?).map (fun x : Res => x.holder) := by
  unfold recordRes
  split
  · rename_i x hx
    split
    · rw [getElem?_set!_self _ _ _ (lt_of_getElem?_some hx), hx]; rfl
    · rfl
  · rfl

theorem recordPool_state (w : World) (pl : Nat) :
    ((recordPool w pl).pools[pl]?).map (fun x : Pool => (x.cap, x.inUse)) = (w.pools[pl]?).map (fun x : Pool => (x.cap, x.inUse)) := by
  unfold recordPool
  split
  · rename_i x hx
    split
    · rw [getElem?_set!_self _ _ _ (lt_of_getElem?_some hx), hx]; rfl
    · rfl
  · rfl

theorem recordBuf_state (w : World) (b : Nat) :
    ((recordBuf w b).bufs[b]?).map (fun x : Buf => (x.cap, x.level)) = (w.bufs[b]?).map (fun x : Buf => (x.cap, x.level)) := by
  unfold recordBuf
  split
  · rename_i x hx
    split
    · rw [getElem?_set!_self _ _ _ (lt_of_getElem?_some hx), hx]; rfl
    · rfl
  · rfl

theorem recordOQ_state (w : World) (q : Nat) :
    ((recordOQ w q).oqs[q]?).map (fun x : OQ => (x.cap, x.items)) = (w.oqs[q]?).map (fun x : OQ => (x.cap, x.items)) := by
  unfold recordOQ
  split
  · rename_i x hx
    split
    · rw [getElem?_set!_self _ _ _ (lt_of_getElem?_some hx), hx]; rfl
    · rfl
  · rfl

theorem recordBuf_frame' (w : World) (b : Nat) : (recordBuf w b).ev = w.ev ∧ (recordBuf w b).procs = w.procs := by
  unfold recordBuf
  split
  · split <;> exact ⟨rfl, rfl⟩
  · exact ⟨rfl, rfl⟩

theorem recordPool_frame (w : World) (pl : Nat) :
    (recordPool w pl).guards = w.guards ∧ (recordPool w pl).ev = w.ev ∧ (recordPool w pl).procs = w.procs := by
  unfold recordPool
  split
  · split <;> exact ⟨rfl, rfl, rfl⟩
  · exact ⟨rfl, rfl, rfl⟩

theorem recordRes_frame (w : World) (r : Nat) :
    (recordRes w r).guards = w.guards ∧ (recordRes w r).ev = w.ev ∧ (recordRes w r).procs = w.procs := by
  unfold recordRes
  split
  · split <;> exact ⟨rfl, rfl, rfl⟩
  · exact ⟨rfl, rfl, rfl⟩

theorem record_static (w : World) (i : Nat) :
    ((recordRes w i).guards = w.guards ∧ (recordRes w i).conds = w.conds) ∧
    ((recordPool w i).guards = w.guards ∧ (recordPool w i).conds = w.conds) ∧
    ((recordBuf w i).guards = w.guards ∧ (recordBuf w i).conds = w.conds) ∧
    ((recordOQ w i).guards = w.guards ∧ (recordOQ w i).conds = w.conds) := by
  refine ⟨?_, ?_, ?_, ?_⟩
  · unfold recordRes; split
    · split <;> exact ⟨rfl, rfl⟩
    · exact ⟨rfl, rfl⟩
  · unfold recordPool; split
    · split <;> exact ⟨rfl, rfl⟩
    · exact ⟨rfl, rfl⟩
  · unfold recordBuf; split
    · split <;> exact ⟨rfl, rfl⟩
    · exact ⟨rfl, rfl⟩
  · unfold recordOQ; split
    · split <;> exact ⟨rfl, rfl⟩
    · exact ⟨rfl, rfl⟩

/-- the usual shape of a subscription: guard `g` (with entry `gd`) is observed by exactly the guard `o` (with entry `od`) of a
    condition, which has no observers of its own; all waiting lists are well-formed -/
structure Observes (w : World) (g o : Nat) (gd od : Guard) : Prop where
  hg : w.guards[g]? = some gd
  one : gd.observers = [o]
  handler : hasHandler w o = true
  leaf : Leaf w o
  ne : o ≠ g
  hod : w.guards[o]? = some od
  wf : AllGWF w

theorem Observes.transfer {w w1 : World} {g o : Nat} {gd od : Guard} (h : Observes w g o gd od) (hgu : w1.guards = w.guards)
    (hc : w1.conds = w.conds) : Observes w1 g o gd od :=
  ⟨by rw [hgu]; exact h.hg, h.one, by rw [hasHandler_congr hc]; exact h.handler,
   fun od' hod' => h.leaf od' (by rw [← hgu]; exact hod'), h.ne, by rw [hgu]; exact h.hod,
   fun g' gd' hg' => h.wf g' gd' (by rw [← hgu]; exact hg')⟩

/-- `cmb_resourceguard_signal` on an observed guard -/
theorem Observes.signal {w : World} {g o : Nat} {gd od : Guard} (h : Observes w g o gd od) :
    FwdWoken w (signal w g) g o gd od :=
  fwdWoken_of_signal (fuel := 6) h.hg h.one h.handler h.leaf h.ne h.hod h.wf


theorem prio_removeHeld (w : World) (p : Pid) (h : HoldRef) (q : Pid) : ((removeHeld w p h).1.proc q).prio = (w.proc q).prio := by
  simp only [removeHeld]
  rw [modProc_proc]; split
  · rename_i hq; rw [hq.1]
  · rfl

/-- release of a resource by its holder: every waiter of the observing condition that waits for this resource to be free
    (`cond 1 r _`) finds its predicate true in `w1` -/
theorem release_fwd {w : World} {p : Pid} {r : Nat} {x : Res} (hx : w.res[r]? = some x) (hh : x.holder = some p)
    {o : Nat} {gd od : Guard} (ho : Observes w x.guard o gd od) :
    ∃ w1 : World, (execCmd w p (.release r)).1 = signal w1 x.guard ∧ FwdWoken w1 (signal w1 x.guard) x.guard o gd od ∧
      (∀ b, evalDemand w1 (.cond 1 r b) = true) ∧
      w1.now = w.now ∧ w1.ev = w.ev ∧ w1.flags = w.flags ∧ ∀ q, (w1.proc q).prio = (w.proc q).prio := by
  refine ⟨_, by rw [release_signals hx hh], (ho.transfer ?_ ?_).signal, ?_, ?_, ?_, ?_, ?_⟩
  · rw [(record_static _ r).1.1]; simp [removeHeld]
  · rw [(record_static _ r).1.2]; simp [removeHeld]
  · intro b
    have h := recordRes_holder { (removeHeld w p (.res r)).1 with
        res := (removeHeld w p (.res r)).1.res.set! r { x with holder := none } } r
    have hr : (removeHeld w p (.res r)).1.res = w.res := by simp [removeHeld]
    simp only [hr] at h
    rw [getElem?_set!_self _ _ _ (lt_of_getElem?_some hx)] at h
    simp only [evalDemand, hr]
    cases hrr : (recordRes { (removeHeld w p (.res r)).1 with res := w.res.set! r { x with holder := none } } r).res[r]? with
    | none => rw [hrr] at h; cases h
    | some y =>
      rw [hrr] at h
      simp only [Option.map_some, Option.some.injEq] at h
      simp [h]
  · show (recordRes _ r).ev.now = w.ev.now
    rw [(recordRes_frame _ r).2.1]; simp [removeHeld]
  · rw [(recordRes_frame _ r).2.1]; simp [removeHeld]
  · unfold recordRes; split
    · split <;> simp [removeHeld]
    · simp [removeHeld]
  · intro q
    have : (recordRes { (removeHeld w p (.res r)).1 with
        res := (removeHeld w p (.res r)).1.res.set! r { x with holder := none } } r).procs = (removeHeld w p (.res r)).1.procs :=
      (recordRes_frame _ r).2.2
    have hp : ∀ {a b : World}, a.procs = b.procs → a.proc q = b.proc q := fun h => by unfold World.proc; rw [h]
    rw [hp this]; exact prio_removeHeld w p _ q

/-- a resource dropped at the end of its holder (`cmi_process_drop_resources`) -/
theorem dropRes_fwd {w : World} (p : Pid) {r : Nat} {x : Res} (hx : w.res[r]? = some x)
    {o : Nat} {gd od : Guard} (ho : Observes w x.guard o gd od) :
    ∃ w1 : World, dropStep p w (.res r) = signal w1 x.guard ∧ FwdWoken w1 (signal w1 x.guard) x.guard o gd od ∧
      (∀ b, evalDemand w1 (.cond 1 r b) = true) ∧ w1.now = w.now ∧ w1.ev = w.ev ∧ w1.procs = w.procs := by
  refine ⟨_, dropStep_res_signals p hx, (ho.transfer ?_ ?_).signal, ?_, ?_, ?_, ?_⟩
  · rw [(record_static _ r).1.1]
  · rw [(record_static _ r).1.2]
  · intro b
    have h := recordRes_holder { w with res := w.res.set! r { x with holder := none } } r
    simp only at h
    rw [getElem?_set!_self _ _ _ (lt_of_getElem?_some hx)] at h
    simp only [evalDemand]
    cases hrr : (recordRes { w with res := w.res.set! r { x with holder := none } } r).res[r]? with
    | none => rw [hrr] at h; cases h
    | some y =>
      rw [hrr] at h
      simp only [Option.map_some, Option.some.injEq] at h
      simp [h]
  · show (recordRes _ r).ev.now = w.ev.now
    rw [(recordRes_frame _ r).2.1]
  · rw [(recordRes_frame _ r).2.1]
  · rw [(recordRes_frame _ r).2.2]

/-- a put into an object queue with space: the condition observing the getters' guard is signalled and sees the new length -/
theorem oqPut_fwd {w : World} {p : Pid} {q obj : Nat} {x : OQ} (hx : w.oqs[q]? = some x) (hl : x.items.length < x.cap)
    {o : Nat} {gd od : Guard} (ho : Observes w x.front o gd od) :
    ∃ w1 : World, (oqPutLoop w p q obj).1 = signal w1 x.front ∧ FwdWoken w1 (signal w1 x.front) x.front o gd od ∧
      (∀ n, evalDemand w1 (.cond 4 q n) = decide (x.items.length + 1 ≥ n)) ∧ w1.now = w.now ∧ w1.ev = w.ev ∧ w1.procs = w.procs := by
  refine ⟨_, oqPut_signals hx hl, (ho.transfer ?_ ?_).signal, ?_, ?_, ?_, ?_⟩
  · rw [(record_static _ q).2.2.2.1]
  · rw [(record_static _ q).2.2.2.2]
  · intro n
    have h := recordOQ_state { w with oqs := w.oqs.set! q { x with items := x.items ++ [obj], putLog := x.putLog ++ [obj] } } q
    simp only at h
    rw [getElem?_set!_self _ _ _ (lt_of_getElem?_some hx)] at h
    simp only [evalDemand]
    cases hrr : (recordOQ { w with oqs := w.oqs.set! q { x with items := x.items ++ [obj], putLog := x.putLog ++ [obj] } } q).oqs[q]? with
    | none => rw [hrr] at h; cases h
    | some y =>
      rw [hrr] at h
      simp only [Option.map_some, Option.some.injEq, Prod.mk.injEq] at h
      simp [h.2]
  · unfold recordOQ; split
    · split <;> rfl
    · rfl
  · unfold recordOQ; split
    · split <;> rfl
    · rfl
  · unfold recordOQ; split
    · split <;> rfl
    · rfl

/-- a get from a non-empty object queue: the condition observing the putters' guard is signalled and sees the new length -/
theorem oqGet_fwd {w : World} {p : Pid} {q : Nat} {x : OQ} {it : Nat} {rest : List Nat} (hx : w.oqs[q]? = some x)
    (hi : x.items = it :: rest) {o : Nat} {gd od : Guard} (ho : Observes w x.rear o gd od) :
    ∃ w1 : World, (oqGetLoop w p q).1 = signal w1 x.rear ∧ FwdWoken w1 (signal w1 x.rear) x.rear o gd od ∧
      (∀ n, evalDemand w1 (.cond 4 q n) = decide (rest.length ≥ n)) ∧ w1.now = w.now ∧ w1.ev = w.ev ∧ w1.procs = w.procs := by
  refine ⟨_, oqGet_signals hx hi, (ho.transfer ?_ ?_).signal, ?_, ?_, ?_, ?_⟩
  · rw [(record_static _ q).2.2.2.1]
  · rw [(record_static _ q).2.2.2.2]
  · intro n
    have h := recordOQ_state { w with oqs := w.oqs.set! q { x with items := rest, gotLog := x.gotLog ++ [it] } } q
    simp only at h
    rw [getElem?_set!_self _ _ _ (lt_of_getElem?_some hx)] at h
    simp only [evalDemand]
    cases hrr : (recordOQ { w with oqs := w.oqs.set! q { x with items := rest, gotLog := x.gotLog ++ [it] } } q).oqs[q]? with
    | none => rw [hrr] at h; cases h
    | some y =>
      rw [hrr] at h
      simp only [Option.map_some, Option.some.injEq, Prod.mk.injEq] at h
      simp [h.2]
  · unfold recordOQ; split
    · split <;> rfl
    · rfl
  · unfold recordOQ; split
    · split <;> rfl
    · rfl
  · unfold recordOQ; split
    · split <;> rfl
    · rfl

/-- a put that fits into a buffer: the condition observing the getters' guard is signalled (first) and sees the new level;
    the signal of the putters' guard, if any, follows -/
theorem bufPut_fwd {w : World} {p : Pid} {b rem left : Nat} {x : Buf} (hx : w.bufs[b]? = some x) (hl : x.cap - x.level ≥ rem)
    {o : Nat} {gd od : Guard} (ho : Observes w x.front o gd od) :
    ∃ w1 : World, (bufPutLoop w p b rem left).1 = (if x.level + rem < x.cap then signal (signal w1 x.front) x.rear else signal w1 x.front) ∧
      FwdWoken w1 (signal w1 x.front) x.front o gd od ∧
      (∀ n, evalDemand w1 (.cond 3 b n) = decide (x.level + rem ≥ n)) ∧ w1.now = w.now ∧ w1.ev = w.ev ∧ w1.procs = w.procs := by
  refine ⟨_, bufPut_done_signals hx hl, (ho.transfer ?_ ?_).signal, ?_, ?_, ?_, ?_⟩
  · rw [(record_static _ b).2.2.1.1]
  · rw [(record_static _ b).2.2.1.2]
  · intro n
    have h := recordBuf_state { w with bufs := w.bufs.set! b { x with level := x.level + rem, putTotal := x.putTotal + rem } } b
    simp only at h
    rw [getElem?_set!_self _ _ _ (lt_of_getElem?_some hx)] at h
    simp only [evalDemand]
    cases hrr : (recordBuf { w with bufs := w.bufs.set! b { x with level := x.level + rem, putTotal := x.putTotal + rem } } b).bufs[b]? with
    | none => rw [hrr] at h; cases h
    | some y =>
      rw [hrr] at h
      simp only [Option.map_some, Option.some.injEq, Prod.mk.injEq] at h
      simp [h.2]
  · show (recordBuf _ b).ev.now = w.ev.now
    rw [(recordBuf_frame' _ b).1]
  · rw [(recordBuf_frame' _ b).1]
  · rw [(recordBuf_frame' _ b).2]

/-- a get that the buffer can serve: the condition observing the putters' guard is signalled (first) and sees the new level -/
theorem bufGet_fwd {w : World} {p : Pid} {b rem got : Nat} {x : Buf} (hx : w.bufs[b]? = some x) (hl : x.level ≥ rem)
    {o : Nat} {gd od : Guard} (ho : Observes w x.rear o gd od) :
    ∃ w1 : World, (bufGetLoop w p b rem got).1 = (if x.level - rem > 0 then signal (signal w1 x.rear) x.front else signal w1 x.rear) ∧
      FwdWoken w1 (signal w1 x.rear) x.rear o gd od ∧
      (∀ n, evalDemand w1 (.cond 3 b n) = decide (x.level - rem ≥ n)) ∧ w1.now = w.now ∧ w1.ev = w.ev ∧ w1.procs = w.procs := by
  refine ⟨_, bufGet_done_signals hx hl, (ho.transfer ?_ ?_).signal, ?_, ?_, ?_, ?_⟩
  · rw [(record_static _ b).2.2.1.1]
  · rw [(record_static _ b).2.2.1.2]
  · intro n
    have h := recordBuf_state { w with bufs := w.bufs.set! b { x with level := x.level - rem, getTotal := x.getTotal + rem } } b
    simp only at h
    rw [getElem?_set!_self _ _ _ (lt_of_getElem?_some hx)] at h
    simp only [evalDemand]
    cases hrr : (recordBuf { w with bufs := w.bufs.set! b { x with level := x.level - rem, getTotal := x.getTotal + rem } } b).bufs[b]? with
    | none => rw [hrr] at h; cases h
    | some y =>
      rw [hrr] at h
      simp only [Option.map_some, Option.some.injEq, Prod.mk.injEq] at h
      simp [h.2]
  · show (recordBuf _ b).ev.now = w.ev.now
    rw [(recordBuf_frame' _ b).1]
  · rw [(recordBuf_frame' _ b).1]
  · rw [(recordBuf_frame' _ b).2]

/-- a holder record of a pool dropped (end / stop of the holder): the units go back, the observing condition is signalled
    and sees the new amount in use -/
theorem poolDrop_fwd {w : World} {pl : Nat} {p : Pid} {x : Pool} {i : Nat} {h' : HH} {bb : Bool}
    (hx : w.pools[pl]? = some x) (hi : HashHeap.findIndex x.holders (p + 1) = .ok (i + 1))
    (hr : HashHeap.remove holder_queue_check x.holders (p + 1) = .ok (h', bb))
    {o : Nat} {gd od : Guard} (ho : Observes w x.guard o gd od) :
    ∃ w1 : World, poolDropHolder w pl p = signal w1 x.guard ∧ FwdWoken w1 (signal w1 x.guard) x.guard o gd od ∧
      (∀ n, evalDemand w1 (.cond 2 pl n) = decide (x.cap - (x.inUse - (x.holders.heap.getD (i + 1) {}).item.b) ≥ n)) ∧
      w1.now = w.now ∧ w1.ev = w.ev ∧ w1.procs = w.procs := by
  refine ⟨_, poolDropHolder_signals hx hi hr, (ho.transfer ?_ ?_).signal, ?_, ?_, ?_, ?_⟩
  · rw [(record_static _ pl).2.1.1]
  · rw [(record_static _ pl).2.1.2]
  · intro n
    have h := recordPool_state { w with pools := w.pools.set! pl { x with inUse := x.inUse - (x.holders.heap.getD (i + 1) {}).item.b, holders := h' } } pl
    simp only at h
    rw [getElem?_set!_self _ _ _ (lt_of_getElem?_some hx)] at h
    simp only [evalDemand]
    cases hrr : (recordPool { w with pools := w.pools.set! pl { x with inUse := x.inUse - (x.holders.heap.getD (i + 1) {}).item.b, holders := h' } } pl).pools[pl]? with
    | none => rw [hrr] at h; cases h
    | some y =>
      rw [hrr] at h
      simp only [Option.map_some, Option.some.injEq, Prod.mk.injEq] at h
      simp [h.1, h.2]
  · show (recordPool _ pl).ev.now = w.ev.now
    rw [(recordPool_frame _ pl).2.1]
  · rw [(recordPool_frame _ pl).2.1]
  · rw [(recordPool_frame _ pl).2.2]

/-- the holder bookkeeping of `cmb_resourcepool_release` (before the units go back) -/
def relMid (w : World) (p : Pid) (pl n : Nat) (x : Pool) : World :=
  if heldAmount w pl p = n then
    match HashHeap.remove holder_queue_check x.holders (p + 1) with
    | .ok (h', _) => (removeHeld { w with pools := w.pools.set! pl { x with holders := h' } } p (.pool pl)).1
    | .error f => w.fail s!"pool release: {f}"
  else setHeldAmount w pl p (heldAmount w pl p - n)

theorem poolRelease_eq {w : World} {p : Pid} {pl n : Nat} {x : Pool} (hx : w.pools[pl]? = some x)
    (hn : ¬ (n = 0 ∨ n > heldAmount w pl p)) :
    execCmd w p (.poolRelease pl n) =
      (signal (recordPool (setPoolInUse (relMid w p pl n x) pl (x.inUse - n)) pl) x.guard, .ret 0 "") := by
  simp only [execCmd, hx, hn, if_false, relMid]
  rfl

theorem relMid_frame {w : World} (p : Pid) {pl : Nat} (n : Nat) {x : Pool} (hx : w.pools[pl]? = some x) :
    (relMid w p pl n x).guards = w.guards ∧ (relMid w p pl n x).conds = w.conds ∧ (relMid w p pl n x).ev = w.ev ∧
    (∀ q, ((relMid w p pl n x).proc q).prio = (w.proc q).prio) ∧
    ∃ y, (relMid w p pl n x).pools[pl]? = some y ∧ y.cap = x.cap := by
  have hlt := lt_of_getElem?_some hx
  unfold relMid
  split
  · split
    · refine ⟨by simp [removeHeld], by simp [removeHeld], by simp [removeHeld], fun q => ?_, ?_⟩
      · rw [prio_removeHeld]; rfl
      · rename_i h' _ _
        refine ⟨{ x with holders := h' }, ?_, rfl⟩
        simp only [removeHeld, modProc_pools]
        exact getElem?_set!_self _ _ _ hlt
    · exact ⟨by simp, by simp, by simp, fun q => by simp, x, by simpa using hx, rfl⟩
  · unfold setHeldAmount
    rw [hx]
    dsimp only
    split
    · split
      · exact ⟨by simp, by simp, by simp, fun q => by simp, x, by simpa using hx, rfl⟩
      · exact ⟨rfl, rfl, rfl, fun q => rfl, _, getElem?_set!_self _ _ _ hlt, rfl⟩
    · exact ⟨by simp, by simp, by simp, fun q => by simp, x, by simpa using hx, rfl⟩

/-- release of pool units by a holder: the observing condition is signalled and sees the new amount in use -/
theorem poolRelease_fwd {w : World} {p : Pid} {pl n : Nat} {x : Pool} (hx : w.pools[pl]? = some x)
    (hn : ¬ (n = 0 ∨ n > heldAmount w pl p)) {o : Nat} {gd od : Guard} (ho : Observes w x.guard o gd od) :
    ∃ w1 : World, (execCmd w p (.poolRelease pl n)).1 = signal w1 x.guard ∧ FwdWoken w1 (signal w1 x.guard) x.guard o gd od ∧
      (∀ b, evalDemand w1 (.cond 2 pl b) = decide (x.cap - (x.inUse - n) ≥ b)) ∧
      w1.now = w.now ∧ w1.ev = w.ev ∧ ∀ q, (w1.proc q).prio = (w.proc q).prio := by
  obtain ⟨hgu, hc, hev, hpr, y, hy, hcap⟩ := relMid_frame p n hx
  refine ⟨_, by rw [poolRelease_eq hx hn], (ho.transfer ?_ ?_).signal, ?_, ?_, ?_, ?_⟩
  · rw [(record_static _ pl).2.1.1]; simp [setPoolInUse, hgu]
  · rw [(record_static _ pl).2.1.2]; simp [setPoolInUse, hc]
  · intro b
    have h := recordPool_state (setPoolInUse (relMid w p pl n x) pl (x.inUse - n)) pl
    have h2 : (setPoolInUse (relMid w p pl n x) pl (x.inUse - n)).pools[pl]? = some { y with inUse := x.inUse - n } := by
      simp [setPoolInUse, Array.getElem?_modify, hy]
    rw [h2] at h
    simp only [evalDemand]
    cases hrr : (recordPool (setPoolInUse (relMid w p pl n x) pl (x.inUse - n)) pl).pools[pl]? with
    | none => rw [hrr] at h; cases h
    | some z =>
      rw [hrr] at h
      simp only [Option.map_some, Option.some.injEq, Prod.mk.injEq] at h
      simp [h.1, h.2, hcap]
  · show (recordPool _ pl).ev.now = w.ev.now
    rw [(recordPool_frame _ pl).2.1]; simp [setPoolInUse, hev]
  · rw [(recordPool_frame _ pl).2.1]; simp [setPoolInUse, hev]
  · intro q
    have hp : ∀ {a b : World}, a.procs = b.procs → a.proc q = b.proc q := fun h => by unfold World.proc; rw [h]
    rw [hp (recordPool_frame _ pl).2.2]
    have : (setPoolInUse (relMid w p pl n x) pl (x.inUse - n)).procs = (relMid w p pl n x).procs := rfl
    rw [hp this]; exact hpr q

/-- witness: a resource (guard 0) held by process 0 and observed by a condition (guard 1) on which process 1 (priority 5)
    and then process 2 (priority 0) have entered `cond_wait` for "resource 0 is free" — two waiters behind each other -/
def fwdWorld : World :=
  guardWaitEnter (guardWaitEnter
    { procs := #[{ prio := 0, status := .running, held := [.res 0] },
                 { prio := 5, status := .running, blocked := some (.condWait 0) },
                 { prio := 0, status := .running, blocked := some (.condWait 0) }],
      guards := #[{ q := mkHH 3, observers := [1] }, { q := mkHH 3, isCond := true }],
      res := #[{ holder := some 0, guard := 0 }],
      conds := #[1] } 1 1 (.cond 1 0 0)) 1 2 (.cond 1 0 0)

end CimbaModel.Sim.S3
