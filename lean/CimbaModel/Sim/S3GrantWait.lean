/-
  S3 — the grant invariant, part 6: entering and leaving a guard wait.
-/
import CimbaModel.Sim.S3GrantInert

namespace CimbaModel.Sim.S3
open CimbaModel CimbaModel.Sim CimbaModel.Event CimbaModel.Generated CimbaModel.KPQ
open CimbaModel.HashHeap (HTag Item Order HH WF abs liveTags)

variable {ex : Pid → Prop} {df : Demand → Nat} {w : World}

/-- replacing the waiting list of `g` by a well-formed one with fewer keys -/
theorem QI.shrinkQueue (hq : QI ex w) {g : Nat} {gd : Guard} (hg : w.guards[g]? = some gd) {q' : HH} (hwf : GWF q')
    (hsub : ∀ k, k ∈ keys (abs q') → k ∈ keys (abs gd.q)) : QI ex (setGuardQ w g q') := by
  have hqd : ∀ g' k, queued (setGuardQ w g q') g' k → queued w g' k := by
    intro g' k h
    rw [queued_setGuardQ hg] at h
    split at h
    · rename_i hgg; subst hgg; exact ⟨gd, hg, hsub k h⟩
    · exact h
  refine ⟨hq.ei, ?_, fun g' k h => hq.gk g' k (hqd g' k h), ?_⟩
  · intro g' gd' h'
    rw [setGuardQ_guards_get] at h'
    split at h'
    · rw [hg] at h'; cases h'; exact hwf
    · exact hq.gwf g' gd' h'
  · intro d g' hd gd' h' k hk
    rw [setGuardQ_guards_get] at h'
    split at h'
    · rename_i hgg; subst hgg
      rw [hg] at h'; cases h'
      exact hq.hg d g' hd gd hg k (hsub k hk)
    · exact hq.hg d g' hd gd' h' k hk

theorem GI.shrinkQueue (hgi : GI df w) {g : Nat} {gd : Guard} (hg : w.guards[g]? = some gd) {q' : HH}
    (hsub : ∀ k, k ∈ keys (abs q') → k ∈ keys (abs gd.q)) : GI df (setGuardQ w g q') := by
  intro d g' hd hqn
  obtain ⟨k, hk⟩ := hqn
  have hk' : queued w g' k := by
    rw [queued_setGuardQ hg] at hk
    split at hk
    · rename_i hgg; subst hgg; exact ⟨gd, hg, hsub k hk⟩
    · exact hk
  exact hgi d g' hd ⟨k, hk'⟩

/-- changing the awaits of a process that owns no grant -/
theorem GI.modAwaits (hgi : GI df w) (hi : EvInv w.ev) (p : Pid) (f : Proc → Proc)
    (hng : ∀ e ∈ w.ev.pending, isG01 e → e.item.b ≠ p + 1) (hb0 : ∀ e ∈ w.ev.pending, isG01 e → e.item.b ≠ 0) :
    GI df (w.modProc p f) := by
  intro d g hd hq
  have h1 := hgi d g hd hq
  have h2 : G w g ≤ G (w.modProc p f) g := by
    refine G_le_of_keep hi g ?_
    intro e he hg
    refine ⟨e, he, rfl, hg.1, ?_⟩
    have hne : e.item.b - 1 ≠ p := by
      have := hng e he hg.1; have := hb0 e he hg.1; omega
    rw [modProc_proc_ne w _ hne]; exact hg.2
  have h3 : need (w.modProc p f) d = need w d := rfl
  omega

/-- `GI` after the grants of `p` have been cancelled: a deficit of one at the guard `p` awaits -/
theorem GI.cancelOwn (hq : QI ex w) (hgi : GI df w) (g : Nat) (p : Pid)
    (hown : ∀ g', Await.guard g' ∈ (w.proc p).awaits → g' = g)
    (hu : ∀ e1 ∈ w.ev.pending, ∀ e2 ∈ w.ev.pending, isG01 e1 → isG01 e2 → e1.item.b = p + 1 → e2.item.b = p + 1 → e1 = e2)
    {df' : Demand → Nat} (h1 : ∀ d, gOf w d = some g → 0 < (cancelKindFor w p aRes (some sigSuccess)).2 →
      Await.guard g ∈ (w.proc p).awaits → df d + 1 ≤ df' d)
    (h2 : ∀ d, df d ≤ df' d) :
    GI df' (cancelKindFor w p aRes (some sigSuccess)).1 ∧ QI ex (cancelKindFor w p aRes (some sigSuccess)).1 := by
  obtain ⟨hrel, hgone, hstay, hn⟩ := cancelKindFor_spec w p aRes (some sigSuccess) hq.ei
  have hmatch : ∀ e, kindMatch p aRes (some sigSuccess) e = true ↔ (isG01 e ∧ e.item.b = p + 1) := by
    intro e
    unfold kindMatch isG01
    simp only [Bool.and_eq_true, decide_eq_true_eq]
    have : encSig sigSuccess = 0 := by decide
    rw [this]
    constructor
    · rintro ⟨⟨a, b⟩, c⟩; exact ⟨⟨b, c⟩, a⟩
    · rintro ⟨⟨b, c⟩, a⟩; exact ⟨⟨a, b⟩, c⟩
  generalize hW : (cancelKindFor w p aRes (some sigSuccess)).1 = w1 at hrel hgone hstay
  have hq1 : QI ex w1 := by
    refine ⟨hrel.evinv hq.ei, fun g' gd h' => hq.gwf g' gd (by rw [← hrel.guards]; exact h'), ?_, ?_⟩
    · intro g' k hk
      have := hq.gk g' k ((queued_congr hrel.guards g' k).1 hk)
      rw [hrel.proc]; exact this
    · intro d g' hd gd h' k hk
      rw [gOf_congr hrel.res hrel.pools hrel.bufs hrel.oqs hrel.pqs] at hd
      rw [hrel.guards] at h'
      exact hq.hg d g' hd gd h' k hk
  refine ⟨?_, hq1⟩
  intro d g' hd hqn
  rw [gOf_congr hrel.res hrel.pools hrel.bufs hrel.oqs hrel.pqs] at hd
  rw [need_congr hrel.res hrel.pools hrel.bufs hrel.oqs hrel.pqs]
  obtain ⟨k, hk⟩ := hqn
  have hold := hgi d g' hd ⟨k, (queued_congr hrel.guards g' k).1 hk⟩
  have hgo : ∀ e, grantOf w1 g' e ↔ grantOf w g' e := grantOf_congr (fun x => by rw [hrel.proc]) g'
  -- grants of other processes stay
  have hkeep : ∀ e ∈ w.ev.pending, e.item.b ≠ p + 1 → grantOf w g' e → ∃ e' ∈ w1.ev.pending, e'.key = e.key ∧ grantOf w1 g' e' := by
    intro e he hb hgr
    refine ⟨e, hstay e he ?_, rfl, (hgo e).2 hgr⟩
    cases hm : kindMatch p aRes (some sigSuccess) e with
    | false => rfl
    | true => exact absurd ((hmatch e).1 hm).2 hb
  by_cases hgg : g' = g
  · subst hgg
    by_cases hex0 : ∃ e0 ∈ w.ev.pending, isG01 e0 ∧ e0.item.b = p + 1
    · obtain ⟨e0, he0, hg0, hb0⟩ := hex0
      have hpos : 0 < (cancelKindFor w p aRes (some sigSuccess)).2 := by
        rw [hn]; exact List.length_pos_of_mem (List.mem_filter.2 ⟨he0, (hmatch e0).2 ⟨hg0, hb0⟩⟩)
      by_cases hpa : Await.guard g' ∈ (w.proc p).awaits
      · have hle : G w g' ≤ G w1 g' + 1 := by
          refine G_le_succ_of_keep_except hq.ei g' e0.key ?_
          intro e he hk hgr
          refine hkeep e he ?_ hgr
          intro hb
          exact hk (by rw [hu e he e0 he0 hgr.1 hg0 hb hb0])
        have := h1 d hd hpos hpa
        omega
      · have hle : G w g' ≤ G w1 g' := by
          refine G_le_of_keep hq.ei g' ?_
          intro e he hgr
          refine hkeep e he ?_ hgr
          intro hb
          have := hgr.2; rw [hb, Nat.add_sub_cancel] at this
          exact hpa this
        have := h2 d
        omega
    · have hle : G w g' ≤ G w1 g' := by
        refine G_le_of_keep hq.ei g' ?_
        intro e he hgr
        exact hkeep e he (fun hb => hex0 ⟨e, he, hgr.1, hb⟩) hgr
      have := h2 d
      omega
  · have hle : G w g' ≤ G w1 g' := by
      refine G_le_of_keep hq.ei g' ?_
      intro e he hgr
      refine hkeep e he ?_ hgr
      intro hb
      have : Await.guard g' ∈ (w.proc p).awaits := by
        have := hgr.2; rw [hb, Nat.add_sub_cancel] at this; exact this
      exact hgg (hown g' this)
    have := h2 d
    omega

/-- `guardWithdraw`: a queued entry is removed, or a pending grant is cancelled and passed on; `GI` survives.  If the
    process does not even await the guard any more (its awaits have been cleared, as in `cancel_awaiteds`) the signal
    settles a deficit of one. -/
theorem GI.guardWithdraw {df' : Demand → Nat} (hq : QI ex w) (hgi : GI df w) (g : Nat) (p : Pid)
    (hown : ∀ g', Await.guard g' ∈ (w.proc p).awaits → g' = g)
    (hu : ∀ e1 ∈ w.ev.pending, ∀ e2 ∈ w.ev.pending, isG01 e1 → isG01 e2 → e1.item.b = p + 1 → e2.item.b = p + 1 → e1 = e2)
    (hexq : ∀ k, queued w g k → k ≠ p + 1 → ¬ ex (k - 1))
    (hA : ∀ d, gOf w d ≠ some g → df d ≤ df' d)
    (hB : ∀ d, gOf w d = some g →
      ((¬ queued w g (p + 1) ∧ 0 < (cancelKindFor w p aRes (some sigSuccess)).2 ∧ Await.guard g ∉ (w.proc p).awaits) → df d ≤ df' d + 1) ∧
      (¬ (¬ queued w g (p + 1) ∧ 0 < (cancelKindFor w p aRes (some sigSuccess)).2 ∧ Await.guard g ∉ (w.proc p).awaits) → df d ≤ df' d)) :
    GI df' (guardWithdraw w g p) ∧ QI ex (guardWithdraw w g p) := by
  have hle : ∀ d, ¬ (¬ queued w g (p + 1) ∧ 0 < (cancelKindFor w p aRes (some sigSuccess)).2 ∧ Await.guard g ∉ (w.proc p).awaits) →
      df d ≤ df' d := by
    intro d hc
    cases hd : gOf w d with
    | none => exact hA d (by rw [hd]; simp)
    | some g' =>
      by_cases hgg : g' = g
      · subst hgg; exact (hB d hd).2 hc
      · exact hA d (by rw [hd]; intro h; exact hgg (Option.some.inj h))
  by_cases hqp : queued w g (p + 1)
  · obtain ⟨gd, hg, hk⟩ := hqp
    obtain ⟨q', hwf', hperm, heq⟩ := guardWithdraw_queued hg (hq.gwf g gd hg) hk
    rw [heq]
    have hsub : ∀ k, k ∈ keys (abs q') → k ∈ keys (abs gd.q) := by
      intro k hk'
      obtain ⟨e, he, rfl⟩ := Event.mem_keys.1 hk'
      have := (mem_remove.1 (hperm.mem_iff.1 he)).1
      exact Event.mem_keys.2 ⟨e, this, rfl⟩
    exact ⟨(hgi.shrinkQueue hg hsub).mono (fun d => hle d (fun hc => hc.1 ⟨gd, hg, hk⟩)), hq.shrinkQueue hg hwf' hsub⟩
  · have heq : Sim.guardWithdraw w g p =
        if (cancelKindFor w p aRes (some sigSuccess)).2 > 0 then Sim.signal (cancelKindFor w p aRes (some sigSuccess)).1 g
        else (cancelKindFor w p aRes (some sigSuccess)).1 := by
      cases hg : w.guards[g]? with
      | none => exact guardWithdraw_noguard hg p
      | some gd => exact guardWithdraw_granted hg (hq.gwf g gd hg) (fun hk => hqp ⟨gd, hg, hk⟩)
    rw [heq]
    obtain ⟨hrel, _, _, _⟩ := cancelKindFor_spec w p aRes (some sigSuccess) hq.ei
    have hgof : ∀ d, gOf (cancelKindFor w p aRes (some sigSuccess)).1 d = gOf w d :=
      gOf_congr hrel.res hrel.pools hrel.bufs hrel.oqs hrel.pqs
    split
    · rename_i hpos
      by_cases hpa : Await.guard g ∈ (w.proc p).awaits
      · obtain ⟨h1, hq1⟩ := GI.cancelOwn hq hgi g p hown hu
          (df' := fun d => if gOf w d = some g then df d + 1 else df d)
          (fun d hd _ _ => by simp [hd]) (fun d => by split <;> omega)
        refine ⟨GI.signal hq1 h1 g ?_ ?_ ?_, hq1.signal g⟩
        · intro k hk
          have hk' : queued w g k := (queued_congr hrel.guards g k).1 hk
          exact hexq k hk' (fun h => hqp (h ▸ hk'))
        · intro d hd; rw [hgof] at hd; simp only [hd, if_true]
          have := hle d (fun hc => hc.2.2 hpa); omega
        · intro d hd; rw [hgof] at hd; simp only [hd, if_false]
          exact hA d hd
      · obtain ⟨h1, hq1⟩ := GI.cancelOwn hq hgi g p hown hu (df' := df)
          (fun d _ _ ha => absurd ha hpa) (fun d => Nat.le_refl _)
        refine ⟨GI.signal hq1 h1 g ?_ ?_ ?_, hq1.signal g⟩
        · intro k hk
          have hk' : queued w g k := (queued_congr hrel.guards g k).1 hk
          exact hexq k hk' (fun h => hqp (h ▸ hk'))
        · intro d hd; rw [hgof] at hd
          exact (hB d hd).1 ⟨hqp, hpos, hpa⟩
        · intro d hd; rw [hgof] at hd
          exact hA d hd
    · rename_i hpos
      obtain ⟨h1, hq1⟩ := GI.cancelOwn hq hgi g p hown hu (df' := df) (fun d _ h => absurd h hpos) (fun d => Nat.le_refl _)
      exact ⟨h1.mono (fun d => hle d (fun hc => hpos hc.2.1)), hq1⟩

end CimbaModel.Sim.S3
