/-
  S4 — the strong timer invariant, part 2: the footprint tactic `tx` and all functions of the model that neither arm nor
  disarm a timer nor write a handle variable (generated from S3TInvFrame by substitution), then arming, cancelling and
  clearing timers, `cancel_awaiteds`, the end of a process, and the writes of handle variables.
-/
import CimbaModel.Sim.S4TimerBase

namespace CimbaModel.Sim.S4
open CimbaModel CimbaModel.Sim CimbaModel.Sim.S3 CimbaModel.Event CimbaModel.Generated CimbaModel.KPQ
open CimbaModel.HashHeap (HTag Item Order HH WF abs liveTags)

/-! ### handle variables -/

theorem set!_getD_cases (a : Array Nat) (v x i : Nat) :
    (a.set! v x).getD i 0 = a.getD i 0 ∨ (i = v ∧ (a.set! v x).getD i 0 = x) := by
  simp only [Array.getD_eq_getD_getElem?, Array.set!_eq_setIfInBounds, Array.getElem?_setIfInBounds]
  by_cases h : v = i
  · subst h
    by_cases hlt : v < a.size
    · right; simp [hlt]
    · left; simp [hlt]
  · left; simp [h]

theorem setVar_evq (w : World) (p : Pid) (v x : Nat) : (setVar w p v x).ev = w.ev := by
  unfold setVar; split <;> rfl

theorem setVar_proc_cases (w : World) (p : Pid) (v x : Nat) (q : Pid) :
    (setVar w p v x).proc q = w.proc q ∨
    (q = p ∧ v < 8 ∧ (setVar w p v x).proc q = { w.proc q with vars := (w.proc q).vars.set! v x }) := by
  unfold setVar
  split
  · left; rfl
  · rename_i hv
    rw [modProc_proc]; split
    · rename_i hq; right; rw [hq.1]; exact ⟨rfl, by omega, rfl⟩
    · left; rfl

theorem setVar_gvars_cases (w : World) (p : Pid) (v x : Nat) :
    (setVar w p v x).gvars = w.gvars ∨ (8 ≤ v ∧ (setVar w p v x).gvars = w.gvars.set! v x) := by
  unfold setVar
  split
  · rename_i hv; right; exact ⟨hv, rfl⟩
  · left; rfl

/-- writing a handle variable: a timer variable gets a handle that names (if anything) a timer of the writer, a shared
    variable one that names (if anything) a user event; the priority-queue variables are unconstrained -/
theorem VarInv.setVar {w : World} (hv : VarInv w) (p : Pid) (v x : Nat)
    (ht : v < 4 → x ≤ w.ev.counter ∧ ∀ e ∈ w.ev.pending, e.key = x → e.item.a = aTime ∧ e.item.b = p + 1)
    (hu : 8 ≤ v → x ≤ w.ev.counter ∧ ∀ e ∈ w.ev.pending, e.key = x → e.item.a = aUser) : VarInv (setVar w p v x) where
  tv := by
    intro q i hi
    rw [setVar_evq]
    rcases setVar_proc_cases w p v x q with h | ⟨hq, _, h⟩
    · rw [h]; exact hv.tv q i hi
    · rw [h]
      rcases set!_getD_cases (w.proc q).vars v x i with h' | ⟨hiv, h'⟩
      · dsimp only
        rw [h']; exact hv.tv q i hi
      · dsimp only
        rw [h', hq]; exact ht (by omega)
  uv := by
    intro i hi
    rw [setVar_evq]
    rcases setVar_gvars_cases w p v x with h | ⟨hv8, h⟩
    · rw [h]; exact hv.uv i hi
    · rw [h]
      rcases set!_getD_cases w.gvars v x i with h' | ⟨_, h'⟩
      · rw [h']; exact hv.uv i hi
      · rw [h']; exact hu hv8

theorem setVar_keep (w : World) (p : Pid) (v x : Nat) (fr : Bool) (q : Pid) :
    (∀ k, Await.time k ∈ ((setVar w p v x).proc q).awaits → Await.time k ∈ (w.proc q).awaits) ∧
      (fr = true → ((setVar w p v x).proc q).blocked = (w.proc q).blocked ∨ ((setVar w p v x).proc q).blocked = none) := by
  rcases setVar_proc_cases w p v x q with h | ⟨_, _, h⟩ <;> rw [h] <;> exact ⟨fun _ h => h, fun _ => Or.inl rfl⟩

variable {fr : Bool}

theorem TX.setVar {w : World} (h : TX fr w) (p : Pid) (v x : Nat)
    (ht : v < 4 → x ≤ w.ev.counter ∧ ∀ e ∈ w.ev.pending, e.key = x → e.item.a = aTime ∧ e.item.b = p + 1)
    (hu : 8 ≤ v → x ≤ w.ev.counter ∧ ∀ e ∈ w.ev.pending, e.key = x → e.item.a = aUser) : TX fr (setVar w p v x) where
  ei := by rw [setVar_evq]; exact h.ei
  tl := h.tl.congr (fun q k hk => (setVar_keep w p v x fr q).1 k hk)
    (fun q k _ e he _ _ _ => ⟨e, by rw [setVar_evq]; exact he, rfl, rfl⟩)
  vi := h.vi.setVar p v x ht hu
  fi := fun hfr => (h.fi hfr).mono (Stb.ofEv (setVar_evq w p v x)) (fun q => (setVar_keep w p v x fr q).2 hfr)

/-! ### the tactic -/

theorem TX.foldl {α : Type} {f : World → α → World}
    (hf : ∀ w a, TX fr w → TX fr (f w a)) : ∀ (l : List α) {w : World}, TX fr w → TX fr (l.foldl f w) := by
  intro l
  induction l with
  | nil => intro w h; exact h
  | cons a l ih => intro w h; exact ih (hf w a h)

syntax "tx_step" : tactic
macro_rules | `(tactic| tx_step) => `(tactic| dsimp only)
macro_rules | `(tactic| tx_step) => `(tactic| (guard_world_lit; with_reducible apply TX.setGuards))
macro_rules | `(tactic| tx_step) => `(tactic| (guard_world_lit; with_reducible apply TX.setEvWaiters))
macro_rules | `(tactic| tx_step) => `(tactic| (guard_world_lit; with_reducible apply TX.setFlags))
macro_rules | `(tactic| tx_step) => `(tactic| (guard_world_lit; with_reducible apply TX.setPqs))
macro_rules | `(tactic| tx_step) => `(tactic| (guard_world_lit; with_reducible apply TX.setOqs))
macro_rules | `(tactic| tx_step) => `(tactic| (guard_world_lit; with_reducible apply TX.setBufs))
macro_rules | `(tactic| tx_step) => `(tactic| (guard_world_lit; with_reducible apply TX.setPools))
macro_rules | `(tactic| tx_step) => `(tactic| (guard_world_lit; with_reducible apply TX.setRes))
macro_rules | `(tactic| tx_step) => `(tactic| split)
macro_rules | `(tactic| tx_step) => `(tactic| with_reducible apply TX.sched_fst)
macro_rules | `(tactic| tx_step) => `(tactic| with_reducible apply TX.setGuardQ)
macro_rules | `(tactic| tx_step) => `(tactic| (with_reducible refine TX.modProc_ctl ?_ _ _ (fun _ => ⟨rfl, rfl, fun _ => Or.inr rfl⟩)))
macro_rules | `(tactic| tx_step) => `(tactic| (with_reducible refine TX.modProc_ctl ?_ _ _ (fun _ => ⟨rfl, rfl, fun _ => Or.inl rfl⟩)))
macro_rules | `(tactic| tx_step) => `(tactic| with_reducible apply TX.emit)
macro_rules | `(tactic| tx_step) => `(tactic| with_reducible apply TX.fail)
macro_rules | `(tactic| tx_step) => `(tactic| with_reducible assumption)
macro_rules | `(tactic| tx_step) => `(tactic| (with_reducible refine TX.cancelKindFor_fst ?_ _ _ _ (by decide)))
macro_rules | `(tactic| tx_step) => `(tactic| with_reducible apply TX.cancelUserAll_fst)

macro "tx" : tactic => `(tactic| repeat' tx_step)

theorem TX.recordRes {w : World} (h : TX fr w) (r : Nat) : TX fr (recordRes w r) := by
  unfold Sim.recordRes; tx
theorem TX.recordPool {w : World} (h : TX fr w) (r : Nat) : TX fr (recordPool w r) := by
  unfold Sim.recordPool; tx
theorem TX.recordBuf {w : World} (h : TX fr w) (r : Nat) : TX fr (recordBuf w r) := by
  unfold Sim.recordBuf; tx
theorem TX.recordOQ {w : World} (h : TX fr w) (r : Nat) : TX fr (recordOQ w r) := by
  unfold Sim.recordOQ; tx
theorem TX.recordPQ {w : World} (h : TX fr w) (r : Nat) : TX fr (recordPQ w r) := by
  unfold Sim.recordPQ; tx
macro_rules | `(tactic| tx_step) => `(tactic| with_reducible apply TX.recordRes)
macro_rules | `(tactic| tx_step) => `(tactic| with_reducible apply TX.recordPool)
macro_rules | `(tactic| tx_step) => `(tactic| with_reducible apply TX.recordBuf)
macro_rules | `(tactic| tx_step) => `(tactic| with_reducible apply TX.recordOQ)
macro_rules | `(tactic| tx_step) => `(tactic| with_reducible apply TX.recordPQ)

theorem TX.guardRemove_fst {w : World} (h : TX fr w) (g : Nat) (p : Pid) : TX fr (guardRemove w g p).1 := by
  unfold Sim.guardRemove; tx
macro_rules | `(tactic| tx_step) => `(tactic| with_reducible apply TX.guardRemove_fst)

theorem TX.frontStep {w : World} (h : TX fr w) (g : Nat) (gd : Guard) : TX fr (frontStep w g gd) := by
  unfold S3.frontStep; tx

theorem TX.condSignal_fst {w : World} (h : TX fr w) (g : Nat) : TX fr (condSignal w g).1 := by
  simp only [Sim.condSignal]
  split
  · exact h
  · split
    · exact h
    · refine TX.foldl (fun w q h => by tx) _ ?_
      exact TX.foldl (fun w q h => by tx) _ h
macro_rules | `(tactic| tx_step) => `(tactic| with_reducible apply TX.condSignal_fst)

theorem TX.ownStep {w : World} (h : TX fr w) (fwd : Bool) (g : Nat) (gd : Guard) : TX fr (ownStep fwd w g gd) := by
  unfold S3.ownStep
  split
  · exact h.condSignal_fst g
  · exact h.frontStep g gd

theorem TX.guardSignalF : ∀ (fuel : Nat) (fwd : Bool) {w : World}, TX fr w → ∀ g, TX fr (guardSignalF fwd fuel w g) := by
  intro fuel
  induction fuel with
  | zero => intro fwd w h g; rw [guardSignalF_zero]; exact h.fail _
  | succ fuel ih =>
    intro fwd w h g
    rw [guardSignalF_succ]
    split
    · exact h
    · exact TX.foldl (fun w o hw => ih true hw o) _ (h.ownStep fwd g _)

theorem TX.guardSignal (fuel : Nat) {w : World} (h : TX fr w) (g : Nat) : TX fr (guardSignal fuel w g) :=
  TX.guardSignalF fuel false h g

theorem TX.signal {w : World} (h : TX fr w) (g : Nat) : TX fr (signal w g) := TX.guardSignal 8 h g
macro_rules | `(tactic| tx_step) => `(tactic| with_reducible apply TX.signal)

theorem TX.guardWithdraw {w : World} (h : TX fr w) (g : Nat) (p : Pid) : TX fr (guardWithdraw w g p) := by
  simp only [Sim.guardWithdraw]; tx
macro_rules | `(tactic| tx_step) => `(tactic| with_reducible apply TX.guardWithdraw)

theorem TX.removeHeld_fst {w : World} (h : TX fr w) (p : Pid) (x : HoldRef) : TX fr (removeHeld w p x).1 := by
  simp only [Sim.removeHeld]; tx
macro_rules | `(tactic| tx_step) => `(tactic| with_reducible apply TX.removeHeld_fst)

theorem TX.poolDropHolder {w : World} (h : TX fr w) (pl : Nat) (p : Pid) : TX fr (poolDropHolder w pl p) := by
  unfold Sim.poolDropHolder; tx
macro_rules | `(tactic| tx_step) => `(tactic| with_reducible apply TX.poolDropHolder)

theorem TX.dropResources {w : World} (h : TX fr w) (p : Pid) : TX fr (dropResources w p) := by
  unfold Sim.dropResources
  exact TX.foldl (fun w q h => by tx) _ (by tx)
macro_rules | `(tactic| tx_step) => `(tactic| with_reducible apply TX.dropResources)

theorem TX.grab {w : World} (h : TX fr w) (r : Nat) (p : Pid) : TX fr (grab w r p) := by
  unfold Sim.grab; tx
macro_rules | `(tactic| tx_step) => `(tactic| with_reducible apply TX.grab)

theorem TX.poolUpdateRecord {w : World} (h : TX fr w) (pl : Nat) (p : Pid) (a : Nat) :
    TX fr (poolUpdateRecord w pl p a) := by
  unfold Sim.poolUpdateRecord; tx
macro_rules | `(tactic| tx_step) => `(tactic| with_reducible apply TX.poolUpdateRecord)

theorem TX.setPoolInUse {w : World} (h : TX fr w) (pl v : Nat) : TX fr (setPoolInUse w pl v) := by
  unfold Sim.setPoolInUse; tx
macro_rules | `(tactic| tx_step) => `(tactic| with_reducible apply TX.setPoolInUse)

theorem TX.setHeldAmount {w : World} (h : TX fr w) (pl : Nat) (p : Pid) (a : Nat) : TX fr (setHeldAmount w pl p a) := by
  unfold Sim.setHeldAmount; tx
macro_rules | `(tactic| tx_step) => `(tactic| with_reducible apply TX.setHeldAmount)

theorem TX.setVar_mid {w : World} (h : TX fr w) (p : Pid) (v x : Nat) (hv : 4 ≤ v ∧ v < 8) : TX fr (Sim.setVar w p v x) :=
  h.setVar p v x (fun h1 => absurd h1 (by omega)) (fun h1 => absurd h1 (by omega))
macro_rules | `(tactic| tx_step) => `(tactic| (with_reducible refine TX.setVar_mid ?_ _ _ _ (by assumption)))

theorem TX.poolMug_fst : ∀ (fuel : Nat) {w : World}, TX fr w → ∀ p pl rem, TX fr (poolMug fuel w p pl rem).1 := by
  intro fuel
  induction fuel with
  | zero => intro w h p pl rem; exact h
  | succ fuel ih =>
    intro w h p pl rem
    simp only [Sim.poolMug]
    repeat' first | (with_reducible apply ih) | tx_step

theorem TX.poolRollback {w : World} (h : TX fr w) (p : Pid) (pl ini : Nat) : TX fr (poolRollback w p pl ini) := by
  simp only [Sim.poolRollback]; tx
macro_rules | `(tactic| tx_step) => `(tactic| with_reducible apply TX.poolRollback)


theorem TX.setRecording {w : World} (h : TX fr w) (kind idx : Nat) (on : Bool) : TX fr (setRecording w kind idx on) := by
  simp only [Sim.setRecording]; tx
macro_rules | `(tactic| tx_step) => `(tactic| with_reducible apply TX.setRecording)

theorem TX.reprioGuard {w : World} (h : TX fr w) (q : Pid) (v : Int) (g : Nat) : TX fr (reprioGuard w q v g) := by
  unfold S3.reprioGuard; tx

theorem TX.prioAwaitStep {w : World} (h : TX fr w) (q : Pid) (v : Int) (a : Await) : TX fr (prioAwaitStep q v w a) := by
  unfold S3.prioAwaitStep
  split
  · split
    · rename_i hr; exact h.reprioEv hr
    · exact h.fail _
  · exact h.reprioGuard q v _
  · exact h

theorem TX.prioHeldStep {w : World} (h : TX fr w) (q : Pid) (v : Int) (x : HoldRef) : TX fr (prioHeldStep q v w x) := by
  unfold S3.prioHeldStep; tx



end CimbaModel.Sim.S4
