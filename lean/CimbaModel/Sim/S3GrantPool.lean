/-
  S3 — the grant invariant, part 13: resource pools.
-/
import CimbaModel.Sim.S3GrantRes2

namespace CimbaModel.Sim.S3
open CimbaModel CimbaModel.Sim CimbaModel.Event CimbaModel.Generated CimbaModel.KPQ
open CimbaModel.HashHeap (HTag Item Order HH WF abs liveTags)

variable {fr : Pid → Option Frame} {df df' : Demand → Nat} {w : World} {p : Pid}

macro_rules | `(tactic| inert_step) => `(tactic| with_reducible apply Inert.poolUpdateRecord)
macro_rules | `(tactic| inert_step) => `(tactic| with_reducible apply Inert.setHeldAmount)

theorem need_setPoolInUse_le (w : World) (pl v : Nat) (d : Demand) :
    need (setPoolInUse w pl v) d ≤ need w d + (if d = .poolAvail pl then 1 else 0) := by
  unfold setPoolInUse
  cases hx : w.pools[pl]? with
  | none =>
    have : w.pools.modify pl (fun x => { x with inUse := v }) = w.pools := by
      apply Array.ext
      · simp
      · intro i h1 h2
        rw [Array.getElem_modify]
        split
        · rename_i hi; subst hi
          rw [Array.getElem?_eq_getElem h2] at hx; cases hx
        · rfl
    rw [this]; exact Nat.le_add_right (need w d) _
  | some x =>
    rw [need_pools_modify hx]
    split
    · have := poolNeed_le_one { x with inUse := v }; omega
    · omega

/-- taking units: nothing becomes more available -/
theorem need_setPoolInUse_ge {w : World} {pl : Nat} {x : Pool} (hx : w.pools[pl]? = some x) (v : Nat) (hv : x.inUse ≤ v) (d : Demand) :
    need (setPoolInUse w pl v) d ≤ need w d := by
  unfold setPoolInUse
  rw [need_pools_modify hx]
  split
  · rename_i hd; subst hd
    rw [need_pools_of hx]; unfold poolNeed; simp only; omega
  · exact Nat.le_refl _

theorem need_setPoolInUse_full {w : World} {pl : Nat} {x : Pool} (hx : w.pools[pl]? = some x) (v : Nat) (hv : x.cap ≤ v) :
    need (setPoolInUse w pl v) (.poolAvail pl) = 0 := by
  unfold setPoolInUse
  rw [need_pools_modify hx, if_pos rfl]; unfold poolNeed; simp only; omega

theorem setPoolInUse_frame (w : World) (pl v : Nat) :
    (setPoolInUse w pl v).ev = w.ev ∧ (setPoolInUse w pl v).guards = w.guards ∧ (setPoolInUse w pl v).procs = w.procs :=
  ⟨rfl, rfl, rfl⟩

theorem GS.setPoolInUse_take (h : GS fr df w) {pl : Nat} {x : Pool} (hx : w.pools[pl]? = some x) (v : Nat) (hv : x.inUse ≤ v) :
    GS fr df (setPoolInUse w pl v) :=
  h.objUpd ((Stat.refl w).setPoolInUse pl v) rfl rfl rfl (fun d => by have := need_setPoolInUse_ge hx v hv d; omega)

/-- the units put back by `setPoolInUse`, recorded and signalled -/
theorem gs_pool_putback (h : GS fr df w) {pl : Nat} {g : Nat} (hg : gOf w (.poolAvail pl) = some g) (v : Nat) :
    GS fr df (signal (recordPool (setPoolInUse w pl v) pl) g) := by
  have hst : Stat w (recordPool (setPoolInUse w pl v) pl) := by have h0 := Stat.refl w; stat
  have hfr := recordPool_frame (setPoolInUse w pl v) pl
  refine h.obj_signal (W := recordPool (setPoolInUse w pl v) pl) (h.ginv.ofStat hst hfr.2.2 hfr.1 hfr.2.1) hfr.2.1 hfr.1
    (fun x => by unfold World.proc; rw [hfr.2.2]; rfl) (gOf_of_stat hst) g (.poolAvail pl) hg ?_
  intro d
  have h1 := ((Inert.refl (setPoolInUse w pl v)).recordPool pl).need d
  have h2 := need_setPoolInUse_le w pl v d
  omega

/-- the mugging loop of a preempting pool acquisition: victims lose their units and are interrupted; a surplus is put
    back and signalled; while the loop goes on nothing becomes available -/
theorem gs_poolMug : ∀ (fuel : Nat) {w : World}, GS fr df w → ∀ (p : Pid) (pl rem : Nat),
    GS fr df (poolMug fuel w p pl rem).1 ∧
    ((poolMug fuel w p pl rem).2 ≠ none → need (poolMug fuel w p pl rem).1 (.poolAvail pl) ≤ need w (.poolAvail pl)) := by
  intro fuel
  induction fuel with
  | zero => intro w h p pl rem; exact ⟨h, fun _ => Nat.le_refl _⟩
  | succ fuel ih =>
    intro w h p pl rem
    simp only [Sim.poolMug]
    split
    · exact ⟨h, fun _ => Nat.le_refl _⟩
    · rename_i x hx
      split
      · exact ⟨h, fun _ => Nat.le_refl _⟩
      · split
        · rename_i top _
          split
          · split
            · rename_i h' t hdq
              have hx' := hx
              split
              · refine ⟨(ih ?_ p pl _).1, fun hne => Nat.le_trans ((ih ?_ p pl _).2 hne) ?_⟩
                · gs
                · gs
                · exact (by have h0 := Inert.refl w; inert : Inert w _).need _
              · refine ⟨gs_pool_putback (w := poolUpdateRecord _ pl p rem) ?_ ?_ _, fun hne => absurd rfl hne⟩
                · gs
                · rw [gOf_of_stat (w := w) (by have h0 := Stat.refl w; stat)]
                  exact gOf_pools_of hx
            · exact ⟨h, fun _ => Nat.le_refl _⟩
            · exact ⟨h.fail _, fun _ => ((Inert.refl w).fail _).need _⟩
          · exact ⟨h, fun _ => Nat.le_refl _⟩
        · exact ⟨h, fun _ => Nat.le_refl _⟩

theorem GH.clear' (h : GH df w) (d0 : Demand) (h0 : need w d0 = 0) (hdf : ∀ d, d ≠ d0 → df d ≤ df' d) : GH df' w :=
  ⟨h.1, h.2.clear d0 h0 hdf⟩

/-- one pass of the acquisition loop of a pool: all that is wanted is taken and the guard signalled again; or whatever is
    there is taken (nothing left), victims are mugged, and the caller joins the waiting list -/
theorem gs_poolLoop (h : GS fr df w) (hes : EndSep w) (hsep : CondSep w) (hfr : fr p = none) (hlt : p < w.procs.size)
    (pl rem ini : Nat) (pre : Bool) (hdf : ∀ d, d ≠ .poolAvail pl → df d ≤ df' d)
    (hdf1 : df (.poolAvail pl) ≤ df' (.poolAvail pl) + 1) : GH df' (poolLoop w p pl rem ini pre).1 := by
  simp only [Sim.poolLoop]
  split
  · rename_i hn
    have hi : Inert w (w.fail "no such pool") := (Inert.refl w).fail _
    refine (h.gh.inert h.ginv.ei hi).clear' (.poolAvail pl) ?_ hdf
    have := hi.need (.poolAvail pl)
    have h0 : need w (.poolAvail pl) = 0 := by rw [need_eq]; simp [hn]
    omega
  · rename_i x hx
    have hgx := gOf_pools_of hx
    split
    · -- everything wanted is available
      have hV : GS fr df (poolUpdateRecord (recordPool (setPoolInUse w pl (x.inUse + rem)) pl) pl p rem) := by
        have := h.setPoolInUse_take hx (x.inUse + rem) (Nat.le_add_right _ _)
        gs
      have hsV : Stat w (poolUpdateRecord (recordPool (setPoolInUse w pl (x.inUse + rem)) pl) pl p rem) := by
        have h0 := Stat.refl w; stat
      refine GS.gh (fr := fr) (hV.signal x.guard ?_ ?_)
      · intro d hd
        rw [gOf_of_stat hsV] at hd
        have := hes d (.poolAvail pl) x.guard hd hgx
        subst this; exact hdf1
      · intro d hd
        rw [gOf_of_stat hsV] at hd
        exact hdf d (fun hdd => hd (hdd ▸ hgx))
    · -- take what is there
      have h1 : GS fr df' (if x.cap - x.inUse > 0 then
            (poolUpdateRecord (recordPool (setPoolInUse w pl (x.inUse + (x.cap - x.inUse))) pl) pl p (x.cap - x.inUse),
              rem - (x.cap - x.inUse)) else (w, rem)).1 ∧
          need (if x.cap - x.inUse > 0 then
            (poolUpdateRecord (recordPool (setPoolInUse w pl (x.inUse + (x.cap - x.inUse))) pl) pl p (x.cap - x.inUse),
              rem - (x.cap - x.inUse)) else (w, rem)).1 (.poolAvail pl) = 0 ∧
          Stat w (if x.cap - x.inUse > 0 then
            (poolUpdateRecord (recordPool (setPoolInUse w pl (x.inUse + (x.cap - x.inUse))) pl) pl p (x.cap - x.inUse),
              rem - (x.cap - x.inUse)) else (w, rem)).1 := by
        split
        · rename_i hpos
          have h0 : need (poolUpdateRecord (recordPool (setPoolInUse w pl (x.inUse + (x.cap - x.inUse))) pl) pl p (x.cap - x.inUse))
              (.poolAvail pl) = 0 := by
            have hi : Inert (setPoolInUse w pl (x.inUse + (x.cap - x.inUse)))
                (poolUpdateRecord (recordPool (setPoolInUse w pl (x.inUse + (x.cap - x.inUse))) pl) pl p (x.cap - x.inUse)) := by
              have h0 := Inert.refl (setPoolInUse w pl (x.inUse + (x.cap - x.inUse))); inert
            have := hi.need (.poolAvail pl)
            have := need_setPoolInUse_full hx (x.inUse + (x.cap - x.inUse)) (by omega)
            omega
          refine ⟨GS.clear (d0 := .poolAvail pl) ?_ h0 hdf, h0, by have h0 := Stat.refl w; stat⟩
          have := h.setPoolInUse_take hx (x.inUse + (x.cap - x.inUse)) (Nat.le_add_right _ _)
          gs
        · rename_i hpos
          have h0 : need w (.poolAvail pl) = 0 := by rw [need_pools_of hx]; unfold poolNeed; omega
          exact ⟨h.clear (.poolAvail pl) h0 hdf, h0, Stat.refl w⟩
      generalize (if x.cap - x.inUse > 0 then
            (poolUpdateRecord (recordPool (setPoolInUse w pl (x.inUse + (x.cap - x.inUse))) pl) pl p (x.cap - x.inUse),
              rem - (x.cap - x.inUse)) else (w, rem)) = r1 at h1 ⊢
      obtain ⟨hg1, hn1, hs1⟩ := h1
      -- mug
      have h2 : GS fr df' (if pre = true then poolMug (x.holders.count + 1) r1.1 p pl r1.2 else (r1.1, some r1.2)).1 ∧
          ((if pre = true then poolMug (x.holders.count + 1) r1.1 p pl r1.2 else (r1.1, some r1.2)).2 ≠ none →
            need (if pre = true then poolMug (x.holders.count + 1) r1.1 p pl r1.2 else (r1.1, some r1.2)).1 (.poolAvail pl) = 0) ∧
          Stat w (if pre = true then poolMug (x.holders.count + 1) r1.1 p pl r1.2 else (r1.1, some r1.2)).1 := by
        split
        · obtain ⟨m1, m2⟩ := gs_poolMug (x.holders.count + 1) hg1 p pl r1.2
          exact ⟨m1, fun hne => by have := m2 hne; omega, hs1.trans (Stat.poolMug' _ _ _ _ _)⟩
        · exact ⟨hg1, fun _ => hn1, hs1⟩
      generalize (if pre = true then poolMug (x.holders.count + 1) r1.1 p pl r1.2 else (r1.1, some r1.2)) = r2 at h2 ⊢
      obtain ⟨hg2, hn2, hs2⟩ := h2
      split
      · exact hg2.gh
      · rename_i rem2 hr2
        have hon : FrameOn r2.1 (.pool pl rem2 ini pre) x.guard := by
          rw [frameOn_of_stat hs2]; simp [FrameOn, hx, poolStat]
        have hgo2 : gOf r2.1 (.poolAvail pl) = some x.guard := by rw [gOf_of_stat hs2]; exact hgx
        refine (hg2.enterBlock x.guard (.poolAvail pl) (.pool pl rem2 ini pre) hfr (by rw [hs2.psize]; exact hlt) hon
          (fun c hc => (hsep.ofStat hs2) c _ _ hc hon) ?_).gh
        intro d' hd'
        have := (hes.ofStat hs2) d' (.poolAvail pl) x.guard hd' hgo2
        subst this
        have := hn2 (by rw [hr2]; simp)
        exact ⟨rfl, by omega⟩

theorem GS.setPoolsModifySame (h : GS fr df w) (r : Nat) (g : Pool → Pool)
    (hg : ∀ x, (poolStat (g x), poolNeed (g x)) = (poolStat x, poolNeed x)) : GS fr df { w with pools := w.pools.modify r g } :=
  h.inert (h.ginv.setPoolsModify r g (fun x => congrArg Prod.fst (hg x))) ((Inert.refl w).setPoolsModify r g hg)

/-- giving back what a failed acquisition had collected (unless the holder list is corrupt, which the model records as a
    fault) -/
theorem gs_poolRollback (h : GS fr df w) (pl ini : Nat) :
    (poolRollback w p pl ini).fault = none → GH df (poolRollback w p pl ini) := by
  simp only [Sim.poolRollback]
  split
  · exact fun _ => h.gh
  · rename_i x hx
    have hgx := gOf_pools_of hx
    split
    · split
      · intro _
        refine GS.gh (fr := fr) (gs_pool_putback (w := setHeldAmount w pl p ini) (by gs) ?_ _)
        rw [gOf_of_stat (w := w) (by have h0 := Stat.refl w; stat)]; exact hgx
      · exact fun _ => h.gh
    · split
      · rename_i h' found hrm
        intro _
        -- units are put back: one more may be available until the guard has been signalled
        have h1 : GS fr (fun d => df d + (if d = .poolAvail pl then 1 else 0)) (setPoolInUse w pl (x.inUse - heldAmount w pl p)) :=
          h.objUpd ((Stat.refl w).setPoolInUse pl _) rfl rfl rfl
            (fun d => by have := need_setPoolInUse_le w pl (x.inUse - heldAmount w pl p) d; omega)
        have hst : Stat w (if found = true then
            (removeHeld { recordPool (setPoolInUse w pl (x.inUse - heldAmount w pl p)) pl with
              pools := (recordPool (setPoolInUse w pl (x.inUse - heldAmount w pl p)) pl).pools.modify pl fun y => { y with holders := h' } } p (.pool pl)).1
            else { recordPool (setPoolInUse w pl (x.inUse - heldAmount w pl p)) pl with
              pools := (recordPool (setPoolInUse w pl (x.inUse - heldAmount w pl p)) pl).pools.modify pl fun y => { y with holders := h' } }) := by
          have hsV := (((Stat.refl w).setPoolInUse pl (x.inUse - heldAmount w pl p)).recordPool pl).setPoolsModify pl
            (fun y => { y with holders := h' }) (fun _ => rfl)
          split
          · exact hsV.removeHeld_fst p _
          · exact hsV
        refine GS.gh (fr := fr) (GS.signal (df := fun d => df d + (if d = .poolAvail pl then 1 else 0)) ?_ x.guard
          (fun d _ => by show df d + _ ≤ df d + 1; split <;> omega) ?_)
        · have h2 : GS fr (fun d => df d + (if d = .poolAvail pl then 1 else 0))
              { recordPool (setPoolInUse w pl (x.inUse - heldAmount w pl p)) pl with
                pools := (recordPool (setPoolInUse w pl (x.inUse - heldAmount w pl p)) pl).pools.modify pl fun y => { y with holders := h' } } :=
            (h1.recordPool pl).setPoolsModifySame pl _ (fun _ => rfl)
          split
          · exact h2.removeHeld_fst p _
          · exact h2
        · intro d hd
          rw [gOf_of_stat hst] at hd
          show df d + _ ≤ df d
          split
          · rename_i hdd; subst hdd; exact absurd hgx hd
          · omega
      · intro hf; exact (fail_fault_none hf).elim

theorem gs_cmd_poolAcquire (h : GS fr df w) (hes : EndSep w) (hsep : CondSep w) (hfr : fr p = none) (hlt : p < w.procs.size)
    (pl n : Nat) : GH df (execCmd w p (.poolAcquire pl n)).1 := by
  simp only [Sim.execCmd]
  split
  · exact h.gh
  · split
    · exact h.gh
    · exact gs_poolLoop h hes hsep hfr hlt pl n _ false (fun _ _ => Nat.le_refl _) (Nat.le_succ _)

theorem gs_cmd_poolPreempt (h : GS fr df w) (hes : EndSep w) (hsep : CondSep w) (hfr : fr p = none) (hlt : p < w.procs.size)
    (pl n : Nat) : GH df (execCmd w p (.poolPreempt pl n)).1 := by
  simp only [Sim.execCmd]
  split
  · exact h.gh
  · split
    · exact h.gh
    · exact gs_poolLoop h hes hsep hfr hlt pl n _ true (fun _ _ => Nat.le_refl _) (Nat.le_succ _)

theorem gs_cmd_poolRelease (h : GS fr df w) (pl n : Nat) : GH df (execCmd w p (.poolRelease pl n)).1 := by
  simp only [Sim.execCmd]
  split
  · exact h.gh
  · rename_i x hx
    split
    · exact h.gh
    · refine GS.gh (fr := fr) (gs_pool_putback ?_ ?_ _)
      · gs
      · rw [gOf_of_stat (w := w) (by have h0 := Stat.refl w; stat)]; exact gOf_pools_of hx

/-- the `pool` frame -/
theorem gs_resume_pool (h : GS fr df w) (hes : EndSep w) (hsep : CondSep w) {pl rem ini : Nat} {pre : Bool}
    (hfr : fr p = some (.pool pl rem ini pre)) (hlt : p < w.procs.size) (sig : Int) (hq : sig = sigSuccess → Quiet w p)
    (hdf : ∀ d, d ≠ .poolAvail pl → df d ≤ df' d) (hdf1 : df (.poolAvail pl) ≤ df' (.poolAvail pl) + 1)
    (hdf0 : sig ≠ sigSuccess → ∀ d, df d ≤ df' d) :
    (resumeFrame (w.modProc p fun y => { y with blocked := none }) p (.pool pl rem ini pre) sig).1.fault = none →
    GH df' (resumeFrame (w.modProc p fun y => { y with blocked := none }) p (.pool pl rem ini pre) sig).1 := by
  simp only [Sim.resumeFrame]
  split
  · rename_i hn
    intro _
    have hi : Inert w (w.modProc p fun y => { y with blocked := none }) := by have h0 := Inert.refl w; inert
    refine (h.gh.inert h.ginv.ei hi).clear' (.poolAvail pl) ?_ hdf
    rw [need_eq]; simp only; rw [hn]; rfl
  · rename_i x hx
    have hx' : w.pools[pl]? = some x := hx
    have hon : FrameOn w (.pool pl rem ini pre) x.guard := by simp [FrameOn, hx', poolStat]
    have hL := gs_leave h hfr hon (fun c hc => by cases hc) sig hq
    have hst := stat_leave w p x.guard sig
    split
    · rename_i hs
      intro hf
      have := gs_poolRollback (p := p) hL pl ini hf
      exact ⟨this.1, this.2.mono (hdf0 hs)⟩
    · intro _
      exact gs_poolLoop hL (hes.ofStat hst) (hsep.ofStat hst) (setFrame_self _ _ _) (by rw [hst.psize]; exact hlt) pl rem ini pre hdf hdf1

end CimbaModel.Sim.S3
