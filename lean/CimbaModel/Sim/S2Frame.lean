/-
  S2 — frame lemmas of the process-layer model.

  `Same w w'` says that the step from `w` to `w'` touched none of the five object arrays, did not move
  the clock, kept "nothing pending in the past", kept the number of processes and every process's list
  of held objects.  Almost every primitive of Sim/Model.lean is of this kind (scheduling, cancelling,
  guard bookkeeping, await lists, timers, logging, faults): one `Same` lemma per primitive, tagged
  `simp`, so that `simp` rewrites e.g. `(signal w g).bufs` to `w.bufs` (a conjunction is split into
  one rewrite rule per conjunct).
-/
import CimbaModel.Sim.Run

namespace CimbaModel.Sim
open CimbaModel CimbaModel.Event CimbaModel.Generated
open CimbaModel.HashHeap (HTag Item Order HH)

/-- nothing is pending in the past -/
def TimeOk (q : EvQ) : Prop := ∀ e ∈ q.pending, q.now ≤ e.d

@[reducible] def Same (w w' : World) : Prop :=
  w'.res = w.res ∧ w'.pools = w.pools ∧ w'.bufs = w.bufs ∧ w'.oqs = w.oqs ∧ w'.pqs = w.pqs ∧
  w'.now = w.now ∧ (TimeOk w.ev → TimeOk w'.ev) ∧ w'.procs.size = w.procs.size ∧
  (∀ p, (w'.proc p).held = (w.proc p).held) ∧ (∀ p, (w'.proc p).blocked = (w.proc p).blocked) ∧
  ∀ p, (w'.proc p).prio = (w.proc p).prio

theorem Same.refl (w : World) : Same w w := ⟨rfl, rfl, rfl, rfl, rfl, rfl, id, rfl, fun _ => rfl, fun _ => rfl, fun _ => rfl⟩

theorem Same.trans {a b c : World} (h1 : Same a b) (h2 : Same b c) : Same a c := by
  obtain ⟨r1, p1, b1, o1, k1, n1, t1, s1, e1, f1, g1⟩ := h1
  obtain ⟨r2, p2, b2, o2, k2, n2, t2, s2, e2, f2, g2⟩ := h2
  exact ⟨r2.trans r1, p2.trans p1, b2.trans b1, o2.trans o1, k2.trans k1, n2.trans n1, fun h => t2 (t1 h),
    s2.trans s1, fun p => (e2 p).trans (e1 p), fun p => (f2 p).trans (f1 p), fun p => (g2 p).trans (g1 p)⟩

/-- a fold of `Same` steps is a `Same` step -/
theorem foldl_same {α : Type} (f : World → α → World) (h : ∀ w a, Same w (f w a)) (l : List α) (w : World) :
    Same w (l.foldl f w) := by
  induction l generalizing w with
  | nil => exact Same.refl w
  | cons a l ih => exact Same.trans (h w a) (ih (f w a))

/-- generic: a fold preserves what each step preserves -/
theorem foldl_preserves {α : Type} {P : World → Prop} (f : World → α → World) (h : ∀ w a, P w → P (f w a))
    (l : List α) (w : World) (hw : P w) : P (l.foldl f w) := by
  induction l generalizing w with
  | nil => exact hw
  | cons a l ih => exact ih (f w a) (h w a hw)

/-! ### processes -/

theorem proc_modProc (w : World) (p q : Pid) (f : Proc → Proc) :
    (w.modProc p f).proc q = if q = p ∧ p < w.procs.size then f (w.proc p) else w.proc q := by
  unfold World.modProc World.proc
  simp only [Array.getD_eq_getD_getElem?, Array.getElem?_modify]
  by_cases hq : p = q
  · subst hq
    by_cases hs : p < w.procs.size
    · simp [hs]
    · simp [hs]
  · have : ¬ q = p := fun h => hq h.symm
    simp [hq, this]

@[simp] theorem modProc_res (w : World) (p : Pid) (f : Proc → Proc) : (w.modProc p f).res = w.res := by
  unfold World.modProc; exact rfl
@[simp] theorem modProc_pools (w : World) (p : Pid) (f : Proc → Proc) : (w.modProc p f).pools = w.pools := by
  unfold World.modProc; exact rfl
@[simp] theorem modProc_bufs (w : World) (p : Pid) (f : Proc → Proc) : (w.modProc p f).bufs = w.bufs := by
  unfold World.modProc; exact rfl
@[simp] theorem modProc_oqs (w : World) (p : Pid) (f : Proc → Proc) : (w.modProc p f).oqs = w.oqs := by
  unfold World.modProc; exact rfl
@[simp] theorem modProc_pqs (w : World) (p : Pid) (f : Proc → Proc) : (w.modProc p f).pqs = w.pqs := by
  unfold World.modProc; exact rfl
@[simp] theorem modProc_ev (w : World) (p : Pid) (f : Proc → Proc) : (w.modProc p f).ev = w.ev := by
  unfold World.modProc; exact rfl
@[simp] theorem modProc_now (w : World) (p : Pid) (f : Proc → Proc) : (w.modProc p f).now = w.now := by
  unfold World.modProc; exact rfl
@[simp] theorem modProc_guards (w : World) (p : Pid) (f : Proc → Proc) : (w.modProc p f).guards = w.guards := by
  unfold World.modProc; exact rfl
@[simp] theorem modProc_size (w : World) (p : Pid) (f : Proc → Proc) : (w.modProc p f).procs.size = w.procs.size := by
  simp [World.modProc]

@[simp] theorem modProc_held (w : World) (p q : Pid) (f : Proc → Proc) (hf : ∀ x, (f x).held = x.held) :
    ((w.modProc p f).proc q).held = (w.proc q).held := by
  rw [proc_modProc]
  split
  · rename_i h; rw [hf, h.1]
  · rfl

@[simp] theorem modProc_blocked (w : World) (p q : Pid) (f : Proc → Proc) (hf : ∀ x, (f x).blocked = x.blocked) :
    ((w.modProc p f).proc q).blocked = (w.proc q).blocked := by
  rw [proc_modProc]
  split
  · rename_i h; rw [hf, h.1]
  · rfl

@[simp] theorem modProc_prio (w : World) (p q : Pid) (f : Proc → Proc) (hf : ∀ x, (f x).prio = x.prio) :
    ((w.modProc p f).proc q).prio = (w.proc q).prio := by
  rw [proc_modProc]
  split
  · rename_i h; rw [hf, h.1]
  · rfl

/-- a process update that leaves `held`, `blocked` and `prio` alone is a `Same` step -/
theorem modProc_same (w : World) (p : Pid) (f : Proc → Proc) (hf : ∀ x, (f x).held = x.held)
    (hb : ∀ x, (f x).blocked = x.blocked) (hp : ∀ x, (f x).prio = x.prio) : Same w (w.modProc p f) :=
  ⟨rfl, rfl, rfl, rfl, rfl, rfl, id, by simp, fun q => modProc_held w p q f hf, fun q => modProc_blocked w p q f hb,
    fun q => modProc_prio w p q f hp⟩

/-! ### faults, log -/

@[simp] theorem fail_same (w : World) (m : String) : Same w (w.fail m) := by
  unfold World.fail; split <;> simp [Same, World.now, World.proc]

@[simp] theorem emit_same (w : World) (m : String) : Same w (w.emit m) := by
  simp [Same, World.emit, World.now, World.proc]

@[simp] theorem fail_guards (w : World) (m : String) : (w.fail m).guards = w.guards := by
  unfold World.fail; split <;> rfl
@[simp] theorem fail_procs (w : World) (m : String) : (w.fail m).procs = w.procs := by
  unfold World.fail; split <;> rfl
@[simp] theorem fail_ev (w : World) (m : String) : (w.fail m).ev = w.ev := by
  unfold World.fail; split <;> rfl
@[simp] theorem emit_procs (w : World) (m : String) : (w.emit m).procs = w.procs := by
  unfold World.emit; exact rfl
@[simp] theorem emit_ev (w : World) (m : String) : (w.emit m).ev = w.ev := by
  unfold World.emit; exact rfl

/-! ### events -/

theorem timeOk_schedule {q q' : EvQ} {a s o : Nat} {t p : Int} {h : Nat} (hq : TimeOk q)
    (hs : schedule q a s o t p = .ok (q', h)) : TimeOk q' ∧ q'.now = q.now := by
  unfold schedule at hs
  split at hs
  · simp at hs
  · simp only [Except.ok.injEq, Prod.mk.injEq] at hs
    obtain ⟨rfl, rfl⟩ := hs
    refine ⟨?_, rfl⟩
    intro e he
    simp only [KPQ.insert, KPQ.norm, List.mem_cons] at he
    rcases he with rfl | he
    · simp; omega
    · exact hq e he

@[simp] theorem sched_same (w : World) (act subj : Nat) (sig t pri : Int) : Same w (sched w act subj sig t pri).1 := by
  unfold sched
  cases hs : schedule w.ev act subj (encSig sig) t pri with
  | error f => exact fail_same _ _
  | ok r =>
    obtain ⟨ev', h⟩ := r
    refine ⟨rfl, rfl, rfl, rfl, rfl, ?_, ?_, rfl, fun _ => rfl, fun _ => rfl, fun _ => rfl⟩
    · simp only [World.now]
      unfold schedule at hs; split at hs
      · simp at hs
      · simp only [Except.ok.injEq, Prod.mk.injEq] at hs; rw [← hs.1]
    · intro hq; exact (timeOk_schedule hq hs).1

@[simp] theorem sched_guards (w : World) (act subj : Nat) (sig t pri : Int) :
    (sched w act subj sig t pri).1.guards = w.guards := by
  unfold sched; split <;> simp
@[simp] theorem sched_procs (w : World) (act subj : Nat) (sig t pri : Int) :
    (sched w act subj sig t pri).1.procs = w.procs := by
  unfold sched; split <;> simp

@[simp] theorem wakeEventWaiters_same (w : World) (ps : List Pid) (sig : Int) : Same w (wakeEventWaiters w ps sig) :=
  foldl_same _ (fun w q => sched_same w _ _ _ _ _) ps w

theorem timeOk_cancel {q : EvQ} (hq : TimeOk q) (h : Nat) : TimeOk (cancel q h).1 ∧ (cancel q h).1.now = q.now := by
  unfold cancel
  split
  · refine ⟨?_, rfl⟩
    intro e he
    simp only [KPQ.remove, List.mem_filter] at he
    exact hq e he.1
  · exact ⟨hq, rfl⟩

@[simp] theorem evCancel_same (w : World) (h : Nat) : Same w (evCancel w h).1 := by
  unfold evCancel
  cases hc : cancel w.ev h with
  | mk ev' r =>
    cases r with
    | false => exact Same.refl w
    | true =>
      simp only [if_true]
      refine Same.trans ?_ (wakeEventWaiters_same _ _ _)
      have := fun hq => timeOk_cancel (q := w.ev) hq h
      rw [hc] at this
      refine ⟨rfl, rfl, rfl, rfl, rfl, ?_, fun hq => (this hq).1, rfl, fun _ => rfl, fun _ => rfl, fun _ => rfl⟩
      simp only [World.now]
      have h2 : (cancel w.ev h).1.now = w.ev.now := by unfold cancel; split <;> rfl
      rw [hc] at h2; exact h2

@[simp] theorem cancelAllFor_same (w : World) (p : Pid) : Same w (cancelAllFor w p) :=
  foldl_same _ (fun w h => evCancel_same w h) _ w

@[simp] theorem cancelKindFor_same (w : World) (p : Pid) (act : Nat) (sig : Option Int) :
    Same w (cancelKindFor w p act sig).1 :=
  foldl_same _ (fun w h => evCancel_same w h) _ w

@[simp] theorem cancelUserAll_same (w : World) : Same w (cancelUserAll w).1 :=
  foldl_same _ (fun w h => evCancel_same w h) _ w

/-! ### guards -/

@[simp] theorem setGuardQ_same (w : World) (g : Nat) (q : HH) : Same w (setGuardQ w g q) :=
  ⟨rfl, rfl, rfl, rfl, rfl, rfl, id, rfl, fun _ => rfl, fun _ => rfl, fun _ => rfl⟩

@[simp] theorem guardRemove_same (w : World) (g : Nat) (p : Pid) : Same w (guardRemove w g p).1 := by
  unfold guardRemove
  split
  · split
    · exact setGuardQ_same _ _ _
    · exact fail_same _ _
  · exact Same.refl w

@[simp] theorem condSignal_same (w : World) (g : Nat) : Same w (condSignal w g).1 := by
  unfold condSignal
  split
  · exact Same.refl w
  · split
    · exact Same.refl w
    · exact Same.trans (foldl_same _ (fun w t => sched_same w _ _ _ _ _) _ _)
        (foldl_same _ (fun w t => guardRemove_same w _ _) _ _)

@[simp] theorem guardSignalF_same (fwd : Bool) (fuel : Nat) (w : World) (g : Nat) : Same w (guardSignalF fwd fuel w g) := by
  induction fuel generalizing fwd w g with
  | zero => exact fail_same _ _
  | succ n ih =>
    unfold guardSignalF
    split
    · exact Same.refl w
    · rename_i gd _
      refine Same.trans ?_ (foldl_same _ (fun w o => ih true w o) _ _)
      split
      · exact condSignal_same _ _
      split
      · exact Same.refl w
      · split
        · dsimp only
          split
          · split
            · exact Same.trans (setGuardQ_same _ _ _) (sched_same _ _ _ _ _ _)
            · exact fail_same _ _
          · exact Same.refl w
        · exact Same.refl w
        · exact fail_same _ _

@[simp] theorem guardSignal_same (fuel : Nat) (w : World) (g : Nat) : Same w (guardSignal fuel w g) :=
  guardSignalF_same false fuel w g

@[simp] theorem signal_same (w : World) (g : Nat) : Same w (signal w g) := guardSignal_same 8 w g

@[simp] theorem guardWithdraw_same (w : World) (g : Nat) (p : Pid) : Same w (guardWithdraw w g p) := by
  unfold guardWithdraw
  simp only
  split
  · exact guardRemove_same _ _ _
  · refine Same.trans (guardRemove_same w g p) ?_
    split
    · exact Same.trans (cancelKindFor_same _ _ _ _) (signal_same _ _)
    · exact cancelKindFor_same _ _ _ _

/-! ### await lists, timers -/

@[simp] theorem addAwait_same (w : World) (p : Pid) (a : Await) : Same w (addAwait w p a) :=
  modProc_same _ _ _ (fun _ => rfl) (fun _ => rfl) (fun _ => rfl)

@[simp] theorem removeAwait_same (w : World) (p : Pid) (a : Await) : Same w (removeAwait w p a).1 :=
  modProc_same _ _ _ (fun _ => rfl) (fun _ => rfl) (fun _ => rfl)

@[simp] theorem removeAwaitKind_same (w : World) (p : Pid) (k : Await → Bool) : Same w (removeAwaitKind w p k).1 :=
  modProc_same _ _ _ (fun _ => rfl) (fun _ => rfl) (fun _ => rfl)

@[simp] theorem timerAdd_same (w : World) (p : Pid) (d sig : Int) : Same w (timerAdd w p d sig).1 :=
  Same.trans (sched_same _ _ _ _ _ _) (addAwait_same _ _ _)

@[simp] theorem timerCancel_same (w : World) (p : Pid) (h : Nat) : Same w (timerCancel w p h).1 :=
  Same.trans (removeAwait_same w p (.time h)) (evCancel_same _ _)

@[simp] theorem timersClear_same (w : World) (p : Pid) : Same w (timersClear w p) := by
  unfold timersClear
  dsimp only
  refine Same.trans (modProc_same w p _ ?_ ?_ ?_) (foldl_same _ (fun w h => evCancel_same w h) _ _)
  · intro _; rfl
  · intro _; rfl
  · intro _; rfl

@[simp] theorem cancelAwaiteds_same (w : World) (p : Pid) : Same w (cancelAwaiteds w p) := by
  unfold cancelAwaiteds
  dsimp only
  refine Same.trans (modProc_same w p _ ?_ ?_ ?_) (Same.trans (foldl_same _ ?_ _ _) (cancelAllFor_same _ _))
  · intro _; rfl
  · intro _; rfl
  · intro _; rfl
  intro w a
  cases a with
  | time h => exact evCancel_same _ _
  | guard g => exact guardWithdraw_same _ _ _
  | proc q => exact modProc_same _ _ _ (fun _ => rfl) (fun _ => rfl) (fun _ => rfl)
  | event h => exact ⟨rfl, rfl, rfl, rfl, rfl, rfl, id, rfl, fun _ => rfl, fun _ => rfl, fun _ => rfl⟩

@[simp] theorem wakeWaiters_same (w : World) (p : Pid) (sig : Int) : Same w (wakeWaiters w p sig) := by
  unfold wakeWaiters
  dsimp only
  refine Same.trans (modProc_same w p _ ?_ ?_ ?_) (foldl_same _ (fun w q => sched_same w _ _ _ _ _) _ _)
  · intro _; rfl
  · intro _; rfl
  · intro _; rfl

@[simp] theorem guardWaitEnter_same (w : World) (g : Nat) (p : Pid) (d : Demand) : Same w (guardWaitEnter w g p d) := by
  unfold guardWaitEnter
  split
  · exact fail_same _ _
  · split
    · exact Same.trans (b := { w with guards := _ }) ⟨rfl, rfl, rfl, rfl, rfl, rfl, id, rfl, fun _ => rfl, fun _ => rfl, fun _ => rfl⟩ (addAwait_same _ _ _)
    · exact fail_same _ _

@[simp] theorem guardWaitLeave_same (w : World) (g : Nat) (p : Pid) (sig : Int) : Same w (guardWaitLeave w g p sig) := by
  unfold guardWaitLeave
  refine Same.trans ?_ (removeAwait_same _ _ _)
  split
  · exact guardWithdraw_same _ _ _
  · exact Same.refl w

/-! ### interpreter helpers -/

@[simp] theorem setVar_same (w : World) (p : Pid) (v h : Nat) : Same w (setVar w p v h) := by
  unfold setVar
  split
  · exact ⟨rfl, rfl, rfl, rfl, rfl, rfl, id, rfl, fun _ => rfl, fun _ => rfl, fun _ => rfl⟩
  · exact modProc_same _ _ _ (fun _ => rfl) (fun _ => rfl) (fun _ => rfl)

end CimbaModel.Sim
