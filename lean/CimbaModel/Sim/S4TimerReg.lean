/-
  S4 — the strong timer invariant, part 3: arming, cancelling and clearing timers, `cancel_awaiteds`, the end of a
  process, entering / leaving a guard wait, recording a frame.
-/
import CimbaModel.Sim.S4TimerFrame

namespace CimbaModel.Sim.S4
open CimbaModel CimbaModel.Sim CimbaModel.Sim.S3 CimbaModel.Event CimbaModel.Generated CimbaModel.KPQ
open CimbaModel.HashHeap (HTag Item Order HH WF abs liveTags)

variable {fr : Bool} {w : World}

/-! ### list facts -/

theorem rak_go_subset (k : Await → Bool) (l : List Await) (a : Await) (h : a ∈ (removeAwaitKind.go k l).1) : a ∈ l := by
  induction l with
  | nil => simp [removeAwaitKind.go] at h
  | cons x xs ih =>
    unfold removeAwaitKind.go at h
    by_cases hx : k x = true
    · simp only [hx, if_true] at h; exact List.mem_cons_of_mem _ h
    · simp only [hx, Bool.false_eq_true, if_false] at h
      rcases List.mem_cons.1 h with rfl | h
      · exact List.mem_cons_self
      · exact List.mem_cons_of_mem _ (ih h)

/-- TIME handles are registered at most once: after the removal of TIME(k) none is left -/
theorem removeFirst_time_not_mem {l : List Await} {k : Nat} (hk : k ≠ 0)
    (hnd : ((l.filter isTimeA).filter (· ≠ .time 0)).Nodup) : Await.time k ∉ (removeFirst l (.time k)).1 := by
  intro hh
  have hnd' : (l.filter fun a => decide (a ≠ .time 0) && isTimeA a).Nodup := by
    rwa [List.filter_filter] at hnd
  have hf : (fun a => decide (a ≠ Await.time 0) && isTimeA a) (Await.time k) = true := by simp [isTimeA, hk]
  have := removeFirst_filter_self l (.time k) (fun a => decide (a ≠ Await.time 0) && isTimeA a) hf
  have hin' : Await.time k ∈ ((removeFirst l (.time k)).1).filter
      (fun a => decide (a ≠ Await.time 0) && isTimeA a) := List.mem_filter.2 ⟨hh, hf⟩
  rw [this] at hin'
  exact (removeFirst_nodup _ _ hnd').2 hin'

theorem mem_awaits_lt {w : World} {p : Pid} {a : Await} (h : a ∈ (w.proc p).awaits) : p < w.procs.size := by
  rcases Nat.lt_or_ge p w.procs.size with h' | h'
  · exact h'
  · rw [proc_oob w h'] at h; cases h

theorem foldl_mem_inv {α : Type} {J : World → Prop} {f : World → α → World} (l : List α)
    (hf : ∀ w a, a ∈ l → J w → J (f w a)) {w : World} (h : J w) : J (l.foldl f w) := by
  suffices ∀ l' : List α, (∀ a ∈ l', a ∈ l) → ∀ w, J w → J (l'.foldl f w) from this l (fun _ h => h) w h
  intro l'
  induction l' with
  | nil => intro _ w h; exact h
  | cons a l' ih =>
    intro hs w h
    exact ih (fun x hx => hs x (List.mem_cons_of_mem _ hx)) _ (hf w a (hs a List.mem_cons_self) h)

/-! ### registrations -/

theorem TX.removeAwait_fst (h : TX fr w) (p : Pid) (a : Await) : TX fr (removeAwait w p a).1 := by
  rw [removeAwait_fst_eq]
  exact h.shrinkAwaits p (fun l => (removeFirst l a).1) (fun l x hx => removeFirst_subset l a x hx)
macro_rules | `(tactic| tx_step) => `(tactic| with_reducible apply TX.removeAwait_fst)

theorem TX.removeAwaitKind_fst (h : TX fr w) (p : Pid) (k : Await → Bool) : TX fr (removeAwaitKind w p k).1 := by
  rw [removeAwaitKind_fst_eq]
  exact h.shrinkAwaits p (fun l => (removeAwaitKind.go k l).1) (fun l x hx => rak_go_subset k l x hx)

/-- registering a timer whose event is pending -/
theorem TX.addAwait_time (h : TX fr w) (p : Pid) (k : Nat)
    (hk : ∃ e ∈ w.ev.pending, e.key = k ∧ e.item.a = aTime ∧ e.item.b = p + 1) : TX fr (addAwait w p (.time k)) := by
  have hpr : ∀ q, ((addAwait w p (.time k)).proc q).vars = (w.proc q).vars ∧
      ((addAwait w p (.time k)).proc q).blocked = (w.proc q).blocked ∧
      ∀ a, a ∈ ((addAwait w p (.time k)).proc q).awaits → a ∈ (w.proc q).awaits ∨ (a = .time k ∧ q = p) := by
    intro q; unfold addAwait; rw [modProc_proc]; split
    · rename_i hq; rw [hq.1]
      refine ⟨rfl, rfl, fun a ha => ?_⟩
      rcases List.mem_cons.1 ha with h1 | h1
      · exact Or.inr ⟨h1, rfl⟩
      · exact Or.inl h1
    · exact ⟨rfl, rfl, fun a ha => Or.inl ha⟩
  refine { ei := h.ei, tl := ?_, vi := h.vi.mono (Stb.refl w) (fun q => (hpr q).1) rfl,
           fi := fun hfr => (h.fi hfr).mono (Stb.refl w) (fun q => Or.inl (hpr q).2.1) }
  intro q k' hk'
  rcases (hpr q).2.2 _ hk' with h1 | ⟨h1, h2⟩
  · exact h.tl q k' h1
  · cases h1; subst h2; exact hk

/-- `cmb_process_timer_add` with a non-negative duration -/
theorem TX.timerAdd_fst (h : TX fr w) (p : Pid) (d sig : Int) (hd : 0 ≤ d) : TX fr (timerAdd w p d sig).1 := by
  rw [timerAdd_eq w p d sig hd]
  have h1 := h.pushEv aTime (p + 1) sig (w.now + d) (w.proc p).prio (by omega)
  exact h1.addAwait_time p _ ⟨_, List.mem_cons_self, rfl, rfl, rfl⟩

/-- the handle `timerAdd` returns is the key of the new timer event of `p`, and the only pending event with that key -/
theorem timerAdd_handle (hi : EvInv w.ev) (p : Pid) (d sig : Int) (hd : 0 ≤ d) :
    (timerAdd w p d sig).2 ≤ (timerAdd w p d sig).1.ev.counter ∧
    ∀ e ∈ (timerAdd w p d sig).1.ev.pending, e.key = (timerAdd w p d sig).2 → e.item.a = aTime ∧ e.item.b = p + 1 := by
  rw [timerAdd_eq w p d sig hd]
  refine ⟨Nat.le_refl _, ?_⟩
  intro e he hk
  have he' : e ∈ mkEv (w.ev.counter + 1) aTime (p + 1) sig (w.now + d) (w.proc p).prio :: w.ev.pending := he
  rcases List.mem_cons.1 he' with h1 | h1
  · rw [h1]; exact ⟨rfl, rfl⟩
  · have := EvInv.key_le hi h1
    have hk' : e.key = w.ev.counter + 1 := hk
    omega

/-- `cmb_process_timer_cancel` of a handle that names (if a timer at all) a timer of the caller -/
theorem TX.timerCancel_fst (h : TX fr w) (p : Pid) (k : Nat) (hnd : ((timeAw w p).filter (· ≠ .time 0)).Nodup)
    (hk : ∀ e ∈ w.ev.pending, e.key = k → e.item.a = aTime → e.item.b = p + 1) : TX fr (timerCancel w p k).1 := by
  simp only [Sim.timerCancel]
  refine (h.removeAwait_fst p (.time k)).evCancel_fst k ?_
  intro q hq
  rw [removeAwait_fst_eq, modProc_proc] at hq
  have hold : Await.time k ∈ (w.proc q).awaits := by
    split at hq
    · rename_i hx; rw [hx.1]; exact removeFirst_subset _ _ _ hq
    · exact hq
  obtain ⟨e, he, h1, h2, h3⟩ := h.tl q k hold
  have hqp : q = p := Nat.add_right_cancel (h3.symm.trans (hk e he h1 h2))
  subst hqp
  rw [if_pos ⟨rfl, mem_awaits_lt hold⟩] at hq
  have hk0 : k ≠ 0 := by have := key_pos h.ei he; omega
  exact removeFirst_time_not_mem hk0 hnd hq

/-- `cmb_process_timers_clear` -/
theorem TX.timersClear (h : TX fr w) (p : Pid) : TX fr (timersClear w p) := by
  unfold Sim.timersClear
  have h1 : TX fr (w.modProc p fun x => { x with awaits := x.awaits.filter fun a => match a with | .time _ => false | _ => true }) :=
    h.shrinkAwaits p (fun l => l.filter fun a => match a with | .time _ => false | _ => true)
      (fun l a ha => (List.mem_filter.1 ha).1)
  refine h1.cancelFold _ ?_
  intro k hk q hq
  obtain ⟨a, ha, hak⟩ := List.mem_filterMap.1 hk
  have hpk : Await.time k ∈ (w.proc p).awaits := by
    cases a <;> simp at hak
    subst hak; exact ha
  rw [modProc_proc] at hq
  split at hq
  · simp at hq
  · rename_i hn
    have hqp := h.tl.unique h.ei hq hpk
    exact hn ⟨hqp, mem_awaits_lt hpk⟩
macro_rules | `(tactic| tx_step) => `(tactic| with_reducible apply TX.timersClear)

/-- `cmi_process_cancel_awaiteds` -/
theorem TX.cancelAwaiteds (h : TX fr w) (p : Pid) : TX fr (Sim.cancelAwaiteds w p) := by
  rw [cancelAwaiteds_eq]
  have h0 : TX fr (w.modProc p fun x => { x with awaits := [] }) :=
    h.shrinkAwaits p (fun _ => []) (fun _ _ ha => by cases ha)
  have hp0 : ∀ k, Await.time k ∉ ((w.modProc p fun x => { x with awaits := [] }).proc p).awaits := by
    intro k hk
    rw [modProc_proc] at hk
    split at hk
    · cases hk
    · rename_i hn; exact hn ⟨rfl, mem_awaits_lt hk⟩
  have hF : ∀ k, Await.time k ∈ (w.proc p).awaits → ∀ q, Await.time k ∉ ((w.modProc p fun x => { x with awaits := [] }).proc q).awaits := by
    intro k hk q hq
    by_cases hqp : q = p
    · subst hqp; exact hp0 k hq
    · rw [modProc_proc_ne w _ hqp] at hq
      exact hqp (h.tl.unique h.ei hq hk)
  generalize (w.modProc p fun x => { x with awaits := [] }) = w0 at h0 hp0 hF
  have hJ : TX fr ((w.proc p).awaits.foldl (S3.caStep p) w0) ∧
      ∀ q, (((w.proc p).awaits.foldl (S3.caStep p) w0).proc q).awaits = (w0.proc q).awaits := by
    refine foldl_mem_inv (J := fun w1 => TX fr w1 ∧ ∀ q, (w1.proc q).awaits = (w0.proc q).awaits) _ ?_ ⟨h0, fun _ => rfl⟩
    intro w1 a ha ⟨hx, haw⟩
    cases a with
    | time k =>
      refine ⟨hx.evCancel_fst k (fun q hq => hF k ha q (by rw [← haw]; exact hq)), fun q => ?_⟩
      show (((evCancel w1 k).1).proc q).awaits = _
      rw [(evCancel_rel w1 k).proc]; exact haw q
    | guard g =>
      refine ⟨hx.guardWithdraw g p, fun q => ?_⟩
      show ((Sim.guardWithdraw w1 g p).proc q).awaits = _
      rw [((PF.refl w1).guardWithdraw g p |>.ctl q).1]; exact haw q
    | proc r =>
      refine ⟨hx.modProc_ctl r _ (fun _ => ⟨rfl, rfl, fun _ => Or.inl rfl⟩), fun q => ?_⟩
      show ((w1.modProc r fun x => { x with waiters := (removeFirst x.waiters p).1 }).proc q).awaits = _
      rw [modProc_proc]; split
      · rename_i hq; rw [hq.1]; exact haw r
      · exact haw q
    | event k => exact ⟨hx.setEvWaiters _, haw⟩
  obtain ⟨h2, haw⟩ := hJ
  exact h2.cancelAllFor p (fun k hk => hp0 k (by rw [← haw]; exact hk))
macro_rules | `(tactic| tx_step) => `(tactic| with_reducible apply TX.cancelAwaiteds)

theorem TX.wakeWaiters (h : TX fr w) (p : Pid) (sig : Int) : TX fr (Sim.wakeWaiters w p sig) := by
  unfold Sim.wakeWaiters
  exact TX.foldl (fun w q h => by tx) _ (by tx)
macro_rules | `(tactic| tx_step) => `(tactic| with_reducible apply TX.wakeWaiters)

theorem TX.finishProc (h : TX fr w) (p : Pid) (val : Int) (stopped : Bool) : TX fr (Sim.finishProc w p val stopped) := by
  unfold Sim.finishProc; tx
macro_rules | `(tactic| tx_step) => `(tactic| with_reducible apply TX.finishProc)

theorem TX.guardWaitEnter (h : TX fr w) (g : Nat) (p : Pid) (d : Demand) : TX fr (Sim.guardWaitEnter w g p d) := by
  unfold Sim.guardWaitEnter
  split
  · exact h.fail _
  · split
    · exact (h.setGuards _).addAwait_other p _ rfl
    · exact h.fail _
macro_rules | `(tactic| tx_step) => `(tactic| with_reducible apply TX.guardWaitEnter)

theorem TX.guardWaitLeave (h : TX fr w) (g : Nat) (p : Pid) (sig : Int) : TX fr (Sim.guardWaitLeave w g p sig) := by
  unfold Sim.guardWaitLeave; tx
macro_rules | `(tactic| tx_step) => `(tactic| with_reducible apply TX.guardWaitLeave)

/-- recording a frame that is fine -/
theorem TX.block_fst (h : TX fr w) (p : Pid) (f : Frame) (hf : fr = true → FrameOk w p f) : TX fr (block w p f).1 := by
  have hpr : ∀ q, (((block w p f).1).proc q).vars = (w.proc q).vars ∧
      (((block w p f).1).proc q).awaits = (w.proc q).awaits ∧
      ((((block w p f).1).proc q).blocked = (w.proc q).blocked ∨ (q = p ∧ (((block w p f).1).proc q).blocked = some f)) := by
    intro q; unfold block; rw [modProc_proc]; split
    · rename_i hq; rw [hq.1]; exact ⟨rfl, rfl, Or.inr ⟨rfl, rfl⟩⟩
    · exact ⟨rfl, rfl, Or.inl rfl⟩
  have hev : (block w p f).1.ev = w.ev := rfl
  refine { ei := h.ei, tl := ?_, vi := h.vi.mono (Stb.ofEv hev) (fun q => (hpr q).1) rfl, fi := ?_ }
  · exact h.tl.congr (fun q k hk => by rw [(hpr q).2.1] at hk; exact hk) (fun q k _ e he _ _ _ => ⟨e, he, rfl, rfl⟩)
  · intro hfr q f' hq
    rcases (hpr q).2.2 with h1 | ⟨h1, h2⟩
    · rw [h1] at hq; exact (h.fi hfr q f' hq).mono (Stb.ofEv hev)
    · rw [h2] at hq; cases hq; subst h1; exact (hf hfr).mono (Stb.ofEv hev)

end CimbaModel.Sim.S4
