/-
  S3 — the grant invariant, part 9: `cancel_awaiteds`, dropping resources, the end of a process.
-/
import CimbaModel.Sim.S3GrantRes

namespace CimbaModel.Sim.S3
open CimbaModel CimbaModel.Sim CimbaModel.Event CimbaModel.Generated CimbaModel.KPQ
open CimbaModel.HashHeap (HTag Item Order HH WF abs liveTags)

theorem filter_eq_singleton {α : Type} (f : α → Bool) : ∀ (l : List α) (a : α), l.filter f = [a] →
    ∃ l1 l2, l = l1 ++ a :: l2 ∧ l1.filter f = [] ∧ l2.filter f = []
  | [], _, h => by cases h
  | x :: xs, a, h => by
    by_cases hx : f x = true
    · rw [List.filter_cons_of_pos hx] at h
      simp only [List.cons.injEq] at h
      obtain ⟨rfl, h2⟩ := h
      exact ⟨[], xs, rfl, rfl, h2⟩
    · rw [List.filter_cons_of_neg hx] at h
      obtain ⟨l1, l2, h1, h2, h3⟩ := filter_eq_singleton f xs a h
      exact ⟨x :: l1, l2, by rw [h1]; rfl, by rw [List.filter_cons_of_neg hx]; exact h2, h3⟩

theorem Evo.caStep {w0 w : World} (h : Evo w0 w) (p : Pid) (a : Await) : Evo w0 (S3.caStep p w a) := by
  cases a with
  | time k => exact h.evCancel_fst k
  | guard g => exact h.guardWithdraw g p
  | proc r => exact h.modProc r _
  | event k => exact h.setEvWaiters _

theorem Evo.caFold {w0 : World} (p : Pid) : ∀ (l : List Await) {w : World}, Evo w0 w → Evo w0 (l.foldl (S3.caStep p) w) := by
  intro l
  induction l with
  | nil => intro w h; exact h
  | cons a l ih => intro w h; exact ih (h.caStep p a)

/-- the steps of `cancel_awaiteds` for awaitables other than guards: nothing the grant invariant cares about changes -/
theorem caFree (p : Pid) : ∀ (l : List Await) {w : World}, l.filter isGuardA = [] → (∀ k, Await.time k ∈ l → NG w k) →
    Inert w (l.foldl (caStep p) w) ∧
    (∀ e ∈ (l.foldl (caStep p) w).ev.pending, e ∈ w.ev.pending ∨ e.item.a = aEvent) ∧
    (∀ x, ((l.foldl (caStep p) w).proc x).awaits = (w.proc x).awaits) := by
  intro l
  induction l with
  | nil => intro w _ _; exact ⟨Inert.refl w, fun e he => Or.inl he, fun _ => rfl⟩
  | cons a l ih =>
    intro w hf hng
    have hfa : isGuardA a = false ∧ l.filter isGuardA = [] := by
      by_cases ha : isGuardA a = true
      · rw [List.filter_cons_of_pos ha] at hf; cases hf
      · rw [List.filter_cons_of_neg ha] at hf
        exact ⟨by simpa using ha, hf⟩
    simp only [List.foldl_cons]
    -- one step
    have hstep : Inert w (caStep p w a) ∧ (∀ e ∈ (caStep p w a).ev.pending, e ∈ w.ev.pending ∨ e.item.a = aEvent) ∧
        (∀ x, ((caStep p w a).proc x).awaits = (w.proc x).awaits) ∧ (∀ k, Await.time k ∈ l → NG (caStep p w a) k) := by
      cases a with
      | time k =>
        have hrel := evCancel_rel w k
        refine ⟨(Inert.refl w).evCancel_fst k (hng k List.mem_cons_self), ?_, fun x => by show ((evCancel w k).1.proc x).awaits = _; rw [hrel.proc],
          fun k' hk' => (hng k' (List.mem_cons_of_mem _ hk')).ofCanRel hrel⟩
        intro e he
        rcases hrel.pend e he with h | ⟨_, _, _, _, _, _, heq⟩
        · exact Or.inl h
        · right; rw [heq]; rfl
      | guard g => exact absurd hfa.1 (by simp [isGuardA])
      | proc r =>
        refine ⟨(Inert.refl w).modProc r _ (fun _ => rfl), fun e he => Or.inl he, fun x => ?_,
          fun k' hk' => hng k' (List.mem_cons_of_mem _ hk')⟩
        show ((w.modProc r fun x => { x with waiters := (removeFirst x.waiters p).1 }).proc x).awaits = _
        rw [modProc_proc]; split
        · rename_i hq; rw [hq.1]
        · rfl
      | event k =>
        exact ⟨(Inert.refl w).setEvWaiters _, fun e he => Or.inl he, fun _ => rfl,
          fun k' hk' => hng k' (List.mem_cons_of_mem _ hk')⟩
    obtain ⟨s1, s2, s3, s4⟩ := hstep
    obtain ⟨i1, i2, i3⟩ := ih hfa.2 s4
    refine ⟨s1.trans i1, ?_, fun x => (i3 x).trans (s3 x)⟩
    intro e he
    rcases i2 e he with h | h
    · exact s2 e h
    · exact Or.inr h

/-- cancelling all pending events of a process that owns no grant -/
theorem Inert.cancelAllFor {w : World} (hi : EvInv w.ev) (p : Pid) (hng : ∀ e ∈ w.ev.pending, isG01 e → e.item.b ≠ p + 1) :
    Inert w (cancelAllFor w p) := by
  unfold Sim.cancelAllFor
  rw [pendingOf_eq]
  refine Inert.cancelFold _ (Inert.refl w) ?_
  intro k hk e he hke hg
  simp only [List.mem_map, List.mem_filter, decide_eq_true_eq] at hk
  obtain ⟨e', ⟨he', hb⟩, rfl⟩ := hk
  have : e = e' := HashHeap.eq_of_key_eq hi.part.keysNodup he he' hke
  subst this
  exact hng e he hg hb

theorem CaG.foldl' {ex : Pid → Prop} {fr : Pid → Option Frame} {p : Pid} : ∀ (l : List Await) {rest : List Await} {w : World},
    CaG ex fr p (l ++ rest) w → CaG ex fr p rest (l.foldl (caStep p) w) := by
  intro l
  induction l with
  | nil => intro rest w h; exact h
  | cons a l ih => intro rest w h; exact ih (CaG.step h)

variable {fr : Pid → Option Frame} {df : Demand → Nat} {w : World}

theorem not_isG01_of_aEvent {e : HTag} (h : e.item.a = aEvent) : ¬ isG01 e := by
  intro hg; have := hg.1; rw [h] at this; exact absurd this (by decide)

/-- `cancel_awaiteds`: a queued entry is withdrawn, a pending grant is passed on, timers are cancelled; the grant invariant
    survives (the TIME awaitables are not handles of grants) -/
theorem GS.cancelAwaiteds (h : GS fr df w) (q : Pid) (ht : ∀ k, Await.time k ∈ (w.proc q).awaits → NGc w k) :
    GS fr df (cancelAwaiteds w q) := by
  have hp := h.ginv
  suffices hs : HG (Sim.cancelAwaiteds w q) ∧ GI df (Sim.cancelAwaiteds w q) from
    ⟨(hp.cancelAwaiteds q (noEx_not q)).1, hs.1, hs.2⟩
  rw [cancelAwaiteds_eq]
  have hawq0 : ((w.modProc q fun x => { x with awaits := [] }).proc q).awaits = [] := by
    rw [modProc_proc]; split
    · rfl
    · rename_i hn
      by_cases hsz : q < w.procs.size
      · exact absurd ⟨rfl, hsz⟩ hn
      · rw [proc_oob _ (Nat.le_of_not_lt hsz)]
  have hpr0 : ∀ x, x ≠ q → (w.modProc q fun x => { x with awaits := [] }).proc x = w.proc x :=
    fun x hx => modProc_proc_ne w _ hx
  have h0 : CaG noEx fr q (w.proc q).awaits (w.modProc q fun x => { x with awaits := [] }) := by
    refine ⟨(hp.exempt q).clearAwaitsEx, ?_, ?_⟩
    · unfold guardAw; rw [hawq0]; rfl
    · intro g' hq'
      have hq'' : queued w g' (q + 1) := hq'
      have := (hp.gk g' _ hq'').2.2 (noEx_not _)
      simpa using this
  have hb0 : ∀ e ∈ w.ev.pending, isG01 e → e.item.b ≠ 0 := fun e he hg => (hp.gr e he (Or.inl hg)).1
  -- grants of other processes are still counted after `q`'s awaits have been cleared
  have hkeepO : ∀ g' e, e ∈ w.ev.pending → e.item.b ≠ q + 1 → grantOf w g' e →
      ∃ e' ∈ (w.modProc q fun x => { x with awaits := [] }).ev.pending, e'.key = e.key ∧
        grantOf (w.modProc q fun x => { x with awaits := [] }) g' e' := by
    intro g' e he hb hgr
    refine ⟨e, he, rfl, hgr.1, ?_⟩
    have hne : e.item.b - 1 ≠ q := by have := hb0 e he hgr.1; omega
    rw [hpr0 _ hne]; exact hgr.2
  rcases hp.ga q with haw | ⟨g0, f, hfr, hon, haw⟩
  · -- no RESOURCE awaitable: nothing of the guards is touched
    have hnog : ∀ e ∈ w.ev.pending, isG01 e → e.item.b ≠ q + 1 := by
      intro e he hg hb
      obtain ⟨_, h2⟩ := hp.gr e he (Or.inl hg)
      obtain ⟨g, h3, _⟩ := h2 (noEx_not _)
      rw [hb, Nat.add_sub_cancel, mem_awaits_guard, haw] at h3; cases h3
    have hi0 : Inert w (w.modProc q fun x => { x with awaits := [] }) := by
      refine (Inert.refl w).same rfl rfl rfl rfl rfl rfl rfl (fun x => ?_)
      by_cases hx : x = q
      · subst hx; unfold guardAw at haw ⊢; rw [hawq0, haw]; rfl
      · unfold guardAw; rw [hpr0 x hx]
    obtain ⟨i1, p1, _⟩ := caFree q (w.proc q).awaits (w := w.modProc q fun x => { x with awaits := [] }) haw
      (fun k hk => (ht k hk).2)
    have hi3 : EvInv ((w.proc q).awaits.foldl (caStep q) (w.modProc q fun x => { x with awaits := [] })).ev :=
      i1.ei (hi0.ei hp.ei)
    have hng3 : ∀ e ∈ ((w.proc q).awaits.foldl (caStep q) (w.modProc q fun x => { x with awaits := [] })).ev.pending,
        isG01 e → e.item.b ≠ q + 1 := by
      intro e he hg
      rcases p1 e he with h' | h'
      · exact hnog e h' hg
      · exact absurd hg (not_isG01_of_aEvent h')
    have hI := hi0.trans (i1.trans (Inert.cancelAllFor hi3 q hng3))
    exact ⟨h.hg.inert hI, h.gi.inert hp.ei hI⟩
  · -- one RESOURCE awaitable
    obtain ⟨l1, l2, hl, hf1, hf2⟩ := filter_eq_singleton isGuardA (w.proc q).awaits (.guard g0) haw
    have hown0 : ∀ g', Await.guard g' ∈ (w.proc q).awaits → g' = g0 := by
      intro g' hm
      rw [mem_awaits_guard, haw] at hm; simpa using hm
    rw [hl] at h0
    rw [hl, List.foldl_append, List.foldl_cons]
    have hcs : ∀ W, caStep q W (.guard g0) = Sim.guardWithdraw W g0 q := fun _ => rfl
    rw [hcs]
    have hmem1 : ∀ a, a ∈ l1 → a ∈ (w.proc q).awaits := fun a ha => by rw [hl]; exact List.mem_append_left _ ha
    have hmem2 : ∀ a, a ∈ l2 → a ∈ (w.proc q).awaits := fun a ha => by
      rw [hl]; exact List.mem_append_right _ (List.mem_cons_of_mem _ ha)
    -- the state after the awaits have been cleared
    have hq0 : QI (exAdd noEx q) (w.modProc q fun x => { x with awaits := [] }) :=
      h0.1.toQI (h.hg.ofGuards rfl (fun d => gOf_congr rfl rfl rfl rfl rfl d))
    -- the deficit that clearing the awaits books at `g0`
    have hdrop : ∃ df0 : Demand → Nat, GI df0 (w.modProc q fun x => { x with awaits := [] }) ∧
        (∀ d, gOf w d ≠ some g0 → df0 d ≤ df d) ∧ (∀ d, df0 d ≤ df d + 1) ∧
        ((¬ ∃ e ∈ w.ev.pending, isG01 e ∧ e.item.b = q + 1) → ∀ d, df0 d ≤ df d) := by
      by_cases hG : ∃ e ∈ w.ev.pending, isG01 e ∧ e.item.b = q + 1
      · obtain ⟨e0, he0, hg0, hbq0⟩ := hG
        refine ⟨fun d => if gOf w d = some g0 then df d + 1 else df d, ?_, fun d hd => by simp [hd],
          fun d => by dsimp only; split <;> omega, fun hn => absurd ⟨e0, he0, hg0, hbq0⟩ hn⟩
        intro d g' hd hqn
        have hold := h.gi d g' hd hqn
        have hnd : need (w.modProc q fun x => { x with awaits := [] }) d = need w d := rfl
        by_cases hgg : g' = g0
        · subst hgg
          have : G w g' ≤ G (w.modProc q fun x => { x with awaits := [] }) g' + 1 := by
            refine G_le_succ_of_keep_except hp.ei g' e0.key ?_
            intro e he hk hgr
            refine hkeepO g' e he ?_ hgr
            intro hb
            exact hk (by rw [hp.gu e he e0 he0 (Or.inl hgr.1) (Or.inl hg0) (hb.trans hbq0.symm) (noEx_not _)])
          have hd' : gOf w d = some g' := hd
          simp only [hd', if_true]
          omega
        · have : G w g' ≤ G (w.modProc q fun x => { x with awaits := [] }) g' := by
            refine G_le_of_keep hp.ei g' ?_
            intro e he hgr
            refine hkeepO g' e he ?_ hgr
            intro hb
            have := hgr.2; rw [hb, Nat.add_sub_cancel] at this
            exact hgg (hown0 g' this)
          have hd' : gOf w d = some g' := hd
          have hne : ¬ (some g' = some g0) := fun hh => hgg (Option.some.inj hh)
          simp only [hd', hne, if_false]
          omega
      · refine ⟨df, ?_, fun _ _ => Nat.le_refl _, fun _ => Nat.le_succ _, fun _ _ => Nat.le_refl _⟩
        intro d g' hd hqn
        have hold := h.gi d g' hd hqn
        have hnd : need (w.modProc q fun x => { x with awaits := [] }) d = need w d := rfl
        have : G w g' ≤ G (w.modProc q fun x => { x with awaits := [] }) g' := by
          refine G_le_of_keep hp.ei g' ?_
          intro e he hgr
          exact hkeepO g' e he (fun hb => hG ⟨e, he, hgr.1, hb⟩) hgr
        omega
    obtain ⟨df0, hgi0, hdfA, hdf1, hdfN⟩ := hdrop
    -- the awaitables before the guard
    obtain ⟨i1, p1, a1⟩ := caFree q l1 (w := w.modProc q fun x => { x with awaits := [] }) hf1
      (fun k hk => (ht k (hmem1 _ hk)).2)
    obtain ⟨hE1, _, hq1⟩ := h0.foldl' l1
    have hev0 : (w.modProc q fun x => { x with awaits := [] }).ev = w.ev := rfl
    have hgd0 : (w.modProc q fun x => { x with awaits := [] }).guards = w.guards := rfl
    have hgo0 : ∀ d, gOf (w.modProc q fun x => { x with awaits := [] }) d = gOf w d := fun d => gOf_congr rfl rfl rfl rfl rfl d
    have hEvo0 : Evo w (w.modProc q fun x => { x with awaits := [] }) := (Evo.refl w).modProc q _
    generalize (w.modProc q fun x => { x with awaits := [] }) = W0 at hawq0 hq0 hgi0 i1 p1 a1 hE1 hq1 hev0 hgd0 hgo0 hEvo0
    have hQ1 := hq0.inert i1
    have hG1 := hgi0.inert hq0.ei i1
    have hgo1 : ∀ d, gOf (l1.foldl (caStep q) W0) d = gOf w d := fun d => (i1.gof d).trans (hgo0 d)
    have hqd1 : ∀ g' k, queued (l1.foldl (caStep q) W0) g' k ↔ queued w g' k := fun g' k =>
      (queued_congr i1.guards g' k).trans (queued_congr hgd0 g' k)
    have hold1 : ∀ e ∈ (l1.foldl (caStep q) W0).ev.pending, isG01 e → e ∈ w.ev.pending := by
      intro e he hg
      rcases p1 e he with h' | h'
      · rw [hev0] at h'; exact h'
      · exact absurd hg (not_isG01_of_aEvent h')
    have hawq1 : ((l1.foldl (caStep q) W0).proc q).awaits = [] := (a1 q).trans hawq0
    have hEvo1 : Evo w (l1.foldl (caStep q) W0) := hEvo0.caFold q l1
    generalize (l1.foldl (caStep q) W0) = W1 at hQ1 hG1 hgo1 hqd1 hold1 hawq1 hE1 hq1 i1 hEvo1
    -- the guard
    have hnq1 : ∀ g', g' ≠ g0 → ¬ queued W1 g' (q + 1) := by
      intro g' hne hqq
      rcases List.mem_cons.1 (hq1 g' hqq) with h' | h'
      · cases h'; exact hne rfl
      · have : Await.guard g' ∈ l2.filter isGuardA := List.mem_filter.2 ⟨h', rfl⟩
        rw [hf2] at this; cases this
    obtain ⟨hG2, hQ2⟩ := GI.guardWithdraw (df' := df) hQ1 hG1 g0 q
      (fun g' hm => by rw [hawq1] at hm; cases hm)
      (fun e1 h1 e2 h2 g1 g2 b1 b2 =>
        hp.gu e1 (hold1 e1 h1 g1) e2 (hold1 e2 h2 g2) (Or.inl g1) (Or.inl g2) (b1.trans b2.symm) (noEx_not _))
      (fun k hk hne hx => by
        rcases hx with hx | hx
        · exact noEx_not _ hx
        · have h0 := (hQ1.gk g0 k hk).1
          have h1 : k - 1 + 1 = k := Nat.sub_add_cancel (Nat.pos_of_ne_zero h0)
          exact hne (by rw [← hx, h1]))
      (fun d hd => hdfA d (by rw [← hgo1]; exact hd))
      (fun d hd => ⟨fun _ => hdf1 d, fun hc => by
        apply hdfN
        rintro ⟨e0, he0, hg0, hbq0⟩
        apply hc
        refine ⟨?_, ?_, by rw [hawq1]; simp⟩
        · intro hqq
          have := hp.no_grant_of_queued ((hqd1 g0 _).1 hqq) (noEx_not _)
          exact this e0 he0 (Or.inl hg0) hbq0
        · obtain ⟨e', he', hk', hit'⟩ := i1.keep e0 (by rw [hev0]; exact he0) hg0
          obtain ⟨_, _, _, hn⟩ := cancelKindFor_spec W1 q aRes (some sigSuccess) hQ1.ei
          rw [hn]
          refine List.length_pos_of_mem (List.mem_filter.2 ⟨he', ?_⟩)
          unfold kindMatch
          rw [hit']
          simp [hbq0, hg0.1, hg0.2]
          decide⟩)
    -- afterwards `q` owns no grant
    obtain ⟨_, _, _, f4, f5⟩ := guardWithdraw_foot hE1.gw hE1.ei hE1.cl g0 q hnq1
    have hng2 : ∀ e ∈ (Sim.guardWithdraw W1 g0 q).ev.pending, isG01 e → e.item.b ≠ q + 1 := by
      intro e he hg
      by_cases hqq : queued W1 g0 (q + 1)
      · rcases f4 e he with h' | h' | h'
        · have := hp.no_grant_of_queued ((hqd1 g0 _).1 hqq) (noEx_not _)
          exact this e (hold1 e h' hg) (Or.inl hg)
        · exact absurd hg (not_isG01_of_aEvent h')
        · exact h'.2.2
      · exact f5 hqq e he hg.1 hg.2
    have hEvo2 : Evo w (Sim.guardWithdraw W1 g0 q) := hEvo1.guardWithdraw g0 q
    obtain ⟨i2, p2, _⟩ := caFree q l2 (w := Sim.guardWithdraw W1 g0 q) hf2
      (fun k hk => ((ht k (hmem2 _ hk)).ofEvo hEvo2).2)
    have hQ3 := hQ2.inert i2
    have hG3 := hG2.inert hQ2.ei i2
    have hng3 : ∀ e ∈ (l2.foldl (caStep q) (Sim.guardWithdraw W1 g0 q)).ev.pending, isG01 e → e.item.b ≠ q + 1 := by
      intro e he hg
      rcases p2 e he with h' | h'
      · exact hng2 e h' hg
      · exact absurd hg (not_isG01_of_aEvent h')
    have i4 := Inert.cancelAllFor hQ3.ei q hng3
    exact ⟨(hQ3.inert i4).hg, hG3.inert hQ3.ei i4⟩

end CimbaModel.Sim.S3
