/-
  S2 — footprints.  `Fp m w w'`: the step from `w` to `w'` changed at most the object arrays (and the
  `held` lists) flagged in the mask `m`; the clock, "nothing pending in the past" and the number of
  processes are always kept.  One footprint lemma per primitive / command / frame, tagged `simp`
  (each conjunct becomes a conditional rewrite rule whose side condition `false = false` is closed by
  `simp` itself).
-/
import CimbaModel.Sim.S2Frame

namespace CimbaModel.Sim
open CimbaModel CimbaModel.Event CimbaModel.Generated
open CimbaModel.HashHeap (HTag Item Order HH)

/-- `true` = may change -/
structure Mask where
  res : Bool := false
  pools : Bool := false
  bufs : Bool := false
  oqs : Bool := false
  pqs : Bool := false
  held : Bool := false
  blocked : Bool := false
  prio : Bool := false
  deriving DecidableEq, Repr

def Mask.le (a b : Mask) : Bool :=
  (!a.res || b.res) && (!a.pools || b.pools) && (!a.bufs || b.bufs) && (!a.oqs || b.oqs) && (!a.pqs || b.pqs) &&
  (!a.held || b.held) && (!a.blocked || b.blocked) && (!a.prio || b.prio)

@[reducible] def Fp (m : Mask) (w w' : World) : Prop :=
  (m.res = false → w'.res = w.res) ∧ (m.pools = false → w'.pools = w.pools) ∧ (m.bufs = false → w'.bufs = w.bufs) ∧
  (m.oqs = false → w'.oqs = w.oqs) ∧ (m.pqs = false → w'.pqs = w.pqs) ∧
  w'.now = w.now ∧ (TimeOk w.ev → TimeOk w'.ev) ∧ w'.procs.size = w.procs.size ∧
  (m.held = false → ∀ p, (w'.proc p).held = (w.proc p).held) ∧
  (m.blocked = false → ∀ p, (w'.proc p).blocked = (w.proc p).blocked) ∧
  (m.prio = false → ∀ p, (w'.proc p).prio = (w.proc p).prio)

theorem Fp.refl (m : Mask) (w : World) : Fp m w w :=
  ⟨fun _ => rfl, fun _ => rfl, fun _ => rfl, fun _ => rfl, fun _ => rfl, rfl, id, rfl, fun _ _ => rfl, fun _ _ => rfl,
    fun _ _ => rfl⟩

theorem Fp.trans {m : Mask} {a b c : World} (h1 : Fp m a b) (h2 : Fp m b c) : Fp m a c := by
  obtain ⟨r1, p1, b1, o1, k1, n1, t1, s1, e1, f1, g1⟩ := h1
  obtain ⟨r2, p2, b2, o2, k2, n2, t2, s2, e2, f2, g2⟩ := h2
  exact ⟨fun h => (r2 h).trans (r1 h), fun h => (p2 h).trans (p1 h), fun h => (b2 h).trans (b1 h),
    fun h => (o2 h).trans (o1 h), fun h => (k2 h).trans (k1 h), n2.trans n1, fun h => t2 (t1 h),
    s2.trans s1, fun h p => (e2 h p).trans (e1 h p), fun h p => (f2 h p).trans (f1 h p), fun h p => (g2 h p).trans (g1 h p)⟩

theorem Fp.mono {m m' : Mask} {w w' : World} (hm : m.le m' = true) (h : Fp m w w') : Fp m' w w' := by
  obtain ⟨r1, p1, b1, o1, k1, n1, t1, s1, e1, f1, g1⟩ := h
  simp only [Mask.le, Bool.and_eq_true, Bool.or_eq_true, Bool.not_eq_true'] at hm
  obtain ⟨⟨⟨⟨⟨⟨⟨hr, hp⟩, hb⟩, ho⟩, hk⟩, hh⟩, hbl⟩, hpr⟩ := hm
  refine ⟨fun h => r1 ?_, fun h => p1 ?_, fun h => b1 ?_, fun h => o1 ?_, fun h => k1 ?_, n1, t1, s1, fun h => e1 ?_,
    fun h => f1 ?_, fun h => g1 ?_⟩
  · rcases hr with h' | h'
    · exact h'
    · rw [h] at h'; cases h'
  · rcases hp with h' | h'
    · exact h'
    · rw [h] at h'; cases h'
  · rcases hb with h' | h'
    · exact h'
    · rw [h] at h'; cases h'
  · rcases ho with h' | h'
    · exact h'
    · rw [h] at h'; cases h'
  · rcases hk with h' | h'
    · exact h'
    · rw [h] at h'; cases h'
  · rcases hh with h' | h'
    · exact h'
    · rw [h] at h'; cases h'
  · rcases hbl with h' | h'
    · exact h'
    · rw [h] at h'; cases h'
  · rcases hpr with h' | h'
    · exact h'
    · rw [h] at h'; cases h'

theorem Same.fp (m : Mask) {w w' : World} (h : Same w w') : Fp m w w' := by
  obtain ⟨r1, p1, b1, o1, k1, n1, t1, s1, e1, f1, g1⟩ := h
  exact ⟨fun _ => r1, fun _ => p1, fun _ => b1, fun _ => o1, fun _ => k1, n1, t1, s1, fun _ => e1, fun _ => f1, fun _ => g1⟩

theorem Fp.same {w w' : World} (h : Fp {} w w') : Same w w' := by
  obtain ⟨r1, p1, b1, o1, k1, n1, t1, s1, e1, f1, g1⟩ := h
  exact ⟨r1 rfl, p1 rfl, b1 rfl, o1 rfl, k1 rfl, n1, t1, s1, e1 rfl, f1 rfl, g1 rfl⟩

theorem foldl_fp {α : Type} (m : Mask) (f : World → α → World) (h : ∀ w a, Fp m w (f w a)) (l : List α) (w : World) :
    Fp m w (l.foldl f w) := by
  induction l generalizing w with
  | nil => exact Fp.refl m w
  | cons a l ih => exact Fp.trans (h w a) (ih (f w a))

/-- chain one more step (the outermost function application) -/
macro "fp_step " t:term : tactic => `(tactic| refine Fp.trans ?_ (Fp.mono (by decide) $t))
macro "fp_same " t:term : tactic => `(tactic| refine Fp.trans ?_ (Same.fp _ $t))

/-! ### masks -/
@[reducible] def mRes : Mask := { res := true }
@[reducible] def mPools : Mask := { pools := true }
@[reducible] def mBufs : Mask := { bufs := true }
@[reducible] def mOqs : Mask := { oqs := true }
@[reducible] def mPqs : Mask := { pqs := true }
@[reducible] def mHeld : Mask := { held := true }
@[reducible] def mResHeld : Mask := { res := true, held := true }
@[reducible] def mPoolsHeld : Mask := { pools := true, held := true }
@[reducible] def mEnd : Mask := { res := true, pools := true, held := true, blocked := true }
@[reducible] def mBlocked : Mask := { blocked := true }
@[reducible] def mEndNB : Mask := { res := true, pools := true, held := true }
@[reducible] def mHeldB : Mask := { held := true, blocked := true, prio := true }
@[reducible] def mPoolsPrio : Mask := { pools := true, prio := true }
@[reducible] def mPrio : Mask := { prio := true }
@[reducible] def mResHeldB : Mask := { res := true, held := true, blocked := true }
@[reducible] def mPoolsHeldB : Mask := { pools := true, held := true, blocked := true }
@[reducible] def mBufsB : Mask := { bufs := true, blocked := true }
@[reducible] def mOqsB : Mask := { oqs := true, blocked := true }
@[reducible] def mPqsB : Mask := { pqs := true, blocked := true }
attribute [simp] mRes mPools mBufs mOqs mPqs mHeld mResHeld mPoolsHeld mEnd mBlocked mHeldB mResHeldB mPoolsHeldB mBufsB mOqsB mPqsB mEndNB mPoolsPrio mPrio

/-! ### primitives -/

theorem removeHeld_proc (w : World) (p q : Pid) (h : HoldRef) :
    ((removeHeld w p h).1.proc q).held =
      if q = p then (w.proc q).held.filter (· ≠ h) else (w.proc q).held := by
  unfold removeHeld
  simp only [proc_modProc]
  by_cases hq : q = p
  · subst hq
    by_cases hs : q < w.procs.size
    · simp [hs]
    · have : w.proc q = {} := by
        unfold World.proc
        simp [Array.getD_eq_getD_getElem?, Array.getElem?_eq_none (Nat.le_of_not_lt hs)]
      simp [hs, this]
  · simp [hq]

@[simp] theorem removeHeld_fp (w : World) (p : Pid) (h : HoldRef) : Fp mHeld w (removeHeld w p h).1 :=
  ⟨fun _ => rfl, fun _ => rfl, fun _ => rfl, fun _ => rfl, fun _ => rfl, rfl, id, by simp [removeHeld],
    fun h => absurd h (by decide), fun _ q => by unfold removeHeld; exact modProc_blocked _ _ _ _ (fun _ => rfl),
    fun _ q => by unfold removeHeld; exact modProc_prio _ _ _ _ (fun _ => rfl)⟩

@[simp] theorem recordRes_fp (w : World) (r : Nat) : Fp mRes w (recordRes w r) := by
  unfold recordRes
  split
  · split
    · simp [Fp, World.now, World.proc]
    · exact Fp.refl _ _
  · exact Fp.refl _ _

@[simp] theorem recordPool_fp (w : World) (r : Nat) : Fp mPools w (recordPool w r) := by
  unfold recordPool
  split
  · split
    · simp [Fp, World.now, World.proc]
    · exact Fp.refl _ _
  · exact Fp.refl _ _

@[simp] theorem recordBuf_fp (w : World) (r : Nat) : Fp mBufs w (recordBuf w r) := by
  unfold recordBuf
  split
  · split
    · simp [Fp, World.now, World.proc]
    · exact Fp.refl _ _
  · exact Fp.refl _ _

@[simp] theorem recordOQ_fp (w : World) (r : Nat) : Fp mOqs w (recordOQ w r) := by
  unfold recordOQ
  split
  · split
    · simp [Fp, World.now, World.proc]
    · exact Fp.refl _ _
  · exact Fp.refl _ _

@[simp] theorem recordPQ_fp (w : World) (r : Nat) : Fp mPqs w (recordPQ w r) := by
  unfold recordPQ
  split
  · split
    · simp [Fp, World.now, World.proc]
    · exact Fp.refl _ _
  · exact Fp.refl _ _

end CimbaModel.Sim



namespace CimbaModel.Sim
open CimbaModel CimbaModel.Event CimbaModel.Generated
open CimbaModel.HashHeap (HTag Item Order HH)

@[simp] theorem proc_mk (ev evw) (w : World) (g r pl b o k c fl gv lg ft d) (p : Pid) :
    World.proc ⟨ev, evw, w.procs, g, r, pl, b, o, k, c, fl, gv, lg, ft, d⟩ p = w.proc p := by
  unfold World.proc; exact rfl
@[simp] theorem now_mk (evw pr) (w : World) (g r pl b o k c fl gv lg ft d) :
    World.now ⟨w.ev, evw, pr, g, r, pl, b, o, k, c, fl, gv, lg, ft, d⟩ = w.now := by
  unfold World.now; exact rfl

/-- footprint of a composite function from the footprints of its parts: split every branch, rewrite with the
    `simp` footprint lemmas (the `TimeOk` chain needs a deeper side-condition search than the default) -/
macro "fp_auto" : tactic => `(tactic|
  (refine ⟨?_, ?_, ?_, ?_, ?_, ?_, ?_, ?_, ?_, ?_, ?_⟩ <;> intros <;> (try dsimp only) <;> (repeat' split) <;>
    simp (config := { maxDischargeDepth := 12 }) [*] at *))

@[simp] theorem modProc_fp (w : World) (p : Pid) (f : Proc → Proc) : Fp mHeldB w (w.modProc p f) := by
  simp [Fp, World.now, World.modProc]

/-- a process update that may change `held` but not `blocked` -/
@[simp] theorem modProc_fp_held (w : World) (p : Pid) (f : Proc → Proc) (hb : ∀ x, (f x).blocked = x.blocked)
    (hp : ∀ x, (f x).prio = x.prio) : Fp mHeld w (w.modProc p f) := by
  refine ⟨fun _ => rfl, fun _ => rfl, fun _ => rfl, fun _ => rfl, fun _ => rfl, rfl, id, by simp, fun h => absurd h (by decide),
    fun _ q => modProc_blocked w p q f hb, fun _ q => modProc_prio w p q f hp⟩

/-- a process update that may change `prio` only -/
theorem modProc_fp_prio (w : World) (p : Pid) (f : Proc → Proc) (hf : ∀ x, (f x).held = x.held)
    (hb : ∀ x, (f x).blocked = x.blocked) : Fp mPrio w (w.modProc p f) :=
  ⟨fun _ => rfl, fun _ => rfl, fun _ => rfl, fun _ => rfl, fun _ => rfl, rfl, id, by simp,
    fun _ q => modProc_held w p q f hf, fun _ q => modProc_blocked w p q f hb, fun h => absurd h (by decide)⟩

/-- a process update that may change `blocked` but not `held` -/
theorem modProc_fp_blocked (w : World) (p : Pid) (f : Proc → Proc) (hf : ∀ x, (f x).held = x.held)
    (hp : ∀ x, (f x).prio = x.prio) : Fp mBlocked w (w.modProc p f) :=
  ⟨fun _ => rfl, fun _ => rfl, fun _ => rfl, fun _ => rfl, fun _ => rfl, rfl, id, by simp,
    fun _ q => modProc_held w p q f hf, fun h => absurd h (by decide), fun _ q => modProc_prio w p q f hp⟩

/-- `block`: only the `blocked` field of the caller changes -/
@[simp] theorem block_fp (w : World) (p : Pid) (f : Frame) : Fp mBlocked w (block w p f).1 := by
  unfold block
  refine ⟨fun _ => rfl, fun _ => rfl, fun _ => rfl, fun _ => rfl, fun _ => rfl, rfl, id, by simp,
    fun _ q => modProc_held w p q _ (fun _ => rfl), fun h => absurd h (by decide), fun _ q => modProc_prio w p q _ (fun _ => rfl)⟩

@[simp] theorem grab_fp (w : World) (r : Nat) (p : Pid) : Fp mResHeld w (grab w r p) := by
  unfold grab; fp_auto

@[simp] theorem setPoolInUse_fp (w : World) (pl v : Nat) : Fp mPools w (setPoolInUse w pl v) := by
  unfold setPoolInUse; fp_auto

@[simp] theorem setHeldAmount_fp (w : World) (pl : Nat) (p : Pid) (a : Nat) : Fp mPools w (setHeldAmount w pl p a) := by
  unfold setHeldAmount; fp_auto

@[simp] theorem poolUpdateRecord_fp (w : World) (pl : Nat) (p : Pid) (a : Nat) :
    Fp mPoolsHeld w (poolUpdateRecord w pl p a) := by
  unfold poolUpdateRecord; fp_auto

@[simp] theorem poolDropHolder_fp (w : World) (pl : Nat) (p : Pid) : Fp mPools w (poolDropHolder w pl p) := by
  unfold poolDropHolder; fp_auto

@[simp] theorem dropResources_fp (w : World) (p : Pid) : Fp mEndNB w (dropResources w p) := by
  unfold dropResources
  dsimp only
  refine Fp.trans (Fp.mono (by decide) (modProc_fp_held w p _ ?_ ?_)) (foldl_fp _ _ ?_ _ _)
  · intro _; rfl
  · intro _; rfl
  intro w h
  cases h with
  | res r => fp_auto
  | pool pl => exact Fp.mono (by decide) (poolDropHolder_fp _ _ _)

@[simp] theorem finishProc_fp (w : World) (p : Pid) (v : Int) (st : Bool) : Fp mEnd w (finishProc w p v st) := by
  unfold finishProc; fp_auto

@[simp] theorem poolMug_fp (fuel : Nat) (w : World) (p : Pid) (pl rem : Nat) :
    Fp mPoolsHeld w (poolMug fuel w p pl rem).1 := by
  induction fuel generalizing w rem with
  | zero => exact Fp.refl _ _
  | succ n ih => unfold poolMug; fp_auto

@[simp] theorem poolLoop_fp (w : World) (p : Pid) (pl rem ini : Nat) (pre : Bool) :
    Fp mPoolsHeldB w (poolLoop w p pl rem ini pre).1 := by
  unfold poolLoop; fp_auto

@[simp] theorem poolRollback_fp (w : World) (p : Pid) (pl ini : Nat) : Fp mPoolsHeld w (poolRollback w p pl ini) := by
  unfold poolRollback; fp_auto

@[simp] theorem bufGetLoop_fp (w : World) (p : Pid) (b rem got : Nat) : Fp mBufsB w (bufGetLoop w p b rem got).1 := by
  unfold bufGetLoop; fp_auto

@[simp] theorem bufPutLoop_fp (w : World) (p : Pid) (b rem left : Nat) : Fp mBufsB w (bufPutLoop w p b rem left).1 := by
  unfold bufPutLoop; fp_auto

@[simp] theorem oqGetLoop_fp (w : World) (p : Pid) (q : Nat) : Fp mOqsB w (oqGetLoop w p q).1 := by
  unfold oqGetLoop; fp_auto

@[simp] theorem oqPutLoop_fp (w : World) (p : Pid) (q obj : Nat) : Fp mOqsB w (oqPutLoop w p q obj).1 := by
  unfold oqPutLoop; fp_auto

@[simp] theorem pqGetLoop_fp (w : World) (p : Pid) (k : Nat) : Fp mPqsB w (pqGetLoop w p k).1 := by
  unfold pqGetLoop; fp_auto

@[simp] theorem pqPutLoop_fp (w : World) (p : Pid) (k obj : Nat) (pri : Int) (v : Nat) :
    Fp mPqsB w (pqPutLoop w p k obj pri v).1 := by
  unfold pqPutLoop; fp_auto

@[simp] theorem acquireStep_fp (w : World) (p : Pid) (r : Nat) : Fp mResHeldB w (acquireStep w p r).1 := by
  unfold acquireStep; fp_auto

/-- what `rec_start` / `rec_stop` on an object of kind `k` may touch -/
def recMask (kind : Nat) : Mask :=
  match kind with
  | 0 => mRes | 1 => mPools | 2 => mBufs | 3 => mOqs | _ => mPqs

theorem setRecording_fp (w : World) (kind idx : Nat) (on : Bool) : Fp (recMask kind) w (setRecording w kind idx on) := by
  unfold setRecording recMask
  fp_auto

end CimbaModel.Sim
