/-
  S3 — `GInv`, part 7: the blocking calls, commands, resumptions.
-/
import CimbaModel.Sim.S3GInvLeave
import CimbaModel.Sim.S3Keep

namespace CimbaModel.Sim.S3
open CimbaModel CimbaModel.Sim CimbaModel.Event CimbaModel.Generated CimbaModel.KPQ
open CimbaModel.HashHeap (HTag Item Order HH WF abs liveTags)

/-- static separation: only `cond_wait` waits on the guard of a condition -/
def CondSep (w : World) : Prop :=
  ∀ (c g : Nat) (f : Frame), w.conds[c]? = some g → FrameOn w f g → ∃ c', f = .condWait c'

theorem CondSep.ofStat {w w' : World} (h : CondSep w) (hs : Stat w w') : CondSep w' := by
  intro c g f hc hon
  exact h c g f (by rw [← hs.conds]; exact hc) ((frameOn_of_stat hs f g).1 hon)

variable {fr : Pid → Option Frame}

/-- `enterBlock` for a world `W` reached from `w0` without changing static data -/
theorem GInv.enterBlock_of {ex : Pid → Prop} {w0 W : World} (hW : GInv ex fr W) (hs : Stat w0 W) {p : Pid} {g : Nat} {d : Demand}
    {f : Frame} (hx : ¬ ex p) (hfr : fr p = none) (hlt : p < w0.procs.size) (hon : FrameOn w0 f g) (hsep : CondSep w0) :
    GInv ex (setFrame fr p (some f)) (block (guardWaitEnter W g p d) p f).1 :=
  hW.enterBlock g d f hx hfr (by rw [hs.psize]; exact hlt) ((frameOn_of_stat hs f g).2 hon)
    (fun c hc => (hsep.ofStat hs) c g f hc ((frameOn_of_stat hs f g).2 hon))

macro_rules | `(tactic| ginv_step) => `(tactic| with_reducible apply GInv.poolMug_fst)

/-- succeeds iff the goal is `∃ fr', P fr' (block …).1` -/
elab "guard_block_goal" : tactic => do
  let g ← Lean.Elab.Tactic.getMainGoal
  let t := (← Lean.instantiateMVars (← g.getType)).cleanupAnnotations
  let ok : Bool := match t.getAppArgs with
    | #[_, .lam _ _ body _] =>
      let body := body.cleanupAnnotations
      body.isApp && body.appArg!.cleanupAnnotations.isAppOf ``Prod.fst &&
        (body.appArg!.cleanupAnnotations.appArg!.cleanupAnnotations.isAppOf ``Sim.block)
    | _ => false
  unless ok do throwError "not a blocking leaf"

/-- a leaf that does not block -/
macro "ginv_leaf" : tactic => `(tactic| (refine Exists.intro ?_ ?_; rotate_left; focus ginv))

/-- a leaf `block (guardWaitEnter W g p d) p f` -/
macro "ginv_block" hfr:ident hlt:ident hsep:ident : tactic =>
  `(tactic| exact ⟨_, GInv.enterBlock_of (by ginv) (by stat) (noEx_not _) $hfr $hlt
      (by simp [FrameOn, resStat, poolStat, bufStat, oqStat, pqStat, *]) $hsep⟩)

variable {w : World} {p : Pid}

theorem GInv.acquireStep_ex (hp : GInv noEx fr w) (hfr : fr p = none) (hlt : p < w.procs.size) (hsep : CondSep w) (r : Nat) :
    ∃ fr', GInv noEx fr' (acquireStep w p r).1 := by
  have hst := Stat.refl w
  simp only [Sim.acquireStep]
  split
  · ginv_leaf
  · split
    · ginv_leaf
    · ginv_block hfr hlt hsep


/-- close `∃ fr', GInv noEx fr' (expr)` for the body of a blocking call -/
macro "ginv_ex" hfr:ident hlt:ident hsep:ident : tactic =>
  `(tactic| ((repeat' split) <;> first | (guard_block_goal; ginv_block $hfr $hlt $hsep) | ginv_leaf))

theorem GInv.poolLoop_ex (hp : GInv noEx fr w) (hfr : fr p = none) (hlt : p < w.procs.size) (hsep : CondSep w)
    (pl rem ini : Nat) (pre : Bool) : ∃ fr', GInv noEx fr' (poolLoop w p pl rem ini pre).1 := by
  have hst := Stat.refl w
  simp only [Sim.poolLoop]; ginv_ex hfr hlt hsep

theorem GInv.bufGetLoop_ex (hp : GInv noEx fr w) (hfr : fr p = none) (hlt : p < w.procs.size) (hsep : CondSep w)
    (b rem got : Nat) : ∃ fr', GInv noEx fr' (bufGetLoop w p b rem got).1 := by
  have hst := Stat.refl w
  simp only [Sim.bufGetLoop]; ginv_ex hfr hlt hsep

theorem GInv.bufPutLoop_ex (hp : GInv noEx fr w) (hfr : fr p = none) (hlt : p < w.procs.size) (hsep : CondSep w)
    (b rem left : Nat) : ∃ fr', GInv noEx fr' (bufPutLoop w p b rem left).1 := by
  have hst := Stat.refl w
  simp only [Sim.bufPutLoop]; ginv_ex hfr hlt hsep

theorem GInv.oqGetLoop_ex (hp : GInv noEx fr w) (hfr : fr p = none) (hlt : p < w.procs.size) (hsep : CondSep w) (q : Nat) :
    ∃ fr', GInv noEx fr' (oqGetLoop w p q).1 := by
  have hst := Stat.refl w
  simp only [Sim.oqGetLoop]; ginv_ex hfr hlt hsep
theorem GInv.oqPutLoop_ex (hp : GInv noEx fr w) (hfr : fr p = none) (hlt : p < w.procs.size) (hsep : CondSep w) (q obj : Nat) :
    ∃ fr', GInv noEx fr' (oqPutLoop w p q obj).1 := by
  have hst := Stat.refl w
  simp only [Sim.oqPutLoop]; ginv_ex hfr hlt hsep
theorem GInv.pqGetLoop_ex (hp : GInv noEx fr w) (hfr : fr p = none) (hlt : p < w.procs.size) (hsep : CondSep w) (k : Nat) :
    ∃ fr', GInv noEx fr' (pqGetLoop w p k).1 := by
  have hst := Stat.refl w
  simp only [Sim.pqGetLoop]; ginv_ex hfr hlt hsep
theorem GInv.pqPutLoop_ex (hp : GInv noEx fr w) (hfr : fr p = none) (hlt : p < w.procs.size) (hsep : CondSep w)
    (k obj : Nat) (pri : Int) (v : Nat) : ∃ fr', GInv noEx fr' (pqPutLoop w p k obj pri v).1 := by
  have hst := Stat.refl w
  simp only [Sim.pqPutLoop]; ginv_ex hfr hlt hsep

end CimbaModel.Sim.S3
