/-
  S3 — the grant invariant, part 4: `KInv` (handles cancelled by value never name a grant) is preserved by `dispatch`.
-/
import CimbaModel.Sim.S3GrantK
import CimbaModel.Sim.S3Hold

namespace CimbaModel.Sim.S3
open CimbaModel CimbaModel.Sim CimbaModel.Event CimbaModel.Generated CimbaModel.KPQ
open CimbaModel.HashHeap (HTag Item Order HH WF abs liveTags)

variable {S : Nat → Prop}

/-- the handle a library `sched` of a non-grant returns is not the handle of a grant -/
theorem sched_ngc {w : World} (hi : EvInv w.ev) (a s : Nat) (sig t pri : Int) (ha : a ≠ aRes) :
    NGc (sched w a s sig t pri).1 (sched w a s sig t pri).2 := by
  rcases sched_cases w a s sig t pri with ⟨ht, he⟩ | ⟨hlt, m, he⟩
  · have h2 : (sched w a s sig t pri).2 = w.ev.counter + 1 := by
      unfold sched schedule
      have : ¬ t < w.ev.now := by unfold World.now at ht; omega
      simp [this]
    rw [h2, he]
    refine ⟨by simp, ?_⟩
    intro e he' hk hg
    simp only [pushEv_pending, List.mem_cons] at he'
    rcases he' with rfl | he'
    · exact ha hg.1
    · have := S3.EvInv.key_le hi he'
      omega
  · have h2 : (sched w a s sig t pri).2 = 0 := by
      unfold sched schedule
      have : t < w.ev.now := by unfold World.now at hlt; omega
      simp [this]
    rw [h2, he]
    exact NGc.zero (by simpa using hi)

theorem timerAdd_ngc {w : World} (hi : EvInv w.ev) (p : Pid) (d sig : Int) :
    NGc (timerAdd w p d sig).1 (timerAdd w p d sig).2 := by
  have h := sched_ngc hi aTime (p + 1) sig (w.now + d) (w.proc p).prio (by decide)
  simp only [timerAdd]
  exact h.ofEvo ((Evo.refl _).addAwait p _)

theorem KRel.reprioGuard {w0 w : World} (h : KRel S w0 w) (q : Pid) (v : Int) (g : Nat) : KRel S w0 (reprioGuard w q v g) := by
  unfold S3.reprioGuard; krel

theorem KRel.prioAwaitStep {w0 w : World} (h : KRel S w0 w) (q : Pid) (v : Int) (a : Await) : KRel S w0 (prioAwaitStep q v w a) := by
  unfold S3.prioAwaitStep
  split
  · split
    · rename_i hr; exact h.reprioEv hr
    · exact h.fail _
  · exact h.reprioGuard q v _
  · exact h

theorem KRel.prioHeldStep {w0 w : World} (h : KRel S w0 w) (q : Pid) (v : Int) (x : HoldRef) : KRel S w0 (prioHeldStep q v w x) := by
  unfold S3.prioHeldStep; krel

/-- static typing of a command: `pqPut` does not write a variable that is read by `cancelUser` / `timerCancel` -/
def CmdK (S : Nat → Prop) : Cmd → Prop
  | .pqPut _ _ _ v => ¬ S v
  | _ => True

theorem KRel.execCmd_fst {w0 w : World} (h : KRel S w0 w) (hi : EvInv w.ev) (p : Pid) (c : Cmd) (hc : CmdK S c) :
    KRel S w0 (execCmd w p c).1 := by
  cases c with
  | prioSet q v =>
    by_cases hq : q < w.procs.size
    · rw [prioSet_eq w p q v hq]
      dsimp only
      refine KRel.foldl (fun w x => (KRel.refl w).prioHeldStep q v x) _ ?_
      refine KRel.foldl (fun w x => (KRel.refl w).prioAwaitStep q v x) _ ?_
      krel
    · have : q ≥ w.procs.size := Nat.le_of_not_lt hq
      simp only [execCmd, this, if_true]
      exact h
  | hold d =>
    simp only [execCmd]
    exact KRel.block_fst (h.timerAdd_fst p d sigSuccess) p _ (timerAdd_ngc hi p d sigSuccess)
  | timerAdd v d sig =>
    simp only [execCmd]
    exact KRel.setVar (h.timerAdd_fst p d sig) p v _ (fun _ => timerAdd_ngc hi p d sig)
  | timerSet v d sig =>
    simp only [execCmd]
    have hi' : EvInv (Sim.timersClear w p).ev := ((Evo.refl w).timersClear p).evinv hi
    exact KRel.setVar ((h.timersClear p).timerAdd_fst p d sig) p v _ (fun _ => timerAdd_ngc hi' p d sig)
  | schedUser v d pri =>
    simp only [execCmd]
    exact KRel.setVar (h.sched_fst _ _ _ _ _) p v _ (fun _ => sched_ngc hi aUser 0 0 (w.now + d) pri (by decide))
  | pqPut k obj pri v =>
    have hv : ¬ S v := hc
    simp only [execCmd]; krel
  | _ => simp only [execCmd] <;> krel

theorem KRel.resumeFrame_fst {w0 w : World} (h : KRel S w0 w) (p : Pid) (f : Frame) (sig : Int)
    (hf : ∀ k o pri v, f = .pqPut k o pri v → ¬ S v) : KRel S w0 (resumeFrame w p f sig).1 := by
  cases f with
  | pqPut k o pri v =>
    have hv : ¬ S v := hf k o pri v rfl
    simp only [resumeFrame]; krel
  | _ => simp only [resumeFrame] <;> krel

/-- the programs respect the typing -/
def KOk (S : Nat → Prop) (w : World) : Prop := ∀ (p : Pid) (i : Nat) (c : Cmd) (t : String), (w.proc p).script[i]? = some (c, t) → CmdK S c

theorem KOk.ofStat {w w' : World} (h : KOk S w) (hs : Stat w w') : KOk S w' := by
  intro p i c t hc; rw [hs.script] at hc; exact h p i c t hc

theorem KRel.runScript : ∀ (fuel : Nat) {w0 w : World}, KRel S w0 w → EvInv w.ev → KOk S w → ∀ p, KRel S w0 (runScript fuel w p) := by
  intro fuel
  induction fuel with
  | zero => intro w0 w h _ _ p; exact h.fail _
  | succ fuel ih =>
    intro w0 w h hi hok p
    simp only [Sim.runScript]
    split
    · krel
    · rename_i c text hs
      have hc : CmdK S c := hok p _ c text hs
      have hx : KRel S w0 (execCmd (w.emit s!"c {p} {(w.proc p).pc} {w.now} {text}") p c).1 :=
        KRel.execCmd_fst (h.emit _) hi p c hc
      have he : Evo w (execCmd (w.emit s!"c {p} {(w.proc p).pc} {w.now} {text}") p c).1 := by
        have h0 := Evo.refl w; evo
      have hst : Stat w (execCmd (w.emit s!"c {p} {(w.proc p).pc} {w.now} {text}") p c).1 := by
        have h0 := Stat.refl w; stat
      split
      · rename_i w1 v extra heq
        rw [heq] at hx he hst
        refine ih ?_ ?_ ?_ p
        · krel
        · exact he.evinv hi
        · refine hok.ofStat ?_; stat
      · rename_i w1 heq
        rw [heq] at hx he hst
        refine ih ?_ ?_ ?_ p
        · krel
        · exact he.evinv hi
        · refine hok.ofStat ?_; stat
      · rename_i w1 heq
        rw [heq] at hx
        exact hx
      · rename_i w1 heq
        rw [heq] at hx
        split <;> krel

/-- the invariant: every recorded frame is fine, every handle variable in `S` holds a harmless handle -/
structure KInv (S : Nat → Prop) (w : World) : Prop where
  fo : ∀ p f, (w.proc p).blocked = some f → FrameOk S w f
  cv : ∀ v, S v → ∀ p, NGc w (getVar w p v)

theorem KInv.ofKRel {w w' : World} (hk : KInv S w) (h : KRel S w w') : KInv S w' := by
  refine ⟨?_, ?_⟩
  · intro p f hb
    rcases h.fo p f hb with h1 | h1
    · exact (hk.fo p f h1).ofEvo h.evo
    · exact h1
  · intro v hv p
    rcases h.cv v hv p with h1 | h1
    · rw [h1]; exact (hk.cv v hv p).ofEvo h.evo
    · exact h1

theorem KRel.resumeProc {w0 w : World} (h : KRel S w0 w) (hk : KInv S w) (hi : EvInv w.ev) (hok : KOk S w) (p : Pid) (sig : Int) :
    KRel S w0 (resumeProc w p sig) := by
  simp only [Sim.resumeProc]
  split
  · exact h.fail _
  · split
    · exact h.fail _
    · rename_i f hb
      have hf : ∀ k o pri v, f = .pqPut k o pri v → ¬ S v := by
        intro k o pri v hfe
        have := hk.fo p f hb
        rw [hfe] at this; exact this
      have hx : KRel S w0 (resumeFrame (w.modProc p fun y => { y with blocked := none }) p f sig).1 :=
        KRel.resumeFrame_fst (by krel) p f sig hf
      have he : Evo w (resumeFrame (w.modProc p fun y => { y with blocked := none }) p f sig).1 := by
        have h0 := Evo.refl w; evo
      have hst : Stat w (resumeFrame (w.modProc p fun y => { y with blocked := none }) p f sig).1 := by
        have h0 := Stat.refl w; stat
      split
      · rename_i w1 v extra heq
        rw [heq] at hx he hst
        refine KRel.runScript _ ?_ ?_ ?_ p
        · krel
        · exact he.evinv hi
        · refine hok.ofStat ?_; stat
      · rename_i w1 heq; rw [heq] at hx; exact hx
      · rename_i w1 heq; rw [heq] at hx; exact hx
      · rename_i w1 heq; rw [heq] at hx; exact hx

theorem KInv.dispatch {w w' : World} (hk : KInv S w) (hi : EvInv w.ev) (hok : KOk S w) (hd : dispatch w = some w') : KInv S w' := by
  rw [dispatch_eq] at hd
  split at hd
  · cases hd
  · rename_i t ev' hn
    simp only [Option.some.injEq] at hd
    subst hd
    obtain ⟨hi', _, _, _, _, _, _, hpend⟩ := executeNext_inv hi hn
    have hctr : ev'.counter = w.ev.counter := by
      unfold executeNext at hn
      split at hn
      · cases hn
      · simp only [Option.some.injEq, Prod.mk.injEq] at hn
        rw [← hn.2]
    -- the dispatched event is gone: nothing changes for `NGc`
    have hng : ∀ h, NGc w h → NGc (afterNext w ev') h := by
      intro h hn'
      refine ⟨by show h ≤ ev'.counter; rw [hctr]; exact hn'.1, ?_⟩
      intro e he hke
      have : e ∈ remove w.ev.pending t.key := by rw [← hpend]; exact he
      exact hn'.2 e (mem_remove.1 this).1 hke
    have hkA : KInv S (afterNext w ev') := by
      refine ⟨?_, fun v hv p => hng _ (hk.cv v hv p)⟩
      intro p f hb
      have := hk.fo p f hb
      cases f <;> first | exact this | exact hng _ this
    have hiA : EvInv (afterNext w ev').ev := hi'
    have hokA : KOk S (afterNext w ev') := hok
    have hT : KRel S (afterNext w ev') (S3.takeNext w t ev') := by
      unfold S3.takeNext
      have h := KRel.refl (S := S) (afterNext w ev')
      krel
    have hkT := hkA.ofKRel hT
    have hiT : EvInv (S3.takeNext w t ev').ev := hT.evo.evinv hiA
    have hokT : KOk S (S3.takeNext w t ev') := hok.ofStat (Stat.takeNext w t ev')
    generalize S3.takeNext w t ev' = wT at hkT hiT hokT
    refine hkT.ofKRel ?_
    have h := KRel.refl (S := S) wT
    -- each branch resumes / starts a process in a state that still satisfies the invariant
    have hres : ∀ {W : World}, KRel S wT W → Stat wT W → ∀ p sig, KRel S wT (Sim.resumeProc W p sig) := by
      intro W hW hs p sig
      exact hW.resumeProc (hkT.ofKRel hW) (hW.evo.evinv hiT) (hokT.ofStat hs) p sig
    simp only [S3.dispatchBody]
    split
    · split
      · exact h.fail _
      · refine KRel.runScript _ ?_ ?_ ?_ _
        · krel
        · exact hiT
        · refine hokT.ofStat ?_; have h0 := Stat.refl wT; stat
    · split
      · exact hres (by krel) (by have h0 := Stat.refl wT; stat) _ _
      · split
        · split
          · exact hres (by krel) (by have h0 := Stat.refl wT; stat) _ _
          · krel
        · split
          · split
            · exact hres (by krel) (by have h0 := Stat.refl wT; stat) _ _
            · krel
          · split
            · split
              · exact hres h (Stat.refl wT) _ _
              · exact h
            · split
              · split
                · exact hres (by krel) (by have h0 := Stat.refl wT; stat) _ _
                · krel
              · split
                · exact hres (by krel) (by have h0 := Stat.refl wT; stat) _ _
                · split
                  · exact hres h (Stat.refl wT) _ _
                  · exact h

end CimbaModel.Sim.S3
