/-
  S2 — recorded histories (C14): histories only grow, by samples taken at the current time.
  `GrowArr R now a a'`: every object of `a` is still there in `a'` (same index) and its history in `a'` is its history in
  `a` followed by samples whose time is `now`.  Inside one dispatched event (after the clock tick) `now` is constant, so
  this relation composes over everything the event does.
-/
import CimbaModel.Sim.S2HistAll

namespace CimbaModel.Sim
open CimbaModel CimbaModel.Event CimbaModel.Generated

variable {α : Type} (R : RecOps α)

/-- `h'` is `h` followed by samples taken at time `now` -/
def Extends (now : Int) (h h' : Array (Int × Int)) : Prop :=
  ∃ ext : List (Int × Int), h'.toList = h.toList ++ ext ∧ ∀ s ∈ ext, s.2 = now

theorem Extends.refl (now : Int) (h : Array (Int × Int)) : Extends now h h := ⟨[], by simp, by simp⟩

theorem Extends.trans {now : Int} {a b c : Array (Int × Int)} (h1 : Extends now a b) (h2 : Extends now b c) :
    Extends now a c := by
  obtain ⟨e1, p1, q1⟩ := h1
  obtain ⟨e2, p2, q2⟩ := h2
  refine ⟨e1 ++ e2, by rw [p2, p1, List.append_assoc], ?_⟩
  intro s hs
  rcases List.mem_append.1 hs with h | h
  · exact q1 s h
  · exact q2 s h

theorem Extends.push (now : Int) (h : Array (Int × Int)) (v : Int) : Extends now h (h.push (v, now)) :=
  ⟨[(v, now)], by simp, by simp⟩

def GrowArr (now : Int) (a a' : Array α) : Prop :=
  ∀ (i : Nat) (x : α), a[i]? = some x → ∃ x', a'[i]? = some x' ∧ Extends now (R.hist x) (R.hist x')

theorem GrowArr.refl (now : Int) (a : Array α) : GrowArr R now a a :=
  fun _ x hx => ⟨x, hx, Extends.refl _ _⟩

theorem GrowArr.of_eq {now : Int} {a a' : Array α} (h : a' = a) : GrowArr R now a a' := by
  rw [h]; exact GrowArr.refl R now a

theorem GrowArr.trans {now : Int} {a b c : Array α} (h1 : GrowArr R now a b) (h2 : GrowArr R now b c) : GrowArr R now a c := by
  intro i x hx
  obtain ⟨y, hy, e1⟩ := h1 i x hx
  obtain ⟨z, hz, e2⟩ := h2 i y hy
  exact ⟨z, hz, e1.trans e2⟩

/-- overwrite object `i` by something with the same history -/
theorem GrowArr.set {now : Int} {a e : Array α} (h : GrowArr R now a e) {i : Nat} {x : α} (hx : e[i]? = some x) {y : α}
    (hh : R.hist y = R.hist x) : GrowArr R now a (e.setIfInBounds i y) := by
  intro j z hz
  obtain ⟨z', hz', ez⟩ := h j z hz
  by_cases hji : i = j
  · subst hji
    refine ⟨y, ?_, ?_⟩
    · rw [Array.getElem?_setIfInBounds, if_pos rfl, if_pos (Array.getElem?_eq_some_iff.1 hx).1]
    · rw [hx] at hz'; cases hz'; rw [hh]; exact ez
  · exact ⟨z', by rw [Array.getElem?_setIfInBounds, if_neg hji]; exact hz', ez⟩

theorem GrowArr.modify {now : Int} {a e : Array α} (h : GrowArr R now a e) (i : Nat) {f : α → α}
    (hh : ∀ x, R.hist (f x) = R.hist x) : GrowArr R now a (e.modify i f) := by
  intro j z hz
  obtain ⟨z', hz', ez⟩ := h j z hz
  by_cases hji : i = j
  · subst hji
    exact ⟨f z', by rw [Array.getElem?_modify, if_pos rfl, hz']; rfl, by rw [hh]; exact ez⟩
  · exact ⟨z', by rw [Array.getElem?_modify, if_neg hji]; exact hz', ez⟩

theorem GrowArr.genRecord {now : Int} {a e : Array α} (h : GrowArr R now a e) (i : Nat) :
    GrowArr R now a (genRecord R e i now) := by
  unfold Sim.genRecord
  cases hx : e[i]? with
  | none => exact h
  | some x =>
    dsimp only
    split
    · intro j z hz
      obtain ⟨z', hz', ez⟩ := h j z hz
      by_cases hji : i = j
      · subst hji
        rw [hx] at hz'; cases hz'
        refine ⟨R.push x (R.val x, now), ?_, ?_⟩
        · rw [Array.set!_eq_setIfInBounds, Array.getElem?_setIfInBounds, if_pos rfl, if_pos (Array.getElem?_eq_some_iff.1 hx).1]
        · rw [R.push_hist]; exact ez.trans (Extends.push _ _ _)
      · exact ⟨z', by rw [Array.set!_eq_setIfInBounds, Array.getElem?_setIfInBounds, if_neg hji]; exact hz', ez⟩
    · exact h

/-- close a goal `GrowArr R now a e` where `e` is built from `a` by updates that keep histories and by `record`s -/
macro "grow_close" : tactic => `(tactic| repeat (first
  | exact GrowArr.refl _ _ _
  | assumption
  | (apply GrowArr.genRecord)
  | (refine GrowArr.modify _ ?_ _ (fun _ => rfl))
  | (apply GrowArr.set <;> first | assumption | rfl | skip)))

end CimbaModel.Sim
