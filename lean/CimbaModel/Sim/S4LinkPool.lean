/-
  S4 — `PL` (holder lists ⇔ `.pool` holdings) through the primitives that touch holder lists: the holder record
  update (the enqueue cannot fail), mugging, the acquisition loop, amount reset, rollback, release, dropping everything
  at the end of a process, the holder re-sorting of `priority_set`.
-/
import CimbaModel.Sim.S4LinkBase

namespace CimbaModel.Sim.S4
open CimbaModel CimbaModel.Sim CimbaModel.Event CimbaModel.Generated CimbaModel.KPQ
open CimbaModel.HashHeap (HTag Item Order HH WF abs)

variable {w w' : World}

/-! ### `poolUpdateRecord` -/

theorem lc_poolUpdateRecord (h : PL w) (pl : Nat) (p : Pid) (n : Nat) (hp : p < w.procs.size) :
    LC (poolUpdateRecord w pl p n) := by
  unfold poolUpdateRecord
  split
  · exact h.lc
  · rename_i x hx
    have hph0 := ph_eq w pl x hx
    have hwf := h.pinv.wf pl x.holders hph0
    have hlt := lt_size_of_getElem? hx
    dsimp only
    by_cases hk : p + 1 ∈ hkeys x.holders
    · obtain ⟨i, hi, hkey⟩ := (HashHeap.mem_keys_abs x.holders (p + 1)).1 hk
      have hfi : HashHeap.findIndex x.holders (p + 1) = .ok i := by
        rw [← hkey]; exact HashHeap.findIndex_of_mem hwf hi
      have hc : x.holders.count ≠ 0 := by have := hi.1; have := hi.2; omega
      have hi0 : i ≠ 0 := by have := hi.1; omega
      simp only [hc, if_false, hfi]
      simp only [hi0, ne_eq, not_false_eq_true, decide_true, if_true]
      obtain ⟨_, hkeys'⟩ := wf_setItem hwf holder_ignores_item i hi.1 hi.2
        { (x.holders.tag i).item with b := (x.holders.tag i).item.b + n }
      refine h.lc.set_holders pl _ (fun pl' => ph_set w pl _ pl' hlt) (fun p' pl' _ hm => hm) ?_
      intro p' hm
      have hm' := h.lc.ph (w := w) hm hph0
      rw [← hkeys'] at hm'
      exact hm'
    · have hfi : HashHeap.findIndex x.holders (p + 1) = .ok 0 := HashHeap.findIndex_of_not_mem hwf hk
      simp only [hfi, ne_eq, not_true_eq_false, decide_false, ite_self, Bool.false_eq_true, if_false]
      have hk64 : p + 1 < 2 ^ 64 :=
        Nat.lt_trans (Nat.lt_of_le_of_lt (Nat.succ_le_of_lt hp) h.psz) (by decide)
      obtain ⟨h', hrun, _, _, _⟩ := HashHeap.enqueue_abs hwf ⟨p + 1, n, 0, 0⟩ (p + 1) 0
        ((w.modProc p fun y => { y with held := HoldRef.pool pl :: y.held }).proc p).prio
        (by simp) (by simpa using hk64) (by simpa [hkeys] using hk)
        (room_of_keys hwf (fun k hk' => h.key_le hph0 hk') h.psz)
      simp only [Nat.succ_ne_zero, if_false] at hrun
      obtain ⟨_, _, hkeys'⟩ := hh_enqueue_ok hwf (Nat.succ_ne_zero p) hk64 hk hrun
      simp only [hrun]
      refine h.lc.set_holders pl h'
        (fun pl' => ph_set (w.modProc p fun y => { y with held := HoldRef.pool pl :: y.held }) pl _ pl' hlt) ?_ ?_
      · intro q pl' hne hm
        exact held_cons_modProc_rev w p q (.pool pl) (.pool pl') (fun e => hne (by injection e)) hm
      · intro q hm
        rw [hkeys']
        by_cases e : q = p
        · left; rw [e]
        · right
          have hm' : HoldRef.pool pl ∈ ((w.modProc p fun y => { y with held := HoldRef.pool pl :: y.held }).proc q).held := hm
          rw [proc_modProc_ne _ _ _ _ e] at hm'
          exact h.lc.ph hm' hph0

theorem pl_poolUpdateRecord (h : PL w) (pl : Nat) (p : Pid) (n : Nat) (hp : p < w.procs.size) :
    PL (poolUpdateRecord w pl p n) :=
  ⟨pinv_poolUpdateRecord h.pinv pl p n hp, by simpa using h.psz, lc_poolUpdateRecord h pl p n hp⟩

/-! ### the mugging loop -/

theorem lc_mug_step (h : PL w) (pl : Nat) (x : Pool) (hx : w.pools[pl]? = some x)
    (hc : x.holders.count ≠ 0) (h' : HH) (t : HTag)
    (hdq : HashHeap.dequeue holder_queue_check x.holders = .ok (h', some t)) :
    LC (removeHeld { w with pools := w.pools.set! pl { x with holders := h' } } (t.key - 1) (.pool pl)).1 := by
  have hph0 := ph_eq w pl x hx
  have hwf := h.pinv.wf pl x.holders hph0
  have hlt := lt_size_of_getElem? hx
  obtain ⟨t', ht', _, _, htk, hkeys'⟩ := hh_dequeue_ok hwf hc hdq
  injection ht' with ht'; subst ht'
  have hpos := hkeys_pos hwf htk
  refine h.lc.set_holders pl h' ?_ ?_ ?_
  · intro pl'; rw [removeHeld_ph]; exact ph_set w pl _ pl' hlt
  · intro q pl' _ hm
    exact (removeHeld_mem_rev _ _ _ _ q hm).1
  · intro q hm
    obtain ⟨hm1, hm2⟩ := removeHeld_mem_rev _ _ _ _ q hm
    have hq : (q : Nat) ≠ t.key - 1 := by
      rcases hm2 with e | e
      · exact e
      · exact absurd rfl e
    rw [hkeys']
    refine ⟨h.lc.ph (w := w) hm1 hph0, ?_⟩
    intro e
    apply hq
    rw [← e]
    rfl

theorem pl_mug_step (h : PL w) (pl : Nat) (x : Pool) (hx : w.pools[pl]? = some x)
    (hc : x.holders.count ≠ 0) (h' : HH) (t : HTag)
    (hdq : HashHeap.dequeue holder_queue_check x.holders = .ok (h', some t)) :
    PL (removeHeld { w with pools := w.pools.set! pl { x with holders := h' } } (t.key - 1) (.pool pl)).1 :=
  ⟨pinv_mug_step h.pinv pl x hx hc h' t hdq, by simpa using h.psz, lc_mug_step h pl x hx hc h' t hdq⟩

theorem pl_poolMug : ∀ (fuel : Nat) {w : World}, PL w → ∀ (p : Pid), p < w.procs.size → ∀ pl rem,
    PL (poolMug fuel w p pl rem).1 := by
  intro fuel
  induction fuel with
  | zero => intro w h p _ pl rem; exact h
  | succ n ih =>
    intro w h p hp pl rem
    unfold poolMug
    split
    · exact h
    · rename_i x hx
      split
      · exact h
      · rename_i hc
        split
        · split
          · split
            · rename_i h' t hdq
              have h4 := PL.sched (pl_mug_step h pl x hx hc h' t hdq) aIntr (t.key - 1 + 1) sigPreempted
                (removeHeld { w with pools := w.pools.set! pl { x with holders := h' } } (t.key - 1) (.pool pl)).1.now
                ((removeHeld { w with pools := w.pools.set! pl { x with holders := h' } }
                  (t.key - 1) (.pool pl)).1.proc (t.key - 1)).prio
              dsimp only
              split
              · exact ih (pl_poolUpdateRecord h4 pl p _ (by simpa using hp)) p (by simpa using hp) pl _
              · exact PL.signal (PL.recordPool (PL.setPoolInUse
                  (pl_poolUpdateRecord h4 pl p rem (by simpa using hp)) _ _) _) _
            · exact h
            · exact h.fail _
          · exact h
        · exact h

/-! ### `poolLoop`, `setHeldAmount`, `poolRollback`, release -/

theorem pl_poolLoop (h : PL w) (p : Pid) (hp : p < w.procs.size) (pl rem initially : Nat)
    (preempt : Bool) : PL (poolLoop w p pl rem initially preempt).1 := by
  have hupd : ∀ (w : World) n, PL w → p < w.procs.size → PL (poolUpdateRecord w pl p n) :=
    fun w n h hp => pl_poolUpdateRecord h pl p n hp
  have hpre : ∀ (w : World) v, PL w → PL (recordPool (setPoolInUse w pl v) pl) :=
    fun w v h => PL.recordPool (PL.setPoolInUse h _ _) _
  unfold poolLoop
  split
  · exact h.fail _
  · rename_i x hx
    dsimp only
    split
    · exact PL.signal (hupd _ rem (hpre _ (x.inUse + rem) h) (by simpa using hp)) _
    · have h1 : PL (if x.cap - x.inUse > 0 then
          (poolUpdateRecord (recordPool (setPoolInUse w pl (x.inUse + (x.cap - x.inUse))) pl) pl p (x.cap - x.inUse),
            rem - (x.cap - x.inUse)) else (w, rem)).1 ∧
          p < (if x.cap - x.inUse > 0 then
          (poolUpdateRecord (recordPool (setPoolInUse w pl (x.inUse + (x.cap - x.inUse))) pl) pl p (x.cap - x.inUse),
            rem - (x.cap - x.inUse)) else (w, rem)).1.procs.size := by
        split
        · exact ⟨hupd _ _ (hpre _ _ h) (by simpa using hp), by simpa using hp⟩
        · exact ⟨h, hp⟩
      have h2 : PL (if preempt = true then
          poolMug (x.holders.count + 1) (if x.cap - x.inUse > 0 then
            (poolUpdateRecord (recordPool (setPoolInUse w pl (x.inUse + (x.cap - x.inUse))) pl) pl p (x.cap - x.inUse),
              rem - (x.cap - x.inUse)) else (w, rem)).1 p pl (if x.cap - x.inUse > 0 then
            (poolUpdateRecord (recordPool (setPoolInUse w pl (x.inUse + (x.cap - x.inUse))) pl) pl p (x.cap - x.inUse),
              rem - (x.cap - x.inUse)) else (w, rem)).2
          else ((if x.cap - x.inUse > 0 then
            (poolUpdateRecord (recordPool (setPoolInUse w pl (x.inUse + (x.cap - x.inUse))) pl) pl p (x.cap - x.inUse),
              rem - (x.cap - x.inUse)) else (w, rem)).1, some (if x.cap - x.inUse > 0 then
            (poolUpdateRecord (recordPool (setPoolInUse w pl (x.inUse + (x.cap - x.inUse))) pl) pl p (x.cap - x.inUse),
              rem - (x.cap - x.inUse)) else (w, rem)).2)).1 := by
        split
        · exact pl_poolMug _ h1.1 p h1.2 _ _
        · exact h1.1
      split
      · exact h2
      · exact PL.block (PL.guardWaitEnter h2 _ _ _) _ _

theorem lc_setHeldAmount (h : PL w) (pl : Nat) (p : Pid) (n : Nat) : LC (setHeldAmount w pl p n) := by
  unfold setHeldAmount
  split
  · rename_i x hx
    have hph0 := ph_eq w pl x hx
    have hwf := h.pinv.wf pl x.holders hph0
    have hlt := lt_size_of_getElem? hx
    split
    · rename_i i hfi
      split
      · exact (h.fail _).lc
      · rename_i hi0
        have hk := (hh_findIndex hwf (p + 1) hfi).1 hi0
        obtain ⟨j, hj, hkey⟩ := (HashHeap.mem_keys_abs x.holders (p + 1)).1 hk
        have hfj : HashHeap.findIndex x.holders (p + 1) = .ok j := by
          rw [← hkey]; exact HashHeap.findIndex_of_mem hwf hj
        rw [hfi] at hfj; injection hfj with hfj; subst hfj
        obtain ⟨_, hkeys'⟩ := wf_setItem hwf holder_ignores_item i hj.1 hj.2
          { (x.holders.tag i).item with b := n }
        dsimp only
        refine h.lc.set_holders pl _ (fun pl' => ph_set w pl _ pl' hlt) (fun p' pl' _ hm => hm) ?_
        intro p' hm
        have hm' := h.lc.ph (w := w) hm hph0
        rw [← hkeys'] at hm'
        exact hm'
    · exact (h.fail _).lc
  · exact h.lc

theorem pl_setHeldAmount (h : PL w) (pl : Nat) (p : Pid) (n : Nat) : PL (setHeldAmount w pl p n) :=
  ⟨pinv_setHeldAmount h.pinv pl p n, by simpa using h.psz, lc_setHeldAmount h pl p n⟩

/-- taking `p` off the holder list of pool `pl`, when afterwards `p` does not list the pool -/
theorem pl_remove_holder (h : PL w) (pl : Nat) (hh : HH) (hph0 : w.ph pl = some hh) (p : Pid)
    (h' : HH) (r : Bool) (hrm : HashHeap.remove holder_queue_check hh (p + 1) = .ok (h', r))
    (hph : ∀ pl', w'.ph pl' = if pl' = pl then some h' else w.ph pl')
    (hheld1 : ∀ q b, b ∈ (w.proc q).held → (q ≠ p ∨ b ≠ .pool pl) → b ∈ (w'.proc q).held)
    (hheld : ∀ q b, b ∈ (w'.proc q).held → b ∈ (w.proc q).held)
    (hp : HoldRef.pool pl ∉ (w'.proc p).held)
    (hsz : w'.procs.size = w.procs.size) : PL w' := by
  refine ⟨pinv_remove_holder h.pinv pl hh hph0 p h' r hrm hph hheld1 hsz, by rw [hsz]; exact h.psz, ?_⟩
  have hwf := h.pinv.wf pl hh hph0
  obtain ⟨_, hkeys', _⟩ := hh_remove_ok hwf (Nat.succ_ne_zero p) hrm
  refine h.lc.set_holders pl h' hph (fun q pl' _ hm => hheld q _ hm) ?_
  intro q hm
  rw [hkeys']
  refine ⟨h.lc.ph (hheld q _ hm) hph0, ?_⟩
  intro e
  have : q = p := Nat.succ.inj e
  subst this
  exact hp hm

theorem not_mem_removeHeld (W : World) (z : Pid) (a : HoldRef) : a ∉ ((removeHeld W z a).1.proc z).held := by
  intro hm
  rcases (removeHeld_mem_rev W z a a z hm).2 with e | e <;> exact e rfl

theorem pl_poolRollback (h : PL w) (p : Pid) (pl initially : Nat) : PL (poolRollback w p pl initially) := by
  unfold poolRollback
  split
  · exact h
  · rename_i x hx
    split
    · dsimp only
      split
      · exact PL.signal (PL.recordPool (PL.setPoolInUse (pl_setHeldAmount h _ _ _) _ _) _) _
      · exact h
    · dsimp only
      have h2 : PL (recordPool (setPoolInUse w pl (x.inUse - heldAmount w pl p)) pl) :=
        PL.recordPool (PL.setPoolInUse h _ _) _
      have hph2 : (recordPool (setPoolInUse w pl (x.inUse - heldAmount w pl p)) pl).ph pl = some x.holders := by
        rw [recordPool_ph, setPoolInUse_ph]; exact ph_eq w pl x hx
      split
      · rename_i h' found hrm
        apply PL.signal
        split
        · refine pl_remove_holder h2 pl x.holders hph2 p h' found hrm ?_ ?_ ?_ ?_ (by simp)
          · intro pl'; rw [removeHeld_ph]; exact ph_modify_set _ pl h' _ hph2 pl'
          · intro q b hm hne
            exact removeHeld_mem _ _ _ _ q hm hne
          · intro q b hm
            exact (removeHeld_mem_rev _ _ _ _ q hm).1
          · exact not_mem_removeHeld _ _ _
        · rename_i hnf
          refine pl_remove_holder h2 pl x.holders hph2 p h' found hrm ?_ ?_ ?_ ?_ rfl
          · intro pl'; exact ph_modify_set _ pl h' _ hph2 pl'
          · intro q b hm _; exact hm
          · intro q b hm; exact hm
          · intro hm
            have hwf := h2.pinv.wf pl x.holders hph2
            obtain ⟨_, _, hr⟩ := hh_remove_ok hwf (Nat.succ_ne_zero p) hrm
            have hk : p + 1 ∈ hkeys x.holders := h2.lc.ph hm hph2
            apply hnf
            rw [hr]; simpa using hk
      · exact h2.fail _

/-- the `pool_release` command -/
theorem pl_poolRelease (h : PL w) (p : Pid) (pl n : Nat) : PL (execCmd w p (.poolRelease pl n)).1 := by
  simp only [execCmd]
  split
  · exact h
  · rename_i x hx
    have hlt := lt_size_of_getElem? hx
    split
    · exact h
    · apply PL.signal
      apply PL.recordPool
      apply PL.setPoolInUse
      split
      · split
        · rename_i h' r hrm
          refine pl_remove_holder h pl x.holders (ph_eq w pl x hx) p h' r hrm ?_ ?_ ?_ ?_ (by simp)
          · intro pl'; rw [removeHeld_ph]; exact ph_set w pl _ pl' hlt
          · intro q b hm hne
            exact removeHeld_mem _ _ _ _ q hm hne
          · intro q b hm
            exact (removeHeld_mem_rev _ _ _ _ q hm).1
          · exact not_mem_removeHeld _ _ _
        · exact h.fail _
      · exact pl_setHeldAmount h _ _ _

end CimbaModel.Sim.S4
