/-
  S3 — the grant invariant, part 10: availability after an object record has been replaced; the generic
  "update, record, signal" step.
-/
import CimbaModel.Sim.S3GrantFinish

namespace CimbaModel.Sim.S3
open CimbaModel CimbaModel.Sim CimbaModel.Event CimbaModel.Generated CimbaModel.KPQ
open CimbaModel.HashHeap (HTag Item Order HH WF abs liveTags)

/-! ### pools -/

theorem need_pools_set {w : World} {r : Nat} {x : Pool} (hx : w.pools[r]? = some x) (y : Pool) (d : Demand) :
    need { w with pools := w.pools.set! r y } d = if d = .poolAvail r then poolNeed y else need w d := by
  rw [need_eq, need_eq]
  cases d <;> simp only [reduceCtorEq, if_false]
  rename_i r'
  rw [getD_map_set!]
  by_cases hr : r' = r
  · subst hr; simp [lt_of_getElem? hx]
  · simp [hr]

theorem need_pools_modify {w : World} {r : Nat} {x : Pool} (hx : w.pools[r]? = some x) (g : Pool → Pool) (d : Demand) :
    need { w with pools := w.pools.modify r g } d = if d = .poolAvail r then poolNeed (g x) else need w d := by
  rw [need_eq, need_eq]
  cases d <;> simp only [reduceCtorEq, if_false]
  rename_i r'
  rw [getD_map_modify]
  by_cases hr : r' = r
  · subst hr; simp [hx]
  · simp [hr]

theorem need_pools_of {w : World} {r : Nat} {x : Pool} (hx : w.pools[r]? = some x) : need w (.poolAvail r) = poolNeed x := by
  rw [need_eq]; simp [hx]

theorem gOf_pools_of {w : World} {r : Nat} {x : Pool} (hx : w.pools[r]? = some x) : gOf w (.poolAvail r) = some x.guard := by
  simp [gOf, hx, poolStat]

/-! ### buffers -/

theorem need_bufs_set {w : World} {r : Nat} {x : Buf} (hx : w.bufs[r]? = some x) (y : Buf) (d : Demand) :
    need { w with bufs := w.bufs.set! r y } d =
      if d = .bufContent r then (bufNeed y).1 else if d = .bufSpace r then (bufNeed y).2 else need w d := by
  rw [need_eq, need_eq]
  cases d <;> simp only [reduceCtorEq, if_false]
  · rename_i r'
    rw [getD_map_set!]
    by_cases hr : r' = r
    · subst hr; simp [lt_of_getElem? hx]
    · simp [hr]
  · rename_i r'
    rw [getD_map_set!]
    by_cases hr : r' = r
    · subst hr; simp [lt_of_getElem? hx]
    · simp [hr]

theorem need_bufs_of {w : World} {r : Nat} {x : Buf} (hx : w.bufs[r]? = some x) :
    need w (.bufContent r) = (bufNeed x).1 ∧ need w (.bufSpace r) = (bufNeed x).2 := by
  rw [need_eq, need_eq]; simp [hx]

theorem gOf_bufs_of {w : World} {r : Nat} {x : Buf} (hx : w.bufs[r]? = some x) :
    gOf w (.bufContent r) = some x.front ∧ gOf w (.bufSpace r) = some x.rear := by
  simp [gOf, hx, bufStat]

/-! ### object queues -/

theorem need_oqs_set {w : World} {r : Nat} {x : OQ} (hx : w.oqs[r]? = some x) (y : OQ) (d : Demand) :
    need { w with oqs := w.oqs.set! r y } d =
      if d = .oqContent r then (oqNeed y).1 else if d = .oqSpace r then (oqNeed y).2 else need w d := by
  rw [need_eq, need_eq]
  cases d <;> simp only [reduceCtorEq, if_false]
  · rename_i r'
    rw [getD_map_set!]
    by_cases hr : r' = r
    · subst hr; simp [lt_of_getElem? hx]
    · simp [hr]
  · rename_i r'
    rw [getD_map_set!]
    by_cases hr : r' = r
    · subst hr; simp [lt_of_getElem? hx]
    · simp [hr]

theorem need_oqs_of {w : World} {r : Nat} {x : OQ} (hx : w.oqs[r]? = some x) :
    need w (.oqContent r) = (oqNeed x).1 ∧ need w (.oqSpace r) = (oqNeed x).2 := by
  rw [need_eq, need_eq]; simp [hx]

theorem gOf_oqs_of {w : World} {r : Nat} {x : OQ} (hx : w.oqs[r]? = some x) :
    gOf w (.oqContent r) = some x.front ∧ gOf w (.oqSpace r) = some x.rear := by
  simp [gOf, hx, oqStat]

/-! ### priority queues -/

theorem need_pqs_set {w : World} {r : Nat} {x : PQ} (hx : w.pqs[r]? = some x) (y : PQ) (d : Demand) :
    need { w with pqs := w.pqs.set! r y } d =
      if d = .pqContent r then (pqNeed y).1 else if d = .pqSpace r then (pqNeed y).2 else need w d := by
  rw [need_eq, need_eq]
  cases d <;> simp only [reduceCtorEq, if_false]
  · rename_i r'
    rw [getD_map_set!]
    by_cases hr : r' = r
    · subst hr; simp [lt_of_getElem? hx]
    · simp [hr]
  · rename_i r'
    rw [getD_map_set!]
    by_cases hr : r' = r
    · subst hr; simp [lt_of_getElem? hx]
    · simp [hr]

theorem need_pqs_of {w : World} {r : Nat} {x : PQ} (hx : w.pqs[r]? = some x) :
    need w (.pqContent r) = (pqNeed x).1 ∧ need w (.pqSpace r) = (pqNeed x).2 := by
  rw [need_eq, need_eq]; simp [hx]

theorem gOf_pqs_of {w : World} {r : Nat} {x : PQ} (hx : w.pqs[r]? = some x) :
    gOf w (.pqContent r) = some x.front ∧ gOf w (.pqSpace r) = some x.rear := by
  simp [gOf, hx, pqStat]

/-! ### update, record, signal -/

variable {fr : Pid → Option Frame} {df : Demand → Nat} {w : World}

/-- an update of the objects that makes at most one more unit available, at the object end `d0` only, followed by a
    signal of that end's guard -/
theorem GS.obj_signal (h : GS fr df w) {W : World} (hW : GInv noEx fr W) (hev : W.ev = w.ev) (hgd : W.guards = w.guards)
    (hp : ∀ x, (W.proc x).awaits = (w.proc x).awaits) (hgo : ∀ d, gOf W d = gOf w d) (g : Nat) (d0 : Demand)
    (hg0 : gOf w d0 = some g) (hn : ∀ d, need W d ≤ need w d + (if d = d0 then 1 else 0)) : GS fr df (Sim.signal W g) := by
  have h1 : GS fr (fun d => df d + (if d = d0 then 1 else 0)) W :=
    h.bump hW hev hgd hp hgo (fun d => by have := hn d; omega)
  refine h1.signal g (fun d _ => by show df d + _ ≤ _; split <;> omega) ?_
  intro d hd
  show df d + _ ≤ _
  split
  · rename_i hdd; subst hdd; rw [hgo] at hd; exact absurd hg0 hd
  · omega

/-- the same when nothing becomes more available: the signal is harmless -/
theorem GS.obj_nosignal (h : GS fr df w) {W : World} (hW : GInv noEx fr W) (hev : W.ev = w.ev) (hgd : W.guards = w.guards)
    (hp : ∀ x, (W.proc x).awaits = (w.proc x).awaits) (hgo : ∀ d, gOf W d = gOf w d)
    (hn : ∀ d, need W d ≤ need w d) : GS fr df W :=
  h.bump hW hev hgd hp hgo (fun d => by have := hn d; omega)

/-! ### inert functions on the bundle, and the peeling tactic -/

theorem Inert.poolUpdateRecord {w0 w : World} (h : Inert w0 w) (pl : Nat) (p : Pid) (a : Nat) : Inert w0 (poolUpdateRecord w pl p a) := by
  unfold Sim.poolUpdateRecord; inert
theorem Inert.setHeldAmount {w0 w : World} (h : Inert w0 w) (pl : Nat) (p : Pid) (a : Nat) : Inert w0 (setHeldAmount w pl p a) := by
  unfold Sim.setHeldAmount; inert

theorem GS.fail (h : GS fr df w) (m : String) : GS fr df (w.fail m) := h.inert (h.ginv.fail m) ((Inert.refl w).fail m)
theorem GS.emit (h : GS fr df w) (l : String) : GS fr df (w.emit l) := h.inert (h.ginv.emit l) ((Inert.refl w).emit l)
theorem GS.recordRes (h : GS fr df w) (r : Nat) : GS fr df (recordRes w r) := h.inert (h.ginv.recordRes r) ((Inert.refl w).recordRes r)
theorem GS.recordPool (h : GS fr df w) (r : Nat) : GS fr df (recordPool w r) := h.inert (h.ginv.recordPool r) ((Inert.refl w).recordPool r)
theorem GS.recordBuf (h : GS fr df w) (r : Nat) : GS fr df (recordBuf w r) := h.inert (h.ginv.recordBuf r) ((Inert.refl w).recordBuf r)
theorem GS.recordOQ (h : GS fr df w) (r : Nat) : GS fr df (recordOQ w r) := h.inert (h.ginv.recordOQ r) ((Inert.refl w).recordOQ r)
theorem GS.recordPQ (h : GS fr df w) (r : Nat) : GS fr df (recordPQ w r) := h.inert (h.ginv.recordPQ r) ((Inert.refl w).recordPQ r)
theorem GS.removeHeld_fst (h : GS fr df w) (p : Pid) (x : HoldRef) : GS fr df (removeHeld w p x).1 :=
  h.inert (h.ginv.removeHeld_fst p x) ((Inert.refl w).removeHeld_fst p x)
theorem GS.poolUpdateRecord (h : GS fr df w) (pl : Nat) (p : Pid) (a : Nat) : GS fr df (poolUpdateRecord w pl p a) :=
  h.inert (h.ginv.poolUpdateRecord pl p a) ((Inert.refl w).poolUpdateRecord pl p a)
theorem GS.setHeldAmount (h : GS fr df w) (pl : Nat) (p : Pid) (a : Nat) : GS fr df (setHeldAmount w pl p a) :=
  h.inert (h.ginv.setHeldAmount pl p a) ((Inert.refl w).setHeldAmount pl p a)
theorem GS.setVar (h : GS fr df w) (p : Pid) (v x : Nat) : GS fr df (setVar w p v x) :=
  h.inert (h.ginv.setVar p v x) ((Inert.refl w).setVar p v x)
theorem GS.sched_harmless (h : GS fr df w) (a s : Nat) (sig t pri : Int) (ha : HarmlessNew a sig) :
    GS fr df (sched w a s sig t pri).1 :=
  h.inert (h.ginv.sched_harmless a s sig t pri ha) ((Inert.refl w).sched_fst a s sig t pri)

/-- an update of the objects only -/
theorem GS.objUpd {df' : Demand → Nat} (h : GS fr df w) {W : World} (hst : Stat w W) (hev : W.ev = w.ev)
    (hgd : W.guards = w.guards) (hp : W.procs = w.procs) (hn : ∀ d, need W d + df d ≤ need w d + df' d) : GS fr df' W :=
  h.bump (h.ginv.ofStat hst hp hgd hev) hev hgd (fun x => by unfold World.proc; rw [hp]) (gOf_of_stat hst) hn

theorem GS.setResSet (h : GS fr df w) (r : Nat) (y : Res)
    (hy : ∀ x, w.res[r]? = some x → (resStat y, resNeed y) = (resStat x, resNeed x)) : GS fr df { w with res := w.res.set! r y } :=
  h.inert (h.ginv.setResSet r y (fun x hx => congrArg Prod.fst (hy x hx))) ((Inert.refl w).setResSet r y hy)
theorem GS.setPoolsSet (h : GS fr df w) (r : Nat) (y : Pool)
    (hy : ∀ x, w.pools[r]? = some x → (poolStat y, poolNeed y) = (poolStat x, poolNeed x)) :
    GS fr df { w with pools := w.pools.set! r y } :=
  h.inert (h.ginv.setPoolsSet r y (fun x hx => congrArg Prod.fst (hy x hx))) ((Inert.refl w).setPoolsSet r y hy)
theorem GS.setBufsSet (h : GS fr df w) (r : Nat) (y : Buf)
    (hy : ∀ x, w.bufs[r]? = some x → (bufStat y, bufNeed y) = (bufStat x, bufNeed x)) : GS fr df { w with bufs := w.bufs.set! r y } :=
  h.inert (h.ginv.setBufsSet r y (fun x hx => congrArg Prod.fst (hy x hx))) ((Inert.refl w).setBufsSet r y hy)
theorem GS.setOqsSet (h : GS fr df w) (r : Nat) (y : OQ)
    (hy : ∀ x, w.oqs[r]? = some x → (oqStat y, oqNeed y) = (oqStat x, oqNeed x)) : GS fr df { w with oqs := w.oqs.set! r y } :=
  h.inert (h.ginv.setOqsSet r y (fun x hx => congrArg Prod.fst (hy x hx))) ((Inert.refl w).setOqsSet r y hy)
theorem GS.setPqsSet (h : GS fr df w) (r : Nat) (y : PQ)
    (hy : ∀ x, w.pqs[r]? = some x → (pqStat y, pqNeed y) = (pqStat x, pqNeed x)) : GS fr df { w with pqs := w.pqs.set! r y } :=
  h.inert (h.ginv.setPqsSet r y (fun x hx => congrArg Prod.fst (hy x hx))) ((Inert.refl w).setPqsSet r y hy)
theorem GS.modProcCtl (h : GS fr df w) (p : Pid) (f : Proc → Proc) (hf : ∀ x, (f x).awaits = x.awaits ∧ (f x).blocked = x.blocked) :
    GS fr df (w.modProc p f) :=
  h.inert (h.ginv.modProc_ctl p f hf) ((Inert.refl w).modProc p f (fun x => by rw [(hf x).1]))

syntax "gs_step" : tactic
macro_rules | `(tactic| gs_step) => `(tactic| dsimp only)
macro_rules | `(tactic| gs_step) => `(tactic| split)
macro_rules | `(tactic| gs_step) => `(tactic| (guard_world_lit'; with_reducible refine GS.setPqsSet ?_ _ _ (by obj_side)))
macro_rules | `(tactic| gs_step) => `(tactic| (guard_world_lit'; with_reducible refine GS.setOqsSet ?_ _ _ (by obj_side)))
macro_rules | `(tactic| gs_step) => `(tactic| (guard_world_lit'; with_reducible refine GS.setBufsSet ?_ _ _ (by obj_side)))
macro_rules | `(tactic| gs_step) => `(tactic| (guard_world_lit'; with_reducible refine GS.setPoolsSet ?_ _ _ (by obj_side)))
macro_rules | `(tactic| gs_step) => `(tactic| (guard_world_lit'; with_reducible refine GS.setResSet ?_ _ _ (by obj_side)))
macro_rules | `(tactic| gs_step) => `(tactic| (with_reducible refine GS.modProcCtl ?_ _ _ (fun _ => ⟨rfl, rfl⟩)))
macro_rules | `(tactic| gs_step) => `(tactic| with_reducible apply GS.signal_mono)
macro_rules | `(tactic| gs_step) => `(tactic| (with_reducible refine GS.sched_harmless ?_ _ _ _ _ _ (by decide)))
macro_rules | `(tactic| gs_step) => `(tactic| with_reducible apply GS.setVar)
macro_rules | `(tactic| gs_step) => `(tactic| with_reducible apply GS.setHeldAmount)
macro_rules | `(tactic| gs_step) => `(tactic| with_reducible apply GS.poolUpdateRecord)
macro_rules | `(tactic| gs_step) => `(tactic| with_reducible apply GS.removeHeld_fst)
macro_rules | `(tactic| gs_step) => `(tactic| with_reducible apply GS.recordPQ)
macro_rules | `(tactic| gs_step) => `(tactic| with_reducible apply GS.recordOQ)
macro_rules | `(tactic| gs_step) => `(tactic| with_reducible apply GS.recordBuf)
macro_rules | `(tactic| gs_step) => `(tactic| with_reducible apply GS.recordPool)
macro_rules | `(tactic| gs_step) => `(tactic| with_reducible apply GS.recordRes)
macro_rules | `(tactic| gs_step) => `(tactic| with_reducible apply GS.emit)
macro_rules | `(tactic| gs_step) => `(tactic| with_reducible apply GS.fail)
macro_rules | `(tactic| gs_step) => `(tactic| with_reducible assumption)
/-- peel the functions that leave the grant invariant alone -/
macro "gs" : tactic => `(tactic| repeat' gs_step)

end CimbaModel.Sim.S3
