/-
  S3 — the combined invariant of the process layer and what it says in plain terms.
-/
import CimbaModel.Sim.S3GInvDispatch

namespace CimbaModel.Sim.S3
open CimbaModel CimbaModel.Sim CimbaModel.Event CimbaModel.Generated CimbaModel.KPQ
open CimbaModel.HashHeap (HTag Item Order HH WF abs liveTags)

/-- everything that is proved to hold between any two dispatches -/
structure AllInv (w : World) : Prop where
  p : PInvB w
  t : TInvB w
  g : GInvB w
  nr : NRInv w
  side : SideOk w

theorem AllInv.dispatch {w w' : World} (h : AllInv w) (hd : dispatch w = some w') : AllInv w' :=
  ⟨h.p.dispatch hd, h.t.dispatch hd, h.g.dispatch h.p h.nr h.side hd, h.nr.dispatch hd, h.side.ofStat (Stat.dispatch hd)⟩

theorem AllInv.reach {w w' : World} (hr : Reach w w') (h : AllInv w) : AllInv w' := by
  induction hr with
  | refl => exact h
  | step _ hd ih => exact ih.dispatch hd

theorem AllInv.emit {w : World} (h : AllInv w) (l : String) : AllInv (w.emit l) :=
  ⟨(PInv.emit h.p l).toB, TInv.emit h.t l, (GInv.emit h.g l).toB, h.nr.ofPF ((PF.refl w).emit l),
   h.side.ofStat ((Stat.refl w).emit l)⟩

theorem AllInv.runAll (fuel : Nat) (w : World) (h : AllInv w) : AllInv (runAll fuel w) :=
  runAll_inv (I := AllInv) (fun _ l h => h.emit l) (fun _ _ h _ hd => h.dispatch hd) fuel w h

/-- a state before anything has happened: nothing registered, nobody suspended, all waiting lists empty and well-formed,
    fewer than 2³¹ processes, and nothing pending that looks like a library wake-up (start events, user events and
    non-SUCCESS interrupts etc. may be pending) -/
structure InitOkG (w : World) : Prop where
  base : InitOk w
  gw : AllGWF w
  gsz : w.procs.size < 2 ^ 31
  nq : ∀ g k, ¬ queued w g k
  bl : ∀ p, (w.proc p).blocked = none
  hm : ∀ e ∈ w.ev.pending, Harmless e

theorem InitOkG.ginv {w : World} (h : InitOkG w) : GInvB w where
  ei := h.base.ei
  gw := h.gw
  gsz := h.gsz
  gk := fun g k hq => absurd hq (h.nq g k)
  ga := fun p => Or.inl (by unfold guardAw; rw [h.base.aw]; rfl)
  gfb := fun p _ hb => absurd rfl hb
  gr := fun e he hg => absurd hg (h.hm e he).1
  gu := fun a ha _ _ hg => absurd hg (h.hm a ha).1
  gc := fun e he ha => absurd (Or.inr ha) (h.hm e he).1
  gkc := fun c g _ k hq => absurd hq (h.nq g k)
  nz := fun e he hc => ⟨((h.hm e he).2.2 hc).1, ((h.hm e he).2.2 hc).2.1, ((h.hm e he).2.2 hc).2.2.1⟩
  oth := fun e he ha => absurd ha (h.base.nt e he)
  cl := fun e he => (h.hm e he).2.1

theorem InitOkG.nrinv {w : World} (h : InitOkG w) : NRInv w := fun x _ => ⟨h.base.aw x, h.bl x⟩

theorem InitOkG.all {w : World} (h : InitOkG w) (hs : SideOk w) : AllInv w :=
  ⟨h.base.pinv, h.base.tinv, h.ginv, h.nrinv, hs⟩

/-! ### what `GInvB` says -/

/-- I_guard: a key in a waiting list is a process that awaits exactly this guard and is suspended in a wait on it -/
theorem GInvB.queued_means {w : World} (h : GInvB w) {g k : Nat} (hq : queued w g k) :
    ∃ p f, k = p + 1 ∧ p < w.procs.size ∧ Await.guard g ∈ (w.proc p).awaits ∧ guardAw w p = [.guard g] ∧
      (w.proc p).blocked = some f ∧ FrameOn w f g := by
  obtain ⟨h1, h2, h3⟩ := h.gk g k hq
  have ha := h3 (noEx_not _)
  have ha' := mem_awaits_guard.1 ha
  refine ⟨k - 1, ?_⟩
  rcases h.ga (k - 1) with h0 | ⟨g', f, hf, hon, haw⟩
  · rw [h0] at ha'; cases ha'
  · rw [haw] at ha'
    have : g = g' := by simpa using ha'
    subst this
    exact ⟨f, by omega, by omega, ha, haw, hf, hon⟩

/-- a process awaits at most one guard, and only while suspended in a wait on that guard -/
theorem GInvB.one_guard {w : World} (h : GInvB w) (p : Pid) :
    guardAw w p = [] ∨ ∃ g f, (w.proc p).blocked = some f ∧ FrameOn w f g ∧ guardAw w p = [.guard g] := h.ga p

/-- no stale grants: a pending grant (aRes, SUCCESS) or condition wake-up (aCond) is addressed to a process that is
    suspended in a wait on a guard, still awaits that guard, has already been taken off its waiting list, and it is the
    only such event for that process -/
theorem GInvB.grant_owned {w : World} (h : GInvB w) {e : HTag} (he : e ∈ w.ev.pending) (hg : isGrant e) :
    ∃ p g f, e.item.b = p + 1 ∧ (w.proc p).blocked = some f ∧ FrameOn w f g ∧ guardAw w p = [.guard g] ∧
      ¬ queued w g (p + 1) ∧ (∀ g', ¬ queued w g' (p + 1)) ∧
      ∀ e' ∈ w.ev.pending, isGrant e' → e'.item.b = p + 1 → e' = e := by
  obtain ⟨hb0, h2⟩ := h.gr e he hg
  obtain ⟨g, hga, hnq⟩ := h2 (noEx_not _)
  have hb : e.item.b = (e.item.b - 1) + 1 := by omega
  have ha' := mem_awaits_guard.1 hga
  rcases h.ga (e.item.b - 1) with h0 | ⟨g', f, hf, hon, haw⟩
  · rw [h0] at ha'; cases ha'
  · rw [haw] at ha'
    have : g = g' := by simpa using ha'
    subst this
    refine ⟨e.item.b - 1, g, f, hb, hf, hon, haw, by rw [← hb]; exact hnq, ?_, ?_⟩
    · intro g' hq
      obtain ⟨p', f', hk, _, _, haw', _⟩ := h.queued_means hq
      have : p' = e.item.b - 1 := by omega
      subst this
      rw [haw] at haw'
      have : g = g' := by simpa using haw'
      subst this
      exact hnq (by rw [hb]; exact hq)
    · intro e' he' hg' hb'
      exact h.gu e' he' e he hg' hg (hb'.trans hb.symm) (noEx_not _)

/-- a condition wake-up goes to a process suspended in `cond_wait` -/
theorem GInvB.cond_owned {w : World} (h : GInvB w) {e : HTag} (he : e ∈ w.ev.pending) (ha : e.item.a = aCond) :
    ∃ c, (w.proc (e.item.b - 1)).blocked = some (.condWait c) := h.gc e he ha (noEx_not _)

/-- no stale hold wake-ups: a pending timer with the success code is the timer of the `hold` its process is suspended in -/
theorem GInvB.hold_owned {w : World} (h : GInvB w) {e : HTag} (he : e ∈ w.ev.pending) (ha : e.item.a = aTime)
    (hc : e.item.c = 0) : ∃ p, e.item.b = p + 1 ∧ (w.proc p).blocked = some (.hold e.key) := by
  obtain ⟨h1, h2⟩ := h.oth e he ha hc
  exact ⟨e.item.b - 1, by omega, h2 (noEx_not _)⟩

/-- interrupts, resumes and preemptions never carry the success code -/
theorem GInvB.nonzero {w : World} (h : GInvB w) {e : HTag} (he : e ∈ w.ev.pending) (hc : e.item.c = 0) :
    e.item.a ≠ aIntr ∧ e.item.a ≠ aResume ∧ e.item.a ≠ aPreempt := h.nz e he hc

/-! ### one cause per SUCCESS return -/

/-- the library wake-ups that can make a suspended call return SUCCESS -/
def isWake (a : Nat) : Prop := a = aTime ∨ a = aProc ∨ a = aEvent ∨ a = aRes ∨ a = aCond

/-- the cause of a pending SUCCESS wake-up, by kind -/
inductive Cause (w : World) (e : HTag) (p : Pid) : Prop
  | hold : e.item.a = aTime → (w.proc p).blocked = some (.hold e.key) → Cause w e p
  | proc (q : Pid) : e.item.a = aProc → (w.proc p).blocked = some (.waitProc q) → Cause w e p
  | event (k : Nat) : e.item.a = aEvent → (w.proc p).blocked = some (.waitEvent k) → Cause w e p
  | grant (f : Frame) (g : Nat) : isGrant e → (w.proc p).blocked = some f → FrameOn w f g → ¬ queued w g (p + 1) → Cause w e p

/-- NoStaleInv: every pending SUCCESS wake-up is addressed to a process that is suspended, right now, in exactly the
    call that wake-up belongs to: a timer in the hold that armed it, a process-end wake-up in `wait_process`, an
    event-done wake-up in `wait_event`, a grant / condition wake-up in a wait on a guard (and the process is already off
    the waiting list) -/
theorem AllInv.success_cause {w : World} (h : AllInv w) {e : HTag} (he : e ∈ w.ev.pending) (hc : e.item.c = 0)
    (hk : isWake e.item.a) {p : Pid} (hb : e.item.b = p + 1) : Cause w e p := by
  rcases hk with ha | ha | ha | ha | ha
  · obtain ⟨p', hb', hf⟩ := h.g.hold_owned he ha hc
    have : p' = p := by omega
    subst this
    exact .hold ha hf
  · obtain ⟨p', q, hb', hf, _⟩ := h.p.procWake_owned he ha
    have : p' = p := by omega
    subst this
    exact .proc q ha hf
  · obtain ⟨p', k, hb', hf, _⟩ := h.p.eventWake_owned he ha
    have : p' = p := by omega
    subst this
    exact .event k ha hf
  · have hg : isGrant e := Or.inl ⟨ha, hc⟩
    obtain ⟨p', g, f, hb', hf, hon, _, hnq, _⟩ := h.g.grant_owned he hg
    have : p' = p := by omega
    subst this
    exact .grant f g hg hf hon hnq
  · have hg : isGrant e := Or.inr ha
    obtain ⟨p', g, f, hb', hf, hon, _, hnq, _⟩ := h.g.grant_owned he hg
    have : p' = p := by omega
    subst this
    exact .grant f g hg hf hon hnq

/-- "for exactly one cause": at most one SUCCESS wake-up is pending for a process at any time -/
theorem AllInv.one_success_wakeup {w : World} (h : AllInv w) {e1 e2 : HTag} (h1 : e1 ∈ w.ev.pending)
    (h2 : e2 ∈ w.ev.pending) (hc1 : e1.item.c = 0) (hc2 : e2.item.c = 0) (hk1 : isWake e1.item.a) (hk2 : isWake e2.item.a)
    {p : Pid} (hb1 : e1.item.b = p + 1) (hb2 : e2.item.b = p + 1) : e1 = e2 := by
  have c1 := h.success_cause h1 hc1 hk1 hb1
  have c2 := h.success_cause h2 hc2 hk2 hb2
  cases c1 with
  | hold a1 f1 =>
    cases c2 with
    | hold a2 f2 =>
      rw [f1] at f2
      exact HashHeap.eq_of_key_eq h.g.ei.part.keysNodup h1 h2 (Frame.hold.inj (Option.some.inj f2))
    | proc q a2 f2 => rw [f1] at f2; cases f2
    | event k a2 f2 => rw [f1] at f2; cases f2
    | grant f g _ f2 hon _ => rw [f1] at f2; cases f2; exact hon.elim
  | proc q a1 f1 =>
    cases c2 with
    | hold a2 f2 => rw [f1] at f2; cases f2
    | proc q' a2 f2 =>
      obtain ⟨p', _, hb', _, _, _, _, hu⟩ := h.p.procWake_owned h1 a1
      exact (hu e2 h2 a2 (hb2.trans (hb1.symm.trans hb'))).symm
    | event k a2 f2 => rw [f1] at f2; cases f2
    | grant f g _ f2 hon _ => rw [f1] at f2; cases f2; exact hon.elim
  | event k a1 f1 =>
    cases c2 with
    | hold a2 f2 => rw [f1] at f2; cases f2
    | proc q a2 f2 => rw [f1] at f2; cases f2
    | event k' a2 f2 =>
      obtain ⟨p', _, hb', _, _, _, _, _, hu⟩ := h.p.eventWake_owned h1 a1
      exact (hu e2 h2 a2 (hb2.trans (hb1.symm.trans hb'))).symm
    | grant f g _ f2 hon _ => rw [f1] at f2; cases f2; exact hon.elim
  | grant f g g1 f1 hon _ =>
    cases c2 with
    | hold a2 f2 => rw [f1] at f2; cases f2; exact hon.elim
    | proc q a2 f2 => rw [f1] at f2; cases f2; exact hon.elim
    | event k a2 f2 => rw [f1] at f2; cases f2; exact hon.elim
    | grant f' g' g2 _ _ _ => exact h.g.gu e1 h1 e2 h2 g1 g2 (hb1.trans hb2.symm) (noEx_not _)

/-- the actions on which `dispatch` resumes a suspended process -/
def isResuming (a : Nat) : Prop :=
  a = aTime ∨ a = aProc ∨ a = aEvent ∨ a = aRes ∨ a = aPreempt ∨ a = aCond ∨ a = aIntr ∨ a = aResume

/-- whatever pending event would resume `p` with SUCCESS is the legitimate wake-up of the call `p` is suspended in -/
theorem AllInv.success_resume {w : World} (h : AllInv w) {e : HTag} (he : e ∈ w.ev.pending) (hc : e.item.c = 0)
    (hk : isResuming e.item.a) {p : Pid} (hb : e.item.b = p + 1) : isWake e.item.a ∧ Cause w e p := by
  have hnz := h.g.nonzero he hc
  have hw : isWake e.item.a := by
    rcases hk with ha | ha | ha | ha | ha | ha | ha | ha
    · exact Or.inl ha
    · exact Or.inr (Or.inl ha)
    · exact Or.inr (Or.inr (Or.inl ha))
    · exact Or.inr (Or.inr (Or.inr (Or.inl ha)))
    · exact absurd ha hnz.2.2
    · exact Or.inr (Or.inr (Or.inr (Or.inr ha)))
    · exact absurd ha hnz.1
    · exact absurd ha hnz.2.1
  exact ⟨hw, h.success_cause he hc hw hb⟩

/-- a process suspended in `hold` is resumed with SUCCESS only by the timer that hold armed -/
theorem AllInv.hold_success_only_own_timer {w : World} (h : AllInv w) {e : HTag} (he : e ∈ w.ev.pending)
    (hc : e.item.c = 0) (hk : isResuming e.item.a) {p : Pid} (hb : e.item.b = p + 1) {k : Nat}
    (hf : (w.proc p).blocked = some (.hold k)) : e.item.a = aTime ∧ e.key = k := by
  obtain ⟨_, c⟩ := h.success_resume he hc hk hb
  cases c with
  | hold a f => rw [hf] at f; exact ⟨a, (Frame.hold.inj (Option.some.inj f)).symm⟩
  | proc q a f => rw [hf] at f; cases f
  | event q a f => rw [hf] at f; cases f
  | grant f' g _ f hon _ => rw [hf] at f; cases f; exact hon.elim

end CimbaModel.Sim.S3
